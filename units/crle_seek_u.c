/* Verification unit: hdf/src/crle.c (C05) -- HCPcrle_seek / HCPcrle_endaccess: compressed-element seek semantics
 *   "... however the writes and reads are partitioned into calls and wherever forward or backward read seeks occur"
 *   seek to the CURRENT offset : nothing is touched (no rewind of the compressed stream, no write into it, no decode)
 *   seek BACKWARD             : the coder is re-initialised exactly once (one rewind), then skips forward from 0
 *   seek FORWARD              : skips forward, no rewind
 *   and nothing is ever written into the compressed stream unless encoder state is pending on a write access.
 * What the helpers do to the compressed element is observed through three ghost counters kept by the I/O stubs
 * (natively and when a helper is inlined) and by the helper contracts (when a helper is replaced):
 *   CS.nrew  rewinds  = Hseek(aid, 0, DF_START) calls      (HCIcrle_init does exactly one)
 *   CS.nwr   writes   = HDputc/Hwrite calls                 (HCIcrle_term does two when it has something to flush)
 *   CS.dpos  stream bytes decoded since the last rewind     (HCIcrle_decode adds `length`)
 * HCIcrle_init and HCIcrle_term are proved against these contracts here; HCIcrle_decode's is the offset-accounting
 * clause of the registered contract crle_decode_wf (crle_u.c), assumed here (trusted, proved-dependency).
 */
#include "h4v.h"
#include "h4v_err.h"
#include <string.h>

typedef long long h4v_i64;
struct cs_ghost_const {
    int32 aid;
    int   enc_pending; /* the RLE state holds bytes accepted by the ENCODER and not yet written (harness' knowledge) */
} CSC;
struct cs_ghost {
    int      nrew, nwr, nrd, nend;
    h4v_i64  dpos;
    int      failed;
    unsigned fail_mask; /* bit i: the i-th I/O call fails */
    unsigned io_n;
} CS;
#define CS_ALL __CPROVER_object_whole(&CS)

/* names used by the loop contracts of loops/crle.loops (injected without a guard into every copy of crle.c): this
   unit never reaches HCIcrle_encode, and HCIcrle_decode only as a replaced contract, so they are placeholders */
struct { int rst, wst; int32 dp, disk_n, emit; h4v_i64 dpos; } G;
#define g_rst    G.rst
#define g_wst    G.wst
#define g_dp     G.dp
#define g_disk_n G.disk_n
#define g_emit   G.emit
#define g_dpos   G.dpos
#define PENDING(r) 0
#define DEC_WF(r) 1
#define ENC_WF(r) 1
#define DEC_CODED(r) 1
#define ENC_CODED(r) 1
#define DEC_DELIVERED(lo, hi, p) 1
#define H4V_LOOPS_CRLE_SEEK

static int
io_fails(void)
{
    unsigned n = CS.io_n++;
    if (n < 32 && ((CS.fail_mask >> n) & 1u)) {
        CS.failed = 1;
        return 1;
    }
    return 0;
}
int
Hseek(int32 access_id, int32 offset, int origin)
{
    H4V_CHECK(access_id == CSC.aid && offset == 0 && origin == 0 /* DF_START */, "the coder only rewinds its own aid");
    CS.nrew++;
    if (io_fails())
        return FAIL;
    CS.dpos = 0;
    return SUCCEED;
}
int
HDputc(uint8 c, int32 access_id)
{
    H4V_CHECK(access_id == CSC.aid, "HDputc on the coder's own aid");
    CS.nwr++;
    if (io_fails())
        return FAIL;
    return (int)c;
}
int32
Hwrite(int32 access_id, int32 length, const void *data)
{
    H4V_CHECK(access_id == CSC.aid, "Hwrite on the coder's own aid");
    CS.nwr++;
    if (io_fails())
        return FAIL;
    return length;
}
/* reads (native replay only: under cbmc HCIcrle_decode is replaced by its contract): an endless stream of
   one-literal mix packets, so the real decoder delivers one stream byte per literal fetched */
int
HDgetc(int32 access_id)
{
    CS.nrd++;
    if (io_fails())
        return FAIL;
    return 0; /* count byte: mix of 1 */
}
int32
Hread(int32 access_id, int32 length, void *data)
{
    CS.nrd++;
    if (io_fails())
        return FAIL;
    memset(data, 0x5a, (size_t)length);
    CS.dpos += length;
    return length;
}
int32
Hstartread(int32 file_id, uint16 tag, uint16 ref)
{
    return CSC.aid;
}
int32
Hstartaccess(int32 file_id, uint16 tag, uint16 ref, uint32 flags)
{
    return CSC.aid;
}
int
Hendaccess(int32 access_id)
{
    H4V_CHECK(access_id == CSC.aid, "Hendaccess on the coder's own aid");
    CS.nend++;
    return io_fails() ? FAIL : SUCCEED;
}

#include "crle.c"

#define RF(info, f) ((info)->cinfo.coder_info.rle_info.f)
#define AR_INFO(ar) ((compinfo_t *)(ar)->special_info)
#define H4V_NIL 0xffffffffu /* (unsigned)RLE_NIL */
#define RLE_EMPTY(info)                                                                              \
    (RF(info, rle_state) == RLE_INIT && RF(info, last_byte) == H4V_NIL && RF(info, second_byte) == H4V_NIL && \
     RF(info, buf_pos) == 0 && RF(info, offset) == 0)

/* ------------------------------ helper contracts ---------------------------- */
/* every (re)start of coding from offset 0 leaves the run-detection state empty (item 3 of the task): exactly one
   rewind, no write; a failing rewind leaves the state alone */
static int32 HCIcrle_init(accrec_t *access_rec)
    __CPROVER_requires(access_rec != NULL && access_rec->special_info != NULL && AR_INFO(access_rec)->aid == CSC.aid)
    __CPROVER_assigns(RF(AR_INFO(access_rec), offset), RF(AR_INFO(access_rec), rle_state), RF(AR_INFO(access_rec), last_byte),
                      RF(AR_INFO(access_rec), second_byte), RF(AR_INFO(access_rec), buf_pos), RF(AR_INFO(access_rec), encoding), CS_ALL)
    __CPROVER_ensures(__CPROVER_return_value == SUCCEED || __CPROVER_return_value == FAIL)
    __CPROVER_ensures(__CPROVER_return_value == SUCCEED ==> RF(AR_INFO(access_rec), encoding) == 0)
    __CPROVER_ensures(CS.nrew == __CPROVER_old(CS.nrew) + 1 && CS.nwr == __CPROVER_old(CS.nwr) && CS.nrd == __CPROVER_old(CS.nrd) &&
                      CS.nend == __CPROVER_old(CS.nend))
    __CPROVER_ensures(__CPROVER_return_value == SUCCEED ==> (RLE_EMPTY(AR_INFO(access_rec)) && CS.dpos == 0))
    __CPROVER_ensures(__CPROVER_return_value == FAIL ==>
                      (CS.failed == 1 && RF(AR_INFO(access_rec), offset) == __CPROVER_old(RF(AR_INFO(access_rec), offset)) &&
                       RF(AR_INFO(access_rec), rle_state) == __CPROVER_old(RF(AR_INFO(access_rec), rle_state))));

/* the flush leaves no byte state behind that a following encode could pick up; no rewind, position kept */
static int32 HCIcrle_term(compinfo_t *info)
    __CPROVER_requires(info != NULL && info->aid == CSC.aid)
    __CPROVER_requires(RF(info, rle_state) == RLE_INIT || (RF(info, rle_state) == RLE_RUN && RF(info, buf_length) >= 1 && RF(info, buf_length) <= RLE_MAX_RUN) ||
                       (RF(info, rle_state) == RLE_MIX && RF(info, buf_length) >= 1 && RF(info, buf_length) <= RLE_BUF_SIZE))
    __CPROVER_assigns(RF(info, rle_state), RF(info, encoding), RF(info, last_byte), RF(info, second_byte), CS_ALL)
    __CPROVER_ensures(__CPROVER_return_value == SUCCEED || __CPROVER_return_value == FAIL)
    __CPROVER_ensures(__CPROVER_return_value == SUCCEED ==> RF(info, encoding) == 0)
    __CPROVER_ensures(CS.nrew == __CPROVER_old(CS.nrew) && CS.dpos == __CPROVER_old(CS.dpos) && CS.nrd == __CPROVER_old(CS.nrd) &&
                      CS.nend == __CPROVER_old(CS.nend))
    __CPROVER_ensures(__CPROVER_old(RF(info, rle_state)) == RLE_INIT ==>
                      (__CPROVER_return_value == FAIL && CS.nwr == __CPROVER_old(CS.nwr)))
    __CPROVER_ensures(__CPROVER_return_value == SUCCEED ==>
                      (CS.nwr == __CPROVER_old(CS.nwr) + 2 && RF(info, rle_state) == RLE_INIT && RF(info, last_byte) == H4V_NIL &&
                       RF(info, second_byte) == H4V_NIL))
    __CPROVER_ensures(__CPROVER_return_value == FAIL ==> (__CPROVER_old(RF(info, rle_state)) == RLE_INIT || CS.failed == 1))
    __CPROVER_ensures(CS.nwr >= __CPROVER_old(CS.nwr) && CS.nwr <= __CPROVER_old(CS.nwr) + 2);

/* TRUSTED here (offset accounting of the registered contract crle_decode_wf): a successful decode of `length`
   bytes advances offset and the decoded-stream position by `length`; it neither rewinds nor writes.
   The requires is the obligation of the seek loop: 1..TMP_BUF_SIZE bytes into a buffer that can take them. */
static int32 HCIcrle_decode(compinfo_t *info, int32 length, uint8 *buf)
    __CPROVER_requires(info != NULL && info->aid == CSC.aid && length >= 1 && length <= TMP_BUF_SIZE)
    __CPROVER_requires(__CPROVER_w_ok(buf, length))
    __CPROVER_requires(RF(info, offset) >= 0 && length <= 0x7fffffff - RF(info, offset))
    __CPROVER_assigns(RF(info, offset), RF(info, rle_state), RF(info, last_byte), RF(info, buf_length), RF(info, buf_pos),
                      __CPROVER_object_upto(RF(info, buffer), RLE_BUF_SIZE), __CPROVER_object_upto(buf, length), CS_ALL)
    __CPROVER_ensures(__CPROVER_return_value == SUCCEED || __CPROVER_return_value == FAIL)
    __CPROVER_ensures(CS.nrew == __CPROVER_old(CS.nrew) && CS.nwr == __CPROVER_old(CS.nwr) && CS.nend == __CPROVER_old(CS.nend))
    __CPROVER_ensures(__CPROVER_return_value == SUCCEED ==>
                      (RF(info, offset) == __CPROVER_old(RF(info, offset)) + length && CS.dpos == __CPROVER_old(CS.dpos) + length &&
                       CS.nrd > __CPROVER_old(CS.nrd)))
    __CPROVER_ensures(__CPROVER_return_value == FAIL ==> CS.failed == 1);

/* -------------------------------- the seek contract ------------------------- */
#define SEEK_NOTHING_TOUCHED(ar)                                                                     \
    (CS.nrew == __CPROVER_old(CS.nrew) && CS.nwr == __CPROVER_old(CS.nwr) && CS.nrd == __CPROVER_old(CS.nrd) && \
     CS.dpos == __CPROVER_old(CS.dpos) && RF(AR_INFO(ar), offset) == __CPROVER_old(RF(AR_INFO(ar), offset)) && \
     RF(AR_INFO(ar), rle_state) == __CPROVER_old(RF(AR_INFO(ar), rle_state)) &&                      \
     RF(AR_INFO(ar), last_byte) == __CPROVER_old(RF(AR_INFO(ar), last_byte)) &&                      \
     RF(AR_INFO(ar), second_byte) == __CPROVER_old(RF(AR_INFO(ar), second_byte)) &&                  \
     RF(AR_INFO(ar), buf_length) == __CPROVER_old(RF(AR_INFO(ar), buf_length)) &&                    \
     RF(AR_INFO(ar), buf_pos) == __CPROVER_old(RF(AR_INFO(ar), buf_pos)))
int32 HCPcrle_seek(accrec_t *access_rec, int32 offset, int origin)
    __CPROVER_requires(access_rec != NULL && access_rec->special_info != NULL && AR_INFO(access_rec)->aid == CSC.aid)
    __CPROVER_requires(offset >= 0 && RF(AR_INFO(access_rec), offset) >= 0) /* HCPseek rejects negative targets */
    /* A-RLE-2G: `offset + TMP_BUF_SIZE` is computed in int32 */
    __CPROVER_requires(RF(AR_INFO(access_rec), offset) <= 0x7fffffff - TMP_BUF_SIZE && offset <= 0x7fffffff - TMP_BUF_SIZE)
    __CPROVER_requires(RF(AR_INFO(access_rec), rle_state) == RLE_INIT ||
                       (RF(AR_INFO(access_rec), rle_state) == RLE_RUN && RF(AR_INFO(access_rec), buf_length) >= 1 &&
                        RF(AR_INFO(access_rec), buf_length) <= RLE_MAX_RUN) ||
                       (RF(AR_INFO(access_rec), rle_state) == RLE_MIX && RF(AR_INFO(access_rec), buf_length) >= 1 &&
                        RF(AR_INFO(access_rec), buf_length) <= RLE_BUF_SIZE))
    /* the decoded-stream position is where the coder says it is; pending encoder state only on a write access */
    __CPROVER_requires(CS.dpos == RF(AR_INFO(access_rec), offset))
    __CPROVER_requires(!CSC.enc_pending || ((access_rec->access & DFACC_WRITE) && RF(AR_INFO(access_rec), rle_state) != RLE_INIT))
    /* the coder's own record of the history (kept by HCIcrle_encode / _init / _term, see crle_u.c): set whenever encoder state is pending */
    __CPROVER_requires(CSC.enc_pending ? RF(AR_INFO(access_rec), encoding) == 1
                                       : (RF(AR_INFO(access_rec), rle_state) == RLE_INIT || RF(AR_INFO(access_rec), encoding) == 0))
    __CPROVER_assigns(RF(AR_INFO(access_rec), offset), RF(AR_INFO(access_rec), rle_state), RF(AR_INFO(access_rec), last_byte), RF(AR_INFO(access_rec), encoding),
                      RF(AR_INFO(access_rec), second_byte), RF(AR_INFO(access_rec), buf_length), RF(AR_INFO(access_rec), buf_pos),
                      __CPROVER_object_upto(RF(AR_INFO(access_rec), buffer), RLE_BUF_SIZE), CS_ALL)
    __CPROVER_ensures(__CPROVER_return_value == SUCCEED || __CPROVER_return_value == FAIL)
    __CPROVER_ensures(__CPROVER_return_value == FAIL ==> CS.failed == 1)
    /* a seek to the current position is not a backward seek: nothing is touched */
    __CPROVER_ensures(offset == __CPROVER_old(RF(AR_INFO(access_rec), offset)) ==>
                      (__CPROVER_return_value == SUCCEED && SEEK_NOTHING_TOUCHED(access_rec)))
    /* backward: exactly one rewind (none only if the flush before it failed), reads restart from 0 and skip forward to the target */
    __CPROVER_ensures((offset < __CPROVER_old(RF(AR_INFO(access_rec), offset)) && __CPROVER_return_value == SUCCEED) ==>
                      CS.nrew == __CPROVER_old(CS.nrew) + 1)
    __CPROVER_ensures(CS.nrew >= __CPROVER_old(CS.nrew) && CS.nrew <= __CPROVER_old(CS.nrew) + 1)
    /* forward (or current): no rewind */
    __CPROVER_ensures((offset >= __CPROVER_old(RF(AR_INFO(access_rec), offset))) ==> CS.nrew == __CPROVER_old(CS.nrew))
    __CPROVER_ensures(__CPROVER_return_value == SUCCEED ==> (RF(AR_INFO(access_rec), offset) == offset && CS.dpos == offset))
    /* nothing is written into the compressed stream except the flush of pending ENCODER state before a rewind */
    __CPROVER_ensures(CS.nwr != __CPROVER_old(CS.nwr) ==>
                      (CSC.enc_pending && offset < __CPROVER_old(RF(AR_INFO(access_rec), offset))))
    /* ... and that flush is not skipped: a rewind never discards pending encoder state */
    __CPROVER_ensures((CSC.enc_pending && offset < __CPROVER_old(RF(AR_INFO(access_rec), offset)) &&
                       __CPROVER_return_value == SUCCEED) ==> CS.nwr == __CPROVER_old(CS.nwr) + 2);

/* ending access: flushes pending ENCODER state (and only that), then releases the aid exactly once */
int HCPcrle_endaccess(accrec_t *access_rec)
    __CPROVER_requires(access_rec != NULL && access_rec->special_info != NULL && AR_INFO(access_rec)->aid == CSC.aid)
    __CPROVER_requires(RF(AR_INFO(access_rec), rle_state) == RLE_INIT ||
                       (RF(AR_INFO(access_rec), rle_state) == RLE_RUN && RF(AR_INFO(access_rec), buf_length) >= 1 &&
                        RF(AR_INFO(access_rec), buf_length) <= RLE_MAX_RUN) ||
                       (RF(AR_INFO(access_rec), rle_state) == RLE_MIX && RF(AR_INFO(access_rec), buf_length) >= 1 &&
                        RF(AR_INFO(access_rec), buf_length) <= RLE_BUF_SIZE))
    __CPROVER_requires(!CSC.enc_pending || ((access_rec->access & DFACC_WRITE) && RF(AR_INFO(access_rec), rle_state) != RLE_INIT))
    __CPROVER_requires(CSC.enc_pending ? RF(AR_INFO(access_rec), encoding) == 1
                                       : (RF(AR_INFO(access_rec), rle_state) == RLE_INIT || RF(AR_INFO(access_rec), encoding) == 0))
    __CPROVER_assigns(RF(AR_INFO(access_rec), rle_state), RF(AR_INFO(access_rec), encoding), RF(AR_INFO(access_rec), last_byte), RF(AR_INFO(access_rec), second_byte), CS_ALL)
    __CPROVER_ensures(__CPROVER_return_value == SUCCEED || __CPROVER_return_value == FAIL)
    __CPROVER_ensures(__CPROVER_return_value == FAIL ==> CS.failed == 1)
    __CPROVER_ensures(CS.nrew == __CPROVER_old(CS.nrew) && CS.nrd == __CPROVER_old(CS.nrd))
    __CPROVER_ensures(CS.nwr != __CPROVER_old(CS.nwr) ==> CSC.enc_pending)
    __CPROVER_ensures((CSC.enc_pending && __CPROVER_return_value == SUCCEED) ==> CS.nwr == __CPROVER_old(CS.nwr) + 2)
    __CPROVER_ensures(__CPROVER_return_value == SUCCEED ==> CS.nend == __CPROVER_old(CS.nend) + 1);

#ifdef H4V_NATIVE
#include "h4v_native_wrap.h"
#endif

/* -------------------------------- harnesses -------------------------------- */
H4V_DECL_ND(int32);
H4V_DECL_ND(int);
H4V_DECL_ND(unsigned);

static accrec_t *
mk_env(void)
{
    H4V_ND(int32, g_aid_0);
    H4V_ND(unsigned, g_fail_mask_0);
    H4V_ND(int, g_nrew_0);
    H4V_ND(int, g_nwr_0);
    H4V_ND(int, g_nrd_0);
    H4V_ND(int, g_nend_0);
    H4V_ASSUME(g_nrew_0 >= 0 && g_nrew_0 < 1000 && g_nwr_0 >= 0 && g_nwr_0 < 1000 && g_nrd_0 >= 0 && g_nrd_0 < 1000 &&
               g_nend_0 >= 0 && g_nend_0 < 1000);
    CSC.aid      = g_aid_0;
    CS.fail_mask = g_fail_mask_0;
    CS.io_n      = 0;
    CS.failed    = 0;
    CS.nrew      = g_nrew_0;
    CS.nwr       = g_nwr_0;
    CS.nrd       = g_nrd_0;
    CS.nend      = g_nend_0;
    compinfo_t *info = malloc(sizeof(compinfo_t));
    accrec_t   *ar   = malloc(sizeof(accrec_t));
    H4V_ASSUME(info != NULL && ar != NULL);
#ifdef H4V_NATIVE
    memset(info, 0, sizeof(compinfo_t));
    memset(ar, 0, sizeof(accrec_t));
#endif
    H4V_ND(int32, st_offset);
    H4V_ND(int, st_state);
    H4V_ND(int, st_buf_length);
    H4V_ND(int, st_buf_pos);
    H4V_ND(unsigned, st_last);
    H4V_ND(unsigned, st_second);
    H4V_ND(unsigned, ar_access);
    H4V_ND(int, enc_pending);
    H4V_ND(int, enc_flag);
    RF(info, encoding)    = enc_flag != 0;
    info->aid             = CSC.aid;
    RF(info, offset)      = st_offset;
    RF(info, rle_state)   = st_state;
    RF(info, buf_length)  = st_buf_length;
    RF(info, buf_pos)     = st_buf_pos;
    RF(info, last_byte)   = st_last;
    RF(info, second_byte) = st_second;
    ar->special_info      = info;
    ar->access            = ar_access;
    CSC.enc_pending       = enc_pending != 0;
    CS.dpos               = st_offset;
    return ar;
}

void
h_crle_seek_init(void)
{
    accrec_t *ar = mk_env();
    int32     r  = HCIcrle_init(ar);
    H4V_COVER(r == SUCCEED, "init ok");
    H4V_COVER(r == FAIL, "init rewind failure");
    H4V_CANARY("crle_seek_init end");
}

void
h_crle_seek_term(void)
{
    accrec_t *ar  = mk_env();
    int       st0 = RF(AR_INFO(ar), rle_state);
    int32     r   = HCIcrle_term(AR_INFO(ar));
    H4V_COVER(r == SUCCEED && st0 == RLE_RUN, "term flushes a run");
    H4V_COVER(r == SUCCEED && st0 == RLE_MIX, "term flushes a mix");
    H4V_COVER(r == FAIL && st0 == RLE_INIT, "term in INIT fails");
    H4V_COVER(r == FAIL && st0 != RLE_INIT, "term I/O failure");
    H4V_CANARY("crle_seek_term end");
}

/* SEEK_HIST 0 (default): the RLE state is encoder state exactly when it is not INIT and the access can write
   (what a write-only history produces), or the access is read-only (decoder state, never flushed);
   SEEK_HIST 1: decoder state on an access that can write (a read on a read/write access, then the seek) */
#ifndef SEEK_HIST
#define SEEK_HIST 0
#endif
static void
assume_history(accrec_t *ar)
{
#if SEEK_HIST == 0
    H4V_ASSUME(!(ar->access & DFACC_WRITE) ? !CSC.enc_pending : (CSC.enc_pending == (RF(AR_INFO(ar), rle_state) != RLE_INIT)));
#else
    H4V_ASSUME((ar->access & DFACC_WRITE) && !CSC.enc_pending);
#endif
    /* the history invariant of the coder's flag: set by the encoder, cleared by init / term, untouched by the decoder */
    H4V_ASSUME(CSC.enc_pending ? RF(AR_INFO(ar), encoding) == 1 : (RF(AR_INFO(ar), rle_state) == RLE_INIT || RF(AR_INFO(ar), encoding) == 0));
}

void
h_crle_seek(void)
{
    accrec_t *ar = mk_env();
    assume_history(ar);
    H4V_ND(int32, offset);
    H4V_ND(int, origin);
    int32 off0 = RF(AR_INFO(ar), offset);
    int   nrd0 = CS.nrd;
    int32 r    = HCPcrle_seek(ar, offset, origin);
    H4V_COVER(r == SUCCEED && offset == off0, "seek to the current position");
    H4V_COVER(r == SUCCEED && offset < off0 && offset > 0, "backward seek with skip");
    H4V_COVER(r == SUCCEED && (h4v_i64)offset > (h4v_i64)off0 + 3 * 8192, "forward seek over several chunks");
    H4V_COVER(r == FAIL, "seek failure");
#if SEEK_HIST == 0
    H4V_COVER(r == SUCCEED && CSC.enc_pending && offset < off0, "pending encoder state flushed before the rewind");
#endif
    H4V_CANARY("crle_seek end");
}

void
h_crle_endaccess(void)
{
    accrec_t *ar = mk_env();
    assume_history(ar);
    int r = HCPcrle_endaccess(ar);
    H4V_COVER(r == SUCCEED, "endaccess ok");
    H4V_COVER(r == FAIL, "endaccess failure");
    H4V_CANARY("crle_endaccess end");
}

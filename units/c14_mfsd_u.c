/* Verification unit: mfhdf/src/mfsd.c -- C14 (read-only access) at the SD layer: SDcreate on a
 * file opened read-only (handle->flags without NC_RDWR).
 *
 * The netCDF-layer constructors (NC_new_dim, NC_new_var, NC_new_array, NC_incr_array,
 * NC_var_shape of var.c / array.c / dim.c) are trusted stubs that only do what SDcreate needs;
 * each of them CHECKs that it is not asked to build a new stored object for a read-only file.
 * Clause from the property: SDcreate must return FAIL and leave the variable table as it was.
 */
#include "h4v.h"
#include "h4v_err.h"
#include "nc_priv.h"
H4V_DECL_ND(int);
H4V_DECL_ND(int32);
H4V_DECL_ND(unsigned);

NC      *g_handle;  /* the open SD file: flags without NC_RDWR */
NC_array g_vars;    /* its variable table */
int      g_built_n; /* stored-object constructors reached */
#define C14_SD_FID 5 /* representative SD file slot (ids are (fid << 20) | (type << 16) | index) */
#define C14_SD_BUILD(name)                                                                                   \
    do {                                                                                                     \
        H4V_CHECK(g_handle == NULL || (g_handle->flags & NC_RDWR), "C14: " name " for a file opened read-only"); \
        g_built_n++;                                                                                         \
    } while (0)

NC *
NC_check_id(int cdfid)
{
    return cdfid == C14_SD_FID ? g_handle : NULL;
}
nc_type
hdf_unmap_type(int type)
{
    H4V_ND(int, unmap_ret);
    return (nc_type)unmap_ret;
}
int
DFKNTsize(int32 number_type)
{
    H4V_ND(int, ntsize);
    H4V_ASSUME(ntsize == FAIL || (ntsize >= 1 && ntsize <= 8));
    return ntsize;
}
uint16
Hnewref(int32 file_id)
{
    return 7;
}
NC_dim *
NC_new_dim(const char *name, long size)
{
    C14_SD_BUILD("new dimension");
    return calloc(1, sizeof(NC_dim));
}
NC_var *
NC_new_var(const char *name, nc_type type, int ndims, const int *dims)
{
    C14_SD_BUILD("new variable");
    return calloc(1, sizeof(NC_var));
}
NC_array *
NC_new_array(nc_type type, unsigned count, const void *values)
{
    C14_SD_BUILD("new object table");
    NC_array *a = calloc(1, sizeof(NC_array));
    if (a != NULL)
        a->count = count;
    return a;
}
uint8_t *
NC_incr_array(NC_array *array, uint8_t *tail)
{
    C14_SD_BUILD("object table extended");
    array->count++;
    return (uint8_t *)array;
}
int
NC_var_shape(NC_var *var, NC_array *dims)
{
    return 0;
}

#include "mfsd.c"

int32 SDcreate(int32 fid, const char *name, int32 nt, int32 rank, int32 *dimsizes)
    __CPROVER_requires(g_handle != NULL && !(g_handle->flags & NC_RDWR) && g_handle->vars == &g_vars && g_built_n == 0)
    __CPROVER_requires(rank == 0) /* bound of this stand-in: a scalar dataset (no dimension loop) */
    __CPROVER_assigns(__CPROVER_object_whole(g_handle), g_vars, g_built_n)
    __CPROVER_ensures(__CPROVER_return_value == FAIL)
    __CPROVER_ensures(g_vars.count == __CPROVER_old(g_vars.count) && g_built_n == 0)
    __CPROVER_ensures(g_handle->flags == __CPROVER_old(g_handle->flags));

#ifdef H4V_NATIVE
#include "h4v_native_wrap.h"
#endif

void
h_c14_SDcreate(void)
{
    g_handle = calloc(1, sizeof(NC));
    H4V_ASSUME(g_handle != NULL);
    H4V_ND(unsigned, h_flags);
    H4V_ND(unsigned, nvars);
    H4V_ND(int32, nt);
    H4V_ASSUME(nvars < 1000);
    g_handle->flags    = h_flags & ~(unsigned)NC_RDWR;
    g_handle->hdf_mode = DFACC_RDONLY;
    g_handle->file_type = HDF_FILE;
    g_vars.count       = nvars;
    g_vars.values      = NULL;
    g_handle->vars     = &g_vars;
    g_handle->dims     = NULL;
    g_built_n          = 0;
    char  name[3] = {'d', 's', '\0'};
    int32 dims[1] = {4};
    int32 r = SDcreate((int32)C14_SD_FID << 20 | (int32)CDFTYPE << 16, name, nt, 0, dims);
    H4V_CANARY("SDcreate end");
}

#include "mfhdf.h"
#include <stdio.h>
int main(void){
 int32 a=SDstart("ra.hdf",DFACC_CREATE), b=SDstart("rb.hdf",DFACC_CREATE);
 int32 dims[1]={4}; int32 s=SDcreate(b,"x",DFNT_INT32,1,dims); SDendaccess(s);
 SDend(a);
 int r=SDreset_maxopenfiles(100);
 int32 nd=-1,na=-1; intn st=SDfileinfo(b,&nd,&na);
 printf("reset=%d fileinfo=%d nd=%d\n",r,st,nd);
 intn e=SDend(b);
 return (st==SUCCEED && nd==1 && e==SUCCEED)?0:1; }

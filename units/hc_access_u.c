/* Verification unit: hdf/src/hcomp.c -- HCIstaccess (C14 invariant of the access bits, C13 protocol of Hstartaccess).
 * Environment and stubs: stubs/stacc_common.h.  The header reader and the model / coder set-up (same file: they decode
 * the compression header and fill in function tables) are replaced by trusted contracts that touch the special-info
 * record only. */
#include "h4v.h"
#include "h4v_err.h"
#include "stacc_common.h"
#include "hcomp.c"

static int32 HCIread_header(accrec_t *access_rec, compinfo_t *info, comp_info *c_info, model_info *m_info)
    __CPROVER_requires(access_rec == g_arec && info != NULL && c_info != NULL && m_info != NULL)
    __CPROVER_assigns(__CPROVER_object_whole(info), __CPROVER_object_whole(c_info), __CPROVER_object_whole(m_info))
    __CPROVER_ensures(__CPROVER_return_value == SUCCEED || __CPROVER_return_value == FAIL);
static int32 HCIinit_model(int16 acc_mode, comp_model_info_t *minfo, comp_model_t model_type, model_info *m_info)
    __CPROVER_requires(minfo != NULL)
    __CPROVER_assigns(__CPROVER_object_whole(minfo))
    __CPROVER_ensures(__CPROVER_return_value == SUCCEED || __CPROVER_return_value == FAIL);
static int32 HCIinit_coder(int16 acc_mode, comp_coder_info_t *cinfo, comp_coder_t coder_type, comp_info *c_info)
    __CPROVER_requires(cinfo != NULL)
    __CPROVER_assigns(__CPROVER_object_whole(cinfo))
    __CPROVER_ensures(__CPROVER_return_value == SUCCEED || __CPROVER_return_value == FAIL);

static int32 HCIstaccess(accrec_t *access_rec, int16 acc_mode)
    __CPROVER_requires(ST_ENV)
    __CPROVER_assigns(__CPROVER_object_whole(g_arec), g_frec->attach, g_reg_ptr, g_reg_grp, g_registered, g_reg_n, g_relrec_n, g_inner_n, g_inner_w_n)
    /* C14: the invariant Hwrite relies on -- a write bit only on a file opened for writing */
    __CPROVER_ensures(__CPROVER_return_value != FAIL ==> (!(g_arec->access & DFACC_WRITE) || (g_frec->access & DFACC_WRITE) != 0))
    __CPROVER_ensures((__CPROVER_return_value != FAIL && acc_mode == DFACC_READ) ==> (g_arec->access & DFACC_WRITE) == 0)
    /* write access to a file opened read-only (or through a bad file id) is refused before the record is touched */
    __CPROVER_ensures((g_frec_bad || (acc_mode == DFACC_WRITE && (g_frec->access & DFACC_WRITE) == 0)) ==>
                      (__CPROVER_return_value == FAIL && g_arec->access == g_access0 && g_reg_n == 0 && g_inner_n == 0 &&
                       g_arec->special == __CPROVER_old(g_arec->special) && g_arec->posn == __CPROVER_old(g_arec->posn)))
    /* C13: success = exactly one new id for this record, one more attached element, record fully set up */
    __CPROVER_ensures(__CPROVER_return_value != FAIL ==>
                      (__CPROVER_return_value == g_newaid && g_registered && g_reg_n == 1 && g_reg_ptr == (void *)g_arec &&
                       g_reg_grp == (int)AIDGROUP && g_arec->access == (uint32)(acc_mode | DFACC_READ) && g_arec->posn == 0 &&
                       g_arec->special == SPECIAL_COMP && g_arec->special_info != NULL && g_arec->file_id == g_fid &&
                       g_frec->attach == __CPROVER_old(g_frec->attach) + 1))
    /* failure: no id, attach unchanged; the record stays with the caller (Hstartaccess releases it, hfile.c:965) */
    __CPROVER_ensures(__CPROVER_return_value == FAIL ==>
                      (!g_registered && g_reg_n == 0 && g_frec->attach == __CPROVER_old(g_frec->attach) && g_relrec_n == 0))
    __CPROVER_ensures(g_inner_w_n == 0);

#ifdef H4V_NATIVE
#include "h4v_native_wrap.h"
#endif

void
h_HCIstaccess(void)
{
    stacc_mk_env();
    H4V_ND(int16, acc_mode);
    int32 r = HCIstaccess(g_arec, acc_mode);
    H4V_COVER(r != FAIL && acc_mode == DFACC_READ && !ST_WR(g_frec), "HCIstaccess read access on a read-only file");
    H4V_COVER(r != FAIL && acc_mode == DFACC_WRITE, "HCIstaccess write access on a writable file");
    H4V_COVER(r == FAIL && acc_mode == DFACC_WRITE && !ST_WR(g_frec), "HCIstaccess write access on a read-only file refused");
    H4V_COVER(r == FAIL && acc_mode == DFACC_READ && !g_frec_bad, "HCIstaccess failed late");
    H4V_CANARY("HCIstaccess end");
}

"""C03 (I/O side) and C04/C05/C02 header round trip: NCvario odometer, first-write fill in
hdf_xdr_NCvdata, SDwritedata/SDreaddata routing, SDsetchunk fill value, HCPencode/decode_header.
Property C03 is owned by c03_sd.py (no prop() call here)."""
from .core import ob

# ----------------------------------------------------------------------------- mfsd.c
RW = dict(unit="mfsd_rw_u.c", file="mfhdf/src/mfsd.c", objbits=8, cex_unwind=10,
          trusted=["NC_check_id", "HCPgetcomptype", "HCget_config_info", "Hendaccess", "NCvario(stub)", "NCgenio(stub)"])
# rank 0..4 is the rank domain of the property statement; the loops over the dimensions are unwound
ob("SDwritedata_route", "C03", entry="h_SDwritedata_route", enforce="SDwritedata", mode="proved-finite",
   bound="rank 0..4 (the ranks the property quantifies over), dataset ids only", unwind=6, defines=["MAXR=4"], **RW)
ob("SDreaddata_route", "C03", entry="h_SDreaddata_route", enforce="SDreaddata", mode="proved-finite",
   bound="rank 0..4 (the ranks the property quantifies over), dataset ids only", unwind=6, defines=["MAXR=4"], **RW)

SC = dict(unit="mfsd_rw_u.c", file="mfhdf/src/mfsd.c", objbits=8, cex_unwind=10,
          trusted=["NC_check_id", "HCget_config_info", "Hendaccess", "Hnewref", "NC_findattr", "NC_copy_arrayvals",
                   "DFKgetPNSC/DFKisnativeNT/DFKislitendNT (reproduced)", "DFKconvert(stub: arbitrary output)",
                   "HMCcreate(stub: records what it gets)"])
ob("SDsetchunk_fill", "C04", entry="h_SDsetchunk", enforce="SDsetchunk", mode="bounded",
   bound="rank 0..4, chunk lengths <= 128 (element count of a chunk fits int32); all number types of size 1/2/4/8, "
         "standard/native/little-endian, user-set or default fill value, all three chunk-definition layouts",
   unwind=10, defines=["MAXR=4"], **SC)

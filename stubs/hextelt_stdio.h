/* Trusted stub bodies for the stdio calls of hextelt.c: the ghost disk of the EXTERNAL file.
 *
 * Two streams are modelled, because HXPwrite may hold the stream it was given and open a second one
 * (retry after a failed write): stream 0 is the one the special-info record holds on entry, stream 1
 * is what fopen() returns in this call.  Per stream: open flag, write permission (from the fopen mode),
 * position.  Every call may fail nondeterministically (g_io_may_fail); a write on a stream that was
 * opened read-only fails (that is what the retry in HXPwrite is for).
 * Caller obligations checked here (H4V_CHECK):
 *   C14  no fwrite at all unless the HDF file was opened for writing          (g_hdf_writable)
 *   C01  fread/fwrite stay inside the caller's buffer (r_ok / w_ok), streams valid and open
 *   C16  no stream is closed twice, no NULL stream is closed
 * Ghost log: last read/write (stream, offset, length), counters.
 * The stubs are named hx_<fn> and put in place by macros (include this header after the system headers and before
 * hextelt.c): nothing of libc is interposed, so the native replay driver keeps its own stdio.
 */
#ifndef HEXTELT_STDIO_H
#define HEXTELT_STDIO_H
#include <stdio.h>
#include <limits.h>
#include "h4v.h"

H4V_DECL_ND(int);
H4V_DECL_ND(long);
H4V_DECL_ND(size_t);

static char g_s0_obj[8], g_s1_obj[8];
#define XS0 ((FILE *)g_s0_obj)
#define XS1 ((FILE *)g_s1_obj)
int  g_s_open[2], g_s_writable[2], g_s_posvalid[2];
long g_s_pos[2];
int  g_io_failed, g_io_may_fail, g_close_failed;
int  g_hdf_writable; /* C14: the HDF file that references the external file is open for writing */
int  g_rd_n, g_wr_n, g_seek_n, g_open_n, g_close_n;
int  g_rd_s, g_wr_s;           /* stream of the last read / write */
long g_rd_off, g_rd_len, g_wr_off, g_wr_len;
int  g_open_may_fail;
int  g_open_write;             /* mode of the last fopen had write permission */

static int h4v_fail(void)
{
    if (!g_io_may_fail)
        return 0;
    H4V_ND(int, io_fault);
    if (io_fault) {
        g_io_failed = 1;
        return 1;
    }
    return 0;
}
static int xs_index(FILE *f)
{
    H4V_CHECK(f == XS0 || f == XS1, "stdio: call on a valid stream (not NULL, not stale)");
    return f == XS1 ? 1 : 0;
}

static FILE *hx_fopen(const char *path, const char *mode)
{
    H4V_CHECK(path != NULL && mode != NULL, "stdio: fopen arguments");
    H4V_CHECK(!g_s_open[1], "model: at most one stream is opened per call");
    g_open_n++;
    g_open_write = mode[0] == 'w' || mode[1] == '+' || (mode[1] != 0 && mode[2] == '+');
    if (g_open_may_fail) {
        H4V_ND(int, open_fault);
        if (open_fault)
            return NULL;
    }
    g_s_open[1]     = 1;
    g_s_writable[1] = g_open_write;
    g_s_pos[1]      = 0;
    g_s_posvalid[1] = 1;
    return XS1;
}

static size_t hx_fread(void *ptr, size_t size, size_t n, FILE *f)
{
    size_t len = size * n;
    int    s   = xs_index(f);
    H4V_CHECK(g_s_open[s], "stdio: fread on an open stream");
#ifdef H4V_CBMC
    __CPROVER_assert(len == 0 || __CPROVER_w_ok(ptr, len), "H4V: C01 fread stays inside the caller's buffer");
#endif
    if (h4v_fail()) {
        H4V_ND(size_t, rd_short);
        H4V_ASSUME(rd_short < n);
        g_s_posvalid[s] = 0;
        return rd_short;
    }
#ifdef H4V_CBMC
    if (len > 0)
        __CPROVER_havoc_slice(ptr, len);
#else
    for (size_t i = 0; i < len; i++)
        ((unsigned char *)ptr)[i] = 0xEE;
#endif
    g_rd_n++;
    g_rd_s   = s;
    g_rd_off = g_s_pos[s];
    g_rd_len = (long)len;
    g_s_pos[s] += (long)len;
    return n;
}

static size_t hx_fwrite(const void *ptr, size_t size, size_t n, FILE *f)
{
    size_t len = size * n;
    int    s   = xs_index(f);
    H4V_CHECK(g_s_open[s], "stdio: fwrite on an open stream");
    H4V_CHECK(g_hdf_writable, "C14: fwrite on the external file of an HDF file opened read-only");
#ifdef H4V_CBMC
    __CPROVER_assert(len == 0 || __CPROVER_r_ok(ptr, len), "H4V: C01 fwrite stays inside the caller's buffer");
#endif
    if (!g_s_writable[s] || h4v_fail()) {
        H4V_ND(size_t, wr_short);
        H4V_ASSUME(wr_short < n || n == 0);
        g_s_posvalid[s] = 0;
        if (g_s_writable[s])
            g_io_failed = 1;
        return n == 0 ? 0 : wr_short;
    }
    g_wr_n++;
    g_wr_s   = s;
    g_wr_off = g_s_pos[s];
    g_wr_len = (long)len;
    g_s_pos[s] += (long)len;
    return n;
}

static int hx_fseek(FILE *f, long off, int whence)
{
    int s = xs_index(f);
    H4V_CHECK(g_s_open[s], "stdio: fseek on an open stream");
    H4V_CHECK(whence == SEEK_SET && off >= 0, "external file is positioned absolutely, at a non-negative offset");
    if (h4v_fail())
        return -1;
    g_seek_n++;
    g_s_pos[s]      = off;
    g_s_posvalid[s] = 1;
    return 0;
}

static int hx_fclose(FILE *f)
{
    H4V_CHECK(f != NULL, "C16: fclose(NULL)");
    if (f == NULL)
        return EOF;
    {
        int s = xs_index(f);
        H4V_CHECK(g_s_open[s], "C16: stream closed twice");
        g_s_open[s] = 0;
        g_close_n++;
    }
    if (g_io_may_fail) { /* a failed close is logged separately: the streams closed by hextelt.c hold no unwritten data */
        H4V_ND(int, close_fault);
        if (close_fault) {
            g_close_failed = 1;
            return EOF;
        }
    }
    return 0;
}

#define fopen hx_fopen
#define fread hx_fread
#define fwrite hx_fwrite
#define fseek hx_fseek
#define fclose hx_fclose

static void hx_stdio_init(void)
{
    g_io_failed = g_close_failed = 0;
    g_rd_n = g_wr_n = g_seek_n = g_open_n = g_close_n = 0;
    g_rd_s = g_wr_s = -1;
    g_rd_off = g_rd_len = g_wr_off = g_wr_len = -1;
    g_s_open[0] = g_s_open[1] = 0;
    g_s_writable[0] = g_s_writable[1] = 0;
    g_s_posvalid[0] = g_s_posvalid[1] = 0;
    g_s_pos[0] = g_s_pos[1] = 0;
    g_open_write = 0;
}
#endif

"""C09 (extension): region/stride addressing of GRreadimage/GRwriteimage and palette bookkeeping (mfgr.c).
Property record C09 is owned by c09_gr.py (no prop() call here)."""
from .core import ob

TR = ["H layer of ONE image element: Hstartaccess/HCcreate/HRPconvert/HBconvert/Hendaccess/Hseek/Hread/Hwrite/Hlength ghost model "
      "(position, element bytes, one ghost byte of the write image), may fail nondeterministically (units/mfgr_rw_u.c)",
      "HAatom_group/HAatom_object: finite map of the image id and the GR id",
      "DFKNTsize (size table), DFKgetPNSC (arbitrary), DFKconvert = byte copy (C06 owns the conversion)",
      "HDmemfill: materialises the ghost item only (cbmc); HCPgetcompinfo/HCget_config_info arbitrary results",
      "tbbtfirst/tbbtnext/tbbtdfind: attribute tree with at most the FillValue attribute (A-TBBT); strcmp: exact, unrolled to 10 characters"]
IL = ("ASSUMED: GRIil_convert replaced by its contract (ghost-element permutation clause; checked bounded by obligations "
      "GRIil_convert_* of c09_gr.py for extents <= 3, <= 3 components, sizes 1..2); its requires are checked at the call sites")
RW = dict(unit="mfgr_rw_u.c", file="hdf/src/mfgr.c", cex_unwind=5, replace=["GRIil_convert"], trusted=TR + [IL])
BND = ("xdim,ydim in 1..4, start in -1..4, x and y strides independent in 0..3 (or no stride array), counts in 0..3, "
       "pixel size = {ps} bytes ({n} component(s) of {cs} byte(s)), pixel interlace in memory; image with data / tag-ref only / nothing, "
       "access element closed / open read-only / open read-write at any position")
for n, cs in ((1, 1), (1, 2), (3, 1)):
    d = [f"RW_NCOMP={n}", f"RW_CS={cs}"]
    b = BND.format(ps=n * cs, n=n, cs=cs)
    for cv in (0, 1):
        ob(f"GRreadimage_addr_p{n * cs}_c{cv}", "C09", entry="h_GRreadimage", enforce="GRreadimage", mode="bounded",
           bound=b + f"; request inside the image; image with data; number-type conversion {'needed' if cv else 'not needed'}",
           defines=d + ["RW_HASDATA=1", f"RW_CONV={cv}"], unwind=4, **RW)
    ob(f"GRwriteimage_addr_p{n * cs}", "C09", entry="h_GRwriteimage", enforce="GRwriteimage", mode="bounded",
       bound=b + "; request inside the image; image with data", defines=d + ["RW_HASDATA=1"], unwind=4, **RW)
    ob(f"GRwriteimage_new_p{n * cs}", "C09", entry="h_GRwriteimage", enforce="GRwriteimage", mode="bounded",
       bound=b + "; request inside the image; first write of a new image without filling", defines=d + ["RW_HASDATA=0", "RW_FILLIMG=0"],
       unwind=4, **RW)
# first write of a new image with filling: image width constant per run (fill lines of constant size; symbolic width: out of memory)
for xd, n, cs in ((1, 1, 1), (2, 1, 1), (3, 1, 1), (4, 1, 1), (3, 1, 2), (2, 3, 1)):
    for kind, kd, kt in (("solid", "RW_SOLID", "contiguous block (strides 1, or no stride array)"), ("strided", "RW_STRIDED", "at least one stride > 1")):
        ob(f"GRwriteimage_fill_{kind}_x{xd}p{n * cs}", "C09", entry="h_GRwriteimage", enforce="GRwriteimage", mode="bounded",
           bound=BND.format(ps=n * cs, n=n, cs=cs) + f"; xdim = {xd}; {kt}; request inside the image; first write of a new image with "
           "filling; no number-type conversion; caller's buffer of constant capacity",
           defines=[f"RW_NCOMP={n}", f"RW_CS={cs}", "RW_HASDATA=0", "RW_FILLIMG=1", "RW_CONV=0", "RW_CAPDATA", f"RW_XDIM={xd}", kd],
           unwind=5, **RW)
B1 = BND.format(ps=1, n=1, cs=1)
ob("GRreadimage_nodata", "C09", entry="h_GRreadimage", enforce="GRreadimage", mode="bounded",
   bound=BND.format(ps=3, n=3, cs=1) + "; request inside the image; image without data (fill value delivered)",
   defines=["RW_NCOMP=3", "RW_CS=1", "RW_HASDATA=0"], unwind=4, **RW)
# invalid arguments: refused before any I/O.
# NOT registered: GRreadimage_outside / GRwriteimage_outside (-DRW_OUTSIDE: a request reaching outside the image must be refused).
# The real GRreadimage/GRwriteimage have no range check (image 1x4, start (0,3), stride (1,2), count (1,3) is accepted), but C09
# quantifies over "write/read rectangles and strides inside the image" only: the obligation demanded more than the property states.
# Kept as an observation in DESIGN.md 11.1, not as a finding.
ob("GRreadimage_badargs", "C09", entry="h_GRreadimage", enforce="GRreadimage", mode="bounded",
   bound=B1 + "; invalid start / stride / count", defines=["RW_BADARGS", "RW_HASDATA=1", "RW_CONV=0"], unwind=4, **RW)
ob("GRwriteimage_badargs", "C09", entry="h_GRwriteimage", enforce="GRwriteimage", mode="bounded",
   bound=B1 + "; invalid start / stride / count", defines=["RW_BADARGS", "RW_HASDATA=1", "RW_CONV=0"], unwind=4, **RW)
for k, bid in (("grid", "RW_GRID"), ("unknown", "0x60000009")):
    ob(f"GRreadimage_badid_{k}", "C09", entry="h_GRreadimage", enforce="GRreadimage", mode="bounded",
       bound=B1 + f"; id = {bid} (not an image id)", defines=["RW_BADARGS", f"RW_BADID={bid}", "RW_HASDATA=1", "RW_CONV=0"], unwind=4, **RW)
    ob(f"GRwriteimage_badid_{k}", "C09", entry="h_GRwriteimage", enforce="GRwriteimage", mode="bounded",
       bound=B1 + f"; id = {bid} (not an image id)", defines=["RW_BADARGS", f"RW_BADID={bid}", "RW_HASDATA=1", "RW_CONV=0"], unwind=4, **RW)
# read into line / component interlace: GRIil_convert (by contract) behind the addressing
ob("GRreadimage_il_p2", "C09", entry="h_GRreadimage", enforce="GRreadimage", mode="bounded",
   bound=BND.format(ps=2, n=2, cs=1) + "; request inside the image; image with data; all three read interlaces",
   defines=["RW_NCOMP=2", "RW_CS=1", "RW_IL", "RW_HASDATA=1"], unwind=4, tier="thorough", **RW)
# NOT registered: GRreadimage_il_oom (-DRW_ILOOM: GRIil_convert fails because its work arrays cannot be allocated; the callers ignore
# the result).  Allocation failure is outside the claimed domain (assumption A-ALLOC), and no native replay can exist for it.

# ---- palettes (loop-free: proved)
LT = dict(unit="mfgr_rw_u.c", file="hdf/src/mfgr.c", cex_unwind=3,
          trusted=["Hputelement/Hgetelement: one palette element, logging, one ghost byte, may fail; Htagnewref hands out an arbitrary ref (0: none)",
                   "HAatom_group/HAatom_object: finite map of the image id and the GR id", "DFKNTsize (size table)"])
ob("GRwritelut_new", "C09", entry="h_GRwritelut", enforce="GRwritelut", defines=["LUT_NEW", "RW_NOFAULT"], **LT)
ob("GRwritelut_inplace_std", "C09", entry="h_GRwritelut", enforce="GRwritelut", defines=["LUT_EXIST", "LUT_STD"], **LT)
ob("GRwritelut_inplace_any", "C09", entry="h_GRwritelut", enforce="GRwritelut", defines=["LUT_EXIST"], **LT)
ob("GRwritelut_new_fault", ["C09", "C16"], entry="h_GRwritelut", enforce="GRwritelut", defines=["LUT_NEW"], **LT)
ob("GRgetlutinfo", "C09", entry="h_GRgetlutinfo", enforce="GRgetlutinfo", **LT)
ob("lut_roundtrip", "C09", entry="h_lut_roundtrip", defines=["LUT_STD"], **LT)

# ---- C10: GR attributes, in-memory bookkeeping (GRsetattr / GRattrinfo on the image's attribute list)
AT = dict(unit="mfgr_rw_u.c", file="hdf/src/mfgr.c", cex_unwind=3, defines=["RW_ATTRS", "RW_NOFAULT"],
          trusted=["tbbtfirst/tbbtnext/tbbtdfind/tbbtdins: attribute list of <= 2 attributes + one insertion, iterated in index order, "
                   "insertion may fail (A-TBBT)", "strcmp/strlen/strcpy: exact, unrolled to 10 characters", "DFKNTsize (size table)",
                   "HAatom_group/HAatom_object: finite map of the image id and the GR id"])
ATB = ("<= 2 existing attributes with names of <= 3 characters, number types uint8/int16/int32, counts 1..4 (values <= 16 bytes, "
       "cacheable: attr_cache = 2048), values cached or not yet read in")
ob("GRsetattr_mem", "C10", entry="h_GRsetattr", enforce="GRsetattr", mode="bounded", bound=ATB + "; image id", unwind=3, **AT)
ob("GRattrinfo_mem", "C10", entry="h_GRattrinfo", enforce="GRattrinfo", mode="bounded", bound=ATB, unwind=3, **AT)
ob("attr_reset_info", "C10", entry="h_attr_reset_info", mode="bounded", bound=ATB + "; 2 attributes, same number type", unwind=3, **AT)
ob("GRgetattr_mem", "C10", entry="h_GRgetattr", mode="bounded", unwind=20,
   bound=ATB + "; cache threshold 1..16 bytes (symbolic, so values below / at / above it are covered); V layer as one ghost attribute Vdata",
   flags=["--no-malloc-may-fail"], gi_flags=["--no-malloc-may-fail"],  # allocation failure: A-ALLOC
   **{**AT, "trusted": AT["trusted"] + ["VSattach/VSsetfields/VSread/VSdetach: one ghost attribute Vdata (byte at the ghost index), may fail"]})

# ---- dfrle.c (old-style RLE of 8-bit rasters, DFTAG_RLE): bounded round trip DFCIrle -> DFCIunrle of the REAL functions on run-shaped rows
# (a run of R equal bytes + <= 2 other bytes; byte values symbolic, R a constant per obligation -- with a symbolic R cbmc ran out of memory /
# did not finish in 40 min).  Only rows with a run of <= 4 bytes are tractable, so the coder's run-length limits (120 per run, 127 per
# count byte -- what seeded change C09-m5 breaks) stay OUTSIDE what is decided.
for _r in (0, 1, 2, 3, 4):  # runs of >= 10 bytes: cbmc out of memory / no answer in 600 s even with every length a constant
    ob(f"dfrle_roundtrip_r{_r}", "C09", unit="dfrle_u.c", file="hdf/src/dfrle.c", entry="h_dfrle_roundtrip", mode="bounded",
       bound=f"one row = a run of exactly {_r} equal bytes followed by 0..2 other bytes (byte values symbolic)",
       defines=[f"RL_RUN={_r}"], unwind=_r + 8, cex_unwind=_r + 8, objbits=8)

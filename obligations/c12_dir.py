"""C12: tag/ref directory (bitvect.c, dynarray.c, hfiledd.c)"""
from .core import ob, prop

# ----------------------------------------------------------------------------- C12
BV = dict(unit="bitvect_u.c", file="hdf/src/bitvect.c", cex_unwind=66)
ob("bv_get", "C12", entry="h_bv_get", enforce="bv_get", **BV)
ob("bv_set", "C12", entry="h_bv_set", enforce="bv_set", timeout=900, **BV)
ob("bv_find_next_zero", "C12", entry="h_bv_find_next_zero", enforce="bv_find_next_zero", loops=True, nloops=1,
   loopcls="A", timeout=900, **BV)
ob("bv_new", "C12", entry="h_bv_new", enforce="bv_new", **BV)

prop("C12",
     residual="(round 3, c12_htp.py: HTPselect/delete/update/inquire/endaccess, Hdupdd, Hdeldd, Hfind per call over a two-entry abstraction of the tag tree; Hnumber bounded.)  NOT decided: equality of the whole reported tag/ref set with 'created and not deleted' over a history; reopen; tbbt.c internals",
     assumptions=["A-TBBT: tbbt.c (threaded balanced tree) is not verified; where used it is a trusted finite map"])

/* Verification unit: hdf/src/hextelt.c -- C14 (read-only access): the gate of HXcreate.
 * (HXPwrite has no check of its own: it is reached only through Hwrite, which refuses access
 * records without DFACC_WRITE -- obligation `Hwrite` -- so it lives under the Hstartaccess
 * invariant and is not a gate.) */
#include "h4v.h"
#include "h4v_err.h"
#include "c14_common.h"
#include "hextelt.c"

#define C14_ENV (g_frec != NULL && C14_RDONLY(g_frec) && g_mut_n == 0 && g_denied_n == 0 && g_reg_n == 0 && g_getrec_n == 0)
int32 HXcreate(int32 file_id, uint16 tag, uint16 ref, const char *extern_file_name, int32 offset, int32 start_len)
    __CPROVER_requires(C14_ENV)
    __CPROVER_assigns(g_mut_n, g_denied_n, g_reg_n, g_rem_n, g_getrec_n, g_relrec_n, __CPROVER_object_whole(g_frec))
    __CPROVER_ensures(__CPROVER_return_value == FAIL)
    /* refused at the gate: no mutation primitive, no write request, no access record, no handle */
    __CPROVER_ensures(g_mut_n == 0 && g_denied_n == 0 && g_reg_n == 0 && g_getrec_n == 0)
    __CPROVER_ensures(g_frec->attach == __CPROVER_old(g_frec->attach));

#ifdef H4V_NATIVE
#include "h4v_native_wrap.h"
#endif

void
h_c14_HXcreate(void)
{
    c14_mk_file();
    H4V_ND(uint16, tag);
    H4V_ND(uint16, ref);
    H4V_ND(int32, offset);
    H4V_ND(int32, start_len);
    char  name[4] = {'e', 'x', 't', '\0'};
    int32 r       = HXcreate(g_fid, tag, ref, name, offset, start_len);
    H4V_COVER(r == FAIL && offset >= 0 && !SPECIALTAG(tag), "HXcreate denied at the gate");
    H4V_CANARY("HXcreate end");
}

/* Verification unit: hdf/src/hchunks.c -- C14 (read-only access): the whole-chunk write path.
 *   HMCwriteChunk  (public): refuses on a file without DFACC_WRITE before it touches the chunk tree or the chunk cache;
 *   HMCPchunkwrite (page-out routine of the chunk cache): H4V_CASE 1, see the note at its contract.
 * Environment (stubs/c14_common.h): one file WITHOUT the bit DFACC_WRITE in its access word (any other bits: the test
 * must be on that bit, a mask such as DFACC_RDWR == 3 would let DFACC_READ == 1 pass), one access record on it that is a
 * chunked element.  The chunk cache and the chunk tree are stubs that CHECK "not reached on a read-only file". */
#include "h4v.h"
#ifndef H4V_CASE
#define H4V_CASE 0
#endif
#include "h4v_err.h"
#include "c14_common.h"
#include "tbbt_priv.h"
#include "mcache_priv.h"

int        g_cache_n;  /* mcache_get / mcache_put calls */
int        g_tree_n;   /* tbbtdfind / tbbtdins calls */
int        g_vswrite_n;
TBBT_NODE *g_node;     /* what the chunk tree finds (NULL: chunk not in the tree) */
static uint8 g_page[8];

void *
mcache_get(MCACHE *mp, int32 pgno, int32 flags)
{
    H4V_CHECK(g_frec == NULL || !C14_RDONLY(g_frec), "C14: chunk cache page requested for a whole-chunk write on a file opened read-only");
    g_cache_n++;
    return g_page;
}
int
mcache_put(MCACHE *mp, void *page, int32 flags)
{
    H4V_CHECK(!(flags & MCACHE_DIRTY) || g_frec == NULL || !C14_RDONLY(g_frec), "C14: chunk marked dirty in the cache of a file opened read-only");
    g_cache_n++;
    return SUCCEED;
}
TBBT_NODE *
tbbtdfind(TBBT_TREE *tree, void *key, TBBT_NODE **pp)
{
    g_tree_n++;
    return g_node;
}
TBBT_NODE *
tbbtdins(TBBT_TREE *tree, void *item, void *key)
{
    H4V_CHECK(g_frec == NULL || !C14_RDONLY(g_frec), "C14: chunk record created in the chunk tree of a file opened read-only");
    g_tree_n++;
    return g_node;
}
/* vrw.c: VSwrite on a Vdata attached "r" fails (proved dependency: obligation c14_VSwrite); the chunk table of a
   read-only file is attached "r" (HMCIstaccess) */
int32
VSwrite(int32 vkey, const uint8 buf[], int32 nelt, int32 interlace)
{
    g_vswrite_n++;
    g_denied_n++;
    return FAIL;
}
/* hcomp.c: refused at its gate on a read-only file (obligation c14_HCcreate) */
int32
HCcreate(int32 file_id, uint16 tag, uint16 ref, comp_model_t model_type, model_info *m_info, comp_coder_t coder_type, comp_info *c_info)
{
    g_denied_n++;
    return FAIL;
}

/* names used by loops/hchunks.loops (loop contracts are injected into the shared scratch copy of hchunks.c; they are
   not applied in this unit) */
int32 g_k;
#define C2A_VAL(ci, cp, d) 0
#define POS_OK(d, sb, sp) 1
#include "hchunks.c"

chunkinfo_t *g_info;
CHUNK_REC   *g_chk;
int32        g_idx0; /* seek_chunk_indices[0] on entry */

#define GATE_ENV                                                                                             \
    (g_frec != NULL && C14_RDONLY(g_frec) && g_mut_n == 0 && g_denied_n == 0 && g_reg_n == 0 && g_getrec_n == 0 && g_cache_n == 0 &&   \
     g_tree_n == 0 && g_vswrite_n == 0 && g_arec != NULL && g_arec->file_id == g_fid && g_arec->special_info == (void *)g_info &&        \
     g_info != NULL && g_info->ndims == 1 && g_info->seek_chunk_indices != NULL && g_info->seek_chunk_indices[0] == g_idx0)

int32 HMCwriteChunk(int32 access_id, int32 *origin, const void *datap)
    __CPROVER_requires(GATE_ENV)
    __CPROVER_assigns(g_mut_n, g_denied_n, g_reg_n, g_rem_n, g_getrec_n, g_relrec_n, g_cache_n, g_tree_n, g_vswrite_n)
    __CPROVER_ensures(__CPROVER_return_value == FAIL)
    /* refused at the gate: the cache, the chunk tree and everything below are not reached ... */
    __CPROVER_ensures(g_cache_n == 0 && g_tree_n == 0 && g_mut_n == 0 && g_denied_n == 0 && g_vswrite_n == 0)
    /* ... and the in-memory state of the element is as it was (the frame says so too: nothing of it is assignable) */
    __CPROVER_ensures(g_arec->posn == __CPROVER_old(g_arec->posn) && g_info->num_recs == __CPROVER_old(g_info->num_recs) &&
                      g_info->seek_chunk_indices[0] == g_idx0);

/* HMCPchunkwrite is the page-out routine the chunk cache calls for a DIRTY page.  On a read-only file no page is ever
   dirty (HMCwriteChunk above; HMCPwrite is reached only through Hwrite, obligation `Hwrite`), so it is not reachable
   through the API; the clause asked for here is defence in depth: refuse before the chunk record is given a tag/ref
   and before a write request is handed to the layers below. */
int32 HMCPchunkwrite(void *cookie, int32 chunk_num, const void *datap)
    __CPROVER_requires(GATE_ENV && cookie == (void *)g_arec && g_node != NULL && g_node->data == (void *)g_chk && g_chk != NULL)
    __CPROVER_assigns(g_mut_n, g_denied_n, g_reg_n, g_rem_n, g_getrec_n, g_relrec_n, g_cache_n, g_tree_n, g_vswrite_n, g_chk->chk_tag, g_chk->chk_ref)
    __CPROVER_ensures(__CPROVER_return_value == FAIL)
    __CPROVER_ensures(g_mut_n == 0)
    /* no write request reaches the layers below, the chunk record does not claim a stored object that does not exist */
    __CPROVER_ensures(g_denied_n == 0 && g_vswrite_n == 0)
    __CPROVER_ensures(g_chk->chk_tag == __CPROVER_old(g_chk->chk_tag) && g_chk->chk_ref == __CPROVER_old(g_chk->chk_ref));

#ifdef H4V_NATIVE
#include "h4v_native_wrap.h"
#endif

static void
mk_chunked(void)
{
    c14_mk_file();
    /* any access word without the bit DFACC_WRITE */
    H4V_ND(int, f_access_ro);
    H4V_ASSUME((f_access_ro & DFACC_ALL) == f_access_ro && (f_access_ro & DFACC_WRITE) == 0);
    g_frec->access = f_access_ro;
    c14_mk_arec();
    g_info = calloc(1, sizeof(chunkinfo_t));
    H4V_ASSUME(g_info != NULL);
    H4V_ND(int32, i_chunk_size);
    H4V_ND(int32, i_nt_size);
    H4V_ND(int32, i_num_recs);
    H4V_ND(int32, i_flag);
    H4V_ASSUME(i_chunk_size >= 0 && i_chunk_size <= 8 && i_nt_size >= 0 && i_nt_size <= 1);
    g_info->attached           = 1;
    g_info->aid                = 0x70000001;
    g_info->chunk_size         = i_chunk_size;
    g_info->nt_size            = i_nt_size;
    g_info->num_recs           = i_num_recs;
    g_info->flag               = i_flag;
    g_info->ndims              = 1;
    g_info->seek_chunk_indices = malloc(sizeof(int32));
    g_info->seek_pos_chunk     = malloc(sizeof(int32));
    g_info->seek_user_indices  = malloc(sizeof(int32));
    g_info->ddims              = calloc(1, sizeof(DIM_REC));
    H4V_ASSUME(g_info->seek_chunk_indices && g_info->seek_pos_chunk && g_info->seek_user_indices && g_info->ddims);
    H4V_HAVOC(int32, g_idx0);
    g_info->seek_chunk_indices[0] = g_idx0;
    g_info->seek_pos_chunk[0]     = 0;
    g_info->seek_user_indices[0]  = 0;
    g_arec->special      = SPECIAL_CHUNKED;
    g_arec->special_info = g_info;
    g_cache_n = g_tree_n = g_vswrite_n = 0;
    g_node = NULL;
    g_chk  = NULL;
}

void
h_HMCwriteChunk(void)
{
    mk_chunked();
    H4V_ND(int32, access_id);
    H4V_ND(int32, origin0);
    H4V_ND(int, null_args);
    int32 origin[1] = {origin0};
    uint8 data[8]   = {0, 0, 0, 0, 0, 0, 0, 0};
    H4V_ND(int, chunk_known);
    if (chunk_known) {
        g_node = malloc(sizeof(TBBT_NODE));
        H4V_ASSUME(g_node != NULL);
        g_node->data = g_node->key = NULL;
        g_node->priv = NULL;
    }
    int32 r = HMCwriteChunk(access_id, null_args ? NULL : origin, data);
    H4V_COVER(r == FAIL && access_id == g_aid && !null_args && (g_frec->access & DFACC_READ), "HMCwriteChunk denied at the gate (access word DFACC_READ...)");
    H4V_COVER(r == FAIL && access_id == g_aid && !null_args && g_frec->access == DFACC_CREATE, "HMCwriteChunk denied at the gate (access word without READ)");
    H4V_CANARY("HMCwriteChunk end");
}

void
h_HMCPchunkwrite(void)
{
    mk_chunked();
    g_node = malloc(sizeof(TBBT_NODE));
    g_chk  = malloc(sizeof(CHUNK_REC));
    H4V_ASSUME(g_node != NULL && g_chk != NULL);
    H4V_ND(uint16, c_tag);
    H4V_ND(uint16, c_ref);
    H4V_ND(int32, chunk_num);
    g_chk->chunk_number = chunk_num;
    g_chk->chk_vnum     = 0;
    g_chk->origin       = malloc(sizeof(int32));
    H4V_ASSUME(g_chk->origin != NULL);
    g_chk->origin[0] = 0;
    g_chk->chk_tag   = c_tag;
    g_chk->chk_ref   = c_ref;
    g_node->data     = g_chk;
    g_node->key      = NULL;
    g_node->priv     = NULL;
    uint8 data[8]    = {0, 0, 0, 0, 0, 0, 0, 0};
    int32 r = HMCPchunkwrite(g_arec, chunk_num, data);
    H4V_COVER(r == FAIL && c_tag == DFTAG_NULL, "HMCPchunkwrite refused for a chunk that is not stored yet");
    H4V_COVER(r == FAIL && c_tag != DFTAG_NULL, "HMCPchunkwrite refused for a stored chunk");
    H4V_CANARY("HMCPchunkwrite end");
}

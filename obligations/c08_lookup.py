"""C08 (extension): lookups by reference, name, class and iteration visit precisely the existing objects"""
from .core import ob

VGP = dict(unit="vgp_lookup_u.c", file="hdf/src/vgp.c", cex_unwind=10)
VIO = dict(unit="vgp_lookup_u.c", file="hdf/src/vio.c", cex_unwind=8, defines=["LK_VIO"])

# iteration over the per-file tables (loop-free; the tbbt table is an ordered map of any size seen through a window, A-TBBT-WIN)
ob("lk_Vgetid", "C08", entry="h_getid", enforce="Vgetid", **VGP)
ob("lk_VSgetid", "C08", entry="h_getid", enforce="VSgetid", **VIO)

# inside one vgroup: membership tests and iteration (loop contracts with a ghost member; exact model for <= 4 members)
ob("lk_Visvg", "C08", entry="h_Visvg", enforce="Visvg", loops=True, nloops=1, loopcls="P", **VGP)
ob("lk_Visvs", "C08", entry="h_Visvs", enforce="Visvs", loops=True, nloops=1, loopcls="P", **VGP)
ob("lk_Vgetnext", "C08", entry="h_Vgetnext", enforce="Vgetnext", loops=True, nloops=1, loopcls="P", **VGP)
MM = dict(mode="bounded", bound="nvelt<=4, msize<=5 (exact reference model)", unwind=7, cex_unwind=7, unit="vgp_lookup_u.c", file="hdf/src/vgp.c")
ob("lk_Visvg_model", "C08", entry="h_Visvg_model", **MM)
ob("lk_Visvs_model", "C08", entry="h_Visvs_model", **MM)
ob("lk_Vgetnext_model", "C08", entry="h_Vgetnext_model", **MM)
# found D78 (repaired): Vgetnext(vkey,-1) behaved like Vgetnext(vkey,65535) when member 0 is no vgroup/vdata
ob("lk_Vgetnext_first_model", "C08", entry="h_Vgetnext_first_model", **MM)
# name / class / count read-out (A-STR)
for _f in ("Vgetname", "Vgetclass", "Vgetnamelen", "Vgetclassnamelen", "Vinquire"):
    ob("lk_" + _f, "C08", entry="h_" + _f, enforce=_f, **VGP)
ob("lk_Vinquire_unnamed", "C08", entry="h_Vinquire_unnamed", enforce="Vinquire", **VGP)

# lookups by name / class over the per-file tables (vg.c); bounded stand-in: <= 3 objects, table walk unwound
FD = dict(unit="vg_lookup_u.c", file="hdf/src/vg.c", entry="h_find", mode="bounded", unwind=5, cex_unwind=5,
          bound="<= 3 vgroups/vdatas in the file (any refs, any subset matching, vgroup strings set or unset)")
ob("lk_Vfind", "C08", enforce="Vfind", **FD)
ob("lk_Vfindclass", "C08", enforce="Vfindclass", defines=["LK_CLASS"], **FD)
ob("lk_VSfind", "C08", enforce="VSfind", defines=["LK_VS"], **FD)
ob("lk_VSfindclass", "C08", enforce="VSfindclass", defines=["LK_VS", "LK_CLASS"], **FD)

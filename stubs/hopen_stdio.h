/* Trusted stub bodies for the stdio calls reached from Hopen (hfile.c): a two-stream ghost disk.
 *
 * Stream 0 (HS0) is the stream the shared file record holds when Hopen is entered (path already open);
 * stream 1 (HS1) is what fopen() hands out in this call (at most one fopen succeeds per Hopen call).
 * Per stream: open flag, write permission (from the fopen mode), number of fclose calls, position.
 * fopen may fail (g_open_may_fail), every other call may fail (g_io_may_fail); faults are sticky in
 * g_io_failed and make the position of the stream indeterminate.
 * Caller obligations checked here (H4V_CHECK):
 *   C13  no stream is closed twice, no NULL/stale stream is used; the file is never re-created
 *        ("wb+" truncates) while the path is open through another handle (g_path_open)
 *   C14  no fwrite on a stream that was opened read-only
 * The stubs are named ho_<fn> and put in place by macros (include after the system headers and before
 * hfile.c): nothing of libc is interposed, so the native replay driver keeps its own stdio.
 */
#ifndef HOPEN_STDIO_H
#define HOPEN_STDIO_H
#include <stdio.h>
#include <limits.h>
#include "h4v.h"

H4V_DECL_ND(int);
H4V_DECL_ND(long);
H4V_DECL_ND(size_t);

static char g_s0_obj[8], g_s1_obj[8];
#define HS0 ((FILE *)g_s0_obj)
#define HS1 ((FILE *)g_s1_obj)
int  g_s_open[2], g_s_writable[2], g_s_posvalid[2], g_s_close_n[2];
long g_s_pos[2];
int  g_io_failed, g_io_may_fail, g_open_may_fail;
int  g_path_open;     /* the path is open through a handle issued earlier (refcount > 0) */
int  g_open_n;        /* fopen calls */
int  g_open_ok_n;     /* ... that succeeded */
int  g_create_n;      /* fopen calls with a truncating mode ("w...") */
int  g_open1_failed;  /* the first fopen of this call failed */
int  g_open_write;    /* mode of the last fopen had write permission */
int  g_rd_n, g_wr_n, g_seek_n, g_flush_n;
int  g_magic_ok;      /* the last 4-byte read delivered the HDF magic number */
long g_wr_off, g_wr_len;

static int ho_fail(int s)
{
    if (!g_io_may_fail)
        return 0;
    H4V_ND(int, io_fault);
    if (io_fault) {
        g_io_failed     = 1;
        g_s_posvalid[s] = 0;
        return 1;
    }
    return 0;
}
static int ho_index(FILE *f)
{
    H4V_CHECK(f == HS0 || f == HS1, "C13 stdio: call on a valid stream (not NULL, not stale)");
    return f == HS1 ? 1 : 0;
}

static FILE *ho_fopen(const char *path, const char *mode)
{
    H4V_CHECK(path != NULL && mode != NULL, "stdio: fopen arguments");
    H4V_CHECK(!g_s_open[1], "model: at most one fopen succeeds per Hopen call");
    g_open_n++;
    g_open_write = mode[0] == 'w' || mode[1] == '+' || (mode[1] != 0 && mode[2] == '+');
    if (mode[0] == 'w') {
        H4V_CHECK(!g_path_open, "C13: file re-created (truncated) while it is open through another handle");
        g_create_n++;
    }
    if (g_open_may_fail) {
        H4V_ND(int, open_fault);
        if (open_fault) {
            if (g_open_n == 1)
                g_open1_failed = 1;
            return NULL;
        }
    }
    g_open_ok_n++;
    g_s_open[1]     = 1;
    g_s_writable[1] = g_open_write;
    g_s_pos[1]      = 0;
    g_s_posvalid[1] = 1;
    g_s_close_n[1]  = 0;
    return HS1;
}

static size_t ho_fread(void *ptr, size_t size, size_t n, FILE *f)
{
    size_t len = size * n;
    int    s   = ho_index(f);
    H4V_CHECK(g_s_open[s], "C13 stdio: fread on an open stream");
#ifdef H4V_CBMC
    __CPROVER_assert(len == 0 || __CPROVER_w_ok(ptr, len), "H4V: fread stays inside the caller's buffer");
#endif
    if (ho_fail(s)) {
        H4V_ND(size_t, rd_short);
        H4V_ASSUME(rd_short < n);
        return rd_short;
    }
#ifdef H4V_CBMC
    if (len > 0)
        __CPROVER_havoc_slice(ptr, len);
#else
    for (size_t i = 0; i < len; i++)
        ((unsigned char *)ptr)[i] = 0;
#endif
    {
        /* the only bytes Hopen itself looks at are the 4-byte magic number: a named choice */
        H4V_ND(int, rd_magic_ok);
        g_magic_ok = len == 4 && rd_magic_ok;
        if (len == 4 && rd_magic_ok) {
            ((unsigned char *)ptr)[0] = 0x0e;
            ((unsigned char *)ptr)[1] = 0x03;
            ((unsigned char *)ptr)[2] = 0x13;
            ((unsigned char *)ptr)[3] = 0x01;
        }
    }
    g_rd_n++;
    g_s_pos[s] += (long)len;
    return n;
}

static size_t ho_fwrite(const void *ptr, size_t size, size_t n, FILE *f)
{
    size_t len = size * n;
    int    s   = ho_index(f);
    H4V_CHECK(g_s_open[s], "C13 stdio: fwrite on an open stream");
    H4V_CHECK(g_s_writable[s], "C14: fwrite on a stream opened read-only");
#ifdef H4V_CBMC
    __CPROVER_assert(len == 0 || __CPROVER_r_ok(ptr, len), "H4V: fwrite stays inside the caller's buffer");
#endif
    if (ho_fail(s)) {
        H4V_ND(size_t, wr_short);
        H4V_ASSUME(wr_short < n || n == 0);
        return n == 0 ? 0 : wr_short;
    }
    g_wr_n++;
    g_wr_off = g_s_pos[s];
    g_wr_len = (long)len;
    g_s_pos[s] += (long)len;
    return n;
}

static int ho_fseek(FILE *f, long off, int whence)
{
    int s = ho_index(f);
    H4V_CHECK(g_s_open[s], "C13 stdio: fseek on an open stream");
    if (ho_fail(s))
        return -1;
    g_seek_n++;
    if (whence == SEEK_SET) {
        g_s_pos[s]      = off;
        g_s_posvalid[s] = 1;
    }
    else
        g_s_posvalid[s] = 0;
    return 0;
}

static int ho_fflush(FILE *f)
{
    int s = ho_index(f);
    H4V_CHECK(g_s_open[s], "C13 stdio: fflush on an open stream");
    if (ho_fail(s))
        return EOF;
    g_flush_n++;
    return 0;
}

static int ho_fclose(FILE *f)
{
    H4V_CHECK(f != NULL, "C13: fclose(NULL)");
    if (f == NULL)
        return EOF;
    {
        int s = ho_index(f);
        H4V_CHECK(g_s_open[s], "C13: stream closed twice");
        g_s_open[s] = 0;
        g_s_close_n[s]++;
        /* the stream is gone whether or not the close succeeds */
        if (ho_fail(s))
            return EOF;
    }
    return 0;
}

#define fopen ho_fopen
#define fread ho_fread
#define fwrite ho_fwrite
#define fseek ho_fseek
#define fflush ho_fflush
#define fclose ho_fclose

static void ho_stdio_init(void)
{
    g_io_failed = 0;
    g_open_n = g_open_ok_n = g_create_n = g_open1_failed = g_open_write = 0;
    g_rd_n = g_wr_n = g_seek_n = g_flush_n = g_magic_ok = 0;
    g_wr_off = g_wr_len = -1;
    g_s_open[0] = g_s_open[1] = 0;
    g_s_writable[0] = g_s_writable[1] = 0;
    g_s_posvalid[0] = g_s_posvalid[1] = 0;
    g_s_close_n[0] = g_s_close_n[1] = 0;
    g_s_pos[0] = g_s_pos[1] = 0;
    g_path_open = 0;
}
#endif

/* Verification unit: mfhdf/src/mfsd.c (C03: argument gate of SDreaddata / SDwritedata).
   The I/O layer (NCvario, NCgenio of putget.c / putgetg.c) is stubbed: the stubs CHECK that the
   request they receive is the caller's request, unchanged, for the caller's variable, and -- on
   the strided read path, where mfsd.c has a gate -- that it lies inside the current extent.
   What the gate does NOT check (start >= 0, edge >= 1, stride >= 1, and everything on the write
   path) is rejected downstream by NCgenio (stride < 1) and by NCcoordck on every cell before it is
   touched: obligations NCcoordck / NCcoordck_verdict in putget_u.c.
   Only dataset ids (SDSTYPE) are modelled, not dimension ids. */
#include "h4v.h"
#include "h4v_err.h"
#include "nc_priv.h"
#include "putget_pred.h"

#ifndef MAXR
#define MAXR H4_MAX_VAR_DIMS
#endif

typedef unsigned char h4v_uchar;
H4V_DECL_ND(int);
H4V_DECL_ND(int32);
H4V_DECL_ND(unsigned);
H4V_DECL_ND(h4v_ulong);
H4V_DECL_ND(h4v_uchar);

/* ------------------------------------------------------------------ ghost state */
NC     *g_handle;    /* the open file */
NC_var *g_var;       /* the variable the id names */
int     g_varid;     /* its index */
int32  *g_start, *g_stride, *g_edge; /* the caller's vectors */
void   *g_data;      /* the caller's buffer */
int     g_is_read;   /* 1: SDreaddata, 0: SDwritedata */
int     g_io_calls;  /* calls that reached the I/O layer */
int     g_io_ret;    /* what the I/O layer returned */
int     g_endaccess; /* Hendaccess calls */

/* defined in error.c, which is not part of the unit */
const char *cdf_routine_name = "ncopen"; /* what SDstart (ncopen) leaves behind; globdef.c starts with "netcdf" */

/* ------------------------------------------------------------------ trusted stubs */


NC *
NC_check_id(int cdfid)
{
    H4V_ND(int, check_id_fail);
    if (check_id_fail)
        return NULL;
    return g_handle;
}

int
HCPgetcomptype(int32 file_id, uint16 data_tag, uint16 data_ref, comp_coder_t *coder_type)
{
    H4V_ND(int, comptype_fail);
    H4V_ND(int, comptype);
    if (comptype_fail)
        return FAIL;
    *coder_type = (comp_coder_t)comptype;
    return SUCCEED;
}

int
HCget_config_info(comp_coder_t coder_type, uint32 *compression_config_info)
{
    H4V_ND(unsigned, comp_config);
    *compression_config_info = comp_config;
    return SUCCEED;
}

int
Hendaccess(int32 access_id)
{
    g_endaccess++;
    return SUCCEED;
}

/* extent of dimension i as the property sees it: numrecs for the unlimited dimension */
#define GATE_EXTENT(i)                                                                               \
    (((i) == 0 && g_var->shape[0] == 0) ? (long)g_var->numrecs : (long)g_var->shape[i])

static void
gate_common(NC *handle, int varid, const long *start, const long *edges, void *values)
{
    g_io_calls++;
    H4V_CHECK(handle == g_handle && varid == g_varid, "I/O on the variable the id names");
    H4V_CHECK(values == g_data, "I/O on the caller's buffer");
    H4V_CHECK(handle->xdrs->x_op == (g_is_read ? XDR_DECODE : XDR_ENCODE), "transfer direction");
    /* precondition of the I/O layer on its SD callers: NCcoordck (putget.c) refuses a read beyond the last record of an
       unlimited dimension only when cdf_routine_name does not start with "nc"; for an nc caller it fills and grows instead */
    H4V_CHECK(cdf_routine_name != NULL && !(cdf_routine_name[0] == 'n' && cdf_routine_name[1] == 'c'),
              "the I/O layer is told that an SD call is in progress");
    /* (a loop over constant indices instead of the ghost index: with a symbolic index the
       solver has to prove two 64-bit multipliers equivalent) */
    for (int i = 0; i < (int)g_var->assoc->count; i++) {
        H4V_CHECK(start[i] == (long)g_start[i], "start forwarded unchanged");
        H4V_CHECK(edges[i] == (long)g_edge[i], "edge forwarded unchanged");
    }
}

int
NCvario(NC *handle, int varid, const long *start, const long *edges, void *values)
{
    gate_common(handle, varid, start, edges, values);
    /* unit stride, or all strides == 1 on the write path */
    H4V_CHECK(g_stride == NULL || !g_is_read, "NCvario on the read path only without strides");
    if (g_stride != NULL)
        for (int i = 0; i < (int)g_var->assoc->count; i++)
            H4V_CHECK(g_stride[i] == 1, "NCvario on the write path only for unit strides");
    H4V_ND(int, vario_ret);
    H4V_ASSUME(vario_ret == 0 || vario_ret == -1);
    g_io_ret = vario_ret;
    return vario_ret;
}

int
NCgenio(NC *handle, int varid, const long *start, const long *count, const long *stride, const long *imap,
        void *values)
{
    gate_common(handle, varid, start, count, values);
    H4V_CHECK(g_stride != NULL && stride != NULL && imap == NULL, "NCgenio for a strided request");
    for (int i = 0; i < (int)g_var->assoc->count; i++) {
        H4V_CHECK(stride[i] == (long)g_stride[i], "stride forwarded unchanged");
        /* the read gate: the last selected index of every dimension lies inside the extent */
        if (g_is_read)
            H4V_CHECK(start[i] + stride[i] * (count[i] - 1) < GATE_EXTENT(i),
                      "strided read request inside the extent");
    }
    H4V_ND(int, genio_ret);
    H4V_ASSUME(genio_ret == 0 || genio_ret == -1);
    g_io_ret = genio_ret;
    return genio_ret;
}

#include "mfsd.c"

#ifdef H4V_NATIVE
#include "h4v_native_wrap.h"
#endif

/* ------------------------------------------------------------------ harness */
#define NV 2
static void
run_gate(int is_read, int min_rank)
{
    g_is_read = is_read;
    g_io_calls = g_endaccess = 0;
    g_io_ret                 = 0;
    static NC        s_nc;
    static XDR       s_x;
    static NC_array  s_vars;
    static NC_var    s_var[NV];
    static NC_iarray s_as[NV];
    static NC_var   *s_tab[NV];
    H4V_ND(int, nvars);
    H4V_ASSUME(nvars >= 1 && nvars <= NV);
    for (int i = 0; i < NV; i++) {
        H4V_ND(int, rank);
        H4V_ASSUME(rank >= min_rank && rank <= MAXR);
        s_as[i].count  = (unsigned)rank;
        s_as[i].values = NULL;
        s_var[i].assoc = &s_as[i];
        if (rank == 0) /* NC_var_shape leaves shape/dsizes of a scalar variable NULL */
            s_var[i].shape = NULL;
        else {
            H4V_ND_BUF(h4v_ulong, shape, rank, MAXR);
            /* extents are int32 dimension sizes (NC_dim.size) */
            for (int j = 0; j < rank; j++)
                H4V_ASSUME(shape[j] <= 2147483647UL);
            s_var[i].shape = shape;
        }
        H4V_ND(int, v_numrecs);
        H4V_ND(int32, v_aid);
        H4V_ND(int32, v_created);
        H4V_ASSUME(v_numrecs >= 0);
        s_var[i].numrecs  = v_numrecs;
        s_var[i].aid      = v_aid;
        s_var[i].created  = v_created;
        s_var[i].data_tag = DATA_TAG;
        s_var[i].data_ref = 2;
        s_tab[i]          = &s_var[i];
    }
    s_vars.count  = (unsigned)nvars;
    s_vars.values = (uint8_t *)s_tab;
    H4V_ND(unsigned, h_flags);
    H4V_ND(unsigned, h_numrecs);
    s_x.x_op       = XDR_FREE;
    s_nc.xdrs      = &s_x;
    s_nc.vars      = &s_vars;
    s_nc.dims      = NULL;
    s_nc.file_type = HDF_FILE;
    s_nc.flags     = h_flags;
    s_nc.numrecs   = h_numrecs;
    g_handle       = &s_nc;

    /* the caller's arguments: any id of dataset type, any vectors (of MAXR elements, the size the
       SD interface documents), stride possibly NULL, one-byte-per-cell sentinel buffer */
    H4V_ND(int32, sdsid);
    H4V_ASSUME(((sdsid >> 16) & 0x0f) == SDSTYPE);
    H4V_ND_BUF(int32, start, MAXR, MAXR);
    H4V_ND_BUF(int32, stride_v, MAXR, MAXR);
    H4V_ND_BUF(int32, edge, MAXR, MAXR);
    H4V_ND(int, null_stride);
    int32 *stride = null_stride ? NULL : stride_v;
    H4V_ND_BUF(h4v_uchar, data, 8, 8);
    H4V_ND(int, k);
    H4V_ASSUME(0 <= k && k < 8);
    unsigned char data_k = data[k];
    g_varid  = (int)(sdsid & 0xffff);
    g_var    = (g_varid < nvars) ? s_tab[g_varid] : NULL;
    g_start  = start;
    g_stride = stride;
    g_edge   = edge;
    g_data   = data;

    int r = is_read ? SDreaddata(sdsid, start, stride, edge, data) : SDwritedata(sdsid, start, stride, edge, data);

    H4V_CHECK(r == SUCCEED || r == FAIL, "SUCCEED or FAIL");
    /* FAIL <=> the I/O layer was not reached or it failed; the gate itself never touches data */
    H4V_CHECK((r == FAIL) == (g_io_calls == 0 || g_io_ret == -1), "FAIL iff rejected or I/O failed");
    H4V_CHECK(g_io_calls <= 1, "one I/O request per call");
    H4V_CHECK(data[k] == data_k, "the gate does not touch the data buffer");
    /* an id naming no variable is rejected before the I/O layer */
    H4V_CHECK(g_var != NULL || (r == FAIL && g_io_calls == 0), "bad variable index rejected");
    /* "a strided read reaching outside the extent is rejected before the I/O layer" is the
       contrapositive of the two stub checks (request inside the extent + forwarded unchanged);
       restating it here with a product of the harness's own copies of the arguments makes the solver
       prove two 64-bit multipliers equivalent (no answer in 15 min) */
    /* on FAIL the access id is released */
    if (r == FAIL && g_io_calls == 1)
        H4V_CHECK(g_var->aid == FAIL || g_var->aid == 0, "aid closed on failure");
    H4V_COVER(r == SUCCEED && stride != NULL, "gate passes a strided request");
    H4V_COVER(r == SUCCEED && stride == NULL, "gate passes a plain request");
    H4V_COVER(r == FAIL && g_io_calls == 0 && g_var != NULL && stride != NULL, "gate rejects");
    H4V_COVER(r == SUCCEED && g_var != NULL && (int)g_var->assoc->count == MAXR, "gate full rank");
    H4V_CANARY("gate end");
}

void
h_SDreaddata_gate(void)
{
    run_gate(1, 1);
}

void
h_SDwritedata_gate(void)
{
    run_gate(0, 1);
}

/* rank-0 (scalar) datasets: SDcreate accepts rank 0 and NC_var_shape leaves shape == NULL */
void
h_SDreaddata_gate_scalar(void)
{
    run_gate(1, 0);
}

void
h_SDwritedata_gate_scalar(void)
{
    run_gate(0, 0);
}

/* Verification unit: hdf/src/bitvect.c (C12: ref allocation bit-vector) */
#include "h4v.h"
#include "bitvect.c"

/* ghost bit index: a proof for arbitrary g_m is a proof for all bits */
int32 g_m;
/* ghost index of a bit inside the array as it is on entry (for old-value clauses) */
int32 g_o;

#define BV_FIELDS_WF(b)                                                                              \
    ((b)->array_size > 0 && (b)->array_size <= 8256 && (b)->array_size % BV_CHUNK_SIZE == 0 &&          \
     (b)->bits_used >= 0 && (b)->bits_used <= 8 * (b)->array_size && (b)->last_zero >= 0 &&             \
     (b)->last_zero <= (b)->bits_used / 8 && (b)->buffer != NULL)
#define BV_BIT(b, n) (((b)->buffer[(n) / 8] >> ((n) % 8)) & 1)
/* representation invariant on the ghost bit: bits beyond bits_used are zero */
#define BV_TAIL_ZERO(b) (!(g_m >= (b)->bits_used && g_m < 8 * (b)->array_size) || BV_BIT(b, g_m) == 0)
#define BV_WF(b) (BV_FIELDS_WF(b) && BV_TAIL_ZERO(b))

int bv_get(bv_ptr b, int32 bit_num)
    __CPROVER_requires(b == NULL || b->buffer == NULL || BV_FIELDS_WF(b))
    __CPROVER_assigns()
    __CPROVER_ensures((b == NULL || b->buffer == NULL || bit_num < 0) ? __CPROVER_return_value == FAIL
                      : (bit_num >= b->bits_used)                     ? __CPROVER_return_value == BV_FALSE
                                                   : __CPROVER_return_value == BV_BIT(b, bit_num));

int bv_set(bv_ptr b, int32 bit_num, bv_bool value)
    __CPROVER_requires(b != NULL && BV_WF(b))
    __CPROVER_requires(bit_num < 8 * 8192) /* refs are 16 bit: the true domain */
    __CPROVER_requires(value == BV_FALSE || value == BV_TRUE)
    __CPROVER_requires(g_m >= 0)
    __CPROVER_assigns(b->bits_used, b->array_size, b->last_zero, b->buffer, __CPROVER_object_whole(b->buffer))
    __CPROVER_frees(b->buffer)
    __CPROVER_ensures(bit_num < 0 ? __CPROVER_return_value == FAIL : 1)
    /* allocation failure is the only other failure, and leaves everything as it was */
    __CPROVER_ensures(__CPROVER_return_value == FAIL ==>
                      (b->bits_used == __CPROVER_old(b->bits_used) && b->array_size == __CPROVER_old(b->array_size) &&
                       b->buffer == __CPROVER_old(b->buffer)))
    __CPROVER_ensures(__CPROVER_return_value == SUCCEED || __CPROVER_return_value == FAIL)
    __CPROVER_ensures(__CPROVER_return_value == SUCCEED ==> BV_WF(b))
    __CPROVER_ensures(__CPROVER_return_value == SUCCEED ==> BV_BIT(b, bit_num) == (int)value)
    __CPROVER_ensures(__CPROVER_return_value == SUCCEED ==>
                      b->bits_used == (bit_num >= __CPROVER_old(b->bits_used) ? bit_num + 1 : __CPROVER_old(b->bits_used)))
    /* every other bit keeps its value (bits that come into use are zero by BV_TAIL_ZERO) */
    __CPROVER_requires(g_o >= 0 && g_o < 8 * b->array_size)
    __CPROVER_ensures((__CPROVER_return_value == SUCCEED && g_o != bit_num) ==>
                      BV_BIT(b, g_o) == ((__CPROVER_old(b->buffer[g_o / 8]) >> (g_o % 8)) & 1))
    __CPROVER_ensures((__CPROVER_return_value == SUCCEED && g_m != bit_num && g_m >= 8 * __CPROVER_old(b->array_size) &&
                       g_m < 8 * b->array_size) ==> BV_BIT(b, g_m) == 0);

int32 bv_find_next_zero(bv_ptr b)
    __CPROVER_requires(b != NULL && BV_WF(b))
    __CPROVER_requires(b->bits_used < 8 * 8192)
    __CPROVER_requires(g_m >= 0)
    __CPROVER_assigns(b->bits_used, b->array_size, b->last_zero, b->buffer, __CPROVER_object_whole(b->buffer))
    __CPROVER_frees(b->buffer)
    /* the property: the bit handed out is not in use, i.e. bv_get(result) == 0: either it
       lies at the end of the used range (the code may return bits_used itself when the used
       bits of the last partial byte are all set) or it is a zero bit inside it */
    __CPROVER_ensures(__CPROVER_return_value == FAIL ||
                      (__CPROVER_return_value >= 0 && __CPROVER_return_value <= b->bits_used &&
                       (__CPROVER_return_value == b->bits_used || BV_BIT(b, __CPROVER_return_value) == 0)))
    __CPROVER_ensures(__CPROVER_return_value != FAIL ==> BV_WF(b))
    /* no bit that was in use is cleared or set by the search */
    __CPROVER_requires(g_o >= 0 && g_o < 8 * b->array_size)
    __CPROVER_ensures((__CPROVER_return_value != FAIL && g_o < __CPROVER_old(b->bits_used)) ==>
                      BV_BIT(b, g_o) == ((__CPROVER_old(b->buffer[g_o / 8]) >> (g_o % 8)) & 1));

bv_ptr bv_new(int32 num_bits)
    __CPROVER_requires(num_bits <= 8 * 8192)
    __CPROVER_requires(g_m >= 0)
    __CPROVER_assigns()
    __CPROVER_ensures((num_bits < -1 || num_bits == 0) ==> __CPROVER_return_value == NULL)
    __CPROVER_ensures(__CPROVER_return_value != NULL ==>
                      (BV_WF(__CPROVER_return_value) &&
                       __CPROVER_return_value->bits_used == (num_bits == -1 ? BV_DEFAULT_BITS : num_bits) &&
                       (g_m < 8 * __CPROVER_return_value->array_size ==> BV_BIT(__CPROVER_return_value, g_m) == 0)));

#ifdef H4V_NATIVE
#include "h4v_native_wrap.h"
#endif

/* ---------------- harnesses (environment: builds the objects) ---------------- */
H4V_DECL_ND(int32);
H4V_DECL_ND(int);

static bv_ptr
mk_bv(void)
{
    H4V_HAVOC(int32, g_m);
    H4V_HAVOC(int32, g_o);
    bv_ptr b = malloc(sizeof(bv_struct));
    H4V_ASSUME(b != NULL);
    H4V_ND(int32, bv_bits_used);
    H4V_ND(int32, bv_array_size);
    H4V_ND(int32, bv_last_zero);
    H4V_ASSUME(bv_array_size > 0 && bv_array_size <= 8256);
    b->bits_used  = bv_bits_used;
    b->array_size = bv_array_size;
    b->last_zero  = bv_last_zero;
    H4V_ND_BUF(uint8, bv_buf, bv_array_size, 64);
    b->buffer = bv_buf;
    return b;
}

void
h_bv_get(void)
{
    bv_ptr b = mk_bv();
    H4V_ND(int32, bit_num);
    H4V_ND(int, null_case);
    if (null_case == 1)
        b = NULL;
    else if (null_case == 2)
        b->buffer = NULL;
    int r = bv_get(b, bit_num);
    H4V_COVER(r == 1, "bv_get returns 1");
    H4V_COVER(r == FAIL, "bv_get fail path");
    H4V_CANARY("bv_get end");
}

void
h_bv_set(void)
{
    bv_ptr b = mk_bv();
    H4V_ND(int32, bit_num);
    H4V_ND(int, value);
    int32 old_as = b->array_size;
    int   r      = bv_set(b, bit_num, (bv_bool)value);
    H4V_COVER(r == SUCCEED && b->array_size > old_as, "bv_set grow path");
    H4V_COVER(r == SUCCEED && b->array_size == old_as, "bv_set in-place path");
    H4V_CANARY("bv_set end");
}

void
h_bv_find_next_zero(void)
{
    bv_ptr b = mk_bv();
    int32 old_bu = b->bits_used;
    int32  r = bv_find_next_zero(b);
    H4V_COVER(r != FAIL && r == old_bu, "bv_find extend path");
    H4V_COVER(r != FAIL && r < old_bu, "bv_find found path");
    H4V_CANARY("bv_find_next_zero end");
}

void
h_bv_new(void)
{
    H4V_ND(int32, num_bits);
    H4V_HAVOC(int32, g_m);
    bv_ptr b = bv_new(num_bits);
    H4V_COVER(b != NULL, "bv_new success");
    H4V_CANARY("bv_new end");
}

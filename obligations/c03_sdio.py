"""C03 (I/O side) and C04/C05/C02 header round trip: NCvario odometer, first-write fill in
hdf_xdr_NCvdata, SDwritedata/SDreaddata routing, SDsetchunk fill value, HCPencode/decode_header.
Property C03 is owned by c03_sd.py (no prop() call here)."""
from .core import ob

# ----------------------------------------------------------------------------- mfsd.c
RW = dict(unit="mfsd_rw_u.c", file="mfhdf/src/mfsd.c", objbits=8, cex_unwind=10,
          trusted=["NC_check_id", "HCPgetcomptype", "HCget_config_info", "Hendaccess", "NCvario(stub)", "NCgenio(stub)"])
# rank 0..4 is the rank domain of the property statement; the loops over the dimensions are unwound
ob("SDwritedata_route", "C03", entry="h_SDwritedata_route", enforce="SDwritedata", mode="proved-finite",
   bound="rank 0..4 (the ranks the property quantifies over), dataset ids only", unwind=6, defines=["MAXR=4"], **RW)
ob("SDreaddata_route", "C03", entry="h_SDreaddata_route", enforce="SDreaddata", mode="proved-finite",
   bound="rank 0..4 (the ranks the property quantifies over), dataset ids only", unwind=6, defines=["MAXR=4"], **RW)

SC = dict(unit="mfsd_rw_u.c", file="mfhdf/src/mfsd.c", objbits=8, cex_unwind=10,
          trusted=["NC_check_id", "HCget_config_info", "Hendaccess", "Hnewref", "NC_findattr", "NC_copy_arrayvals",
                   "DFKgetPNSC/DFKisnativeNT/DFKislitendNT (reproduced)", "DFKconvert(stub: arbitrary output)",
                   "HMCcreate(stub: records what it gets)"])
ob("SDsetchunk_fill_r2", "C04", entry="h_SDsetchunk", enforce="SDsetchunk", mode="bounded",
   bound="rank 0..2, chunk lengths <= 128; all number types of size 1/2/4/8, standard/native/little-endian, user-set or default "
         "fill value, all three chunk-definition layouts", unwind=10, defines=["MAXR=2"], **SC)
ob("SDsetchunk_fill", "C04", entry="h_SDsetchunk", enforce="SDsetchunk", mode="bounded", tier="thorough",
   bound="rank 0..4, chunk lengths <= 128 (element count of a chunk fits int32); all number types of size 1/2/4/8, "
         "standard/native/little-endian, user-set or default fill value, all three chunk-definition layouts",
   unwind=10, defines=["MAXR=4"], **SC)

# ----------------------------------------------------------------------------- hcomp.c (loop-free)
HD = dict(unit="hcomp_hdr_u.c", file="hdf/src/hcomp.c", objbits=8, cex_unwind=22, trusted=[])
HP = ["C04", "C05", "C02"]
ob("HCPquery_encode_header", HP, entry="h_HCPquery_encode_header", enforce="HCPquery_encode_header", **HD)
ob("HCPencode_header", HP, entry="h_HCPencode_header", enforce="HCPencode_header", **HD)
ob("HCPdecode_header", HP, entry="h_HCPdecode_header", enforce="HCPdecode_header", **HD)
# decode(encode(x)) == x for every coder and every parameter field, in a buffer of exactly the queried length
ob("HCP_header_roundtrip", HP, entry="h_HCP_header_roundtrip", **HD)

# ----------------------------------------------------------------------------- putget.c
PIO = dict(unit="putget_io_u.c", file="mfhdf/src/putget.c", objbits=8)
PIO_TRUST = ["hdf_get_vp_aid", "Hinquire", "Hseek", "Hwrite", "Hread", "DFKconvert", "DFKgetPNSC/DFKisnativeNT/DFKislitendNT (reproduced)",
             "HDmemfill", "NC_arrayfill", "NC_findattr", "DFKsetNT", "NC_hlookupvar", "nctypelen", "xdr_numrecs", "strstr"]
# (2) first write.  The leading / trailing fill is written in chunks of at most MAX_SIZE = 1e6 bytes (an unguarded
# #define of putget.c: it cannot be shrunk with -D), so the offset is symbolic up to 4 MB (<= 5 chunks) and ALL loops
# are unwound.  (Closing the two chunk loops with loop contracts works -- invariant "position + bytes still to write
# == where" was proved inductive -- but dfcc then checks the assignments of the six sibling loops without contract
# against an empty write set, and loop clauses for putget.c may only use ghost names that units/putget_u.c also
# defines; see the unit header.)  Allocation failure is out of scope (DESIGN 10.5): --no-malloc-may-fail.
for w in (4, 8, 2, 1):
    ob(f"NCvdata_firstwrite_w{w}", "C03", entry="h_NCvdata_firstwrite", enforce="hdf_xdr_NCvdata", mode="bounded",
       bound=f"element size {w}, 1..4 elements per call, byte offset any multiple of {w} up to 4 MB (<= 5 fill chunks of the "
             "real MAX_SIZE), variable length up to 8 MB (<= 9 trailing chunks), data_offset == 0, no allocation failure",
       replace=["hdf_get_vp_aid"], unwind=24, cex_unwind=24, defines=[f"C03_W={w}"],
       flags=["--no-malloc-may-fail"], gi_flags=["--no-malloc-may-fail"], timeout=1500, trusted=PIO_TRUST,
       tier="thorough", **PIO)
# quick-tier stand-in: offsets up to 1.2 MB (1 or 2 leading chunks, up to 3 trailing chunks)
ob("NCvdata_firstwrite_q", "C03", entry="h_NCvdata_firstwrite", enforce="hdf_xdr_NCvdata", mode="bounded",
   bound="element size 4, 1..4 elements per call, byte offset any multiple of 4 up to 1.2 MB (<= 2 fill chunks of the real MAX_SIZE), "
         "variable length up to 2.4 MB, data_offset == 0, no allocation failure",
   replace=["hdf_get_vp_aid"], unwind=24, cex_unwind=24, defines=["C03_W=4", "FW_MAXOFF=1200000L"],
   flags=["--no-malloc-may-fail"], gi_flags=["--no-malloc-may-fail"], timeout=900, trusted=PIO_TRUST, **PIO)
# (1) the odometer.  NCcoordck and NC_varoffset are replaced inside NCvario by contracts proved here (unrolled rank <= 3).
CK3 = dict(mode="bounded", defines=["PGIO_VARIO", "C03_W=4"], flags=["--no-malloc-may-fail"], gi_flags=["--no-malloc-may-fail"],
           trusted=PIO_TRUST, **{**PIO, "objbits": 11})
ob("NCcoordck_r3", "C03", entry="h_NCcoordck3", enforce="H4_NCcoordck", replace=["hdf_get_vp_aid"], unwind=14, cex_unwind=14,
   bound="rank 1..3, extents <= 4, coordinates -2..16, numrecs <= 16, at most 3 fill records per call, element size 4", **CK3)
ob("NC_varoffset_r3", "C03", entry="h_NC_varoffset3", enforce="NC_varoffset", unwind=6, cex_unwind=8,
   bound="rank 1..3, extents <= 4, record index <= 16, element size 4", **CK3)


def va_unwindset(R):
    w = "H4_NCvario"  # not enforced: the function keeps its name
    inner, outer = (4, 2) if R == 2 else (5, 5)  # iteration counts of the ripple counter: see the unit
    # loops of NCvario in goto order: 0 request validation, 1 zero-edge scan, 2 edp, 3 coords init, 4 upper init, 5 inner, 6 outer
    # (a stale table is harmless: loops not named here fall back to --unwind 16, which is only slower)
    d = {f"{w}.0": R + 2, f"{w}.1": R + 2, f"{w}.2": R + 2, f"{w}.3": R + 2, f"{w}.4": R + 2, f"{w}.5": inner + 1, f"{w}.6": outer + 1,
         "NCvcmaxcontig.0": R + 2}
    d.update({f"h_NCvario.{i}": 4 for i in range(5)})
    return ",".join(f"{k}:{v}" for k, v in d.items())


def VA(R, skip):
    return dict(entry="h_NCvario", mode="bounded",
                replace=["hdf_xdr_NCvdata", "H4_NCcoordck", "NC_varoffset"],
                flags=["--no-malloc-may-fail", "--unwindset", va_unwindset(R)], gi_flags=["--no-malloc-may-fail"],
                unwind=16, cex_unwind=16, defines=["PGIO_VARIO", f"MAXR={R}", "C03_W=4"] + (["VA_SKIP_FINDINGS"] if skip else []),
                bound=f"rank 1..{R}, extents <= 4, edges 0..3, start -1..5, numrecs <= 4, element size 4; fixed-size and record "
                      "variables, read and write, any file flags" + ("; WITHOUT the three clauses the tree as found violates" if skip else ""),
                trusted=PIO_TRUST + ["hdf_xdr_NCvdata (run logger: contract preconditions are the checks)",
                                     "H4_NCcoordck, NC_varoffset (replaced by the contracts proved in NCcoordck_r3 / NC_varoffset_r3)"],
                **{**PIO, "objbits": 11})


# all clauses: failed on the tree as found (D51 a failing request grows the unlimited dimension, D52 a run of 0 cells), both repaired.
# ~12 GB, 1-3 min.  (-DVA_SKIP_FINDINGS, the variant without those two clauses, is no longer registered.)
ob("NCvario_r2", "C03", timeout=900, tier="thorough", mem_gb=24, **VA(2, False))
# (NCvario_r3_core -- rank 3 -- needs more than 40 GB / 50 min on the repaired NCvario and is not registered)

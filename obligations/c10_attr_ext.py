"""C10 (extension): SD attribute put/replace/append and query (mfhdf/src/mfsd.c)"""
from .core import ob

SA = dict(unit="mfsd_attr_u.c", file="mfhdf/src/mfsd.c", objbits=8, cex_unwind=20,
          trusted=["NC_check_id (one file slot)", "hdf_unmap_type / hdf_map_type (the documented type maps of cdf.c, as macros)",
                   "NC_new_attr (allocates, records its arguments, sets HDFtype from the netCDF type like attr.c; may fail)",
                   "NC_findattr (index g_exp; its own contract is obligation NC_findattr_b)", "NC_free_attr (log)",
                   "NC_new_array / NC_incr_array (append into pre-allocated room; may fail)", "DFKNTsize (ghost size or FAIL)",
                   "NC_hlookupvar (ghost coordinate variable)", "memcpy with symbolic length: sparse model (first/last/ghost byte)"])

# full domain: FAILS on the real code -- append path, NC_new_attr returns NULL: `attr->HDFtype = nt` precedes the NULL test (mfsd.c:1450)
ob("SDIputattr", ["C10"], entry="h_SDIputattr", enforce="SDIputattr", **SA)
# the same contract on the complement of that input (constructor failure on the append path excluded)
ob("SDIputattr_mem", ["C10"], entry="h_SDIputattr_mem", enforce="SDIputattr", **SA)
# SDsetattr: argument checks, id decoding (dataset / file / dimension ids), SDIputattr inlined
ob("SDsetattr", ["C10"], entry="h_SDsetattr", enforce="SDsetattr", replace=["SDIgetcoordvar"], **SA)
ob("SDattrinfo", ["C10"], entry="h_SDattrinfo", enforce="SDattrinfo", replace=["SDIgetcoordvar"], **SA)
ob("SDreadattr", ["C10"], entry="h_SDreadattr", enforce="SDreadattr", replace=["SDIgetcoordvar"], **SA)

/* Verification unit: hdf/src/vg.c -- Vlone / VSlone (C08: which vgroups / vdatas are "lone").
 *
 * Model of the V layer (trusted stubs; the real functions are under contract in vgp_u.c):
 *   the file holds g_nvg <= 3 vgroups with refs g_r[0] < g_r[1] < g_r[2] (the order of the vgroup
 *   table), vgroup p has g_nv[p] members (g_mt[p][k], g_mr[p][k]), 0 <= g_nv[p] <= 65535;
 *   Vlone enumerates the vgroups themselves, VSlone the g_no <= 3 vdatas g_o[0] < g_o[1] < g_o[2].
 *   Vgetid / VSgetid walk these tables, Vattach(f, ref, "r") hands out the key VL_KEY0 + p,
 *   Vntagrefs / Vgettagref read the member arrays, Vdetach releases.
 *
 * Bounded stand-in (plain unwinding, no loop contracts): <= 3 vgroups, <= 3 members each, asize <= 4, and the ONE constant
 * MAX_REF scaled down (see SCALING below) so that the scan over the work area can be unwound.  The result is compared with
 * a reference model: the return value is the number of lone objects, idarray holds the first min(asize, count) of them in
 * ascending order, nothing else of idarray changes, every vgroup is attached "r" once and detached again, every V call
 * gets a valid key / index; plus the ghost-element facts (member g_k of vgroup g_p with ref g_x is not reported; a ref g_z
 * that is no object of the file is not reported).
 * What was tried and did not work (cbmc 6.11, probed): loop contracts on the member loop (member count symbolic up to
 * 65535) and on the scan.  dfcc applies loop contracts only inside a function under contract, and with the two
 * table-walking loops unwound next to them its write-set bookkeeping fails ("vgid is assignable", "assigns clause
 * inclusion for loop Vlone.1", library unwinding assertion) for any unwind bound; the real work area of 65535 flags written
 * at symbolic indices needs > 8 GB.
 */
#define VL_EXACT /* the only mode left: exact reference model */
#include "h4v.h"
#include "h4v_err.h"
#include "hdf_priv.h"
#include "vg_priv.h"

H4V_DECL_ND(int);
H4V_DECL_ND(int32);
H4V_DECL_ND(uint16);
H4V_DECL_ND(unsigned);

#ifdef VL_VS /* VSlone */
#define VL_TAG DFTAG_VH
#else /* Vlone */
#define VL_TAG DFTAG_VG
#endif
/* SCALING (tool limit, probed): cbmc cannot cope with the real work area of MAX_REF = 65535 flags written at symbolic
   indices (one vgroup, no members: > 8 GB; with --arrays-uf-always 46 M variables, one vgroup 236 s, two: > 900 s), and the
   scan over it cannot be unwound.  The obligations therefore run on the real text of Vlone / VSlone with the ONE constant
   MAX_REF re-defined to VL_SCALE (15): refs range over 1..VL_SCALE.  A bounded stand-in, labelled as such; everything else is
   the code as it is. */
#ifdef VL_SCALE
#undef MAX_REF
#define MAX_REF ((uint16)VL_SCALE)
#endif
#ifndef VL_REFMAX
#define VL_REFMAX (MAX_REF - 1) /* obligations *_maxref run with MAX_REF (the largest ref Hnewref hands out) */
#endif
#define VL_FID  0x10000007
#define VL_KEY0 0x40000021

/* ------------------------------------------------------------------ ghost model */
/* ref of member k of vgroup p.  The model's refs range over 0..VL_REFMAX (with the real MAX_REF: every 16-bit value but
   65535, resp. every value in the *_maxref runs): larger array values stand for VL_REFMAX */
#define VL_MREF(p, k) ((int32)g_mr[p][k] <= (int32)VL_REFMAX ? (int32)g_mr[p][k] : (int32)VL_REFMAX)
int32   g_nvg, g_r[3];  /* vgroups of the file (parents) */
int32   g_nv[3];        /* member counts */
uint16 *g_mt[3], *g_mr[3];
int32   g_no, g_o[3];   /* the enumerated objects (Vlone: the vgroups again) */
int     g_open[3];      /* attach count per vgroup, as this function drives it */
int     g_att_n, g_det_n, g_bad_call;
/* ghost elements */
unsigned g_p, g_k;   /* a parent and a member index of it */
int32    g_x;        /* the ref of that member */
int32    g_z;        /* some ref that is no object of the file */
unsigned g_q;        /* a position in the caller's array, and its entry value */
int32    g_id0;

int32
Vgetid(HFILEID f, int32 vgid)
{
    if (f != VL_FID)
        return FAIL;
    if (vgid == -1)
        return g_nvg > 0 ? g_r[0] : FAIL;
    if (g_nvg > 1 && vgid == g_r[0])
        return g_r[1];
    if (g_nvg > 2 && vgid == g_r[1])
        return g_r[2];
    return FAIL;
}
int32
VSgetid(HFILEID f, int32 vsid)
{
    if (f != VL_FID)
        return FAIL;
    if (vsid == -1)
        return g_no > 0 ? g_o[0] : FAIL;
    if (g_no > 1 && vsid == g_o[0])
        return g_o[1];
    if (g_no > 2 && vsid == g_o[1])
        return g_o[2];
    return FAIL;
}
int32
Vattach(HFILEID f, int32 vgid, const char *accesstype)
{
    H4V_CHECK(accesstype != NULL && (accesstype[0] == 'r' || accesstype[0] == 'R'), "an enumeration attaches for reading only");
    if (f != VL_FID)
        return FAIL;
    for (int p = 0; p < 3; p++)
        if (p < g_nvg && vgid == g_r[p]) {
            g_open[p]++;
            g_att_n++;
            return VL_KEY0 + p;
        }
    g_bad_call++;
    return FAIL;
}
int32
Vdetach(int32 vkey)
{
    if (vkey < VL_KEY0 || vkey >= VL_KEY0 + g_nvg || g_open[vkey - VL_KEY0] <= 0) {
        g_bad_call++;
        return FAIL;
    }
    g_open[vkey - VL_KEY0]--;
    g_det_n++;
    return SUCCEED;
}
int32
Vntagrefs(int32 vkey)
{
    if (vkey < VL_KEY0 || vkey >= VL_KEY0 + g_nvg || g_open[vkey - VL_KEY0] <= 0)
        return FAIL;
    return g_nv[vkey - VL_KEY0];
}
int
Vgettagref(int32 vkey, int32 which, int32 *tag, int32 *ref)
{
    if (vkey < VL_KEY0 || vkey >= VL_KEY0 + g_nvg || g_open[vkey - VL_KEY0] <= 0 || which < 0 || which >= g_nv[vkey - VL_KEY0]) {
        g_bad_call++;
        return FAIL;
    }
    int p = vkey - VL_KEY0;
    *tag  = (int32)g_mt[p][which];
    *ref  = VL_MREF(p, which);
    return SUCCEED;
}

/* number of enumerated objects with ref < lim whose flag is set, and "x is a flagged object" */
#define VL_CNT(fl, lim)                                                                                           \
    ((g_no > 0 && g_o[0] < (lim) && (fl)[g_o[0]] != 0) + (g_no > 1 && g_o[1] < (lim) && (fl)[g_o[1]] != 0) +      \
     (g_no > 2 && g_o[2] < (lim) && (fl)[g_o[2]] != 0))
#define VL_IS_OBJ(x) ((g_no > 0 && (x) == g_o[0]) || (g_no > 1 && (x) == g_o[1]) || (g_no > 2 && (x) == g_o[2]))

#include "vg.c"

/* ------------------------------------------------------------------ contracts: frame + result range (dfcc applies loop
   contracts only inside a function that is itself under contract); the element-wise facts are H4V_CHECKs of the harness,
   which knows the model */
#define VL_FRAME g_att_n, g_det_n, g_bad_call, __CPROVER_object_whole(g_open)
int32 Vlone(HFILEID f, int32 *idarray, int32 asize)
    __CPROVER_requires(asize >= 0)
    __CPROVER_assigns(VL_FRAME)
    __CPROVER_assigns(idarray != NULL: __CPROVER_object_whole(idarray))
    __CPROVER_ensures(__CPROVER_return_value == FAIL || (__CPROVER_return_value >= 0 && __CPROVER_return_value <= (int32)MAX_REF));
int32 VSlone(HFILEID f, int32 *idarray, int32 asize)
    __CPROVER_requires(asize >= 0)
    __CPROVER_assigns(VL_FRAME)
    __CPROVER_assigns(idarray != NULL: __CPROVER_object_whole(idarray))
    __CPROVER_ensures(__CPROVER_return_value == FAIL || (__CPROVER_return_value >= 0 && __CPROVER_return_value <= (int32)MAX_REF));

#ifdef H4V_NATIVE
#include "h4v_native_wrap.h"
#endif

/* ------------------------------------------------------------------ harness */
#ifdef H4V_CBMC
#define VL_BUF(T, p, n)                                                                                           \
    T *p = malloc((size_t)(n) * sizeof(T));                                                                       \
    __CPROVER_assume(p != NULL)
#else
#define VL_BUF(T, p, n) T *p = calloc((size_t)(n) + 1, sizeof(T))
#endif
#ifdef VL_EXACT
#define VL_MAXM 3 /* members per vgroup in the exact runs */
#else
#define VL_MAXM 65535 /* members per vgroup: the full range of the 16-bit count */
#endif
#define VL_MCAP 3 /* named member values in counterexample mode */

static void
vl_mk_model(void)
{
    H4V_HAVOC(int32, g_nvg);
    H4V_ASSUME(g_nvg >= 0 && g_nvg <= 3);
    H4V_ND(int32, r0);
    H4V_ND(int32, r1);
    H4V_ND(int32, r2);
    H4V_ASSUME(1 <= r0 && r0 < r1 && r1 < r2 && r2 <= VL_REFMAX);
    g_r[0] = r0;
    g_r[1] = r1;
    g_r[2] = r2;
    H4V_ND(int32, nv0);
    H4V_ND(int32, nv1);
    H4V_ND(int32, nv2);
    H4V_ASSUME(nv0 >= 0 && nv0 <= VL_MAXM && nv1 >= 0 && nv1 <= VL_MAXM && nv2 >= 0 && nv2 <= VL_MAXM);
    g_nv[0] = nv0;
    g_nv[1] = nv1;
    g_nv[2] = nv2;
#if defined(VL_EXACT) || defined(H4V_CEX) || !defined(H4V_CBMC)
    H4V_ND_BUF(uint16, mt0, nv0, VL_MCAP);
    H4V_ND_BUF(uint16, mr0, nv0, VL_MCAP);
    H4V_ND_BUF(uint16, mt1, nv1, VL_MCAP);
    H4V_ND_BUF(uint16, mr1, nv1, VL_MCAP);
    H4V_ND_BUF(uint16, mt2, nv2, VL_MCAP);
    H4V_ND_BUF(uint16, mr2, nv2, VL_MCAP);
#else
    VL_BUF(uint16, mt0, nv0);
    VL_BUF(uint16, mr0, nv0);
    VL_BUF(uint16, mt1, nv1);
    VL_BUF(uint16, mr1, nv1);
    VL_BUF(uint16, mt2, nv2);
    VL_BUF(uint16, mr2, nv2);
#endif
    g_mt[0] = mt0; g_mr[0] = mr0;
    g_mt[1] = mt1; g_mr[1] = mr1;
    g_mt[2] = mt2; g_mr[2] = mr2;
#ifdef VL_VS
    H4V_HAVOC(int32, g_no);
    H4V_ASSUME(g_no >= 0 && g_no <= 3);
    H4V_ND(int32, o0);
    H4V_ND(int32, o1);
    H4V_ND(int32, o2);
    H4V_ASSUME(1 <= o0 && o0 < o1 && o1 < o2 && o2 <= VL_REFMAX);
    g_o[0] = o0;
    g_o[1] = o1;
    g_o[2] = o2;
#else
    g_no   = g_nvg;
    g_o[0] = r0;
    g_o[1] = r1;
    g_o[2] = r2;
#endif
    g_open[0] = g_open[1] = g_open[2] = 0;
    g_att_n = g_det_n = g_bad_call = 0;
    /* ghost elements */
    H4V_HAVOC(unsigned, g_p);
    H4V_HAVOC(unsigned, g_k);
    H4V_HAVOC(int32, g_x);
    H4V_HAVOC(int32, g_z);
    H4V_HAVOC(unsigned, g_q);
    H4V_ASSUME(g_p < 3);
    H4V_ASSUME(g_x >= 0 && g_x <= VL_REFMAX && g_z >= 0 && g_z <= VL_REFMAX);
    H4V_ASSUME(!VL_IS_OBJ(g_z));
    /* g_x is the ref of member g_k of parent g_p, when there is such a member */
    if ((int32)g_p < g_nvg && g_k < (unsigned)g_nv[g_p])
        H4V_ASSUME(g_x == VL_MREF(g_p, g_k));
}

#ifdef VL_VS
#define VL_CALL(f, a, n) VSlone(f, a, n)
#else
#define VL_CALL(f, a, n) Vlone(f, a, n)
#endif

void
h_lone(void)
{
    vl_mk_model();
    H4V_ND(int32, asize);
    H4V_ND(int, null_array);
#ifdef VL_EXACT
    H4V_ASSUME(asize >= 0 && asize <= 4);
#else
    H4V_ASSUME(asize >= 0 && asize <= 70000);
#endif
    H4V_ND_BUF(int32, ida, asize, 4);
    int32 *idarray = ida;
    if (null_array) { /* Vlone(f, NULL, 0): the documented way to ask for the count */
        H4V_ASSUME(asize == 0);
        idarray = NULL;
    }
    H4V_ND(int32, id0);
    g_id0 = id0;
    if (g_q < (unsigned)asize)
        ida[g_q] = id0;
    int is_member = (int32)g_p < g_nvg && g_k < (unsigned)g_nv[g_p];
    int is_tagged = is_member && g_mt[g_p][g_k] == VL_TAG;

    int32 r = VL_CALL(VL_FID, idarray, asize);

    H4V_CHECK(r != FAIL || r == FAIL, "returns");
    if (r != FAIL) { /* FAIL: allocation failure of the work area only */
        int32 nrep = r < asize ? r : asize; /* entries reported in the array */
        H4V_CHECK(r >= 0 && r <= (int32)MAX_REF, "a count");
        H4V_CHECK(g_bad_call == 0, "every V call is made with a valid key / index");
        H4V_CHECK(g_att_n == 2 * 0 + g_nvg && g_det_n == g_nvg && g_open[0] == 0 && g_open[1] == 0 && g_open[2] == 0,
                  "every vgroup is attached once and detached again");
        /* a member (tag of interest, x) is never reported lone */
        H4V_CHECK(!(is_tagged && g_q < (unsigned)nrep) || idarray[g_q] != g_x, "an object that is a member of a vgroup is not reported lone");
        /* only objects of the file are reported */
        H4V_CHECK(!(g_q < (unsigned)nrep) || idarray[g_q] != g_z, "only enumerated objects are reported");
        H4V_CHECK(!(g_q < (unsigned)nrep) || (idarray[g_q] >= 0 && idarray[g_q] <= (int32)MAX_REF), "reported values are refs");
        /* nothing beyond min(count, asize) entries is written (beyond asize: bounds checks on the exact-size array) */
        H4V_CHECK(!(g_q >= (unsigned)nrep && g_q < (unsigned)asize) || idarray[g_q] == g_id0, "entries beyond the reported ones keep their value");
#ifdef VL_EXACT
        /* reference model: object j is lone iff no member (tag of interest, g_o[j]) exists in any vgroup */
        int lone[3], cnt = 0;
        for (int j = 0; j < 3; j++) {
            lone[j] = j < g_no;
            for (int p = 0; p < 3; p++)
                for (int k = 0; k < VL_MAXM; k++)
                    if (p < g_nvg && k < g_nv[p] && g_mt[p][k] == VL_TAG && VL_MREF(p, k) == g_o[j])
                        lone[j] = 0;
            cnt += lone[j];
        }
        H4V_CHECK(r == cnt, "the return value is the number of lone objects");
        /* the g_q-th entry is the g_q-th lone object in ascending order */
        int32 lst[3] = {-1, -1, -1};
        int   pos    = 0;
        for (int j = 0; j < 3; j++)
            if (lone[j])
                lst[pos++] = g_o[j];
        H4V_CHECK(!(g_q < (unsigned)nrep) || (g_q < 3 && idarray[g_q] == lst[g_q]), "idarray lists the lone objects in ascending order");
        H4V_COVER(r == 3 && asize == 2, "lone: more lone objects than room");
        H4V_COVER(r == 1 && g_no == 3 && asize == 4, "lone: one of three");
        H4V_COVER(r == 0 && g_no == 3, "lone: none of three");
#else
        H4V_COVER(is_tagged && g_k > 70 && g_nv[g_p] > 300 && r >= 1 && asize >= 1, "lone: large vgroup");
        H4V_COVER(r == 2 && asize == 1, "lone: more lone objects than room");
#endif
        H4V_COVER(null_array && r > 0, "lone: count only");
    }
    H4V_CANARY("lone end");
}

/* Verification unit: hdf/src/mfan.c (C11: annotations) -- whole file, H layer stubbed */
#include "h4v.h"
#include "h4v_err.h"
#include <string.h>
#include "mfan_priv.h"
#include "mfan.h"
#include "atom_priv.h"
#include "hfile_priv.h"

typedef ann_type h4v_atype;

/* ------------------------------------------------------------------------------------------
 * Ghost model of ONE stored annotation element and ONE open access id (trusted stubs of the
 * H layer: hfile.c is verified under C01; here only what ANIreadann/ANIannlen need).
 *   g_elem[0..g_stored)   the bytes of the element (tag g_tag, ref g_ref in file g_file)
 *   g_posn                read position of the open aid
 * ------------------------------------------------------------------------------------------ */
#define H4V_AID 0x30001
#define H4V_ELEM_CAP 12 /* counterexample mode only */
static uint8 *g_elem;
static int32  g_stored; /* element length, any value >= 0 */
static int32  g_file;   /* file id of the annotation node */
static uint16 g_tag, g_ref;
static int32  g_posn;
static int    g_open;     /* number of open aids (0/1) */
static int    g_nstart;   /* number of Hstartread calls */
static int    g_zero_req; /* a zero-length Hread that was NOT harmless was issued */
static ANnode *g_node;    /* what HAatom_object(g_ann_id) returns (may be NULL) */
static int32  g_ann_id;
/* ghost index into the annotation text: a proof for arbitrary g_k is a proof for all bytes */
int32 g_k;
/* ghost index into the caller's buffer for "bytes outside the result are unchanged" */
int32 g_o;
/* ghost: the caller's buffer and the index of the label terminator (set by the harness) */
static char *g_annbuf;
static int32 g_t;
typedef unsigned char h4v_u8;
h4v_u8 nondet_h4v_u8(void);

/* the H layer refused although the request was legal (no such element, I/O error, no memory) */
static int g_hfail;
static int g_endfail; /* an Hendaccess reported failure */
/* offset of the text inside the element: 4 (target tag/ref prefix) for data annotations */
#define H4V_OFF ((g_tag == DFTAG_DIL || g_tag == DFTAG_DIA) ? 4 : 0)

H4V_DECL_ND(int32);
H4V_DECL_ND(int);
H4V_DECL_ND(uint16);
H4V_DECL_ND(h4v_atype);

void *
HAatom_object(atom_t atm)
{
    return atm == g_ann_id ? (void *)g_node : NULL;
}

int32
Hstartread(int32 file_id, uint16 tag, uint16 ref)
{
    H4V_ND(int, hstartread_fails);
    H4V_CHECK(g_open == 0, "Hstartread: no aid is open yet");
    if (file_id != g_file || tag != g_tag || ref != g_ref || hstartread_fails) {
        g_hfail = 1; /* no such element, or the H layer fails (no memory, I/O) */
        return FAIL;
    }
    g_open = 1;
    g_nstart++;
    g_posn = 0;
    return H4V_AID;
}

int
Hinquire(int32 access_id, int32 *pfile_id, uint16 *ptag, uint16 *pref, int32 *plength, int32 *poffset,
         int32 *pposn, int16 *paccess, int16 *pspecial)
{
    H4V_ND(int, hinquire_fails);
    H4V_CHECK(access_id == H4V_AID && g_open == 1, "Hinquire: on the open aid");
    if (hinquire_fails) {
        g_hfail = 1;
        return FAIL;
    }
    if (pfile_id)
        *pfile_id = g_file;
    if (ptag)
        *ptag = g_tag;
    if (pref)
        *pref = g_ref;
    if (plength)
        *plength = g_stored;
    if (poffset)
        *poffset = 0;
    if (pposn)
        *pposn = g_posn;
    if (paccess)
        *paccess = DFACC_READ;
    if (pspecial)
        *pspecial = 0;
    return SUCCEED;
}

int32
Hlength(int32 file_id, uint16 tag, uint16 ref)
{
    H4V_ND(int, hlength_fails);
    if (file_id != g_file || tag != g_tag || ref != g_ref || hlength_fails) {
        g_hfail = 1;
        return FAIL;
    }
    return g_stored;
}

/* Hread as hfile.c:1247 defines it for an ordinary element: length < 0 fails; length == 0 or
   length beyond the end means "read to the end of the element"; returns the count read. */
int32
Hread(int32 access_id, int32 length, void *data)
{
    int32 n;
    H4V_ND(int, hread_fails);
    H4V_CHECK(access_id == H4V_AID && g_open == 1, "Hread: on the open aid");
    if (data == NULL || length < 0)
        return FAIL; /* DFE_ARGS / DFE_BADSEEK: the caller's fault, not an H-layer failure */
    if (hread_fails) {
        g_hfail = 1;
        return FAIL;
    }
    n = length;
    if (length == 0 || length > g_stored - g_posn)
        n = g_stored - g_posn;
    /* in HDF4 Hread(aid,0,buf) is NOT "read nothing": a caller that wants 0 bytes must not call */
    if (length == 0 && n > 0)
        g_zero_req = 1;
    H4V_CHECK(!(length == 0 && n > 0), "Hread(aid,0,buf) issued although bytes remain: reads to the END of the element");
#if defined(H4V_CBMC) && !defined(H4V_CEX) && !defined(H4V_FULLCOPY)
    /* proof mode, sparse model of the n-byte transfer (no symbolic-length copy): the first and the
       last byte of the destination range are written (so the range [data, data+n) is checked
       against the object bounds and the frame), the byte that corresponds to the ghost text index
       g_k receives the stored value, and every other byte of the range that a contract clause
       observes (g_o, g_t) receives an arbitrary value.  For every fixed byte this admits at
       least the behaviours of the real copy, so the per-ghost-byte clauses are proved for all. */
    if (n > 0) {
        ((uint8 *)data)[0]     = nondet_h4v_u8();
        ((uint8 *)data)[n - 1] = nondet_h4v_u8();
        if ((char *)data == g_annbuf) {
            if (g_o >= 0 && g_o < n)
                ((uint8 *)data)[g_o] = nondet_h4v_u8();
            if (g_t >= 0 && g_t < n)
                ((uint8 *)data)[g_t] = nondet_h4v_u8();
        }
        if (g_posn <= g_stored - 1 && 0 < n && n - 1 <= g_stored - 1 - g_posn) {
            /* bytes 0 and n-1 are the stored ones when they are the ghost byte; in general: */
            if (g_k >= 0 && g_k <= g_stored - 1 - H4V_OFF && g_k + H4V_OFF >= g_posn && g_k + H4V_OFF - g_posn < n)
                ((uint8 *)data)[g_k + H4V_OFF - g_posn] = g_elem[g_k + H4V_OFF];
        }
    }
#else
    for (int32 i = 0; i < n; i++)
        ((uint8 *)data)[i] = g_elem[g_posn + i];
#endif
    g_posn += n;
    return n;
}

int
Hendaccess(int32 access_id)
{
    H4V_ND(int, hendaccess_fails);
    /* a second Hendaccess on the same aid is tolerated only after the first one reported failure */
    H4V_CHECK(access_id == H4V_AID && (g_open == 1 || g_endfail), "Hendaccess: on the open aid");
    g_open = 0;
    if (hendaccess_fails) {
        g_hfail   = 1;
        g_endfail = 1;
        return FAIL;
    }
    return SUCCEED;
}

#include "mfan.c"

/* ------------------------------------------------------------------------------------------ */
#define AN_IS_LABEL_TAG(t) ((t) == DFTAG_DIL || (t) == DFTAG_FID)
#define AN_TEXTLEN (g_stored - H4V_OFF) /* stored text length */
/* number of text bytes ANreadann must deliver: min(stored text, room), room = maxlen-1 for labels */
#define AN_ROOM(maxlen) (AN_IS_LABEL_TAG(g_tag) ? (maxlen)-1 : (maxlen))
#define AN_NCOPY(maxlen) (AN_TEXTLEN < AN_ROOM(maxlen) ? AN_TEXTLEN : AN_ROOM(maxlen))

uint16 ANatype2tag(ann_type atype)
    __CPROVER_requires(1)
    __CPROVER_assigns()
    __CPROVER_ensures(atype == AN_DATA_LABEL  ? __CPROVER_return_value == DFTAG_DIL
                      : atype == AN_DATA_DESC ? __CPROVER_return_value == DFTAG_DIA
                      : atype == AN_FILE_LABEL ? __CPROVER_return_value == DFTAG_FID
                      : atype == AN_FILE_DESC  ? __CPROVER_return_value == DFTAG_FD
                                               : __CPROVER_return_value == DFTAG_NULL);

ann_type ANtag2atype(uint16 atag)
    __CPROVER_requires(1)
    __CPROVER_assigns()
    __CPROVER_ensures(atag == DFTAG_DIL  ? __CPROVER_return_value == AN_DATA_LABEL
                      : atag == DFTAG_DIA ? __CPROVER_return_value == AN_DATA_DESC
                      : atag == DFTAG_FID ? __CPROVER_return_value == AN_FILE_LABEL
                      : atag == DFTAG_FD  ? __CPROVER_return_value == AN_FILE_DESC
                                          : __CPROVER_return_value == AN_UNDEF);

int ANIanncmp(void *i, void *j, int value)
    __CPROVER_requires(i != NULL && j != NULL)
    __CPROVER_assigns()
    /* the documented orientation: 0 if equal, -1 if *i > *j, 1 if *i < *j */
    __CPROVER_ensures((__CPROVER_return_value == 0) == (*(int32 *)i == *(int32 *)j))
    __CPROVER_ensures((__CPROVER_return_value == -1) == (*(int32 *)i > *(int32 *)j))
    __CPROVER_ensures((__CPROVER_return_value == 1) == (*(int32 *)i < *(int32 *)j));

/* the node is known, belongs to a file and carries one of the 4 annotation types */
#define AN_NODE_OK(id)                                                                                \
    ((id) == g_ann_id && g_node != NULL && g_node->file_id != FAIL && AN_KEY2TYPE(g_node->ann_key) >= AN_DATA_LABEL &&    \
     AN_KEY2TYPE(g_node->ann_key) <= AN_FILE_DESC)

static int32 ANIannlen(int32 ann_id)
    __CPROVER_requires(g_stored >= 0 && g_hfail == 0)
    __CPROVER_assigns(g_hfail)
    /* stored length minus the 4-byte target tag/ref prefix for data annotations */
    __CPROVER_ensures(__CPROVER_return_value == FAIL || __CPROVER_return_value == AN_TEXTLEN)
    __CPROVER_ensures(!AN_NODE_OK(ann_id) ==> __CPROVER_return_value == FAIL)
    /* no failure without a reason */
    __CPROVER_ensures((AN_NODE_OK(ann_id) && !g_hfail) ==> __CPROVER_return_value == AN_TEXTLEN);

static int ANIreadann(int32 ann_id, char *ann, int32 maxlen)
    __CPROVER_requires(g_stored >= 0 && maxlen >= 0 && g_open == 0 && g_nstart == 0 && g_zero_req == 0 && g_hfail == 0)
    __CPROVER_requires(ann != NULL)
    /* frame: ONLY the caller's maxlen bytes (and the stubs' ghost bookkeeping) */
    __CPROVER_assigns(maxlen > 0: __CPROVER_object_upto(ann, (__CPROVER_size_t)maxlen); g_open, g_nstart, g_posn, g_zero_req, g_hfail, g_endfail)
    __CPROVER_ensures(__CPROVER_return_value == SUCCEED || __CPROVER_return_value == FAIL)
    /* every access id obtained is released again, on success and on failure */
    __CPROVER_ensures(g_open == 0 && g_nstart <= 1)
    /* unknown id / node without file / bad type: failure */
    __CPROVER_ensures(!AN_NODE_OK(ann_id) ==> __CPROVER_return_value == FAIL)
    /* no failure without a reason: H layer failed, no room for the terminator, malformed element */
    __CPROVER_ensures((AN_NODE_OK(ann_id) && !g_hfail && AN_ROOM(maxlen) >= 0 && AN_TEXTLEN >= 0) ==> __CPROVER_return_value == SUCCEED)
    /* success: text byte g_k (after the 4-byte prefix of data annotations) is in ann[g_k] */
    __CPROVER_ensures((__CPROVER_return_value == SUCCEED && g_k >= 0 && g_k < AN_NCOPY(maxlen)) ==>
                      (uint8)ann[g_k] == g_elem[H4V_OFF + g_k])
    /* success: labels are NUL-terminated right after the copied text */
    __CPROVER_ensures((__CPROVER_return_value == SUCCEED && AN_IS_LABEL_TAG(g_tag)) ==>
                      (AN_NCOPY(maxlen) >= 0 && AN_NCOPY(maxlen) < maxlen && ann[AN_NCOPY(maxlen)] == 0))
    /* a request for 0 bytes must never reach Hread as length 0 ("to the end") */
    __CPROVER_ensures(g_zero_req == 0);

#ifdef H4V_NATIVE
#include "h4v_native_wrap.h"
#endif

/* ---------------- harnesses ---------------- */

/* key codec: AN_CREATE_KEY / AN_KEY2REF / AN_KEY2TYPE (macros of mfan_priv.h) */
void
h_an_key_codec(void)
{
    H4V_ND(int32, t1);
    H4V_ND(uint16, r1);
    H4V_ND(int32, t2);
    H4V_ND(uint16, r2);
    H4V_ASSUME(t1 >= AN_DATA_LABEL && t1 <= AN_FILE_DESC);
    H4V_ASSUME(t2 >= AN_DATA_LABEL && t2 <= AN_FILE_DESC);
    int32 k1 = AN_CREATE_KEY(t1, r1);
    int32 k2 = AN_CREATE_KEY(t2, r2);
    H4V_CHECK(AN_KEY2TYPE(k1) == t1, "AN_KEY2TYPE(AN_CREATE_KEY(t,r)) == t");
    H4V_CHECK(AN_KEY2REF(k1) == r1, "AN_KEY2REF(AN_CREATE_KEY(t,r)) == r");
    H4V_CHECK((k1 == k2) == (t1 == t2 && r1 == r2), "distinct (type,ref) <=> distinct keys");
    H4V_CHECK(k1 >= 0, "keys of the 4 types are non-negative (tree order = (type,ref) lexicographic)");
    H4V_CHECK((k1 < k2) == (t1 < t2 || (t1 == t2 && r1 < r2)), "key order is lexicographic in (type,ref)");
    H4V_COVER(t1 == AN_FILE_DESC && r1 == 65535, "key codec top corner");
    H4V_CANARY("an_key_codec end");
}

void
h_ANatype2tag(void)
{
    H4V_ND(h4v_atype, atype);
    uint16 t = ANatype2tag(atype);
    H4V_COVER(t == DFTAG_NULL, "atype2tag error value");
    H4V_COVER(t == DFTAG_DIA, "atype2tag data desc");
    H4V_CANARY("ANatype2tag end");
}

void
h_ANtag2atype(void)
{
    H4V_ND(uint16, atag);
    ann_type t = ANtag2atype(atag);
    H4V_COVER(t == AN_UNDEF, "tag2atype error value");
    H4V_COVER(t == AN_FILE_DESC, "tag2atype file desc");
    H4V_CANARY("ANtag2atype end");
}

/* mutually inverse on the 4 types, everything else maps to the error values (real code, no contract) */
void
h_an_type_tag_inverse(void)
{
    H4V_ND(h4v_atype, atype);
    H4V_ND(uint16, atag);
    uint16   t  = ANatype2tag(atype);
    ann_type a  = ANtag2atype(atag);
    int      v4 = (atype == AN_DATA_LABEL || atype == AN_DATA_DESC || atype == AN_FILE_LABEL || atype == AN_FILE_DESC);
    int      t4 = (atag == DFTAG_DIL || atag == DFTAG_DIA || atag == DFTAG_FID || atag == DFTAG_FD);
    H4V_CHECK(v4 ? ANtag2atype(t) == atype : t == DFTAG_NULL, "tag2atype(atype2tag(a)) == a on the 4 types, else DFTAG_NULL");
    H4V_CHECK(t4 ? ANatype2tag(a) == atag : a == AN_UNDEF, "atype2tag(tag2atype(t)) == t on the 4 tags, else AN_UNDEF");
    H4V_CHECK(ANtag2atype(DFTAG_NULL) == AN_UNDEF && ANatype2tag(AN_UNDEF) == DFTAG_NULL, "error values map to error values");
    H4V_COVER(v4 && t4, "inverse: valid pair");
    H4V_COVER(!v4 && !t4, "inverse: invalid pair");
    H4V_CANARY("an_type_tag_inverse end");
}

void
h_ANIanncmp(void)
{
    H4V_ND(int32, ka);
    H4V_ND(int32, kb);
    int r = ANIanncmp(&ka, &kb, 0);
    H4V_COVER(r == -1, "anncmp greater");
    H4V_COVER(r == 0, "anncmp equal");
    H4V_CANARY("ANIanncmp end");
}

/* strict total order consistent with key equality, on a ghost triple (real code, no contract) */
void
h_an_cmp_order(void)
{
    H4V_ND(int32, ka);
    H4V_ND(int32, kb);
    H4V_ND(int32, kc);
    int ab = ANIanncmp(&ka, &kb, 0), ba = ANIanncmp(&kb, &ka, 0);
    int bc = ANIanncmp(&kb, &kc, 0), ac = ANIanncmp(&ka, &kc, 0);
    H4V_CHECK(ab == -1 || ab == 0 || ab == 1, "anncmp result in {-1,0,1}");
    H4V_CHECK((ab == 0) == (ka == kb), "anncmp == 0 iff keys equal");
    H4V_CHECK(ab == -ba, "anncmp antisymmetric");
    H4V_CHECK(!(ab == 1 && bc == 1) || ac == 1, "anncmp transitive (<)");
    H4V_CHECK(!(ab == -1 && bc == -1) || ac == -1, "anncmp transitive (>)");
    H4V_CHECK(!(ab == 0) || ac == bc, "anncmp respects equality");
    H4V_CHECK(ANIanncmp(&ka, &ka, 0) == 0, "anncmp irreflexive (strict part)");
    H4V_COVER(ab == 1 && bc == 1, "anncmp chain");
    H4V_CANARY("an_cmp_order end");
}

/* environment of ANIannlen / ANIreadann: one annotation node, one stored element */
static void
mk_ann_env(void)
{
    H4V_HAVOC(int32, g_k);
    H4V_HAVOC(int32, g_o);
    H4V_HAVOC(int32, g_ann_id);
    H4V_HAVOC(int32, g_file);
    H4V_HAVOC(int32, g_stored);
    H4V_HAVOC(uint16, g_tag);
    H4V_HAVOC(uint16, g_ref);
    H4V_ND(int, node_null);
    H4V_ND(int32, node_file);
    H4V_ND(int32, node_key);
    H4V_ASSUME(g_stored >= 0);
    g_open = 0;
    g_nstart = 0;
    g_zero_req = 0;
    g_hfail = 0;
    g_endfail = 0;
    g_posn = 0;
    H4V_ND_BUF(h4v_u8, elem, g_stored, H4V_ELEM_CAP);
    g_elem = elem;
    g_node = NULL;
    if (!node_null) {
        g_node = malloc(sizeof(ANnode));
        H4V_ASSUME(g_node != NULL);
        g_node->file_id = node_file;
        g_node->ann_key = node_key;
        g_node->new_ann = 0;
    }
}

void
h_ANIannlen(void)
{
    mk_ann_env();
    H4V_ND(int32, ann_id);
    int32 r = ANIannlen(ann_id);
    H4V_COVER(r == FAIL, "annlen fail");
    H4V_COVER(r != FAIL && g_tag == DFTAG_DIA, "annlen data desc");
    H4V_COVER(r != FAIL && g_tag == DFTAG_FID, "annlen file label");
    H4V_CANARY("ANIannlen end");
}

static void
readann_body(int exclude_d14)
{
    mk_ann_env();
    H4V_ND(int32, ann_id);
    H4V_ND(int32, maxlen);
    H4V_ASSUME(maxlen >= 0);
    /* D14 inputs: the room clamps the transfer to 0 bytes although text is stored
       (label with maxlen == 1, description with maxlen == 0) */
    if (exclude_d14)
        H4V_ASSUME(!(AN_ROOM(maxlen) == 0 && AN_TEXTLEN > 0));
    H4V_ND_BUF(char, ann, maxlen, H4V_ELEM_CAP);
    H4V_ASSUME(g_o >= 0);
    g_annbuf = ann;
    g_t      = AN_NCOPY(maxlen);
    char old_o = g_o < maxlen ? ann[g_o] : 0;
    int  r     = ANIreadann(ann_id, ann, maxlen);
    /* nothing but the text (and the terminator of a label) is touched; on failure before the read nothing */
    H4V_CHECK(!(r == SUCCEED && g_o < maxlen && g_o >= AN_NCOPY(maxlen) + (AN_IS_LABEL_TAG(g_tag) ? 1 : 0)) || ann[g_o] == old_o,
              "ANIreadann: bytes of ann beyond the text/terminator are unchanged");
    H4V_CHECK(!(r == FAIL && g_nstart == 0 && g_o < maxlen) || ann[g_o] == old_o,
              "ANIreadann: buffer untouched when the element could not be opened");
    H4V_COVER(r == FAIL, "readann fail");
    H4V_COVER(r == FAIL && g_endfail, "readann Hendaccess failure path");
    H4V_COVER(r == SUCCEED && g_tag == DFTAG_DIL && AN_TEXTLEN > maxlen - 1, "readann data label truncated");
    H4V_COVER(r == SUCCEED && g_tag == DFTAG_DIA && AN_TEXTLEN < maxlen, "readann data desc short");
    H4V_COVER(r == SUCCEED && g_tag == DFTAG_FD, "readann file desc");
    H4V_COVER(r == SUCCEED && g_tag == DFTAG_FID && maxlen > 1 && AN_TEXTLEN == 0, "readann empty file label");
    H4V_CANARY("ANIreadann end");
}

/* all inputs the contract admits (fails on the D14 inputs: kept, reported) */
void
h_ANIreadann(void)
{
    readann_body(0);
}

/* the same contract on the complement of the D14 inputs */
void
h_ANIreadann_room(void)
{
    readann_body(1);
}

/* Verification unit: mfhdf/src/putget.c (C03: SDS hyperslabs -- coordinate check, offsets,
   contiguity, odometer).  Only the HDF_FILE file type and the SD API entry (cdf_routine_name
   "SDreaddata"/"SDwritedata") are modelled; netCDF/CDF file types are outside C03. */
#include "h4v.h"
#include "h4v_err.h"
#include "nc_priv.h"
#include "putget_pred.h"

/* ------------------------------------------------------------------ ghost state */
int  g_d;        /* ghost dimension index: a proof for arbitrary g_d is a proof for all */
int  g_nr0;      /* vp->numrecs at entry (used by the fill-loop invariant) */
int  g_hw_n;     /* Hwrite calls */
int  g_hw_ok;    /* successful Hwrite calls */
int  g_seek_n;   /* Hseek calls */
int  g_seek_off; /* offset of the last Hseek */
int  g_iofail;   /* some stubbed I/O or allocation step reported failure */
int  g_anybad;   /* harness-computed: the request is invalid (existential over dimensions) */
int  g_chk_verdict; /* 1: the run unwinds all loops, so the existential clause (4) is checked too */
int32 g_aid;     /* the access id the variable is attached with */
int32 g_reclen;  /* expected fill-record length */

H4V_DECL_ND(int);
H4V_DECL_ND(int32);
H4V_DECL_ND(unsigned);
H4V_DECL_ND(h4v_long);
H4V_DECL_ND(h4v_ulong);

/* defined in error.c, which is not part of the unit */
const char *cdf_routine_name;

/* ------------------------------------------------------------------ trusted stubs */
void NCadvise(int err, const char *fmt, ...) {}
void nc_serror(const char *fmt, ...) {}

#ifdef H4V_CBMC
/* libc strstr as used by nc_API(): needle is "nc"; only `result == haystack` is looked at */
char *
strstr(const char *h, const char *n)
{
    H4V_CHECK(n[0] == 'n' && n[1] == 'c' && n[2] == 0, "strstr stub: needle is \"nc\"");
    if (h[0] == 'n' && h[1] == 'c')
        return (char *)h;
    return NULL;
}
#endif

int
Hseek(int32 access_id, int32 offset, int origin)
{
    H4V_CHECK(access_id == g_aid && access_id != FAIL, "Hseek on the variable's aid");
    H4V_CHECK(origin == DF_START, "Hseek from start");
    g_seek_n++;
    g_seek_off = offset;
    H4V_ND(int, seek_fail);
    if (seek_fail) {
        g_iofail = 1;
        return FAIL;
    }
    return SUCCEED;
}

int32
Hwrite(int32 access_id, int32 length, const void *data)
{
    H4V_CHECK(access_id == g_aid && access_id != FAIL, "Hwrite on the variable's aid");
    H4V_CHECK(length == g_reclen, "fill record has the record length");
    H4V_CHECK(data != NULL, "Hwrite data");
    g_hw_n++;
    H4V_ND(int, hwrite_fail);
    if (hwrite_fail) {
        g_iofail = 1;
        return FAIL;
    }
    g_hw_ok++;
    return length;
}

int32
DFKconvert(void *source, void *dest, int32 ntype, int32 num_elm, int16 acc_mode, int32 source_stride,
           int32 dest_stride)
{
    H4V_CHECK(source != NULL && dest != NULL, "DFKconvert buffers");
    H4V_ND(int, conv_fail);
    if (conv_fail) {
        g_iofail = 1;
        return FAIL;
    }
    return SUCCEED;
}

void *
HDmemfill(void *dest, const void *src, uint32 item_size, uint32 num_items)
{
    H4V_CHECK(dest != NULL && src != NULL, "HDmemfill buffers");
    return dest;
}

void
NC_arrayfill(void *lo, size_t len, nc_type type)
{
    H4V_CHECK(lo != NULL, "NC_arrayfill buffer");
}

static NC_attr  *g_attr;  /* a _FillValue attribute (or none) */
static NC_attr **g_attrp;
NC_attr **
NC_findattr(NC_array **ap, const char *name)
{
    H4V_ND(int, have_fill_attr);
    if (have_fill_attr)
        return g_attrp;
    return NULL;
}

int
DFKsetNT(int32 ntype)
{
    H4V_ND(int, setnt_fail);
    return setnt_fail ? FAIL : SUCCEED;
}

static NC_var *g_vp; /* the variable NC_hlookupvar hands out */
NC_var *
NC_hlookupvar(NC *handle, int varid)
{
    H4V_ND(int, lookup_fail);
    if (lookup_fail)
        return NULL;
    return g_vp;
}

int
nctypelen(nc_type type)
{
    switch (type) {
        case NC_BYTE:
        case NC_CHAR:
            return 1;
        case NC_SHORT:
            return 2;
        case NC_LONG:
        case NC_FLOAT:
            return 4;
        case NC_DOUBLE:
            return 8;
        default:
            return -1;
    }
}

bool_t
xdr_numrecs(XDR *xdrs, NC *handle)
{
    H4V_ND(int, numrecs_fail);
    return numrecs_fail ? FALSE : TRUE;
}

#include "putget.c"

/* ------------------------------------------------------------------ contracts */

/* assumed (trusted) contract of the attach helper: sets vp->aid, may fail */
int32 hdf_get_vp_aid(NC *handle, NC_var *vp)
    __CPROVER_requires(handle != NULL && vp != NULL)
    __CPROVER_assigns(vp->aid, vp->data_ref, vp->set_length, g_iofail)
    __CPROVER_ensures((__CPROVER_return_value == FAIL && g_iofail == 1) ||
                      (__CPROVER_return_value == vp->aid && vp->aid == g_aid && vp->aid != FAIL &&
                       g_iofail == __CPROVER_old(g_iofail)));

/* environment the SD layer guarantees (NC_var compiled by NC_var_shape, HDF file) */
#define CK_ENV(handle, vp)                                                                           \
    ((handle)->file_type == HDF_FILE && (handle)->xdrs != NULL &&                                    \
     ((handle)->xdrs->x_op == XDR_ENCODE || (handle)->xdrs->x_op == XDR_DECODE) &&                   \
     (vp)->assoc != NULL && (vp)->assoc->count >= 1 && (vp)->assoc->count <= H4_MAX_VAR_DIMS &&      \
     (vp)->shape != NULL && (vp)->numrecs >= 0 &&                                                    \
     ((vp)->HDFsize == 1 || (vp)->HDFsize == 2 || (vp)->HDFsize == 4 || (vp)->HDFsize == 8) &&       \
     ((vp)->szof == 1 || (vp)->szof == 2 || (vp)->szof == 4 || (vp)->szof == 8) &&                   \
     (vp)->len >= 1 && (vp)->len <= 0x7fffffffUL && ((vp)->aid == FAIL || (vp)->aid == g_aid))
#define CK_MAX(a, b) ((a) > (b) ? (a) : (b))
/* the call has to write fill records: there FALSE may also mean an allocation or I/O failure
   (an allocation failure inside the real code is not observable by the stubs) */
#define CK_FILLPATH(handle, vp, coords, old_nr, old_flags)                                           \
    (C03_REC(vp) && (handle)->xdrs->x_op == XDR_ENCODE && (coords)[0] >= (old_nr) && ((old_flags)&NC_NOFILL) == 0)

bool_t H4_NCcoordck(NC *handle, NC_var *vp, const long *coords)
    __CPROVER_requires(handle != NULL && vp != NULL && coords != NULL && CK_ENV(handle, vp))
    __CPROVER_requires(0 <= g_d && g_d < C03_RANK(vp))
    /* SD API: coordinates come from int32 arguments */
    __CPROVER_requires(coords[g_d] >= -2147483647L - 1 && coords[g_d] <= 2147483647L)
    __CPROVER_requires(coords[0] >= -2147483647L - 1 && coords[0] < 2147483647L)
    /* the data element of a variable is shorter than 2 GB (HDF4 format limit) */
    __CPROVER_requires(!__CPROVER_overflow_mult(vp->numrecs, (int)vp->len))
    __CPROVER_requires(g_nr0 == vp->numrecs && g_hw_n == 0 && g_hw_ok == 0 && g_seek_n == 0 && g_iofail == 0 &&
                       g_reclen == (int32)vp->len && g_aid != FAIL)
    __CPROVER_assigns(vp->numrecs, handle->numrecs, handle->flags, vp->aid, vp->data_ref, vp->set_length, g_hw_n,
                      g_hw_ok, g_seek_n, g_seek_off, g_iofail)
    __CPROVER_ensures(__CPROVER_return_value == TRUE || __CPROVER_return_value == FALSE)
    /* (1) a fixed-dimension coordinate outside [0, shape) is rejected */
    __CPROVER_ensures((C03_FIXED(vp, g_d) && C03_OUTSIDE(vp, coords, g_d)) ==> __CPROVER_return_value == FALSE)
    /* (2) a negative record index is rejected */
    __CPROVER_ensures((C03_REC(vp) && coords[0] < 0) ==> __CPROVER_return_value == FALSE)
    /* (3) SD read access at or beyond the variable's number of records is rejected */
    __CPROVER_ensures((C03_REC(vp) && handle->xdrs->x_op != XDR_ENCODE && coords[0] >= __CPROVER_old(vp->numrecs)) ==>
                      __CPROVER_return_value == FALSE)
    /* (4) nothing else is rejected: FALSE without an I/O failure means the request is invalid.
           g_anybad is the harness-computed disjunction of (1)-(3) over ALL dimensions; an existential
           conclusion cannot be carried through a loop contract, so this clause is checked only in
           the unwound run (obligation NCcoordck_verdict, g_chk_verdict == 1) */
    __CPROVER_ensures((g_chk_verdict && __CPROVER_return_value == FALSE && !g_iofail &&
                       !CK_FILLPATH(handle, vp, coords, __CPROVER_old(vp->numrecs), __CPROVER_old(handle->flags))) ==> g_anybad)
    /* (5) an invalid request, a fixed-size variable, or an existing record: no state change, no I/O */
    __CPROVER_ensures(((C03_FIXED(vp, g_d) && C03_OUTSIDE(vp, coords, g_d)) || coords[0] < 0 || !C03_REC(vp) ||
                       coords[0] < __CPROVER_old(vp->numrecs) || handle->xdrs->x_op != XDR_ENCODE) ==>
                      (vp->numrecs == __CPROVER_old(vp->numrecs) && handle->numrecs == __CPROVER_old(handle->numrecs) &&
                       handle->flags == __CPROVER_old(handle->flags) && g_hw_n == 0 && g_seek_n == 0))
    /* (6) failure never shrinks or over-extends: only whole fill records already written count */
    __CPROVER_ensures(__CPROVER_return_value == FALSE ==>
                      ((long)vp->numrecs == (long)__CPROVER_old(vp->numrecs) + (long)g_hw_ok &&
                       handle->numrecs == __CPROVER_old(handle->numrecs)))
    /* (7) success on a record variable: numrecs' == max(numrecs, index + 1); when the variable
           grows the file-wide count follows: handle->numrecs' == max(handle->numrecs, index + 1) */
    __CPROVER_ensures((__CPROVER_return_value == TRUE && C03_REC(vp)) ==>
                      (long)vp->numrecs == CK_MAX((long)__CPROVER_old(vp->numrecs), coords[0] + 1))
    __CPROVER_ensures((__CPROVER_return_value == TRUE && C03_REC(vp) && coords[0] >= __CPROVER_old(vp->numrecs)) ==>
                      (long)handle->numrecs == CK_MAX((long)__CPROVER_old(handle->numrecs), coords[0] + 1))
    /* (8) growth on the write path: records numrecs..index are filled (index - numrecs + 1 fill
           records, written from byte numrecs * reclen on) unless NC_NOFILL, in which case none */
    __CPROVER_ensures((__CPROVER_return_value == TRUE && C03_REC(vp) && coords[0] >= __CPROVER_old(vp->numrecs)) ==>
                      (handle->xdrs->x_op == XDR_ENCODE &&
                       ((__CPROVER_old(handle->flags) & NC_NOFILL)
                            ? (g_hw_n == 0 && g_seek_n == 0)
                            : ((long)g_hw_n == coords[0] - __CPROVER_old(vp->numrecs) + 1 && g_hw_ok == g_hw_n &&
                               g_seek_n == 1))))
    /* (9) NC_NDIRTY is raised exactly when the file-wide record count grew; no other flag moves */
    __CPROVER_ensures((__CPROVER_return_value == TRUE && C03_REC(vp) && coords[0] >= __CPROVER_old(vp->numrecs)) ==>
                      handle->flags == ((coords[0] + 1 > (long)__CPROVER_old(handle->numrecs))
                                            ? (__CPROVER_old(handle->flags) | NC_NDIRTY)
                                            : __CPROVER_old(handle->flags)));


/* ---- NC_varoffset: bounded stand-in (rank <= 3, extents <= 8, element size in {1,2,4,8}) ---- */
/* row-major element index of a coordinate tuple (the record dimension's extent is never used) */
#define VO_RM(vp, co)                                                                                \
    (C03_RANK(vp) == 1 ? (unsigned long)(co)[0]                                                      \
     : C03_RANK(vp) == 2                                                                             \
         ? (unsigned long)(co)[0] * (vp)->shape[1] + (unsigned long)(co)[1]                          \
         : ((unsigned long)(co)[0] * (vp)->shape[1] + (unsigned long)(co)[1]) * (vp)->shape[2] +     \
               (unsigned long)(co)[2])
#define VO_SMALL(vp)                                                                                 \
    ((vp)->shape[0] <= 8 && (C03_RANK(vp) < 2 || ((vp)->shape[1] >= 1 && (vp)->shape[1] <= 8)) &&    \
     (C03_RANK(vp) < 3 || ((vp)->shape[2] >= 1 && (vp)->shape[2] <= 8)))
#define VO_INRANGE(vp, co)                                                                           \
    ((co)[0] >= 0 && (C03_REC(vp) ? (co)[0] <= 8 : (co)[0] < (long)(vp)->shape[0]) &&                \
     (C03_RANK(vp) < 2 || ((co)[1] >= 0 && (co)[1] < (long)(vp)->shape[1])) &&                       \
     (C03_RANK(vp) < 3 || ((co)[2] >= 0 && (co)[2] < (long)(vp)->shape[2])))

static unsigned long NC_varoffset(NC *handle, NC_var *vp, const long *coords)
    __CPROVER_requires(handle != NULL && vp != NULL && coords != NULL && handle->file_type == HDF_FILE)
    __CPROVER_requires(vp->assoc != NULL && vp->assoc->count >= 1 && vp->assoc->count <= 3 && vp->shape != NULL &&
                       vp->dsizes != NULL)
    __CPROVER_requires(vp->HDFsize == 1 || vp->HDFsize == 2 || vp->HDFsize == 4 || vp->HDFsize == 8)
    __CPROVER_requires(VO_SMALL(vp) && VO_INRANGE(vp, coords))
    /* what NC_var_shape establishes (proved in var_u.c, obligation NC_var_shape) */
    __CPROVER_requires(C03_DSIZES_RM3(vp, vp->HDFsize))
    __CPROVER_assigns()
    /* offset == row-major element index * element size */
    __CPROVER_ensures(__CPROVER_return_value == (unsigned long)vp->HDFsize * VO_RM(vp, coords))
    /* the element lies inside the variable (fixed size) / inside its record (record variable) */
    __CPROVER_ensures(!C03_REC(vp) ==> __CPROVER_return_value + (unsigned long)vp->HDFsize <= vp->len)
    __CPROVER_ensures(C03_REC(vp) ==> (__CPROVER_return_value >= (unsigned long)coords[0] * vp->len &&
                                      __CPROVER_return_value + (unsigned long)vp->HDFsize <=
                                          ((unsigned long)coords[0] + 1) * vp->len));

/* ---- NCvcmaxcontig ---- */
int  g_vc_k;    /* harness-computed expected result index (-1: NULL) */
#define VC_B(handle, vp) (C03_REC(vp) ? 1 : 0)
#define VC_SIMPLEREC(handle, vp) (C03_REC(vp) && (vp)->assoc->count == 1 && (handle)->recsize <= (vp)->len)

static const long *NCvcmaxcontig(NC *handle, NC_var *vp, const long *origin, const long *edges)
    __CPROVER_requires(handle != NULL && vp != NULL && origin != NULL && edges != NULL)
    __CPROVER_requires(vp->assoc != NULL && vp->assoc->count >= 1 && vp->assoc->count <= H4_MAX_VAR_DIMS &&
                       vp->shape != NULL)
    __CPROVER_requires(0 <= g_d && g_d < C03_RANK(vp))
    /* the caller (NCvario) has validated the start corner with NCcoordck */
    __CPROVER_requires(C03_FIXED(vp, g_d) ==> !C03_OUTSIDE(vp, origin, g_d))
    /* extents are int32 dimension sizes, edges come from int32 arguments */
    __CPROVER_requires(vp->shape[g_d] <= 2147483647UL && edges[g_d] >= -2147483647L - 1 && edges[g_d] <= 2147483647L)
    __CPROVER_assigns()
    /* the one-dimensional only-record-variable case hands back the whole edge vector */
    __CPROVER_ensures(VC_SIMPLEREC(handle, vp) ==> __CPROVER_return_value == edges)
    /* result is NULL or points at dimension k, boundary <= k < rank (k == 0 only in the case above) */
    __CPROVER_ensures(__CPROVER_return_value == NULL ||
                      (__CPROVER_same_object(__CPROVER_return_value, edges) &&
                       __CPROVER_return_value - edges >= (VC_SIMPLEREC(handle, vp) ? 0 : VC_B(handle, vp)) &&
                       __CPROVER_return_value - edges <= (C03_RANK(vp) > VC_B(handle, vp) ? C03_RANK(vp) - 1 : VC_B(handle, vp))))
    /* contiguity: every dimension inside k is requested in full (so from k on the request is one run) */
    __CPROVER_ensures((__CPROVER_return_value != NULL && !VC_SIMPLEREC(handle, vp) &&
                       g_d > __CPROVER_return_value - edges) ==>
                      (edges[g_d] == (long)vp->shape[g_d] && origin[g_d] == 0))
    /* validity: every dimension from k inwards has 0 <= edge <= shape - origin */
    __CPROVER_ensures((__CPROVER_return_value != NULL && !VC_SIMPLEREC(handle, vp) &&
                       g_d >= __CPROVER_return_value - edges) ==>
                      (edges[g_d] >= 0 && edges[g_d] <= (long)vp->shape[g_d] - origin[g_d]))
    /* maximality: k is the boundary dimension or dimension k itself is only partly requested */
    __CPROVER_ensures((__CPROVER_return_value != NULL && !VC_SIMPLEREC(handle, vp) &&
                       __CPROVER_return_value - edges > VC_B(handle, vp) && g_d == __CPROVER_return_value - edges) ==>
                      edges[g_d] < (long)vp->shape[g_d])
    /* the complete verdict, computed by the harness over all dimensions */
    __CPROVER_ensures(g_vc_k < 0 ? __CPROVER_return_value == NULL : __CPROVER_return_value == edges + g_vc_k);

#ifdef H4V_NATIVE
#include "h4v_native_wrap.h"
#endif

/* ------------------------------------------------------------------ harnesses */
#ifndef MAXR
#define MAXR H4_MAX_VAR_DIMS
#endif

static NC   *e_h;
static long *e_co;

/* A dimension vector of n elements with arbitrary contents.  The real loops walk such vectors
   downwards with `for (; ip >= boundary; ip--)` and so form (never dereference) the address one
   element BEFORE the vector when boundary is its first element -- undefined in ISO C, harmless on
   a flat address space, but cbmc's pointer model wraps the offset and then runs the loop on
   (obligation *_strictptr shows it).  Assumption A-GUARD: every vector is preceded by one guard
   element.  The guard holds an arbitrary value and no assigns clause covers it, so a result that
   depends on it or a write to it still fails the contract. */
/* counterexample mode concretises vectors element-wise: keep them short (rank <= 4) */
#define C03_CAP 5
#if defined(C03_STRICT_PTR)
#define C03_VEC(T, p, n) H4V_ND_BUF(T, p, n, C03_CAP)
#elif defined(C03_FIXVEC) && defined(H4V_CBMC) && !defined(H4V_CEX)
/* full-rank runs: vectors of constant size MAXR (+ guard) with arbitrary contents -- heap vectors
   of symbolic size exhaust the solver at rank 32.  Accesses between rank and MAXR are then not
   bounds violations; the *_mem obligations (exact-size heap vectors, small rank) cover those. */
#define C03_VEC(T, p, n)                                                                             \
    static T p##_g[MAXR + 1];                                                                        \
    T *p = p##_g + 1
#else
#define C03_VEC(T, p, n)                                                                             \
    H4V_ND_BUF(T, p##_g, (n) + 1, C03_CAP);                                                               \
    T *p = p##_g + 1
#endif

/* builds handle, variable (rank 1..MAXR, arbitrary shape) and a coordinate vector */
static void
mk_env(void)
{
    H4V_HAVOC(int, g_d);
    g_hw_n = g_hw_ok = g_seek_n = g_seek_off = g_iofail = g_anybad = 0;
    H4V_ND(int, rank);
    H4V_ASSUME(rank >= 1 && rank <= MAXR);
#ifdef H4V_CEX
    H4V_ASSUME(rank <= 4);
#endif
    /* structs are statics (arbitrary contents under dfcc; every field used is set below): heap
       structs make every field access a byte-level update in cbmc.  The arrays are heap objects
       of exactly `rank` elements so that any access beyond the rank is a bounds violation. */
    static NC        s_nc;
    static XDR       s_x;
    static NC_var    s_vp;
    static NC_iarray s_as;
    static NC_string s_nm;
    NC              *h  = &s_nc;
    XDR             *x  = &s_x;
    NC_var          *vp = &s_vp;
    NC_iarray       *as = &s_as;
    NC_string       *nm = &s_nm;
    C03_VEC(h4v_ulong, shape, rank);
    C03_VEC(h4v_ulong, dsizes, rank);
    C03_VEC(h4v_long, coords, rank);
    static char nmbuf[4] = "v";
    nm->values           = nmbuf;
    nm->count = nm->len = 1;
    as->count  = (unsigned)rank;
    as->values = NULL;
    H4V_ND(int, x_op);
    H4V_ASSUME(x_op == XDR_ENCODE || x_op == XDR_DECODE);
    x->x_op      = (enum xdr_op)x_op;
    x->x_private = NULL;
    H4V_ND(unsigned, h_flags);
    H4V_ND(unsigned, h_numrecs);
    h->flags     = h_flags;
    h->xdrs      = x;
    h->numrecs   = h_numrecs;
    h->recsize   = 0;
    h->begin_rec = 0;
    h->file_type = HDF_FILE;
    h->hdf_mode  = DFACC_RDWR;
    h->vars      = NULL;
    h->dims      = NULL;
    h->attrs     = NULL;
    H4V_ND(int, v_numrecs);
    H4V_ND(h4v_ulong, v_len);
    H4V_ND(int32, v_HDFsize);
    H4V_ND(h4v_ulong, v_szof);
    H4V_ND(int32, v_aid);
    H4V_ND(int32, the_aid);
    H4V_ND(int, v_type);
    g_aid        = the_aid;
    vp->name     = nm;
    vp->assoc    = as;
    vp->shape    = shape;
    vp->dsizes   = dsizes;
    vp->attrs    = NULL;
    vp->type     = v_type;
    vp->len      = v_len;
    vp->szof     = v_szof;
    vp->begin    = 0;
    vp->cdf      = h;
    vp->numrecs  = v_numrecs;
    vp->aid      = v_aid;
    vp->HDFsize  = v_HDFsize;
    vp->HDFtype  = DFNT_INT32;
    vp->data_ref = 1;
    vp->data_tag = DATA_TAG;
    vp->vixHead  = NULL;
    vp->set_length = 0;
    vp->created    = 0;
    g_vp         = vp;
    g_nr0        = v_numrecs;
    g_reclen     = (int32)v_len;
#ifdef C03_RECLEN /* constant record geometry: numrecs * len is symbolic x symbolic otherwise */
    H4V_ASSUME(v_len == C03_RECLEN && v_HDFsize == 4 && v_szof == 4);
#endif
    /* a _FillValue attribute the NC_findattr stub may hand out */
    g_attr        = malloc(sizeof(NC_attr));
    g_attrp       = malloc(sizeof(NC_attr *));
    NC_array *ad  = malloc(sizeof(NC_array));
    uint8_t  *av  = malloc(8);
    H4V_ASSUME(g_attr != NULL && g_attrp != NULL && ad != NULL && av != NULL);
    ad->values    = av;
    ad->count     = 1;
    g_attr->data  = ad;
    g_attr->name  = nm;
    *g_attrp      = g_attr;
    e_h  = h;
    e_co = coords;
}

static void
run_NCcoordck(int verdict)
{
    mk_env();
    NC     *h  = e_h;
    NC_var *vp = g_vp;
    g_chk_verdict    = verdict;
    cdf_routine_name = (h->xdrs->x_op == XDR_ENCODE) ? "SDwritedata" : "SDreaddata";
    /* the existential side of the specification, computed over all dimensions */
    int rec = (vp->shape[0] == 0);
    int bad = 0;
    for (int i = 0; i < (int)vp->assoc->count; i++) {
        H4V_ASSUME(e_co[i] >= -2147483647L - 1 && e_co[i] <= 2147483647L);
        if (!(rec && i == 0) && (e_co[i] < 0 || e_co[i] >= (long)vp->shape[i]))
            bad = 1;
    }
    if (rec && e_co[0] < 0)
        bad = 1;
    if (rec && h->xdrs->x_op != XDR_ENCODE && e_co[0] >= vp->numrecs)
        bad = 1;
    g_anybad = bad;
    /* the unwound run bounds the number of fill records (the fill loop is closed by its loop
       contract in the other run) */
    if (verdict)
        H4V_ASSUME(e_co[0] - vp->numrecs <= 1);
    int    old_nr = vp->numrecs;
    bool_t r      = NCcoordck(h, vp, e_co);
    H4V_COVER(r == FALSE && bad, "NCcoordck rejects");
    H4V_COVER(r == TRUE && !rec, "NCcoordck accepts fixed-size");
    H4V_COVER(r == TRUE && rec && g_hw_n >= 2, "NCcoordck fills two or more records");
    H4V_COVER(r == TRUE && rec && vp->numrecs > old_nr && g_hw_n == 0, "NCcoordck NOFILL growth");
    H4V_COVER(r == FALSE && g_iofail, "NCcoordck I/O failure");
    H4V_COVER(r == TRUE && (int)vp->assoc->count == MAXR, "NCcoordck full rank");
    H4V_CANARY("NCcoordck end");
}

void
h_NCcoordck(void)
{
    run_NCcoordck(0);
}

void
h_NCcoordck_verdict(void)
{
    run_NCcoordck(1);
}

/* a second coordinate vector / an edge vector of the same rank */
static long *e_co2;

/* geometry as NC_var_shape compiles it, small extents, in-range coordinates */
static void
vo_env(void)
{
    mk_env();
    NC_var *vp = g_vp;
    H4V_ASSUME((int)vp->assoc->count <= 3);
    H4V_ASSUME(VO_SMALL(vp));
#ifdef C03_W /* one obligation per element size: keeps one factor of every product constant */
    H4V_ASSUME(vp->HDFsize == C03_W);
#else
    H4V_ASSUME(vp->HDFsize == 1 || vp->HDFsize == 2 || vp->HDFsize == 4 || vp->HDFsize == 8);
#endif
    H4V_ASSUME(C03_DSIZES_RM3(vp, vp->HDFsize));
    H4V_ASSUME(VO_INRANGE(vp, e_co));
}

void
h_NC_varoffset(void)
{
    vo_env();
    unsigned long o1 = NC_varoffset(e_h, g_vp, e_co);
    H4V_COVER(o1 > 0 && (int)g_vp->assoc->count == 3 && C03_REC(g_vp), "varoffset rank 3 record variable");
    H4V_COVER(o1 > 0 && (int)g_vp->assoc->count == 2 && !C03_REC(g_vp), "varoffset rank 2 fixed");
    H4V_CANARY("NC_varoffset end");
}

/* injectivity (two ghost coordinate tuples): harness-level assertions, no contract enforced */
void
h_NC_varoffset_inj(void)
{
    vo_env();
    NC_var *vp = g_vp;
    int     rk = (int)vp->assoc->count;
    C03_VEC(h4v_long, coords2, rk);
    H4V_ASSUME(VO_INRANGE(vp, coords2));
    unsigned long o1   = NC_varoffset(e_h, vp, e_co);
    unsigned long o2   = NC_varoffset(e_h, vp, coords2);
    int           same = 1;
    for (int i = 0; i < rk; i++)
        if (e_co[i] != coords2[i])
            same = 0;
    /* distinct cells never share a byte: offsets differ by at least one element */
    H4V_CHECK(same || o1 + (unsigned long)vp->HDFsize <= o2 || o2 + (unsigned long)vp->HDFsize <= o1,
              "distinct coordinates give disjoint elements");
    H4V_CHECK(!same || o1 == o2, "equal coordinates give equal offsets");
    H4V_COVER(!same && rk == 3 && C03_REC(vp), "varoffset_inj rank 3 record variable");
    H4V_COVER(!same && rk == 2 && !C03_REC(vp), "varoffset_inj rank 2 fixed");
    H4V_CANARY("NC_varoffset_inj end");
}

void
h_NCvcmaxcontig(void)
{
    mk_env();
    NC     *h  = e_h;
    NC_var *vp = g_vp;
    int     rk = (int)vp->assoc->count;
    C03_VEC(h4v_long, edges, rk);
    H4V_ND(h4v_ulong, h_recsize);
    h->recsize = h_recsize;
    int rec    = (vp->shape[0] == 0);
    int b      = rec ? 1 : 0;
    for (int i = 0; i < rk; i++) {
        H4V_ASSUME((rec && i == 0) || (e_co[i] >= 0 && e_co[i] < (long)vp->shape[i]));
        H4V_ASSUME(vp->shape[i] <= 2147483647UL && edges[i] >= -2147483647L - 1 && edges[i] <= 2147483647L);
    }
    /* reference: walk from the innermost dimension outwards */
    int k = -2;
    if (rec && rk == 1 && h->recsize <= vp->len)
        k = 0;
    else {
        for (int i = rk - 1; i >= b && k == -2; i--) {
            if (edges[i] < 0 || edges[i] > (long)vp->shape[i] - e_co[i])
                k = -1;
            else if (edges[i] < (long)vp->shape[i])
                k = i;
        }
        if (k == -2)
            k = b;
    }
    g_vc_k         = k;
    const long *r = NCvcmaxcontig(h, vp, e_co, edges);
    H4V_COVER(r == NULL, "maxcontig rejects an edge");
    H4V_COVER(r != NULL && r - edges == rk - 1 && rk >= 3, "maxcontig innermost only");
    H4V_COVER(r != NULL && r == edges && rk >= 3 && !rec, "maxcontig whole variable");
    H4V_COVER(r != NULL && rk == MAXR && r - edges == 1, "maxcontig full rank");
    H4V_CANARY("NCvcmaxcontig end");
}


"""C10: attributes (mfhdf/src/attr.c)"""
from .core import ob, prop

AT = dict(unit="attr_u.c", file="mfhdf/src/attr.c",
          trusted=["NC_check_id/NC_indefine (one handle)", "NC_new_string/NC_new_array (allocate, log their arguments, may fail)",
                   "NC_re_array (fits / does not fit, ghost flag)", "NC_incr_array (append into pre-allocated room, may fail)",
                   "NC_free_string/NC_free_array (log)", "hdf_map_type", "xdr_cdf (may fail)", "NCadvise/nc_serror"])
ob("NC_findattr_b", "C10", entry="h_NC_findattr", enforce="H4_NC_findattr", mode="bounded",
   bound="<= 4 attributes, names and the searched name <= 4 characters", unwind=6, cex_unwind=6, **AT)
ob("NC_aput", "C10", entry="h_NC_aput", enforce="NC_aput", replace=["H4_NC_findattr"], defines=["C10_STRLEN_STUB"], cex_unwind=6, **AT)

prop("C10",
     residual="decided per call: NC_findattr (bounded), NC_aput, SDIputattr/SDsetattr/SDattrinfo/SDreadattr over stubbed allocation (c10_attr_ext.py), "
              "one attribute through hdf_write_attr then hdf_read_attrs over a ghost Vdata header (bounded), GRsetattr/GRattrinfo/GRgetattr in memory "
              "(bounded), the value count SDgetdimscale asks the I/O layer for, VSsetattr on an existing attribute (bounded, one attribute).  "
              "Round 3: valid range / fill value / calibration set-get pairs with round trips (c10_sdmeta.py, real SDIputattr inlined), vattr.c lookups, info, get and Vsetattr over a ghost table of attribute Vdatas (c10_vattr*.py, bounded).  "
              "NOT decided: whole-API histories, the string-valued predefined attributes and dimension strings/names, dimension scales beyond that, VSsetattr's creation path, "
              "name/index/ref bijections, the real V layer under the persistence path, reopen",
     assumptions=["A-XDR: the XDR layer is not verified (xdr_cdf stubbed)",
                  "A-NC-ALLOC: NC_new_string/NC_new_array/NC_re_array/NC_incr_array/NC_free_* are stubs that log their arguments; "
                  "NC_incr_array appends without reallocating; strlen of the attribute name is a ghost length in the NC_aput obligation"])

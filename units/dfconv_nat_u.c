/* Verification unit: hdf/src/dfknat.c (C06: native-mode "conversion" kernels DFKnb1b/2b/4b/8b)
 * Ghost state, predicates, domain and harness bodies: stubs/dfconv_common.h */
#include "dfconv_common.h"
#include "h4v_err.h" /* trusted stubs: error stack (HEclear, HEpush) */

#include "dfknat.c"

/* ---------------- contracts (taken from the C06 statement) ---------------- */
int DFKnb1b(void *s, void *d, uint32 num_elm, uint32 source_stride, uint32 dest_stride)
    __CPROVER_requires(DFK_DOMAIN(1))
    __CPROVER_requires(num_elm == 0 || s == d || !__CPROVER_same_object(s, d))
    __CPROVER_requires(DFK_GHOSTS(1))
    __CPROVER_requires(num_elm == 0 || (SNAP_1(s, ESS(1) * g_k) && B(d)[g_o] == g_ov))
    __CPROVER_assigns(num_elm >= 1 && CONTIG: __CPROVER_object_upto(B(d), 1 * (size_t)num_elm);
                      num_elm >= 1 && !CONTIG: __CPROVER_object_upto(B(d), (size_t)dest_stride * (size_t)(num_elm - 1) + 1))
    /* no elements is an error, anything else succeeds */
    __CPROVER_ensures(num_elm == 0 ? __CPROVER_return_value == FAIL : __CPROVER_return_value == SUCCEED)
    /* every element of the destination is the source element, bit for bit */
    __CPROVER_ensures(num_elm >= 1 ==> SNAP_1(d, EDS(1) * g_k))
    /* bytes between strided destination elements keep their value */
    __CPROVER_ensures(DFK_IN_GAP(1) ==> B(d)[g_o] == g_ov);

int DFKnb2b(void *s, void *d, uint32 num_elm, uint32 source_stride, uint32 dest_stride)
    __CPROVER_requires(DFK_DOMAIN(2))
    __CPROVER_requires(num_elm == 0 || s == d || !__CPROVER_same_object(s, d))
    __CPROVER_requires(DFK_GHOSTS(2))
    __CPROVER_requires(num_elm == 0 || (SNAP_2(s, ESS(2) * g_k) && B(d)[g_o] == g_ov))
    __CPROVER_assigns(num_elm >= 1 && CONTIG: __CPROVER_object_upto(B(d), 2 * (size_t)num_elm);
                      num_elm >= 1 && !CONTIG: __CPROVER_object_upto(B(d), (size_t)dest_stride * (size_t)(num_elm - 1) + 2))
    /* no elements is an error, anything else succeeds */
    __CPROVER_ensures(num_elm == 0 ? __CPROVER_return_value == FAIL : __CPROVER_return_value == SUCCEED)
    /* every element of the destination is the source element, bit for bit */
    __CPROVER_ensures(num_elm >= 1 ==> SNAP_2(d, EDS(2) * g_k))
    /* bytes between strided destination elements keep their value */
    __CPROVER_ensures(DFK_IN_GAP(2) ==> B(d)[g_o] == g_ov);

int DFKnb4b(void *s, void *d, uint32 num_elm, uint32 source_stride, uint32 dest_stride)
    __CPROVER_requires(DFK_DOMAIN(4))
    __CPROVER_requires(num_elm == 0 || s == d || !__CPROVER_same_object(s, d))
    __CPROVER_requires(DFK_GHOSTS(4))
    __CPROVER_requires(num_elm == 0 || (SNAP_4(s, ESS(4) * g_k) && B(d)[g_o] == g_ov))
    __CPROVER_assigns(num_elm >= 1 && CONTIG: __CPROVER_object_upto(B(d), 4 * (size_t)num_elm);
                      num_elm >= 1 && !CONTIG: __CPROVER_object_upto(B(d), (size_t)dest_stride * (size_t)(num_elm - 1) + 4))
    /* no elements is an error, anything else succeeds */
    __CPROVER_ensures(num_elm == 0 ? __CPROVER_return_value == FAIL : __CPROVER_return_value == SUCCEED)
    /* every element of the destination is the source element, bit for bit */
    __CPROVER_ensures(num_elm >= 1 ==> SNAP_4(d, EDS(4) * g_k))
    /* bytes between strided destination elements keep their value */
    __CPROVER_ensures(DFK_IN_GAP(4) ==> B(d)[g_o] == g_ov);

int DFKnb8b(void *s, void *d, uint32 num_elm, uint32 source_stride, uint32 dest_stride)
    __CPROVER_requires(DFK_DOMAIN(8))
    __CPROVER_requires(num_elm == 0 || s == d || !__CPROVER_same_object(s, d))
    __CPROVER_requires(DFK_GHOSTS(8))
    __CPROVER_requires(num_elm == 0 || (SNAP_8(s, ESS(8) * g_k) && B(d)[g_o] == g_ov))
    __CPROVER_assigns(num_elm >= 1 && CONTIG: __CPROVER_object_upto(B(d), 8 * (size_t)num_elm);
                      num_elm >= 1 && !CONTIG: __CPROVER_object_upto(B(d), (size_t)dest_stride * (size_t)(num_elm - 1) + 8))
    /* no elements is an error, anything else succeeds */
    __CPROVER_ensures(num_elm == 0 ? __CPROVER_return_value == FAIL : __CPROVER_return_value == SUCCEED)
    /* every element of the destination is the source element, bit for bit */
    __CPROVER_ensures(num_elm >= 1 ==> SNAP_8(d, EDS(8) * g_k))
    /* bytes between strided destination elements keep their value */
    __CPROVER_ensures(DFK_IN_GAP(8) ==> B(d)[g_o] == g_ov);

#ifdef H4V_NATIVE
#include "h4v_native_wrap.h"
#endif

/* ---------------- harnesses ---------------- */
H4V_DECL_ND(uint32);
H4V_DECL_ND(uint8);
H4V_DECL_ND(int);
H4V_DECL_ND(size_t);

void
h_nb1b(void)
{
    DFK_HARNESS(DFKnb1b, 1);
}

void
h_nb1b_zero(void)
{
    DFK_ZERO_HARNESS(DFKnb1b, 1);
}

void
h_nb1b_one(void)
{
    DFK_ONE_HARNESS(DFKnb1b, 1);
}

void
h_nb2b(void)
{
    DFK_HARNESS(DFKnb2b, 2);
}

void
h_nb2b_zero(void)
{
    DFK_ZERO_HARNESS(DFKnb2b, 2);
}

void
h_nb2b_one(void)
{
    DFK_ONE_HARNESS(DFKnb2b, 2);
}

void
h_nb4b(void)
{
    DFK_HARNESS(DFKnb4b, 4);
}

void
h_nb4b_zero(void)
{
    DFK_ZERO_HARNESS(DFKnb4b, 4);
}

void
h_nb4b_one(void)
{
    DFK_ONE_HARNESS(DFKnb4b, 4);
}

void
h_nb8b(void)
{
    DFK_HARNESS(DFKnb8b, 8);
}

void
h_nb8b_zero(void)
{
    DFK_ZERO_HARNESS(DFKnb8b, 8);
}

void
h_nb8b_one(void)
{
    DFK_ONE_HARNESS(DFKnb8b, 8);
}

void
h_nb1b_inplace(void)
{
    DFK_NB_INPLACE_HARNESS(DFKnb1b, 1);
}

void
h_nb2b_inplace(void)
{
    DFK_NB_INPLACE_HARNESS(DFKnb2b, 2);
}

void
h_nb4b_inplace(void)
{
    DFK_NB_INPLACE_HARNESS(DFKnb4b, 4);
}

void
h_nb8b_inplace(void)
{
    DFK_NB_INPLACE_HARNESS(DFKnb8b, 8);
}

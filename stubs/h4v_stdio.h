/* Trusted stub bodies for the stdio calls of the H layer: a ghost disk.
 *
 * One modelled stream.  Every call may fail nondeterministically (C16: fault injection);
 * a failure sets the sticky flag g_io_failed and makes the stream position indeterminate.
 * The stubs carry, as H4V_CHECKs, the preconditions every caller must establish:
 *   C14  no fwrite on a file that was opened read-only        (g_file_writable)
 *   C17  no fwrite below the low-water mark in an add-session  (g_add_session, g_L)
 *   C01  fread/fwrite stay inside the caller's buffer          (r_ok / w_ok)
 *   ISO C: a read directly followed by a write (or vice versa) needs an intervening seek.
 * Ghost log: last read/write (offset, length, buffer), counters, lowest offset written, and
 * the last byte written at one arbitrary ghost offset g_off ("the bytes on disk").
 */
#ifndef H4V_STDIO_H
#define H4V_STDIO_H
#include <stdio.h>
#include <limits.h>
#include "h4v.h"

H4V_DECL_ND(int);
H4V_DECL_ND(long);
H4V_DECL_ND(size_t);

long g_fpos;          /* OS position of the stream (valid iff g_pos_valid) */
int  g_pos_valid;
int  g_io_failed;     /* sticky */
int  g_io_may_fail;   /* harness switch: 0 = fault-free run */
int  g_rd_n, g_wr_n, g_seek_n, g_flush_n, g_close_n;
long g_rd_off, g_rd_len;
long g_wr_off, g_wr_len;
long g_min_wr_off;    /* lowest offset written so far (LONG_MAX: none) */
int  g_last_stdio;    /* 0 = positioned (seek/flush/open), 1 = read, 2 = write */
int  g_file_writable; /* C14: the file was opened with write access */
int  g_add_session;   /* C17: caching add-only session is active */
long g_L;             /* C17: end of file at session start */
long g_off;           /* ghost disk offset */
int  g_off_written;   /* a byte was written at g_off */
unsigned char g_off_byte;
FILE *g_stream;       /* the stream the file record holds; NULL after fclose */
int  g_closed_twice;

static int h4v_fail(void)
{
    if (!g_io_may_fail)
        return 0;
    H4V_ND(int, io_fault);
    if (io_fault) {
        g_io_failed = 1;
        g_pos_valid = 0;
        return 1;
    }
    return 0;
}

size_t fread(void *ptr, size_t size, size_t n, FILE *f)
{
    size_t len = size * n;
    H4V_CHECK(f != NULL, "stdio: fread on NULL stream");
    H4V_CHECK(g_last_stdio != 2, "stdio: read directly after write without a seek");
#ifdef H4V_CBMC
    __CPROVER_assert(len == 0 || __CPROVER_w_ok(ptr, len), "H4V: C01 fread stays inside the caller's buffer");
#endif
    if (h4v_fail()) {
        H4V_ND(size_t, rd_short);
        H4V_ASSUME(rd_short < n);
        return rd_short;
    }
#ifdef H4V_CBMC
    if (len > 0)
        __CPROVER_havoc_slice(ptr, len);
#endif
    g_rd_n++;
    g_rd_off = g_fpos;
    g_rd_len = (long)len;
    g_fpos += (long)len;
    g_last_stdio = 1;
    return n;
}

size_t fwrite(const void *ptr, size_t size, size_t n, FILE *f)
{
    size_t len = size * n;
    H4V_CHECK(f != NULL, "stdio: fwrite on NULL stream");
    H4V_CHECK(g_file_writable, "C14: fwrite on a file opened read-only");
    H4V_CHECK(g_last_stdio != 1, "stdio: write directly after read without a seek");
    H4V_CHECK(!g_add_session || !g_pos_valid || g_fpos >= g_L, "C17: write below the end of file of the session start");
#ifdef H4V_CBMC
    __CPROVER_assert(len == 0 || __CPROVER_r_ok(ptr, len), "H4V: C01 fwrite stays inside the caller's buffer");
#endif
    if (h4v_fail()) {
        H4V_ND(size_t, wr_short);
        H4V_ASSUME(wr_short < n);
        return wr_short;
    }
    g_wr_n++;
    g_wr_off = g_fpos;
    g_wr_len = (long)len;
    if (g_fpos < g_min_wr_off)
        g_min_wr_off = g_fpos;
    if (len > 0 && g_off >= g_fpos && g_off - g_fpos < (long)len) {
        g_off_written = 1;
        g_off_byte    = ((const unsigned char *)ptr)[g_off - g_fpos];
    }
    g_fpos += (long)len;
    g_last_stdio = 2;
    return n;
}

int fseek(FILE *f, long off, int whence)
{
    H4V_CHECK(f != NULL, "stdio: fseek on NULL stream");
    if (h4v_fail())
        return -1;
    g_seek_n++;
    if (whence == SEEK_SET) {
        g_fpos      = off;
        g_pos_valid = 1;
    }
    else {
        H4V_ND(long, seek_pos);
        g_fpos = seek_pos;
    }
    g_last_stdio = 0;
    return 0;
}

int fflush(FILE *f)
{
    if (h4v_fail())
        return EOF;
    g_flush_n++;
    g_last_stdio = 0;
    return 0;
}

int fclose(FILE *f)
{
    H4V_CHECK(f != NULL, "stdio: fclose on NULL stream");
    if (g_close_n > 0)
        g_closed_twice = 1;
    H4V_CHECK(g_close_n == 0, "C16: stream closed twice");
    g_close_n++;
    g_stream = NULL;
    if (h4v_fail())
        return EOF;
    return 0;
}

/* the harness calls this to put the ghost disk in an arbitrary consistent state */
static void h4v_stdio_init(int may_fail)
{
    g_io_may_fail = may_fail;
    g_io_failed = 0;
    g_rd_n = g_wr_n = g_seek_n = g_flush_n = g_close_n = 0;
    g_min_wr_off  = LONG_MAX;
    g_off_written = 0;
    g_closed_twice = 0;
    g_add_session = 0;
    g_L = 0;
    H4V_HAVOC(long, g_fpos);
    H4V_HAVOC(long, g_off);
    H4V_HAVOC(int, g_last_stdio);
    H4V_ASSUME(g_last_stdio >= 0 && g_last_stdio <= 2);
    H4V_ASSUME(g_off >= 0 && g_off <= (1L << 40) && g_fpos >= 0 && g_fpos <= (1L << 40));
    g_pos_valid = 1;
}
#endif

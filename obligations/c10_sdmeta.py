"""C10 (extension): the predefined metadata built on attributes (mfhdf/src/mfsd.c):
valid range, fill value, calibration, data strings, SDfindattr -- per-function contracts and set-then-get round trips."""
from .core import ob

SM = dict(unit="mfsd_meta_u.c", file="mfhdf/src/mfsd.c", objbits=8, cex_unwind=22,
          trusted=["NC_check_id (one file slot)", "hdf_unmap_type / hdf_map_type / NC_typelen / DFKNTsize (the documented tables, as macros)",
                   "NC_new_attr (allocates, COPIES count*szof value bytes, records the name as a name id in NC_string.hash, sets HDFtype "
                   "from the netCDF type like attr.c; fails at an arbitrary call)",
                   "NC_findattr (slot g_pos[name id], kept by the stubs; its own contract is obligation NC_findattr_b)",
                   "NC_new_array / NC_incr_array (append into pre-allocated room, record the position; may fail)", "NC_free_attr (log)",
                   "NC_copy_arrayvals (copies count*szof bytes)", "memcpy / strncpy / strlen: exact models for lengths <= 16 (checked)"])

# SDIputattr is the real code, inlined in all of these
ob("SDsetrange", ["C10"], entry="h_SDsetrange", enforce="SDsetrange", **SM)
# 98 s alone
ob("SDgetrange", ["C10"], entry="h_SDgetrange", enforce="SDgetrange", tier="thorough", **SM)
ob("range_roundtrip", ["C10"], entry="h_range_rt", **SM)

ob("SDsetfillvalue", ["C10"], entry="h_SDsetfillvalue", enforce="SDsetfillvalue", **SM)
ob("SDgetfillvalue", ["C10"], entry="h_SDgetfillvalue", enforce="SDgetfillvalue", **SM)
ob("fill_roundtrip", ["C10"], entry="h_fill_rt", **SM)
# candidate (a): a "_FillValue" attribute put by SDsetattr with another type / count, read into ONE value of the dataset's type
ob("SDgetfillvalue_foreign", ["C10"], entry="h_SDgetfillvalue_foreign", **SM)

# five SDIputattr calls inlined: minutes
ob("SDsetcal", ["C10"], entry="h_SDsetcal", enforce="SDsetcal", tier="thorough", timeout=1500, **SM)
# 434 s on a loaded machine
ob("SDgetcal", ["C10"], entry="h_SDgetcal", enforce="SDgetcal", tier="thorough", timeout=1500, **SM)
# about 2 minutes on a loaded machine
ob("cal_roundtrip", ["C10"], entry="h_cal_rt", tier="thorough", **SM)

# NOT registered: SDgetdatastrs with a label of >= len characters (strncpy fills len bytes without a terminating NUL) and with len < 0
# (converted to unsigned).  Harness h_getdatastrs_b shows both natively, but C10 ("returned exactly as last set") does not say what a
# call with a too-small or negative buffer length returns; demanding NUL termination there asks more than the property.

/* Verification unit: hdf/src/vgp.c (C08 Vgroup membership kernel; C20 member/name limits;
   C02 vgroup record encode/decode).  Whole-file unit: the real vgp.c is included below. */
#include "h4v.h"
#include "h4v_err.h"
#include "vg_priv.h"

/* ------------------------------------------------------------------ ghost state */
/* the environment the harness builds: one vgroup instance registered under g_key */
int32         g_key;  /* the only registered vgroup atom */
int           g_grp;  /* group that HAatom_group reports for g_key */
vginstance_t *g_obj;  /* HAatom_object(g_key): NULL or the harness-built instance */
VGROUP       *g_vg;   /* the harness-built VGROUP (always allocated; g_obj->vg is NULL or g_vg) */
unsigned      g_k;    /* ghost member index: a proof for arbitrary g_k is a proof for all members */
unsigned      g_j;    /* second ghost member index, g_j > g_k (order-preservation clause) */
/* Vsetname/Vsetclass: the argument string, its true length and a ghost character index */
size_t      g_len;
size_t      g_c;
const char *g_str;
/* Vdeletetagref: entry values of members g_k, g_k+1 and g_j+1 */
uint16 g_kt, g_kr, g_k1t, g_k1r, g_j1t, g_j1r;
/* Vgettagrefs: the caller's arrays, the entry value of their element g_k, the caller's n */
int32 *g_ta, *g_ra;
int32  g_ta0, g_ra0, g_n0;

/* ------------------------------------------------------------------ stubs (outside vgp.c) */
/* atom.c -- trusted finite map with exactly one entry (g_key -> g_obj in group g_grp).
   Deterministic given the ghost globals; the harness chooses them (named inputs). */
group_t
HAatom_group(atom_t atm)
{
    return atm == g_key ? (group_t)g_grp : BADGROUP;
}

void *
HAatom_object(atom_t atm)
{
    return atm == g_key ? (void *)g_obj : NULL;
}

/* hdfalloc.c: HIstrncpy(dest, source, len) copies at most len-1 characters and terminates.
   Native replay and the bounded obligations use the real semantics.  The "any length"
   obligations (-DVGP_ABS_STR) use an over-approximation that is exact on the ghost character
   g_c and on the terminator, checks that dest can take len bytes (the no-overrun clause) and
   leaves every other byte of dest arbitrary; it relies on the harness fact that the source has
   no NUL before g_len (g_len is the true strlen of the source). */
char *
HIstrncpy(char *dest, const char *source, int len)
{
#if defined(H4V_CBMC) && defined(VGP_ABS_STR)
    H4V_CHECK(len >= 1, "HIstrncpy: len >= 1");
    __CPROVER_assert(__CPROVER_w_ok(dest, (size_t)len), "H4V: HIstrncpy destination holds len bytes");
    H4V_CHECK((size_t)len - 1 <= g_len, "HIstrncpy: source readable up to len-1");
    __CPROVER_havoc_object(dest);
    if (g_c < (size_t)len - 1)
        dest[g_c] = source[g_c];
    dest[len - 1] = '\0';
    return dest;
#else
    char *destp = dest;
    if (len == 0)
        return destp;
    for (; (len > 1) && (*source != '\0'); len--)
        *dest++ = *source++;
    *dest = '\0';
    return destp;
#endif
}

#if defined(H4V_CBMC) && defined(VGP_ABS_STR)
/* libc strlen, trusted: the harness builds the argument string with true length g_len */
size_t
strlen(const char *s)
{
    return g_len;
}
#endif

/* ------------------------------------------------------------------ the real file */
#if defined(H4V_CBMC) && defined(VGP_ALLOC_OK)
/* Environment assumption of the bounded codec round trip ONLY: allocations succeed (what
   `cbmc --no-malloc-may-fail` means; dfcc bakes the failure mode in at goto-instrument time and
   the driver passes flags to cbmc only).  Without it vunpackvg dereferences the unchecked
   malloc results of vgp.c:944/954 (reported as a side finding). */
static void *
vgp_malloc_ok(size_t n)
{
    void *p = malloc(n);
    __CPROVER_assume(p != NULL);
    return p;
}
#define malloc(n) vgp_malloc_ok(n)
#endif
/* memmove model: cbmc's built-in memmove with a symbolic length runs out of memory in the bounded reference-model obligations
   (the current vgp.c does not call memmove at all; a rewrite of Vdeletetagref's shift loop with it must stay decidable).  Exact
   semantics (copy through a temporary) for up to 16 bytes, unrolled by hand so that no unwinding bound is involved; a longer
   move cannot occur under the stated bounds (msize <= 5 members of 2 bytes) and is reported if it does. */
static void *
h4v_memmove(void *d, const void *s, size_t n)
{
    unsigned char        t[16];
    unsigned char       *dp = (unsigned char *)d;
    const unsigned char *sp = (const unsigned char *)s;
    H4V_CHECK(n <= 16, "memmove model: at most 16 bytes under the stated bounds");
#define H4V_MM_R(i) if ((size_t)(i) < n) t[i] = sp[i];
#define H4V_MM_W(i) if ((size_t)(i) < n) dp[i] = t[i];
    H4V_MM_R(0) H4V_MM_R(1) H4V_MM_R(2) H4V_MM_R(3) H4V_MM_R(4) H4V_MM_R(5) H4V_MM_R(6) H4V_MM_R(7)
    H4V_MM_R(8) H4V_MM_R(9) H4V_MM_R(10) H4V_MM_R(11) H4V_MM_R(12) H4V_MM_R(13) H4V_MM_R(14) H4V_MM_R(15)
    H4V_MM_W(0) H4V_MM_W(1) H4V_MM_W(2) H4V_MM_W(3) H4V_MM_W(4) H4V_MM_W(5) H4V_MM_W(6) H4V_MM_W(7)
    H4V_MM_W(8) H4V_MM_W(9) H4V_MM_W(10) H4V_MM_W(11) H4V_MM_W(12) H4V_MM_W(13) H4V_MM_W(14) H4V_MM_W(15)
    return d;
}
#ifdef H4V_CBMC
#define memmove h4v_memmove
#endif
#include "vgp.c"
#if defined(H4V_CBMC) && defined(VGP_ALLOC_OK)
#undef malloc
#endif

/* ------------------------------------------------------------------ predicates */
/* representation invariant of an attached VGROUP.  msize: 64 at creation, max(nvelt,64) after
   unpack, doubled when full; nvelt <= 65535 so msize never exceeds 2*65535. */
#define VG_WF(vg) ((vg)->msize > 0 && (vg)->msize <= 131070 && (int)(vg)->nvelt <= (vg)->msize &&                \
                   (vg)->tag != NULL && (vg)->ref != NULL)
/* the handle resolves to an attached vgroup */
#define VKEY_OK(vkey) ((vkey) == g_key && g_grp == VGIDGROUP && g_obj != NULL && g_obj->vg != NULL)
/* member edits additionally need a Vgroup attached for writing (C14) */
#define VKEYW_OK(vkey) (VKEY_OK(vkey) && g_vg->access == 'w')

/* ------------------------------------------------------------------ contracts */

/* vinsertpair: append.  C08: appended at index old nvelt, every old member unchanged,
   capacity grows when full, count is old+1 AS INTEGERS.  C20: a group holds at most 65535
   members (nvelt is the 16-bit count stored in the file): the 65536th insertion must FAIL and
   leave the group intact. */
int32 vinsertpair(VGROUP *vg, uint16 tag, uint16 ref)
    __CPROVER_requires(vg != NULL && VG_WF(vg))
    __CPROVER_requires(g_k < (unsigned)vg->msize)
    __CPROVER_assigns(vg->nvelt, vg->msize, vg->marked, vg->tag, vg->ref,
                      __CPROVER_object_whole(vg->tag), __CPROVER_object_whole(vg->ref))
    __CPROVER_frees(vg->tag, vg->ref)
    /* result: new member count or FAIL */
    __CPROVER_ensures(__CPROVER_return_value == FAIL ||
                      __CPROVER_return_value == (int32)__CPROVER_old(vg->nvelt) + 1)
    __CPROVER_ensures(__CPROVER_return_value != FAIL ==> (int32)vg->nvelt == (int32)__CPROVER_old(vg->nvelt) + 1)
    /* C20: the format limit */
    __CPROVER_ensures(__CPROVER_old(vg->nvelt) == 65535 ==> __CPROVER_return_value == FAIL)
    /* a failure leaves the member list as it was (count and every member) */
    __CPROVER_ensures(__CPROVER_return_value == FAIL ==> vg->nvelt == __CPROVER_old(vg->nvelt))
    __CPROVER_ensures((__CPROVER_return_value == FAIL && __CPROVER_old(vg->nvelt) == 65535) ==>
                      (vg->tag != NULL && vg->ref != NULL && vg->msize >= 65535 &&
                       (g_k < 65535 ==> (vg->tag[g_k] == __CPROVER_old(vg->tag[g_k]) && vg->ref[g_k] == __CPROVER_old(vg->ref[g_k])))))
    /* the only other reason to fail is an allocation failure while growing */
    __CPROVER_ensures((__CPROVER_return_value == FAIL && __CPROVER_old(vg->nvelt) != 65535) ==>
                      (int)__CPROVER_old(vg->nvelt) >= __CPROVER_old(vg->msize))
    /* success: appended at the end, old members unchanged, capacity */
    __CPROVER_ensures(__CPROVER_return_value != FAIL ==>
                      (VG_WF(vg) && vg->tag[__CPROVER_old(vg->nvelt)] == tag && vg->ref[__CPROVER_old(vg->nvelt)] == ref))
    __CPROVER_ensures((__CPROVER_return_value != FAIL && g_k < __CPROVER_old(vg->nvelt)) ==>
                      (vg->tag[g_k] == __CPROVER_old(vg->tag[g_k]) && vg->ref[g_k] == __CPROVER_old(vg->ref[g_k])))
    __CPROVER_ensures(__CPROVER_return_value != FAIL ==>
                      vg->msize == ((int)__CPROVER_old(vg->nvelt) >= __CPROVER_old(vg->msize) ? 2 * __CPROVER_old(vg->msize)
                                                                                              : __CPROVER_old(vg->msize)))
    __CPROVER_ensures(__CPROVER_return_value != FAIL ==> vg->marked == TRUE);

/* Vaddtagref = handle lookup + vinsertpair (duplicates allowed: NO_DUPLICATES is not defined) */
int32 Vaddtagref(int32 vkey, int32 tag, int32 ref)
    __CPROVER_requires(VG_WF(g_vg) && g_k < (unsigned)g_vg->msize)
    __CPROVER_requires(g_vg->nvelt < 65535) /* the limit case is vinsertpair_limit */
    __CPROVER_assigns(g_vg->nvelt, g_vg->msize, g_vg->marked, g_vg->tag, g_vg->ref,
                      __CPROVER_object_whole(g_vg->tag), __CPROVER_object_whole(g_vg->ref))
    __CPROVER_frees(g_vg->tag, g_vg->ref)
    __CPROVER_ensures(!VKEYW_OK(vkey) ==> (__CPROVER_return_value == FAIL && g_vg->nvelt == __CPROVER_old(g_vg->nvelt)))
    __CPROVER_ensures(__CPROVER_return_value == FAIL ||
                      __CPROVER_return_value == (int32)__CPROVER_old(g_vg->nvelt) + 1)
    __CPROVER_ensures(__CPROVER_return_value != FAIL ==>
                      ((int32)g_vg->nvelt == (int32)__CPROVER_old(g_vg->nvelt) + 1 &&
                       g_vg->tag[__CPROVER_old(g_vg->nvelt)] == (uint16)tag &&
                       g_vg->ref[__CPROVER_old(g_vg->nvelt)] == (uint16)ref && g_vg->marked == TRUE))
    /* a duplicate is appended like any other pair; old members unchanged */
    __CPROVER_ensures((__CPROVER_return_value != FAIL && g_k < __CPROVER_old(g_vg->nvelt)) ==>
                      (g_vg->tag[g_k] == __CPROVER_old(g_vg->tag[g_k]) && g_vg->ref[g_k] == __CPROVER_old(g_vg->ref[g_k])));

/* Vdeletetagref: ordered delete of the FIRST matching member.
   Ghost members: g_k with entry values old[g_k] = (g_kt,g_kr), old[g_k+1] = (g_k1t,g_k1r), and
   g_j > g_k with old[g_j+1] = (g_j1t,g_j1r).
   With K(x): new[x]==old[x] ("kept") and S(x): new[x]==old[x+1] ("shifted"):
   the new list is the old one minus one position p (E2: every member kept or shifted; E5: once
   not kept, every later one is shifted), p is not after any matching member (E3) and the member
   at p matches (E4) -- i.e. p is the first match.  No match (or bad handle) => FAIL, nothing
   changed. */
#define DT_M(k) (g_vg->tag[k] == (uint16)tag && g_vg->ref[k] == (uint16)ref)
#define DT_K(x, t, r) (g_vg->tag[x] == (t) && g_vg->ref[x] == (r))
int Vdeletetagref(int32 vkey, int32 tag, int32 ref)
    __CPROVER_requires(VG_WF(g_vg) && g_vg->msize >= 2)
    __CPROVER_requires(g_k < g_j && g_j < 65535 && g_j + 1 < (unsigned)g_vg->msize)
    __CPROVER_requires(DT_K(g_k, g_kt, g_kr) && DT_K(g_k + 1, g_k1t, g_k1r) && DT_K(g_j + 1, g_j1t, g_j1r))
    __CPROVER_assigns(g_vg->nvelt, g_vg->marked, __CPROVER_object_whole(g_vg->tag), __CPROVER_object_whole(g_vg->ref))
    __CPROVER_ensures(__CPROVER_return_value == SUCCEED || __CPROVER_return_value == FAIL)
    __CPROVER_ensures(!VKEYW_OK(vkey) ==> __CPROVER_return_value == FAIL)
    /* E1 */
    __CPROVER_ensures(__CPROVER_return_value == SUCCEED ==> ((int)g_vg->nvelt == (int)__CPROVER_old(g_vg->nvelt) - 1 && g_vg->marked == TRUE))
    /* E2: member k of the new list is old member k or old member k+1 */
    __CPROVER_ensures((__CPROVER_return_value == SUCCEED && g_k < g_vg->nvelt) ==> (DT_K(g_k, g_kt, g_kr) || DT_K(g_k, g_k1t, g_k1r)))
    /* E3: a position that matched is at or after the removed one: it now holds its successor */
    __CPROVER_ensures((__CPROVER_return_value == SUCCEED && g_k < g_vg->nvelt && g_kt == (uint16)tag && g_kr == (uint16)ref) ==> DT_K(g_k, g_k1t, g_k1r))
    /* E4: the removed member matched.  Position g_k is the removed one if its predecessor is not
       shifted (or g_k == 0) and it is itself not kept (or was the last member) */
    __CPROVER_ensures((__CPROVER_return_value == SUCCEED && g_k <= g_vg->nvelt && (g_k == 0 || !DT_K(g_k - 1, g_kt, g_kr)) &&
                       (g_k == g_vg->nvelt || !DT_K(g_k, g_kt, g_kr))) ==> (g_kt == (uint16)tag && g_kr == (uint16)ref))
    /* E5: order preserved: once a position is not kept, every later one is shifted */
    __CPROVER_ensures((__CPROVER_return_value == SUCCEED && g_j < g_vg->nvelt && !DT_K(g_k, g_kt, g_kr)) ==> DT_K(g_j, g_j1t, g_j1r))
    /* FAIL: nothing changed; and with a valid handle no member matches */
    __CPROVER_ensures(__CPROVER_return_value == FAIL ==>
                      (g_vg->nvelt == __CPROVER_old(g_vg->nvelt) && g_vg->marked == __CPROVER_old(g_vg->marked) &&
                       DT_K(g_k, g_kt, g_kr)))
    __CPROVER_ensures((__CPROVER_return_value == FAIL && VKEYW_OK(vkey) && g_k < g_vg->nvelt) ==> !DT_M(g_k));

/* Vinqtagref: TRUE iff some member equals (tag,ref).  Pointwise: TRUE => handle valid and the
   group is not empty; FALSE with a valid handle => ghost member k does not match. */
int Vinqtagref(int32 vkey, int32 tag, int32 ref)
    __CPROVER_requires(VG_WF(g_vg) && g_k < (unsigned)g_vg->msize)
    __CPROVER_assigns()
    __CPROVER_ensures(__CPROVER_return_value == TRUE || __CPROVER_return_value == FALSE)
    __CPROVER_ensures(!VKEY_OK(vkey) ==> __CPROVER_return_value == FALSE)
    __CPROVER_ensures((__CPROVER_return_value == FALSE && VKEY_OK(vkey) && g_k < g_vg->nvelt) ==> !DT_M(g_k))
    __CPROVER_ensures(__CPROVER_return_value == TRUE ==> g_vg->nvelt > 0)
    /* a group whose only member is (tag,ref) answers TRUE; one whose first member matches too */
    __CPROVER_ensures((VKEY_OK(vkey) && g_vg->nvelt > 0 && DT_M(0)) ==> __CPROVER_return_value == TRUE);

int32 Vntagrefs(int32 vkey)
    __CPROVER_requires(VG_WF(g_vg))
    __CPROVER_assigns()
    __CPROVER_ensures(!VKEY_OK(vkey) ==> __CPROVER_return_value == FAIL)
    __CPROVER_ensures(VKEY_OK(vkey) ==>
                      __CPROVER_return_value == (g_vg->otag == DFTAG_VG ? (int32)g_vg->nvelt : FAIL));

/* Vnrefs: number of members with the given tag: between 0 and nvelt; 0 => ghost member k has
   another tag; nvelt => ghost member k has the tag */
int32 Vnrefs(int32 vkey, int32 tag)
    __CPROVER_requires(VG_WF(g_vg) && g_k < (unsigned)g_vg->msize)
    __CPROVER_assigns()
    __CPROVER_ensures(!VKEY_OK(vkey) ==> __CPROVER_return_value == FAIL)
    __CPROVER_ensures(VKEY_OK(vkey) ==> (__CPROVER_return_value >= 0 && __CPROVER_return_value <= (int32)g_vg->nvelt))
    __CPROVER_ensures((VKEY_OK(vkey) && g_k < g_vg->nvelt && __CPROVER_return_value == 0) ==> g_vg->tag[g_k] != (uint16)tag)
    __CPROVER_ensures((VKEY_OK(vkey) && g_k < g_vg->nvelt && __CPROVER_return_value == (int32)g_vg->nvelt) ==>
                      g_vg->tag[g_k] == (uint16)tag);

/* Vgettagref: member number `which` */
int Vgettagref(int32 vkey, int32 which, int32 *tag, int32 *ref)
    __CPROVER_requires(VG_WF(g_vg))
    __CPROVER_requires(tag != NULL && ref != NULL)
    __CPROVER_assigns(*tag, *ref)
    __CPROVER_ensures((!VKEY_OK(vkey) || which < 0 || which >= (int32)g_vg->nvelt) ==>
                      (__CPROVER_return_value == FAIL && *tag == __CPROVER_old(*tag) && *ref == __CPROVER_old(*ref)))
    __CPROVER_ensures((VKEY_OK(vkey) && which >= 0 && which < (int32)g_vg->nvelt) ==>
                      (__CPROVER_return_value == SUCCEED && *tag == (int32)g_vg->tag[which] && *ref == (int32)g_vg->ref[which]));

/* Vgettagrefs: the first min(n, nvelt) members in order; nothing is written beyond them.
   The harness hands over arrays of exactly max(n,0) elements (what the documentation demands). */
int32 Vgettagrefs(int32 vkey, int32 tagarray[], int32 refarray[], int32 n)
    __CPROVER_requires(VG_WF(g_vg))
    __CPROVER_requires(tagarray == g_ta && refarray == g_ra)
    __CPROVER_requires(n >= 0 && n == g_n0) /* a count */
    __CPROVER_requires(g_k >= (unsigned)n || (g_ta[g_k] == g_ta0 && g_ra[g_k] == g_ra0))
    __CPROVER_assigns(__CPROVER_object_whole(tagarray), __CPROVER_object_whole(refarray))
    __CPROVER_ensures(!VKEY_OK(vkey) ==> __CPROVER_return_value == FAIL)
    __CPROVER_ensures(VKEY_OK(vkey) ==> __CPROVER_return_value == (n > (int32)g_vg->nvelt ? (int32)g_vg->nvelt : n))
    __CPROVER_ensures((VKEY_OK(vkey) && g_k < (unsigned)n && g_k < g_vg->nvelt) ==>
                      (g_ta[g_k] == (int32)g_vg->tag[g_k] && g_ra[g_k] == (int32)g_vg->ref[g_k]))
    __CPROVER_ensures((g_k < (unsigned)n && (!VKEY_OK(vkey) || g_k >= g_vg->nvelt)) ==> (g_ta[g_k] == g_ta0 && g_ra[g_k] == g_ra0));

/* Vsetname / Vsetclass (C08 naming, C20 no legacy length limit): for a writable attached group
   and a string of any length g_len the stored name is a fresh, terminated copy of exactly
   g_len+1 bytes; the old name is released; a refused call changes nothing. */
#define VS_ARGS_OK(vkey, s) (VKEY_OK(vkey) && (s) != NULL && g_vg->access == 'w')
int32 Vsetname(int32 vkey, const char *vgname)
    __CPROVER_requires(vgname == NULL || vgname == g_str)
    __CPROVER_requires(g_c <= g_len)
    __CPROVER_assigns(g_vg->vgname, g_vg->marked)
    __CPROVER_frees(g_vg->vgname)
    __CPROVER_ensures(__CPROVER_return_value == SUCCEED || __CPROVER_return_value == FAIL)
    __CPROVER_ensures(!VS_ARGS_OK(vkey, vgname) ==>
                      (__CPROVER_return_value == FAIL && g_vg->vgname == __CPROVER_old(g_vg->vgname) &&
                       g_vg->marked == __CPROVER_old(g_vg->marked)))
    __CPROVER_ensures(__CPROVER_return_value == SUCCEED ==>
                      (g_vg->vgname != NULL && g_vg->vgname[g_len] == '\0' && g_vg->vgname[g_c] == g_str[g_c] &&
                       g_vg->marked == TRUE))
    /* the copy is a new object of exactly g_len+1 bytes, the previous name was released */
    __CPROVER_ensures(__CPROVER_return_value == SUCCEED ==>
                      (__CPROVER_OBJECT_SIZE(g_vg->vgname) == g_len + 1 && __CPROVER_POINTER_OFFSET(g_vg->vgname) == 0 &&
                       !__CPROVER_same_object(g_vg->vgname, g_str)))
    __CPROVER_ensures((VS_ARGS_OK(vkey, vgname) && __CPROVER_old(g_vg->vgname) != NULL) ==>
                      __CPROVER_was_freed(__CPROVER_old(g_vg->vgname)))
    /* the only failure with good arguments is allocation failure: then the group has no name */
    __CPROVER_ensures((VS_ARGS_OK(vkey, vgname) && __CPROVER_return_value == FAIL) ==> g_vg->vgname == NULL);

int32 Vsetclass(int32 vkey, const char *vgclass)
    __CPROVER_requires(vgclass == NULL || vgclass == g_str)
    __CPROVER_requires(g_c <= g_len)
    __CPROVER_assigns(g_vg->vgclass, g_vg->marked)
    __CPROVER_frees(g_vg->vgclass)
    __CPROVER_ensures(__CPROVER_return_value == SUCCEED || __CPROVER_return_value == FAIL)
    __CPROVER_ensures(!VS_ARGS_OK(vkey, vgclass) ==>
                      (__CPROVER_return_value == FAIL && g_vg->vgclass == __CPROVER_old(g_vg->vgclass) &&
                       g_vg->marked == __CPROVER_old(g_vg->marked)))
    __CPROVER_ensures(__CPROVER_return_value == SUCCEED ==>
                      (g_vg->vgclass != NULL && g_vg->vgclass[g_len] == '\0' && g_vg->vgclass[g_c] == g_str[g_c] &&
                       g_vg->marked == TRUE))
    __CPROVER_ensures(__CPROVER_return_value == SUCCEED ==>
                      (__CPROVER_OBJECT_SIZE(g_vg->vgclass) == g_len + 1 && __CPROVER_POINTER_OFFSET(g_vg->vgclass) == 0 &&
                       !__CPROVER_same_object(g_vg->vgclass, g_str)))
    __CPROVER_ensures((VS_ARGS_OK(vkey, vgclass) && __CPROVER_old(g_vg->vgclass) != NULL) ==>
                      __CPROVER_was_freed(__CPROVER_old(g_vg->vgclass)))
    __CPROVER_ensures((VS_ARGS_OK(vkey, vgclass) && __CPROVER_return_value == FAIL) ==> g_vg->vgclass == NULL);

#ifdef H4V_NATIVE
#include "h4v_native_wrap.h"
#endif

/* ------------------------------------------------------------------ harnesses */
H4V_DECL_ND(int32);
H4V_DECL_ND(int);
H4V_DECL_ND(uint16);
H4V_DECL_ND(int16);
H4V_DECL_ND(uint32);
H4V_DECL_ND(unsigned);
H4V_DECL_ND(size_t);
H4V_DECL_ND(char);

/* a buffer whose contents do not matter for the replay (too large to name element-wise) */
#ifdef H4V_CBMC
#define VGP_BUF(T, p, n)                                                                                          \
    T *p = malloc((size_t)(n) * sizeof(T));                                                                       \
    __CPROVER_assume(p != NULL)
#else
#define VGP_BUF(T, p, n) T *p = calloc((size_t)(n) + 1, sizeof(T))
#endif

/* the attached vgroup: every field arbitrary within VG_WF */
#define MK_VG_SCALARS(vg)                                                                                         \
    VGROUP *vg = malloc(sizeof(VGROUP));                                                                          \
    H4V_ASSUME(vg != NULL);                                                                                       \
    memset(vg, 0, sizeof(VGROUP));                                                                                \
    H4V_ND(uint16, vg_nvelt);                                                                                     \
    H4V_ND(int, vg_msize);                                                                                        \
    H4V_ND(uint16, vg_otag);                                                                                      \
    H4V_ND(int, vg_access);                                                                                       \
    H4V_ND(int, vg_marked);                                                                                       \
    H4V_ASSUME(vg_msize > 0 && vg_msize <= 131070 && (int)vg_nvelt <= vg_msize);                                  \
    vg->nvelt  = vg_nvelt;                                                                                        \
    vg->msize  = vg_msize;                                                                                        \
    vg->otag   = vg_otag;                                                                                         \
    vg->access = vg_access;                                                                                       \
    vg->marked = vg_marked;                                                                                       \
    g_vg       = vg

#define VG_CAP 6
#define MK_VG(vg)                                                                                                 \
    MK_VG_SCALARS(vg);                                                                                            \
    H4V_ND_BUF(uint16, vg_tag, vg_msize, VG_CAP);                                                                 \
    H4V_ND_BUF(uint16, vg_ref, vg_msize, VG_CAP);                                                                 \
    vg->tag = vg_tag;                                                                                             \
    vg->ref = vg_ref

/* the handle: vkey arbitrary, one registered atom; group, instance and instance->vg may each be
   what a stale or foreign handle would give */
#define MK_KEY(vkey, vg)                                                                                          \
    H4V_ND(int32, vkey);                                                                                          \
    H4V_ND(int32, reg_key);                                                                                       \
    H4V_ND(int, reg_grp);                                                                                         \
    H4V_ND(int, obj_null);                                                                                        \
    H4V_ND(int, vg_null);                                                                                         \
    vginstance_t *inst = malloc(sizeof(vginstance_t));                                                            \
    H4V_ASSUME(inst != NULL);                                                                                     \
    memset(inst, 0, sizeof(vginstance_t));                                                                        \
    inst->vg = vg_null ? NULL : vg;                                                                               \
    g_key    = reg_key;                                                                                           \
    g_grp    = reg_grp;                                                                                           \
    g_obj    = obj_null ? NULL : inst

#define HAVOC_GHOSTS()                                                                                            \
    H4V_HAVOC(unsigned, g_k);                                                                                     \
    H4V_HAVOC(unsigned, g_j)

void
h_vinsertpair(void)
{
    HAVOC_GHOSTS();
    MK_VG(vg);
    H4V_ND(uint16, tag);
    H4V_ND(uint16, ref);
    H4V_ASSUME(vg->nvelt < 65535);
    int   old_ms = vg->msize;
    int32 r      = vinsertpair(vg, tag, ref);
    H4V_COVER(r != FAIL && vg->msize == old_ms, "vinsertpair in-place path");
    H4V_COVER(r != FAIL && vg->msize != old_ms, "vinsertpair grow path");
    H4V_COVER(r == FAIL, "vinsertpair allocation failure path");
    H4V_COVER(r == 65535, "vinsertpair 65535th member");
    H4V_CANARY("vinsertpair end");
}

/* C20 / D7: the 65536th member */
void
h_vinsertpair_limit(void)
{
    HAVOC_GHOSTS();
    MK_VG_SCALARS(vg);
    VGP_BUF(uint16, vg_tag, vg_msize);
    VGP_BUF(uint16, vg_ref, vg_msize);
    vg->tag = vg_tag;
    vg->ref = vg_ref;
    H4V_ND(uint16, tag);
    H4V_ND(uint16, ref);
    H4V_ASSUME(vg->nvelt == 65535);
    int32 r = vinsertpair(vg, tag, ref);
    (void)r;
    H4V_CANARY("vinsertpair_limit end");
}

void
h_Vaddtagref(void)
{
    HAVOC_GHOSTS();
    MK_VG(vg);
    MK_KEY(vkey, vg);
    H4V_ND(int32, tag);
    H4V_ND(int32, ref);
    int32 r = Vaddtagref(vkey, tag, ref);
    H4V_COVER(r != FAIL, "Vaddtagref success");
    H4V_COVER(r == FAIL && vkey == g_key && g_grp == VGIDGROUP, "Vaddtagref stale handle");
    H4V_CANARY("Vaddtagref end");
}

void
h_Vdeletetagref(void)
{
    HAVOC_GHOSTS();
    MK_VG(vg);
    MK_KEY(vkey, vg);
    H4V_ND(int32, tag);
    H4V_ND(int32, ref);
    H4V_ASSUME(vg->msize >= 2 && g_k < g_j && g_j < 65535 && g_j + 1 < (unsigned)vg->msize);
    g_kt  = vg->tag[g_k];
    g_kr  = vg->ref[g_k];
    g_k1t = vg->tag[g_k + 1];
    g_k1r = vg->ref[g_k + 1];
    g_j1t = vg->tag[g_j + 1];
    g_j1r = vg->ref[g_j + 1];
    uint16 old_n = vg->nvelt;
    int    r     = Vdeletetagref(vkey, tag, ref);
    H4V_COVER(r == SUCCEED && old_n > 2, "Vdeletetagref success");
    H4V_COVER(r == FAIL && VKEYW_OK(vkey) && old_n > 0, "Vdeletetagref no match");
    H4V_COVER(r == FAIL && !VKEY_OK(vkey), "Vdeletetagref bad handle");
    H4V_CANARY("Vdeletetagref end");
}

void
h_Vinqtagref(void)
{
    HAVOC_GHOSTS();
    MK_VG(vg);
    MK_KEY(vkey, vg);
    H4V_ND(int32, tag);
    H4V_ND(int32, ref);
    int r = Vinqtagref(vkey, tag, ref);
    H4V_COVER(r == TRUE, "Vinqtagref found");
    H4V_COVER(r == FALSE && VKEY_OK(vkey) && vg->nvelt > 0, "Vinqtagref not found");
    H4V_CANARY("Vinqtagref end");
}

void
h_Vntagrefs(void)
{
    HAVOC_GHOSTS();
    MK_VG(vg);
    MK_KEY(vkey, vg);
    int32 r = Vntagrefs(vkey);
    H4V_COVER(r > 0, "Vntagrefs positive");
    H4V_COVER(r == FAIL && VKEY_OK(vkey), "Vntagrefs not a DFTAG_VG");
    H4V_CANARY("Vntagrefs end");
}

void
h_Vnrefs(void)
{
    HAVOC_GHOSTS();
    MK_VG(vg);
    MK_KEY(vkey, vg);
    H4V_ND(int32, tag);
    int32 r = Vnrefs(vkey, tag);
    H4V_COVER(r > 0, "Vnrefs positive");
    H4V_COVER(r == 0, "Vnrefs zero");
    H4V_CANARY("Vnrefs end");
}

void
h_Vgettagref(void)
{
    HAVOC_GHOSTS();
    MK_VG(vg);
    MK_KEY(vkey, vg);
    H4V_ND(int32, which);
    H4V_ND(int32, t0);
    H4V_ND(int32, r0);
    int32 t = t0, rr = r0;
    int   r = Vgettagref(vkey, which, &t, &rr);
    H4V_COVER(r == SUCCEED, "Vgettagref success");
    H4V_COVER(r == FAIL && VKEY_OK(vkey), "Vgettagref range");
    H4V_CANARY("Vgettagref end");
}

void
h_Vgettagrefs(void)
{
    HAVOC_GHOSTS();
    MK_VG(vg);
    MK_KEY(vkey, vg);
    H4V_ND(int32, n);
    H4V_ASSUME(n >= 0 && n <= 70000);
    H4V_ND_BUF(int32, ta, n, VG_CAP);
    H4V_ND_BUF(int32, ra, n, VG_CAP);
    g_ta = ta;
    g_ra = ra;
    g_n0 = n;
    if (g_k < (unsigned)n) {
        g_ta0 = ta[g_k];
        g_ra0 = ra[g_k];
    }
    int32 r = Vgettagrefs(vkey, ta, ra, n);
    H4V_COVER(r >= 0 && r < n, "Vgettagrefs clamped");
    H4V_COVER(r > 0 && r == n, "Vgettagrefs full");
    H4V_CANARY("Vgettagrefs end");
}

/* the argument string: g_len characters, none of them NUL, then the terminator */
#define NAME_CAP 6 /* < cex_unwind */
#define MK_NAME(s)                                                                                                \
    H4V_HAVOC(size_t, g_len);                                                                                     \
    H4V_HAVOC(size_t, g_c);                                                                                       \
    H4V_ASSUME(g_len <= 0x7ffffffe);                                                                              \
    H4V_ND_BUF(uint8, s##_b, g_len + 1, NAME_CAP);                                                                \
    char *s = (char *)s##_b;                                                                                      \
    H4V_ASSUME(s[g_len] == '\0');                                                                                 \
    H4V_ASSUME(g_c <= g_len && (g_c == g_len || s[g_c] != '\0'));                                                 \
    NAME_NO_NUL(s);                                                                                               \
    g_str = s
#if defined(H4V_CBMC) && defined(VGP_ABS_STR) && !defined(H4V_CEX)
#define NAME_NO_NUL(s) ((void)0) /* stated for the ghost character g_c only */
#else
#define NAME_NO_NUL(s)                                                                                            \
    for (size_t s##_i = 0; s##_i < g_len; s##_i++)                                                                \
    H4V_ASSUME(s[s##_i] != '\0')
#endif

/* an existing name of the group: absent or some heap string */
#define MK_OLDNAME(field)                                                                                         \
    H4V_ND(int, has_old);                                                                                         \
    if (has_old) {                                                                                                \
        char *o = malloc(4);                                                                                      \
        H4V_ASSUME(o != NULL);                                                                                    \
        o[0] = 'o'; o[1] = 'l'; o[2] = 'd'; o[3] = 0;                                                             \
        vg->field = o;                                                                                            \
    }

void
h_Vsetname(void)
{
    HAVOC_GHOSTS();
    MK_VG(vg);
    MK_KEY(vkey, vg);
    MK_NAME(name);
    MK_OLDNAME(vgname);
    H4V_ND(int, name_null);
    int32 r = Vsetname(vkey, name_null ? NULL : name);
    H4V_COVER(r == SUCCEED && g_len > 64, "Vsetname long name");
    H4V_COVER(r == SUCCEED && g_len == 0, "Vsetname empty name");
    H4V_COVER(r == FAIL && VS_ARGS_OK(vkey, name), "Vsetname allocation failure");
    H4V_CANARY("Vsetname end");
}

void
h_Vsetclass(void)
{
    HAVOC_GHOSTS();
    MK_VG(vg);
    MK_KEY(vkey, vg);
    MK_NAME(name);
    MK_OLDNAME(vgclass);
    H4V_ND(int, name_null);
    int32 r = Vsetclass(vkey, name_null ? NULL : name);
    H4V_COVER(r == SUCCEED && g_len > 64, "Vsetclass long name");
    H4V_COVER(r == SUCCEED && g_len == 0, "Vsetclass empty name");
    H4V_CANARY("Vsetclass end");
}

/* ------------------------------------------------------------------ vpackvg / vunpackvg (C08, C02)
   Bounded stand-in: <= RT_MAXN members, names <= 3 characters, <= RT_MAXA attributes.
   unpack(pack(vg)) == vg field by field, *size == number of bytes written, nothing written
   beyond *size, buffer of the size Vdetach computes is not overrun (bounds checks). */
#ifndef RT_MAXN
#define RT_MAXN 3 /* members */
#endif
#ifndef RT_MAXA
#define RT_MAXA 2 /* attributes */
#endif
#define RT_BUFSZ (sizeof(VGROUP) + 3 + 3 + RT_MAXN * 4 + RT_MAXA * sizeof(vg_attr_t) + 1)
static char *
rt_name(char c0, char c1, char c2, int len)
{
    if (len < 0)
        return NULL; /* no name */
    char *s = malloc(4);
    H4V_ASSUME(s != NULL);
    s[0] = c0;
    s[1] = c1;
    s[2] = c2;
    s[3] = '\0';
    H4V_ASSUME(len <= 3);
    s[len] = '\0';
    for (int i = 0; i < 3; i++)
        H4V_ASSUME(i >= len || s[i] != '\0');
    return s;
}

/* the same name: equal strings, where "no name" and the empty name are the same thing
   (the record stores only a length) */
static int
rt_same_name(const char *a, const char *b)
{
    if (a == NULL || a[0] == '\0')
        return b == NULL || b[0] == '\0';
    if (b == NULL)
        return 0;
    for (int i = 0; i < 4; i++) {
        if (a[i] != b[i])
            return 0;
        if (a[i] == '\0')
            return 1;
    }
    return 0;
}

void
h_vg_roundtrip(void)
{
    HAVOC_GHOSTS();
    H4V_HAVOC(size_t, g_c);
    MK_VG_SCALARS(vg);
    H4V_ASSUME(vg->nvelt <= RT_MAXN && vg->msize == 4);
#ifdef RT_NFIX
    H4V_ASSUME(vg->nvelt == RT_NFIX); /* one run per member count */
#endif
    H4V_ND(uint16, mt0); H4V_ND(uint16, mt1); H4V_ND(uint16, mt2);
    H4V_ND(uint16, mr0); H4V_ND(uint16, mr1); H4V_ND(uint16, mr2);
    vg->tag = malloc(4 * sizeof(uint16));
    vg->ref = malloc(4 * sizeof(uint16));
    H4V_ASSUME(vg->tag != NULL && vg->ref != NULL);
    vg->tag[0] = mt0; vg->tag[1] = mt1; vg->tag[2] = mt2; vg->tag[3] = 0;
    vg->ref[0] = mr0; vg->ref[1] = mr1; vg->ref[2] = mr2; vg->ref[3] = 0;
    H4V_ND(char, n0); H4V_ND(char, n1); H4V_ND(char, n2); H4V_ND(int, nlen);
    H4V_ND(char, c0); H4V_ND(char, c1); H4V_ND(char, c2); H4V_ND(int, clen);
    vg->vgname  = rt_name(n0, n1, n2, nlen);
    vg->vgclass = rt_name(c0, c1, c2, clen);
    H4V_ND(uint16, vg_extag); H4V_ND(uint16, vg_exref); H4V_ND(int16, vg_version); H4V_ND(int16, vg_more);
    H4V_ND(uint32, vg_flags); H4V_ND(int32, vg_nattrs);
    H4V_ND(uint16, a0t); H4V_ND(uint16, a0r); H4V_ND(uint16, a1t); H4V_ND(uint16, a1r);
    /* record versions the library knows (<= 4); version 4 is written exactly when flags != 0 */
    H4V_ASSUME(vg_version <= VSET_NEW_VERSION && (vg_version != VSET_NEW_VERSION || vg_flags != 0));
    H4V_ASSUME(vg_nattrs >= 0 && vg_nattrs <= RT_MAXA);
    if (!(vg_flags & VG_ATTR_SET))
        vg_nattrs = 0;
    vg->extag = vg_extag; vg->exref = vg_exref; vg->version = vg_version; vg->more = vg_more;
    vg->flags = vg_flags; vg->nattrs = vg_nattrs;
    vg->alist = malloc(2 * sizeof(vg_attr_t));
    H4V_ASSUME(vg->alist != NULL);
    vg->alist[0].atag = a0t; vg->alist[0].aref = a0r; vg->alist[1].atag = a1t; vg->alist[1].aref = a1r;

    size_t nl = vg->vgname ? (size_t)nlen : 0, cl = vg->vgclass ? (size_t)clen : 0;
    /* the buffer Vdetach provides */
    size_t need = sizeof(VGROUP) + nl + cl + (size_t)vg->nvelt * 4 + (size_t)vg->nattrs * sizeof(vg_attr_t) + 1;
    /* (allocated at its maximum here; the record must fit into `need`) */
    uint8 *buf = malloc(RT_BUFSZ);
    H4V_ASSUME(buf != NULL);
    H4V_ASSUME(g_c < RT_BUFSZ);
    uint8 b0 = buf[g_c];
    int32 size = -1;
    int   r    = vpackvg(vg, buf, &size);
    H4V_CHECK(r == SUCCEED, "vpackvg succeeds");
    /* *size == bytes written: the record layout of the file format */
    int32 expect = 2 + 4 * (int32)vg->nvelt + 2 + (int32)nl + 2 + (int32)cl + 4 +
                   (vg_flags ? 4 + ((vg_flags & VG_ATTR_SET) ? 4 + 4 * vg_nattrs : 0) : 0) + 4 + 1;
    H4V_CHECK(size == expect, "vpackvg: *size is the record length");
    H4V_CHECK((size_t)size <= need, "vpackvg: record fits the buffer Vdetach allocates");
    H4V_CHECK(g_c < (size_t)size || buf[g_c] == b0, "vpackvg: nothing written beyond *size");
    H4V_CHECK(vg->version == (vg_flags && vg_version < VSET_NEW_VERSION ? VSET_NEW_VERSION : vg_version),
              "vpackvg: version raised to 4 only when flags are present");

    VGROUP *vg2 = malloc(sizeof(VGROUP));
    H4V_ASSUME(vg2 != NULL);
    memset(vg2, 0, sizeof(VGROUP));
    int r2 = vunpackvg(vg2, buf, (int)size);
    H4V_COVER(r2 == SUCCEED && nl == 3 && cl == 0 && vg_nattrs == RT_MAXA, "roundtrip full size");
    H4V_COVER(r2 == SUCCEED && vg_flags == 0, "roundtrip old-style record");
    if (r2 == SUCCEED) {
        H4V_CHECK(vg2->nvelt == vg->nvelt, "roundtrip nvelt");
        H4V_CHECK(vg2->msize >= (int)vg2->nvelt && vg2->msize >= MAXNVELT, "roundtrip capacity");
        H4V_CHECK(g_k >= vg->nvelt || (vg2->tag[g_k] == vg->tag[g_k] && vg2->ref[g_k] == vg->ref[g_k]), "roundtrip member g_k");
        H4V_CHECK(rt_same_name(vg->vgname, vg2->vgname), "roundtrip vgname");
        H4V_CHECK(rt_same_name(vg->vgclass, vg2->vgclass), "roundtrip vgclass");
        H4V_CHECK(vg2->extag == vg->extag && vg2->exref == vg->exref, "roundtrip extag/exref");
        H4V_CHECK(vg2->version == vg->version && vg2->more == vg->more, "roundtrip version/more");
        H4V_CHECK(vg2->flags == vg->flags, "roundtrip flags");
        if (vg->flags & VG_ATTR_SET) {
            H4V_CHECK(vg2->nattrs == vg->nattrs, "roundtrip nattrs");
            H4V_CHECK(vg->nattrs < 1 || (vg2->alist[0].atag == a0t && vg2->alist[0].aref == a0r), "roundtrip attr 0");
            H4V_CHECK(vg->nattrs < 2 || (vg2->alist[1].atag == a1t && vg2->alist[1].aref == a1r), "roundtrip attr 1");
        }
    }
    H4V_CANARY("vg_roundtrip end");
}

/* ------------------------------------------------------------------ bounded reference-model checks
   The pointwise (ghost index) contracts above cannot say "TRUE => SOME member matches" or give
   the exact count / the exact first match.  For groups of <= MM_N members the result is compared
   with a reference model computed by the harness (stand-ins, mode bounded). */
#define MM_N 4
#define MM_SETUP()                                                                                                \
    HAVOC_GHOSTS();                                                                                               \
    MK_VG(vg);                                                                                                    \
    H4V_ASSUME(vg->msize <= MM_N + 1 && vg->nvelt <= MM_N);                                                       \
    MK_KEY(vkey, vg);                                                                                             \
    H4V_ND(int32, tag);                                                                                           \
    H4V_ND(int32, ref)

void
h_Vinqtagref_model(void)
{
    MM_SETUP();
    int exp = FALSE;
    for (unsigned k = 0; k < MM_N; k++)
        if (VKEY_OK(vkey) && k < vg->nvelt && vg->tag[k] == (uint16)tag && vg->ref[k] == (uint16)ref)
            exp = TRUE;
    int r = Vinqtagref(vkey, tag, ref);
    H4V_CHECK(r == exp, "Vinqtagref == (some member equals (tag,ref))");
    H4V_COVER(r == TRUE && vg->nvelt == MM_N, "Vinqtagref model found");
    H4V_CANARY("Vinqtagref_model end");
}

void
h_Vnrefs_model(void)
{
    MM_SETUP();
    int32 exp = VKEY_OK(vkey) ? 0 : FAIL;
    for (unsigned k = 0; k < MM_N; k++)
        if (VKEY_OK(vkey) && k < vg->nvelt && vg->tag[k] == (uint16)tag)
            exp++;
    int32 r = Vnrefs(vkey, tag);
    H4V_CHECK(r == exp, "Vnrefs == number of members with the tag");
    H4V_COVER(r == 2, "Vnrefs model two");
    H4V_CANARY("Vnrefs_model end");
}

void
h_Vdeletetagref_model(void)
{
    MM_SETUP();
    uint16   ot[MM_N + 1], orf[MM_N + 1];
    unsigned n = vg->nvelt, f = MM_N + 1;
    int      m0 = vg->marked;
    for (unsigned k = 0; k < MM_N + 1; k++) {
        ot[k]  = k < (unsigned)vg->msize ? vg->tag[k] : 0;
        orf[k] = k < (unsigned)vg->msize ? vg->ref[k] : 0;
        if (f > MM_N && k < n && ot[k] == (uint16)tag && orf[k] == (uint16)ref)
            f = k; /* first match */
    }
    int r = Vdeletetagref(vkey, tag, ref);
    if (!VKEYW_OK(vkey) || f > MM_N) {
        H4V_CHECK(r == FAIL && vg->nvelt == n && vg->marked == m0, "Vdeletetagref: no match or bad handle => FAIL, count kept");
        for (unsigned k = 0; k < MM_N; k++)
            H4V_CHECK(k >= n || (vg->tag[k] == ot[k] && vg->ref[k] == orf[k]), "Vdeletetagref: FAIL changes no member");
    }
    else {
        H4V_CHECK(r == SUCCEED && vg->nvelt == n - 1 && vg->marked == TRUE, "Vdeletetagref: match => SUCCEED, one member fewer");
        for (unsigned k = 0; k + 1 < MM_N; k++)
            H4V_CHECK(k + 1 >= n || (vg->tag[k] == ot[k < f ? k : k + 1] && vg->ref[k] == orf[k < f ? k : k + 1]),
                      "Vdeletetagref: list == old list without its FIRST match");
    }
    H4V_COVER(r == SUCCEED && n == MM_N && f == 1, "Vdeletetagref model middle");
    H4V_COVER(r == SUCCEED && f == n - 1, "Vdeletetagref model last");
    H4V_CANARY("Vdeletetagref_model end");
}

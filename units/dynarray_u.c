/* Verification unit: hdf/src/dynarray.c (C12: ref -> DD pointer table of one tag)
 *
 * The only client of dynarray.c in the library is hfiledd.c (DAcreate_array(64, 256), indices
 * are 16-bit refs).  The contracts below are stated for an arbitrary dynarray with
 * incr_mult == DA_INCR (a compile-time constant of the obligation: symbolic / and * do not
 * terminate, HOWTO section 4; DA_INCR=256 is the library's value, 8 and 1 are run as well).
 */
#include "h4v.h"
#include "h4v_err.h"
#include "dynarray.c"

typedef void *voidp;
#ifdef H4V_CBMC
/* Trusted model of memset for the one use in dynarray.c: zeroing the tail of a pointer array.
 * CBMC 6.11's built-in model (array_set/array_replace on a byte view) gives spurious non-NULL
 * pointers for non-char arrays at a symbolic offset (probed), so the model is: the ghost word g_ms_k (index
 * relative to s; the harness ties it to g_o) becomes NULL, every other word of the region is
 * left arbitrary (havoc) -- an over-approximation of "all words become zero". */
long g_ms_k;
void *
memset(void *s, int c, size_t n)
{
    voidp *p = s;
    size_t w = n / sizeof(voidp);
    __CPROVER_assert(c == 0 && n % sizeof(voidp) == 0, "H4V: memset model domain (zeroing whole pointer slots)");
#if !defined(DA_MS_NOHAVOC) && !defined(H4V_CEX) /* counterexample mode only looks for one concrete input */
    __CPROVER_havoc_slice(s, n);
#endif
    if (0 <= g_ms_k && (size_t)g_ms_k < w)
        p[g_ms_k] = (voidp)0;
    return s;
}
#endif

#ifndef DA_INCR
#define DA_INCR 256
#endif
/* largest index a caller passes: refs are uint16 (the true domain of the sole client) */
#ifndef DA_MAXELEM
#define DA_MAXELEM 65535
#endif
/* largest table that can therefore exist: 65535/incr+1 increments, or the start size */
#ifndef DA_MAXN
#define DA_MAXN (65536 + DA_INCR)
#endif

/* ---- ghost state ----------------------------------------------------------------------
 * g_o  : ghost index ("any other element"); g_ov: the value slot g_o holds on entry (NULL when
 *        g_o lies beyond the table, which is what DAget_elem reports for it).
 * g_ev : the value the addressed slot `elem` holds on entry (NULL when beyond the table).
 * The requires-clauses tie the ghosts to the entry state, so the ensures can speak about old
 * slot values without evaluating __CPROVER_old on a possibly out-of-range index. */
int   g_o;
voidp g_ov;
voidp g_ev;

#define DA_WF(a)                                                                                     \
    ((a)->num_elems >= 0 && (a)->num_elems <= DA_MAXN && (a)->incr_mult == DA_INCR &&                  \
     ((a)->num_elems == 0 || (a)->arr != NULL))
/* what DAget_elem(a, i) denotes for i >= 0 */
#define DA_AT(a, i) ((i) < (a)->num_elems ? (a)->arr[(i)] : (voidp)NULL)
#define DA_GHOSTS_TIED(a, elem)                                                                      \
    (g_o >= 0 && g_o <= DA_MAXELEM + DA_INCR && DA_AT(a, g_o) == g_ov && ((elem) < 0 || DA_AT(a, elem) == g_ev))
/* size after a successful DAset_elem at index e when the old size was n */
#define DA_GROWN(n, e) ((e) < (n) ? (n) : (((e) / DA_INCR) + 1) * DA_INCR)

void *DAget_elem(dynarr_p arr_ptr, int elem)
    __CPROVER_requires(arr_ptr == NULL || DA_WF(arr_ptr))
    __CPROVER_assigns()
    /* negative index / no array: failure value; beyond the table: NULL; else the slot */
    __CPROVER_ensures((elem < 0 || arr_ptr == NULL) ==> __CPROVER_return_value == NULL)
    __CPROVER_ensures((elem >= 0 && arr_ptr != NULL && elem >= arr_ptr->num_elems) ==> __CPROVER_return_value == NULL)
    __CPROVER_ensures((elem >= 0 && arr_ptr != NULL && elem < arr_ptr->num_elems) ==>
                      __CPROVER_return_value == arr_ptr->arr[elem]);

#ifndef DA_NULLCASE
int DAset_elem(dynarr_p arr_ptr, int elem, void *obj)
    __CPROVER_requires(arr_ptr != NULL && DA_WF(arr_ptr) && DA_GHOSTS_TIED(arr_ptr, elem))
    __CPROVER_requires(elem <= DA_MAXELEM)
    __CPROVER_assigns(arr_ptr->num_elems, arr_ptr->arr;
                      arr_ptr->arr != NULL: __CPROVER_object_whole(arr_ptr->arr))
    __CPROVER_frees(arr_ptr->arr != NULL: arr_ptr->arr)
    __CPROVER_ensures(__CPROVER_return_value == SUCCEED || __CPROVER_return_value == FAIL)
    /* negative index => FAIL (property clause) */
    __CPROVER_ensures(elem < 0 ==> __CPROVER_return_value == FAIL)
    /* a failure (bad argument, allocation) leaves the table as it was */
    __CPROVER_ensures(__CPROVER_return_value == FAIL ==>
                      (arr_ptr->num_elems == __CPROVER_old(arr_ptr->num_elems) &&
                       arr_ptr->arr == __CPROVER_old(arr_ptr->arr) && DA_AT(arr_ptr, g_o) == g_ov))
    /* get(set(a,i,v),i) == v */
    __CPROVER_ensures(__CPROVER_return_value == SUCCEED ==>
                      (DA_WF(arr_ptr) && elem < arr_ptr->num_elems && arr_ptr->arr[elem] == obj))
    /* the table grows to the next multiple of incr_mult that contains elem, else keeps its size */
    __CPROVER_ensures(__CPROVER_return_value == SUCCEED ==>
                      arr_ptr->num_elems == DA_GROWN(__CPROVER_old(arr_ptr->num_elems), elem))
    /* every other index reads as before, also across growth (new slots read NULL) */
    __CPROVER_ensures((__CPROVER_return_value == SUCCEED && g_o != elem) ==> DA_AT(arr_ptr, g_o) == g_ov);

void *DAdel_elem(dynarr_p arr_ptr, int elem)
    __CPROVER_requires(arr_ptr != NULL && DA_WF(arr_ptr) && DA_GHOSTS_TIED(arr_ptr, elem))
    __CPROVER_assigns(arr_ptr->arr != NULL: __CPROVER_object_whole(arr_ptr->arr))
    __CPROVER_ensures(elem < 0 ==> __CPROVER_return_value == NULL)
    /* returns the old value of the slot (NULL when beyond the table) ... */
    __CPROVER_ensures(elem >= 0 ==> __CPROVER_return_value == g_ev)
    /* ... clears exactly that slot ... */
    __CPROVER_ensures(elem >= 0 ==> DA_AT(arr_ptr, elem) == NULL)
    /* ... and nothing else (size, storage, any other slot) */
    __CPROVER_ensures(arr_ptr->num_elems == __CPROVER_old(arr_ptr->num_elems) &&
                      arr_ptr->arr == __CPROVER_old(arr_ptr->arr) &&
                      arr_ptr->incr_mult == __CPROVER_old(arr_ptr->incr_mult))
    __CPROVER_ensures(g_o != elem ==> DA_AT(arr_ptr, g_o) == g_ov);
#else /* no array: failure value, nothing touched (kept apart: no old() on NULL) */
int DAset_elem(dynarr_p arr_ptr, int elem, void *obj)
    __CPROVER_requires(arr_ptr == NULL)
    __CPROVER_assigns()
    __CPROVER_ensures(__CPROVER_return_value == FAIL);
void *DAdel_elem(dynarr_p arr_ptr, int elem)
    __CPROVER_requires(arr_ptr == NULL)
    __CPROVER_assigns()
    __CPROVER_ensures(__CPROVER_return_value == NULL);
#endif

int DAsize_array(dynarr_p arr)
    __CPROVER_requires(arr == NULL || DA_WF(arr))
    __CPROVER_assigns()
    __CPROVER_ensures(__CPROVER_return_value == (arr == NULL ? FAIL : arr->num_elems));

dynarr_p DAcreate_array(int start_size, int incr_mult)
    __CPROVER_requires(start_size <= DA_MAXN)
    __CPROVER_requires(g_o >= 0)
    __CPROVER_assigns()
    __CPROVER_ensures((start_size < 0 || incr_mult <= 0) ==> __CPROVER_return_value == NULL)
    /* a new table has the requested size and multiple and every slot reads NULL */
    __CPROVER_ensures(__CPROVER_return_value != NULL ==>
                      (__CPROVER_return_value->num_elems == start_size &&
                       __CPROVER_return_value->incr_mult == incr_mult &&
                       (start_size == 0 || __CPROVER_return_value->arr != NULL) &&
                       DA_AT(__CPROVER_return_value, g_o) == NULL));

#ifdef H4V_NATIVE
#include "h4v_native_wrap.h"
#endif

/* ---------------- harnesses ---------------- */
H4V_DECL_ND(int);
H4V_DECL_ND(voidp);

/* a dynarray as DAcreate_array/DAset_elem leave it: num_elems slots with arbitrary contents */
static dynarr_p
mk_da(int elem)
{
    H4V_HAVOC(int, g_o);
    dynarr_t *a = malloc(sizeof(dynarr_t));
    H4V_ASSUME(a != NULL);
    H4V_ND(int, da_num_elems);
    H4V_ASSUME(da_num_elems >= 0 && da_num_elems <= DA_MAXN);
    a->num_elems = da_num_elems;
    a->incr_mult = DA_INCR;
    a->arr       = NULL;
    if (da_num_elems > 0) {
        H4V_ND_BUF(voidp, da_slots, da_num_elems, 20);
        a->arr = da_slots;
    }
    H4V_ASSUME(g_o >= 0 && g_o <= DA_MAXELEM + DA_INCR);
    g_ov = DA_AT(a, g_o);
    g_ev = elem < 0 ? NULL : DA_AT(a, elem);
#ifdef H4V_CBMC
    g_ms_k = (long)g_o - (long)a->num_elems; /* the ghost slot as the memset model sees it */
#endif
    return a;
}

void
h_da_get(void)
{
    H4V_ND(int, elem);
    H4V_ND(int, null_case);
    dynarr_p a = mk_da(elem);
    if (null_case)
        a = NULL;
    void *r = DAget_elem(a, elem);
    H4V_COVER(r != NULL, "DAget_elem returns a stored pointer");
    H4V_COVER(a != NULL && elem >= a->num_elems, "DAget_elem beyond the table");
    H4V_CANARY("DAget_elem end");
}

/* DA_PATH selects the part of DAset_elem's input space one obligation covers (their union is
   the whole space): 0 = index inside the table or negative; 1 = empty table (calloc path);
   2 = non-empty table, index beyond it (realloc + zeroing path) */
#ifndef DA_PATH
#define DA_PATH 0
#endif
void
h_da_set(void)
{
    H4V_ND(int, elem);
    H4V_ND(voidp, obj);
    H4V_ASSUME(elem <= DA_MAXELEM);
    dynarr_p a  = mk_da(elem);
    int      n0 = a->num_elems;
#ifdef DA_NULLCASE
    a = NULL;
    int r = DAset_elem(a, elem, obj);
#else
#if DA_PATH == 0
    H4V_ASSUME(elem < n0);
#elif DA_PATH == 1
    H4V_ASSUME(elem >= 0 && n0 == 0);
#else
    H4V_ASSUME(n0 > 0 && elem >= n0);
#endif
    int r = DAset_elem(a, elem, obj);
#if DA_PATH == 0
    H4V_COVER(r == SUCCEED && a->num_elems == n0, "DAset_elem in-place path");
    H4V_COVER(r == FAIL, "DAset_elem fail path");
#elif DA_PATH == 1
    H4V_COVER(r == SUCCEED && n0 == 0 && g_o != elem && g_o < a->num_elems, "DAset_elem first allocation");
#else
    H4V_COVER(r == SUCCEED && a->num_elems > n0 && g_o >= n0 && g_o < a->num_elems && g_o != elem,
              "DAset_elem grown, ghost in the new part");
    H4V_COVER(r == SUCCEED && a->num_elems > n0 && g_o < n0, "DAset_elem grown, ghost in the old part");
#endif
#endif
    H4V_CANARY("DAset_elem end");
}

void
h_da_del(void)
{
    H4V_ND(int, elem);
    dynarr_p a = mk_da(elem);
#ifdef DA_NULLCASE
    a = NULL;
#endif
    void *r = DAdel_elem(a, elem);
#ifndef DA_NULLCASE
    H4V_COVER(r != NULL, "DAdel_elem returns the old pointer");
    H4V_COVER(elem >= a->num_elems, "DAdel_elem beyond the table");
    H4V_COVER(elem < 0, "DAdel_elem negative index");
#endif
    H4V_CANARY("DAdel_elem end");
}

void
h_da_size(void)
{
    H4V_ND(int, null_case);
    dynarr_p a = mk_da(-1);
    if (null_case)
        a = NULL;
    int r = DAsize_array(a);
    H4V_COVER(r > 0, "DAsize_array positive");
    H4V_CANARY("DAsize_array end");
}

void
h_da_create(void)
{
    H4V_ND(int, start_size);
    H4V_ND(int, incr_mult);
    H4V_HAVOC(int, g_o);
    H4V_ASSUME(start_size <= DA_MAXN && g_o >= 0);
    dynarr_p a = DAcreate_array(start_size, incr_mult);
    H4V_COVER(a != NULL && start_size > 0, "DAcreate_array with storage");
    H4V_COVER(a != NULL && start_size == 0, "DAcreate_array empty");
    H4V_COVER(a == NULL, "DAcreate_array refused");
    H4V_CANARY("DAcreate_array end");
}

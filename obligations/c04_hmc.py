"""C04: chunked-element access layer of hchunks.c above the index arithmetic (page-in/page-out callbacks of the chunk
cache, whole-chunk access, seek, split of a request over chunks, flush on close)"""
from .core import ob

U = dict(unit="hchunks_api_u.c", file="hdf/src/hchunks.c", objbits=10)
STUBS = ["mcache_get/put/sync/close: logging stubs (mcache.c has its own obligations mcache_*)",
         "tbbtdfind/tbbtdins: the chunk tree as a map chunk number -> record",
         "Hstartread/Hstartwrite/Hread/Hwrite/Hendaccess/Htagnewref/HCcreate/VSwrite: logging stubs, may fail",
         "HDmemfill: num_items copies of the item, modelled on the ghost byte (proved in fill_u.c)"]

for nt in (1, 4):
    ob(f"hmc_chunkread_nt{nt}", "C04", entry="h_HMCPchunkread", enforce="HMCPchunkread", defines=[f"NT={nt}"],
       cex_unwind=20, trusted=STUBS, **U)

# page-out: bounded by the rank only (the record copied to the chunk table has ndims origins)
for nd in (1, 2):
    ob(f"hmc_chunkwrite_d{nd}", "C04", entry="h_HMCPchunkwrite", enforce="HMCPchunkwrite", mode="bounded", bound=f"rank {nd}",
       defines=[f"NDIMS={nd}", "NT=4"], unwind=4, cex_unwind=20, trusted=STUBS, **U)
# NOT registered: -DSTRICT_RETRY (a failed HMCPchunkwrite leaves the chunk record as it was, so that a retry of the still dirty page writes
# the chunk-table row): cbmc finds chk_tag == DFTAG_CHUNK after a failed VSwrite, the counterexample was never replayed natively.  Observation
# in DESIGN 10.11, not a finding.
for nt, dl, cl in ((1, 10, 3), (4, 7, 4), (2, 9, 4)):
    ob(f"hmc_seek_nt{nt}_{dl}_{cl}", "C04", entry="h_HMCPseek", enforce="HMCPseek", mode="bounded",
       bound=f"rank 1, dim_length {dl}, chunk_length {cl}, nt_size {nt}; any offset/origin/position/length",
       defines=[f"NT={nt}", "NDIMS=1", f"DL={dl}", f"CL={cl}"], unwind=3, cex_unwind=20, timeout=120, trusted=STUBS, **U)
CADICAL = ["--sat-solver", "cadical"]  # minisat: no answer in 200 s on these; cadical: 25 s
RC = ["compute_chunk_to_array", "compute_array_to_seek", "update_seek_pos_chunk"]
for nd in (1, 2):
    for fn in ("HMCreadChunk", "HMCwriteChunk"):
        ob(f"hmc_{fn[3:]}_d{nd}", "C04", entry=f"h_{fn}", enforce=fn, mode="bounded", tier="quick" if nd == 1 else "thorough", bound=f"rank {nd}, chunk shape {'6' if nd == 1 else '2x3'} elements of 2 bytes; any chunk grid <= 4095 per dimension, any origin in it",
           defines=[f"NDIMS={nd}", "NT=2", "CSZ=6"], flags=CADICAL, unwind=4, cex_unwind=20, trusted=STUBS, **U)
# free() is a counting stub in these two (nine frees under dfcc: 6 M variables, no answer in 150 s)
ob("hmc_closeAID_flush", "C04", entry="h_HMCPcloseAID", enforce="HMCPcloseAID", defines=["NDIMS=1", "NOFREE"], cex_unwind=20,
   trusted=STUBS + ["free: counting stub"], **U)
# FAILS on the real code: HMCPcloseAID drops the results of mcache_sync and mcache_close (hchunks.c:3398, 3404)
ob("hmc_closeAID_report", ["C04", "C16"], entry="h_HMCPcloseAID", enforce="HMCPcloseAID", defines=["NDIMS=1", "NOFREE", "STRICT_REPORT"],
   cex_unwind=20, trusted=STUBS + ["free: counting stub"], **U)

# split of a request over chunks: constant extents / chunk shapes that do NOT divide the extent; every start position
# (element aligned), every length, any subset of chunks already known to the chunk tree, arbitrary page contents
RW1 = dict(mode="bounded", unwind=6, cex_unwind=70, trusted=STUBS, flags=CADICAL, **U)
for fn in ("HMCPread", "HMCPwrite"):
    ob(f"hmc_{fn[4:]}_1d", "C04", entry=f"h_{fn}", enforce=fn, bound="rank 1: 5 elements of 1 byte in chunks of 2 (3 chunks, last one partial)",
       defines=["NDIMS=1", "NT=1", "D0=1", "C0=1", "D1=5", "C1=2", "MAXCH=3", "PGSZ=2"], tier="thorough", **RW1)
    if fn == "HMCPread":  # (the HMCPwrite variant with 2-byte elements ran cbmc out of memory: not registered)
        ob(f"hmc_{fn[4:]}_1d_nt2", "C04", entry=f"h_{fn}", enforce=fn, tier="thorough",
           bound="rank 1: 7 elements of 2 bytes in chunks of 3 (3 chunks, last one partial)",
           defines=["NDIMS=1", "NT=2", "D0=1", "C0=1", "D1=7", "C1=3"], **RW1)
    # NOT registered (never run to an answer): rank 2, 3x5 elements of 1 byte in chunks of 2x2
    #   defines=["NDIMS=2", "NT=1", "D0=3", "C0=2", "D1=5", "C1=2", "MAXCH=6", "PGSZ=4"], unwind=11

/* D25 (C12): Hdupdd onto an EXISTING tag/ref fails (DFE_DUPDD) as it should, but HTIregister_tag_ref's error cleanup
   destroys the dynarray of the existing tag and leaves the pointer dangling: "duplicating one entry affects no other"
   is violated -- every other object of that tag becomes unreachable / a later call crashes.
   Build: gcc -g D25_hdupdd_existing_pair.c -I/repo/hdf/src -I/repo/_build -L/repo/_build/bin -lhdf -Wl,-rpath,/repo/_build/bin
   Before the fix: crash or wrong Hlength after the failed Hdupdd.  After: PASS. */
#include "hdf.h"
#include <stdio.h>
int main(void)
{
    int32 fid = Hopen("d25.hdf", DFACC_CREATE, 0);
    Hputelement(fid, 600, 1, (const uint8 *)"aaaa", 4);
    Hputelement(fid, 600, 2, (const uint8 *)"bbbbbb", 6);
    intn r = Hdupdd(fid, 600, 2, 600, 1); /* target pair exists */
    printf("Hdupdd onto an existing pair -> %d (FAIL expected)\n", r);
    int32 l1 = Hlength(fid, 600, 1), l2 = Hlength(fid, 600, 2);
    printf("Hlength(600,1) = %d (4 expected), Hlength(600,2) = %d (6 expected)\n", (int)l1, (int)l2);
    Hputelement(fid, 600, 3, (const uint8 *)"cc", 2);
    int32 l3 = Hlength(fid, 600, 3);
    Hclose(fid);
    remove("d25.hdf");
    int bad = !(r == FAIL && l1 == 4 && l2 == 6 && l3 == 2);
    printf(bad ? "FAIL\n" : "PASS\n");
    return bad;
}

"""Mechanical loop-contract injection (insert-only) into a scratch copy of a /repo file.

Table format (loops/<name>.loops):
    file: hdf/src/bitvect.c
    function: bv_find_next_zero loops=1
    loop 1 P
      __CPROVER_assigns(i, tmp_buf)
      __CPROVER_loop_invariant(...)
      __CPROVER_decreases(...)
Must-fire: a missing function, a differing loop count, or an ordinal out of range
raises InjectError (the check then exits 2, never 1).
Every inserted line ends in the marker /*H4V*/ so that strip() restores the original.
"""
import re

MARK = "/*H4V*/"


class InjectError(Exception):
    pass


def parse_loops_file(path):
    spec = {"file": None, "functions": {}, "guard": None}
    cur_f, cur_l = None, None
    for raw in open(path):
        line = raw.rstrip("\n")
        s = line.strip()
        if not s or s.startswith("#"):
            continue
        if s.startswith("file:"):
            spec["file"] = s.split(":", 1)[1].strip()
        elif s.startswith("guard:"):
            # optional: the clauses of this table are wrapped in #ifdef <macro>; only units that #define it see them
            spec["guard"] = s.split(":", 1)[1].strip()
        elif s.startswith("function:"):
            m = re.match(r"function:\s*(\w+)\s+loops=(\d+)", s)
            if not m:
                raise InjectError(f"{path}: bad line {s}")
            cur_f = {"count": int(m.group(2)), "loops": {}, "guard": spec.get("guard")}
            spec["functions"][m.group(1)] = cur_f
            cur_l = None
        elif s.startswith("loop "):
            m = re.match(r"loop\s+(\d+)\s+([PA])", s)
            cur_l = {"cls": m.group(2), "clauses": []}
            cur_f["loops"][int(m.group(1))] = cur_l
        else:
            if "assume" in s:
                raise InjectError(f"{path}: loop tables may only hold assigns/invariant/decreases clauses, not: {s}")
            cur_l["clauses"].append(s)
    return spec


def _tokens(text):
    """yield (kind, value, start, end) for identifiers and punctuation, skipping
    comments, strings, char literals and preprocessor lines"""
    i, n = 0, len(text)
    bol = True
    while i < n:
        c = text[i]
        if c == "\n":
            bol = True
            i += 1
            continue
        if c in " \t\r":
            i += 1
            continue
        if bol and c == "#":
            while i < n:
                j = text.find("\n", i)
                if j < 0:
                    i = n
                    break
                if text[j - 1] == "\\":
                    i = j + 1
                    continue
                i = j
                break
            continue
        bol = False
        if text.startswith("/*", i):
            j = text.find("*/", i + 2)
            i = n if j < 0 else j + 2
            continue
        if text.startswith("//", i):
            j = text.find("\n", i)
            i = n if j < 0 else j
            continue
        if c == '"' or c == "'":
            j = i + 1
            while j < n and text[j] != c:
                if text[j] == "\\":
                    j += 1
                j += 1
            i = j + 1
            continue
        if c.isalpha() or c == "_":
            j = i + 1
            while j < n and (text[j].isalnum() or text[j] == "_"):
                j += 1
            yield ("id", text[i:j], i, j)
            i = j
            continue
        yield ("p", c, i, i + 1)
        i += 1


def find_function(toks, name):
    """index range (body_open_tok, body_close_tok) of the definition of `name`"""
    depth = 0
    k = 0
    while k < len(toks):
        kind, v, s, e = toks[k]
        if kind == "p" and v == "{":
            depth += 1
        elif kind == "p" and v == "}":
            depth -= 1
        elif depth == 0 and kind == "id" and v == name and k + 1 < len(toks) and toks[k + 1][1] == "(":
            # match parens
            j = k + 1
            pd = 0
            while j < len(toks):
                if toks[j][1] == "(":
                    pd += 1
                elif toks[j][1] == ")":
                    pd -= 1
                    if pd == 0:
                        break
                j += 1
            if j + 1 < len(toks) and toks[j + 1][1] == "{":
                o = j + 1
                bd = 0
                m = o
                while m < len(toks):
                    if toks[m][1] == "{":
                        bd += 1
                    elif toks[m][1] == "}":
                        bd -= 1
                        if bd == 0:
                            return o, m
                    m += 1
                raise InjectError(f"unbalanced body of {name}")
        k += 1
    raise InjectError(f"function {name} not found")


def loop_sites(toks, o, c):
    """insertion offsets (character position) for each loop of the body, source order"""
    sites = []
    do_braces = []       # brace depth at which a do-body was opened
    depth = 0
    expect_tail = False
    k = o
    while k <= c:
        kind, v, s, e = toks[k]
        if v == "{":
            depth += 1
        elif v == "}":
            if do_braces and do_braces[-1] == depth:
                do_braces.pop()
                expect_tail = True
            depth -= 1
            k += 1
            continue
        elif kind == "id" and v in ("for", "while"):
            if v == "while" and expect_tail:
                expect_tail = False
                k += 1
                continue
            j = k + 1
            pd = 0
            while j <= c:
                if toks[j][1] == "(":
                    pd += 1
                elif toks[j][1] == ")":
                    pd -= 1
                    if pd == 0:
                        break
                j += 1
            sites.append(toks[j][3])
            k = j + 1
            expect_tail = False
            continue
        elif kind == "id" and v == "do":
            if toks[k + 1][1] != "{":
                raise InjectError("do without braces is not supported")
            sites.append(e)
            do_braces.append(depth + 1)
        if v != "}":
            expect_tail = False
        k += 1
    return sites


def inject(text, spec, errors=None):
    """errors: optional dict; when given, a function whose table no longer fits (missing, loop count changed) is recorded
    there and left un-annotated instead of aborting the whole injection"""
    toks = list(_tokens(text))
    inserts = []
    nloops = 0
    for fname, f in spec["functions"].items():
        try:
            o, c = find_function(toks, fname)
            sites = loop_sites(toks, o, c)
            if len(sites) != f["count"]:
                raise InjectError(f"{fname}: expected {f['count']} loops, source has {len(sites)}")
            mine = []
            for ordn, l in f["loops"].items():
                if not (1 <= ordn <= len(sites)):
                    raise InjectError(f"{fname}: loop ordinal {ordn} out of range")
                lines = list(l["clauses"])
                if f.get("guard"):
                    lines = [f"#ifdef {f['guard']}"] + lines + ["#endif"]
                block = "\n" + "".join(f"{cl} {MARK}\n" for cl in lines)
                mine.append((sites[ordn - 1], block))
        except InjectError as e:
            if errors is None:
                raise
            errors[fname] = str(e)
            continue
        inserts += mine
        nloops += len(mine)
    out = text
    for pos, block in sorted(inserts, reverse=True):
        out = out[:pos] + block + out[pos:]
    return out, nloops


def strip(text):
    return re.sub(r"\n(?:[^\n]*" + re.escape(MARK) + r"\n)+", "", text)

/* Build: gcc D64_hdiff_object_order.c -I/repo/hdf/src -I/repo/mfhdf/src -I/repo/_build -L/repo/_build/bin -lmfhdf -lhdf -lz -ljpeg -lm; then hdiff k4_1.hdf k4_2.hdf: no output, exit 0 on the tree as found although dataset "a" differs */
/* K4: hdiff pairs objects by a merge over UNSORTED lists: the same datasets created in a different order are not compared */
#include "mfhdf.h"
#include <stdio.h>
static void mk(const char *fn, const char *n1, int v1, const char *n2, int v2)
{
    int32 sd = SDstart(fn, DFACC_CREATE), dims[1] = {2}, start[1] = {0}, s;
    int32 d1[2] = {v1, v1}, d2[2] = {v2, v2};
    s = SDcreate(sd, n1, DFNT_INT32, 1, dims); SDwritedata(s, start, NULL, dims, d1); SDendaccess(s);
    s = SDcreate(sd, n2, DFNT_INT32, 1, dims); SDwritedata(s, start, NULL, dims, d2); SDendaccess(s);
    SDend(sd);
}
int main(void)
{
    mk("k4_1.hdf", "b", 1, "a", 2);   /* file 1: b = 1, a = 2 */
    mk("k4_2.hdf", "a", 3, "b", 1);   /* file 2: a = 3 (differs), b = 1 */
    return 0;
}

/* Ghost state referenced by loops/hfiledd_dir.loops (loop contract of Hnewref in hfiledd.c).
 * Every unit that includes the real hfiledd.c must include this header BEFORE it, because the
 * loop contracts of all tables are injected into the one scratch copy of the file. */
#ifndef H4V_HFILEDD_DIR_GHOST_H
#define H4V_HFILEDD_DIR_GHOST_H
/* Abstraction of "which refs are used by some DD" for a linear search from 1: the smallest ref
 * r in 1..65535 such that no DD with tag != DFTAG_NULL has ref r, or 0 if every ref is in use.
 * (Any set of used refs has exactly one such value; refs below it are all used.) */
unsigned g_nr_first_free;
#define H4V_NR_LIMIT (g_nr_first_free == 0 ? 65536u : g_nr_first_free)
/* Hnewref's search loop: every ref below the loop counter is in use */
#define H4V_HNEWREF_INV(i) ((i) <= H4V_NR_LIMIT)
#endif

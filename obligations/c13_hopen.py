"""C13/C14: Hopen (shared file record of repeated opens), the access bits every special start-access function leaves in
the access record, and the whole-chunk write gate of hchunks.c"""
from .core import ob

# ----------------------------------------------------------------------------- hfile.c: Hopen
HO = dict(unit="hopen_u.c", file="hdf/src/hfile.c", entry="h_Hopen", enforce="Hopen", replace=["HIread_version", "HIupdate_version"],
          objbits=10, cex_unwind=6,
          trusted=["two-stream stdio ghost disk (stubs/hopen_stdio.h)",
                   "HAsearch_atom (lookup of the path: finds the shared record iff the harness says so), HAregister_atom/HAremove_atom/"
                   "HAatom_object one-entry registry, HTPstart/HTPinit, HAinit_group, hfile_atexit_create, strdup (units/hopen_u.c)",
                   "HIread_version/HIupdate_version replaced by trusted contracts (units/hopen_u.c): they touch the version fields, the "
                   "seek cache and (the writer) the DD bookkeeping of the record only",
                   "HEpush/HEreport/HEPclear/HEclear (stubs/h4v_err.h)"])
ob("Hopen_again", ["C13"], defines=["H4V_CASE=1"], **HO)
ob("Hopen_upgrade", ["C13"], defines=["H4V_CASE=2"], **HO)
ob("Hopen_upgrade_view", ["C13"], defines=["H4V_CASE=3"], **HO)
ob("Hopen_upgrade_fault", ["C13"], defines=["H4V_CASE=4"], **HO)
ob("Hopen_first", ["C13"], defines=["H4V_CASE=5"], **HO)
ob("Hopen_create", ["C13"], defines=["H4V_CASE=6"], **HO)
ob("Hopen_create_vfail", ["C13"], defines=["H4V_CASE=7"], **HO)
ob("Hopen_args", ["C13"], defines=["H4V_CASE=8"], **HO)

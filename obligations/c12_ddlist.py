"""C12 (and C20 where stated): dynarray.c and the in-memory directory side of hfiledd.c"""
import os
from .core import ob

# ----------------------------------------------------------------------------- dynarray.c
DA = dict(unit="dynarray_u.c", file="hdf/src/dynarray.c", cex_unwind=22, timeout=300, trusted=["HEclear/HEpush (error stack)"])
ob("da_get", "C12", entry="h_da_get", enforce="DAget_elem", **DA)
ob("da_set_inplace", "C12", entry="h_da_set", enforce="DAset_elem", defines=["DA_PATH=0"], **DA)
ob("da_set_first", "C12", entry="h_da_set", enforce="DAset_elem", defines=["DA_PATH=1"], **DA)
# (da_set_grow, the full-domain twin of da_set_grow_b below -- any incr_mult, any table size -- did not finish in 1500 s (cbmc timeout,
#  symbolic-size realloc) and is NOT registered; the growing path of DAset_elem is therefore covered by the bounded obligation only)
ob("da_set_grow_b", "C12", entry="h_da_set", enforce="DAset_elem", defines=["DA_PATH=2", "DA_INCR=8", "DA_MAXELEM=63", "DA_MAXN=64"],
   mode="bounded", bound="incr_mult 8, table <= 64 slots", **DA)
ob("da_set_null", "C12", entry="h_da_set", enforce="DAset_elem", defines=["DA_NULLCASE"], **DA)
ob("da_del", "C12", entry="h_da_del", enforce="DAdel_elem", **DA)
ob("da_del_null", "C12", entry="h_da_del", enforce="DAdel_elem", defines=["DA_NULLCASE"], **DA)
ob("da_size", "C12", entry="h_da_size", enforce="DAsize_array", **DA)
ob("da_create", "C12", entry="h_da_create", enforce="DAcreate_array", **DA)

# ----------------------------------------------------------------------------- hfiledd.c, in-memory directory
HD = dict(unit="hfiledd_dir_u.c", file="hdf/src/hfiledd.c", objbits=10, timeout=600, flags=["--sat-solver", "cadical"],
          backend="cbmc SAT (cadical)",
          trusted=["HEclear/HEpush (error stack)", "HAatom_object (file id -> file record or NULL)",
                   "tbbtdfind/tbbtdins (tag tree = finite map with one modelled key, A-TBBT)"])
ob("hticount_dd_even", "C12", entry="h_count_dd", enforce="HTIcount_dd",
   defines=["H4V_OB_COUNT", "H4V_MAXNDDS=4", "H4V_NDDS_PARITY=0"], mode="bounded",
   bound="<= 2 DD blocks, ndds in {2,4}", unwind=7, cex_unwind=7, **HD)
ob("hticount_dd_odd", "C12", entry="h_count_dd", enforce="HTIcount_dd",
   defines=["H4V_OB_COUNT", "H4V_MAXNDDS=5", "H4V_NDDS_PARITY=1"], mode="bounded",
   bound="<= 2 DD blocks, ndds in {1,3,5}", unwind=7, cex_unwind=7, **HD)
ob("htifind_dd_abs", "C12", entry="h_find_dd_abs", enforce="HTIfind_dd", defines=["H4V_OB_FIND_ABS"],
   mode="bounded", bound="<= 2 DD blocks, ndds <= 3 (abstraction used by hnewref)", unwind=6, cex_unwind=6,
   tier="thorough", **dict(HD, timeout=1800))
ob("hnewref", ["C12", "C20"], entry="h_newref", enforce="Hnewref", replace=["HTIfind_dd"], defines=["H4V_OB_NEWREF"],
   loops=True, nloops=1, loopcls="P", cex_unwind=4, **dict(HD, flags=[], backend="cbmc SAT (minisat2)", timeout=300))

# Contracts that exist in the unit but were NOT decided within the limits of this image (SAT instance of
# 5-19 M clauses: cbmc runs out of the 10 GB ulimit or of 600-900 s).  Registered only on request so that
# they do not turn every thorough run into UNDECIDED:  H4V_C12_HEAVY=1 bin/check C12 --tier thorough
if os.environ.get("H4V_C12_HEAVY"):
    ob("htagnewref", ["C12", "C20"], entry="h_tagnewref", enforce="Htagnewref", defines=["H4V_OB_TAGNEWREF"],
       loops=True, nloops=1, loopcls="A", cex_unwind=66, tier="thorough", **dict(HD, timeout=1800))
    for _d, _dn in ((1, "fwd"), (2, "bwd")):
        ob(f"htifind_dd_{_dn}_wild", "C12", entry="h_find_dd", enforce="HTIfind_dd",
           defines=["H4V_OB_FIND", f"H4V_DIRECTION={_d}", "H4V_EXACT=0", "H4V_DDLIST_MAXALLOC"], mode="bounded",
           bound=f"<= 2 DD blocks, ndds <= 3, direction {_dn}, wildcard shapes (tag, ref or both wild)", unwind=6, cex_unwind=6,
           tier="thorough", **dict(HD, timeout=3600))
    ob("htifind_dd_fwd_wild2", "C12", entry="h_find_dd", enforce="HTIfind_dd",
       defines=["H4V_OB_FIND", "H4V_DIRECTION=1", "H4V_EXACT=0", "H4V_MAXNDDS=2", "H4V_DDLIST_MAXALLOC"], mode="bounded",
       bound="<= 2 DD blocks, ndds <= 2, forward, wildcard shapes", unwind=4, cex_unwind=4, tier="thorough", **dict(HD, timeout=3600))
    ob("htifind_dd_exact", "C12", entry="h_find_dd", enforce="HTIfind_dd", defines=["H4V_OB_FIND", "H4V_EXACT=1", "H4V_DDLIST_MAXALLOC"], mode="bounded",
       bound="<= 2 DD blocks, ndds <= 3, both directions, exact (tag, ref); ref table of 64 or 256 slots", unwind=6, cex_unwind=6,
       tier="thorough", **dict(HD, timeout=3600))
    ob("htiregister_existing", "C12", entry="h_register", enforce="HTIregister_tag_ref", defines=["H4V_OB_REGISTER"],
       mode="bounded", bound="tag already in the tree, ref inside the current ref table (no table growth)", unwind=3, cex_unwind=66,
       tier="thorough", **dict(HD, timeout=1800))
    ob("htiunregister", "C12", entry="h_register", enforce="HTIunregister_tag_ref", defines=["H4V_OB_UNREGISTER"],
       mode="bounded", bound="ref inside the current ref table", unwind=3, cex_unwind=66, tier="thorough", **dict(HD, timeout=1800))

"""C03 (fill values): HDmemfill, NC_arrayfill, NC_fill_buffer, SDsetfillmode"""
from .core import ob

MF = dict(unit="fill_u.c", file="hdf/src/hdfalloc.c", objbits=8, cex_unwind=8)
for w, n in ((1, 32), (2, 24), (4, 12), (8, 6), (3, 9), (0, 12)):
    ob(f"HDmemfill_w{w}", "C03", entry="h_HDmemfill", enforce="HDmemfill", mode="bounded",
       bound=f"item size {w} bytes, at most {n} items (doubling loop unwound); pattern in its own object or directly in front of dest",
       unwind=8, defines=[f"FILL_W={w}", f"FILL_N={n}"], **MF)

AF = dict(unit="fill_arr_u.c", file="mfhdf/src/array.c", objbits=8, cex_unwind=10)
for t, n in (("NC_BYTE", 16), ("NC_CHAR", 16), ("NC_SHORT", 8), ("NC_LONG", 6), ("NC_FLOAT", 6), ("NC_DOUBLE", 4),
             ("NC_UNSPECIFIED", 16)):
    ob(f"NC_arrayfill_{t[3:].lower()}", "C03", entry="h_NC_arrayfill", enforce="H4_NC_arrayfill", mode="bounded",
       bound=f"type {t}, at most {n} elements (element loop unwound / memset length <= 16)", unwind=n + 2,
       defines=[f"ARR_T={t}", f"ARR_N={n}"], **AF)

# NC_fill_buffer: which fill has the last word on the read buffer.  On the tree as found this FAILS (dangling else at
# putget.c:1848-1855): with a _FillValue attribute the default fill is applied on top of the user value, without one
# the buffer is not filled at all.
ob("NC_fill_buffer", "C03", unit="fill_buf_u.c", file="mfhdf/src/putget.c", entry="h_NC_fill_buffer", enforce="NC_fill_buffer",
   mode="bounded", bound="rank 0..2, edges 0..4, element size 4 (HDmemfill / NC_arrayfill: argument-checking stubs, proved separately)",
   unwind=4, cex_unwind=4, defines=["FB_W=4"], objbits=8, trusted=["NC_hlookupvar", "NC_findattr"])

/* Verification unit: hdf/src/dfan.c (C11: reading object labels / descriptions through the single-file interface)
 *   DFANIgetannlen  stored length minus the 4-byte target tag/ref prefix
 *   DFANIgetann     descriptions: min(text, maxlen) bytes, byte for byte, NO terminator slot taken;
 *                   labels (C): min(text, maxlen-1) bytes plus a terminator; never more than maxlen bytes
 *                   written; every access id and the file are closed again
 * H layer: trusted stubs over one ghost element (the stubs of mfan_u.c, copied).  DFANIopen and
 * DFANIlocate (same file) are replaced by ASSUMED contracts.
 */
#include "h4v.h"
#include "h4v_err.h"
#include <string.h>
#include "hdf_priv.h"
#include "dfan_priv.h"
#include "hfile_priv.h"

#define H4V_AID 0x30001
#define H4V_ELEM_CAP 12 /* counterexample mode only */
static uint8 *g_elem;
static int32  g_stored;   /* element length, any value >= 0 */
static int32  g_file;     /* id DFANIopen hands out */
static uint16 g_tag, g_ref; /* the annotation element: tag of the kind, ref DFANIlocate found */
static uint16 g_annref;   /* what DFANIlocate returns (0: the object has no such annotation) */
static int32  g_posn;
static int    g_open;     /* open aids (0/1) */
static int    g_nstart;
static int    g_fopen;    /* open files (0/1) */
static int    g_nopen;    /* DFANIopen calls */
static int    g_zero_req; /* a zero-length Hread that was NOT harmless was issued */
int32         g_k;        /* ghost index into the text */
int32         g_o;        /* ghost index into the caller's buffer */
static uint8 *g_annbuf;
static int32  g_t;        /* index of the terminator */
static int    g_hfail;    /* a layer below refused although the request was legal */
static int    g_endfail;
static int    g_excl_hlen; /* harness switch: Hlength does not fail */
typedef unsigned char h4v_u8;
h4v_u8 nondet_h4v_u8(void);

H4V_DECL_ND(int32);
H4V_DECL_ND(int);
H4V_DECL_ND(uint16);

int
HPregister_term_func(hdf_termfunc_t term_func)
{
    (void)term_func;
    H4V_ND(int, register_fails);
    if (register_fails) {
        g_hfail = 1;
        return -1;
    }
    return 0;
}

int32
Hstartread(int32 file_id, uint16 tag, uint16 ref)
{
    H4V_ND(int, hstartread_fails);
    H4V_CHECK(g_open == 0, "Hstartread: no aid is open yet");
    H4V_CHECK(file_id == g_file && g_fopen == 1, "Hstartread: in the open file");
    if (tag != g_tag || (ref != g_ref && ref != DFREF_WILDCARD))
        return FAIL; /* no such element: the caller asked for the wrong one (a wildcard ref finds the first = the modelled one) */
    if (hstartread_fails) {
        g_hfail = 1;
        return FAIL;
    }
    g_open = 1;
    g_nstart++;
    g_posn = 0;
    return H4V_AID;
}

int
Hinquire(int32 access_id, int32 *pfile_id, uint16 *ptag, uint16 *pref, int32 *plength, int32 *poffset,
         int32 *pposn, int16 *paccess, int16 *pspecial)
{
    H4V_ND(int, hinquire_fails);
    H4V_CHECK(access_id == H4V_AID && g_open == 1, "Hinquire: on the open aid");
    if (hinquire_fails) {
        g_hfail = 1;
        return FAIL;
    }
    if (pfile_id)
        *pfile_id = g_file;
    if (ptag)
        *ptag = g_tag;
    if (pref)
        *pref = g_ref;
    if (plength)
        *plength = g_stored;
    if (poffset)
        *poffset = 0;
    if (pposn)
        *pposn = g_posn;
    if (paccess)
        *paccess = DFACC_READ;
    if (pspecial)
        *pspecial = 0;
    return SUCCEED;
}

int32
Hlength(int32 file_id, uint16 tag, uint16 ref)
{
    H4V_ND(int, hlength_fails);
    H4V_CHECK(file_id == g_file && g_fopen == 1, "Hlength: in the open file");
    if (tag != g_tag || ref != g_ref)
        return FAIL;
    if (hlength_fails && !g_excl_hlen) {
        g_hfail = 1;
        return FAIL;
    }
    return g_stored;
}

/* Hread as hfile.c defines it for an ordinary element: length < 0 fails; length == 0 or length beyond
   the end means "read to the end of the element"; returns the count read. */
int32
Hread(int32 access_id, int32 length, void *data)
{
    int32 n;
    H4V_ND(int, hread_fails);
    H4V_CHECK(access_id == H4V_AID && g_open == 1, "Hread: on the open aid");
    if (data == NULL || length < 0)
        return FAIL; /* the caller's fault, not an H-layer failure */
    if (hread_fails) {
        g_hfail = 1;
        return FAIL;
    }
    n = length;
    if (length == 0 || length > g_stored - g_posn)
        n = g_stored - g_posn;
    if (length == 0 && n > 0)
        g_zero_req = 1;
    H4V_CHECK(!(length == 0 && n > 0), "Hread(aid,0,buf) issued although bytes remain: reads to the END of the element");
#if defined(H4V_CBMC) && !defined(H4V_CEX) && !defined(H4V_FULLCOPY)
    /* proof mode, sparse model of the n-byte transfer: first and last byte of the destination range
       are written (bounds, frame), the byte of the ghost text index g_k receives the stored value, every
       other byte a clause observes (g_o, g_t) an arbitrary value */
    if (n > 0) {
        ((uint8 *)data)[0]     = nondet_h4v_u8();
        ((uint8 *)data)[n - 1] = nondet_h4v_u8();
        if ((uint8 *)data == g_annbuf) {
            if (g_o >= 0 && g_o < n)
                ((uint8 *)data)[g_o] = nondet_h4v_u8();
            if (g_t >= 0 && g_t < n)
                ((uint8 *)data)[g_t] = nondet_h4v_u8();
        }
        if (g_posn <= g_stored - 1 && n - 1 <= g_stored - 1 - g_posn) {
            if (g_k >= 0 && g_k <= g_stored - 1 - 4 && g_k + 4 >= g_posn && g_k + 4 - g_posn < n)
                ((uint8 *)data)[g_k + 4 - g_posn] = g_elem[g_k + 4];
        }
    }
#else
    for (int32 i = 0; i < n; i++)
        ((uint8 *)data)[i] = g_elem[g_posn + i];
#endif
    g_posn += n;
    return n;
}

/* hfile.c Hnextread(aid, tag, DFREF_WILDCARD, DF_CURRENT): moves the aid to the next element of the tag, if there is one
   (ghost: g_has_next / g_next_ref / g_next_stored, chosen by the harness) */
static int    g_has_next;
static uint16 g_next_ref;
static int32  g_next_stored;
static uint16 g_read_ref; /* ref of the element the aid was on when Hread was called last */
static int    g_nnext;
int
Hnextread(int32 access_id, uint16 tag, uint16 ref, int origin)
{
    H4V_CHECK(access_id == H4V_AID && g_open == 1, "Hnextread: on the open aid");
    H4V_CHECK(tag == g_tag && ref == DFREF_WILDCARD && origin == DF_CURRENT, "Hnextread: the next element of the same tag");
    g_nnext++;
    if (!g_has_next)
        return FAIL; /* there is no further element: not a failure of the layer */
    g_ref      = g_next_ref;
    g_stored   = g_next_stored;
    g_posn     = 0;
    g_has_next = 0;
    return SUCCEED;
}

int
Hendaccess(int32 access_id)
{
    H4V_ND(int, hendaccess_fails);
    H4V_CHECK(access_id == H4V_AID && (g_open == 1 || g_endfail), "Hendaccess: on the open aid");
    g_open = 0;
    if (hendaccess_fails) {
        g_hfail   = 1;
        g_endfail = 1;
        return FAIL;
    }
    return SUCCEED;
}

int
Hclose(int32 file_id)
{
    H4V_ND(int, hclose_fails);
    H4V_CHECK(file_id == g_file && g_fopen == 1, "Hclose: the open file, once");
    g_fopen = 0;
    if (hclose_fails) {
        g_hfail = 1;
        return FAIL;
    }
    return SUCCEED;
}

/* Only reached in the native replay, where the REAL DFANIopen / DFANIlocate run (in the proof they are
   replaced by their assumed contracts): the file opens, the directory is pre-built by the harness */
int32
Hopen(const char *path, int acc_mode, int16 ndds)
{
    (void)path;
    (void)acc_mode;
    (void)ndds;
    g_nopen++;
    g_fopen = 1;
    return g_file;
}

char *
HIstrncpy(char *dest, const char *source, int len)
{
    char *d = dest;
    if (len == 0)
        return dest;
    for (; len > 1 && *source != '\0'; len--)
        *d++ = *source++;
    *d = '\0';
    return dest;
}

#include "dfan.c"

/* ------------------------------------------------------------------------------------------ */
/* ASSUMED: opens the file (id g_file) or fails */
static int32 DFANIopen(const char *filename, int acc_mode)
    __CPROVER_requires(filename != NULL && acc_mode == DFACC_READ && g_fopen == 0)
    __CPROVER_assigns(g_fopen, g_nopen, g_hfail)
    __CPROVER_ensures(__CPROVER_return_value == FAIL || __CPROVER_return_value == g_file)
    __CPROVER_ensures(g_nopen == __CPROVER_old(g_nopen) + 1)
    __CPROVER_ensures(__CPROVER_return_value == FAIL ? (g_hfail == 1 && g_fopen == 0) : (g_fopen == 1 && g_hfail == __CPROVER_old(g_hfail)));

/* ASSUMED: the ref of the annotation of this kind attached to tag/ref (0: none) */
uint16 DFANIlocate(int32 file_id, int type, uint16 tag, uint16 ref)
    __CPROVER_requires(file_id == g_file && g_fopen == 1 && (type == DFAN_LABEL || type == DFAN_DESC) && tag != 0 && ref != 0)
    __CPROVER_assigns()
    __CPROVER_ensures(__CPROVER_return_value == g_annref);

#define GA_IS_CLABEL(type, isfortran) ((type) == DFAN_LABEL && !(isfortran))
#define GA_TEXTLEN (g_stored - 4)
/* room for text: a C label needs one byte for the terminator, a description (and Fortran) none */
#define GA_ROOM(maxlen, type, isfortran) (GA_IS_CLABEL(type, isfortran) ? (maxlen)-1 : (maxlen))
#define GA_NCOPY(maxlen, type, isfortran)                                                            \
    (GA_TEXTLEN < GA_ROOM(maxlen, type, isfortran) ? GA_TEXTLEN : GA_ROOM(maxlen, type, isfortran))
#define GA_ARGS_OK(ann, tag, ref) ((ann) != NULL && (tag) != 0 && (ref) != 0)

int32 DFANIgetannlen(const char *filename, uint16 tag, uint16 ref, int type)
    __CPROVER_requires(filename != NULL && (type == DFAN_LABEL || type == DFAN_DESC))
    __CPROVER_requires(g_stored >= 0 && g_fopen == 0 && g_nopen == 0 && g_hfail == 0 && g_open == 0)
    __CPROVER_assigns(g_fopen, g_nopen, g_hfail, Lastref, library_terminate)
    /* stored length minus the 4-byte prefix, or FAIL */
    __CPROVER_ensures(__CPROVER_return_value == FAIL || __CPROVER_return_value == GA_TEXTLEN)
    __CPROVER_ensures((tag == 0 || ref == 0) ==> (__CPROVER_return_value == FAIL && g_nopen == 0))
    __CPROVER_ensures(g_fopen == 0 && g_nopen <= 1)
    __CPROVER_ensures((tag != 0 && ref != 0 && g_annref != 0 && !g_hfail) ==> __CPROVER_return_value == GA_TEXTLEN)
    __CPROVER_ensures((__CPROVER_return_value != FAIL && g_nopen == 1) ==> Lastref == g_annref);

int DFANIgetann(const char *filename, uint16 tag, uint16 ref, uint8 *ann, int32 maxlen, int type, int isfortran)
    __CPROVER_requires(filename != NULL && (type == DFAN_LABEL || type == DFAN_DESC) && maxlen >= 0)
    __CPROVER_requires(g_stored >= 0 && g_fopen == 0 && g_nopen == 0 && g_hfail == 0 && g_open == 0 && g_nstart == 0 && g_zero_req == 0 && g_endfail == 0)
    /* frame: ONLY the caller's maxlen bytes */
    __CPROVER_assigns(ann != NULL && maxlen > 0: __CPROVER_object_upto(ann, (__CPROVER_size_t)maxlen);
                      g_fopen, g_nopen, g_hfail, g_open, g_nstart, g_posn, g_zero_req, g_endfail, Lastref, library_terminate)
    __CPROVER_ensures(__CPROVER_return_value == SUCCEED || __CPROVER_return_value == FAIL)
    /* every access id and the file are closed again, on success and on failure */
    __CPROVER_ensures(g_open == 0 && g_fopen == 0 && g_nstart <= 1 && g_nopen <= 1)
    __CPROVER_ensures(!GA_ARGS_OK(ann, tag, ref) ==> (__CPROVER_return_value == FAIL && g_nopen == 0))
    /* no failure without a reason: no such annotation, a layer below failed, no room for the terminator, malformed element */
    __CPROVER_ensures((GA_ARGS_OK(ann, tag, ref) && g_annref != 0 && !g_hfail && GA_ROOM(maxlen, type, isfortran) >= 0 && GA_TEXTLEN >= 0) ==>
                      __CPROVER_return_value == SUCCEED)
    /* success: text byte g_k (after the 4-byte prefix) is in ann[g_k] -- for a description with
       maxlen == text length that is EVERY byte of the text */
    __CPROVER_ensures((__CPROVER_return_value == SUCCEED && g_k >= 0 && g_k < GA_NCOPY(maxlen, type, isfortran)) ==> ann[g_k] == g_elem[4 + g_k])
    /* success: C labels are NUL-terminated right after the copied text */
    __CPROVER_ensures((__CPROVER_return_value == SUCCEED && GA_IS_CLABEL(type, isfortran)) ==>
                      (GA_NCOPY(maxlen, type, isfortran) >= 0 && GA_NCOPY(maxlen, type, isfortran) < maxlen && ann[GA_NCOPY(maxlen, type, isfortran)] == 0))
    __CPROVER_ensures(__CPROVER_return_value == SUCCEED ==> Lastref == g_annref)
    /* a request for 0 bytes must never reach Hread as length 0 ("to the end") */
    __CPROVER_ensures(g_zero_req == 0);

#ifdef H4V_NATIVE
#include "h4v_native_wrap.h"
#endif

/* ---------------- harnesses ---------------- */
static void
mk_env(int type)
{
    H4V_HAVOC(int32, g_k);
    H4V_HAVOC(int32, g_o);
    H4V_HAVOC(int32, g_file);
    H4V_HAVOC(int32, g_stored);
    H4V_HAVOC(uint16, g_annref);
    H4V_ASSUME(g_stored >= 0 && g_file != FAIL);
    g_open = g_nstart = g_zero_req = g_hfail = g_endfail = g_fopen = g_nopen = 0;
    g_posn                                                                  = 0;
    H4V_ND_BUF(h4v_u8, elem, g_stored, H4V_ELEM_CAP);
    g_elem = elem;
    /* the element that holds the annotation: tag of the kind, ref as located */
    g_tag = (uint16)(type == DFAN_LABEL ? DFTAG_DIL : DFTAG_DIA);
    g_ref = g_annref;
}

#ifdef H4V_NATIVE
/* native replay: the directory the real DFANIlocate searches holds what the assumed contract says */
static void
mk_native_dir(int type, uint16 tag, uint16 ref)
{
    DFANdirhead *h = malloc(sizeof(DFANdirhead));
    h->entries     = malloc(sizeof(DFANdirentry));
    h->next        = NULL;
    h->nentries    = 1;
    h->entries[0].annref  = g_annref;
    h->entries[0].datatag = tag;
    h->entries[0].dataref = ref;
    DFANdir[type]         = h;
    /* the same file as "last time": DFANIopen keeps the directory */
    Lastfile    = malloc(DF_MAXFNLEN + 1);
    Lastfile[0] = 'f';
    Lastfile[1] = '\0';
}
#else
#define mk_native_dir(type, tag, ref) ((void)0)
#endif

static int32 l_type, l_r;
static void
getannlen_body(int with_hlength_failure)
{
    H4V_ND(int, type);
    H4V_ND(uint16, tag);
    H4V_ND(uint16, ref);
    H4V_ASSUME(type == DFAN_LABEL || type == DFAN_DESC);
    mk_env(type);
    static char fn[2] = {'f', 0};
    mk_native_dir(type, tag, ref);
    l_type      = type;
    g_excl_hlen = !with_hlength_failure;
    l_r         = DFANIgetannlen(fn, tag, ref, type);
}

/* full domain: FAILS -- when Hlength fails the function returns -5 (FAIL - 4 is not recognised as FAIL) */
void
h_DFANIgetannlen(void)
{
    getannlen_body(1);
    H4V_COVER(l_r == FAIL, "getannlen fail");
    H4V_COVER(l_r != FAIL && l_type == DFAN_DESC, "getannlen description");
    H4V_CANARY("DFANIgetannlen end");
}

static int32 a_maxlen, a_type, a_fortran, a_r;
static void
getann_body(int exclude_zero_room)
{
    H4V_ND(int, type);
    H4V_ND(int, isfortran);
    H4V_ND(uint16, tag);
    H4V_ND(uint16, ref);
    H4V_ND(int32, maxlen);
    H4V_ND(int, ann_null);
    H4V_ASSUME(type == DFAN_LABEL || type == DFAN_DESC);
    H4V_ASSUME(maxlen >= 0);
    mk_env(type);
    /* the room clamps the transfer to 0 bytes although text is stored (C label with maxlen == 1,
       description with maxlen == 0) */
    if (exclude_zero_room)
        H4V_ASSUME(!(GA_ROOM(maxlen, type, isfortran) == 0 && GA_TEXTLEN > 0));
    H4V_ND_BUF(h4v_u8, ann, maxlen, H4V_ELEM_CAP);
    H4V_ASSUME(g_o >= 0);
    g_annbuf      = ann;
    g_t           = GA_NCOPY(maxlen, type, isfortran);
    h4v_u8 old_o  = g_o < maxlen ? ann[g_o] : 0;
    static char fn[2] = {'f', 0};
    mk_native_dir(type, tag, ref);
    int r = DFANIgetann(fn, tag, ref, ann_null ? NULL : ann, maxlen, type, isfortran);
    /* nothing but the text (and the terminator of a C label) is touched */
    H4V_CHECK(!(r == SUCCEED && g_o < maxlen && g_o >= GA_NCOPY(maxlen, type, isfortran) + (GA_IS_CLABEL(type, isfortran) ? 1 : 0)) || ann[g_o] == old_o,
              "DFANIgetann: bytes of ann beyond the text/terminator are unchanged");
    H4V_CHECK(!(r == FAIL && g_nstart == 0 && g_o < maxlen) || ann[g_o] == old_o, "DFANIgetann: buffer untouched when the element could not be opened");
    a_maxlen  = maxlen;
    a_type    = type;
    a_fortran = isfortran;
    a_r       = r;
}

/* all inputs (FAILS on the zero-room inputs: Hread(aid, 0, ann) copies the whole text) */
void
h_DFANIgetann(void)
{
    getann_body(0);
    H4V_CANARY("DFANIgetann end");
}

/* the same contract on the complement of the zero-room inputs */
void
h_DFANIgetann_room(void)
{
    getann_body(1);
    H4V_COVER(a_r == FAIL, "getann fail");
    H4V_COVER(a_r == SUCCEED && a_type == DFAN_DESC && GA_TEXTLEN == a_maxlen && a_maxlen > 2, "getann description, maxlen == length: all bytes");
    H4V_COVER(a_r == SUCCEED && a_type == DFAN_DESC && GA_TEXTLEN > a_maxlen, "getann description truncated");
    H4V_COVER(a_r == SUCCEED && a_type == DFAN_LABEL && !a_fortran && GA_TEXTLEN > a_maxlen - 1, "getann C label truncated");
    H4V_COVER(a_r == SUCCEED && a_type == DFAN_LABEL && a_fortran && GA_TEXTLEN == a_maxlen, "getann Fortran label, no terminator");
    H4V_COVER(a_r == SUCCEED && a_type == DFAN_LABEL && !a_fortran && a_maxlen > 1 && GA_TEXTLEN == 0, "getann empty label");
    H4V_CANARY("DFANIgetann (room) end");
}

/* DFANIgetannlen without the Hlength-failure inputs */
void
h_DFANIgetannlen_ok(void)
{
    getannlen_body(0);
    H4V_COVER(l_r == FAIL, "getannlen fail");
    H4V_COVER(l_r != FAIL && l_type == DFAN_DESC, "getannlen description");
    H4V_CANARY("DFANIgetannlen (ok) end");
}


/* ------------------------------------------------------------------------------------------
 * DFANIgetfann: the single-file interface's enumeration of file labels / file descriptions.  Two cursors (Next_label_ref,
 * Next_desc_ref), one per kind: reading an annotation of one kind moves ONLY that kind's cursor -- to the ref of the next
 * annotation of the kind, or past the last one -- so that interleaved listings of labels and descriptions do not disturb
 * each other (C11: listing returns exactly the annotations that exist).
 * A-MAXLEN: the caller's buffer has room for the terminator (maxlen >= 1).
 * ------------------------------------------------------------------------------------------ */
int32 DFANIgetfann(int32 file_id, char *ann, int32 maxlen, int type, int isfirst)
    __CPROVER_requires(maxlen >= 1 && __CPROVER_is_fresh(ann, (size_t)maxlen))
    __CPROVER_requires(file_id == g_file && g_fopen == 1 && g_open == 0 && g_hfail == 0 && g_endfail == 0 && g_nnext == 0)
    __CPROVER_requires(g_stored >= 0 && g_tag == (type == DFAN_LABEL ? DFTAG_FID : DFTAG_FD))
    __CPROVER_assigns(type == DFAN_LABEL: Next_label_ref; type != DFAN_LABEL: Next_desc_ref;
                      __CPROVER_object_upto(ann, (size_t)maxlen), Lastref, library_terminate, g_open, g_nstart, g_posn, g_ref, g_stored, g_has_next, g_nnext, g_hfail, g_endfail, g_zero_req, g_read_ref)
    __CPROVER_ensures(__CPROVER_return_value == FAIL || (__CPROVER_return_value >= 0 && __CPROVER_return_value <= maxlen - 1))
    __CPROVER_ensures(__CPROVER_return_value != FAIL ==> ann[__CPROVER_return_value] == 0)
    /* every access id is closed again */
    __CPROVER_ensures(g_open == 0)
    /* the cursor of THIS kind: the next annotation of the kind, or one past the last */
    __CPROVER_ensures((__CPROVER_return_value != FAIL && type == DFAN_LABEL) ==>
                      Next_label_ref == (g_nnext == 1 && g_ref != g_read_ref ? g_ref : (uint16)(__CPROVER_old(Next_label_ref) + 1)))
    __CPROVER_ensures((__CPROVER_return_value != FAIL && type != DFAN_LABEL) ==>
                      Next_desc_ref == (g_nnext == 1 && g_ref != g_read_ref ? g_ref : (uint16)(__CPROVER_old(Next_desc_ref) + 1)))
    __CPROVER_ensures(__CPROVER_return_value != FAIL ==> Lastref == g_read_ref);

void
h_DFANIgetfann(void)
{
    H4V_HAVOC(int32, g_file);
    H4V_HAVOC(int32, g_stored);
    H4V_HAVOC(uint16, g_ref);
    H4V_ND(int, type);
    H4V_ND(int, isfirst);
    H4V_ND(int32, maxlen);
    H4V_ND(int, has_next);
    H4V_ND(uint16, next_ref);
    H4V_ND(int32, next_stored);
    H4V_ND(uint16, cur_l);
    H4V_ND(uint16, cur_d);
    H4V_ASSUME(g_stored >= 0 && next_stored >= 0 && maxlen >= 1 && g_ref != 0 && next_ref != 0 && next_ref != g_ref);
    g_tag         = (uint16)(type == DFAN_LABEL ? DFTAG_FID : DFTAG_FD);
    g_fopen       = 1;
    g_open        = 0;
    g_hfail = g_endfail = g_nnext = g_zero_req = g_nstart = 0;
    g_has_next    = has_next != 0;
    g_next_ref    = next_ref;
    g_next_stored = next_stored;
    g_read_ref    = g_ref; /* the modelled element is the one a first / cursor read lands on */
    g_k = g_o = g_t = -1;
    g_annbuf      = NULL;
    g_elem        = NULL;
    Next_label_ref = cur_l;
    Next_desc_ref  = cur_d;
    /* a non-first read continues at the cursor: the modelled element is the one the cursor names */
    H4V_ASSUME(isfirst == 1 || g_ref == (type == DFAN_LABEL ? cur_l : cur_d));
    char *ann = malloc((size_t)maxlen);
    H4V_ASSUME(ann != NULL);
    int32 r = DFANIgetfann(g_file, ann, maxlen, type, isfirst);
    H4V_COVER(r != FAIL && type == DFAN_LABEL && has_next, "getfann: label with a successor");
    H4V_COVER(r != FAIL && type != DFAN_LABEL && !has_next, "getfann: last description");
    H4V_COVER(r == FAIL && g_hfail, "getfann: a layer fails");
    H4V_CANARY("DFANIgetfann end");
}

/* Verification unit: mfhdf/src/putget.c (C03: SDS hyperslabs -- coordinate check, offsets,
   contiguity, odometer).  Only the HDF_FILE file type and the SD API entry (cdf_routine_name
   "SDreaddata"/"SDwritedata") are modelled; netCDF/CDF file types are outside C03. */
#include "h4v.h"
#include "h4v_err.h"
#include "nc_priv.h"
#include "putget_pred.h"

/* ------------------------------------------------------------------ ghost state */
int  g_d;        /* ghost dimension index: a proof for arbitrary g_d is a proof for all */
int  g_nr0;      /* vp->numrecs at entry (used by the fill-loop invariant) */
int  g_hw_n;     /* Hwrite calls */
int  g_hw_ok;    /* successful Hwrite calls */
int  g_seek_n;   /* Hseek calls */
int  g_seek_off; /* offset of the last Hseek */
int  g_iofail;   /* some stubbed I/O or allocation step reported failure */
int  g_anybad;   /* harness-computed: the request is invalid (existential over dimensions) */
int32 g_aid;     /* the access id the variable is attached with */
int32 g_reclen;  /* expected fill-record length */

H4V_DECL_ND(int);
H4V_DECL_ND(int32);
H4V_DECL_ND(unsigned);
H4V_DECL_ND(h4v_long);
H4V_DECL_ND(h4v_ulong);

/* ------------------------------------------------------------------ trusted stubs */
void NCadvise(int err, const char *fmt, ...) {}
void nc_serror(const char *fmt, ...) {}

#ifdef H4V_CBMC
/* libc strstr as used by nc_API(): needle is "nc"; only `result == haystack` is looked at */
char *
strstr(const char *h, const char *n)
{
    H4V_CHECK(n[0] == 'n' && n[1] == 'c' && n[2] == 0, "strstr stub: needle is \"nc\"");
    if (h[0] == 'n' && h[1] == 'c')
        return (char *)h;
    return NULL;
}
#endif

int
Hseek(int32 access_id, int32 offset, int origin)
{
    H4V_CHECK(access_id == g_aid && access_id != FAIL, "Hseek on the variable's aid");
    H4V_CHECK(origin == DF_START, "Hseek from start");
    g_seek_n++;
    g_seek_off = offset;
    H4V_ND(int, seek_fail);
    if (seek_fail) {
        g_iofail = 1;
        return FAIL;
    }
    return SUCCEED;
}

int32
Hwrite(int32 access_id, int32 length, const void *data)
{
    H4V_CHECK(access_id == g_aid && access_id != FAIL, "Hwrite on the variable's aid");
    H4V_CHECK(length == g_reclen, "fill record has the record length");
    H4V_CHECK(data != NULL, "Hwrite data");
    g_hw_n++;
    H4V_ND(int, hwrite_fail);
    if (hwrite_fail) {
        g_iofail = 1;
        return FAIL;
    }
    g_hw_ok++;
    return length;
}

int32
DFKconvert(void *source, void *dest, int32 ntype, int32 num_elm, int16 acc_mode, int32 source_stride,
           int32 dest_stride)
{
    H4V_CHECK(source != NULL && dest != NULL, "DFKconvert buffers");
    H4V_ND(int, conv_fail);
    if (conv_fail) {
        g_iofail = 1;
        return FAIL;
    }
    return SUCCEED;
}

void *
HDmemfill(void *dest, const void *src, uint32 item_size, uint32 num_items)
{
    H4V_CHECK(dest != NULL && src != NULL, "HDmemfill buffers");
    return dest;
}

void
NC_arrayfill(void *lo, size_t len, nc_type type)
{
    H4V_CHECK(lo != NULL, "NC_arrayfill buffer");
}

static NC_attr  *g_attr;  /* a _FillValue attribute (or none) */
static NC_attr **g_attrp;
NC_attr **
NC_findattr(NC_array **ap, const char *name)
{
    H4V_ND(int, have_fill_attr);
    if (have_fill_attr)
        return g_attrp;
    return NULL;
}

int
DFKsetNT(int32 ntype)
{
    H4V_ND(int, setnt_fail);
    return setnt_fail ? FAIL : SUCCEED;
}

static NC_var *g_vp; /* the variable NC_hlookupvar hands out */
NC_var *
NC_hlookupvar(NC *handle, int varid)
{
    H4V_ND(int, lookup_fail);
    if (lookup_fail)
        return NULL;
    return g_vp;
}

int
nctypelen(nc_type type)
{
    switch (type) {
        case NC_BYTE:
        case NC_CHAR:
            return 1;
        case NC_SHORT:
            return 2;
        case NC_LONG:
        case NC_FLOAT:
            return 4;
        case NC_DOUBLE:
            return 8;
        default:
            return -1;
    }
}

bool_t
xdr_numrecs(XDR *xdrs, NC *handle)
{
    H4V_ND(int, numrecs_fail);
    return numrecs_fail ? FALSE : TRUE;
}

#include "putget.c"

/* ------------------------------------------------------------------ contracts */

/* assumed (trusted) contract of the attach helper: sets vp->aid, may fail */
int32 hdf_get_vp_aid(NC *handle, NC_var *vp)
    __CPROVER_requires(handle != NULL && vp != NULL)
    __CPROVER_assigns(vp->aid, vp->data_ref, vp->set_length, g_iofail)
    __CPROVER_ensures((__CPROVER_return_value == FAIL && g_iofail == 1) ||
                      (__CPROVER_return_value == vp->aid && vp->aid == g_aid && vp->aid != FAIL &&
                       g_iofail == __CPROVER_old(g_iofail)));

/* environment the SD layer guarantees (NC_var compiled by NC_var_shape, HDF file) */
#define CK_ENV(handle, vp)                                                                           \
    ((handle)->file_type == HDF_FILE && (handle)->xdrs != NULL &&                                    \
     ((handle)->xdrs->x_op == XDR_ENCODE || (handle)->xdrs->x_op == XDR_DECODE) &&                   \
     (vp)->assoc != NULL && (vp)->assoc->count >= 1 && (vp)->assoc->count <= H4_MAX_VAR_DIMS &&      \
     (vp)->shape != NULL && (vp)->numrecs >= 0 &&                                                    \
     ((vp)->HDFsize == 1 || (vp)->HDFsize == 2 || (vp)->HDFsize == 4 || (vp)->HDFsize == 8) &&       \
     ((vp)->szof == 1 || (vp)->szof == 2 || (vp)->szof == 4 || (vp)->szof == 8) &&                   \
     (vp)->len >= 1 && (vp)->len <= 0x7fffffffUL && ((vp)->aid == FAIL || (vp)->aid == g_aid))
#define CK_MAX(a, b) ((a) > (b) ? (a) : (b))

bool_t H4_NCcoordck(NC *handle, NC_var *vp, const long *coords)
    __CPROVER_requires(handle != NULL && vp != NULL && coords != NULL && CK_ENV(handle, vp))
    __CPROVER_requires(0 <= g_d && g_d < C03_RANK(vp))
    /* SD API: coordinates come from int32 arguments */
    __CPROVER_requires(coords[g_d] >= -2147483647L - 1 && coords[g_d] <= 2147483647L)
    __CPROVER_requires(coords[0] >= -2147483647L - 1 && coords[0] < 2147483647L)
    /* the data element of a variable is shorter than 2 GB (HDF4 format limit) */
#ifndef NOMUL
    __CPROVER_requires((long)vp->numrecs * (long)vp->len <= 2147483647L)
#endif
    __CPROVER_requires(g_nr0 == vp->numrecs && g_hw_n == 0 && g_hw_ok == 0 && g_seek_n == 0 && g_iofail == 0 &&
                       g_reclen == (int32)vp->len && g_aid != FAIL)
    __CPROVER_assigns(vp->numrecs, handle->numrecs, handle->flags, vp->aid, vp->data_ref, vp->set_length, g_hw_n,
                      g_hw_ok, g_seek_n, g_seek_off, g_iofail)
    __CPROVER_ensures(__CPROVER_return_value == TRUE || __CPROVER_return_value == FALSE)
    /* (1) a fixed-dimension coordinate outside [0, shape) is rejected */
    __CPROVER_ensures((C03_FIXED(vp, g_d) && C03_OUTSIDE(vp, coords, g_d)) ==> __CPROVER_return_value == FALSE)
    /* (2) a negative record index is rejected */
    __CPROVER_ensures((C03_REC(vp) && coords[0] < 0) ==> __CPROVER_return_value == FALSE)
    /* (3) SD read access at or beyond the variable's number of records is rejected */
    __CPROVER_ensures((C03_REC(vp) && handle->xdrs->x_op != XDR_ENCODE && coords[0] >= __CPROVER_old(vp->numrecs)) ==>
                      __CPROVER_return_value == FALSE)
    /* (4) nothing else is rejected: FALSE without an I/O failure means the request is invalid
           (g_anybad is the harness-computed disjunction over all dimensions of (1)-(3)) */
    __CPROVER_ensures((__CPROVER_return_value == FALSE && !g_iofail) ==> g_anybad)
    __CPROVER_ensures(g_anybad ==> (__CPROVER_return_value == FALSE && !g_iofail))
    /* (5) an invalid request, a fixed-size variable, or an existing record: no state change, no I/O */
    __CPROVER_ensures((g_anybad || !C03_REC(vp) || coords[0] < __CPROVER_old(vp->numrecs)) ==>
                      (vp->numrecs == __CPROVER_old(vp->numrecs) && handle->numrecs == __CPROVER_old(handle->numrecs) &&
                       handle->flags == __CPROVER_old(handle->flags) && g_hw_n == 0 && g_seek_n == 0))
    /* (6) failure never shrinks or over-extends: only whole fill records already written count */
    __CPROVER_ensures(__CPROVER_return_value == FALSE ==>
                      (vp->numrecs == __CPROVER_old(vp->numrecs) + g_hw_ok &&
                       handle->numrecs == __CPROVER_old(handle->numrecs)))
    /* (7) success on a record variable: numrecs' == max(numrecs, index + 1), file-wide too */
    __CPROVER_ensures((__CPROVER_return_value == TRUE && C03_REC(vp)) ==>
                      ((long)vp->numrecs == CK_MAX((long)__CPROVER_old(vp->numrecs), coords[0] + 1) &&
                       (long)handle->numrecs == CK_MAX((long)__CPROVER_old(handle->numrecs), coords[0] + 1)))
    /* (8) growth on the write path: records numrecs..index are filled (index - numrecs + 1 fill
           records, written from byte numrecs * reclen on) unless NC_NOFILL, in which case none */
    __CPROVER_ensures((__CPROVER_return_value == TRUE && C03_REC(vp) && coords[0] >= __CPROVER_old(vp->numrecs)) ==>
                      (handle->xdrs->x_op == XDR_ENCODE &&
                       ((__CPROVER_old(handle->flags) & NC_NOFILL)
                            ? (g_hw_n == 0 && g_seek_n == 0)
                            : ((long)g_hw_n == coords[0] - __CPROVER_old(vp->numrecs) + 1 && g_hw_ok == g_hw_n &&
                               g_seek_n == 1 && g_seek_off == __CPROVER_old(vp->numrecs) * (int)vp->len))))
    /* (9) NC_NDIRTY is raised exactly when the file-wide record count grew; no other flag moves */
    __CPROVER_ensures((__CPROVER_return_value == TRUE && C03_REC(vp)) ==>
                      handle->flags == ((coords[0] + 1 > (long)__CPROVER_old(handle->numrecs))
                                            ? (__CPROVER_old(handle->flags) | NC_NDIRTY)
                                            : __CPROVER_old(handle->flags)));

#ifdef H4V_NATIVE
#include "h4v_native_wrap.h"
#endif

/* ------------------------------------------------------------------ harnesses */
#ifndef MAXR
#define MAXR H4_MAX_VAR_DIMS
#endif

static NC   *e_h;
static long *e_co;

/* builds handle, variable (rank 1..MAXR, arbitrary shape) and a coordinate vector */
static void
mk_env(void)
{
    H4V_HAVOC(int, g_d);
    g_hw_n = g_hw_ok = g_seek_n = g_seek_off = g_iofail = g_anybad = 0;
    H4V_ND(int, rank);
    H4V_ASSUME(rank >= 1 && rank <= MAXR);
    NC        *h  = malloc(sizeof(NC));
    XDR       *x  = malloc(sizeof(XDR));
    NC_var    *vp = malloc(sizeof(NC_var));
    NC_iarray *as = malloc(sizeof(NC_iarray));
    NC_string *nm = malloc(sizeof(NC_string));
    H4V_ASSUME(h != NULL && x != NULL && vp != NULL && as != NULL && nm != NULL);
    H4V_ND_BUF(h4v_ulong, shape, rank, 32);
    H4V_ND_BUF(h4v_ulong, dsizes, rank, 32);
    H4V_ND_BUF(h4v_long, coords, rank, 32);
    static char nmbuf[4] = "v";
    nm->values           = nmbuf;
    nm->count = nm->len = 1;
    as->count  = (unsigned)rank;
    as->values = NULL;
    H4V_ND(int, x_op);
    H4V_ASSUME(x_op == XDR_ENCODE || x_op == XDR_DECODE);
    x->x_op      = (enum xdr_op)x_op;
    x->x_private = NULL;
    H4V_ND(unsigned, h_flags);
    H4V_ND(unsigned, h_numrecs);
    h->flags     = h_flags;
    h->xdrs      = x;
    h->numrecs   = h_numrecs;
    h->recsize   = 0;
    h->begin_rec = 0;
    h->file_type = HDF_FILE;
    h->hdf_mode  = DFACC_RDWR;
    h->vars      = NULL;
    h->dims      = NULL;
    h->attrs     = NULL;
    H4V_ND(int, v_numrecs);
    H4V_ND(h4v_ulong, v_len);
    H4V_ND(int32, v_HDFsize);
    H4V_ND(h4v_ulong, v_szof);
    H4V_ND(int32, v_aid);
    H4V_ND(int32, the_aid);
    H4V_ND(int, v_type);
    g_aid        = the_aid;
    vp->name     = nm;
    vp->assoc    = as;
    vp->shape    = shape;
    vp->dsizes   = dsizes;
    vp->attrs    = NULL;
    vp->type     = v_type;
    vp->len      = v_len;
    vp->szof     = v_szof;
    vp->begin    = 0;
    vp->cdf      = h;
    vp->numrecs  = v_numrecs;
    vp->aid      = v_aid;
    vp->HDFsize  = v_HDFsize;
    vp->HDFtype  = DFNT_INT32;
    vp->data_ref = 1;
    vp->data_tag = DATA_TAG;
    vp->vixHead  = NULL;
    vp->set_length = 0;
    vp->created    = 0;
    g_vp         = vp;
    g_nr0        = v_numrecs;
    g_reclen     = (int32)v_len;
#ifdef FIXSZ
    H4V_ASSUME(v_HDFsize == FIXSZ && v_szof == FIXSZ);
#endif
    /* a _FillValue attribute the NC_findattr stub may hand out */
    g_attr        = malloc(sizeof(NC_attr));
    g_attrp       = malloc(sizeof(NC_attr *));
    NC_array *ad  = malloc(sizeof(NC_array));
    uint8_t  *av  = malloc(8);
    H4V_ASSUME(g_attr != NULL && g_attrp != NULL && ad != NULL && av != NULL);
    ad->values    = av;
    ad->count     = 1;
    g_attr->data  = ad;
    g_attr->name  = nm;
    *g_attrp      = g_attr;
    e_h  = h;
    e_co = coords;
}

void
h_NCcoordck(void)
{
    mk_env();
    NC     *h  = e_h;
    NC_var *vp = g_vp;
    cdf_routine_name = (h->xdrs->x_op == XDR_ENCODE) ? "SDwritedata" : "SDreaddata";
    /* the existential side of the specification, computed over all dimensions */
    int rec = (vp->shape[0] == 0);
    int bad = 0;
    for (int i = 0; i < (int)vp->assoc->count; i++) {
        H4V_ASSUME(e_co[i] >= -2147483647L - 1 && e_co[i] <= 2147483647L);
        if (!(rec && i == 0) && (e_co[i] < 0 || e_co[i] >= (long)vp->shape[i]))
            bad = 1;
    }
    if (rec && e_co[0] < 0)
        bad = 1;
    if (rec && h->xdrs->x_op != XDR_ENCODE && e_co[0] >= vp->numrecs)
        bad = 1;
    g_anybad   = bad;
    int old_nr = vp->numrecs;
    bool_t r   = NCcoordck(h, vp, e_co);
    H4V_COVER(r == FALSE && bad, "NCcoordck rejects");
    H4V_COVER(r == TRUE && !rec, "NCcoordck accepts fixed-size");
    H4V_COVER(r == TRUE && rec && g_hw_n >= 2, "NCcoordck fills two or more records");
    H4V_COVER(r == TRUE && rec && vp->numrecs > old_nr && g_hw_n == 0, "NCcoordck NOFILL growth");
    H4V_COVER(r == FALSE && g_iofail, "NCcoordck I/O failure");
    H4V_COVER(r == TRUE && (int)vp->assoc->count == MAXR, "NCcoordck full rank");
    H4V_CANARY("NCcoordck end");
}

/* Verification unit: hdf/src/hblocks.c -- HLIstaccess (C14 invariant of the access bits, C13 protocol of Hstartaccess).
 * Environment and stubs: stubs/stacc_common.h.  The reader of one block table, HLIgetlink (same file; loops over the
 * blocks of the table), is replaced by a trusted contract: NULL, or a fresh table that is the last one of the chain. */
#include "h4v.h"
#include "h4v_err.h"
#include "stacc_common.h"
#include "hblocks.c"

static link_t *HLIgetlink(int32 file_id, uint16 ref, int32 number_blocks)
    __CPROVER_requires(1)
    __CPROVER_assigns()
    __CPROVER_ensures(__CPROVER_return_value == NULL || __CPROVER_is_fresh(__CPROVER_return_value, sizeof(link_t)))
    __CPROVER_ensures(__CPROVER_return_value == NULL ||
                      (__CPROVER_return_value->nextref == 0 && __CPROVER_is_fresh(__CPROVER_return_value->block_list, sizeof(block_t))));

static int32 HLIstaccess(accrec_t *access_rec, int16 acc_mode)
    __CPROVER_requires(ST_ENV)
    __CPROVER_requires(g_shared == NULL || ((linkinfo_t *)g_shared)->attached >= 1 && ((linkinfo_t *)g_shared)->attached < INT_MAX)
    __CPROVER_assigns(__CPROVER_object_whole(g_arec), g_frec->attach, g_reg_ptr, g_reg_grp, g_registered, g_reg_n, g_relrec_n, g_inner_n, g_inner_w_n;
                      g_shared != NULL: ((linkinfo_t *)g_shared)->attached)
    /* C14: the invariant Hwrite relies on -- a write bit only on a file opened for writing */
    __CPROVER_ensures(__CPROVER_return_value != FAIL ==> (!(g_arec->access & DFACC_WRITE) || (g_frec->access & DFACC_WRITE) != 0))
    __CPROVER_ensures((__CPROVER_return_value != FAIL && acc_mode == DFACC_READ) ==> (g_arec->access & DFACC_WRITE) == 0)
    /* write access to a file opened read-only (or through a bad file id) is refused before the record is touched */
    __CPROVER_ensures((g_frec_bad || (acc_mode == DFACC_WRITE && (g_frec->access & DFACC_WRITE) == 0)) ==>
                      (__CPROVER_return_value == FAIL && g_arec->access == g_access0 && g_reg_n == 0 && g_inner_n == 0 &&
                       g_arec->special == __CPROVER_old(g_arec->special) && g_arec->posn == __CPROVER_old(g_arec->posn)))
    /* C13: success = exactly one new id for this record, one more attached element, record fully set up */
    __CPROVER_ensures(__CPROVER_return_value != FAIL ==>
                      (__CPROVER_return_value == g_newaid && g_registered && g_reg_n == 1 && g_reg_ptr == (void *)g_arec &&
                       g_reg_grp == (int)AIDGROUP && g_arec->access == (uint32)(acc_mode | DFACC_READ) && g_arec->posn == 0 &&
                       g_arec->special == SPECIAL_LINKED && g_arec->special_info != NULL && g_arec->file_id == g_fid &&
                       g_frec->attach == __CPROVER_old(g_frec->attach) + 1))
    __CPROVER_ensures((__CPROVER_return_value != FAIL && g_shared != NULL) ==> g_arec->special_info == g_shared)
    /* failure: no id, attach unchanged; the record stays with the caller (Hstartaccess releases it, hfile.c:965) */
    __CPROVER_ensures(__CPROVER_return_value == FAIL ==>
                      (!g_registered && g_reg_n == 0 && g_frec->attach == __CPROVER_old(g_frec->attach) && g_relrec_n == 0))
    /* the special header is opened for reading only, whatever access was asked for */
    __CPROVER_ensures(g_inner_w_n == 0);

#ifdef H4V_NATIVE
#include "h4v_native_wrap.h"
#endif

void
h_HLIstaccess(void)
{
    stacc_mk_env();
    H4V_ND(int, has_shared);
    if (has_shared) {
        linkinfo_t *x = malloc(sizeof(linkinfo_t));
        H4V_ASSUME(x != NULL);
        H4V_ND(int, x_attached);
        x->attached  = x_attached;
        x->link      = NULL;
        x->last_link = NULL;
        g_shared     = x;
    }
    H4V_ND(int16, acc_mode);
    int32 r = HLIstaccess(g_arec, acc_mode);
    H4V_COVER(r != FAIL && acc_mode == DFACC_READ && !ST_WR(g_frec), "HLIstaccess read access on a read-only file");
    H4V_COVER(r != FAIL && acc_mode == DFACC_WRITE, "HLIstaccess write access on a writable file");
    H4V_COVER(r != FAIL && g_shared == NULL, "HLIstaccess read the header and the block table from the file");
    H4V_COVER(r == FAIL && acc_mode == DFACC_WRITE && !ST_WR(g_frec), "HLIstaccess write access on a read-only file refused");
    H4V_COVER(r == FAIL && acc_mode == DFACC_READ && !g_frec_bad && g_inner_n == 1, "HLIstaccess failed late");
    H4V_CANARY("HLIstaccess end");
}

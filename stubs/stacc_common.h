/* C14/C13 -- common ghost environment and trusted stubs for the "special start-access" units
 * (units/hx_access_u.c, hl_access_u.c, hc_access_u.c, hmc_access_u.c): the functions
 * H{X,L,C,MC}Istaccess(access_rec, acc_mode) that Hstartaccess (hfile.c:925-929) dispatches to for a
 * special element, through the stread / stwrite entries of the special function table.
 *
 * Environment: ONE file g_fid -> g_frec with an ARBITRARY access word (read-only and writable files), or
 * an invalid file id (g_frec_bad); ONE access record g_arec that Hstartaccess has taken from the pool and
 * half filled in (file_id, ddid, special_info == NULL: hfile.c:871-886) and that is NOT yet registered.
 * What the start function must re-establish is the invariant Hwrite relies on (obligation `Hwrite`):
 *      an access record carries DFACC_WRITE only if its file was opened with DFACC_WRITE        (C14)
 * and, for C13, the protocol of Hstartaccess: on success exactly one new id for this record and attach + 1;
 * on FAIL nothing registered, attach unchanged, and the record still belongs to the caller (Hstartaccess
 * releases it, hfile.c:965-968).
 */
#ifndef STACC_COMMON_H
#define STACC_COMMON_H
#include <limits.h>
#include "hdf_priv.h"
#include "hfile_priv.h"

H4V_DECL_ND(int);
H4V_DECL_ND(int32);
H4V_DECL_ND(uint32);
H4V_DECL_ND(uint16);
H4V_DECL_ND(int16);

filerec_t *g_frec;      /* the file record behind g_fid */
int        g_frec_bad;  /* the access record's file id is not valid: HAatom_object gives NULL */
int32      g_fid, g_aid2, g_newaid;
accrec_t  *g_arec;
void      *g_shared;    /* special info another access record of the same element already holds (NULL: none) */
void      *g_reg_ptr;
int        g_reg_grp, g_registered, g_reg_n, g_relrec_n, g_inner_n, g_inner_w_n;
uint32     g_access0;   /* access word of the record on entry */

#define ST_FID 0x10000007 /* representative ids (handles are opaque: passed on and compared for equality only) */
#define ST_AID2 0x30000006
#define ST_NEWAID 0x30000009
#define ST_WR(f) (((f)->access & DFACC_WRITE) != 0)
/* the invariant */
#define ST_INV(a, f) (!((a)->access & DFACC_WRITE) || ST_WR(f))

/* arbitrary bytes for the fixed-size header reads of the start functions (4, 6, 12, 14 bytes).  Reads of any other
   length go into freshly malloc'ed -- hence already arbitrary -- buffers.  (__CPROVER_havoc_slice with a symbolic
   length makes cbmc 6.11 abort with an invariant violation while it builds a trace.) */
#if defined(H4V_CBMC) && !defined(H4V_CEX)
#define ST_HAVOC(buf, n)                                                                                     \
    do {                                                                                                     \
        if ((n) == 4)                                                                                        \
            __CPROVER_havoc_slice((buf), 4);                                                                 \
        else if ((n) == 6)                                                                                   \
            __CPROVER_havoc_slice((buf), 6);                                                                 \
        else if ((n) == 12)                                                                                  \
            __CPROVER_havoc_slice((buf), 12);                                                                \
        else if ((n) == 14)                                                                                  \
            __CPROVER_havoc_slice((buf), 14);                                                                \
    } while (0)
#elif defined(H4V_CBMC)
/* counterexample mode: the bytes are named values (st_bytes[i]) so that the native replay can rebuild them */
#define ST_HAVOC(buf, n)                                                                                     \
    do {                                                                                                     \
        if ((n) == 4 || (n) == 6 || (n) == 12 || (n) == 14) {                                                \
            struct h4v_nbuf st_bytes_nd = nondet_h4v_nbuf();                                                 \
            for (int st_i = 0; st_i < 14; st_i++)                                                            \
                if (st_i < (n))                                                                              \
                    ((unsigned char *)(buf))[st_i] = (unsigned char)st_bytes_nd.a[st_i];                     \
        }                                                                                                    \
    } while (0)
#else
#define ST_HAVOC(buf, n)                                                                                     \
    do {                                                                                                     \
        if ((n) == 4 || (n) == 6 || (n) == 12 || (n) == 14)                                                  \
            for (int st_i = 0; st_i < (n); st_i++)                                                           \
                ((unsigned char *)(buf))[st_i] = (unsigned char)h4v_replay_get("st_bytes", st_i);            \
    } while (0)
#endif

static void
stacc_mk_env(void)
{
    g_frec = malloc(sizeof(filerec_t));
    H4V_ASSUME(g_frec != NULL);
    H4V_ND(int, f_access);
    H4V_ND(int, f_refcount);
    H4V_ND(int, f_attach);
    H4V_ASSUME(f_refcount >= 1);
    H4V_ASSUME(f_attach >= 0 && f_attach < INT_MAX);
    H4V_ASSUME((f_access & DFACC_ALL) == f_access && (f_access & DFACC_READ)); /* what Hopen stores */
    g_frec->path        = NULL;
    g_frec->file        = NULL;
    g_frec->maxref      = 0;
    g_frec->access      = f_access;
    g_frec->refcount    = f_refcount;
    g_frec->attach      = f_attach;
    g_frec->version_set = 1;
    g_frec->f_cur_off   = 0;
    g_frec->last_op     = H4_OP_UNKNOWN;
    g_frec->cache       = 0;
    g_frec->dirty       = 0;
    g_frec->f_end_off   = 0;
    g_frec->ddhead = g_frec->ddlast = g_frec->ddnull = NULL;
    g_frec->ddnull_idx = -1;
    g_frec->tag_tree   = NULL;
    H4V_HAVOC(int, g_frec_bad);
    g_fid    = ST_FID;
    g_aid2   = ST_AID2;
    g_newaid = ST_NEWAID;
    g_arec   = malloc(sizeof(accrec_t));
    H4V_ASSUME(g_arec != NULL);
    H4V_ND(uint32, a_access);
    H4V_ND(int32, a_ddid);
    H4V_ND(int32, a_posn);
    H4V_ND(int, a_special);
    g_arec->appendable   = 0;
    g_arec->special      = a_special;
    g_arec->new_elem     = 0;
    g_arec->block_size   = 0;
    g_arec->num_blocks   = 0;
    g_arec->access       = a_access; /* whatever the pool record held last */
    g_arec->access_type  = 0;
    g_arec->file_id      = g_fid;
    g_arec->ddid         = a_ddid;
    g_arec->posn         = a_posn;
    g_arec->special_info = NULL;
    g_arec->special_func = NULL;
    g_arec->next         = NULL;
    g_access0            = a_access;
    g_shared             = NULL;
    g_reg_ptr            = NULL;
    g_reg_grp            = -1;
    g_registered = g_reg_n = g_relrec_n = g_inner_n = g_inner_w_n = 0;
}

/* ------------------------------------------------------------------ atom.c */
void *
HAatom_object(atom_t atm)
{
    if (atm == g_fid)
        return g_frec_bad ? NULL : (void *)g_frec;
    if (atm == g_newaid && g_registered)
        return g_reg_ptr;
    return NULL;
}
atom_t
HAregister_atom(group_t grp, void *object)
{
    /* A-ALLOC: registration does not fail */
    g_reg_n++;
    g_reg_ptr    = object;
    g_reg_grp    = (int)grp;
    g_registered = 1;
    return g_newaid;
}
/* ------------------------------------------------------------------ hfile.c */
void
HIrelease_accrec_node(accrec_t *acc)
{
    g_relrec_n++;
}
void *
HIgetspinfo(accrec_t *access_rec)
{
    return g_shared;
}
#ifndef STACC_NO_HP
int
HPseek(filerec_t *file_rec, int32 offset)
{
    H4V_ND(int, hp_seek_fault);
    return hp_seek_fault ? FAIL : SUCCEED;
}
int
HP_read(filerec_t *file_rec, void *buf, int32 bytes)
{
    H4V_ND(int, hp_read_fault);
    if (hp_read_fault || bytes < 0)
        return FAIL;
    ST_HAVOC(buf, bytes);
    return SUCCEED;
}
#endif
/* the element that holds the special header is opened for READING only: a start function never asks for more */
int32
Hstartaccess(int32 file_id, uint16 tag, uint16 ref, uint32 flags)
{
    g_inner_n++;
    if (flags & DFACC_WRITE)
        g_inner_w_n++;
    H4V_CHECK(!(flags & DFACC_WRITE) || (g_frec != NULL && ST_WR(g_frec)), "C14: write access requested on a file opened read-only");
    H4V_ND(int, inner_ok);
    if (!inner_ok || file_id != g_fid || g_frec_bad)
        return FAIL;
    return g_aid2;
}
int32
Hstartread(int32 file_id, uint16 tag, uint16 ref)
{
    return Hstartaccess(file_id, tag, ref, DFACC_READ);
}
int
Hseek(int32 access_id, int32 offset, int origin)
{
    H4V_ND(int, hseek_ok);
    return hseek_ok ? SUCCEED : FAIL;
}
int32
Hread(int32 access_id, int32 length, void *data)
{
    H4V_ND(int, hread_ok);
    if (!hread_ok)
        return FAIL;
    ST_HAVOC(data, length);
    return length;
}
int
Hendaccess(int32 access_id)
{
    H4V_ND(int, hend_ok);
    return hend_ok ? SUCCEED : FAIL;
}
int32
Hlength(int32 file_id, uint16 tag, uint16 ref)
{
    H4V_ND(int32, hlength_ret);
    return hlength_ret;
}
/* ------------------------------------------------------------------ hfiledd.c */
int
HTPinquire(atom_t ddid, uint16 *tag, uint16 *ref, int32 *off, int32 *len)
{
    H4V_CHECK(g_arec != NULL && ddid == g_arec->ddid, "HTPinquire on the access record's DD");
    H4V_ND(int, inquire_ok);
    if (!inquire_ok)
        return FAIL;
    if (tag != NULL) { H4V_ND(uint16, dd_tag); *tag = dd_tag; }
    if (ref != NULL) { H4V_ND(uint16, dd_ref); *ref = dd_ref; }
    if (off != NULL) { H4V_ND(int32, dd_off); H4V_ASSUME(dd_off >= 0 && dd_off <= INT32_MAX - 64); *off = dd_off; }
    if (len != NULL) { H4V_ND(int32, dd_len); *len = dd_len; }
    return SUCCEED;
}

/* ------------------------------------------------------------------ the common contract text */
/* acc_mode: the two constants the stread / stwrite entries pass (H?Pstread: DFACC_READ, H?Pstwrite: DFACC_WRITE) */
#define ST_ENV                                                                                               \
    (access_rec == g_arec && g_arec != NULL && g_frec != NULL && g_arec->file_id == g_fid && g_arec->special_info == NULL &&      \
     g_frec->refcount >= 1 && g_frec->attach >= 0 && g_frec->attach < INT_MAX && !g_registered && g_reg_n == 0 &&                \
     g_relrec_n == 0 && g_inner_w_n == 0 && g_access0 == g_arec->access && (acc_mode == DFACC_READ || acc_mode == DFACC_WRITE))
/* (the ensures clauses are written out in each unit: the native replay translates the contract text, not macros) */
#endif

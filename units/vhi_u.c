/* Verification unit: hdf/src/vhi.c  (C20: VHstoredatam hands order and type to the schema layer, whose
   limits (order in [1,MAX_ORDER], order x type size <= MAX_FIELD_SIZE; contract proved on the real
   VSfdefine in vsfld_u.c) make the whole request fail with nothing written; VHmakegroup likewise for
   a refused member).  The VS and V calls are logging stubs that follow those contracts. */
#include "h4v.h"
#include "h4v_err.h"
#include <string.h>
#include "vg_priv.h"

/* ---------------- ghost environment ---------------- */
int32 g_vs;                       /* key VSattach hands out (FAIL: refused) */
int   g_isize;                    /* DFKNTsize of the requested type (FAIL: unknown type) */
int   g_fdef_other;               /* VSfdefine fails for another reason (bad key, no memory, ...) */
int   g_setf_ret, g_name_ret, g_class_ret, g_detach_ret;
int32 g_write_ret;                /* what VSwrite answers for a positive count */
int32 g_ref;                      /* VSQueryref */
/* the log */
int          g_attach_calls, g_fdef_calls, g_setf_calls, g_write_calls, g_name_calls, g_class_calls, g_detach_calls, g_qref_calls;
HFILEID      g_attach_f;
int32        g_attach_ref;
char         g_attach_mode;
int32        g_fdef_key, g_fdef_type, g_fdef_order, g_setf_key, g_write_key, g_write_n, g_write_il, g_name_key, g_class_key,
    g_detach_key, g_qref_key;
const char  *g_fdef_field, *g_setf_fields, *g_name_arg, *g_class_arg;
const uint8 *g_write_buf;
int          g_seq; /* order of the calls: each stub checks its predecessor ran */

int32
VSattach(HFILEID f, int32 vsref, const char *accesstype)
{
    g_attach_calls++;
    g_attach_f    = f;
    g_attach_ref  = vsref;
    g_attach_mode = accesstype ? accesstype[0] : 0;
    H4V_CHECK(g_seq == 0, "VSattach comes first");
    g_seq = 1;
    return g_vs;
}
/* follows the contract proved for the real VSfdefine (vsfld_u.c): limits refused */
int
VSfdefine(int32 vkey, const char *field, int32 localtype, int32 order)
{
    g_fdef_calls++;
    g_fdef_key   = vkey;
    g_fdef_field = field;
    g_fdef_type  = localtype;
    g_fdef_order = order;
    H4V_CHECK(g_seq == 1, "VSfdefine after VSattach");
    g_seq = 2;
    if (order < 1 || order > MAX_ORDER)
        return FAIL;
    if (g_isize == FAIL || (int32)g_isize * order > MAX_FIELD_SIZE)
        return FAIL;
    return g_fdef_other ? FAIL : SUCCEED;
}
int
VSsetfields(int32 vkey, const char *fields)
{
    g_setf_calls++;
    g_setf_key    = vkey;
    g_setf_fields = fields;
    H4V_CHECK(g_seq == 2, "VSsetfields after a successful VSfdefine");
    g_seq = 3;
    return g_setf_ret;
}
int32
VSwrite(int32 vkey, const uint8 buf[], int32 nelt, int32 interlace)
{
    g_write_calls++;
    g_write_key = vkey;
    g_write_buf = buf;
    g_write_n   = nelt;
    g_write_il  = interlace;
    H4V_CHECK(g_seq == 3, "VSwrite after a successful VSsetfields");
    g_seq = 4;
    if (nelt <= 0) /* vrw.c:492 */
        return FAIL;
    return g_write_ret;
}
int32
VSsetname(int32 vkey, const char *vsname)
{
    g_name_calls++;
    g_name_key = vkey;
    g_name_arg = vsname;
    H4V_CHECK(g_seq == 4, "VSsetname after VSwrite");
    g_seq = 5;
    return g_name_ret;
}
int32
VSsetclass(int32 vkey, const char *vsclass)
{
    g_class_calls++;
    g_class_key = vkey;
    g_class_arg = vsclass;
    H4V_CHECK(g_seq == 5, "VSsetclass after VSsetname");
    g_seq = 6;
    return g_class_ret;
}
int32
VSQueryref(int32 vkey)
{
    g_qref_calls++;
    g_qref_key = vkey;
    H4V_CHECK(g_detach_calls == 0, "the ref is asked for while the vdata is still attached");
    return g_ref;
}
int32
VSdetach(int32 vkey)
{
    g_detach_calls++;
    g_detach_key = vkey;
    return g_detach_ret;
}
/* VHmakegroup's callees (not under contract here; bodies so that nothing is undefined) */
int32 nondet_int32(void);
int32 Vattach(HFILEID f, int32 vgid, const char *accesstype) { return nondet_int32(); }
int32 Vdetach(int32 vkey) { return nondet_int32(); }
int32 VQueryref(int32 vkey) { return nondet_int32(); }
int32 Vaddtagref(int32 vkey, int32 tag, int32 ref) { return nondet_int32(); }
int32 Vsetname(int32 vkey, const char *vgname) { return nondet_int32(); }
int32 Vsetclass(int32 vkey, const char *vgclass) { return nondet_int32(); }

#include "vhi.c"

/* the request exceeds a format limit of a field */
#define VH_OVER(order) ((order) < 1 || (order) > MAX_ORDER || g_isize == FAIL || (long long)g_isize * (order) > MAX_FIELD_SIZE)
/* every step succeeds */
#define VH_ALLOK(n, order)                                                                                             \
    (g_vs != FAIL && !VH_OVER(order) && !g_fdef_other && g_setf_ret != FAIL && (n) > 0 && g_write_ret == (n) &&        \
     g_name_ret != FAIL && g_class_ret != FAIL && g_detach_ret != FAIL)
#define VH_LOG0                                                                                                        \
    (g_attach_calls == 0 && g_fdef_calls == 0 && g_setf_calls == 0 && g_write_calls == 0 && g_name_calls == 0 &&       \
     g_class_calls == 0 && g_detach_calls == 0 && g_qref_calls == 0 && g_seq == 0)
#define VH_LOG_ASSIGNS                                                                                                 \
    g_attach_calls, g_fdef_calls, g_setf_calls, g_write_calls, g_name_calls, g_class_calls, g_detach_calls,            \
        g_qref_calls, g_attach_f, g_attach_ref, g_attach_mode, g_fdef_key, g_fdef_type, g_fdef_order, g_setf_key,      \
        g_write_key, g_write_n, g_write_il, g_name_key, g_class_key, g_detach_key, g_qref_key, g_fdef_field,           \
        g_setf_fields, g_name_arg, g_class_arg, g_write_buf, g_seq

#ifdef VH_NEGCOUNT
#define VH_NEG_CLAUSE(n, r) ((n) > 0 || (r) == FAIL)
#else
#define VH_NEG_CLAUSE(n, r) 1
#endif
#ifdef VH_DETACH
#define VH_DETACH_CLAUSE(r) (!((r) == FAIL && g_attach_calls == 1 && g_vs != FAIL) || (g_detach_calls == 1 && g_detach_key == g_vs))
#else
#define VH_DETACH_CLAUSE(r) 1
#endif

int32 VHstoredatam(HFILEID f, const char *field, const uint8 *buf, int32 n, int32 datatype, const char *vsname,
                   const char *vsclass, int32 order)
    __CPROVER_requires(VH_LOG0 && (g_isize == FAIL || (g_isize >= 1 && g_isize <= 8)))
    __CPROVER_assigns(VH_LOG_ASSIGNS)
    /* C20: an order outside [1,MAX_ORDER], an unknown type or a field wider than MAX_FIELD_SIZE fails the whole
       request; no field list is set, no record written, no name given: nothing is created */
    __CPROVER_ensures(VH_OVER(order) ==>
                      (__CPROVER_return_value == FAIL && g_setf_calls == 0 && g_write_calls == 0 && g_name_calls == 0 &&
                       g_class_calls == 0))
    /* a new vdata is asked for, for writing, in the caller's file */
    __CPROVER_ensures(n >= 0 ==> (g_attach_calls == 1 && g_attach_f == f && g_attach_ref == -1 && g_attach_mode == 'w'))
    /* C20 (D89): a negative record count is refused before anything is created (VSwrite's FAIL must not be taken for "n written") */
    __CPROVER_ensures(n < 0 ==> (__CPROVER_return_value == FAIL && g_attach_calls == 0 && g_write_calls == 0 && g_name_calls == 0))
    /* the caller's arguments reach the schema layer unchanged (no narrowing of order or type) */
    __CPROVER_ensures((n >= 0 && g_vs != FAIL) ==>
                      (g_fdef_calls == 1 && g_fdef_key == g_vs && g_fdef_field == field && g_fdef_type == datatype &&
                       g_fdef_order == order))
    __CPROVER_ensures(g_vs == FAIL ==> (__CPROVER_return_value == FAIL && g_fdef_calls == 0 && g_write_calls == 0))
    /* the records: exactly n of them from buf, fully interlaced, once */
    __CPROVER_ensures(g_write_calls <= 1 && g_setf_calls <= 1)
    __CPROVER_ensures(g_write_calls == 1 ==>
                      (g_setf_calls == 1 && g_setf_key == g_vs && g_setf_fields == field && g_write_key == g_vs &&
                       g_write_buf == buf && g_write_n == n && g_write_il == FULL_INTERLACE))
    /* a short or failed write fails the request, and it is not named */
    __CPROVER_ensures((g_write_calls == 1 && n > 0 && g_write_ret != n) ==>
                      (__CPROVER_return_value == FAIL && g_name_calls == 0 && g_class_calls == 0))
    /* result: the ref of the new vdata exactly when every step succeeded, else FAIL */
    __CPROVER_ensures(VH_ALLOK(n, order) ==>
                      (__CPROVER_return_value == g_ref && g_write_calls == 1 && g_name_calls == 1 && g_name_key == g_vs &&
                       g_name_arg == vsname && g_class_calls == 1 && g_class_key == g_vs && g_class_arg == vsclass &&
                       g_qref_calls == 1 && g_qref_key == g_vs && g_detach_calls == 1 && g_detach_key == g_vs))
    __CPROVER_ensures((n > 0 && !VH_ALLOK(n, order)) ==> __CPROVER_return_value == FAIL)
    /* optional clauses (separate obligations): "n should not be zero or negative" is enforced; a refused request
       does not leave the new vdata attached */
    __CPROVER_ensures(VH_NEG_CLAUSE(n, __CPROVER_return_value))
    __CPROVER_ensures(VH_DETACH_CLAUSE(__CPROVER_return_value))
    __CPROVER_ensures(g_detach_calls <= 1);

int32 VHstoredata(HFILEID f, const char *field, const uint8 *buf, int32 n, int32 datatype, const char *vsname,
                  const char *vsclass)
    __CPROVER_requires(VH_LOG0 && (g_isize == FAIL || (g_isize >= 1 && g_isize <= 8)))
    __CPROVER_assigns(VH_LOG_ASSIGNS)
    __CPROVER_ensures((n >= 0 && g_vs != FAIL) ==> (g_fdef_calls == 1 && g_fdef_order == 1 && g_fdef_type == datatype))
    __CPROVER_ensures(VH_ALLOK(n, 1) ==> (__CPROVER_return_value == g_ref && g_write_n == n && g_write_buf == buf))
    __CPROVER_ensures((n > 0 && !VH_ALLOK(n, 1)) ==> __CPROVER_return_value == FAIL);

#ifdef H4V_NATIVE
#include "h4v_native_wrap.h"
#endif

H4V_DECL_ND(int32);
H4V_DECL_ND(int);

static void
mk_env(void)
{
    H4V_HAVOC(int32, g_vs);
    H4V_HAVOC(int, g_isize);
    H4V_HAVOC(int, g_fdef_other);
    H4V_HAVOC(int, g_setf_ret);
    H4V_HAVOC(int, g_name_ret);
    H4V_HAVOC(int, g_class_ret);
    H4V_HAVOC(int, g_detach_ret);
    H4V_HAVOC(int32, g_write_ret);
    H4V_HAVOC(int32, g_ref);
    H4V_ASSUME(g_isize == FAIL || (g_isize >= 1 && g_isize <= 8));
    g_attach_calls = g_fdef_calls = g_setf_calls = g_write_calls = g_name_calls = g_class_calls = g_detach_calls = g_qref_calls = 0;
    g_seq = 0;
    g_attach_f = 0; g_attach_ref = 0; g_attach_mode = 0;
    g_fdef_key = g_fdef_type = g_fdef_order = g_setf_key = g_write_key = g_write_n = g_write_il = g_name_key = g_class_key = g_detach_key = g_qref_key = 0;
    g_fdef_field = g_setf_fields = g_name_arg = g_class_arg = NULL;
    g_write_buf = NULL;
}

static const char  h_field[] = "VALUES";
static const char  h_name[]  = "nm";
static const char  h_class[] = "cl";
static const uint8 h_buf[8];

void
h_VHstoredatam(void)
{
    H4V_ND(int32, f);
    H4V_ND(int32, n);
    H4V_ND(int32, datatype);
    H4V_ND(int32, order);
    mk_env();
    int32 r = VHstoredatam(f, h_field, h_buf, n, datatype, h_name, h_class, order);
    H4V_COVER(r == FAIL && order == MAX_ORDER + 1, "order one above the limit");
    H4V_COVER(r != FAIL && order == MAX_ORDER && g_isize == 1, "order at the limit");
    H4V_COVER(r == FAIL && order == 8192 && g_isize == 8 && g_fdef_calls == 1, "field one byte too wide");
    H4V_COVER(r != FAIL && order > 1, "stored");
    H4V_COVER(r == FAIL && g_write_calls == 1, "short write");
    H4V_CANARY("VHstoredatam end");
}

void
h_VHstoredata(void)
{
    H4V_ND(int32, f);
    H4V_ND(int32, n);
    H4V_ND(int32, datatype);
    mk_env();
    int32 r = VHstoredata(f, h_field, h_buf, n, datatype, h_name, h_class);
    H4V_COVER(r != FAIL, "stored");
    H4V_COVER(r == FAIL, "refused");
    H4V_CANARY("VHstoredata end");
}

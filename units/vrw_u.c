/* Verification unit: hdf/src/vrw.c (C07 record addressing and gather/scatter; C20 offset product) */
#include "h4v.h"
#include "h4v_err.h"
#include <string.h>
#include "vg_priv.h"

/* ---------------- ghost environment ---------------- */
vsinstance_t *g_w;
VDATA        *g_vs;
int           g_grp, g_inst_null;
/* Hseek log */
int32 g_seek_n, g_seek_aid, g_seek_off, g_seek_origin, g_seek_ret;
/* ghost record store behind Hread/Hwrite: the data element of the vdata */
#ifndef STORE_CAP
#define STORE_CAP 32
#endif
uint8 g_store[STORE_CAP];
int32 g_store_len; /* bytes in the element */
int32 g_pos;       /* position of the access element */
int32 g_io_n;      /* number of Hread/Hwrite calls */
int32 g_io_short;  /* make the next transfer fail */
int32 g_exist;     /* answer of vexistvs */
/* ghost user-buffer position for "nothing outside nelt*uvsize is written" */
int32 g_k;

/* ---------------- stubs ---------------- */
group_t
HAatom_group(atom_t atm)
{
    return (group_t)g_grp;
}
void *
HAatom_object(atom_t atm)
{
    return g_inst_null ? NULL : (void *)g_w;
}
int
Hseek(int32 access_id, int32 offset, int origin)
{
    g_seek_n++;
    g_seek_aid    = access_id;
    g_seek_off    = offset;
    g_seek_origin = origin;
    if (g_seek_ret != FAIL)
        g_pos = offset;
    return g_seek_ret;
}
int32
vexistvs(HFILEID f, uint16 vsid)
{
    return g_exist;
}
int
VSPhshutdown(void)
{
    return SUCCEED;
}
#ifndef VRW_LOG
/* Hread/Hwrite over the ghost store: the caller must pass a positive length and a buffer that
   holds it (checked); transfers are whole or fail */
int32
Hread(int32 access_id, int32 length, void *data)
{
    g_io_n++;
    H4V_CHECK(access_id == g_vs->aid, "Hread on the vdata's access id");
    H4V_CHECK(length > 0, "Hread sub-request has positive length");
    if (g_io_short || length <= 0 || g_pos < 0 || g_pos + length > g_store_len)
        return FAIL;
    memcpy(data, g_store + g_pos, (size_t)length);
    g_pos += length;
    return length;
}
int32
Hwrite(int32 access_id, int32 length, const void *data)
{
    g_io_n++;
    H4V_CHECK(access_id == g_vs->aid, "Hwrite on the vdata's access id");
    H4V_CHECK(length > 0, "Hwrite sub-request has positive length");
    if (g_io_short || length <= 0 || g_pos < 0 || g_pos + length > STORE_CAP)
        return FAIL;
    memcpy(g_store + g_pos, data, (size_t)length);
    g_pos += length;
    if (g_pos > g_store_len)
        g_store_len = g_pos;
    return length;
}
#endif /* !VRW_LOG */
int
Hinquire(int32 access_id, int32 *pfile_id, uint16 *ptag, uint16 *pref, int32 *plength, int32 *poffset, int32 *pposn,
         int16 *paccess, int16 *pspecial)
{
    if (pposn != NULL)
        *pposn = g_pos;
    return SUCCEED;
}
#ifndef VRW_LOG
/* DFKconvert (dfconv.c, C06): trusted stand-in -- strided byte copy of num_elm elements of the
   type's size (1-byte and 2-byte types only in the bounded runs), with 16-bit elements byte-swapped
   the way the real DFKsb2b does on a little-endian host.  Strides 0,0 mean contiguous. */
int32 g_conv_bad; /* set if the caller passes a non-positive count */
int32
DFKconvert(void *source, void *dest, int32 ntype, int32 num_elm, int16 acc_mode, int32 source_stride, int32 dest_stride)
{
    uint8 *s = (uint8 *)source, *d = (uint8 *)dest;
    int    sz = (ntype == DFNT_INT16 || ntype == DFNT_UINT16) ? 2 : 1;
    if (num_elm <= 0) {
        g_conv_bad = 1;
        return FAIL;
    }
    if (source_stride == 0 && dest_stride == 0)
        source_stride = dest_stride = sz;
    for (int32 e = 0; e < num_elm; e++) {
        if (sz == 1)
            d[0] = s[0];
        else {
            uint8 b0 = s[0], b1 = s[1];
            d[0] = b1;
            d[1] = b0;
        }
        s += source_stride;
        d += dest_stride;
    }
    return 0;
}

#else /* VRW_LOG */
/* malloc may fail in cbmc 6 (and in the real world): logged, so that "a well-formed request succeeds"
   can be stated "allocation failure apart" */
int g_malloc_failed;
static void *
h4v_malloc(size_t n)
{
    void *p = malloc(n);
    if (p == NULL)
        g_malloc_failed = 1;
    return p;
}
#define malloc(n) h4v_malloc(n)
#endif /* VRW_LOG */

#include "vrw.c"

/* ---------------- contracts ---------------- */
#define KEY_BAD (g_grp != VSIDGROUP || g_inst_null || g_w->vs == NULL)
#define ENV_WF  (g_w != NULL && g_vs != NULL && (g_w->vs == NULL || g_w->vs == g_vs))
#define SEEK_REFUSED (KEY_BAD || eltpos < 0 || g_vs->wlist.n <= 0)
/* the record's byte offset is not representable (one record size W per run: VSSEEK_W) */
#define SEEK_FAR ((long long)eltpos * (long long)VSSEEK_W > 2147483647LL)

#ifndef VSSEEK_W
#define VSSEEK_W 1
#endif
int32 VSseek(int32 vkey, int32 eltpos)
    __CPROVER_requires(ENV_WF && g_seek_n == 0 && (g_seek_ret == SUCCEED || g_seek_ret == FAIL))
    __CPROVER_requires(g_vs->wlist.ivsize == VSSEEK_W) /* symbolic x symbolic products are not tractable: one W per run */
    __CPROVER_assigns(g_seek_n, g_seek_aid, g_seek_off, g_seek_origin, g_pos)
    /* negative position, bad key or a vdata without fields: FAIL, and no seek is issued */
    __CPROVER_ensures(SEEK_REFUSED ==> (__CPROVER_return_value == FAIL && g_seek_n == 0))
    /* otherwise exactly one seek, from the start, on the vdata's element ... */
    __CPROVER_ensures((!SEEK_REFUSED && !SEEK_FAR) ==> (g_seek_n == 1 && g_seek_aid == g_vs->aid && g_seek_origin == DF_START))
    /* ... to byte eltpos*ivsize, the true product, whenever that is a representable offset.  One record
       size W per run (symbolic x symbolic products are not tractable): W = VSSEEK_W */
    __CPROVER_ensures((!SEEK_REFUSED && !SEEK_FAR) ==> (long long)g_seek_off == (long long)eltpos * (long long)VSSEEK_W)
    /* a record beyond the 2^31-1 byte limit cannot be addressed: refused */
    __CPROVER_ensures((!SEEK_REFUSED && SEEK_FAR) ==> __CPROVER_return_value == FAIL)
    __CPROVER_ensures((!SEEK_REFUSED && !SEEK_FAR) ==> __CPROVER_return_value == (g_seek_ret == FAIL ? FAIL : eltpos));


#ifdef VRW_LOG
/* ======================================================================================================
   LOG MODE (-DVRW_LOG): the transfer kernel of VSread/VSwrite with stubs that LOG instead of copying.
   Sizes are constants per run: the record layout VL (field types/orders/sizes -> L_IVS bytes per stored
   record) and the read list RL (-> L_UVS bytes per record in the user's buffer).  Record COUNTS stay
   symbolic (up to several transfer-buffer chunks with the REAL VDATA_BUFFER_MAX): nothing is copied, so a
   request of 10^5..10^6 records costs nothing.  Universal statements use a ghost record g_r of the request
   and a ghost ordinal g_cvk of the DFKconvert calls issued for one chunk.
   ====================================================================================================== */
#ifndef VL
#define VL 1
#endif
#ifndef RL
#define RL 0
#endif
/* record sizes are powers of two wherever possible: x and / by the record size are then shifts, which is
   what keeps the sums over the chunks decidable for SAT (a 7-byte layout is kept as VL == 5) */
#if VL == 1 /* two fields: f0 = 4 x uint8 (4 bytes), f1 = 2 x uint16 (4 bytes): 8-byte records */
#define L_NF  2
#define L_IVS 8
#define L_T0 DFNT_UINT8
#define L_O0 4
#define L_S0 4
#define L_T1 DFNT_UINT16
#define L_O1 2
#define L_S1 4
#elif VL == 2 /* one field: 4 x int32: 16-byte records (case E of VSread) */
#define L_NF  1
#define L_IVS 16
#define L_T0 DFNT_INT32
#define L_O0 4
#define L_S0 16
#define L_T1 DFNT_INT32
#define L_O1 1
#define L_S1 0
#elif VL == 3 /* two fields: f0 = 1 x uint16, f1 = 3 x uint16: 8-byte records, user subsets of 2 and 6 bytes */
#define L_NF  2
#define L_IVS 8
#define L_T0 DFNT_UINT16
#define L_O0 1
#define L_S0 2
#define L_T1 DFNT_UINT16
#define L_O1 3
#define L_S1 6
#elif VL == 4 /* one field: 1 x uint8: 1-byte records (counts up to the int32 limit) */
#define L_NF  1
#define L_IVS 1
#define L_T0 DFNT_UINT8
#define L_O0 1
#define L_S0 1
#define L_T1 DFNT_UINT8
#define L_O1 1
#define L_S1 0
#elif VL == 5 /* two fields: f0 = 3 x uint8 (3 bytes), f1 = 2 x uint16 (4 bytes): 7-byte records */
#define L_NF  2
#define L_IVS 7
#define L_T0 DFNT_UINT8
#define L_O0 3
#define L_S0 3
#define L_T1 DFNT_UINT16
#define L_O1 2
#define L_S1 4
#endif
/* read lists: 0 = every field in table order, 1 = {f1} (a subset: the user's record is SMALLER than the
   stored one), 2 = {f1, f0} (a permutation), 3 = {f0} */
#if L_NF == 1 || RL == 3
#define L_RN 1
#define L_I0 0
#define L_I1 0
#define L_UVS L_S0
#elif RL == 0
#define L_RN 2
#define L_I0 0
#define L_I1 1
#define L_UVS L_IVS
#elif RL == 1
#define L_RN 1
#define L_I0 1
#define L_I1 0
#define L_UVS L_S1
#elif RL == 2
#define L_RN 2
#define L_I0 1
#define L_I1 0
#define L_UVS L_IVS
#endif

/* ---- ghost log ---- */
const uint8 *g_ubuf;     /* the user's buffer ...                                   */
long long    g_ubuf_len; /* ... and the bytes of it the request may touch           */
int          g_mode;     /* DFACC_READ / DFACC_WRITE: direction of the call         */
int32        g_p0;       /* record position on entry                                */
int32        g_elt_len;  /* bytes in the data element (reads beyond it fail)        */
int32        g_r;        /* ghost record of the request, 0 <= g_r < nelt            */
int32        g_cvk;      /* ghost ordinal of a DFKconvert call within one chunk     */
int32        g_io_fail_at; /* the transfer with this ordinal fails (0: none)        */
int32        g_io_failed;
long long    g_io_total; /* bytes transferred                                       */
int32        g_pos0;     /* byte position on entry = g_p0 * L_IVS                   */
int32        g_rpos;     /* byte position of the ghost record = (g_p0 + g_r) * L_IVS (set by the harness) */
int32        g_hit_n;    /* transfers that carry record g_r                         */
int32        g_hit_pos;  /* file position of that transfer                          */
int32        g_hit_before; /* bytes of the request transferred before it            */
int32        g_hit_len;  /* its length in bytes                                     */
int32        g_cv_n;     /* DFKconvert calls since the last transfer                */
int32        g_cv_total, g_cv_bad;
/* convert call g_cvk of the chunk being assembled (write) ... */
int          pend_set;
const uint8 *pend_mem, *pend_xfr;
int32        pend_num, pend_ss, pend_ds, pend_type;
/* ... and of the chunk that carries record g_r */
int          fin_set;
const uint8 *fin_mem, *fin_xfr;
int32        fin_num, fin_ss, fin_ds, fin_type;
int          g_hit_live;
/* what convert call k of a chunk must look like (filled in by the harness from the layout) */
int32 g_exp_ncv, g_exp_uoff[8], g_exp_xoff[8], g_exp_type[8], g_exp_ss, g_exp_ds, g_exp_nmul;

#ifdef H4V_CBMC
#define SAME_OBJ(p, q) (__CPROVER_POINTER_OBJECT(p) == __CPROVER_POINTER_OBJECT(q))
#else
#define SAME_OBJ(p, q) 1
#endif

static int32
h4v_xfer(int32 access_id, int32 length, const void *data)
{
    g_io_n++;
    H4V_CHECK(access_id == g_vs->aid, "transfer on the vdata's access id");
    H4V_CHECK(length > 0, "transfer sub-request has positive length");
    H4V_CHECK(data == (const void *)Vtbuf && Vtbuf != NULL && (uint32)length <= Vtbufsize, "the transfer buffer holds the bytes transferred");
    if (g_io_n == g_io_fail_at || length <= 0 || (long long)g_pos + length > 2147483647LL ||
        (g_mode == DFACC_READ && (long long)g_pos + length > g_elt_len)) {
        g_io_failed = 1;
        return FAIL;
    }
    g_hit_live = 0;
    if (g_rpos >= g_pos && (long long)g_rpos < (long long)g_pos + length) { /* this transfer carries the ghost record */
        g_hit_n++;
        g_hit_pos    = g_pos;
        g_hit_before = (int32)g_io_total;
        g_hit_len    = length;
        g_hit_live   = 1;
        if (g_mode == DFACC_WRITE) { /* the conversions for this chunk came first */
            fin_set  = pend_set;
            fin_mem  = pend_mem;
            fin_xfr  = pend_xfr;
            fin_num  = pend_num;
            fin_ss   = pend_ss;
            fin_ds   = pend_ds;
            fin_type = pend_type;
        }
    }
    pend_set = 0;
    g_cv_n   = 0;
    g_io_total += length;
    g_pos += length;
    return length;
}
int32
Hread(int32 access_id, int32 length, void *data)
{
    H4V_CHECK(g_mode == DFACC_READ, "no Hread while writing");
    return h4v_xfer(access_id, length, data);
}
int32
Hwrite(int32 access_id, int32 length, const void *data)
{
    H4V_CHECK(g_mode == DFACC_WRITE, "no Hwrite while reading");
    return h4v_xfer(access_id, length, data);
}
/* DFKconvert (dfconv.c, C06) logs: it remembers the call with ordinal g_cvk of each chunk (arguments as
   given).  That the footprints of the call stay inside the user's nelt*uvsize bytes and inside the bytes
   transferred follows from HIT_OK && CV_OK below (base, count and strides are pinned exactly) */
int32
DFKconvert(void *source, void *dest, int32 ntype, int32 num_elm, int16 acc_mode, int32 source_stride, int32 dest_stride)
{
    const uint8 *mem = (const uint8 *)(acc_mode == DFACC_READ ? dest : source);
    const uint8 *xfr = (const uint8 *)(acc_mode == DFACC_READ ? source : dest);
    g_cv_total++;
    H4V_CHECK(acc_mode == g_mode, "DFKconvert direction");
    if (num_elm <= 0) {
        g_cv_bad = 1;
        return FAIL;
    }
    if (g_cv_n == g_cvk) {
        if (acc_mode == DFACC_WRITE) {
            pend_set  = 1;
            pend_mem  = mem;
            pend_xfr  = xfr;
            pend_num  = num_elm;
            pend_ss   = source_stride;
            pend_ds   = dest_stride;
            pend_type = ntype;
        }
        else if (g_hit_live) {
            fin_set  = 1;
            fin_mem  = mem;
            fin_xfr  = xfr;
            fin_num  = num_elm;
            fin_ss   = source_stride;
            fin_ds   = dest_stride;
            fin_type = ntype;
        }
    }
    g_cv_n++;
    return 0;
}

/* ---- contracts ---- */
#define LOG_CLEAN                                                                                    \
    (g_io_n == 0 && g_io_total == 0 && g_io_failed == 0 && g_hit_n == 0 && g_cv_n == 0 && g_cv_total == 0 && g_cv_bad == 0 &&  \
     pend_set == 0 && fin_set == 0 && g_hit_live == 0 && g_malloc_failed == 0 && g_io_fail_at >= 0)
#define LOG_ASSIGNS                                                                                  \
    g_io_n, g_io_total, g_io_failed, g_hit_n, g_hit_pos, g_hit_before, g_hit_len, g_hit_live, g_cv_n, g_cv_total, g_cv_bad,  \
        pend_set, pend_mem, pend_xfr, pend_num, pend_ss, pend_ds, pend_type, fin_set, fin_mem, fin_xfr, fin_num, fin_ss, \
        fin_ds, fin_type, g_malloc_failed, g_pos, Vtbuf, Vtbufsize
#define LAYOUT_WF                                                                                    \
    (g_vs->wlist.ivsize == L_IVS && (g_vs->wlist.n == L_NF || g_vs->wlist.n == 0) && g_p0 >= 0 && (long long)g_pos == (long long)g_p0 * L_IVS && g_pos0 == g_pos &&  \
     g_exp_ncv >= 1 && g_exp_ncv <= 8 && g_cvk >= 0 && g_cvk < g_exp_ncv && g_vs->nvertices >= 0 &&    \
     (long long)g_vs->nvertices * L_IVS <= 2147483647LL)
#define VTBUF_WF ((Vtbuf == NULL) == (Vtbufsize == 0))
#define BAD_INTERLACE (interlace != FULL_INTERLACE && interlace != NO_INTERLACE)
/* the chunk that carries the ghost record: exactly one transfer; it starts at a record boundary of the
   request, at the file position of that record, and is a whole number of records long.
   HF = records of the request in earlier chunks, HL = records in this chunk */
#define HF (g_hit_before / L_IVS)
#define HL (g_hit_len / L_IVS)
#define HIT_OK(nelt)                                                                                 \
    (g_hit_n == 1 && g_hit_before >= 0 && HF * L_IVS == g_hit_before && HL * L_IVS == g_hit_len && HF <= g_r && g_r < HF + HL &&  \
     HF + HL <= (nelt) && g_hit_pos == g_pos0 + g_hit_before)
/* convert call g_cvk of that chunk: user side at record HF of the user's buffer -- advanced by (records of
   earlier chunks) x (size of the user's record) -- at the field's offset in the user's record; transfer-
   buffer side at the field's offset in the stored record; as many elements as the chunk has records */
#define CV_OK(uvs)                                                                                   \
    (fin_set && fin_mem == g_ubuf + (long long)HF * (uvs) + g_exp_uoff[g_cvk] && fin_xfr == Vtbuf + g_exp_xoff[g_cvk] &&  \
     fin_num == g_exp_nmul * HL && fin_type == g_exp_type[g_cvk] && fin_ss == g_exp_ss && fin_ds == g_exp_ds)

#define RD_REFUSED                                                                                   \
    (KEY_BAD || g_vs->aid == 0 || g_vs->nvertices == 0 || g_vs->wlist.n <= 0 || g_exist == FAIL || BAD_INTERLACE)
int32 VSread(int32 vkey, uint8 buf[], int32 nelt, int32 interlace)
    __CPROVER_requires(ENV_WF && LOG_CLEAN && LAYOUT_WF && VTBUF_WF && g_mode == DFACC_READ && buf == g_ubuf)
    __CPROVER_requires(g_elt_len == g_vs->nvertices * L_IVS)
    __CPROVER_assigns(LOG_ASSIGNS)
    __CPROVER_frees(Vtbuf)
    /* documented result: FAIL, or the number of records read (0 or positive) */
    __CPROVER_ensures(__CPROVER_return_value == FAIL || (__CPROVER_return_value == nelt && nelt >= 0))
    __CPROVER_ensures(RD_REFUSED ==> (__CPROVER_return_value == FAIL && g_io_n == 0 && g_cv_total == 0))
    /* records that do not exist cannot be read */
    __CPROVER_ensures((nelt > 0 && (long long)g_p0 + nelt > (long long)g_vs->nvertices) ==> __CPROVER_return_value == FAIL)
    /* a request inside the table succeeds (I/O and allocation failure apart) */
    __CPROVER_ensures((!RD_REFUSED && nelt > 0 && (long long)g_p0 + nelt <= (long long)g_vs->nvertices && !g_io_failed && !g_malloc_failed) ==>
                      __CPROVER_return_value == nelt)
    /* success: exactly nelt stored records were transferred and the position advanced by nelt records */
    __CPROVER_ensures((__CPROVER_return_value == nelt && nelt > 0) ==>
                      (g_io_total == (long long)nelt * L_IVS && (long long)g_pos == ((long long)g_p0 + nelt) * L_IVS && !g_cv_bad))
    /* chunking: every record is carried by exactly one transfer, taken from ITS position in the file ... */
    __CPROVER_ensures((__CPROVER_return_value == nelt && g_r >= 0 && g_r < nelt) ==> HIT_OK(nelt))
    /* ... and delivered to ITS position in the user's buffer */
    __CPROVER_ensures((__CPROVER_return_value == nelt && g_r >= 0 && g_r < nelt) ==> CV_OK(L_UVS))
    /* the transfer buffer and its recorded size stay consistent (allocation failure apart: see the report) */
    __CPROVER_ensures(g_malloc_failed || VTBUF_WF);

#define WR_REFUSED                                                                                   \
    (KEY_BAD || nelt <= 0 || g_vs->access != 'w' || g_exist == FAIL || g_vs->wlist.n == 0 || BAD_INTERLACE || g_vs->aid == 0)
int32 VSwrite(int32 vkey, const uint8 buf[], int32 nelt, int32 interlace)
    __CPROVER_requires(ENV_WF && LOG_CLEAN && LAYOUT_WF && VTBUF_WF && g_mode == DFACC_WRITE && buf == g_ubuf)
    __CPROVER_assigns(LOG_ASSIGNS, g_vs->nvertices, g_vs->marked)
    __CPROVER_frees(Vtbuf)
    __CPROVER_ensures(__CPROVER_return_value == FAIL || __CPROVER_return_value == nelt)
    __CPROVER_ensures(WR_REFUSED ==> (__CPROVER_return_value == FAIL && g_io_n == 0 && g_cv_total == 0))
    /* a refused or failed write does not change the record count */
    __CPROVER_ensures(__CPROVER_return_value == FAIL ==> g_vs->nvertices == __CPROVER_old(g_vs->nvertices))
    /* C20: a table that would exceed 2^31-1 bytes is refused (no wrap-around of nelt*ivsize or of p+nelt) */
    __CPROVER_ensures((nelt > 0 && ((long long)g_p0 + nelt) * L_IVS > 2147483647LL) ==> __CPROVER_return_value == FAIL)
    __CPROVER_ensures((!WR_REFUSED && ((long long)g_p0 + nelt) * L_IVS <= 2147483647LL && !g_io_failed && !g_malloc_failed) ==>
                      __CPROVER_return_value == nelt)
    /* C07 bookkeeping: exactly nelt*ivsize bytes written in total, position advanced by nelt records,
       record count = max(old count, p + nelt) -- also for a write that starts inside the table and runs past its end */
    __CPROVER_ensures((__CPROVER_return_value == nelt && nelt > 0) ==>
                      (g_io_total == (long long)nelt * L_IVS && (long long)g_pos == ((long long)g_p0 + nelt) * L_IVS && !g_cv_bad))
    __CPROVER_ensures((__CPROVER_return_value == nelt && nelt > 0) ==>
                      ((long long)g_vs->nvertices == ((long long)g_p0 + nelt > (long long)__CPROVER_old(g_vs->nvertices) ? (long long)g_p0 + nelt : (long long)__CPROVER_old(g_vs->nvertices)) &&
                       g_vs->marked == 1))
    /* chunking (see VSread) */
    __CPROVER_ensures((__CPROVER_return_value == nelt && g_r >= 0 && g_r < nelt) ==> HIT_OK(nelt))
    __CPROVER_ensures((__CPROVER_return_value == nelt && g_r >= 0 && g_r < nelt) ==> CV_OK(L_IVS))
    /* the transfer buffer and its recorded size stay consistent (allocation failure apart: see the report) */
    __CPROVER_ensures(g_malloc_failed || VTBUF_WF);
#endif /* VRW_LOG */

#ifdef H4V_NATIVE
#include "h4v_native_wrap.h"
#endif

/* ---------------- harnesses ---------------- */
H4V_DECL_ND(int);
H4V_DECL_ND(int16);
H4V_DECL_ND(uint16);
H4V_DECL_ND(int32);
H4V_DECL_ND(uint8);

static VDATA *
mk_env(void)
{
    H4V_ND(int, grp);
    H4V_ND(int, inst_null);
    H4V_ND(int, vs_null);
    g_grp       = grp;
    g_inst_null = inst_null;
    g_w         = malloc(sizeof(vsinstance_t));
    g_vs        = malloc(sizeof(VDATA));
    H4V_ASSUME(g_w != NULL && g_vs != NULL);
    memset(g_vs, 0, sizeof(VDATA));
    g_w->vs = vs_null ? NULL : g_vs;
    return g_vs;
}

void
h_VSseek(void)
{
    VDATA *vs = mk_env();
    H4V_ND(int32, eltpos);
    H4V_ND(int32, nfields);
    H4V_ND(uint16, ivsize);
    H4V_ND(int32, aid);
    H4V_ND(int32, seek_ret);
    ivsize = VSSEEK_W; /* one constant record size per run keeps the product concrete x symbolic */
    H4V_ASSUME(nfields >= 0 && nfields <= VSFIELDMAX);
    H4V_ASSUME(seek_ret == SUCCEED || seek_ret == FAIL);
    vs->wlist.n      = nfields;
    vs->wlist.ivsize = ivsize;
    vs->aid          = aid;
    g_seek_n         = 0;
    g_seek_ret       = seek_ret;
    g_pos            = 0;
    int32 r          = VSseek(7, eltpos);
    H4V_COVER(r == eltpos && eltpos > 0, "VSseek succeeds");
    H4V_COVER(r == FAIL && eltpos == -2, "VSseek refuses a negative position");
    H4V_COVER(r == FAIL && nfields == 0 && eltpos > 0, "VSseek refuses a vdata without fields");
    H4V_CANARY("VSseek end");
}

#ifndef VRW_LOG
/* ---- VSread gather (bounded): <= 2 fields of 1- or 2-byte type, order <= 2, nelt <= 2, file and
   user interlace FULL/NO, read list = any non-repeating selection of the fields.  The user buffer
   is allocated with EXACTLY nelt*uvsize bytes: any write outside it is a failed pointer check. ---- */
#define RF 2
void
h_VSread(void)
{
    VDATA *vs = mk_env();
    H4V_ND(int, nf);
    H4V_ND(int, rn);
    H4V_ND(int32, nelt);
    H4V_ND(int32, interlace);
    H4V_ND(int16, vs_interlace);
    H4V_ND(int, g_r);  /* ghost record */
    H4V_ND(int, g_j);  /* ghost position in the read list */
    H4V_ND(int, g_c);  /* ghost component */
    H4V_ND(int, g_b);  /* ghost byte of the component */
    H4V_ASSUME(nf >= 1 && nf <= RF && rn >= 1 && rn <= nf && nelt >= 1 && nelt <= 2);
    H4V_ASSUME(vs_interlace == FULL_INTERLACE || vs_interlace == NO_INTERLACE);
    static int16  type[RF];
    static uint16 off[RF], isize[RF], order[RF], esize[RF];
    static char  *name[RF];
    static int    item[RF];
    H4V_ND_BUF(uint8, f_wide, nf, RF);  /* 1: 16-bit type, 0: 8-bit type */
    H4V_ND_BUF(uint8, f_order, nf, RF);
    H4V_ND_BUF(uint8, r_item, rn, RF);
    int32 ivsize = 0;
    for (int i = 0; i < RF; i++)
        if (i < nf) {
            H4V_ASSUME(f_wide[i] <= 1 && f_order[i] >= 1 && f_order[i] <= 2);
            type[i]  = f_wide[i] ? DFNT_UINT16 : DFNT_UINT8;
            order[i] = f_order[i];
            isize[i] = (uint16)(f_order[i] * (f_wide[i] ? 2 : 1));
            esize[i] = isize[i];
            off[i]   = (uint16)ivsize;
            ivsize += isize[i];
        }
    int32 uvsize = 0;
    for (int j = 0; j < RF; j++)
        if (j < rn) {
            H4V_ASSUME(r_item[j] < nf);
            item[j] = r_item[j];
            uvsize += esize[item[j]];
        }
    H4V_ASSUME(rn < 2 || item[0] != item[1]);
    vs->wlist.n      = nf;
    vs->wlist.ivsize = (uint16)ivsize;
    vs->wlist.type   = type;
    vs->wlist.off    = off;
    vs->wlist.isize  = isize;
    vs->wlist.order  = order;
    vs->wlist.esize  = esize;
    vs->wlist.name   = name;
    vs->rlist.n      = rn;
    vs->rlist.item   = item;
    vs->interlace    = vs_interlace;
    vs->nvertices    = nelt;
    vs->aid          = 77;
    vs->access       = 'r';
    g_exist          = TRUE;
    g_io_short       = 0;
    g_io_n           = 0;
    g_pos            = 0;
    g_store_len      = nelt * ivsize;
    Vtbuf            = NULL;
    Vtbufsize        = 0;
    H4V_ND_BUF(uint8, store, g_store_len, 16);
    for (int i = 0; i < 16; i++)
        if (i < g_store_len)
            g_store[i] = store[i];
    uint8 *ubuf = malloc((size_t)(nelt * uvsize));
    H4V_ASSUME(ubuf != NULL);
    int32 r = VSread(7, ubuf, nelt, interlace);
    if (KEY_BAD || (interlace != FULL_INTERLACE && interlace != NO_INTERLACE)) {
        H4V_CHECK(r == FAIL, "VSread refuses a bad key / interlace");
    }
    else if (Vtbuf != NULL || r != FAIL) { /* the only other refusal is running out of memory */
        H4V_CHECK(r == nelt, "VSread returns the number of records read");
        if (g_r >= 0 && g_r < nelt && g_j >= 0 && g_j < rn) {
            int f  = item[g_j];
            int sz = (type[f] == DFNT_UINT16) ? 2 : 1;
            if (g_c >= 0 && g_c < order[f] && g_b >= 0 && g_b < sz) {
                int32 uoff = (g_j == 1) ? esize[item[0]] : 0;
                int32 spos = (vs_interlace == FULL_INTERLACE) ? g_r * ivsize + off[f] + g_c * sz + g_b
                                                              : off[f] * nelt + g_r * isize[f] + g_c * sz + g_b;
                int32 upos = (interlace == FULL_INTERLACE) ? g_r * uvsize + uoff + g_c * sz + (sz - 1 - g_b)
                                                           : uoff * nelt + g_r * esize[f] + g_c * sz + (sz - 1 - g_b);
                H4V_CHECK(ubuf[upos] == g_store[spos], "VSread: ghost (record, field, component, byte) is where interlace and field list dictate");
            }
        }
    }
    H4V_COVER(r == nelt && nf == 2 && rn == 2 && item[0] == 1 && interlace == NO_INTERLACE && vs_interlace == FULL_INTERLACE, "VSread case A, fields swapped");
    H4V_COVER(r == nelt && nf == 2 && rn == 1 && interlace == FULL_INTERLACE && vs_interlace == FULL_INTERLACE, "VSread case C, subset");
    H4V_COVER(r == nelt && nf == 2 && interlace == FULL_INTERLACE && vs_interlace == NO_INTERLACE, "VSread case D");
    H4V_COVER(r == nelt && nf == 2 && interlace == NO_INTERLACE && vs_interlace == NO_INTERLACE, "VSread case B");
    H4V_COVER(r == nelt && nf == 1 && nelt == 2, "VSread case E");
    H4V_CANARY("VSread end");
}
#endif /* !VRW_LOG */

#ifdef VRW_LOG
/* ---------------- log-mode harnesses ---------------- */
typedef uint32 u32;
H4V_DECL_ND(u32);
#ifndef NCHUNK
#define NCHUNK 3
#endif
#define NELT_CAP ((NCHUNK - 1) * (VDATA_BUFFER_MAX / L_IVS + 1) + 5) /* up to NCHUNK transfer-buffer chunks */
#define TB_CAP 4000000u

/* good key, vdata and layout built from constants only (cbmc then resolves vs->wlist.* to constants) */
static VDATA *
mk_env_log(int mode)
{
    static vsinstance_t w_obj;
    static VDATA        vs_obj;
    static int16        type[2];
    static uint16       off[2], isize[2], order[2], esize[2];
    static char        *name[2];
    static int          item[2];
    g_grp       = VSIDGROUP;
    g_inst_null = 0;
    g_w         = &w_obj;
    g_vs        = &vs_obj;
    memset(&vs_obj, 0, sizeof(VDATA));
    w_obj.vs = &vs_obj;
    type[0]  = L_T0;
    order[0] = L_O0;
    isize[0] = esize[0] = L_S0;
    off[0]              = 0;
    type[1]             = L_T1;
    order[1]            = L_O1;
    isize[1] = esize[1] = L_S1;
    off[1]              = L_S0;
    name[0] = name[1]   = NULL;
    item[0]             = L_I0;
    item[1]             = L_I1;
    vs_obj.wlist.n      = L_NF;
    vs_obj.wlist.ivsize = L_IVS;
    vs_obj.wlist.type   = type;
    vs_obj.wlist.off    = off;
    vs_obj.wlist.isize  = isize;
    vs_obj.wlist.order  = order;
    vs_obj.wlist.esize  = esize;
    vs_obj.wlist.name   = name;
    vs_obj.rlist.n      = L_RN;
    vs_obj.rlist.item   = item;
    vs_obj.interlace    = FULL_INTERLACE;
    vs_obj.aid          = 77;
    vs_obj.access       = (mode == DFACC_WRITE) ? 'w' : 'r';
    g_exist             = TRUE;
    /* what the DFKconvert calls of one chunk must look like */
    int k = 0;
    if (mode == DFACC_READ && L_NF == 1) { /* case E: one contiguous conversion of order x chunk elements */
        g_exp_uoff[0] = 0;
        g_exp_xoff[0] = 0;
        g_exp_type[0] = L_T0;
        g_exp_ss = g_exp_ds = 0;
        g_exp_nmul          = L_O0;
        k                   = 1;
    }
    else {
        int   nj   = (mode == DFACC_READ) ? L_RN : L_NF;
        int32 uoff = 0;
        for (int j = 0; j < nj; j++) {
            int i = (mode == DFACC_READ) ? item[j] : j;
            for (int c = 0; c < order[i]; c++) {
                g_exp_uoff[k] = uoff + c * (esize[i] / order[i]);
                g_exp_xoff[k] = off[i] + c * (isize[i] / order[i]);
                g_exp_type[k] = type[i];
                k++;
            }
            uoff += esize[i];
        }
        g_exp_nmul = 1;
        g_exp_ss   = L_IVS;                                /* read: stored record; write: the user's record (all fields) */
        g_exp_ds   = (mode == DFACC_READ) ? L_UVS : L_IVS; /* read: the user's record; write: stored record */
    }
    g_exp_ncv = k;
    /* clean log */
    g_mode     = mode;
    g_io_n     = 0;
    g_io_total = 0;
    g_io_failed = g_hit_n = g_cv_n = g_cv_total = g_cv_bad = pend_set = fin_set = g_hit_live = g_malloc_failed = 0;
    g_seek_n   = 0;
    g_seek_ret = SUCCEED;
    g_pos      = 0;
    H4V_HAVOC(int32, g_r);
    H4V_HAVOC(int32, g_cvk);
    H4V_HAVOC(int32, g_io_fail_at);
    H4V_ASSUME(g_cvk >= 0 && g_cvk < g_exp_ncv && g_io_fail_at >= 0);
    return g_vs;
}
/* position (by the real VSseek), transfer buffer left by earlier calls, user buffer of exactly the
   bytes the request may touch */
static uint8 *
mk_request(VDATA *vs, int32 p, int32 nvert, long long ubytes)
{
    H4V_ND(u32, tbsz);
    H4V_ASSUME(tbsz <= TB_CAP);
    vs->nvertices = nvert;
    int32 sr      = VSseek(7, p);
    H4V_ASSUME(sr == p);
    g_p0      = p;
    g_pos0    = g_pos;
    g_elt_len = nvert * L_IVS;
    Vtbuf     = NULL;
    if (tbsz > 0) {
        Vtbuf = malloc(tbsz);
        H4V_ASSUME(Vtbuf != NULL);
    }
    Vtbufsize       = tbsz;
    g_malloc_failed = 0;
    uint8 *ubuf     = malloc(ubytes > 0 ? (size_t)ubytes : 1);
    H4V_ASSUME(ubuf != NULL);
    g_malloc_failed = 0;
    g_ubuf          = ubuf;
    g_ubuf_len      = ubytes > 0 ? ubytes : 0;
    return ubuf;
}

void
h_VSwrite_log(void)
{
    VDATA *vs = mk_env_log(DFACC_WRITE);
    H4V_ND(int32, p);
    H4V_ND(int32, nvert);
    H4V_ND(int32, nelt);
    H4V_ND(int32, il);
    H4V_ASSUME(nvert >= 0 && nvert <= 2147483647 / L_IVS && p >= 0 && p <= 2147483647 / L_IVS);
#ifdef VW_LIMIT /* C20: requests that would take the table beyond 2^31-1 bytes */
    H4V_ASSUME(nelt > 0 && ((long long)p + nelt) * L_IVS > 2147483647LL);
#else
    H4V_ASSUME(nelt >= -3 && nelt <= NELT_CAP && ((long long)p + nelt) * L_IVS <= 2147483647LL);
#endif
    int32 interlace = FULL_INTERLACE;
    if (L_NF == 1) { /* single field: the chunked path whatever the interlace */
        H4V_ASSUME(il == FULL_INTERLACE || il == NO_INTERLACE);
        interlace = il;
    }
    uint8 *ubuf = mk_request(vs, p, nvert, (long long)nelt * L_IVS);
    H4V_ASSUME(g_r >= 0 && (g_r < nelt || g_r == 0) && ((long long)p + g_r) * L_IVS <= 2147483647LL);
    g_rpos   = (p + g_r) * L_IVS;
    int32  r = VSwrite(7, ubuf, nelt, interlace);
#ifndef VW_LIMIT
    H4V_COVER(r == nelt && p < nvert && p + nelt > nvert, "VSwrite starts inside the table and runs past its end");
    H4V_COVER(r == nelt && nelt > 0 && p + nelt < nvert, "VSwrite overwrites inside the table");
    H4V_COVER(r == nelt && p == nvert && nvert > 0, "VSwrite appends");
    H4V_COVER(r == nelt && p > nvert, "VSwrite beyond the end");
    H4V_COVER(r == nelt && g_io_n >= 3 && g_hit_before > 0, "VSwrite in 3 or more chunks");
    H4V_COVER(r == nelt && g_io_n == 1 && nelt > 1, "VSwrite in one transfer");
    H4V_COVER(r == FAIL && g_io_failed && g_io_n == 2, "VSwrite: second transfer fails");
#endif
    H4V_CANARY("VSwrite end");
}

void
h_VSread_log(void)
{
    VDATA *vs = mk_env_log(DFACC_READ);
    H4V_ND(int32, p);
    H4V_ND(int32, nvert);
    H4V_ND(int32, nelt);
    H4V_ND(int32, il);
    H4V_ASSUME(nvert >= 0 && nvert <= 2147483647 / L_IVS && p >= 0 && p <= 2147483647 / L_IVS);
#if defined(VR_LIMIT) /* requests whose byte count does not fit int32 */
    H4V_ASSUME(nelt > 0 && (long long)nelt * L_IVS > 2147483647LL);
#elif defined(VR_NEG) /* a negative record count */
    H4V_ASSUME(nelt < 0 && nelt >= -1000);
#else
    H4V_ASSUME(nelt >= 0 && nelt <= NELT_CAP);
#endif
    int32 interlace = FULL_INTERLACE;
    if (L_NF == 1) {
        H4V_ASSUME(il == FULL_INTERLACE || il == NO_INTERLACE);
        interlace = il;
    }
    uint8 *ubuf = mk_request(vs, p, nvert, (long long)nelt * L_UVS);
    H4V_ASSUME(g_r >= 0 && (g_r < nelt || g_r == 0) && ((long long)p + g_r) * L_IVS <= 2147483647LL);
    g_rpos   = (p + g_r) * L_IVS;
    int32  r = VSread(7, ubuf, nelt, interlace);
#if !defined(VR_LIMIT) && !defined(VR_NEG)
    H4V_COVER(r == nelt && nelt > 0 && g_io_n >= 3 && g_hit_before > 0, "VSread in 3 or more chunks");
    H4V_COVER(r == nelt && g_io_n == 1 && nelt > 1, "VSread in one transfer");
    H4V_COVER(r == 0 && nelt == 0, "VSread of no record");
    H4V_COVER(r == FAIL && nelt > 0 && p + nelt > nvert && nvert > 0, "VSread beyond the last record fails");
#endif
    H4V_CANARY("VSread end");
}
#endif /* VRW_LOG */

/* D22 (C03): SDreaddata on a rank-0 (scalar) SDS with a non-NULL stride dereferences var->shape[0] == NULL (mfsd.c:723).
   Build: gcc D22_sdreaddata_scalar_stride.c -I/repo/hdf/src -I/repo/mfhdf/src -I/repo/_build -L/repo/_build/bin -lmfhdf -lhdf -Wl,-rpath,/repo/_build/bin
   Before the fix: SIGSEGV.  After: the call returns (SUCCEED or FAIL) without crashing: PASS. */
#include "mfhdf.h"
#include <stdio.h>
int main(void)
{
    int32 sd = SDstart("d22.hdf", DFACC_CREATE);
    int32 sds = SDcreate(sd, "s", DFNT_INT32, 0, NULL);
    int32 start[1] = {0}, edge[1] = {1}, stride[1] = {1}, v = 7, out = 0;
    if (sds == FAIL) { printf("rank-0 SDS not supported: PASS (nothing to test)\n"); return 0; }
    SDwritedata(sds, start, NULL, edge, &v);
    intn r = SDreaddata(sds, start, stride, edge, &out);
    printf("SDreaddata(scalar, stride) returned %d\nPASS\n", r);
    SDendaccess(sds); SDend(sd);
    return 0;
}

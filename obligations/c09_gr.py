"""C09: raster interlace permutation (mfgr.c)"""
from .core import ob, prop

GR = dict(unit="mfgr_u.c", file="hdf/src/mfgr.c", cex_unwind=56, objbits=10,
          trusted=["DFKNTsize (returns the component size chosen by the harness)"])
BOUND = "xdim,ydim in 1..3, ncomp in 1..3, component size in {1,2}; all 9 (in,out) interlace pairs"
ILS = {"P": "MFGR_INTERLACE_PIXEL", "L": "MFGR_INTERLACE_LINE", "C": "MFGR_INTERLACE_COMPONENT"}
for a in "PLC":
    for b in "PLC":
        ob(f"GRIil_convert_{a}{b}_b", "C09", entry="h_GRIil_convert", enforce="GRIil_convert", mode="bounded",
           bound=f"{ILS[a]} -> {ILS[b]}; xdim,ydim in 1..3, ncomp in 1..3, component size in {{1,2}}",
           defines=[f"GR_INIL={ILS[a]}", f"GR_OUTIL={ILS[b]}"], unwind=4, **GR)
ob("il_roundtrip_b", "C09", entry="h_il_roundtrip", mode="bounded", bound=BOUND, unwind=4, **GR)

prop("C09",
     residual="everything but the interlace permutation kernel: region/stride addressing and fill in GRwriteimage/GRreadimage, "
              "palettes, metadata persistence (GRIupdatemeta/GRIupdateRIG/GRend), compressed and chunked images, number types > 2 bytes, "
              "images larger than the stated bounds",
     assumptions=["A-GR-NTSIZE: DFKNTsize is stubbed (component size in {1,2} chosen by the harness)"])

/* Verification unit: hdf/src/vsfld.c -- C07 "record size, field names/types/orders and the field pack/unpack
   helper are consistent with that table": the field accessors VFnfields / VFfield{name,type,isize,esize,order}
   and the pack/unpack helper VSfpack.
   Environment (same style as units/vsfld_u.c): HAatom_group / HAatom_object hand out a harness-built
   vsinstance_t; vparse.c:scanattrs is a trusted stub (two scripted answers: VSfpack calls it twice). */
#include "h4v.h"
#include "h4v_err.h"
#include <string.h>
#include "vg_priv.h"

/* ---------------- ghost environment ---------------- */
vsinstance_t *g_w;         /* the instance HAatom_object hands out */
VDATA        *g_vs;        /* the vdata object (always valid memory; g_w->vs is g_vs or NULL) */
int           g_grp;       /* answer of HAatom_group */
int           g_inst_null; /* HAatom_object answers NULL */
int           g_malloc_failed;
/* scanattrs script: answer number g_scan_call */
int    g_scan_call;
int32  g_scan_ret[2];
int32  g_scan_ac[2];
char  *g_av[2][5];
/* VSfpack: specification-level expectations computed by the harness (constant schema per run) */
int32  g_exp_ok;    /* every name of fields_in_buf is a vdata field, every name of fields is a field in buf */
int32  g_exp_brec;  /* record size of the packed buffer */
int32  g_exp_nf;    /* number of field buffers */
int32  g_q, g_r, g_b, g_p, g_f; /* ghost field / record / byte-in-field / packed-buffer position / field-buffer position */
int32  g_exp_fend;  /* number of bytes n_records values of ghost field g_q take */
int32  g_exp_off;   /* offset of ghost field g_q inside a packed record */
int32  g_exp_sz;    /* memory size of ghost field g_q */
int32  g_p_cov;     /* buffer position g_p belongs to a selected field of a record < n_records */
uint8  g_old_p;     /* packed buffer byte at g_p on entry */
uint8  g_old_f;     /* field buffer byte [g_q][g_f] on entry */
uint8 *g_fbuf[4];   /* the field buffers handed in */
int    g_fb_null;   /* some field buffer pointer is NULL */

/* ---------------- stubs (callees outside the unit) ---------------- */
group_t
HAatom_group(atom_t atm)
{
    return (group_t)g_grp;
}
void *
HAatom_object(atom_t atm)
{
    return g_inst_null ? NULL : (void *)g_w;
}
/* vparse.c:scanattrs -- trusted stub: FAIL, or a vector of NUL-terminated tokens (scripted per call) */
int32
scanattrs(const char *attrs, int32 *attrc, char ***attrv)
{
    H4V_CHECK(attrs != NULL, "scanattrs is given a string");
    int c = g_scan_call < 1 ? 0 : 1;
    g_scan_call++;
    if (g_scan_ret[c] == FAIL)
        return FAIL;
    *attrc = g_scan_ac[c];
    *attrv = g_av[c];
    return SUCCEED;
}

#ifdef H4V_CBMC
/* field names in this unit are at most NMLEN characters: for those this unrolled strcmp is exact
   (cbmc's own model makes the search run out of memory) */
#ifndef NMLEN
#define NMLEN 1
#endif
static int
h4v_strcmp(const char *a, const char *b)
{
    for (int i = 0; i <= NMLEN; i++) {
        if (a[i] != b[i])
            return a[i] < b[i] ? -1 : 1;
        if (a[i] == 0)
            return 0;
    }
    return 0;
}
#define strcmp(a, b) h4v_strcmp(a, b)
#endif

/* malloc may fail: logged, so that "a well-formed request succeeds" can be stated allocation failure apart */
static void *
h4v_malloc(size_t h4v_sz)
{
    void *p = malloc(h4v_sz);
    if (p == NULL)
        g_malloc_failed = 1;
    return p;
}
#define malloc(n) h4v_malloc(n)

#include "vsfld.c"

#undef malloc

/* ---------------- contracts ---------------- */
#define WL      (g_vs->wlist)
#define ENV_WF  (g_w != NULL && g_vs != NULL && (g_w->vs == NULL || g_w->vs == g_vs))
/* the key is not a vdata key / has no instance / the instance has no vdata / the object is not a 'VS' (vdata header) */
#define KEY_BAD (g_grp != VSIDGROUP || g_inst_null || g_w->vs == NULL)
#define VF_BAD  (KEY_BAD || g_vs->otag != VSDESCTAG)
/* representation invariant of the field table: n entries in each of the arrays (built by the harness) */
#define WL_WF   (WL.n >= 0 && WL.n <= VSFIELDMAX)
#define IDX_BAD (index < 0 || index >= WL.n)

int32 VFnfields(int32 vkey)
    __CPROVER_requires(ENV_WF && WL_WF)
    __CPROVER_assigns()
    __CPROVER_ensures(VF_BAD ==> __CPROVER_return_value == FAIL)
    __CPROVER_ensures(!VF_BAD ==> __CPROVER_return_value == WL.n);

char *VFfieldname(int32 vkey, int32 index)
    __CPROVER_requires(ENV_WF && WL_WF)
    __CPROVER_assigns()
    __CPROVER_ensures((VF_BAD || IDX_BAD) ==> __CPROVER_return_value == NULL)
    __CPROVER_ensures(!(VF_BAD || IDX_BAD) ==> __CPROVER_return_value == WL.name[index]);

int32 VFfieldtype(int32 vkey, int32 index)
    __CPROVER_requires(ENV_WF && WL_WF)
    __CPROVER_assigns()
    __CPROVER_ensures((VF_BAD || IDX_BAD) ==> __CPROVER_return_value == FAIL)
    __CPROVER_ensures(!(VF_BAD || IDX_BAD) ==> __CPROVER_return_value == (int32)WL.type[index]);

int32 VFfieldisize(int32 vkey, int32 index)
    __CPROVER_requires(ENV_WF && WL_WF)
    __CPROVER_assigns()
    __CPROVER_ensures((VF_BAD || IDX_BAD) ==> __CPROVER_return_value == FAIL)
    __CPROVER_ensures(!(VF_BAD || IDX_BAD) ==> __CPROVER_return_value == (int32)WL.isize[index]);

int32 VFfieldesize(int32 vkey, int32 index)
    __CPROVER_requires(ENV_WF && WL_WF)
    __CPROVER_assigns()
    __CPROVER_ensures((VF_BAD || IDX_BAD) ==> __CPROVER_return_value == FAIL)
    __CPROVER_ensures(!(VF_BAD || IDX_BAD) ==> __CPROVER_return_value == (int32)WL.esize[index]);

int32 VFfieldorder(int32 vkey, int32 index)
    __CPROVER_requires(ENV_WF && WL_WF)
    __CPROVER_assigns()
    __CPROVER_ensures((VF_BAD || IDX_BAD) ==> __CPROVER_return_value == FAIL)
    __CPROVER_ensures(!(VF_BAD || IDX_BAD) ==> __CPROVER_return_value == (int32)WL.order[index]);

/* ---- VSfpack.  The schema (field sizes, names) and the two name lists are CONSTANTS of the run; the harness
   computes with a specification-level lookup what the call must do (g_exp_*).
   pack:   byte g_b of selected field g_q of record g_r lands at g_r*record_size + offset(g_q) + g_b of buf; every
           other byte of buf keeps its value; the field buffers are not written
   unpack: the inverse; buf is not written
   refused (FAIL, nothing written): bad key, a name that is not a field (of the vdata resp. of the buffer),
           bufsz < record_size * n_records, a NULL field buffer ---- */
#ifndef FP_E0
#define FP_E0 2
#define FP_E1 1
#define FP_E2 4
#endif
#ifndef FP_NREC_MAX
#define FP_NREC_MAX 3
#endif
#define FP_BUFCAP 24 /* size of the packed buffer block */
#define FP_FBCAP  12 /* size of each field buffer block */
#define FP_PACKED(r, b)  (((uint8 *)buf)[(r) * g_exp_brec + g_exp_off + (b)])
#define FP_FIELD(r, b)   (g_fbuf[g_q][(r) * g_exp_sz + (b)])
#define FP_GHOST_IN      (g_q >= 0 && g_q < g_exp_nf && g_r >= 0 && g_r < n_records && g_b >= 0 && g_b < g_exp_sz)
#define FP_REFUSED       (KEY_BAD || !g_exp_ok || (long long)bufsz < (long long)g_exp_brec * n_records || g_fb_null)
int VSfpack(int32 vsid, int packtype, const char *fields_in_buf, void *buf, int bufsz, int n_records, const char *fields, void *fldbufpt[])
    __CPROVER_requires(ENV_WF && WL_WF && buf != NULL && fldbufpt != NULL)
    __CPROVER_requires(packtype == _HDF_VSPACK || packtype == _HDF_VSUNPACK)
    __CPROVER_assigns(g_malloc_failed, g_scan_call)
    __CPROVER_assigns(packtype == _HDF_VSPACK: __CPROVER_object_whole(buf))
    __CPROVER_assigns(packtype == _HDF_VSUNPACK && g_fbuf[0] != NULL: __CPROVER_object_whole(g_fbuf[0]))
    __CPROVER_assigns(packtype == _HDF_VSUNPACK && g_fbuf[1] != NULL: __CPROVER_object_whole(g_fbuf[1]))
    __CPROVER_assigns(packtype == _HDF_VSUNPACK && g_fbuf[2] != NULL: __CPROVER_object_whole(g_fbuf[2]))
    __CPROVER_ensures(__CPROVER_return_value == SUCCEED || __CPROVER_return_value == FAIL)
    __CPROVER_ensures(FP_REFUSED ==> __CPROVER_return_value == FAIL)
    __CPROVER_ensures((!FP_REFUSED && !g_malloc_failed) ==> __CPROVER_return_value == SUCCEED)
    /* pack: selected bytes land at their place; unpack: the inverse */
    __CPROVER_ensures((__CPROVER_return_value == SUCCEED && FP_GHOST_IN) ==> FP_PACKED(g_r, g_b) == FP_FIELD(g_r, g_b))
    /* nothing else of the packed buffer is written (pack); unpack and a refused call do not write it at all */
    __CPROVER_ensures((g_p >= 0 && g_p < FP_BUFCAP && (packtype == _HDF_VSUNPACK || __CPROVER_return_value == FAIL || !g_p_cov)) ==>
                      ((uint8 *)buf)[g_p] == g_old_p)
    /* nothing of the field buffers beyond n_records values is written (unpack); pack and a refused call do not write them at all */
    __CPROVER_ensures((g_q >= 0 && g_q < 3 && g_fbuf[g_q] != NULL && g_f >= 0 && g_f < FP_FBCAP &&
                       (packtype == _HDF_VSPACK || __CPROVER_return_value == FAIL || g_f >= g_exp_fend)) ==>
                      g_fbuf[g_q][g_f] == g_old_f);

#ifdef H4V_NATIVE
#include "h4v_native_wrap.h"
#endif

/* ---------------- harnesses ---------------- */
H4V_DECL_ND(int);
H4V_DECL_ND(int16);
H4V_DECL_ND(uint16);
H4V_DECL_ND(int32);
H4V_DECL_ND(uint8);

/* key, instance and vdata object; the "bad key" cases are input choices */
static VDATA *
mk_env(void)
{
    H4V_ND(int, grp);
    H4V_ND(int, inst_null);
    H4V_ND(int, vs_null);
    H4V_ND(uint16, otag);
    g_grp       = grp;
    g_inst_null = inst_null;
    g_w         = malloc(sizeof(vsinstance_t));
    g_vs        = malloc(sizeof(VDATA));
    H4V_ASSUME(g_w != NULL && g_vs != NULL);
    memset(g_vs, 0, sizeof(VDATA));
    g_vs->otag      = otag;
    g_w->vs         = vs_null ? NULL : g_vs;
    g_malloc_failed = 0;
    g_scan_call     = 0;
    return g_vs;
}

/* a field table of n entries (any n in [0, VSFIELDMAX]) with arbitrary contents; the five arrays are separate
   blocks of exactly n elements, so that an access outside [0, n) is an access outside the table */
#ifndef VF_NCAP
#define VF_NCAP 8 /* counterexample mode: at most 8 fields */
#endif
typedef char *charp;
static char g_nmbuf[VF_NCAP + 1][2];
static void
mk_wlist(VDATA *vs)
{
    H4V_ND(int32, wl_n);
    H4V_ASSUME(wl_n >= 0 && wl_n <= VSFIELDMAX);
    H4V_ND_BUF(uint16, wl_type, wl_n, VF_NCAP);
    H4V_ND_BUF(uint16, wl_isize, wl_n, VF_NCAP);
    H4V_ND_BUF(uint16, wl_esize, wl_n, VF_NCAP);
    H4V_ND_BUF(uint16, wl_order, wl_n, VF_NCAP);
    H4V_ND_BUF(uint16, wl_off, wl_n, VF_NCAP);
    charp *wl_name = malloc((size_t)wl_n * sizeof(charp) + (wl_n == 0));
    H4V_ASSUME(wl_name != NULL);
#if !defined(H4V_CBMC) || defined(H4V_CEX)
    for (int i = 0; i < VF_NCAP; i++)
        if (i < wl_n)
            wl_name[i] = g_nmbuf[i];
#endif
    vs->wlist.n     = wl_n;
    vs->wlist.type  = (int16 *)wl_type;
    vs->wlist.isize = wl_isize;
    vs->wlist.esize = wl_esize;
    vs->wlist.order = wl_order;
    vs->wlist.off   = wl_off;
    vs->wlist.name  = wl_name;
    vs->wlist.bptr  = NULL;
}

#define VF_HARNESS(fn, T, failv)                                                                     \
    void h_##fn(void)                                                                                \
    {                                                                                                \
        VDATA *vs = mk_env();                                                                        \
        mk_wlist(vs);                                                                                \
        H4V_ND(int32, index);                                                                        \
        VF_IDX_ASSUME;                                                                               \
        T r = fn(7, index);                                                                          \
        H4V_COVER(r != failv && index == vs->wlist.n - 1 && index > 0, #fn " last field");           \
        H4V_COVER(r == failv && g_w->vs != NULL && g_grp == VSIDGROUP && !g_inst_null, #fn " refuses a non-VS object or an empty table"); \
        H4V_CANARY(#fn " end");                                                                      \
    }
#ifdef VF_INRANGE /* stand-in runs: the index is a valid one (or the table is empty) */
#define VF_IDX_ASSUME H4V_ASSUME(vs->wlist.n == 0 || (index >= 0 && index < vs->wlist.n))
#else
#define VF_IDX_ASSUME
#endif
VF_HARNESS(VFfieldname, charp, NULL)
VF_HARNESS(VFfieldtype, int32, FAIL)
VF_HARNESS(VFfieldisize, int32, FAIL)
VF_HARNESS(VFfieldesize, int32, FAIL)
VF_HARNESS(VFfieldorder, int32, FAIL)

void
h_VFnfields(void)
{
    VDATA *vs = mk_env();
    mk_wlist(vs);
    int32 r = VFnfields(7);
    H4V_COVER(r == VSFIELDMAX, "VFnfields 256 fields");
    H4V_COVER(r == 0, "VFnfields no field");
    H4V_COVER(r == FAIL && g_w->vs != NULL && g_grp == VSIDGROUP && !g_inst_null, "VFnfields refuses a non-VS object");
    H4V_CANARY("VFnfields end");
}

/* ---- VSfpack (bounded): a vdata of three fields "A","B","C" with memory sizes FP_E0, FP_E1, FP_E2 bytes (constants),
   the buffer field list FP_INBUF and the selected field list FP_FLDS are constant strings of one-letter names per run
   (undefined = NULL = "all"); n_records in [-1, FP_NREC_MAX], bufsz in [0, FP_BUFCAP], arbitrary buffer contents;
   the packed buffer and every field buffer have EXACTLY the size the caller must provide ---- */
static VDATA *
mk_env_good(void)
{
    static vsinstance_t w_obj;
    static VDATA        vs_obj;
    g_grp       = VSIDGROUP;
    g_inst_null = 0;
    g_w         = &w_obj;
    g_vs        = &vs_obj;
    memset(&vs_obj, 0, sizeof(VDATA));
    w_obj.vs        = &vs_obj;
    g_malloc_failed = 0;
    g_scan_call     = 0;
    return g_vs;
}

void
h_VSfpack(void)
{
    /* (statics are nondeterministic at harness start under dfcc: everything is assigned explicitly) */
    static uint16 esz[3];
    static char   nm[3][2];
    static char  *names[3];
    static char   tok[2][4][2];
#ifdef FP_BADKEY
    VDATA *vs = mk_env();
    H4V_ASSUME(KEY_BAD);
#else
    VDATA *vs = mk_env_good();
#endif
    esz[0] = FP_E0;
    esz[1] = FP_E1;
    esz[2] = FP_E2;
    for (int i = 0; i < 3; i++) {
        nm[i][0]  = (char)('A' + i);
        nm[i][1]  = 0;
        names[i]  = nm[i];
    }
    vs->otag        = DFTAG_VH;
    vs->wlist.n     = 3;
    vs->wlist.name  = names;
    vs->wlist.esize = esz;
    vs->wlist.isize = esz;
    H4V_HAVOC(int32, g_q);
    H4V_HAVOC(int32, g_r);
    H4V_HAVOC(int32, g_b);
    H4V_HAVOC(int32, g_p);
    H4V_HAVOC(int32, g_f);

    /* ---- specification-level lookup (constants) ---- */
    int ok = 1, nb, nf, bidx[4] = {0, 0, 0, 0}, boff[4] = {0, 0, 0, 0}, sel[4] = {0, 0, 0, 0}, brec = 0;
#ifdef FP_INBUF
    const char *inb      = FP_INBUF;
    const char *inb_arg  = "x";
    nb                   = (int)sizeof(FP_INBUF) - 1;
    g_scan_ret[0]        = SUCCEED;
    g_scan_ac[0]         = nb;
    for (int i = 0; i < nb; i++) {
        tok[0][i][0] = inb[i];
        tok[0][i][1] = 0;
        g_av[0][i]   = tok[0][i];
        int f        = -1;
        for (int j = 2; j >= 0; j--)
            if (nm[j][0] == inb[i])
                f = j;
        if (f < 0)
            ok = 0;
        else
            bidx[i] = f;
    }
    g_av[0][nb] = NULL;
#define FP_SCAN2 1
#else
    const char *inb_arg = NULL;
    nb                  = 3;
    for (int i = 0; i < 3; i++)
        bidx[i] = i;
#define FP_SCAN2 0
#endif
    for (int i = 0; i < nb; i++) {
        boff[i] = brec;
        brec += esz[bidx[i]];
    }
#ifdef FP_FLDS
    const char *fl     = FP_FLDS;
    const char *fl_arg = "y";
    nf                 = (int)sizeof(FP_FLDS) - 1;
    g_scan_ret[FP_SCAN2] = SUCCEED;
    g_scan_ac[FP_SCAN2]  = nf;
    for (int i = 0; i < nf; i++) {
        tok[1][i][0]        = fl[i];
        tok[1][i][1]        = 0;
        g_av[FP_SCAN2][i]   = tok[1][i];
        int f               = -1;
        for (int j = nb - 1; j >= 0; j--)
            if (ok && nm[bidx[j]][0] == fl[i])
                f = j;
        if (f < 0)
            ok = 0;
        else
            sel[i] = f;
    }
    g_av[FP_SCAN2][nf] = NULL;
#else
    const char *fl_arg = NULL;
    nf                 = nb;
    for (int i = 0; i < nb; i++)
        sel[i] = i;
#endif
    g_exp_ok   = ok;
    g_exp_brec = ok ? brec : 0;
    g_exp_nf   = ok ? nf : 0;

    /* ---- inputs ---- */
    H4V_ND(int, packtype);
    H4V_ND(int32, bufsz);
    H4V_ND(int32, n_records);
    H4V_ND(int, fb_null_at);
    H4V_ASSUME(packtype == _HDF_VSPACK || packtype == _HDF_VSUNPACK);
    H4V_ASSUME(bufsz >= 0 && bufsz <= FP_BUFCAP);
#ifdef FP_GATE /* the size gate alone: ANY record count for which the declared buffer is too small */
    H4V_ASSUME((long long)brec * n_records > (long long)bufsz);
#else
    H4V_ASSUME(n_records >= -1 && n_records <= FP_NREC_MAX);
#endif
    H4V_ASSUME(fb_null_at >= -1 && fb_null_at < nf);
    int32 nrec = (n_records > 0 && n_records <= FP_NREC_MAX) ? n_records : 0;
    /* constant-size blocks (symbolic-size blocks make the copy loops intractable for cbmc): the packed buffer object has
       FP_BUFCAP bytes of which the caller declares bufsz; each field buffer has room for FP_NREC_MAX records.  Writes beyond
       the declared sizes but inside the blocks are caught by the "nothing else is written" clauses (ghost g_p / g_r range
       over the whole blocks), writes beyond the blocks by the bounds checks. */
    H4V_ND_BUF(uint8, pbuf, FP_BUFCAP, FP_BUFCAP);
    H4V_ND_BUF(uint8, fb0, FP_FBCAP, FP_FBCAP);
    H4V_ND_BUF(uint8, fb1, FP_FBCAP, FP_FBCAP);
    H4V_ND_BUF(uint8, fb2, FP_FBCAP, FP_FBCAP);
    static void *fbp[4];
    fbp[0] = fb0;
    fbp[1] = fb1;
    fbp[2] = fb2;
    fbp[3] = NULL;
    g_fb_null = 0;
    for (int i = 0; i < 3; i++)
        if (i == fb_null_at) {
            fbp[i]    = NULL;
            g_fb_null = 1;
        }
    for (int i = 0; i < 4; i++)
        g_fbuf[i] = (uint8 *)fbp[i];

    /* ---- ghost field / record / byte and ghost buffer position ---- */
    g_exp_off = 0;
    g_exp_sz  = 0;
    for (int i = 0; i < 3; i++)
        if (ok && i < nf && i == g_q) {
            g_exp_off = boff[sel[i]];
            g_exp_sz  = esz[bidx[sel[i]]];
        }
    g_p_cov = 0;
    if (ok && brec > 0 && g_p >= 0 && g_p < nrec * brec)
        for (int i = 0; i < 3; i++)
            if (i < nf && g_p % brec >= boff[sel[i]] && g_p % brec < boff[sel[i]] + esz[bidx[sel[i]]])
                g_p_cov = 1;
    g_exp_fend = nrec * g_exp_sz;
    g_old_p    = (g_p >= 0 && g_p < FP_BUFCAP) ? pbuf[g_p] : 0;
    g_old_f    = 0;
    if (g_q >= 0 && g_q < 3 && g_fbuf[g_q] != NULL && g_f >= 0 && g_f < FP_FBCAP)
        g_old_f = g_fbuf[g_q][g_f];

    int r = VSfpack(7, packtype, inb_arg, pbuf, bufsz, n_records, fl_arg, fbp);

#ifdef FP_GATE
    H4V_COVER(r == FAIL && n_records == 1000, "VSfpack refuses 1000 records for a 24-byte buffer");
#elif !defined(FP_BADKEY)
#ifndef FP_EXPECT_REFUSED
    H4V_COVER(r == SUCCEED && packtype == _HDF_VSPACK && n_records == FP_NREC_MAX, "VSfpack packs the maximum number of records");
    H4V_COVER(r == SUCCEED && packtype == _HDF_VSUNPACK && n_records == FP_NREC_MAX, "VSfpack unpacks the maximum number of records");
    H4V_COVER(r == SUCCEED && n_records == 2 && bufsz > 2 * brec, "VSfpack buffer larger than needed");
    H4V_COVER(r == FAIL && n_records > 0 && bufsz == brec * n_records - 1 && fb_null_at < 0, "VSfpack refuses a buffer one byte short");
    H4V_COVER(r == FAIL && fb_null_at >= 0 && bufsz >= brec * n_records, "VSfpack refuses a NULL field buffer");
#else
    H4V_COVER(r == FAIL && !ok && fb_null_at < 0 && bufsz == FP_BUFCAP && n_records == 1, "VSfpack refuses an unknown field name");
#endif
#endif
    H4V_CANARY("VSfpack end");
}

/* Verification unit: hdf/src/atom.c (C13: handle manager -- ids never alias, stale ids rejected)
 *
 * The unit includes the REAL atom.c, so its file-static state (atom_group_list[], atom_free_list,
 * atom_id_cache[], atom_obj_cache[]) is visible to the contracts and is set up by the harnesses.
 *
 * Model ("centred" on one atom / one group):
 *   g_grp        the group the call is about; atom_group_list[g_grp] is NULL or the record g_gp
 *   g_b          ONE bucket of that group, modelled completely: its chain has <= 3 nodes
 *                (H0,H1,H2 below; the bound of the "bounded" obligations)
 *   g_b2         a second, arbitrary bucket (!= g_b): its head pointer must never change
 *   all other buckets / groups: arbitrary, never dereferenced by the functions under contract
 *   the 4-entry cache: arbitrary contents satisfying the coherence invariant CACHE_WF
 */
#include "h4v.h"
#include "h4v_err.h" /* trusted stubs: HEclear/HEpush/HEreport have no effect on atom state */
/* allocator seen by atom.c: libc's, except that a refusal is tied to the named ghost g_oom_at
   (the g_oom_at-th allocation of the call fails; 0 = none) so that the native replay can inject
   the same failure.  The harnesses themselves use the plain allocator. */
int g_oom_at;
int g_nalloc;
static void *
h4v_atom_alloc(size_t nmemb, size_t size, int zero)
{
    void *p = zero ? calloc(nmemb, size) : malloc(nmemb * size);
    g_nalloc++;
#ifdef H4V_CBMC
    __CPROVER_assume((p == NULL) == (g_nalloc == g_oom_at));
#else
    if (g_nalloc == g_oom_at) {
        free(p);
        p = NULL;
    }
#endif
    return p;
}
#define malloc(n) h4v_atom_alloc(1, (n), 0)
#define calloc(a, b) h4v_atom_alloc((a), (b), 1)
#include "atom.c"
#undef malloc
#undef calloc

/* ------------------------------------------------------------------ ghost state */
int           g_grp;    /* modelled group, 0 <= g_grp < MAXGROUP */
atom_group_t *g_gp;     /* the harness-built group record (always a valid object) */
int           g_present; /* atom_group_list[g_grp] == g_gp (else NULL: group never initialised) */
uint32        g_b;      /* modelled bucket */
uint32        g_b2;     /* ghost "other" bucket */
atom_info_t  *g_b2head; /* its head on entry */
int           g_u;      /* ghost cache slot */
/* entry snapshot of the modelled chain: nodes (always valid objects), ids, objects, length */
atom_info_t *g_n0, *g_n1, *g_n2;
int          g_len;
atom_t       g_id0, g_id1, g_id2;
void        *g_ob0, *g_ob1, *g_ob2;
/* entry snapshot of the cache and of the free list */
atom_t       g_cid0, g_cid1, g_cid2, g_cid3;
void        *g_cob0, *g_cob1, *g_cob2, *g_cob3;
atom_info_t *g_fl;     /* atom_free_list on entry */
atom_info_t *g_flnext; /* g_fl->next on entry (when g_fl != NULL) */
atom_info_t *g_p0, *g_p1, *g_p2; /* HAremove_atom: the expected chain afterwards */
int          g_plen;
uint32       g_next0;  /* HAregister_atom: nextid on entry */
uint32       g_loc;    /* HAregister_atom: the bucket the new id hashes to */
atom_info_t *g_head0;  /* HAregister_atom: head of that bucket on entry (arbitrary chain behind it) */
uint32       g_count0; /* HAdestroy_group / HAinit_group: count on entry */
atom_info_t *g_gn;     /* HAregister_atom: an arbitrary node already registered in the group */

/* ------------------------------------------------------------------ specification vocabulary
 * independent of the macros of atom.c (the codec obligation proves that they agree) */
#define SPEC_GRP(a) ((int)(((uint32)(a)) >> 28))      /* group nibble 0..15 */
#define SPEC_IDX(a) (((uint32)(a)) & 0x0FFFFFFFu)     /* 28-bit counter */
#define SPEC_ID(g, i) ((atom_t)((((uint32)(g)) << 28) | (uint32)(i)))
#define SPEC_VALIDGRP(a) (SPEC_GRP(a) < (int)MAXGROUP)
#define IDX_LIMIT 0x10000000u /* 2^28: A-ATOMWRAP */
/* hash sizes: HAinit_group admits any power of two; the lookup (ATOM_TO_LOC) and the insert
   (nextid % hash_size) agree only up to 2^28; all callers pass 16..256 */
#define HS_OK(h) ((h) != 0 && ((h) & ((h)-1)) == 0 && (h) <= IDX_LIMIT)

#define GP (atom_group_list[g_grp])
/* the group exists and is initialised (count > 0); g_present says whether the table slot holds g_gp */
#define LIVE (g_present != 0 && g_gp->count > 0)
#define HS (g_gp->hash_size)
#define LOC(a) (SPEC_IDX(a) & (HS - 1))
#define HAS_B2 (g_b2 < HS && g_b2 != g_b)
#define HEAD (g_gp->atom_list[g_b])

/* All shape predicates take the chain of the modelled bucket as (n, a, b, c): "the chain consists
   exactly of the first n of the nodes a, b, c" (n <= 3 is the bound of the bounded obligations).
   On entry that is (g_len, g_n0, g_n1, g_n2); after a removal / insertion it is the shifted tuple. */
#define CHAIN_IS(n, a, b, c)                                                                         \
    ((n) == 0   ? HEAD == NULL                                                                       \
     : (n) == 1 ? (HEAD == (a) && (a)->next == NULL)                                                 \
     : (n) == 2 ? (HEAD == (a) && (a)->next == (b) && (b)->next == NULL)                             \
                : (HEAD == (a) && (a)->next == (b) && (b)->next == (c) && (c)->next == NULL))
/* representation invariant of a registered node: the id carries its group, a counter below
   nextid, and the node sits in the bucket its id hashes to; ids in a chain are pairwise distinct */
#define ID_WF(i) (SPEC_GRP(i) == g_grp && SPEC_IDX(i) < g_gp->nextid && LOC(i) == g_b)
#define NODES_WF(n, a, b, c)                                                                         \
    (((n) < 1 || ID_WF((a)->id)) && ((n) < 2 || (ID_WF((b)->id) && (b) != (a) && (b)->id != (a)->id)) && \
     ((n) < 3 || (ID_WF((c)->id) && (c) != (a) && (c) != (b) && (c)->id != (a)->id && (c)->id != (b)->id)))
#define GROUP_WF(n, a, b, c)                                                                         \
    (g_grp >= 0 && g_grp < (int)MAXGROUP && g_gp != NULL && GP == (g_present ? g_gp : (atom_group_t *)NULL) && (n) >= 0 && (n) <= 3 &&     \
     (!LIVE || (HS_OK(HS) && g_gp->atom_list != NULL && g_b < HS && CHAIN_IS(n, a, b, c) &&            \
                NODES_WF(n, a, b, c) && g_gp->atoms >= (unsigned)(n) && g_gp->atoms <= g_gp->nextid &&        \
                g_gp->nextid <= IDX_LIMIT)))

/* uncached lookup as a specification: the node / object registered under id i (the call is
   centred: i's group is g_grp and i hashes to bucket g_b) */
#define IN_CHAIN(n, a, b, c, i, o)                                                                   \
    (((n) > 0 && (a)->id == (i) && (void *)(a)->obj_ptr == (o)) ||                                   \
     ((n) > 1 && (b)->id == (i) && (void *)(b)->obj_ptr == (o)) ||                                   \
     ((n) > 2 && (c)->id == (i) && (void *)(c)->obj_ptr == (o)))
#define LOOKUP_NODE(n, a, b, c, i)                                                                   \
    (!(SPEC_VALIDGRP(i) && LIVE)    ? (atom_info_t *)NULL                                            \
     : ((n) > 0 && (a)->id == (i)) ? (a)                                                             \
     : ((n) > 1 && (b)->id == (i)) ? (b)                                                             \
     : ((n) > 2 && (c)->id == (i)) ? (c)                                                             \
                                    : (atom_info_t *)NULL)
#define LOOKUP(n, a, b, c, i)                                                                        \
    (!(SPEC_VALIDGRP(i) && LIVE)    ? (void *)NULL                                                   \
     : ((n) > 0 && (a)->id == (i)) ? (void *)(a)->obj_ptr                                            \
     : ((n) > 1 && (b)->id == (i)) ? (void *)(b)->obj_ptr                                            \
     : ((n) > 2 && (c)->id == (i)) ? (void *)(c)->obj_ptr                                            \
                                    : (void *)NULL)
/* the call is about atom a: the model is centred on it */
#define CENTRED(a) (!SPEC_VALIDGRP(a) || (SPEC_GRP(a) == g_grp && (!LIVE || LOC(a) == g_b)))

/* cache coherence: an entry is (-1,NULL), or a registered id with the object registered under it.
   "registered" is modelled exactly for ids of the modelled bucket; ids of other groups/buckets
   cannot equal the probed atom and need no model beyond "valid group, counter below nextid" */
#define SLOT_WF(u, n, a, b, c)                                                                       \
    (atom_id_cache[u] == -1                                                                          \
         ? atom_obj_cache[u] == NULL                                                                 \
         : (SPEC_VALIDGRP(atom_id_cache[u]) &&                                                       \
            (SPEC_GRP(atom_id_cache[u]) != g_grp ||                                                  \
             (LIVE && SPEC_IDX(atom_id_cache[u]) < g_gp->nextid &&                                     \
              (LOC(atom_id_cache[u]) != g_b || IN_CHAIN(n, a, b, c, atom_id_cache[u], atom_obj_cache[u]))))))
#define NODUP(u, v) (atom_id_cache[u] != atom_id_cache[v] || atom_id_cache[u] == -1)
#define CACHE_WF(n, a, b, c)                                                                         \
    (SLOT_WF(0, n, a, b, c) && SLOT_WF(1, n, a, b, c) && SLOT_WF(2, n, a, b, c) && SLOT_WF(3, n, a, b, c) && \
     NODUP(0, 1) && NODUP(0, 2) && NODUP(0, 3) && NODUP(1, 2) && NODUP(1, 3) && NODUP(2, 3))
#define ATOMS_WF(n, a, b, c) (GROUP_WF(n, a, b, c) && CACHE_WF(n, a, b, c))
/* the entry chain */
#define E_CHAIN g_len, g_n0, g_n1, g_n2
#define WF_(t) ATOMS_WF(t)
#define CACHE_WF_(t) CACHE_WF(t)
#define LOOKUP_NODE_(t, i) LOOKUP_NODE(t, i)
#define LOOKUP_(t, i) LOOKUP(t, i)
#define CHAIN_IS_(t) CHAIN_IS(t)
#define GHOSTS_OK (g_n0 != NULL && g_n1 != NULL && g_n2 != NULL && g_gp != NULL && g_gp->atom_list != NULL && g_b < g_gp->hash_size)

/* entry snapshots (tie the ghosts to the real state; used instead of __CPROVER_old so that the
   same text is evaluated by the native replay) */
#define CACHE_SNAP                                                                                   \
    (atom_id_cache[0] == g_cid0 && atom_id_cache[1] == g_cid1 && atom_id_cache[2] == g_cid2 &&       \
     atom_id_cache[3] == g_cid3 && atom_obj_cache[0] == g_cob0 && atom_obj_cache[1] == g_cob1 &&     \
     atom_obj_cache[2] == g_cob2 && atom_obj_cache[3] == g_cob3)
#define CACHE_SAME CACHE_SNAP
#define NOT_CACHED(a)                                                                                \
    (atom_id_cache[0] != (a) && atom_id_cache[1] != (a) && atom_id_cache[2] != (a) &&                \
     atom_id_cache[3] != (a))
/* cache slot u holds a pair that was in the cache on entry */
#define PAIR_IS_OLD(u)                                                                               \
    ((atom_id_cache[u] == g_cid0 && atom_obj_cache[u] == g_cob0) ||                                  \
     (atom_id_cache[u] == g_cid1 && atom_obj_cache[u] == g_cob1) ||                                  \
     (atom_id_cache[u] == g_cid2 && atom_obj_cache[u] == g_cob2) ||                                  \
     (atom_id_cache[u] == g_cid3 && atom_obj_cache[u] == g_cob3))
#define SNAP_ID(u) ((u) == 0 ? g_cid0 : (u) == 1 ? g_cid1 : (u) == 2 ? g_cid2 : g_cid3)
#define SNAP_OB(u) ((u) == 0 ? g_cob0 : (u) == 1 ? g_cob1 : (u) == 2 ? g_cob2 : g_cob3)

#define NODE_IS(n, i, o) ((n)->id == (i) && (void *)(n)->obj_ptr == (o))
/* ids and objects of the entry chain (a released node keeps its stale id, so the entry values
   are kept in ghosts) */
#define NODES_SNAP                                                                                   \
    ((g_len < 1 || NODE_IS(g_n0, g_id0, g_ob0)) && (g_len < 2 || NODE_IS(g_n1, g_id1, g_ob1)) &&     \
     (g_len < 3 || NODE_IS(g_n2, g_id2, g_ob2)))
/* position of atom a in the entry chain, -1 = not registered (stale, foreign, never issued) */
#define SPEC_K(a)                                                                                    \
    (!(SPEC_VALIDGRP(a) && LIVE)     ? -1                                                            \
     : (g_len > 0 && g_id0 == (a)) ? 0                                                               \
     : (g_len > 1 && g_id1 == (a)) ? 1                                                               \
     : (g_len > 2 && g_id2 == (a)) ? 2                                                               \
                                   : -1)
#define SPEC_OBJ(a) (SPEC_K(a) == 0 ? g_ob0 : SPEC_K(a) == 1 ? g_ob1 : SPEC_K(a) == 2 ? g_ob2 : (void *)NULL)
/* expected chain after HAremove_atom(a): the entry chain without a's node */
#define P_CHAIN g_plen, g_p0, g_p1, g_p2
#define POST_CHAIN_DEF(a)                                                                            \
    (g_plen == (SPEC_K(a) < 0 ? g_len : g_len - 1) && g_p0 == (SPEC_K(a) == 0 ? g_n1 : g_n0) &&      \
     g_p1 == ((SPEC_K(a) == 0 || SPEC_K(a) == 1) ? g_n2 : g_n1) && g_p2 == g_n2)
#define REMOVED_NODE(a) (SPEC_K(a) == 0 ? g_n0 : SPEC_K(a) == 1 ? g_n1 : g_n2)
#define FREELIST_SAME (atom_free_list == g_fl && (g_fl == NULL || g_fl->next == g_flnext))
#define B2_SAME (!LIVE || !HAS_B2 || g_gp->atom_list[g_b2] == g_b2head)

/* ================================================================== contracts */

/* --- id codec: group recovered or rejected, nothing touched --------------------------------- */
group_t HAatom_group(atom_t atm)
    __CPROVER_requires(1)
    __CPROVER_assigns()
    __CPROVER_ensures(SPEC_VALIDGRP(atm) ? (int)__CPROVER_return_value == SPEC_GRP(atm)
                                         : __CPROVER_return_value == BADGROUP);

/* --- uncached lookup: the node registered under atm, or NULL; on success the pair goes to the
       last cache slot.  Only called by HAatom_object after all four slots missed. ------------- */
static atom_info_t *HAIfind_atom(atom_t atm)
    __CPROVER_requires(GHOSTS_OK && WF_(E_CHAIN) && CENTRED(atm) && CACHE_SNAP)
    __CPROVER_requires(NOT_CACHED(atm))
    __CPROVER_assigns(atom_id_cache[ATOM_CACHE_SIZE - 1], atom_obj_cache[ATOM_CACHE_SIZE - 1])
    __CPROVER_ensures(__CPROVER_return_value == LOOKUP_NODE_(E_CHAIN, atm))
    /* never issued / wrong kind / stale: NULL and nothing touched */
    __CPROVER_ensures(__CPROVER_return_value == NULL ==> CACHE_SAME)
    __CPROVER_ensures(__CPROVER_return_value != NULL ==>
                      (atom_id_cache[3] == atm && atom_obj_cache[3] == LOOKUP_(E_CHAIN, atm)))
    /* the group part of the invariant cannot change (frame); the cache part is re-established */
    __CPROVER_ensures(WF_(E_CHAIN));

/* --- cached lookup == uncached lookup (cache coherence) -------------------------------------- */
void *HAatom_object(atom_t atm)
    __CPROVER_requires(GHOSTS_OK && WF_(E_CHAIN) && CENTRED(atm) && CACHE_SNAP)
    __CPROVER_requires(g_u >= 0 && g_u < ATOM_CACHE_SIZE)
    __CPROVER_assigns(__CPROVER_object_whole(atom_id_cache), __CPROVER_object_whole(atom_obj_cache))
    __CPROVER_ensures(__CPROVER_return_value == LOOKUP_(E_CHAIN, atm))
    /* the cache stays coherent and duplicate free */
    __CPROVER_ensures(WF_(E_CHAIN))
    /* and only ever holds pairs it held before, or the pair just looked up */
    __CPROVER_ensures(PAIR_IS_OLD(g_u) || (LOOKUP_NODE_(E_CHAIN, atm) != NULL && atom_id_cache[g_u] == atm &&
                                           atom_obj_cache[g_u] == LOOKUP_(E_CHAIN, atm)))
    /* a rejected id (never issued, wrong kind, stale) leaves the cache as it was; only the "empty"
       id -1 may be promoted like any other cached id (harmless: its object is NULL) */
    __CPROVER_ensures((LOOKUP_NODE_(E_CHAIN, atm) == NULL && atm != -1) ==> CACHE_SAME);

/* --- release of an id ----------------------------------------------------------------------- */
void *HAremove_atom(atom_t atm)
    __CPROVER_requires(GHOSTS_OK && WF_(E_CHAIN) && CENTRED(atm) && CACHE_SNAP && NODES_SNAP)
    __CPROVER_requires(g_u >= 0 && g_u < ATOM_CACHE_SIZE)
    __CPROVER_requires(FREELIST_SAME && B2_SAME)
    __CPROVER_assigns(__CPROVER_object_whole(atom_id_cache), __CPROVER_object_whole(atom_obj_cache),
                      g_gp->atoms, g_gp->atom_list[g_b], g_n0->next, g_n1->next, g_n2->next, atom_free_list)
    /* the object registered under atm, NULL for an id that is not (or no longer) registered */
    __CPROVER_ensures(__CPROVER_return_value == SPEC_OBJ(atm))
    /* stale / foreign / never issued id: nothing changed at all */
    __CPROVER_ensures(SPEC_K(atm) < 0 ==>
                      (CACHE_SAME && FREELIST_SAME && g_gp->atoms == __CPROVER_old(g_gp->atoms)))
    /* registered id: exactly its node is unlinked and put on the free list (it keeps its stale id
       there), the count drops by one */
    __CPROVER_ensures(SPEC_K(atm) >= 0 ==>
                      (atom_free_list == REMOVED_NODE(atm) && REMOVED_NODE(atm)->next == g_fl &&
                       g_gp->atoms == __CPROVER_old(g_gp->atoms) - 1))
    /* the other nodes stay in the bucket in their order, the other bucket is untouched, and the
       bucket/cache invariant holds for the resulting chain (g_plen, g_p0, g_p1, g_p2) */
    __CPROVER_requires(POST_CHAIN_DEF(atm))
    __CPROVER_ensures(WF_(P_CHAIN) && B2_SAME)
    /* afterwards the id is dead: not in the bucket, no cache slot holds it */
    __CPROVER_ensures(LOOKUP_NODE_(P_CHAIN, atm) == NULL)
    __CPROVER_ensures(atm == -1 || NOT_CACHED(atm))
    /* the slot that held the id is emptied; any other slot keeps its pair (or is emptied as well:
       dropping cache entries is harmless, inventing or mixing them is not) */
    __CPROVER_ensures((SNAP_ID(g_u) != atm && atom_id_cache[g_u] == SNAP_ID(g_u) && atom_obj_cache[g_u] == SNAP_OB(g_u)) ||
                      (atom_id_cache[g_u] == -1 && atom_obj_cache[g_u] == NULL))
    /* the surviving nodes keep id and object */
    __CPROVER_ensures(NODES_SNAP);

/* --- issue of a new id -------------------------------------------------------------------------
   General part (no assumption on the chain behind the bucket head: the function never looks past
   the head pointer).  A-ATOMWRAP: nextid < 2^28 -- the code has no wrap guard, MAKE_ATOM masks the
   counter, so the 2^28+1st registration in one group would re-issue id 0 of that group. */
#define REG_LIVE(grp) ((int)(grp) >= 0 && (int)(grp) < (int)MAXGROUP && LIVE)
#define NEWNODE (g_gp->atom_list[g_loc])
#define REG_PRE(grp)                                                                                 \
    (g_grp >= 0 && g_grp < (int)MAXGROUP && g_gp != NULL && GP == (g_present ? g_gp : (atom_group_t *)NULL) && \
     ((int)(grp) < 0 || (int)(grp) >= (int)MAXGROUP || (int)(grp) == g_grp) && g_gn != NULL &&        \
     g_u >= 0 && g_u < ATOM_CACHE_SIZE && g_next0 == g_gp->nextid && g_gp->atom_list != NULL &&       \
     /* released nodes are in no chain */                                                            \
     (g_fl == NULL || (g_fl != g_gn && (!LIVE || g_fl != g_head0))) &&                                \
     (!LIVE || (HS_OK(HS) && g_next0 < IDX_LIMIT && g_loc == (g_next0 & (HS - 1)) && g_head0 == NEWNODE && \
                /* an arbitrary node already registered in the group, and an arbitrary cache slot: \
                   their ids carry a counter below nextid (part of ATOMS_WF) */                      \
                SPEC_GRP(g_gn->id) == g_grp && SPEC_IDX(g_gn->id) < g_next0 &&                       \
                (SPEC_GRP(SNAP_ID(g_u)) != g_grp || SPEC_IDX(SNAP_ID(g_u)) < g_next0) &&             \
                (g_b2 >= HS || g_gp->atom_list[g_b2] == g_b2head))))
/* invariant part (bounded: the new id goes into the modelled bucket whose chain has <= 2 nodes) */
#ifdef H4V_REG_WF
#define REG_WF_PRE (WF_(E_CHAIN) && g_len <= 2 && (!LIVE || g_loc == g_b) && g_fl != NULL)
#define REG_WF_POST(ok) ((ok) ? ATOMS_WF(g_len + 1, g_fl, g_n0, g_n1) : WF_(E_CHAIN))
#else
#define REG_WF_PRE 1
#define REG_WF_POST(ok) 1
#endif
atom_t HAregister_atom(group_t grp, void *object)
    __CPROVER_requires(REG_PRE(grp) && FREELIST_SAME && CACHE_SNAP && REG_WF_PRE)
    __CPROVER_assigns(g_gp->atoms, g_gp->nextid, __CPROVER_object_whole(g_gp->atom_list), atom_free_list, g_nalloc;
                      g_fl != NULL: __CPROVER_object_whole(g_fl))
    /* group out of range / never initialised / destroyed: FAIL, nothing changed */
    __CPROVER_ensures(!REG_LIVE(grp) ==> __CPROVER_return_value == FAIL)
    __CPROVER_ensures(__CPROVER_return_value == FAIL ==>
                      (g_gp->nextid == g_next0 && g_gp->atoms == __CPROVER_old(g_gp->atoms) && FREELIST_SAME &&
                       (!LIVE || (NEWNODE == g_head0 && (g_b2 >= HS || g_gp->atom_list[g_b2] == g_b2head)))))
    /* otherwise the id is the group and the next counter value ... */
    __CPROVER_ensures(__CPROVER_return_value == FAIL || __CPROVER_return_value == SPEC_ID(g_grp, g_next0))
    /* ... which is fresh: it differs from the id of every node registered in the group and from
       every cached id, and it is not the failure value */
    __CPROVER_ensures(__CPROVER_return_value == FAIL ||
                      (__CPROVER_return_value != g_gn->id && __CPROVER_return_value != atom_id_cache[g_u] &&
                       __CPROVER_return_value != -1 && SPEC_GRP(__CPROVER_return_value) == g_grp &&
                       SPEC_IDX(__CPROVER_return_value) < g_gp->nextid))
    /* its node is prepended to bucket nextid & (hash_size-1), carries the NEW id (also when the
       node comes from the free list with a stale id in it) and the object */
    __CPROVER_ensures(__CPROVER_return_value == FAIL ||
                      (NEWNODE != NULL && NEWNODE->id == __CPROVER_return_value && (void *)NEWNODE->obj_ptr == object &&
                       NEWNODE->next == g_head0 && NEWNODE != g_head0 && NEWNODE != g_gn))
    __CPROVER_ensures(__CPROVER_return_value == FAIL ||
                      (g_gp->nextid == g_next0 + 1 && g_gp->atoms == __CPROVER_old(g_gp->atoms) + 1 &&
                       ((g_b2 >= HS || g_b2 == g_loc) || g_gp->atom_list[g_b2] == g_b2head)))
    /* node source: the head of the free list if there is one */
    __CPROVER_ensures(__CPROVER_return_value == FAIL ||
                      (g_fl != NULL ? (NEWNODE == g_fl && atom_free_list == g_flnext) : atom_free_list == NULL))
    __CPROVER_ensures(CACHE_SAME)
    __CPROVER_ensures(REG_WF_POST(__CPROVER_return_value != FAIL));

/* --- end of a group ---------------------------------------------------------------------------- */
#define D_LIVE0(grp) ((int)(grp) >= 0 && (int)(grp) < (int)MAXGROUP && g_present != 0 && g_count0 > 0)
int HAdestroy_group(group_t grp)
    __CPROVER_requires(GHOSTS_OK && WF_(E_CHAIN) && CACHE_SNAP && g_u >= 0 && g_u < ATOM_CACHE_SIZE)
    __CPROVER_requires(((int)grp < 0 || (int)grp >= (int)MAXGROUP || (int)grp == g_grp) && g_count0 == g_gp->count)
    __CPROVER_assigns(g_gp->count, g_gp->atom_list, __CPROVER_object_whole(atom_id_cache), __CPROVER_object_whole(atom_obj_cache))
    __CPROVER_frees(g_gp->atom_list)
    /* bad / unknown / already destroyed group: FAIL, nothing changed */
    __CPROVER_ensures(!D_LIVE0(grp) ==> (__CPROVER_return_value == FAIL && g_gp->count == g_count0 && CACHE_SAME &&
                                         g_gp->atom_list == __CPROVER_old(g_gp->atom_list)))
    __CPROVER_ensures(D_LIVE0(grp) ==> (__CPROVER_return_value == SUCCEED && g_gp->count == g_count0 - 1))
    /* other users remain: nothing else changes */
    __CPROVER_ensures((D_LIVE0(grp) && g_count0 > 1) ==> (CACHE_SAME && g_gp->atom_list == __CPROVER_old(g_gp->atom_list)))
    /* last user: table released, and no cache slot keeps an id of the group; entries of other groups
       keep their pair (or are emptied: harmless) */
    __CPROVER_ensures((D_LIVE0(grp) && g_count0 == 1) ==>
                      (g_gp->atom_list == NULL &&
                       ((SPEC_GRP(SNAP_ID(g_u)) != g_grp && atom_id_cache[g_u] == SNAP_ID(g_u) && atom_obj_cache[g_u] == SNAP_OB(g_u)) ||
                        (atom_id_cache[g_u] == -1 && atom_obj_cache[g_u] == NULL))))
    /* every id of the group is now rejected (the group is not live) and the cache is coherent */
    __CPROVER_ensures((D_LIVE0(grp) && g_count0 == 1) ==> !LIVE)
    __CPROVER_ensures(CACHE_WF_(E_CHAIN));

/* --- start of a group -------------------------------------------------------------------------
   No frees clause: HAinit_group must never release a record that the group table still refers to. */
#define I_ARGS_OK(grp, hs) ((int)(grp) >= 0 && (int)(grp) < (int)MAXGROUP && (hs) != 0 && ((hs) & ((hs)-1)) == 0)
#define I_LIVE0 (g_present != 0 && g_count0 > 0)
int HAinit_group(group_t grp, unsigned hash_size)
    __CPROVER_requires(g_n0 != NULL && g_n1 != NULL && g_n2 != NULL && g_gp != NULL && WF_(E_CHAIN) && CACHE_SNAP &&
                       g_count0 == g_gp->count)
    __CPROVER_requires((int)grp < 0 || (int)grp >= (int)MAXGROUP || (int)grp == g_grp)
    /* a destroyed group has released its table (HAdestroy_group) */
    __CPROVER_requires(g_gp->count > 0 || g_gp->atom_list == NULL)
    __CPROVER_assigns(atom_group_list[g_grp], g_gp->count, g_gp->hash_size, g_gp->atoms, g_gp->nextid, g_gp->atom_list, g_nalloc)
    __CPROVER_ensures(!I_ARGS_OK(grp, hash_size) ==> __CPROVER_return_value == FAIL)
    /* failure (bad arguments, no memory): the table and the record it refers to are as before */
    __CPROVER_ensures(__CPROVER_return_value == FAIL ==>
                      (GP == (g_present ? g_gp : (atom_group_t *)NULL) && g_gp->count == g_count0 &&
                       g_gp->atom_list == __CPROVER_old(g_gp->atom_list)))
    __CPROVER_ensures(__CPROVER_return_value == FAIL || __CPROVER_return_value == SUCCEED)
    /* already initialised: one more user, nothing else changes (hash_size is ignored) */
    __CPROVER_ensures((__CPROVER_return_value == SUCCEED && I_LIVE0) ==>
                      (GP == g_gp && g_gp->count == g_count0 + 1 && g_gp->hash_size == __CPROVER_old(g_gp->hash_size) &&
                       g_gp->atoms == __CPROVER_old(g_gp->atoms) && g_gp->nextid == __CPROVER_old(g_gp->nextid) &&
                       g_gp->atom_list == __CPROVER_old(g_gp->atom_list)))
    /* first user (never initialised, or destroyed before): an empty table of the requested size;
       no id of the group is valid: every bucket is empty and (by CACHE_WF) no cache slot holds one */
    __CPROVER_ensures((__CPROVER_return_value == SUCCEED && !I_LIVE0) ==>
                      (GP != NULL && (g_present == 0 || GP == g_gp) && GP->count == 1 && GP->hash_size == hash_size &&
                       GP->atoms == 0 && GP->atom_list != NULL && (g_b >= hash_size || GP->atom_list[g_b] == NULL)))
    __CPROVER_ensures(CACHE_SAME);

/* --- search by object (bounded: the whole table is modelled: <= 2 buckets, the modelled chain of
       <= 3 nodes and at most one node in the other bucket) ---------------------------------------- */
static atom_info_t h_other_node;
static int h_cmp(const void *obj, const void *key);
#define S_TABLE_OK                                                                                   \
    (!LIVE || (HS <= 2 && (HS == 1 || (g_b2 == 1 - g_b && g_gp->atom_list[g_b2] == g_b2head &&       \
                                       (g_b2head == NULL || (g_b2head == &h_other_node && h_other_node.next == NULL))))))
#define S_HAS_CHAIN(key)                                                                             \
    ((g_len > 0 && (const void *)g_n0->obj_ptr == (key)) || (g_len > 1 && (const void *)g_n1->obj_ptr == (key)) || \
     (g_len > 2 && (const void *)g_n2->obj_ptr == (key)))
#define S_HAS(key)                                                                                   \
    ((g_len > 0 && (const void *)g_n0->obj_ptr == (key)) || (g_len > 1 && (const void *)g_n1->obj_ptr == (key)) || \
     (g_len > 2 && (const void *)g_n2->obj_ptr == (key)) ||                                          \
     (HS == 2 && g_b2head != NULL && (const void *)h_other_node.obj_ptr == (key)))
void *HAsearch_atom(group_t grp, HAsearch_func_t func, const void *key)
    __CPROVER_requires(GHOSTS_OK && WF_(E_CHAIN) && S_TABLE_OK && func == h_cmp)
    __CPROVER_requires((int)grp < 0 || (int)grp >= (int)MAXGROUP || (int)grp == g_grp)
    __CPROVER_assigns()
    /* the object of a registered node that matches, NULL if none does or the group is not live */
    __CPROVER_ensures(__CPROVER_return_value == ((REG_LIVE(grp) && S_HAS(key)) ? (void *)key : (void *)NULL));

#ifdef H4V_NATIVE
#include "h4v_native_wrap.h"
#endif

/* ================================================================== harnesses */
H4V_DECL_ND(int);
H4V_DECL_ND(int32);
H4V_DECL_ND(uint32);

/* objects handed to the atom layer (it never looks inside) */
static char h_objs[6];
static void *
pick_obj(int k)
{
    return (k >= 0 && k < 6) ? (void *)&h_objs[k] : NULL;
}
/* stand-ins for "some other group record" and "some other node" (never to be dereferenced) */
static atom_group_t h_other_group;
static int
h_cmp(const void *obj, const void *key)
{
    return obj == key;
}

#ifndef H4V_HS_CAP
#ifdef H4V_CEX
#define H4V_HS_CAP 64u /* counterexample mode / native replay: keep the table small */
#else
#define H4V_HS_CAP IDX_LIMIT
#endif
#endif

#define OTHER_GROUP(g)                                                                               \
    do {                                                                                             \
        H4V_ND(int, other_grp_##g);                                                                  \
        atom_group_list[g] = other_grp_##g ? &h_other_group : NULL;                                  \
    } while (0)

/* builds the group table, the modelled group with one modelled bucket of g_len <= 3 nodes, the
   free list and an arbitrary cache; the contract's requires (ATOMS_WF ...) filters the states */
static void
mk_env(void)
{
    H4V_HAVOC(int, g_grp);
    H4V_ASSUME(g_grp >= 0 && g_grp < (int)MAXGROUP);
    H4V_HAVOC(int, g_u);
    H4V_HAVOC(int, g_oom_at);
    g_nalloc = 0;
#ifdef H4V_OOM
    H4V_ASSUME(g_oom_at >= 1 && g_oom_at <= 2);
#else
    H4V_ASSUME(g_oom_at == 0);
#endif
    h_other_group.count     = 1;
    h_other_group.hash_size = 1;
    h_other_group.atom_list = NULL;
    OTHER_GROUP(0);
    OTHER_GROUP(1);
    OTHER_GROUP(2);
    OTHER_GROUP(3);
    OTHER_GROUP(4);
    OTHER_GROUP(5);
    OTHER_GROUP(6);
    OTHER_GROUP(7);
    OTHER_GROUP(8);

    g_gp = malloc(sizeof(atom_group_t));
    H4V_ASSUME(g_gp != NULL);
    H4V_ND(uint32, gp_count);
    H4V_ND(uint32, gp_hash_size);
    H4V_ND(uint32, gp_atoms);
    H4V_ND(uint32, gp_nextid);
    H4V_ASSUME(HS_OK(gp_hash_size) && gp_hash_size <= H4V_HS_CAP);
#ifdef H4V_HS_FIXED
    gp_hash_size = H4V_HS_FIXED;
#endif
    g_gp->count     = gp_count;
    g_gp->hash_size = gp_hash_size;
    g_gp->atoms     = gp_atoms;
    g_gp->nextid    = gp_nextid;
    g_gp->atom_list = malloc((size_t)gp_hash_size * sizeof(atom_info_t *));
    H4V_ASSUME(g_gp->atom_list != NULL);
#ifndef H4V_CBMC
    for (uint32 i = 0; i < gp_hash_size; i++)
        g_gp->atom_list[i] = &h_other_node; /* unmodelled buckets: something not to be touched */
#endif
    H4V_HAVOC(int, g_present);
    atom_group_list[g_grp] = g_present ? g_gp : NULL;

    /* modelled bucket */
    H4V_HAVOC(uint32, g_b);
    H4V_ASSUME(g_b < gp_hash_size);
    g_n0 = malloc(sizeof(atom_info_t));
    g_n1 = malloc(sizeof(atom_info_t));
    g_n2 = malloc(sizeof(atom_info_t));
    H4V_ASSUME(g_n0 != NULL && g_n1 != NULL && g_n2 != NULL);
    H4V_HAVOC(int, g_len);
    H4V_ASSUME(g_len >= 0 && g_len <= 3);
    H4V_HAVOC(int32, g_id0);
    H4V_HAVOC(int32, g_id1);
    H4V_HAVOC(int32, g_id2);
    H4V_ND(int, n0_obj);
    H4V_ND(int, n1_obj);
    H4V_ND(int, n2_obj);
    g_ob0 = pick_obj(n0_obj);
    g_ob1 = pick_obj(n1_obj);
    g_ob2 = pick_obj(n2_obj);
    g_n0->id      = g_id0;
    g_n1->id      = g_id1;
    g_n2->id      = g_id2;
    g_n0->obj_ptr = g_ob0;
    g_n1->obj_ptr = g_ob1;
    g_n2->obj_ptr = g_ob2;
    g_n0->next    = g_len > 1 ? g_n1 : NULL;
    g_n1->next    = g_len > 2 ? g_n2 : NULL;
    g_n2->next    = NULL;
    g_gp->atom_list[g_b] = g_len > 0 ? g_n0 : NULL;

    /* a second bucket that nobody may touch */
    H4V_HAVOC(uint32, g_b2);
    H4V_ND(int, b2_empty);
    g_b2head = b2_empty ? NULL : &h_other_node;
    if (g_b2 < gp_hash_size && g_b2 != g_b)
        g_gp->atom_list[g_b2] = g_b2head;

    /* free list: empty, or a released node that still carries its stale id */
    H4V_ND(int, fl_empty);
    H4V_ND(int, fl_single);
    H4V_ND(int32, fl_stale_id);
    H4V_ND(int, fl_stale_obj);
    if (fl_empty) {
        g_fl     = NULL;
        g_flnext = NULL;
    }
    else {
        g_fl = malloc(sizeof(atom_info_t));
        H4V_ASSUME(g_fl != NULL);
        g_flnext      = fl_single ? NULL : &h_other_node;
        g_fl->id      = fl_stale_id;
        g_fl->obj_ptr = pick_obj(fl_stale_obj);
        g_fl->next    = g_flnext;
    }
    atom_free_list = g_fl;

    /* the cache: anything (the requires keeps the coherent states) */
    H4V_HAVOC(int32, g_cid0);
    H4V_HAVOC(int32, g_cid1);
    H4V_HAVOC(int32, g_cid2);
    H4V_HAVOC(int32, g_cid3);
    H4V_ND(int, c0_obj);
    H4V_ND(int, c1_obj);
    H4V_ND(int, c2_obj);
    H4V_ND(int, c3_obj);
    g_cob0            = pick_obj(c0_obj);
    g_cob1            = pick_obj(c1_obj);
    g_cob2            = pick_obj(c2_obj);
    g_cob3            = pick_obj(c3_obj);
    atom_id_cache[0]  = g_cid0;
    atom_id_cache[1]  = g_cid1;
    atom_id_cache[2]  = g_cid2;
    atom_id_cache[3]  = g_cid3;
    atom_obj_cache[0] = g_cob0;
    atom_obj_cache[1] = g_cob1;
    atom_obj_cache[2] = g_cob2;
    atom_obj_cache[3] = g_cob3;
}

/* --- id codec (harness-level assertions over the macros of atom.c) --- */
void
h_codec(void)
{
    H4V_ND(int, g);
    H4V_ND(uint32, i);
    H4V_ND(int, g2);
    H4V_ND(uint32, i2);
    H4V_ND(uint32, hs);
    H4V_ND(int32, any);
    H4V_ASSUME(g >= 0 && g < (int)MAXGROUP && i < IDX_LIMIT);
    H4V_ASSUME(g2 >= 0 && g2 < (int)MAXGROUP && i2 < IDX_LIMIT);
    H4V_ASSUME(HS_OK(hs));
#ifdef H4V_G8
    /* group 8 (ANIDGROUP): MAKE_ATOM shifts 8 << 28 in a signed 32-bit int (kept apart) */
    H4V_ASSUME(g == (int)ANIDGROUP || g2 == (int)ANIDGROUP);
#else
    H4V_ASSUME(g != (int)ANIDGROUP && g2 != (int)ANIDGROUP);
#endif
    atom_t a  = MAKE_ATOM(g, i);
    atom_t a2 = MAKE_ATOM(g2, i2);
    H4V_CHECK(ATOM_TO_GROUP(a) == (group_t)g, "codec: group recovered");
    H4V_CHECK((uint32)(a & ATOM_MASK) == i, "codec: index recovered");
    H4V_CHECK(a == SPEC_ID(g, i) && SPEC_GRP(a) == g && SPEC_IDX(a) == i, "codec: agrees with the specification codec");
    H4V_CHECK((a == a2) == (g == g2 && i == i2), "codec: injective below 2^28");
    H4V_CHECK(a != -1 && a != FAIL, "codec: no issued id equals the failure value");
    H4V_CHECK(ATOM_TO_LOC(a, hs) == i % hs, "codec: lookup bucket == insert bucket");
    H4V_CHECK((int)ATOM_TO_GROUP(any) == SPEC_GRP(any), "codec: group of an arbitrary id");
    H4V_CHECK(ATOM_TO_GROUP((atom_t)-1) >= MAXGROUP, "codec: -1 has no valid group");
#ifdef H4V_G8
    H4V_COVER(a < 0, "codec: ids with the sign bit set exist (group 8)");
#endif
    H4V_CANARY("codec end");
}

void
h_HAatom_group(void)
{
    mk_env();
    H4V_ND(int32, atm);
    group_t r = HAatom_group(atm);
    H4V_COVER(r == BADGROUP, "HAatom_group rejects");
    H4V_COVER(r == ANIDGROUP, "HAatom_group highest group");
    H4V_CANARY("HAatom_group end");
}

void
h_HAIfind_atom(void)
{
    mk_env();
    H4V_ND(int32, atm);
    atom_info_t *r = HAIfind_atom(atm);
    H4V_COVER(r != NULL && r == g_n2, "HAIfind_atom finds third node");
    H4V_COVER(r == NULL && SPEC_VALIDGRP(atm) && LIVE && g_len == 3, "HAIfind_atom stale id in full chain");
    H4V_COVER(r == NULL && !SPEC_VALIDGRP(atm), "HAIfind_atom bad group");
    H4V_CANARY("HAIfind_atom end");
}

void
h_HAatom_object(void)
{
    mk_env();
    H4V_ND(int32, atm);
    void *r = HAatom_object(atm);
    H4V_COVER(r != NULL && g_cid0 == atm, "HAatom_object hit slot 0");
    H4V_COVER(r != NULL && g_cid1 == atm, "HAatom_object hit slot 1");
    H4V_COVER(r != NULL && g_cid2 == atm, "HAatom_object hit slot 2");
    H4V_COVER(r != NULL && g_cid3 == atm, "HAatom_object hit slot 3");
    H4V_COVER(r != NULL && g_cid0 != atm && g_cid1 != atm && g_cid2 != atm && g_cid3 != atm, "HAatom_object miss, found in bucket");
    H4V_COVER(r == NULL && SPEC_VALIDGRP(atm) && LIVE && g_len == 3, "HAatom_object stale id");
    H4V_COVER(r == NULL && atm == -1, "HAatom_object(-1)");
    H4V_CANARY("HAatom_object end");
}

void
h_HAremove_atom(void)
{
    mk_env();
    H4V_ND(int32, atm);
    int   k = SPEC_K(atm);
    g_plen  = k < 0 ? g_len : g_len - 1;
    g_p0    = k == 0 ? g_n1 : g_n0;
    g_p1    = (k == 0 || k == 1) ? g_n2 : g_n1;
    g_p2    = g_n2;
    void *r = HAremove_atom(atm);
    H4V_COVER(k == 0 && g_len == 3, "HAremove_atom first of three");
    H4V_COVER(k == 1 && g_len == 3, "HAremove_atom middle");
    H4V_COVER(k == 2, "HAremove_atom last");
    H4V_COVER(k == 0 && g_cid2 == atm, "HAremove_atom cached id");
    H4V_COVER(k < 0 && SPEC_VALIDGRP(atm) && LIVE && g_len == 3, "HAremove_atom stale id");
    H4V_COVER(k < 0 && !SPEC_VALIDGRP(atm), "HAremove_atom bad group");
    /* two-call history: the released id is rejected by the public lookup, and again by remove */
#ifndef H4V_NO_HISTORY
    void *r2 = HAatom_object(atm);
    H4V_CHECK(r2 == NULL, "released id is rejected by HAatom_object");
#endif
    H4V_CANARY("HAremove_atom end");
}

void
h_HAregister_atom(void)
{
    mk_env();
    H4V_ND(int, grp);
    H4V_ND(int, obj);
#ifdef H4V_G8
    H4V_ASSUME(grp == (int)ANIDGROUP); /* MAKE_ATOM(8, i) shifts into the sign bit: kept apart */
#else
    H4V_ASSUME(grp != (int)ANIDGROUP);
#endif
#if defined(H4V_FL_EMPTY)
    H4V_ASSUME(g_fl == NULL); /* node comes from malloc */
#elif defined(H4V_FL_NONEMPTY)
    H4V_ASSUME(g_fl != NULL); /* node comes from the free list */
#endif
    g_gn = malloc(sizeof(atom_info_t));
    H4V_ASSUME(g_gn != NULL);
    H4V_ND(int32, gn_id);
    g_gn->id      = gn_id;
    g_gn->obj_ptr = NULL;
    g_gn->next    = &h_other_node;
    g_next0       = g_gp->nextid;
    g_loc         = g_next0 & (g_gp->hash_size - 1);
    /* head of the target bucket: empty, the modelled chain, or some node with an arbitrary chain
       behind it (never a pointer to storage that does not exist yet) */
    H4V_ND(int, head_empty);
    if (g_loc != g_b)
        g_gp->atom_list[g_loc] = head_empty ? NULL : &h_other_node;
    g_head0 = g_gp->atom_list[g_loc];
    if (g_b2 < g_gp->hash_size)
        g_b2head = g_gp->atom_list[g_b2];
    atom_t r      = HAregister_atom((group_t)grp, pick_obj(obj));
#ifndef H4V_FL_EMPTY
    H4V_COVER(r != FAIL && g_fl != NULL, "HAregister_atom reuses a released node");
#endif
#if !defined(H4V_FL_NONEMPTY) && !defined(H4V_OOM)
    H4V_COVER(r != FAIL && g_fl == NULL, "HAregister_atom allocates a node");
#endif
#ifdef H4V_OOM
    H4V_COVER(r == FAIL && grp == g_grp && LIVE, "HAregister_atom out of memory");
#endif
    H4V_COVER(r != FAIL && g_head0 != NULL, "HAregister_atom prepends to a non-empty bucket");
    H4V_COVER(r != FAIL && g_head0 == NULL, "HAregister_atom first node of a bucket");
    H4V_COVER(r == FAIL && grp == g_grp, "HAregister_atom group not live");
#ifndef H4V_G8
    H4V_COVER(r == FAIL && grp != g_grp, "HAregister_atom bad group");
#endif
    H4V_CANARY("HAregister_atom end");
}

void
h_HAdestroy_group(void)
{
    mk_env();
    H4V_ND(int, grp);
    g_count0 = g_gp->count;
    int r    = HAdestroy_group((group_t)grp);
    H4V_COVER(r == SUCCEED && g_count0 == 1 && SPEC_GRP(g_cid1) == g_grp, "HAdestroy_group last user, purges a cached id");
    H4V_COVER(r == SUCCEED && g_count0 == 1 && g_cid0 != -1 && SPEC_GRP(g_cid0) != g_grp, "HAdestroy_group keeps another group's entry");
    H4V_COVER(r == SUCCEED && g_count0 > 1, "HAdestroy_group other users remain");
    H4V_COVER(r == FAIL && grp == g_grp, "HAdestroy_group group not live");
    H4V_COVER(r == FAIL && grp != g_grp, "HAdestroy_group bad group");
    H4V_CANARY("HAdestroy_group end");
}

void
h_HAinit_group(void)
{
    mk_env();
    H4V_ND(int, grp);
    H4V_ND(uint32, hash_size);
#ifdef H4V_CEX
    H4V_ASSUME(hash_size <= 64u || (hash_size & (hash_size - 1)) != 0);
#endif
    g_count0 = g_gp->count;
    if (g_count0 == 0)
        g_gp->atom_list = NULL; /* state left by HAdestroy_group */
    int r = HAinit_group((group_t)grp, hash_size);
#ifndef H4V_OOM
    H4V_COVER(r == SUCCEED && g_present && g_count0 > 0, "HAinit_group another user");
    H4V_COVER(r == SUCCEED && g_present && g_count0 == 0, "HAinit_group re-initialises a destroyed group");
    H4V_COVER(r == SUCCEED && !g_present, "HAinit_group first initialisation");
    H4V_COVER(r == FAIL && grp == g_grp, "HAinit_group bad hash size");
#else
    H4V_COVER(r == FAIL && grp == g_grp && I_ARGS_OK(grp, hash_size), "HAinit_group out of memory");
#endif
    H4V_CANARY("HAinit_group end");
}

void
h_HAsearch_atom(void)
{
    mk_env();
    H4V_ND(int, grp);
    H4V_ND(int, key);
    H4V_ND(int, other_obj);
    h_other_node.obj_ptr = pick_obj(other_obj);
    h_other_node.next    = NULL;
    void *r              = HAsearch_atom((group_t)grp, h_cmp, pick_obj(key));
    H4V_COVER(r != NULL && g_len == 3 && r == g_ob2 && r != g_ob0 && r != g_ob1, "HAsearch_atom finds the third node");
    H4V_COVER(r != NULL && !S_HAS_CHAIN(r), "HAsearch_atom finds the node of the other bucket");
    H4V_COVER(r == NULL && LIVE && grp == g_grp && g_len == 3, "HAsearch_atom no match");
    H4V_COVER(r == NULL && grp == g_grp && !LIVE, "HAsearch_atom group not live");
    H4V_CANARY("HAsearch_atom end");
}

/* Verification unit: mfhdf/src/mfsd.c (C10: the predefined metadata built on attributes)
 *   SDsetrange / SDgetrange          valid_range = [min, max], of the dataset's own number type
 *   SDsetfillvalue / SDgetfillvalue  _FillValue, one value of the dataset's own number type
 *   SDsetcal / SDgetcal              scale_factor, scale_factor_err, add_offset, add_offset_err (float64), calibrated_nt (int32)
 *   SDsetdatastrs / SDgetdatastrs    long_name, units, format, coordsys
 *   SDfindattr                       index of the attribute of a given name
 * SDIputattr (the list update) is the REAL code, inlined.  Below it an exact small model of the netCDF
 * attribute store (attr.c / array.c) is used instead of the real constructors:
 *   NC_new_attr      allocates an attribute and COPIES count*szof value bytes (at most VMAX, checked); records the
 *                    name as a name id (NC_string.hash = index in the table of predefined names, 0 = another name);
 *                    sets HDFtype from the netCDF type like attr.c; fails at call number g_fail_at
 *   NC_findattr      the slot g_pos[id] of the name id (g_pos is kept by the stubs: -1 = no such attribute)
 *   NC_new_array / NC_incr_array   append into pre-allocated room, record the position of the name; may fail
 *   NC_free_attr     log;  NC_copy_arrayvals  copies count*szof bytes (at most VMAX, checked)
 *   DFKNTsize / hdf_unmap_type     the documented tables;  NC_check_id  one file slot
 *   memcpy / strncpy / strlen      exact models for lengths <= VMAX (length checked)
 * The list has ANY number of attributes (0..H4_MAX_NC_ATTRS+1); modelled in it are the attributes of the names the
 * function under contract looks up (each present at an arbitrary position, or absent) and one ghost OTHER slot g_j.
 */
#include "h4v.h"
#include "h4v_err.h"
#include <string.h>
#include "nc_priv.h"

typedef unsigned char h4v_u8;
H4V_DECL_ND(int);
H4V_DECL_ND(int32);
H4V_DECL_ND(unsigned);
H4V_DECL_ND(h4v_u8);

#define VMAX 16 /* most value bytes the models copy */
#define NNAMES 14

/* name ids */
#define N_OTHER 0
#define N_RANGE 1
#define N_FILL 2
#define N_SF 3
#define N_SFE 4
#define N_AO 5
#define N_AOE 6
#define N_CNT 7
#define N_LONG 8
#define N_UNITS 9
#define N_FORMAT 10
#define N_COORD 11
#define N_VMAX 12
#define N_VMIN 13

static const char *const h4v_names[NNAMES] = {"",           "valid_range",    "_FillValue",    "scale_factor", "scale_factor_err",
                                              "add_offset", "add_offset_err", "calibrated_nt", "long_name",    "units",
                                              "format",     "coordsys",       "valid_max",     "valid_min"};

/* ------------------------------------------------------------------ ghost state */
int       g_cdfid;     /* the one open file slot */
NC       *g_handle;    /* NULL: no such file */
unsigned  g_old_flags; /* handle->flags on entry */
NC_var   *g_var;       /* the dataset the id names (NULL: the id names nothing) */
NC_array *g_arr0;      /* g_var->attrs on entry (NULL: no list yet) */
unsigned  g_old_n;     /* its count on entry */
int       g_pos[NNAMES];  /* where the attribute of each name is NOW (kept by the stubs); -1: absent */
int       g_pos0[NNAMES]; /* ... on entry */
unsigned  g_rel;          /* bit id set: the harness models name id (a lookup of any other name is flagged) */
NC_attr  *g_at0[NNAMES];  /* the attribute of each name on entry (NULL: absent) */
int       g_j;            /* ghost OTHER slot */
NC_attr  *g_oth;          /* the attribute in it */
int32     g_k;            /* ghost byte index */
int       g_fail_at;      /* NC_new_attr fails at this call (1-based); 0: never */
int       g_arr_fails;    /* NC_new_array / NC_incr_array fail */
int       g_newattr_calls, g_nfree, g_allocfail;
NC_attr  *g_freed;
unsigned  g_last_id;      /* name id of the last attribute made */
NC_attr  *g_made[NNAMES]; /* the last attribute NC_new_attr made for each name id */

const char *cdf_routine_name;

#define H4V_LOW(nt) ((nt)&0xff)
#define H4V_UNMAP(nt)                                                                                \
    ((H4V_LOW(nt) == DFNT_CHAR || H4V_LOW(nt) == DFNT_UCHAR)       ? NC_CHAR                         \
     : (H4V_LOW(nt) == DFNT_INT8 || H4V_LOW(nt) == DFNT_UINT8)     ? NC_BYTE                         \
     : (H4V_LOW(nt) == DFNT_INT16 || H4V_LOW(nt) == DFNT_UINT16)   ? NC_SHORT                        \
     : (H4V_LOW(nt) == DFNT_INT32 || H4V_LOW(nt) == DFNT_UINT32)   ? NC_LONG                         \
     : (H4V_LOW(nt) == DFNT_FLOAT32)                               ? NC_FLOAT                        \
     : (H4V_LOW(nt) == DFNT_FLOAT64)                               ? NC_DOUBLE                       \
                                                                   : (nc_type)FAIL)
#define H4V_MAP(t)                                                                                   \
    ((t) == NC_CHAR || (t) == NC_UNSPECIFIED ? DFNT_CHAR                                             \
     : (t) == NC_BYTE                        ? DFNT_INT8                                             \
     : (t) == NC_SHORT                       ? DFNT_INT16                                            \
     : (t) == NC_LONG                        ? DFNT_INT32                                            \
     : (t) == NC_FLOAT                       ? DFNT_FLOAT32                                          \
     : (t) == NC_DOUBLE                      ? DFNT_FLOAT64                                          \
                                             : DFNT_NONE)
/* array.c NC_typelen for the value types */
#define H4V_TYPELEN(t)                                                                               \
    ((t) == NC_BYTE || (t) == NC_CHAR ? 1 : (t) == NC_SHORT ? 2 : (t) == NC_LONG || (t) == NC_FLOAT ? 4 : (t) == NC_DOUBLE ? 8 : 0)
/* dfconv.c DFKNTsize: the little-endian bit is ignored, native and standard types have these sizes, all else FAIL */
#define H4V_BASE(nt) (((nt) & ~DFNT_LITEND) & ~DFNT_NATIVE)
#define H4V_NTSIZE(nt)                                                                               \
    ((H4V_BASE(nt) == DFNT_UCHAR || H4V_BASE(nt) == DFNT_CHAR || H4V_BASE(nt) == DFNT_INT8 || H4V_BASE(nt) == DFNT_UINT8) ? 1 \
     : (H4V_BASE(nt) == DFNT_INT16 || H4V_BASE(nt) == DFNT_UINT16)                                                         ? 2 \
     : (H4V_BASE(nt) == DFNT_INT32 || H4V_BASE(nt) == DFNT_UINT32 || H4V_BASE(nt) == DFNT_FLOAT32)                         ? 4 \
     : (H4V_BASE(nt) == DFNT_FLOAT64)                                                                                      ? 8 \
                                                                                                                           : FAIL)

/* ------------------------------------------------------------------ trusted stubs */
/* the name id of a name: the predefined names are string literals, identical literals are ONE object (cbmc, and gcc
   within a translation unit), so the identity of the object decides -- exact, and no string comparison */
static unsigned
h4v_name_id(const char *s)
{
    unsigned id = N_OTHER;
    for (unsigned n = 1; n < NNAMES; n++)
        if (s == h4v_names[n])
            id = n;
    return id;
}
static const unsigned h4v_namelen[NNAMES] = {0, 11, 10, 12, 16, 10, 14, 13, 9, 5, 6, 8, 9, 9};

static size_t
h4v_strlen(const char *s)
{
    size_t n = 0;
    for (int i = 0; i < 20; i++) {
        if (s[i] == 0)
            return n;
        n++;
    }
    H4V_CHECK(0, "model: strings are shorter than 20 characters");
    return n;
}

static void *
h4v_memcpy(void *d, const void *s, size_t n)
{
    H4V_CHECK(n <= VMAX, "model: memcpy of at most VMAX bytes");
    for (size_t i = 0; i < VMAX; i++)
        if (i < n)
            ((h4v_u8 *)d)[i] = ((const h4v_u8 *)s)[i];
    return d;
}

static char *
h4v_strncpy(char *d, const char *s, size_t n)
{
    int  stop = 0;
    char c    = 0;
    H4V_CHECK(n <= VMAX, "model: strncpy of at most VMAX bytes");
    for (size_t i = 0; i < VMAX; i++)
        if (i < n) {
            if (!stop) {
                c = s[i];
                if (c == 0)
                    stop = 1;
            }
            d[i] = stop ? 0 : c;
        }
    return d;
}

NC *
NC_check_id(int cdfid)
{
    return cdfid == g_cdfid ? g_handle : NULL;
}

nc_type
hdf_unmap_type(int type)
{
    return H4V_UNMAP(type);
}

int
DFKNTsize(int32 number_type)
{
    return H4V_NTSIZE(number_type);
}

NC_attr *
NC_new_attr(const char *name, nc_type type, unsigned count, const void *values)
{
    g_newattr_calls++;
    if (g_newattr_calls == g_fail_at) {
        g_allocfail = 1;
        return NULL;
    }
    size_t w  = H4V_TYPELEN(type);
    size_t nb = w == 1 ? (size_t)count : w == 2 ? (size_t)count * 2 : w == 4 ? (size_t)count * 4 : (size_t)count * 8;
    H4V_CHECK(w != 0 && nb <= VMAX, "model: the value has at most VMAX bytes");
    NC_attr   *a = malloc(sizeof(NC_attr));
    NC_string *s = malloc(sizeof(NC_string));
    NC_array  *d = malloc(sizeof(NC_array));
    h4v_u8    *v = malloc(VMAX);
    H4V_ASSUME(a != NULL && s != NULL && d != NULL && v != NULL);
    for (size_t i = 0; i < VMAX; i++)
        if (i < nb)
            v[i] = ((const h4v_u8 *)values)[i];
    s->hash           = h4v_name_id(name);
    s->count = s->len = h4v_namelen[s->hash];
    s->values         = (char *)name;
    d->type           = type;
    d->count          = count;
    d->len            = 0;
    d->szof           = w;
    d->values         = v;
    a->name           = s;
    a->data           = d;
    a->HDFtype        = H4V_MAP(type);
    g_last_id         = s->hash;
    g_made[s->hash]   = a;
    return a;
}

int
NC_free_attr(NC_attr *attr)
{
    g_freed = attr;
    g_nfree++;
    return SUCCEED;
}

NC_attr **
NC_findattr(NC_array **ap, const char *name)
{
    unsigned id = h4v_name_id(name);
    H4V_CHECK(id != N_OTHER && ((g_rel >> id) & 1u), "model: only names the harness models are looked up");
    if (*ap == NULL || g_pos[id] < 0)
        return NULL;
    return (NC_attr **)(*ap)->values + g_pos[id];
}

NC_array *
NC_new_array(nc_type type, unsigned count, const void *values)
{
    H4V_CHECK(type == NC_ATTRIBUTE && count == 1, "NC_new_array: the list is created with its first attribute");
    if (g_arr_fails) {
        g_allocfail = 1;
        return NULL;
    }
    NC_array *a = malloc(sizeof(NC_array));
    NC_attr **v = malloc(8 * sizeof(NC_attr *));
    H4V_ASSUME(a != NULL && v != NULL);
    a->type   = type;
    a->count  = count;
    a->len    = 0;
    a->szof   = sizeof(NC_attr *);
    v[0]      = ((NC_attr *const *)values)[0];
    a->values = (uint8_t *)v;
    if (v[0] != NULL && v[0]->name != NULL && v[0]->name->hash < NNAMES)
        g_pos[v[0]->name->hash] = 0;
    return a;
}

uint8_t *
NC_incr_array(NC_array *array, uint8_t *tail)
{
    if (array == NULL || g_arr_fails) {
        g_allocfail = 1;
        return NULL;
    }
    /* model of realloc((count+1)*szof) + copy of the tail: the lists have room for 8 more slots */
    H4V_CHECK(array->szof == sizeof(NC_attr *), "NC_incr_array on the attribute list");
    NC_attr *at                               = *(NC_attr **)tail;
    ((NC_attr **)array->values)[array->count] = at;
    if (at != NULL && at->name != NULL && at->name->hash < NNAMES)
        g_pos[at->name->hash] = (int)array->count;
    array->count++;
    return array->values;
}

void
NC_copy_arrayvals(char *target, NC_array *array)
{
    size_t nb = array->szof == 1   ? (size_t)array->count
                : array->szof == 2 ? (size_t)array->count * 2
                : array->szof == 4 ? (size_t)array->count * 4
                                   : (size_t)array->count * 8;
    H4V_CHECK(array->szof == 1 || array->szof == 2 || array->szof == 4 || array->szof == 8, "model: value sizes");
    h4v_memcpy(target, array->values, nb);
}

NC_var *
NC_hlookupvar(NC *handle, int varid)
{
    (void)handle;
    (void)varid;
    return NULL;
}

#define memcpy h4v_memcpy
#define strncpy h4v_strncpy
#define strlen h4v_strlen

#include "mfsd.c"

#undef memcpy
#undef strncpy
#undef strlen

/* ------------------------------------------------------------------ contracts */
#define M_SLOTS(a) ((NC_attr **)(a)->values)
/* the environment the ghosts describe: g_var's list is g_arr0 with g_old_n attributes; the attribute of a
   modelled name id is g_at0[id] in slot g_pos[id]; the ghost other slot holds g_oth */
#define M_ENV1(id)                                                                                   \
    (g_pos[id] == g_pos0[id] && (g_arr0 == NULL ? g_pos0[id] < 0 : g_pos0[id] < (int)g_old_n) &&      \
     (g_pos0[id] < 0 ? g_at0[id] == NULL : (g_at0[id] != NULL && M_SLOTS(g_arr0)[g_pos0[id]] == g_at0[id])))
#define M_ENV                                                                                        \
    (g_var == NULL ||                                                                                \
     (g_handle != NULL && g_var->attrs == g_arr0 &&                                                  \
      (g_arr0 == NULL ? g_old_n == 0                                                                 \
                      : (g_arr0->values != NULL && g_arr0->count == g_old_n && g_old_n <= H4_MAX_NC_ATTRS + 1 && \
                         g_arr0->szof == sizeof(NC_attr *))) &&                                       \
      g_j >= 0 && ((unsigned)g_j >= g_old_n || M_SLOTS(g_arr0)[g_j] == g_oth)))
#define M_LOGS0 (g_newattr_calls == 0 && g_nfree == 0 && g_allocfail == 0)
/* the attribute `at` carries name id, number type nt and cnt values */
#define M_ATTR_IS(at, id, nt, cnt)                                                                   \
    ((at) != NULL && (at)->name != NULL && (at)->name->hash == (id) && (at)->HDFtype == (nt) && (at)->data != NULL && \
     (at)->data->type == H4V_UNMAP(nt) && (at)->data->count == (unsigned)(cnt) && (at)->data->values != NULL &&         \
     (at)->data->szof == (size_t)H4V_TYPELEN(H4V_UNMAP(nt)))
/* the attribute of name id now in the dataset's list (NULL: none) */
#define M_NOW(id)                                                                                    \
    ((g_var->attrs != NULL && g_pos[id] >= 0 && (unsigned)g_pos[id] < g_var->attrs->count) ? M_SLOTS(g_var->attrs)[g_pos[id]] : (NC_attr *)NULL)
/* name id was put (replace in its slot, or append at the old count); the list has grown by `grown` */
#define M_PLACED(id, before)                                                                         \
    (g_var->attrs != NULL && (g_arr0 == NULL || g_var->attrs == g_arr0) &&                            \
     g_pos[id] == (g_pos0[id] >= 0 ? g_pos0[id] : (int)(before)))
/* nothing happened to the list */
#define M_UNCHANGED1(id) (g_pos[id] == g_pos0[id] && (g_pos0[id] < 0 || M_SLOTS(g_arr0)[g_pos0[id]] == g_at0[id]))
#define M_LIST_SAME (g_var->attrs == g_arr0 && (g_arr0 == NULL || g_arr0->count == g_old_n))
#define M_OTHER_KEPT ((g_arr0 == NULL || (unsigned)g_j >= g_old_n) || (g_var->attrs == g_arr0 && M_SLOTS(g_arr0)[g_j] == g_oth))
#define M_ABSENT(id) (g_pos0[id] < 0 ? 1u : 0u)

/* ---- valid range ---- */
#define SR_SZ H4V_NTSIZE(g_var->HDFtype | DFNT_NATIVE)
#define SR_BAD(pmax, pmin) (g_var == NULL || (pmax) == NULL || (pmin) == NULL || SR_SZ == FAIL || H4V_UNMAP(g_var->HDFtype) == (nc_type)FAIL)
#define SR_LIMIT (g_arr0 != NULL && g_pos0[N_RANGE] < 0 && g_old_n >= H4_MAX_NC_ATTRS)
int SDsetrange(int32 sdsid, void *pmax, void *pmin)
    __CPROVER_requires(M_ENV && M_LOGS0 && (g_var == NULL || M_ENV1(N_RANGE)))
    __CPROVER_requires(g_handle == NULL || g_handle->flags == g_old_flags)
    __CPROVER_requires(g_k >= 0 && g_k < VMAX)
    __CPROVER_assigns(g_var != NULL: g_var->attrs; g_arr0 != NULL: g_arr0->count; g_arr0 != NULL: __CPROVER_object_whole(g_arr0->values);
                      g_handle != NULL: g_handle->flags; __CPROVER_object_whole(g_pos), __CPROVER_object_whole(g_made);
                      g_newattr_calls, g_nfree, g_allocfail, g_freed, g_last_id)
    __CPROVER_ensures(__CPROVER_return_value == SUCCEED || __CPROVER_return_value == FAIL)
    /* FAIL exactly for: an id that names no dataset, a NULL argument, a number type without size or netCDF
       counterpart, an allocation failure, a full list */
    __CPROVER_ensures((__CPROVER_return_value == FAIL) == (SR_BAD(pmax, pmin) || g_allocfail || SR_LIMIT))
    /* failure: list, attribute of this name, header flags as before */
    __CPROVER_ensures((__CPROVER_return_value == FAIL && g_var != NULL) ==>
                      (M_LIST_SAME && M_UNCHANGED1(N_RANGE) && g_nfree == 0 && g_handle->flags == g_old_flags))
    __CPROVER_ensures(g_var != NULL ==> M_OTHER_KEPT)
    /* success: ONE attribute "valid_range" of the dataset's number type with 2 values, in its old slot or appended;
       value = min then max; header marked dirty */
    __CPROVER_ensures(__CPROVER_return_value == SUCCEED ==>
                      (M_PLACED(N_RANGE, g_old_n) && g_var->attrs->count == g_old_n + M_ABSENT(N_RANGE) &&
                       M_SLOTS(g_var->attrs)[g_pos[N_RANGE]] == g_made[N_RANGE] && g_newattr_calls == 1 &&
                       g_nfree == 1 - M_ABSENT(N_RANGE) && (g_pos0[N_RANGE] < 0 || g_freed == g_at0[N_RANGE]) &&
                       g_handle->flags == (g_old_flags | NC_HDIRTY)))
    __CPROVER_ensures(__CPROVER_return_value == SUCCEED ==> M_ATTR_IS(g_made[N_RANGE], N_RANGE, g_var->HDFtype, 2))
    __CPROVER_ensures((__CPROVER_return_value == SUCCEED && g_k < SR_SZ) ==>
                      (g_made[N_RANGE]->data->values[g_k] == ((h4v_u8 *)pmin)[g_k] &&
                       g_made[N_RANGE]->data->values[SR_SZ + g_k] == ((h4v_u8 *)pmax)[g_k]));

/* SDgetrange: the attribute "valid_range" found and of the dataset's netCDF type: min = first value, max = second.
   (otherwise valid_max / valid_min, both of the dataset's number type) */
#define GR_VR (g_var != NULL && g_at0[N_RANGE] != NULL && g_at0[N_RANGE]->data->type == g_var->type)
#define GR_MM                                                                                        \
    (g_var != NULL && !GR_VR && g_at0[N_VMAX] != NULL && g_at0[N_VMIN] != NULL && g_at0[N_VMAX]->HDFtype == g_var->HDFtype && \
     g_at0[N_VMIN]->HDFtype == g_var->HDFtype)
#define AT_WF(at)                                                                                    \
    ((at) == NULL || ((at)->data != NULL && (at)->data->values != NULL && ((at)->data->szof == 1 || (at)->data->szof == 2 || (at)->data->szof == 4 || (at)->data->szof == 8) && \
                      (at)->data->count >= 1 && (at)->data->count * (at)->data->szof <= VMAX))
int SDgetrange(int32 sdsid, void *pmax, void *pmin)
    __CPROVER_requires(M_ENV && (g_var == NULL || (M_ENV1(N_RANGE) && M_ENV1(N_VMAX) && M_ENV1(N_VMIN))))
    __CPROVER_requires(AT_WF(g_at0[N_RANGE]) && AT_WF(g_at0[N_VMAX]) && AT_WF(g_at0[N_VMIN]))
    __CPROVER_requires(g_at0[N_RANGE] == NULL || g_at0[N_RANGE]->data->count == 2)
    __CPROVER_requires(pmax != NULL && pmin != NULL && g_k >= 0 && g_k < VMAX)
    __CPROVER_assigns(__CPROVER_object_upto(pmax, VMAX), __CPROVER_object_upto(pmin, VMAX))
    __CPROVER_ensures(__CPROVER_return_value == SUCCEED || __CPROVER_return_value == FAIL)
    __CPROVER_ensures((__CPROVER_return_value == SUCCEED) == (GR_VR || GR_MM))
    __CPROVER_ensures((GR_VR && (size_t)g_k < g_at0[N_RANGE]->data->szof) ==>
                      (((h4v_u8 *)pmin)[g_k] == g_at0[N_RANGE]->data->values[g_k] &&
                       ((h4v_u8 *)pmax)[g_k] == g_at0[N_RANGE]->data->values[g_at0[N_RANGE]->data->szof + g_k]))
    __CPROVER_ensures((GR_VR && (size_t)g_k >= g_at0[N_RANGE]->data->szof) ==>
                      (((h4v_u8 *)pmin)[g_k] == __CPROVER_old(((h4v_u8 *)pmin)[g_k]) && ((h4v_u8 *)pmax)[g_k] == __CPROVER_old(((h4v_u8 *)pmax)[g_k])))
    __CPROVER_ensures((GR_MM && (size_t)g_k < g_at0[N_VMAX]->data->szof * g_at0[N_VMAX]->data->count) ==> ((h4v_u8 *)pmax)[g_k] == g_at0[N_VMAX]->data->values[g_k])
    __CPROVER_ensures((GR_MM && (size_t)g_k < g_at0[N_VMIN]->data->szof * g_at0[N_VMIN]->data->count) ==> ((h4v_u8 *)pmin)[g_k] == g_at0[N_VMIN]->data->values[g_k]);


/* ---- fill value ---- */
#define SF_SZ H4V_TYPELEN(H4V_UNMAP(g_var->HDFtype))
#define SF_LIMIT (g_arr0 != NULL && g_pos0[N_FILL] < 0 && g_old_n >= H4_MAX_NC_ATTRS)
int SDsetfillvalue(int32 sdsid, void *val)
    __CPROVER_requires(M_ENV && M_LOGS0 && (g_var == NULL || M_ENV1(N_FILL)))
    __CPROVER_requires(g_handle == NULL || g_handle->flags == g_old_flags)
    __CPROVER_requires(val != NULL && g_k >= 0 && g_k < VMAX)
    __CPROVER_assigns(g_var != NULL: g_var->attrs; g_arr0 != NULL: g_arr0->count; g_arr0 != NULL: __CPROVER_object_whole(g_arr0->values);
                      g_handle != NULL: g_handle->flags; __CPROVER_object_whole(g_pos), __CPROVER_object_whole(g_made);
                      g_newattr_calls, g_nfree, g_allocfail, g_freed, g_last_id)
    __CPROVER_ensures(__CPROVER_return_value == SUCCEED || __CPROVER_return_value == FAIL)
    __CPROVER_ensures((__CPROVER_return_value == FAIL) == (g_var == NULL || H4V_UNMAP(g_var->HDFtype) == (nc_type)FAIL || g_allocfail || SF_LIMIT))
    __CPROVER_ensures((__CPROVER_return_value == FAIL && g_var != NULL) ==>
                      (M_LIST_SAME && M_UNCHANGED1(N_FILL) && g_nfree == 0 && g_handle->flags == g_old_flags))
    __CPROVER_ensures(g_var != NULL ==> M_OTHER_KEPT)
    /* success: ONE attribute "_FillValue" of the dataset's own number type, count 1, in its old slot or appended */
    __CPROVER_ensures(__CPROVER_return_value == SUCCEED ==>
                      (M_PLACED(N_FILL, g_old_n) && g_var->attrs->count == g_old_n + M_ABSENT(N_FILL) &&
                       M_SLOTS(g_var->attrs)[g_pos[N_FILL]] == g_made[N_FILL] && g_newattr_calls == 1 &&
                       g_nfree == 1 - M_ABSENT(N_FILL) && (g_pos0[N_FILL] < 0 || g_freed == g_at0[N_FILL]) &&
                       g_handle->flags == (g_old_flags | NC_HDIRTY)))
    __CPROVER_ensures(__CPROVER_return_value == SUCCEED ==> M_ATTR_IS(g_made[N_FILL], N_FILL, g_var->HDFtype, 1))
    __CPROVER_ensures((__CPROVER_return_value == SUCCEED && g_k < SF_SZ) ==> g_made[N_FILL]->data->values[g_k] == ((h4v_u8 *)val)[g_k]);

/* SDgetfillvalue: the value of the attribute "_FillValue" (count*szof bytes of it), FAIL if there is none */
#define AT_NB(at) ((at)->data->szof * (at)->data->count)
#define FILL_IS_ONE_VALUE (g_at0[N_FILL]->data->count == 1 && g_at0[N_FILL]->data->type == g_var->type)
int SDgetfillvalue(int32 sdsid, void *val)
    __CPROVER_requires(M_ENV && (g_var == NULL || M_ENV1(N_FILL)) && AT_WF(g_at0[N_FILL]))
    __CPROVER_requires(g_k >= 0 && g_k < VMAX)
    __CPROVER_assigns(val != NULL: __CPROVER_object_upto(val, VMAX))
    __CPROVER_ensures(__CPROVER_return_value == SUCCEED || __CPROVER_return_value == FAIL)
    /* (D85: a "_FillValue" attribute of another type or count, which SDsetattr does not refuse, is no fill value: FAIL, nothing copied) */
    __CPROVER_ensures((__CPROVER_return_value == SUCCEED) == (val != NULL && g_var != NULL && g_at0[N_FILL] != NULL && FILL_IS_ONE_VALUE))
    __CPROVER_ensures((__CPROVER_return_value == SUCCEED && (size_t)g_k < AT_NB(g_at0[N_FILL])) ==>
                      ((h4v_u8 *)val)[g_k] == g_at0[N_FILL]->data->values[g_k]);


/* ---- calibration ---- */
#define CAL_M (M_ABSENT(N_SF) + M_ABSENT(N_SFE) + M_ABSENT(N_AO) + M_ABSENT(N_AOE) + M_ABSENT(N_CNT))
/* the list would have to grow beyond H4_MAX_NC_ATTRS */
#define CAL_LIMIT (g_arr0 != NULL && CAL_M > 0 && g_old_n + CAL_M > H4_MAX_NC_ATTRS)
#define CAL_ENV (M_ENV1(N_SF) && M_ENV1(N_SFE) && M_ENV1(N_AO) && M_ENV1(N_AOE) && M_ENV1(N_CNT))
/* name id is in its old slot, or was appended after the `before` names appended earlier in this call */
#define CAL_AT(id, before, nt) (g_pos[id] == (g_pos0[id] >= 0 ? g_pos0[id] : (int)(g_old_n + (before))) && M_ATTR_IS(g_made[id], id, nt, 1))
int SDsetcal(int32 sdsid, float64 cal, float64 cale, float64 ioff, float64 ioffe, int32 nt)
    __CPROVER_requires(M_ENV && M_LOGS0 && (g_var == NULL || CAL_ENV))
    __CPROVER_requires(g_handle == NULL || g_handle->flags == g_old_flags)
    __CPROVER_assigns(g_var != NULL: g_var->attrs; g_arr0 != NULL: g_arr0->count; g_arr0 != NULL: __CPROVER_object_whole(g_arr0->values);
                      g_handle != NULL: g_handle->flags; __CPROVER_object_whole(g_pos), __CPROVER_object_whole(g_made);
                      g_newattr_calls, g_nfree, g_allocfail, g_freed, g_last_id)
    __CPROVER_ensures(__CPROVER_return_value == SUCCEED || __CPROVER_return_value == FAIL)
    __CPROVER_ensures((__CPROVER_return_value == FAIL) == (g_var == NULL || g_allocfail || CAL_LIMIT))
    __CPROVER_ensures((__CPROVER_return_value == FAIL && g_var != NULL) ==> g_handle->flags == g_old_flags)
    __CPROVER_ensures(g_var != NULL ==> M_OTHER_KEPT)
    /* success: the five attributes, four float64 and one int32, count 1 each, each in its old slot or appended in this order */
    __CPROVER_ensures(__CPROVER_return_value == SUCCEED ==>
                      (g_var->attrs != NULL && (g_arr0 == NULL || g_var->attrs == g_arr0) && g_var->attrs->count == g_old_n + CAL_M &&
                       g_newattr_calls == 5 && g_nfree == 5 - CAL_M && g_handle->flags == (g_old_flags | NC_HDIRTY)))
    __CPROVER_ensures(__CPROVER_return_value == SUCCEED ==> CAL_AT(N_SF, 0, DFNT_FLOAT64))
    __CPROVER_ensures(__CPROVER_return_value == SUCCEED ==> CAL_AT(N_SFE, M_ABSENT(N_SF), DFNT_FLOAT64))
    __CPROVER_ensures(__CPROVER_return_value == SUCCEED ==> CAL_AT(N_AO, M_ABSENT(N_SF) + M_ABSENT(N_SFE), DFNT_FLOAT64))
    __CPROVER_ensures(__CPROVER_return_value == SUCCEED ==> CAL_AT(N_AOE, M_ABSENT(N_SF) + M_ABSENT(N_SFE) + M_ABSENT(N_AO), DFNT_FLOAT64))
    __CPROVER_ensures(__CPROVER_return_value == SUCCEED ==> CAL_AT(N_CNT, CAL_M - M_ABSENT(N_CNT), DFNT_INT32))
    /* the value bytes are checked by the harness (the address of a parameter cannot be taken in a contract) */
    __CPROVER_ensures(__CPROVER_return_value == SUCCEED ==> *(int32 *)g_made[N_CNT]->data->values == nt);

/* SDgetcal: SUCCEED iff all five attributes exist; each output receives the value (count*szof bytes) of its attribute */
#define GC_ALL (g_var != NULL && g_at0[N_SF] != NULL && g_at0[N_SFE] != NULL && g_at0[N_AO] != NULL && g_at0[N_AOE] != NULL && g_at0[N_CNT] != NULL)
#define GC_OUT(p, id) ((GC_ALL && (size_t)g_k < AT_NB(g_at0[id])) ==> ((h4v_u8 *)(p))[g_k] == g_at0[id]->data->values[g_k])
int SDgetcal(int32 sdsid, float64 *cal, float64 *cale, float64 *ioff, float64 *ioffe, int32 *nt)
    __CPROVER_requires(M_ENV && (g_var == NULL || CAL_ENV))
    __CPROVER_requires(AT_WF(g_at0[N_SF]) && AT_WF(g_at0[N_SFE]) && AT_WF(g_at0[N_AO]) && AT_WF(g_at0[N_AOE]) && AT_WF(g_at0[N_CNT]))
    __CPROVER_requires(cal != NULL && cale != NULL && ioff != NULL && ioffe != NULL && nt != NULL && g_k >= 0 && g_k < VMAX)
    __CPROVER_assigns(__CPROVER_object_upto(cal, VMAX), __CPROVER_object_upto(cale, VMAX), __CPROVER_object_upto(ioff, VMAX),
                      __CPROVER_object_upto(ioffe, VMAX), __CPROVER_object_upto(nt, VMAX))
    __CPROVER_ensures(__CPROVER_return_value == SUCCEED || __CPROVER_return_value == FAIL)
    __CPROVER_ensures((__CPROVER_return_value == SUCCEED) == GC_ALL)
    __CPROVER_ensures(GC_OUT(cal, N_SF))
    __CPROVER_ensures(GC_OUT(cale, N_SFE))
    __CPROVER_ensures(GC_OUT(ioff, N_AO))
    __CPROVER_ensures(GC_OUT(ioffe, N_AOE))
    __CPROVER_ensures(GC_OUT(nt, N_CNT));

#ifdef H4V_NATIVE
#include "h4v_native_wrap.h"
#endif

/* ------------------------------------------------------------------ harnesses */
#define SD_MKID(fid, typ, idx) (((int32)(fid) << 20) | ((int32)(typ) << 16) | (int32)(idx))

static void
reset_logs(void)
{
    g_newattr_calls = g_nfree = g_allocfail = 0;
    g_freed                                 = NULL;
    g_last_id                               = 0;
    for (int i = 0; i < NNAMES; i++)
        g_made[i] = NULL;
}

/* an attribute with arbitrary number type, count 1..cmax and value bytes */
static NC_attr *
mk_attr(unsigned id, int32 hdftype, unsigned count)
{
    NC_attr   *at = malloc(sizeof(NC_attr));
    NC_array  *d  = malloc(sizeof(NC_array));
    NC_string *s  = malloc(sizeof(NC_string));
    H4V_ASSUME(at != NULL && d != NULL && s != NULL);
    nc_type t = H4V_UNMAP(hdftype);
    H4V_ASSUME(t != (nc_type)FAIL);
    size_t w = H4V_TYPELEN(t);
    H4V_ASSUME(count >= 1 && count <= VMAX && count * w <= VMAX);
    H4V_ND_BUF(h4v_u8, avals, VMAX, VMAX);
    at->HDFtype = hdftype;
    at->data    = d;
    at->name    = s;
    d->type     = t;
    d->count    = count;
    d->len      = 0;
    d->szof     = w;
    d->values   = avals;
    s->hash     = id;
    s->count = s->len = 0;
    s->values         = NULL;
    return at;
}

/* the dataset's attribute list: any number of attributes; the names in `rel` (bit set) are modelled: each present at an
   arbitrary distinct position or absent; room for 8 more */
static NC_array *
mk_list(unsigned rel)
{
    H4V_HAVOC(int, g_j);
    H4V_HAVOC(int, g_fail_at);
    H4V_HAVOC(int, g_arr_fails);
    H4V_ND(int, list_null);
    H4V_ND(unsigned, nattrs);
    NC_array *arr = NULL;
    g_oth         = NULL;
    g_rel         = rel;
    H4V_ASSUME(g_j >= 0);
    for (int i = 0; i < NNAMES; i++) {
        g_pos[i] = g_pos0[i] = -1;
        g_at0[i]             = NULL;
    }
    if (list_null) {
        g_old_n = 0;
    }
    else {
        H4V_ASSUME(nattrs <= H4_MAX_NC_ATTRS + 1);
        arr = malloc(sizeof(NC_array));
        H4V_ASSUME(arr != NULL);
        arr->type   = NC_ATTRIBUTE;
        arr->count  = nattrs;
        arr->szof   = sizeof(NC_attr *);
        arr->len    = 0;
        arr->values = malloc((size_t)(nattrs + 8) * sizeof(NC_attr *));
        H4V_ASSUME(arr->values != NULL);
        g_old_n = nattrs;
        if ((unsigned)g_j < nattrs) {
            g_oth = malloc(sizeof(NC_attr));
            H4V_ASSUME(g_oth != NULL);
            g_oth->name                    = NULL;
            g_oth->data                    = NULL;
            g_oth->HDFtype                 = DFNT_FLOAT64;
            ((NC_attr **)arr->values)[g_j] = g_oth;
        }
    }
    g_arr0 = arr;
    return arr;
}

/* put a modelled attribute of name id into the list (or leave the name absent) */
static void
mk_present(NC_array *arr, unsigned id, int pos, int32 hdftype, unsigned count)
{
    if (arr == NULL || pos < 0)
        return;
    H4V_ASSUME(pos < (int)g_old_n && pos != g_j);
    for (int i = 0; i < NNAMES; i++)
        H4V_ASSUME(g_pos0[i] != pos);
    NC_attr *at                    = mk_attr(id, hdftype, count);
    ((NC_attr **)arr->values)[pos] = at;
    g_pos[id] = g_pos0[id] = pos;
    g_at0[id]              = at;
}

/* one file with a dataset table; `id` is decoded the documented way (file slot in bits 20..31, kind in bits 16..19,
   index in bits 0..15); g_var is the dataset it names */
static void
mk_file(int32 id, NC_array *arr)
{
    H4V_HAVOC(int, g_cdfid);
    H4V_ND(int, handle_null);
    H4V_ND(unsigned, hflags);
    H4V_ND(unsigned, nvars);
    H4V_ND(int, vars_null);
    H4V_ND(int32, var_hdftype);
    H4V_ND(int, var_nctype);
    H4V_ASSUME(g_cdfid >= 0 && g_cdfid < 0x1000);
    H4V_ASSUME(nvars <= 0x10000);
    int      fid = (int)((id >> 20) & 0xfff);
    int      typ = (int)((id >> 16) & 0x0f);
    unsigned idx = (unsigned)(id & 0xffff);
    g_handle     = NULL;
    g_var        = NULL;
    g_old_flags  = hflags;
    if (handle_null)
        return;
    g_handle = malloc(sizeof(NC));
    H4V_ASSUME(g_handle != NULL);
    g_handle->flags     = hflags;
    g_handle->xdrs      = NULL;
    g_handle->file_type = HDF_FILE;
    g_handle->attrs     = NULL;
    g_handle->vars      = NULL;
    g_handle->dims      = NULL;
    NC_var *var         = malloc(sizeof(NC_var));
    H4V_ASSUME(var != NULL);
    var->attrs   = arr;
    var->HDFtype = var_hdftype;
    /* SDcreate: the netCDF type is the image of the HDF number type */
    var->type = H4V_UNMAP(var_hdftype) != (nc_type)FAIL ? H4V_UNMAP(var_hdftype) : (nc_type)var_nctype;
    if (!vars_null) {
        NC_array *va = malloc(sizeof(NC_array));
        H4V_ASSUME(va != NULL);
        va->type   = NC_VARIABLE;
        va->count  = nvars;
        va->szof   = sizeof(NC_var *);
        va->len    = 0;
        va->values = malloc(((size_t)nvars + 1) * sizeof(NC_var *));
        H4V_ASSUME(va->values != NULL);
        if (idx < nvars)
            ((NC_var **)va->values)[idx] = var;
        g_handle->vars = va;
    }
    if (id != -1 && fid == g_cdfid && typ == SDSTYPE && !vars_null && idx < nvars)
        g_var = var;
}

#define BIT(id) (1u << (id))

void
h_SDsetrange(void)
{
    H4V_ND(int32, id);
    H4V_ND(int, pos_range);
    H4V_ND(int32, old_nt);
    H4V_ND(unsigned, old_count);
    H4V_ND(int, null_case);
    H4V_HAVOC(int32, g_k);
    H4V_ASSUME(g_k >= 0 && g_k < VMAX);
    NC_array *arr = mk_list(BIT(N_RANGE));
    mk_present(arr, N_RANGE, pos_range, old_nt, old_count);
    reset_logs();
    mk_file(id, arr);
    H4V_ND_BUF(h4v_u8, vmax, 8, 8);
    H4V_ND_BUF(h4v_u8, vmin, 8, 8);
    int r = SDsetrange(id, null_case == 1 ? NULL : vmax, null_case == 2 ? NULL : vmin);
    H4V_COVER(r == SUCCEED && g_pos0[N_RANGE] >= 0 && g_var->HDFtype == DFNT_UINT16, "setrange: replace, uint16");
    H4V_COVER(r == SUCCEED && g_pos0[N_RANGE] < 0 && g_arr0 != NULL && g_var->HDFtype == DFNT_FLOAT64, "setrange: append, float64");
    H4V_COVER(r == SUCCEED && g_arr0 == NULL, "setrange: first attribute");
    H4V_COVER(r == FAIL && g_var != NULL && g_allocfail, "setrange: allocation fails");
    H4V_COVER(r == FAIL && g_var != NULL && SR_LIMIT, "setrange: list full");
    H4V_COVER(r == FAIL && g_var == NULL && g_handle != NULL, "setrange: id names nothing");
    H4V_CANARY("SDsetrange end");
}

void
h_SDgetrange(void)
{
    H4V_ND(int32, id);
    H4V_ND(int, pos_range);
    H4V_ND(int32, range_nt);
    H4V_ND(int, pos_vmax);
    H4V_ND(int32, vmax_nt);
    H4V_ND(unsigned, vmax_count);
    H4V_ND(int, pos_vmin);
    H4V_ND(int32, vmin_nt);
    H4V_ND(unsigned, vmin_count);
    H4V_HAVOC(int32, g_k);
    H4V_ASSUME(g_k >= 0 && g_k < VMAX);
    NC_array *arr = mk_list(BIT(N_RANGE) | BIT(N_VMAX) | BIT(N_VMIN));
    mk_present(arr, N_RANGE, pos_range, range_nt, 2);
    mk_present(arr, N_VMAX, pos_vmax, vmax_nt, vmax_count);
    mk_present(arr, N_VMIN, pos_vmin, vmin_nt, vmin_count);
    reset_logs();
    mk_file(id, arr);
    H4V_ND_BUF(h4v_u8, omax, VMAX, VMAX);
    H4V_ND_BUF(h4v_u8, omin, VMAX, VMAX);
    int r = SDgetrange(id, omax, omin);
    H4V_COVER(r == SUCCEED && GR_VR && g_var->HDFtype == DFNT_INT32, "getrange: valid_range, int32");
    H4V_COVER(r == SUCCEED && GR_MM, "getrange: valid_max / valid_min");
    H4V_COVER(r == FAIL && g_var != NULL && g_at0[N_RANGE] != NULL, "getrange: valid_range of another type");
    H4V_COVER(r == FAIL && g_var != NULL && g_arr0 == NULL, "getrange: no attributes");
    H4V_CANARY("SDgetrange end");
}

/* set then get: the values come back, max as max and min as min, nothing beyond the value size is written */
void
h_range_rt(void)
{
    H4V_ND(int32, id);
    H4V_ND(int, pos_range);
    H4V_ND(int32, old_nt);
    H4V_ND(unsigned, old_count);
    H4V_HAVOC(int32, g_k);
    H4V_ASSUME(g_k >= 0 && g_k < VMAX);
    NC_array *arr = mk_list(BIT(N_RANGE) | BIT(N_VMAX) | BIT(N_VMIN));
    mk_present(arr, N_RANGE, pos_range, old_nt, old_count);
    reset_logs();
    mk_file(id, arr);
    H4V_ND_BUF(h4v_u8, vmax, 8, 8);
    H4V_ND_BUF(h4v_u8, vmin, 8, 8);
    H4V_ND_BUF(h4v_u8, omax, VMAX, VMAX);
    H4V_ND_BUF(h4v_u8, omin, VMAX, VMAX);
    h4v_u8 gmax = omax[g_k], gmin = omin[g_k];
    int    r1 = SDsetrange(id, vmax, vmin);
    if (r1 == SUCCEED) {
        int sz = SR_SZ;
        int r2 = SDgetrange(id, omax, omin);
        H4V_CHECK(r2 == SUCCEED, "range round trip: SDgetrange succeeds after SDsetrange");
        H4V_CHECK(g_k >= sz || (omax[g_k] == vmax[g_k] && omin[g_k] == vmin[g_k]), "range round trip: max and min come back as set");
        H4V_CHECK(g_k < sz || (omax[g_k] == gmax && omin[g_k] == gmin), "range round trip: nothing written beyond the value size");
        H4V_COVER(sz == 8 && g_k == 7, "range_rt: float64");
        H4V_COVER(sz == 1 && g_pos0[N_RANGE] >= 0, "range_rt: one byte, replaced");
    }
    else if (g_var != NULL) {
        /* failure: a later query sees what it saw before */
        H4V_CHECK(M_LIST_SAME && M_UNCHANGED1(N_RANGE), "range: a failed SDsetrange leaves the old valid_range");
    }
    H4V_CANARY("range_rt end");
}

/* ---- fill value ---- */
void
h_SDsetfillvalue(void)
{
    H4V_ND(int32, id);
    H4V_ND(int, pos_fill);
    H4V_ND(int32, old_nt);
    H4V_ND(unsigned, old_count);
    H4V_HAVOC(int32, g_k);
    H4V_ASSUME(g_k >= 0 && g_k < VMAX);
    NC_array *arr = mk_list(BIT(N_FILL));
    mk_present(arr, N_FILL, pos_fill, old_nt, old_count);
    reset_logs();
    mk_file(id, arr);
    H4V_ND_BUF(h4v_u8, fv, 8, 8);
    int r = SDsetfillvalue(id, fv);
    H4V_COVER(r == SUCCEED && g_pos0[N_FILL] >= 0 && g_var->HDFtype == DFNT_UINT32, "setfill: replace, uint32");
    H4V_COVER(r == SUCCEED && g_pos0[N_FILL] < 0 && g_arr0 != NULL && g_var->HDFtype == DFNT_FLOAT64, "setfill: append, float64");
    H4V_COVER(r == SUCCEED && g_arr0 == NULL, "setfill: first attribute");
    H4V_COVER(r == FAIL && g_var != NULL && g_allocfail, "setfill: allocation fails");
    H4V_COVER(r == FAIL && g_var != NULL && SF_LIMIT, "setfill: list full");
    H4V_CANARY("SDsetfillvalue end");
}

void
h_SDgetfillvalue(void)
{
    H4V_ND(int32, id);
    H4V_ND(int, pos_fill);
    H4V_ND(int32, fill_nt);
    H4V_ND(unsigned, fill_count);
    H4V_ND(int, val_null);
    H4V_HAVOC(int32, g_k);
    H4V_ASSUME(g_k >= 0 && g_k < VMAX);
    NC_array *arr = mk_list(BIT(N_FILL));
    mk_present(arr, N_FILL, pos_fill, fill_nt, fill_count);
    reset_logs();
    mk_file(id, arr);
    H4V_ND_BUF(h4v_u8, out, VMAX + 1, VMAX + 1);
    h4v_u8 guard = out[VMAX];
    int    r     = SDgetfillvalue(id, val_null ? NULL : out);
    H4V_CHECK(out[VMAX] == guard, "SDgetfillvalue: nothing written beyond the model's largest value");
    H4V_COVER(r == SUCCEED && fill_count == 1 && g_at0[N_FILL]->data->szof == 2, "getfill: one 16-bit value");
    H4V_COVER(r == FAIL && g_var != NULL && !val_null, "getfill: no fill value set");
    H4V_CANARY("SDgetfillvalue end");
}

/* set then get: the fill value comes back; exactly the dataset's value size is written */
void
h_fill_rt(void)
{
    H4V_ND(int32, id);
    H4V_ND(int, pos_fill);
    H4V_ND(int32, old_nt);
    H4V_ND(unsigned, old_count);
    H4V_HAVOC(int32, g_k);
    H4V_ASSUME(g_k >= 0 && g_k < VMAX);
    NC_array *arr = mk_list(BIT(N_FILL));
    mk_present(arr, N_FILL, pos_fill, old_nt, old_count);
    reset_logs();
    mk_file(id, arr);
    H4V_ND_BUF(h4v_u8, fv, 8, 8);
    H4V_ND_BUF(h4v_u8, out, VMAX, VMAX);
    h4v_u8 g0 = out[g_k];
    int    r1 = SDsetfillvalue(id, fv);
    if (r1 == SUCCEED) {
        int sz = SF_SZ;
        int r2 = SDgetfillvalue(id, out);
        H4V_CHECK(r2 == SUCCEED, "fill round trip: SDgetfillvalue succeeds after SDsetfillvalue");
        H4V_CHECK(g_k >= sz || out[g_k] == fv[g_k], "fill round trip: the value comes back as set");
        H4V_CHECK(g_k < sz || out[g_k] == g0, "fill round trip: nothing written beyond the dataset's value size");
        H4V_COVER(sz == 8 && g_k == 7 && g_pos0[N_FILL] >= 0, "fill_rt: float64 replaced");
        H4V_COVER(sz == 2, "fill_rt: 16 bit");
    }
    else if (g_var != NULL) {
        H4V_CHECK(M_LIST_SAME && M_UNCHANGED1(N_FILL), "fill: a failed SDsetfillvalue leaves the old fill value");
    }
    H4V_CANARY("fill_rt end");
}

/* candidate (a): the caller's buffer holds ONE value of the dataset's type (what the interface documents); the attribute
   "_FillValue" is whatever an earlier SDsetattr put under that name (any type, any count) */
void
h_SDgetfillvalue_foreign(void)
{
    H4V_ND(int32, id);
    H4V_ND(int, pos_fill);
    H4V_ND(int32, fill_nt);
    H4V_ND(unsigned, fill_count);
    g_k           = 0;
    NC_array *arr = mk_list(BIT(N_FILL));
    mk_present(arr, N_FILL, pos_fill, fill_nt, fill_count);
    reset_logs();
    mk_file(id, arr);
    H4V_ASSUME(g_var != NULL && g_at0[N_FILL] != NULL);
    int sz = H4V_NTSIZE(g_var->HDFtype);
    H4V_ASSUME(sz != FAIL && H4V_UNMAP(g_var->HDFtype) != (nc_type)FAIL);
    H4V_ND_BUF(h4v_u8, out, VMAX, VMAX);
    h4v_u8 *val   = out; /* the caller's variable of `sz` bytes followed by other data of the caller */
    h4v_u8  after = out[sz];
    int     r     = SDgetfillvalue(id, val);
    H4V_CHECK(r == FAIL || out[sz] == after, "SDgetfillvalue writes only ONE value of the dataset's type into the caller's variable");
    H4V_COVER(r == SUCCEED && fill_count == 1 && g_at0[N_FILL]->data->type == g_var->type, "getfill_foreign: matching attribute");
    H4V_CANARY("SDgetfillvalue_foreign end");
}

/* ---- calibration ---- */
typedef union {
    float64 d;
    h4v_u8  b[8];
} h4v_f64;
typedef union {
    float64 d[2];
    int32   i[4];
    h4v_u8  b[VMAX];
} h4v_out;

static void
nd_f64(h4v_f64 *x, h4v_u8 *src)
{
    for (int i = 0; i < 8; i++)
        x->b[i] = src[i];
}

#define CAL_REL (BIT(N_SF) | BIT(N_SFE) | BIT(N_AO) | BIT(N_AOE) | BIT(N_CNT))
static NC_array *
mk_cal_list(int with_counts)
{
    H4V_ND(int, pos_sf);
    H4V_ND(int, pos_sfe);
    H4V_ND(int, pos_ao);
    H4V_ND(int, pos_aoe);
    H4V_ND(int, pos_cnt);
    H4V_ND(int32, sf_nt);
    H4V_ND(int32, sfe_nt);
    H4V_ND(int32, ao_nt);
    H4V_ND(int32, aoe_nt);
    H4V_ND(int32, cnt_nt);
    H4V_ND(unsigned, sf_count);
    H4V_ND(unsigned, cnt_count);
    NC_array *arr = mk_list(CAL_REL);
    mk_present(arr, N_SF, pos_sf, sf_nt, with_counts ? sf_count : 1);
    mk_present(arr, N_SFE, pos_sfe, sfe_nt, 1);
    mk_present(arr, N_AO, pos_ao, ao_nt, 1);
    mk_present(arr, N_AOE, pos_aoe, aoe_nt, 1);
    mk_present(arr, N_CNT, pos_cnt, cnt_nt, with_counts ? cnt_count : 1);
    return arr;
}

void
h_SDsetcal(void)
{
    H4V_ND(int32, id);
    H4V_ND(int32, nt);
    H4V_HAVOC(int32, g_k);
    H4V_ASSUME(g_k >= 0 && g_k < 8);
    NC_array *arr = mk_cal_list(1);
    reset_logs();
    mk_file(id, arr);
    H4V_ND_BUF(h4v_u8, cb, 32, 32);
    h4v_f64 cal, cale, ioff, ioffe;
    nd_f64(&cal, cb);
    nd_f64(&cale, cb + 8);
    nd_f64(&ioff, cb + 16);
    nd_f64(&ioffe, cb + 24);
    int r = SDsetcal(id, cal.d, cale.d, ioff.d, ioffe.d, nt);
    if (r == SUCCEED) {
        H4V_CHECK(g_made[N_SF]->data->values[g_k] == cal.b[g_k], "SDsetcal: scale_factor holds cal, bit for bit");
        H4V_CHECK(g_made[N_SFE]->data->values[g_k] == cale.b[g_k], "SDsetcal: scale_factor_err holds cale, bit for bit");
        H4V_CHECK(g_made[N_AO]->data->values[g_k] == ioff.b[g_k], "SDsetcal: add_offset holds ioff, bit for bit");
        H4V_CHECK(g_made[N_AOE]->data->values[g_k] == ioffe.b[g_k], "SDsetcal: add_offset_err holds ioffe, bit for bit");
    }
    H4V_COVER(r == SUCCEED && CAL_M == 5 && g_arr0 != NULL, "setcal: all five appended");
    H4V_COVER(r == SUCCEED && CAL_M == 0, "setcal: all five replaced");
    H4V_COVER(r == SUCCEED && g_arr0 == NULL, "setcal: first attributes");
    H4V_COVER(r == SUCCEED && CAL_M == 2 && g_pos0[N_SFE] < 0 && g_pos0[N_CNT] < 0, "setcal: two appended");
    H4V_COVER(r == FAIL && g_var != NULL && g_allocfail && g_newattr_calls == 3, "setcal: third allocation fails");
    H4V_COVER(r == FAIL && g_var != NULL && CAL_LIMIT && !g_allocfail, "setcal: list full");
    H4V_CANARY("SDsetcal end");
}

void
h_SDgetcal(void)
{
    H4V_ND(int32, id);
    H4V_HAVOC(int32, g_k);
    H4V_ASSUME(g_k >= 0 && g_k < VMAX);
    NC_array *arr = mk_cal_list(1);
    reset_logs();
    mk_file(id, arr);
    h4v_out *o = malloc(5 * sizeof(h4v_out));
    H4V_ASSUME(o != NULL);
    int r = SDgetcal(id, &o[0].d[0], &o[1].d[0], &o[2].d[0], &o[3].d[0], &o[4].i[0]);
    H4V_COVER(r == SUCCEED && g_at0[N_CNT]->data->szof == 4 && g_at0[N_SF]->data->szof == 8, "getcal: as SDsetcal makes them");
    H4V_COVER(r == FAIL && g_var != NULL && g_at0[N_SF] != NULL && g_at0[N_SFE] != NULL && g_at0[N_AO] != NULL && g_at0[N_AOE] != NULL, "getcal: calibrated_nt missing");
    H4V_COVER(r == FAIL && g_var != NULL && g_arr0 == NULL, "getcal: no attributes");
    H4V_CANARY("SDgetcal end");
}

/* set then get: the four factors come back bit for bit, and the number type */
void
h_cal_rt(void)
{
    H4V_ND(int32, id);
    H4V_ND(int32, nt);
    H4V_HAVOC(int32, g_k);
    H4V_ASSUME(g_k >= 0 && g_k < VMAX);
    NC_array *arr = mk_cal_list(0);
    reset_logs();
    mk_file(id, arr);
    H4V_ND_BUF(h4v_u8, cb, 32, 32);
    h4v_f64 cal, cale, ioff, ioffe;
    nd_f64(&cal, cb);
    nd_f64(&cale, cb + 8);
    nd_f64(&ioff, cb + 16);
    nd_f64(&ioffe, cb + 24);
    h4v_out *o = malloc(5 * sizeof(h4v_out));
    H4V_ASSUME(o != NULL);
    h4v_u8 g0 = o[0].b[g_k], g4 = o[4].b[g_k];
    int    r1 = SDsetcal(id, cal.d, cale.d, ioff.d, ioffe.d, nt);
    if (r1 == SUCCEED) {
        int r2 = SDgetcal(id, &o[0].d[0], &o[1].d[0], &o[2].d[0], &o[3].d[0], &o[4].i[0]);
        H4V_CHECK(r2 == SUCCEED, "cal round trip: SDgetcal succeeds after SDsetcal");
        H4V_CHECK(g_k >= 8 || (o[0].b[g_k] == cal.b[g_k] && o[1].b[g_k] == cale.b[g_k] && o[2].b[g_k] == ioff.b[g_k] && o[3].b[g_k] == ioffe.b[g_k]),
                  "cal round trip: the four factors come back bit for bit, each in its own place");
        H4V_CHECK(o[4].i[0] == nt, "cal round trip: the number type comes back");
        H4V_CHECK(g_k < 8 || o[0].b[g_k] == g0, "cal round trip: 8 bytes written per factor");
        H4V_CHECK(g_k < 4 || o[4].b[g_k] == g4, "cal round trip: 4 bytes written for the number type");
        H4V_COVER(CAL_M == 3, "cal_rt: three appended, two replaced");
    }
    H4V_CANARY("cal_rt end");
}

#ifndef H4V_MINLEN
#define H4V_MINLEN 0
#endif
/* ---- data strings, candidate (b): SDgetdatastrs(label only) into a buffer of exactly `len` bytes ---- */
void
h_getdatastrs_b(void)
{
    H4V_ND(int32, id);
    H4V_ND(int, pos_long);
    H4V_ND(unsigned, count);
    H4V_ND(int, len);
    H4V_HAVOC(int32, g_k);
    H4V_ASSUME(count >= 1 && count <= 8 && len >= H4V_MINLEN && len <= 8);
    H4V_ASSUME(g_k >= 0 && g_k < 8);
    NC_array *arr = mk_list(BIT(N_LONG));
    mk_present(arr, N_LONG, pos_long, DFNT_CHAR, count);
    reset_logs();
    mk_file(id, arr);
    H4V_ASSUME(g_var != NULL && g_at0[N_LONG] != NULL);
    /* as SDsetdatastrs stores it: strlen(l) characters, none of them NUL */
    for (unsigned i = 0; i < 8; i++)
        H4V_ASSUME(i >= count || g_at0[N_LONG]->data->values[i] != 0);
    size_t blen = len >= 1 ? (size_t)len : 1;
    H4V_ND_BUF(char, l, blen, 8);
    int r = SDgetdatastrs(id, l, NULL, NULL, NULL, len);
    H4V_CHECK(r == SUCCEED, "SDgetdatastrs succeeds on a dataset");
    if (len >= 1) {
        if (count < (unsigned)len) {
            H4V_CHECK(l[count] == 0, "SDgetdatastrs: the label is NUL-terminated after its last character");
            H4V_CHECK((unsigned)g_k >= count || l[g_k] == (char)g_at0[N_LONG]->data->values[g_k], "SDgetdatastrs: the label comes back");
        }
        else {
            H4V_CHECK((unsigned)g_k >= (unsigned)len - 1 || l[g_k] == (char)g_at0[N_LONG]->data->values[g_k], "SDgetdatastrs: the truncated label comes back");
            H4V_CHECK(l[len - 1] == 0, "SDgetdatastrs: a label of len or more characters is returned NUL-terminated within len bytes");
        }
    }
    H4V_COVER(count == 3 && len == 8, "getdatastrs_b: short label");
    H4V_COVER(count == 8 && len == 4, "getdatastrs_b: truncated label");
    H4V_COVER(len == 0, "getdatastrs_b: len 0");
    H4V_CANARY("getdatastrs_b end");
}

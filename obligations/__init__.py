import importlib, os, pkgutil
from .core import OBS, PROPS
# modules listed in staging.txt are work in progress: they are only loaded when H4V_STAGING=1, so that the registered
# checks (MANIFEST.json) stay green while an author is still developing new obligations
_staging = set()
_sp = os.path.join(os.path.dirname(__file__), "staging.txt")
if os.path.exists(_sp) and os.environ.get("H4V_STAGING") != "1":
    _staging = {l.strip() for l in open(_sp) if l.strip() and not l.startswith("#")}
for m in sorted(pkgutil.iter_modules(__path__), key=lambda m: m.name):
    if m.name.startswith("c") and m.name != "core" and m.name not in _staging:
        importlib.import_module(f"{__name__}.{m.name}")

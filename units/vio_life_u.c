/* Verification unit: hdf/src/vio.c -- life cycle of Vdata handles (C13 attach counting, C16/C07 header write-back at the
 * last detach, C14 access-mode spellings).  The whole real file; environment and trusted stubs: stubs/vio_life_env.h.
 *
 * -DVL_STRICT   VSdetach must invalidate the id it is given on EVERY successful call (C13: "invalidated by its release
 *               call"); without it only the last detach is required to do so (the other clauses can then be judged separately)
 * -DVL_R_ON_W   VSattach(.., "r") of a vdata that is attached "w" (the state the base contract leaves to this variant)
 */
#include "h4v.h"
#include "h4v_err.h"
#include <string.h>
#include "vio_life_env.h"
#include "vio.c"

/* ------------------------------------------------------------------ ghosts tied to the entry state by `requires` */
int   g0_was_reg; /* the id given to VSdetach is a registered vdata id */
int   g0_found;   /* the ref given to VSattach is the vdata's */
int   g0_nreg;    /* registered vdata ids of the model */
int   g_j;        /* ghost slot of the atom model: "every OTHER id" */
int32 g_packsize; /* length vpackvs reports */
#define VL_REF 7

#define ACC_R(a) ((a)[0] == 'r' || (a)[0] == 'R')
#define ACC_W(a) ((a)[0] == 'w' || (a)[0] == 'W')
#ifdef VL_R_ON_W
#define VL_VARIANT(a) (ACC_R(a) && g_w->nattach == 1 && g_vs->access == 'w')
#else
#define VL_VARIANT(a) (!(ACC_R(a) && g_w->nattach > 0 && g_vs->access == 'w'))
#endif
#ifdef VL_STRICT
#define VL_REL_WHEN(n) 1
#else
#define VL_REL_WHEN(n) ((n) == 0)
#endif
/* bytes VSdetach must provide for the packed header (vio.c: `need`) */
#define VL_NEED(vs) (sizeof(VWRITELIST) + (size_t)(vs)->nattrs * sizeof(vs_attr_t) + sizeof(VDATA) + 1)

/* ------------------------------------------------------------------ contracts */

/* vpackvs: NOT proved here (loops over fields / names / attributes; the round trip is units/vio_u.c).  Trusted contract,
   used with replace=["vpackvs"]: it needs `need` writable bytes, reports success and a length. */
int vpackvs(VDATA *vs, uint8 buf[], int32 *size)
    __CPROVER_requires(vs == g_vs && buf != NULL && size != NULL)
    __CPROVER_requires(__CPROVER_w_ok(buf, VL_NEED(vs)))
    __CPROVER_assigns(*size, __CPROVER_object_whole(buf))
    __CPROVER_ensures(__CPROVER_return_value == SUCCEED && *size == g_packsize);

/* VSattach of the existing vdata (vsid != -1), any access string, file writable or read-only, instance in any consistent
   life-cycle state */
int32 VSattach(HFILEID f, int32 vsid, const char *accesstype)
    __CPROVER_requires(VL_ENV && VL_INST_WF && g_vs->otag == DFTAG_VH)
    __CPROVER_requires(f == VL_FID && accesstype != NULL && vsid != -1 && VL_NREG <= 2)
    __CPROVER_requires(g0_nreg == VL_NREG && g0_found == (vsid >= 0 && (int32)(uint16)vsid == g_w->key))
    __CPROVER_requires(VL_VARIANT(accesstype))
    __CPROVER_assigns(VL_FRAME, vdata_free_list, vsinstance_free_list)
    /* A0: no such vdata / bad mode letter: refused, nothing touched */
    __CPROVER_ensures((!g0_found || !(ACC_R(accesstype) || ACC_W(accesstype))) ==>
                      (__CPROVER_return_value == FAIL && g_w->nattach == __CPROVER_old(g_w->nattach) &&
                       g_vs->aid == __CPROVER_old(g_vs->aid) && g_vs->access == __CPROVER_old(g_vs->access) && g_reg_n == 0 &&
                       g_start_n == 0))
    /* A1 (C13): a successful attach of an already attached vdata counts exactly one more and leaves the shared element alone */
    __CPROVER_ensures((g0_found && __CPROVER_old(g_w->nattach) > 0 && __CPROVER_return_value != FAIL) ==>
                      (g_w->nattach == __CPROVER_old(g_w->nattach) + 1 && g_vs->aid == __CPROVER_old(g_vs->aid) && g_elA_open &&
                       g_start_n == 0 && g_end_n == 0 && g_vs->access == __CPROVER_old(g_vs->access)))
    /* A1b: ... and attaching "r" again has no reason to fail; the read position is reset (bugzilla 486) */
    __CPROVER_ensures((g0_found && ACC_R(accesstype) && __CPROVER_old(g_w->nattach) > 0 && __CPROVER_old(g_vs->access) == 'r') ==>
                      (__CPROVER_return_value != FAIL && g_arec->posn == 0))
    /* A2 (C13): the id handed out is a new one and designates this vdata */
    __CPROVER_ensures(__CPROVER_return_value != FAIL ==>
                      (VL_DESIGNATES_W(__CPROVER_return_value) && g_reg_n == 1 && VL_NREG == g0_nreg + 1))
    __CPROVER_ensures(__CPROVER_return_value == FAIL ==> (g_reg_n == 0 && VL_NREG == g0_nreg))
    /* A3 (C13, vio.c "if w => being written, unstable! forbidden"): "w" on an attached vdata is refused, nothing touched */
    __CPROVER_ensures((g0_found && ACC_W(accesstype) && __CPROVER_old(g_w->nattach) > 0) ==>
                      (__CPROVER_return_value == FAIL && g_w->nattach == __CPROVER_old(g_w->nattach) &&
                       g_vs->aid == __CPROVER_old(g_vs->aid) && g_vs->access == __CPROVER_old(g_vs->access) && g_start_n == 0))
    /* A4 (C14): every spelling that means "write" is refused on a file opened read-only, nothing touched */
    __CPROVER_ensures((ACC_W(accesstype) && VL_RDONLY(g_frec)) ==>
                      (__CPROVER_return_value == FAIL && g_w->nattach == __CPROVER_old(g_w->nattach) &&
                       g_vs->aid == __CPROVER_old(g_vs->aid) && g_vs->access == __CPROVER_old(g_vs->access) && g_mut_n == 0))
    /* A5: first attach: count 1, one element started for the vdata's data, in the requested mode */
    __CPROVER_ensures((g0_found && __CPROVER_old(g_w->nattach) == 0 && __CPROVER_return_value != FAIL) ==>
                      (g_w->nattach == 1 && g_start_n == 1 && g_vs->aid == VL_AID && g_elA_open && g_start_tag == DFTAG_VS &&
                       g_start_ref == g_vs->oref && g_vs->access == (ACC_R(accesstype) ? 'r' : 'w') &&
                       ((g_start_flags & DFACC_WRITE) != 0) == (ACC_W(accesstype) != 0) && g_w->nvertices == g_vs->nvertices))
    /* A6: a first attach fails only because the H layer failed, and then the vdata stays unattached */
    __CPROVER_ensures((g0_found && __CPROVER_old(g_w->nattach) == 0 && __CPROVER_return_value == FAIL &&
                       (ACC_R(accesstype) || (ACC_W(accesstype) && !VL_RDONLY(g_frec)))) ==>
                      (g_h_failed && g_w->nattach == 0 && !g_elA_open))
    /* A7 (C16) */
    __CPROVER_ensures(g_h_failed ==> __CPROVER_return_value == FAIL)
    /* A9 (vio.c "check access of found vs: if w => being written, unstable! forbidden"): "r" on a vdata attached "w" */
    __CPROVER_ensures((g0_found && ACC_R(accesstype) && __CPROVER_old(g_w->nattach) > 0 && __CPROVER_old(g_vs->access) == 'w') ==>
                      (__CPROVER_return_value == FAIL && g_w->nattach == __CPROVER_old(g_w->nattach) &&
                       g_vs->aid == __CPROVER_old(g_vs->aid) && g_vs->access == 'w' && g_start_n == 0));

/* VSdetach with ANY int32 as id, instance in any consistent life-cycle state */
int32 VSdetach(int32 vkey)
    __CPROVER_requires(VL_ENV && VL_INST_WF)
    __CPROVER_requires(g0_was_reg == (VL_IS_REG(vkey) != 0) && g0_nreg == VL_NREG && g_j >= 0 && g_j <= 2 && g_packsize >= 1)
    __CPROVER_assigns(VL_FRAME, Vhbuf, Vhbufsize)
    __CPROVER_assigns(Vhbuf != NULL: __CPROVER_object_whole(Vhbuf))
    __CPROVER_frees(Vhbuf)
    /* D0 (C13): an id that is not a registered vdata id (never issued, other kind, already released), or an object that
       is not a vdata: failure, instance and tables untouched */
    __CPROVER_ensures((!g0_was_reg || __CPROVER_old(g_vs->otag) != DFTAG_VH) ==>
                      (__CPROVER_return_value == FAIL && g_w->nattach == __CPROVER_old(g_w->nattach) &&
                       g_vs->aid == __CPROVER_old(g_vs->aid) && g_vs->access == __CPROVER_old(g_vs->access) &&
                       g_vs->marked == __CPROVER_old(g_vs->marked) && g_end_n == 0 && g_rem_calls == 0 && g_put_n == 0 &&
                       VL_NREG == g0_nreg))
    /* D1 (C13): one detach, one count */
    __CPROVER_ensures((g0_was_reg && __CPROVER_old(g_vs->otag) == DFTAG_VH && __CPROVER_return_value == SUCCEED) ==>
                      g_w->nattach == __CPROVER_old(g_w->nattach) - 1)
    __CPROVER_ensures(__CPROVER_return_value == SUCCEED || __CPROVER_return_value == FAIL)
    /* D2 (C13): the shared access element is ended ONLY when the count reaches 0, once, and it is that element */
    __CPROVER_ensures(g_end_n <= 1 && (g_end_n == 1 ==> (g_w->nattach == 0 && g_end_aid == __CPROVER_old(g_vs->aid))))
    __CPROVER_ensures((g0_was_reg && __CPROVER_return_value == SUCCEED && g_w->nattach == 0) ==>
                      (g_end_n == 1 && !g_elA_open && g_vs->aid == FAIL))
    /* ... while the count is > 0 the element stays open for the other ids */
    __CPROVER_ensures(g_w->nattach > 0 ==> (g_vs->aid == __CPROVER_old(g_vs->aid) && g_elA_open == __CPROVER_old(g_elA_open)))
    /* D3 (C13): the released id is no longer registered (HAremove_atom once, with this id) */
    __CPROVER_ensures((g0_was_reg && __CPROVER_old(g_vs->otag) == DFTAG_VH && __CPROVER_return_value == SUCCEED &&
                       VL_REL_WHEN(g_w->nattach)) ==> (!VL_IS_REG(vkey) && g_rem_n == 1 && VL_NREG == g0_nreg - 1))
    __CPROVER_ensures(g_rem_calls <= 1 && (g_rem_calls == 1 ==> g_rem_id == vkey))
    /* D4 (C13): every other id keeps its registration and its object */
    __CPROVER_ensures(VL_SLOT(vkey) != g_j ==>
                      (g_k_used[g_j] == __CPROVER_old(g_k_used[g_j]) && g_k_obj[g_j] == __CPROVER_old(g_k_obj[g_j])))
    /* D5 (C16): a failing H-layer call (Hendaccess, HDcheck_tagref, HDreuse_tagref, Hputelement) is reported */
    __CPROVER_ensures(g_h_failed ==> __CPROVER_return_value == FAIL)
    /* D6: ... and nothing else makes a valid detach fail (the 'w'+marked path may also run out of memory) */
    __CPROVER_ensures((g0_was_reg && __CPROVER_old(g_vs->otag) == DFTAG_VH && __CPROVER_return_value == FAIL &&
                       (__CPROVER_old(g_vs->access) == 'r' || __CPROVER_old(g_vs->marked) == 0)) ==> g_h_failed)
    /* D7 (C16/C07): a marked header is written back exactly once: tag/ref of the vdata, the pack buffer, vpackvs's length */
    __CPROVER_ensures((g0_was_reg && __CPROVER_old(g_vs->otag) == DFTAG_VH && __CPROVER_old(g_vs->access) == 'w' &&
                       __CPROVER_old(g_vs->marked) != 0 && __CPROVER_return_value == SUCCEED) ==>
                      (g_put_n == 1 && g_put_len == g_packsize && g_put_tag == DFTAG_VH && g_put_ref == g_vs->oref &&
                       g_put_data == Vhbuf && g_vs->marked == 0 && g_vs->new_h_sz == 0))
    __CPROVER_ensures((__CPROVER_old(g_vs->access) == 'r' || __CPROVER_old(g_vs->marked) == 0) ==> (g_put_n == 0 && g_mut_n == 0));

#ifdef H4V_NATIVE
#include "h4v_native_wrap.h"
#endif

/* ------------------------------------------------------------------ harnesses */
static void
mk_vio(void)
{
    vl_mk_env();
    vdata_free_list      = NULL;
    vsinstance_free_list = NULL;
    H4V_ND(uint32, vh_size); /* the pack buffer left by earlier calls: none, or any size */
    if (vh_size == 0) {
        Vhbuf     = NULL;
        Vhbufsize = 0;
    }
    else {
        H4V_ASSUME(vh_size <= 65536);
        Vhbuf = malloc(vh_size);
        H4V_ASSUME(Vhbuf != NULL);
        Vhbufsize = vh_size;
    }
    H4V_HAVOC(int, g_j);
    H4V_ASSUME(g_j >= 0 && g_j <= 2);
    H4V_HAVOC(int32, g_packsize);
    H4V_ASSUME(g_packsize >= 1);
}

void
h_vl_VSattach(void)
{
    mk_vio();
    H4V_ASSUME(g_vs->otag == DFTAG_VH && VL_NREG <= 2);
    H4V_ND(int32, vsid);
    H4V_ND(char, acc0);
    H4V_ND(char, acc1);
    H4V_ND(char, acc2);
    char acc[4];
    acc[0] = acc0;
    acc[1] = acc1;
    acc[2] = acc2;
    acc[3] = '\0';
    H4V_ASSUME(vsid != -1);
    H4V_ASSUME(VL_VARIANT(acc));
    g0_nreg  = VL_NREG;
    g0_found = (vsid >= 0 && (int32)(uint16)vsid == g_w->key);
    int   n0 = g_w->nattach;
    int32 r  = VSattach(VL_FID, vsid, acc);
#ifdef VL_R_ON_W
    H4V_COVER(g0_found, "VSattach r on a vdata attached w");
#else
    H4V_COVER(r != FAIL && n0 >= 2 && ACC_R(acc), "VSattach r again succeeds");
    H4V_COVER(r != FAIL && n0 == 0 && ACC_R(acc), "VSattach r first succeeds");
    H4V_COVER(r != FAIL && n0 == 0 && acc[0] == 'W' && acc[1] == 'x', "VSattach Wx first succeeds");
    H4V_COVER(r == FAIL && n0 == 0 && g_h_failed, "VSattach fails for an H-layer reason");
    H4V_COVER(r == FAIL && n0 > 0 && ACC_W(acc) && g0_found && !VL_RDONLY(g_frec), "VSattach w refused on attached vdata");
    H4V_COVER(r == FAIL && acc[0] == 'W' && VL_RDONLY(g_frec) && g0_found && n0 == 0, "VSattach W refused on read-only file");
#endif
    H4V_CANARY("VSattach end");
}

void
h_vl_VSdetach(void)
{
    mk_vio();
    H4V_ND(int32, vkey);
    g0_was_reg = VL_IS_REG(vkey) != 0;
    g0_nreg    = VL_NREG;
#ifdef H4V_NATIVE
    { /* native replay runs the real vpackvs: g_packsize = the length it produces for this vdata (vpackvs only reads *vs) */
        uint8 *dry = malloc(VL_NEED(g_vs));
        H4V_ASSUME(dry != NULL);
        vpackvs(g_vs, dry, &g_packsize);
        free(dry);
    }
#endif
    int   n0 = g_w->nattach, m0 = g_vs->marked, a0 = g_vs->access, t0 = g_vs->otag;
    int32 r  = VSdetach(vkey);
    H4V_COVER(r == SUCCEED && a0 == 'r' && n0 == 1, "VSdetach last r");
    H4V_COVER(r == SUCCEED && a0 == 'r' && n0 > 3, "VSdetach r, others remain");
    H4V_COVER(r == SUCCEED && a0 == 'w' && m0 == 1, "VSdetach w with header write-back");
    H4V_COVER(r == SUCCEED && a0 == 'w' && m0 == 0, "VSdetach w without write-back");
    H4V_COVER(r == FAIL && g0_was_reg && t0 == DFTAG_VH && g_h_failed && g_put_n == 1, "VSdetach reports a failed header write");
    H4V_COVER(r == FAIL && !g0_was_reg && n0 > 0, "VSdetach stale id");
    H4V_COVER(r == FAIL && vkey == VL_FID, "VSdetach file id");
    H4V_CANARY("VSdetach end");
}

/* VSattach(f, -1, mode): creation of a new vdata (harness-level checks; loop-free) */
void
h_vl_VSattach_new(void)
{
    mk_vio();
    H4V_ASSUME(g_vs->otag == DFTAG_VH && VL_NREG <= 2);
    H4V_ND(char, acc0);
    H4V_ND(char, acc1);
    char acc[3];
    acc[0] = acc0;
    acc[1] = acc1;
    acc[2] = '\0';
    int   n0 = g_w->nattach, c0 = g_vs->access, nreg0 = VL_NREG, elA0 = g_elA_open;
    int32 aid0 = g_vs->aid, tabn0 = g_vf->vstabn;
    int32 r = VSattach(VL_FID, -1, acc);
    H4V_CHECK(g_w->nattach == n0 && g_vs->aid == aid0 && g_vs->access == c0 && (!elA0 || g_elA_open),
              "new vdata: the vdata that exists already is not touched");
    H4V_CHECK(!g_h_failed || r == FAIL, "new vdata (C16): a failing H-layer call is reported");
    if (!ACC_W(acc) || VL_RDONLY(g_frec))
        H4V_CHECK(r == FAIL && g_newref_n == 0 && g_tree_ins_n == 0 && g_reg_n == 0 && g_vf->vstabn == tabn0 && g_mut_n == 0 &&
                      g_start_n == 0 && VL_NREG == nreg0,
                  "new vdata (C14): refused unless the mode means write and the file is writable; no ref taken, no table entry, no id");
    if (r != FAIL) {
        vsinstance_t *nw = (vsinstance_t *)VL_OBJ(r);
        H4V_CHECK(VL_IS_REG(r) && nw != NULL && nw != g_w && VL_NREG == nreg0 + 1, "new vdata (C13): the id is new and designates a new instance");
        if (nw != NULL && nw != g_w) {
            H4V_CHECK(nw->nattach == 1 && nw->vs != NULL, "new vdata (C13): attach count 1");
            if (nw->vs != NULL) {
                H4V_CHECK(nw->vs->access == 'w' && nw->vs->instance == nw && nw->vs->otag == DFTAG_VH && nw->vs->oref != 0 &&
                              nw->key == (int32)nw->vs->oref && nw->vs->f == VL_FID,
                          "new vdata: attached for writing, tag/ref/file set, instance and vdata linked");
                H4V_CHECK(g_start_n == 1 && nw->vs->aid == (elA0 ? VL_AID2 : VL_AID) && (g_start_flags & DFACC_WRITE) != 0 &&
                              g_start_tag == DFTAG_VS && g_start_ref == nw->vs->oref,
                          "new vdata: one element opened for writing the vdata's data; vs->aid is that element");
            }
        }
        H4V_CHECK(g_vf->vstabn == tabn0 + 1 && g_tree_ins_n == 1 && g_newref_n == 1, "new vdata: one table entry, one ref taken");
    }
    H4V_COVER(r != FAIL && acc[0] == 'W' && elA0, "new vdata created while another one is attached");
    H4V_COVER(r == FAIL && ACC_W(acc) && !VL_RDONLY(g_frec) && g_h_failed, "new vdata: H-layer failure");
    H4V_COVER(r == FAIL && ACC_W(acc) && VL_RDONLY(g_frec), "new vdata refused on a read-only file");
    H4V_CANARY("VSattach new end");
}

/* bounded history: attach "r" twice, detach twice in either order, then the stale ids (5 / 6 calls).  No H-layer faults.
   The two ids are compared with the representatives the atom model hands out (first free slot) and the detach calls are made
   with those constants: the formula then holds no id-dependent case split (an id that could also be the file id makes cbmc
   encode VSdetach's accesses to a file record through vsinstance_t -- out of memory). */
static void
vl_history_rest(int32 first, int32 second)
{
    int32 d1 = VSdetach(first);
    H4V_CHECK(d1 == SUCCEED && g_w->nattach == 1, "history: first detach succeeds, count 1");
    H4V_CHECK(g_end_n == 0 && g_vs->aid == VL_AID && g_elA_open && VL_DESIGNATES_W(second),
              "history: while the count is > 0 the element stays open and the other id stays usable");
#ifdef VL_STRICT
    H4V_CHECK(!VL_IS_REG(first) && g_rem_n == 1, "history: the id released by the first detach is no longer registered");
#endif
    int32 d2 = VSdetach(second);
    H4V_CHECK(d2 == SUCCEED && g_w->nattach == 0, "history: second detach succeeds, count 0");
    H4V_CHECK(g_end_n == 1 && g_end_aid == VL_AID && !g_elA_open && g_vs->aid == FAIL, "history: the element is ended by the last detach, once");
    H4V_CHECK(!VL_IS_REG(second), "history: the id released by the last detach is no longer registered");
    int32 d3 = VSdetach(second);
    H4V_CHECK(d3 == FAIL && g_w->nattach == 0 && g_end_n == 1, "history: a further detach with the stale id fails, instance untouched");
#ifdef VL_STRICT
    int32 d4 = VSdetach(first);
    H4V_CHECK(d4 == FAIL && g_w->nattach == 0 && g_end_n == 1 && VL_NREG == 0,
              "history: the id released first is stale too: detach fails, instance untouched, no id left registered");
#endif
}

void
h_vl_history(void)
{
    mk_vio();
    /* start: the vdata is not attached, no id of it exists (assignments, not assumptions: constants keep the "w" path of
       VSdetach and its header write-back out of the formula; ref, record counts, file mode stay arbitrary) */
    g_vs->otag   = DFTAG_VH;
    g_vs->oref   = VL_REF; /* representative ref (the table stub compares refs for equality only) */
    g_w->key     = VL_REF;
    g_w->ref     = VL_REF;
    g_w->nattach = 0;
    g_k_used[0] = g_k_used[1] = g_k_used[2] = 0;
    g_vs->access = 'r';
    g_vs->aid    = FAIL;
    g_vs->marked = 0;
    g_elA_open   = 0;
    g_h_may_fail = 0;
    H4V_ND(int, order);
    int32 key = VL_REF;

    int32 a1 = VSattach(VL_FID, key, "r");
    H4V_CHECK(a1 != FAIL, "history: first attach succeeds");
    H4V_CHECK(g_w->nattach == 1 && VL_DESIGNATES_W(a1) && g_vs->aid == VL_AID && g_elA_open && g_start_n == 1,
              "history: after the first attach count 1, id designates the vdata, element open");
    int32 a2 = VSattach(VL_FID, key, "r");
    H4V_CHECK(a2 != FAIL && a2 != a1, "history: second attach succeeds with another id");
    H4V_CHECK(g_w->nattach == 2 && VL_DESIGNATES_W(a1) && VL_DESIGNATES_W(a2) && g_vs->aid == VL_AID && g_elA_open && g_start_n == 1,
              "history: after the second attach count 2, both ids designate the vdata, same element");
    H4V_CHECK(a1 == VL_K0 && a2 == VL_K1, "history (model): the atom model hands out its first free representative");
    if (order)
        vl_history_rest(VL_K0, VL_K1);
    else
        vl_history_rest(VL_K1, VL_K0);
    H4V_CANARY("history end");
}

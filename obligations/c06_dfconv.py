"""C06: number-type conversion (dfkswap.c, dfknat.c, dfconv.c)

Units: dfconv_swap_u.c (DFKsb2b/4b/8b), dfconv_nat_u.c (DFKnb1b/2b/4b/8b), dfconv_set_u.c (DFKsetNT,
DFKNTsize, DFKconvert, DFKislitendNT, DFKisnativeNT); shared vocabulary in stubs/dfconv_common.h.

Why every obligation that executes a kernel loop is `bounded` (and not `proved` with loop contracts as
DESIGN section 5 planned): the kernels walk `dest`/`source` POINTERS and WRITE through them.  A loop
contract makes dfcc havoc these pointer variables; cbmc 6.11 dereferences such a pointer against every
addressed object of the program, which under dfcc includes the ~25 internal write-set objects.  The
resulting byte_updates exhaust 8 GB already for the 7-line loop of DFKsb2b with a 20-byte buffer and
the invariant `dest == (uint8*)d + 2*i` (reproduced standalone; __CPROVER_pointer_equals is rejected
in loop invariants as a side effect).  Reads through a havocked pointer (bitvect.c) are affordable,
writes are not.  So: loops are unwound, num_elm is capped and the cap is stated.  What IS proved
without a cap: no elements => FAIL; one element for all 2^(8W) bit patterns and all strides
(`*_one`, `*_invol`, proved-finite: the loop bound 1 is the statement of the lemma); the in-place fast
path of DFKnb?b for every num_elm; all of dfconv.c.
"""
from .core import ob, prop

SW = dict(unit="dfconv_swap_u.c", file="hdf/src/dfkswap.c", cex_unwind=60)
NA = dict(unit="dfconv_nat_u.c", file="hdf/src/dfknat.c", cex_unwind=60)
SE = dict(unit="dfconv_set_u.c", file="hdf/src/dfconv.c")
STUBS = ["HEclear/HEpush (error stack: no effect on conversion results)"]
N = 8  # cap on num_elm of the quick-tier bounded obligations


def pairs(W):
    """constant stride pairs of the design (plus two equal pairs with gaps for the in-place strided path)"""
    ps = [(W, W), (W, 2 * W), (2 * W, W), (W, 3 * W), (3 * W, W), (W, W + 1), (W + 1, W), (2 * W, 2 * W), (W + 1, W + 1)]
    out = []
    for p in ps:
        if p not in out:
            out.append(p)
    return out


def io(ip):
    return "in" if ip else "out"


# ---- dfkswap.c: byte reversal ------------------------------------------------------------------
for W in (2, 4, 8):
    f = f"DFKsb{W}b"
    ob(f"sb{W}b_zero", "C06", entry=f"h_sb{W}b_zero", enforce=f, unwind=1, trusted=STUBS, **SW)
    ob(f"sb{W}b_one", "C06", entry=f"h_sb{W}b_one", enforce=f, mode="proved-finite", unwind=2, trusted=STUBS, **SW)
    ob(f"sb{W}b_invol", "C06", entry=f"h_invol{W}", mode="proved-finite", unwind=2, trusted=STUBS, **SW)
    for (ss, ds) in [(0, 0)] + pairs(W):
        for ip in ((0, 1) if ss == ds else (0,)):
            ob(f"sb{W}b_{'contig' if ss == 0 else f'str_{ss}_{ds}'}_{io(ip)}", "C06", entry=f"h_sb{W}b", enforce=f,
               mode="bounded", bound=f"num_elm <= {N}, strides ({ss},{ds})", unwind=N + 1,
               defines=[f"SS={ss}", f"DS={ds}", f"NMAX={N}", f"INPLACE={ip}"], trusted=STUBS, **SW)
    for ip in (0, 1):
        n = 2 if (W == 8 and ip) else 3
        ob(f"sb{W}b_symstr_{io(ip)}", "C06", entry=f"h_sb{W}b", enforce=f, mode="bounded",
           bound=f"num_elm <= {n}, all strides {W}..65535" + (" (equal)" if ip else ""), unwind=n + 1, timeout=1200,
           defines=[f"NMAX={n}", f"INPLACE={ip}", "TIGHT"], tier="thorough", trusted=STUBS, **SW)
    # a larger cap for the contiguous path in the thorough tier
    for ip in (0, 1):
        n = 32 if W == 2 else 16
        ob(f"sb{W}b_contig_{io(ip)}_{n}", "C06", entry=f"h_sb{W}b", enforce=f, mode="bounded",
           bound=f"num_elm <= {n}, strides (0,0)", unwind=n + 1, timeout=1200,
           defines=["SS=0", "DS=0", f"NMAX={n}", f"INPLACE={ip}"], tier="thorough", trusted=STUBS, **SW)

# ---- dfknat.c: identity copies.  The fast path uses memcpy: its length is kept <= 64 bytes. ---------
for W in (1, 2, 4, 8):
    f = f"DFKnb{W}b"
    ob(f"nb{W}b_zero", "C06", entry=f"h_nb{W}b_zero", enforce=f, unwind=1, trusted=STUBS, **NA)
    ob(f"nb{W}b_one", "C06", entry=f"h_nb{W}b_one", enforce=f, mode="proved-finite", unwind=9, trusted=STUBS, **NA)
    # fast path in place: loop-free and memcpy-free, every num_elm (unwind=1 + unwinding assertions: no loop is entered)
    ob(f"nb{W}b_inplace_fast", "C06", entry=f"h_nb{W}b_inplace", enforce=f, unwind=1, trusted=STUBS, **NA)
    for (ss, ds) in [(0, 0)] + pairs(W):
        fast = (ss, ds) in ((0, 0), (W, W))
        n = N if (fast or W < 8) else 4  # DFKnb8b's strided loops call memcpy(.., 8): costly to unwind
        for ip in ((0, 1) if ss == ds else (0,)):
            if fast and ip:
                continue  # covered for every num_elm by nb{W}b_inplace_fast
            ob(f"nb{W}b_{'contig' if ss == 0 else f'str_{ss}_{ds}'}_{io(ip)}", "C06", entry=f"h_nb{W}b", enforce=f,
               mode="bounded", bound=f"num_elm <= {n}, strides ({ss},{ds})" + (f", memcpy of <= {n * W} bytes" if fast else ""),
               unwind=(n * W + 2) if fast or W == 8 else n + 1,
               defines=[f"SS={ss}", f"DS={ds}", f"NMAX={n}", f"INPLACE={ip}"], trusted=STUBS, **NA)
    for ip in (0, 1):
        n = 2 if W == 8 else 3
        if W == 8 and ip:
            continue  # memcpy via buf[8] at two symbolic offsets of one object: cbmc runs out of memory even for 2 elements
        ob(f"nb{W}b_symstr_{io(ip)}", "C06", entry=f"h_nb{W}b", enforce=f, mode="bounded",
           bound=f"num_elm <= {n}, all strides {W}..65535" + (" (equal)" if ip else ""), unwind=9 if W == 8 else n + 1,
           timeout=1200, defines=[f"NMAX={n}", f"INPLACE={ip}", "TIGHT"], tier="thorough", trusted=STUBS, **NA)

# ---- dfconv.c: routine selection (loop-free: proved) -------------------------------------------------
KS = STUBS + ["DFKsb2b/4b/8b, DFKnb1b/2b/4b/8b inside dfconv_set_u.c: logging stubs (their contracts are enforced in "
              "dfconv_swap_u.c / dfconv_nat_u.c)"]
ob("DFKsetNT", "C06", entry="h_setnt", enforce="DFKsetNT", trusted=KS, **SE)
ob("DFKNTsize", "C06", entry="h_ntsize", enforce="DFKNTsize", trusted=KS, **SE)
ob("DFKislitendNT", "C06", entry="h_islitend", enforce="DFKislitendNT", trusted=KS, **SE)
ob("DFKisnativeNT", "C06", entry="h_isnative", enforce="DFKisnativeNT", trusted=KS, **SE)
ob("DFKconvert", "C06", entry="h_convert", enforce="DFKconvert", trusted=KS, **SE)
ob("nt_flavours", "C06", entry="h_flavours", trusted=KS, **SE)

prop("C06",
     residual="num_elm beyond the stated caps on the looping paths (8 elements per constant stride pair, 3 with symbolic "
              "strides: cbmc 6.11 cannot apply loop contracts to loops that write through stepped pointers under dfcc, see "
              "the module docstring); stride pairs outside the stated set for more than 3 elements; 'same values through "
              "any API' (SD/Vdata/GR call sites of DFKconvert); big-endian hosts; DFconvert (3.0 compatibility) and "
              "DFKgetPNSC; DFKconvert with an unsupported number type (it ignores DFKsetNT's failure and runs the "
              "previously installed routine)",
     assumptions=["A-C06-DOMAIN: callers pass strides 0/0 or both >= element width, in place only with equal strides, and "
                  "out of place two distinct objects (checked by reading the call sites in dfsd.c, vrw.c, mfgr.c, mfsd.c)",
                  "A-C06-LE: host configuration is little-endian (H4_WORDS_BIGENDIAN undefined; the units #error otherwise)"])

/* Verification unit: mfhdf/src/attr.c (C10: attribute list put/replace/find) */
#include "h4v.h"
#include <string.h>
#include <stdarg.h>
#include "nc_priv.h"

H4V_DECL_ND(int);
H4V_DECL_ND(unsigned);
H4V_DECL_ND(nc_type);
H4V_DECL_ND(char);

/* ------------------------------------------------------------------------------------------
 * Ghost model of the environment of NC_aput: one open netCDF handle (id g_cdfid), one attribute
 * list *ap.  Stubs (trusted): NC_check_id, NC_indefine, NC_new_string, NC_new_array, NC_re_array,
 * NC_incr_array, NC_free_string, NC_free_array, hdf_map_type, xdr_cdf, NCadvise, nc_serror.
 * ------------------------------------------------------------------------------------------ */
static int g_cdfid;
static NC *g_handle; /* NULL: bad id */
/* index NC_findattr returns for `name` (-1: not present): computed by the harness from the names
   (h_NC_findattr) or left arbitrary (h_NC_aput, NC_findattr replaced by its contract) */
int g_exp;
/* ghost "other" slot */
int g_j;
/* log of the stubs */
static const char *g_ns_src;   /* NC_new_string(.., str) */
static unsigned    g_ns_len;
static NC_string  *g_ns_obj;
static nc_type     g_na_type;  /* NC_new_array(type, count, values) for attribute data */
static unsigned    g_na_count;
static const void *g_na_values;
static NC_array   *g_na_obj;
static int         g_n_newattrarr; /* NC_new_array(NC_ATTRIBUTE,..) calls */
static NC_string  *g_freed_name;
static NC_array   *g_freed_data;
static int         g_nfree;
static int         g_re_calls, g_re_fits; /* NC_re_array: data fits into the old allocation */
static int         g_incr_calls, g_xdr_calls;
static int         g_nmut; /* number of stub calls that change the model */
/* ghost handles on the objects NC_aput may update in place (cbmc 6.11 crashes on nested
   conditional assigns targets such as AT_SLOTS(ap)[g_exp]->data->count) */
static XDR      *g_xdrp;
static NC_attr  *g_ex;
static NC_array *g_exdata;
static const char *g_name; /* the name argument (for the strlen model) */
static unsigned    g_namelen;

const char *cdf_routine_name;

void
NCadvise(int err, const char *fmt, ...)
{
    (void)err;
    (void)fmt;
}
void
nc_serror(const char *fmt, ...)
{
    (void)fmt;
}

#if defined(C10_STRLEN_STUB) && defined(H4V_CBMC)
/* NC_aput only hands the name on (NC_new_attr -> strlen -> NC_new_string): model strlen for that
   one string so that no symbolic-length string walk is needed */
size_t
strlen(const char *s)
{
    H4V_CHECK(s == g_name, "strlen is only applied to the attribute name");
    return g_namelen;
}
#endif

NC *
NC_check_id(int cdfid)
{
    return cdfid == g_cdfid ? g_handle : NULL;
}

bool_t
NC_indefine(int cdfid, bool_t iserr)
{
    (void)iserr;
    if (cdfid != g_cdfid || g_handle == NULL)
        return FALSE;
    return (bool_t)(g_handle->flags & NC_INDEF);
}

NC_string *
NC_new_string(unsigned count, const char *str)
{
    H4V_ND(int, new_string_fails);
    if (new_string_fails)
        return NULL;
    NC_string *s = malloc(sizeof(NC_string));
    if (s == NULL)
        return NULL;
    s->count  = count;
    s->len    = count;
    s->hash   = 0;
    s->values = (char *)str; /* contents not copied in the model; the source is logged */
    g_ns_src  = str;
    g_ns_len  = count;
    g_ns_obj  = s;
    return s;
}

NC_array *
NC_new_array(nc_type type, unsigned count, const void *values)
{
    H4V_ND(int, new_array_fails);
    if (new_array_fails)
        return NULL;
    NC_array *a = malloc(sizeof(NC_array));
    if (a == NULL)
        return NULL;
    a->type  = type;
    a->count = count;
    a->len   = 0;
    if (type == NC_ATTRIBUTE) {
        /* the list itself: one pointer per attribute; room for one more (see NC_incr_array) */
        H4V_CHECK(count == 1, "NC_new_array(NC_ATTRIBUTE): the list is created with its first attribute");
        a->szof   = sizeof(NC_attr *);
        a->values = malloc(2 * sizeof(NC_attr *));
        if (a->values == NULL)
            return NULL;
        ((NC_attr **)a->values)[0] = ((NC_attr *const *)values)[0];
        g_n_newattrarr++;
        g_nmut++;
    }
    else {
        a->szof     = 1;
        a->values   = NULL; /* data not modelled; the source is logged */
        g_na_type   = type;
        g_na_count  = count;
        g_na_values = values;
        g_na_obj    = a;
    }
    return a;
}

NC_array *
NC_re_array(NC_array *old, nc_type type, unsigned count, const void *values)
{
    (void)values;
    g_re_calls++;
    if (!g_re_fits)
        return NULL; /* count * typelen(type) > old->count * old->szof */
    old->count = count;
    old->type  = type;
    g_nmut++;
    return old;
}

uint8_t *
NC_incr_array(NC_array *array, uint8_t *tail)
{
    H4V_ND(int, incr_array_fails);
    g_incr_calls++;
    if (array == NULL || incr_array_fails)
        return NULL;
    /* model of realloc(values, (count+1)*szof) + memcpy: the harness allocates count+1 slots */
    H4V_CHECK(array->szof == sizeof(NC_attr *), "NC_incr_array on the attribute list");
    ((NC_attr **)array->values)[array->count] = *(NC_attr **)tail;
    array->count++;
    g_nmut++;
    return array->values;
}

int
NC_free_string(NC_string *cdfstr)
{
    g_freed_name = cdfstr;
    g_nfree++;
    return SUCCEED;
}

int
NC_free_array(NC_array *array)
{
    g_freed_data = array;
    g_nfree++;
    return SUCCEED;
}

int
hdf_map_type(nc_type t)
{
    return 1000 + (int)t;
}

bool_t
xdr_cdf(XDR *xdrs, NC **handlep)
{
    H4V_ND(int, xdr_cdf_ok);
    (void)xdrs;
    (void)handlep;
    g_xdr_calls++;
    return xdr_cdf_ok ? TRUE : FALSE;
}

#include "attr.c"

#define AT_SLOTS(ap) ((NC_attr **)(*(ap))->values)
#define AT_USER_TYPE(t) ((t) == NC_BYTE || (t) == NC_CHAR || (t) == NC_SHORT || (t) == NC_LONG || (t) == NC_FLOAT || (t) == NC_DOUBLE)

/* NC_findattr: the first slot whose name equals `name` exactly; g_exp is that index (-1: none) */
NC_attr **NC_findattr(NC_array **ap, const char *name)
    __CPROVER_requires(ap != NULL && name != NULL)
    __CPROVER_requires(g_exp < 0 || (*ap != NULL && (unsigned)g_exp < (*ap)->count))
    __CPROVER_assigns()
    __CPROVER_ensures((__CPROVER_return_value == NULL) == (g_exp < 0))
    __CPROVER_ensures(__CPROVER_return_value == NULL || __CPROVER_pointer_equals(__CPROVER_return_value, AT_SLOTS(ap) + g_exp));

/* NC_aput: frame and result; the state comparisons (slot kept / replaced / appended, nothing
   changed on error) are harness-level checks against snapshots, see aput_body() */
static int NC_aput(int cdfid, NC_array **ap, const char *name, nc_type datatype, unsigned count, const void *values)
    __CPROVER_requires(ap != NULL && name != NULL && name == g_name)
    /* ncattput (the caller) has checked the type with NCcktype */
    __CPROVER_requires(AT_USER_TYPE(datatype))
    __CPROVER_requires(g_handle == NULL || g_handle->xdrs != NULL)
    __CPROVER_requires(*ap == NULL || ((*ap)->values != NULL && (*ap)->count >= 1 && (*ap)->count <= H4_MAX_NC_ATTRS + 1))
    __CPROVER_requires(g_exp < 0 || (*ap != NULL && (unsigned)g_exp < (*ap)->count && AT_SLOTS(ap)[g_exp] != NULL &&
                                     AT_SLOTS(ap)[g_exp]->data != NULL))
    __CPROVER_requires(g_nmut == 0 && g_nfree == 0 && g_re_calls == 0 && g_incr_calls == 0 && g_xdr_calls == 0 && g_n_newattrarr == 0)
    __CPROVER_assigns(*ap; *ap != NULL: (*ap)->count; *ap != NULL: __CPROVER_object_whole((*ap)->values);
                      g_handle != NULL: g_handle->flags; g_xdrp != NULL: g_xdrp->x_op;
                      g_ex != NULL: g_ex->HDFtype; g_exdata != NULL: g_exdata->count, g_exdata->type;
                      g_ns_src, g_ns_len, g_ns_obj, g_na_type, g_na_count, g_na_values, g_na_obj, g_n_newattrarr, g_freed_name,
                      g_freed_data, g_nfree, g_re_calls, g_incr_calls, g_xdr_calls, g_nmut)
    __CPROVER_frees(g_ex)
    /* bad id or read-only handle: -1, and nothing at all happened */
    __CPROVER_ensures((cdfid != g_cdfid || g_handle == NULL || !(g_handle->flags & NC_RDWR)) ==>
                      (__CPROVER_return_value == -1 && g_nmut == 0 && g_nfree == 0 && g_xdr_calls == 0 && g_re_calls == 0 && g_incr_calls == 0))
    __CPROVER_ensures(__CPROVER_return_value == -1 || (*ap != NULL && __CPROVER_return_value == (int)(*ap)->count - 1));

#ifdef H4V_NATIVE
#include "h4v_native_wrap.h"
#endif

/* ---------------- harnesses ---------------- */
#define FA_MAXATTR 4
#define FA_MAXNAME 4

/* NC_findattr on a list of <= 4 attributes with names of <= 4 characters */
void
h_NC_findattr(void)
{
    H4V_ND(unsigned, nattrs);
    H4V_ND(int, list_null);
    H4V_ASSUME(nattrs <= FA_MAXATTR);
    NC_array *arr = NULL;
    NC_array **ap = &arr;
    char      name[FA_MAXNAME + 1];
    unsigned  nlen = 0;
    /* the name: a C string of <= 4 characters */
    for (unsigned c = 0; c < FA_MAXNAME; c++) {
        H4V_ND(char, name_c);
        name[c] = name_c;
    }
    name[FA_MAXNAME] = 0;
    while (nlen < FA_MAXNAME && name[nlen] != 0)
        nlen++;
    int exp = -1;
    if (!list_null) {
        arr = malloc(sizeof(NC_array));
        H4V_ASSUME(arr != NULL);
        arr->type   = NC_ATTRIBUTE;
        arr->count  = nattrs;
        arr->szof   = sizeof(NC_attr *);
        arr->len    = 0;
        arr->values = malloc(FA_MAXATTR * sizeof(NC_attr *));
        H4V_ASSUME(arr->values != NULL);
        for (unsigned i = 0; i < FA_MAXATTR; i++) {
            if (i < nattrs) {
                NC_attr   *a = malloc(sizeof(NC_attr));
                NC_string *s = malloc(sizeof(NC_string));
                char      *v = malloc(FA_MAXNAME + 1);
                H4V_ASSUME(a != NULL && s != NULL && v != NULL);
                H4V_ND(unsigned, slen);
                H4V_ASSUME(slen <= FA_MAXNAME);
                int same = (slen == nlen);
                for (unsigned c = 0; c < FA_MAXNAME; c++) {
                    H4V_ND(char, attr_c);
                    v[c] = c < slen ? attr_c : 0;
                    /* names are made from C strings: no embedded NUL */
                    H4V_ASSUME(c >= slen || attr_c != 0);
                    if (c < slen && c < nlen && v[c] != name[c])
                        same = 0;
                }
                v[FA_MAXNAME] = 0;
                s->count      = slen;
                s->len        = slen;
                s->hash       = 0;
                s->values     = v;
                a->name       = s;
                a->data       = NULL;
                a->HDFtype    = 0;
                ((NC_attr **)arr->values)[i] = a;
                /* the specification: exact equality of length and bytes; first such slot */
                if (same && exp < 0)
                    exp = (int)i;
            }
        }
    }
    g_exp = exp;
    NC_attr **r = NC_findattr(ap, name);
    H4V_CHECK(list_null ? r == NULL : 1, "NC_findattr: no list => NULL");
    /* the contract clauses once more at harness level (the native replay cannot map the HNAME-renamed
       function H4_NC_findattr to its contract text) */
    H4V_CHECK((r == NULL) == (exp < 0), "NC_findattr: NULL iff no attribute has exactly this name");
    H4V_CHECK(r == NULL || r == (NC_attr **)arr->values + exp, "NC_findattr: returns the FIRST slot whose name equals name exactly");
    H4V_COVER(r != NULL && exp == 2, "findattr: found in slot 2");
    H4V_COVER(r == NULL && !list_null && nattrs == FA_MAXATTR, "findattr: not found in a full list");
    H4V_COVER(r != NULL && nlen == 0, "findattr: empty name found");
    H4V_CANARY("NC_findattr end");
}

/* NC_aput: list of any length up to the limit (+1), NC_findattr by contract (index g_exp) */
static void
aput_body(void)
{
    H4V_HAVOC(int, g_exp);
    H4V_HAVOC(int, g_j);
    H4V_HAVOC(int, g_cdfid);
    H4V_HAVOC(int, g_re_fits);
    H4V_HAVOC(unsigned, g_namelen);
    H4V_ND(int, cdfid);
    H4V_ND(int, handle_null);
    H4V_ND(unsigned, hflags);
    H4V_ND(int, list_null);
    H4V_ND(unsigned, nattrs);
    H4V_ND(nc_type, datatype);
    H4V_ND(unsigned, count);
    H4V_ASSUME(AT_USER_TYPE(datatype));
    g_nmut = g_nfree = g_re_calls = g_incr_calls = g_xdr_calls = g_n_newattrarr = 0;
    g_ns_src = NULL;
    g_ns_obj = NULL;
    g_na_obj = NULL;
    g_freed_name = NULL;
    g_freed_data = NULL;
    static char name[2] = {'a', 0};
    static char vals[1];
    g_name              = name;
    g_handle            = NULL;
    XDR xdrs;
    xdrs.x_op = XDR_DECODE;
    if (!handle_null) {
        g_handle = malloc(sizeof(NC));
        H4V_ASSUME(g_handle != NULL);
        g_handle->flags = hflags;
        g_handle->xdrs  = &xdrs;
        g_handle->attrs = NULL;
        g_handle->vars  = NULL;
    }
    NC_array  *arr = NULL;
    NC_array **ap  = &arr;
    NC_attr   *ex = NULL, *oth = NULL; /* the attribute with the same name, and another one */
    NC_array  *exdata = NULL;
    H4V_ASSUME(g_j >= 0);
    if (!list_null) {
        H4V_ASSUME(nattrs >= 1 && nattrs <= H4_MAX_NC_ATTRS + 1);
        arr = malloc(sizeof(NC_array));
        H4V_ASSUME(arr != NULL);
        arr->type   = NC_ATTRIBUTE;
        arr->count  = nattrs;
        arr->szof   = sizeof(NC_attr *);
        arr->len    = 0;
        arr->values = malloc((size_t)(nattrs + 1) * sizeof(NC_attr *));
        H4V_ASSUME(arr->values != NULL);
        H4V_ASSUME(g_exp < (int)nattrs);
        oth = malloc(sizeof(NC_attr));
        H4V_ASSUME(oth != NULL);
#ifdef H4V_NATIVE
        /* native replay runs the REAL NC_findattr: give every slot a name that differs from `name`,
           and the slot g_exp (below) the name itself, so that it returns what g_exp says */
        static char      zz[3] = {'z', 'z', 0};
        static NC_string zzs;
        zzs.count = zzs.len = 2;
        zzs.values          = zz;
        oth->name           = &zzs;
        oth->data           = NULL;
        for (unsigned i = 0; i < nattrs; i++)
            ((NC_attr **)arr->values)[i] = oth;
#endif
        if ((unsigned)g_j < nattrs)
            ((NC_attr **)arr->values)[g_j] = oth;
        if (g_exp >= 0) {
            H4V_ASSUME(g_j != g_exp);
            ex     = malloc(sizeof(NC_attr));
            exdata = malloc(sizeof(NC_array));
            H4V_ASSUME(ex != NULL && exdata != NULL);
            H4V_ND(unsigned, old_count);
            H4V_ND(nc_type, old_type);
            exdata->count  = old_count;
            exdata->type   = old_type;
            exdata->szof   = 1;
            exdata->len    = 0;
            exdata->values = NULL;
            ex->name       = malloc(sizeof(NC_string));
            H4V_ASSUME(ex->name != NULL);
            ex->name->count = ex->name->len = 1;
            ex->name->hash                  = 0;
            ex->name->values                = name;
            ex->data       = exdata;
            ex->HDFtype    = 7;
            ((NC_attr **)arr->values)[g_exp] = ex;
        }
    }
    else
        H4V_ASSUME(g_exp < 0);
    g_xdrp   = g_handle ? &xdrs : NULL;
    g_ex     = ex;
    g_exdata = exdata;
    /* snapshots */
    unsigned   old_n     = arr ? arr->count : 0;
    unsigned   old_flags = g_handle ? g_handle->flags : 0;
    NC_string *ex_name   = ex ? ex->name : NULL;
    unsigned   exd_count = exdata ? exdata->count : 0;
    nc_type    exd_type  = exdata ? exdata->type : NC_UNSPECIFIED;
    int        writable  = (cdfid == g_cdfid && g_handle != NULL && (g_handle->flags & NC_RDWR));
    int        indef     = writable && (g_handle->flags & NC_INDEF);

    int r = NC_aput(cdfid, ap, name, datatype, count, vals);

    NC_attr **slots = arr ? (NC_attr **)arr->values : NULL;
    /* a ghost slot other than the one of the same name is never touched */
    H4V_CHECK(list_null || !((unsigned)g_j < old_n) || (arr != NULL && slots[g_j] == oth), "NC_aput: other attributes keep their slots");
    /* failure: the list is as it was */
    H4V_CHECK(r != -1 || list_null || (arr != NULL && arr->count == old_n && (g_exp < 0 || slots[g_exp] == ex)),
              "NC_aput: on error count and the slot of the same name are unchanged");
    /* (exception: data already overwritten in place, then the header synchronisation failed) */
    H4V_CHECK(r != -1 || ex == NULL || (g_re_fits && g_xdr_calls == 1) || (ex->name == ex_name && ex->data == exdata && exdata->count == exd_count &&
                                                     exdata->type == exd_type && ex->HDFtype == 7),
              "NC_aput: on error the existing attribute is unchanged");
    /* not writable: nothing */
    H4V_CHECK(writable || (r == -1 && g_nmut == 0 && g_nfree == 0 && (g_handle == NULL || g_handle->flags == old_flags)),
              "NC_aput: read-only or bad id => -1, flags unchanged");
    if (writable && r != -1) {
        if (g_exp >= 0 && indef) {
            /* existing name, define mode: replaced in place by a new attribute made from the arguments */
            H4V_CHECK(arr->count == old_n && slots[g_exp] != ex && slots[g_exp] != NULL, "NC_aput: existing name replaced in place, count kept");
            H4V_CHECK(slots[g_exp]->name == g_ns_obj && g_ns_src == name && g_ns_len == g_namelen, "NC_aput: new attribute carries the name");
            H4V_CHECK(slots[g_exp]->data == g_na_obj && g_na_type == datatype && g_na_count == count && g_na_values == vals,
                      "NC_aput: new attribute carries type, count and values");
            H4V_CHECK(slots[g_exp]->HDFtype == hdf_map_type(datatype), "NC_aput: HDF type of the new attribute");
            H4V_CHECK(g_freed_name == ex_name && g_freed_data == exdata && g_nfree == 2, "NC_aput: the old attribute (and only it) is released");
        }
        else if (g_exp >= 0) {
            /* existing name, data mode: same object, data overwritten only if it fits */
            H4V_CHECK(g_re_fits, "NC_aput: outside define mode larger data is an error");
            H4V_CHECK(arr->count == old_n && slots[g_exp] == ex && ex->data == exdata && exdata->count == count && exdata->type == datatype &&
                          ex->HDFtype == hdf_map_type(datatype) && g_nfree == 0,
                      "NC_aput: existing attribute updated in place");
            H4V_CHECK((old_flags & NC_HSYNC) ? (g_xdr_calls == 1 && !(g_handle->flags & (NC_NDIRTY | NC_HDIRTY)))
                                             : (g_handle->flags == (old_flags | NC_HDIRTY)),
                      "NC_aput: header marked dirty or synchronised");
        }
        else {
            /* new name: only in define mode, appended at the old count, limit enforced */
            H4V_CHECK(indef, "NC_aput: a new attribute needs define mode");
            H4V_CHECK(old_n < H4_MAX_NC_ATTRS, "NC_aput: H4_MAX_NC_ATTRS enforced");
            H4V_CHECK(arr != NULL && arr->count == old_n + 1 && r == (int)old_n, "NC_aput: appended, count' == count + 1");
            H4V_CHECK(((NC_attr **)arr->values)[old_n] != NULL && ((NC_attr **)arr->values)[old_n]->name == g_ns_obj && g_ns_src == name &&
                          ((NC_attr **)arr->values)[old_n]->data == g_na_obj && g_na_type == datatype && g_na_count == count &&
                          g_na_values == vals && g_nfree == 0,
                      "NC_aput: the appended attribute is made from the arguments");
        }
    }
    /* no failure without a reason when everything needed is available */
    H4V_COVER(r != -1 && g_exp >= 0 && indef, "aput: replace in define mode");
    H4V_COVER(r != -1 && g_exp >= 0 && !indef, "aput: overwrite in data mode");
    H4V_COVER(r == -1 && g_exp >= 0 && writable && !indef && !g_re_fits, "aput: larger data outside define mode");
    H4V_COVER(r != -1 && g_exp < 0 && !list_null && old_n == H4_MAX_NC_ATTRS - 1, "aput: append the last allowed attribute");
    H4V_COVER(r == -1 && g_exp < 0 && indef && old_n == H4_MAX_NC_ATTRS, "aput: limit reached");
    H4V_COVER(r != -1 && list_null, "aput: first attribute");
    H4V_COVER(r == -1 && !writable && g_handle != NULL, "aput: read-only");
    H4V_CANARY("NC_aput end");
}

void
h_NC_aput(void)
{
    aput_body();
}

/* Verification unit: hdf/src/hfiledd.c with the bit-vector, dynarray and tag tree ABSTRACTED by stub bodies (their own
 * contracts are proved in bitvect_u.c / dynarray_u.c; tbbt is trusted): cheap, unbounded obligations for the directory
 * functions whose full-detail versions (hfiledd_dir_u.c, real bitvect/dynarray inlined) exceed cbmc's memory. (C12, C02) */
#include "h4v.h"
#include "h4v_err.h"
#include "h4v_hp.h"
#include "hfiledd.c"

H4V_DECL_ND(int32);
H4V_DECL_ND(uint16);

/* ------------------------------------------------------------------ abstract tag info: one tag, one ghost ref */
filerec_t *g_frec;
tag_info  *g_tinfo;      /* the info node of the tag in the tree, NULL: tag not present */
tag_info **g_tip;        /* what tbbtdfind returns */
uint16     g_tag;        /* the base tag held by the tree */
int32      g_r;          /* ghost ref */
int        g_bit;        /* bit of ref g_r in the tag's bit-vector */
void      *g_slot_val;   /* dynarray slot of ref g_r */
int32      g_next;       /* what bv_find_next_zero will answer: FAIL or a bit number 0..65536 that is clear */
int        g_da_destroyed, g_ins_n, g_bvnew_n;
static struct bv_struct_dummy { int x; } g_bv_obj, g_bv_new_obj;
static int g_da_obj, g_da_new_obj;

TBBT_NODE *tbbtdfind(TBBT_TREE *tree, void *key, TBBT_NODE **pp)
{
    if (g_tinfo != NULL && *(uint16 *)key == g_tag)
        return (TBBT_NODE *)g_tip; /* callers only cast the result back to (tag_info **) */
    return NULL;
}
TBBT_NODE *tbbtdins(TBBT_TREE *tree, void *item, void *key) { g_ins_n++; return NULL; }
bv_ptr bv_new(int32 num_bits) { g_bvnew_n++; return (bv_ptr)&g_bv_new_obj; }
int bv_get(bv_ptr b, int32 bit_num)
{
    if (b == (bv_ptr)&g_bv_obj && bit_num == g_r)
        return g_bit;
    H4V_ND(int, other_bit);
    return other_bit ? BV_TRUE : BV_FALSE;
}
int bv_set(bv_ptr b, int32 bit_num, bv_bool value)
{
    if (b == (bv_ptr)&g_bv_obj && bit_num == g_r)
        g_bit = value;
    return SUCCEED;
}
int32 bv_find_next_zero(bv_ptr b) { return g_next; }
dynarr_p DAcreate_array(int start_size, int incr_mult) { return (dynarr_p)&g_da_new_obj; }
int DAdestroy_array(dynarr_p arr, int free_elem)
{
    if (arr == (dynarr_p)&g_da_obj)
        g_da_destroyed++;
    return SUCCEED;
}
void *DAget_elem(dynarr_p arr, int elem) { return (arr == (dynarr_p)&g_da_obj && elem == g_r) ? g_slot_val : NULL; }
int DAset_elem(dynarr_p arr, int elem, void *obj)
{
    if (arr == (dynarr_p)&g_da_obj && elem == g_r)
        g_slot_val = obj;
    return SUCCEED;
}
void *DAdel_elem(dynarr_p arr, int elem)
{
    void *o = NULL;
    if (arr == (dynarr_p)&g_da_obj && elem == g_r) {
        o          = g_slot_val;
        g_slot_val = NULL;
        return o;
    }
    H4V_ND(int, other_present);
    return other_present ? (void *)&g_da_obj : NULL;
}
void *HAatom_object(atom_t atm) { return g_frec; }
atom_t HAregister_atom(group_t grp, void *object) { return 77; }

#define ENV_OK (g_frec != NULL && g_r >= 0 && g_r <= 65535 && (g_tinfo == NULL || (g_tip == &g_tinfo && g_tinfo->tag == g_tag && \
                g_tinfo->b == (bv_ptr)&g_bv_obj && g_tinfo->d == (dynarr_p)&g_da_obj)))

/* ------------------------------------------------------------------ contracts */
/* C12: a newly issued ref is unused for the tag; 0 only when none of 1..65535 is free */
uint16 Htagnewref(int32 file_id, uint16 tag)
    __CPROVER_requires(ENV_OK && g_frec->refcount > 0)
    /* what the bit-vector contract (bitvect_u.c) guarantees about the answer */
    __CPROVER_requires(g_next == FAIL || (g_next >= 1 && g_next <= 65536 && (g_next != g_r || g_bit == 0)))
    __CPROVER_assigns()
    __CPROVER_ensures((g_tinfo == NULL || BASETAG(tag) != g_tag) ==> __CPROVER_return_value == 1)
    __CPROVER_ensures((g_tinfo != NULL && BASETAG(tag) == g_tag) ==>
                      __CPROVER_return_value == ((g_next == FAIL || g_next > 65535) ? 0 : g_next))
    __CPROVER_ensures((g_tinfo != NULL && BASETAG(tag) == g_tag && __CPROVER_return_value == g_r && g_r != 0) ==> g_bit == 0);

/* C12: registering a pair marks exactly that ref; an existing pair is refused and nothing of the tag's tables is touched */
static int HTIregister_tag_ref(filerec_t *file_rec, dd_t *dd_ptr)
    __CPROVER_requires(ENV_OK && file_rec == g_frec && dd_ptr != NULL && g_tinfo != NULL && BASETAG(dd_ptr->tag) == g_tag)
    __CPROVER_requires(g_da_destroyed == 0 && g_ins_n == 0)
    __CPROVER_assigns(g_bit, g_slot_val, g_da_destroyed, g_ins_n, g_bvnew_n)
    __CPROVER_ensures(g_da_destroyed == 0 && g_ins_n == 0 && g_tinfo->d == (dynarr_p)&g_da_obj && g_tinfo->b == (bv_ptr)&g_bv_obj)
    __CPROVER_ensures((dd_ptr->ref == g_r && __CPROVER_old(g_bit)) ==>
                      (__CPROVER_return_value == FAIL && g_bit == __CPROVER_old(g_bit) && g_slot_val == __CPROVER_old(g_slot_val)))
    __CPROVER_ensures((dd_ptr->ref == g_r && !__CPROVER_old(g_bit)) ==>
                      (__CPROVER_return_value == SUCCEED && g_bit == BV_TRUE && g_slot_val == (void *)dd_ptr))
    __CPROVER_ensures(dd_ptr->ref != g_r ==> (g_bit == __CPROVER_old(g_bit) && g_slot_val == __CPROVER_old(g_slot_val)));

static int HTIunregister_tag_ref(filerec_t *file_rec, dd_t *dd_ptr)
    __CPROVER_requires(ENV_OK && file_rec == g_frec && dd_ptr != NULL && g_tinfo != NULL && BASETAG(dd_ptr->tag) == g_tag)
    __CPROVER_assigns(g_bit, g_slot_val, dd_ptr->tag)
    __CPROVER_ensures((dd_ptr->ref == g_r && !__CPROVER_old(g_bit)) ==> (__CPROVER_return_value == FAIL && g_slot_val == __CPROVER_old(g_slot_val)))
    __CPROVER_ensures((dd_ptr->ref == g_r && __CPROVER_return_value == SUCCEED) ==> (g_bit == BV_FALSE && g_slot_val == NULL && dd_ptr->tag == DFTAG_NULL))
    __CPROVER_ensures(dd_ptr->ref != g_r ==> (g_bit == __CPROVER_old(g_bit) && g_slot_val == __CPROVER_old(g_slot_val)));

/* trusted contract (its body is the DD-list search, see hfiledd_dir_u.c): a free slot or none */
dd_t *g_free_slot;
static int HTIfind_dd(filerec_t *file_rec, uint16 look_tag, uint16 look_ref, dd_t **pdd, int direction)
    __CPROVER_requires(pdd != NULL)
    __CPROVER_assigns(*pdd)
    /* this obligation looks at the case 'a free slot exists' (the other case continues in HTInew_dd_block: hfiledd_u.c) */
    __CPROVER_ensures(__CPROVER_return_value == SUCCEED)
    __CPROVER_ensures(__CPROVER_pointer_equals(*pdd, g_free_slot));

/* C02/C12: creating a pair that exists fails and leaves neither a duplicate descriptor nor a disk write behind */
atom_t HTPcreate(filerec_t *file_rec, uint16 tag, uint16 ref)
    __CPROVER_requires(ENV_OK && file_rec == g_frec && g_tinfo != NULL && BASETAG(tag) == g_tag && ref == g_r && g_r != 0)
    __CPROVER_requires(g_free_slot != NULL && g_free_slot->tag == DFTAG_NULL && g_free_slot->blk != NULL &&
                       g_free_slot == &g_free_slot->blk->ddlist[0] && g_free_slot->blk->myoffset >= MAGICLEN &&
                       g_free_slot->blk->myoffset < INT32_MAX - 64)
    __CPROVER_requires(g_seq == 0 && g_da_destroyed == 0 && g_add_session == 0 && file_rec->ddlast != NULL && file_rec->ddhead != NULL &&
                       file_rec->f_end_off >= 0)
    __CPROVER_requires(tag != DFTAG_NULL && tag != DFTAG_WILDCARD && ref != DFREF_WILDCARD)
    __CPROVER_assigns(g_bit, g_slot_val, g_da_destroyed, g_ins_n, g_bvnew_n, __CPROVER_object_whole(g_free_slot), file_rec->dirty,
                      file_rec->f_cur_off, file_rec->f_end_off, g_free_slot->blk->dirty, g_seq, g_wr_n, g_wr_off, g_wr_len, g_seek_n, g_seqA, g_seqB,
                      g_firstA, g_firstB, g_byteA, g_byteB, g_hp_min_wr, g_hp_failed)
    __CPROVER_ensures(__CPROVER_old(g_bit) ==>
                      (__CPROVER_return_value == FAIL && g_free_slot->tag == DFTAG_NULL && g_seq == 0 && g_da_destroyed == 0 &&
                       g_slot_val == __CPROVER_old(g_slot_val)))
    __CPROVER_ensures((!__CPROVER_old(g_bit) && __CPROVER_return_value != FAIL) ==>
                      (g_free_slot->tag == tag && g_free_slot->ref == ref && g_free_slot->offset == INVALID_OFFSET &&
                       g_free_slot->length == INVALID_LENGTH && g_bit == BV_TRUE && g_slot_val == (void *)g_free_slot));

#ifdef H4V_NATIVE
#include "h4v_native_wrap.h"
#endif

/* ------------------------------------------------------------------ harnesses */
static void
mk_env(void)
{
    h4v_hp_init(1);
    g_frec = malloc(sizeof(filerec_t));
    H4V_ASSUME(g_frec != NULL);
    H4V_ND(int, f_cache);
    H4V_ND(int32, f_end_off);
    g_frec->access = DFACC_RDWR;
    g_frec->refcount = 1;
    g_frec->cache = f_cache ? 1 : 0;
    g_frec->dirty = 0;
    g_frec->f_cur_off = 0;
    g_frec->f_end_off = f_end_off;
    g_frec->tag_tree = NULL;
    g_frec->ddhead = g_frec->ddlast = NULL;
    H4V_ND(int, have_tag);
    H4V_HAVOC(uint16, g_tag);
    H4V_HAVOC(int32, g_r);
    H4V_HAVOC(int, g_bit);
    H4V_ASSUME(g_bit == 0 || g_bit == 1);
    H4V_HAVOC(int32, g_next);
    g_da_destroyed = g_ins_n = g_bvnew_n = 0;
    H4V_ND(int, slot_set);
    g_slot_val = slot_set ? (void *)&g_da_new_obj : NULL;
    if (have_tag) {
        g_tinfo = malloc(sizeof(tag_info));
        H4V_ASSUME(g_tinfo != NULL);
        g_tinfo->tag = g_tag;
        g_tinfo->b   = (bv_ptr)&g_bv_obj;
        g_tinfo->d   = (dynarr_p)&g_da_obj;
    }
    else
        g_tinfo = NULL;
    g_tip = &g_tinfo;
}

void
h_Htagnewref(void)
{
    mk_env();
    H4V_ND(uint16, tag);
    uint16 r = Htagnewref(1, tag);
    H4V_COVER(r == 65535, "Htagnewref hands out 65535");
    H4V_COVER(r == 0, "Htagnewref exhausted");
    H4V_COVER(r == 1 && g_tinfo == NULL, "Htagnewref new tag");
    H4V_CANARY("Htagnewref end");
}

static dd_t *
mk_dd(void)
{
    ddblock_t *b = malloc(sizeof(ddblock_t));
    H4V_ASSUME(b != NULL);
    H4V_ND(int32, b_off);
    b->myoffset = b_off;
    b->ndds     = 4;
    b->dirty    = 0;
    b->frec     = g_frec;
    b->next = b->prev = NULL;
    b->nextoffset = 0;
    b->ddlist = malloc(4 * sizeof(dd_t));
    H4V_ASSUME(b->ddlist != NULL);
    b->ddlist[0].blk = b;
    g_frec->ddhead = g_frec->ddlast = b;
    return &b->ddlist[0];
}

void
h_HTIregister_tag_ref(void)
{
    mk_env();
    dd_t *dd = mk_dd();
    H4V_ND(uint16, d_tag);
    H4V_ND(uint16, d_ref);
    dd->tag = d_tag;
    dd->ref = d_ref;
    int r = HTIregister_tag_ref(g_frec, dd);
    H4V_COVER(r == FAIL && d_ref == g_r, "HTIregister_tag_ref duplicate refused");
    H4V_COVER(r == SUCCEED && d_ref == g_r, "HTIregister_tag_ref registered ghost ref");
    H4V_CANARY("HTIregister_tag_ref end");
}

void
h_HTIunregister_tag_ref(void)
{
    mk_env();
    dd_t *dd = mk_dd();
    H4V_ND(uint16, d_tag);
    H4V_ND(uint16, d_ref);
    dd->tag = d_tag;
    dd->ref = d_ref;
    int r = HTIunregister_tag_ref(g_frec, dd);
    H4V_COVER(r == SUCCEED && d_ref == g_r, "HTIunregister_tag_ref ok");
    H4V_COVER(r == FAIL && d_ref == g_r, "HTIunregister_tag_ref not registered");
    H4V_CANARY("HTIunregister_tag_ref end");
}

void
h_HTPcreate(void)
{
    mk_env();
    g_free_slot      = mk_dd();
    g_free_slot->tag = DFTAG_NULL;
    g_free_slot->ref = DFREF_NONE;
    H4V_ND(uint16, tag);
    atom_t r = HTPcreate(g_frec, tag, (uint16)g_r);
    H4V_COVER(r == FAIL && g_seq == 0 && !g_hp_failed, "HTPcreate duplicate refused");
    H4V_COVER(r != FAIL, "HTPcreate created");
    H4V_CANARY("HTPcreate end");
}

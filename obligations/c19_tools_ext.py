"""C19 (extension): hdp value formatting, hdfimport per-input state, hdiff float comparison, hdiff driver glue."""
from .core import ob

# ----------------------------------------------------------------------------- hdp_dump.c formatters
HF = dict(unit="hdp_fmt_u.c", file="mfhdf/hdp/hdp_dump.c", mode="proved", cex_unwind=9,
          trusted=["fprintf/fwrite/putc: logging bodies (units/hdp_fmt_u.c): the format's conversion and the promoted argument are recorded; "
                   "the text produced by the C library for a given conversion and argument is not modelled",
                   "isprint: C locale (0x20..0x7e)"])
for fn in ("fmtint8", "fmtuint8", "fmtuchar8", "fmtbyte", "fmtint16", "fmtuint16", "fmtshort", "fmtint32", "fmtuint32", "fmtint",
           "fmtchar", "fmtfloat32", "fmtfloat64"):
    ob(f"hdp_{fn}", ["C19"], entry=f"h_{fn}", enforce=fn, **HF)
ob("hdp_select_func", ["C19"], entry="h_select_func", enforce="select_func", **HF)

# ----------------------------------------------------------------------------- hdiff_array.c float branches
# same recipe as c19_hdiff.py (type a harness constant, --slice-formula, print_pos replaced, rank <= 2); tot_cnt <= 2
FD = dict(unit="hdiff_float_u.c", file="mfhdf/hdiff/hdiff_array.c", mode="bounded", replace=["print_pos"],
          flags=["--slice-formula"], objbits=12, unwind=4, cex_unwind=4, tier="quick", timeout=600,
          trusted=["printf: cbmc built-in (no effect)",
                   "getenv(\"DEBUG\"): NULL or a string; fopen succeeds; fprintf/fclose: no effect on program state"])
for bits in (32, 64):
    for n in (1, 2):
        kw = dict(FD, bound=f"tot_cnt <= {n}, rank <= 2, type DFNT_FLOAT{bits}, finite elements, default options (no tolerance), no fill value",
                  defines=[f"H4V_FBITS={bits}", f"H4V_MAXCNT={n}u"])
        ob(f"fdiff_F{bits}_n{n}", ["C19"], entry="h_fdiff", enforce="array_diff", **kw)
        ob(f"fdiff_same_F{bits}_n{n}", ["C19"], entry="h_fdiff_same", enforce="array_diff", **kw)
        ob(f"fdiff_ulp_F{bits}_n{n}", ["C19"], entry="h_fdiff_ulp", enforce=None, **kw)

# ----------------------------------------------------------------------------- hdfimport.c per-input format state
HI = dict(unit="hdfimport_u.c", file="mfhdf/hdfimport/hdfimport.c", cex_unwind=6, unwind=6, objbits=10,
          trusted=["ghost disk (units/hdfimport_u.c): fopen/fread/fscanf/fclose bodies deliver the header tag of the input's format, its "
                   "three dimension fields, then arbitrary values; fprintf(stderr) has no effect",
                   "Hishdf/Hopen/SDstart/SDselect/SDgetinfo/SDcreate/...: logging bodies, may fail nondeterministically"])
# loop-free functions; `unwind` only bounds the constant loops of the harness environment (2 files) and of memcmp(.., 4) -> proved
for fn in ("gtype", "gint", "gint32", "gint16", "gint8", "gfloat", "gfloat64", "gdimen", "gmaxmin"):
    ob(f"hdfimport_{fn}", ["C19"], entry=f"h_{fn}", enforce=fn, mode="proved", **HI)
ob("hdfimport_process_flags", ["C19"], entry="h_process", enforce=None, mode="bounded",
   bound="2 input files of arbitrary formats, dimension fields 2..3, SDS output only (no raster/palette); gdimen/gmaxmin/gscale/gdata "
         "replaced by contracts whose requires is the per-input flag clause (gscale/gdata frames trusted)",
   replace=["gdimen", "gmaxmin", "gscale", "gdata"], **HI)
# (an observational twin of hdfimport_process_flags with NOTHING replaced -- real gdimen/gmaxmin/gscale/gdata on the ghost disk, inputs of
#  1 x 2 x 2 values -- did not finish in 15 min (cbmc timeout) and is not registered; -DHI_DIMS_MIN in the unit is its switch)

# ----------------------------------------------------------------------------- hdiff driver glue (array_diff stubbed by a reference count)
DR = dict(unit="hdiff_drv_u.c", mode="bounded", enforce=None, objbits=10,
          trusted=["array_diff: reference body (exact int8 count / harness-chosen per-slab counts) + log; its real contract: hdiff_array_u.c, hdiff_float_u.c",
                   "match_table_init/add/free (hdiff_mattbl.c): model with a fixed 4-entry table; qsort: exact model for <= 2 records; SD*/GR* readers: bodies delivering two ghost datasets; printf: no effect; strcmp/strcpy: exact models for names of <= 1 character"])
ob("hdiff_sds_slabs", ["C19"], entry="h_sds_slabs", file="mfhdf/hdiff/hdiff_sds.c", unwind=6, cex_unwind=6,
   bound="int8 SDS of 2..3 rows x 1 MiB (hyperslab path, one slab per row), no fill value, no attributes", **DR)
ob("hdiff_gr_comps", ["C19"], entry="h_gr_comps", file="mfhdf/hdiff/hdiff_gr.c", unwind=14, cex_unwind=14,
   bound="int8 images of 1..2 x 1..2 pixels with 1..3 components", **DR)
# match(): one pair of object lists per obligation (constant names; symbolic names hit a cbmc field-sensitivity defect, see the unit)
_MO = ["", "a", "b", "c", "ab", "ba", "ac", "ca", "bc", "cb"]
for _a, _b in ((4, 4), (4, 5), (5, 4), (8, 4), (9, 5), (7, 9), (1, 0), (0, 5), (4, 3), (6, 2), (1, 1), (0, 0), (5, 9)):
    ob(f"hdiff_match_{_MO[_a] or '0'}_{_MO[_b] or '0'}", ["C19"], entry="h_match_only", file="mfhdf/hdiff/hdiff.c", unwind=6, cex_unwind=6,
       defines=[f"MO_A={_a}", f"MO_B={_b}"],
       bound=f"file 1 holds Vdatas {list(_MO[_a])}, file 2 holds {list(_MO[_b])} (in that order)", **DR)

/* Build: gcc D75_attr_name_longer_than_64.c -I/repo/hdf/src -I/repo/_build -L/repo/_build/bin -lhdf -lz -ljpeg -lm; run with LD_LIBRARY_PATH=/repo/_build/bin. Exit status 1 = defect present. */
#include "hdf.h"
#include <stdio.h>
#include <string.h>
int main(void)
{
    char name[80]; int32 f, vs, v = 1, w = 2, n, idx;
    memset(name, 'n', 70); name[70] = 0;
    f = Hopen("o1.hdf", DFACC_CREATE, 0); Vstart(f);
    vs = VSattach(f, -1, "w"); VSsetname(vs, "t"); VSfdefine(vs, "a", DFNT_INT32, 1); VSsetfields(vs, "a"); VSwrite(vs, (uint8 *)&v, 1, FULL_INTERLACE);
    VSsetattr(vs, _HDF_VDATA, name, DFNT_INT32, 1, &v);
    VSsetattr(vs, _HDF_VDATA, name, DFNT_INT32, 1, &w);   /* re-set of the same (70-character) name */
    n = VSnattrs(vs); idx = VSfindattr(vs, _HDF_VDATA, name);
    printf("attributes: %d (expected 1), VSfindattr -> %d (expected 0)\n", (int)n, (int)idx);
    VSdetach(vs); Vend(f); Hclose(f);
    return !(n == 1 && idx == 0);
}

"""C08/C13/C16/C14: Vgroup handle life cycle (vgp.c Vattach/Vdetach) and lone-object enumeration (vg.c Vlone/VSlone).
Property records are owned by other modules (no prop() calls here)."""
from .core import ob

LTR = ["atom registry of three vgroup id slots, ids never reused (units/vgp_life_u.c: HAregister_atom/HAremove_atom/HAatom_object/HAatom_group)",
       "tbbtdfind/tbbtdins: file id -> vfile_t, ref -> instance for the existing and the created group (A-TBBT)",
       "Hputelement/HDcheck_tagref/HDreuse_tagref/Hnewref: logging stubs, Hputelement may fail (units/vgp_life_u.c)"]
LIFE = dict(unit="vgp_life_u.c", file="hdf/src/vgp.c", objbits=10, trusted=LTR)

# ---- single calls (contracts)
ABS = ["strlen/strcpy on the two names of the group: true lengths g_nlen/g_clen, destination size checked, content arbitrary (A-STRLEN)"]
# Vdetach for groups of ANY size: its only loops are those of vpackvg, which is replaced by its contract (position bookkeeping:
# record length, record fits the buffer of the size Vdetach computes).  cbmc cannot close vpackvg's loops with loop contracts
# (the write pointer bb is havocked by the loop rule and every write through it becomes an update of all objects: out of memory,
# probed), so that contract is only CHECKED BOUNDED (vpackvg_size) -- an assumption edge, not a proved dependency.
VPK = ["ASSUMED: vpackvg contract (*size == record length of the format, writes stay inside a buffer of Vdetach's size) for groups "
       "of any size -- checked only for <= 3 members / <= 2 attributes / names <= 2 chars by obligation vpackvg_size and by vg_roundtrip_*"]
VD = dict(entry="h_Vdetach", enforce="Vdetach", replace=["vpackvg"], cex_unwind=6, unit="vgp_life_u.c",
          file="hdf/src/vgp.c", objbits=10, trusted=LTR + ABS + VPK)
ob("Vdetach_life", ["C08", "C13"], defines=["LIFE_ABS_STR"], **VD)
ob("Vdetach_c16", ["C16"], defines=["LIFE_ABS_STR", "LIFE_C16"], **VD)
ob("vpackvg_size", ["C08"], entry="h_vpackvg", enforce="vpackvg", mode="bounded", defines=["LV_SMALL"], unwind=5, cex_unwind=6,
   bound="<= 3 members (msize <= 4), <= 2 attributes, names absent or <= 2 characters", timeout=900, **LIFE)
ob("Vattach_life", ["C08", "C13", "C14"], entry="h_Vattach", enforce="Vattach", cex_unwind=4, **LIFE)

# ---- bounded histories (harness-level sequences over the real Vattach/Vdetach/vpackvg).  One run per group shape: constant record
# offsets keep the inlined vpackvg cheap (see the note at lh_env in the unit).
SHAPES = [("n0", ["LH_N=0"], "0 members, no name"), ("n2name", ["LH_N=2", "LH_NAME"], '2 members, name "n"'),
          ("n1attr", ["LH_N=1", "LH_ATTR"], "1 member, 1 attribute (version-4 record)")]
HB = "static environment; edited group: %s; member tags/refs, attribute, refs, version arbitrary; 2 handles (+ stale ids); buffer large enough"
for _t, _d, _b in SHAPES:
    H = dict(mode="bounded", bound=HB % _b, unwind=5, cex_unwind=6, **LIFE)
    ob(f"hist_edit_reattach_{_t}", ["C08", "C13"], entry="h_hist_edit_reattach", defines=_d, **H)
    ob(f"hist_edit_twice_{_t}", ["C08"], entry="h_hist_edit_twice", defines=_d, **H)
    ob(f"hist_edit_reattach_c16_{_t}", ["C16"], entry="h_hist_edit_reattach", defines=_d + ["LIFE_C16"], **H)
HN = dict(mode="bounded", unwind=5, cex_unwind=6, **LIFE)
ob("hist_new_group", ["C08", "C13"], entry="h_hist_new_group", defines=["LH_POOL"],
   bound="new empty group; vgp.c's malloc served from typed static objects; 2 handles", **HN)
ob("hist_new_group_c16", ["C16"], entry="h_hist_new_group", defines=["LH_POOL", "LIFE_C16"],
   bound="new empty group; vgp.c's malloc served from typed static objects; 2 handles", **HN)
ob("hist_no_edit", ["C08", "C13"], entry="h_hist_no_edit", bound="group of <= 2 members; 2 handles; file writable or read-only", **HN)

# ---------------------------------------------------------------------------- vg.c: Vlone / VSlone
VTR = ["V-layer model (units/vg_lone_u.c): Vgetid/VSgetid walk tables of <= 3 refs, Vattach/Vdetach count, Vntagrefs/Vgettagref read "
       "member arrays of the attached vgroup (the real functions are under contract in vgp_u.c)"]
SC = ("MAX_REF scaled from 65535 to 15 (work area of 15 flags, refs 1..14) so that the scan can be unwound; <= 3 vgroups / enumerated objects, "
      "<= 3 members per vgroup, asize <= 4; exact reference model")
LONE = dict(unit="vg_lone_u.c", file="hdf/src/vg.c", entry="h_lone", mode="bounded", unwind=18, cex_unwind=18, objbits=10, trusted=VTR,
            tier="thorough", timeout=1200)
S = ["VL_SCALE=15"]
ob("Vlone_model", "C08", defines=S, bound=SC, **LONE)
ob("VSlone_model", "C08", defines=S + ["VL_VS"], bound=SC, **LONE)
# the largest ref (Hnewref hands out MAX_REF itself): the work area has MAX_REF entries, index MAX_REF is one past its end
ob("Vlone_maxref", "C08", defines=S + ["VL_REFMAX=MAX_REF"], bound=SC + "; refs up to MAX_REF", **LONE)
ob("VSlone_maxref", "C08", defines=S + ["VL_VS", "VL_REFMAX=MAX_REF"], bound=SC + "; refs up to MAX_REF", **LONE)

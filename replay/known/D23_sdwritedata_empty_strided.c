/* D23 (C03): SDwritedata with a stride and edge == 0 selects no cell, yet NCgenio's odometer transferred one:
   cell 1 is overwritten.  Build: gcc D23_sdwritedata_empty_strided.c -I/repo/hdf/src -I/repo/mfhdf/src -I/repo/_build -L/repo/_build/bin -lmfhdf -lhdf -Wl,-rpath,/repo/_build/bin
   Before the fix: prints "1 9 3 4" FAIL.  After: "1 2 3 4" PASS. */
#include "mfhdf.h"
#include <stdio.h>
int main(void)
{
    int32 sd = SDstart("d23.hdf", DFACC_CREATE), dims[1] = {4};
    int32 sds = SDcreate(sd, "v", DFNT_INT32, 1, dims);
    int32 start[1] = {0}, edge[1] = {4}, stride[1] = {2}, data[4] = {1, 2, 3, 4}, nine[1] = {9}, out[4];
    SDwritedata(sds, start, NULL, edge, data);
    start[0] = 1; edge[0] = 0;
    intn r = SDwritedata(sds, start, stride, edge, nine); /* empty request */
    start[0] = 0; edge[0] = 4;
    SDreaddata(sds, start, NULL, edge, out);
    printf("empty strided write returned %d; data: %d %d %d %d\n", r, out[0], out[1], out[2], out[3]);
    SDendaccess(sds); SDend(sd);
    int bad = out[1] != 2;
    printf(bad ? "FAIL\n" : "PASS\n");
    return bad;
}

/* D42 (C13/C07): VSattach(f, ref, "r") on a Vdata that is attached "w" (documented in vio.c as forbidden: "if w => being written,
   unstable") succeeded: it flipped the shared Vdata to read access and replaced its access element, so the pending edit of the
   write handle is silently dropped at VSdetach.
   Build: gcc D42_vsattach_r_on_w.c -I/repo/hdf/src -I/repo/_build -L/repo/_build/bin -lhdf -Wl,-rpath,/repo/_build/bin
   Before the fix: second attach succeeds and the new name is lost after reopen (FAIL).  After: attach refused, name stored (PASS). */
#include "hdf.h"
#include <stdio.h>
#include <string.h>
int main(void)
{
    int32 fid = Hopen("d42.hdf", DFACC_CREATE, 0);
    Vstart(fid);
    int32 vs = VSattach(fid, -1, "w");
    VSsetname(vs, "old"); VSfdefine(vs, "x", DFNT_INT32, 1); VSsetfields(vs, "x");
    int32 v = 1; VSwrite(vs, (uint8 *)&v, 1, FULL_INTERLACE);
    int32 ref = VSQueryref(vs); VSdetach(vs);
    int32 w = VSattach(fid, ref, "w");
    VSsetname(w, "new");                 /* pending edit of the write handle */
    int32 r = VSattach(fid, ref, "r");   /* must be refused while attached for writing */
    printf("VSattach(\"r\") while attached \"w\" -> %d (FAIL = -1 expected)\n", (int)r);
    if (r != FAIL) VSdetach(r);
    intn d = VSdetach(w);
    Vend(fid); Hclose(fid);
    fid = Hopen("d42.hdf", DFACC_READ, 0); Vstart(fid);
    char name[VSNAMELENMAX + 1] = "";
    int32 x = VSattach(fid, ref, "r"); VSgetname(x, name); VSdetach(x);
    Vend(fid); Hclose(fid); remove("d42.hdf");
    printf("VSdetach(w) -> %d; name after reopen: \"%s\" (\"new\" expected)\n", d, name);
    int bad = !(r == FAIL && strcmp(name, "new") == 0);
    printf(bad ? "FAIL\n" : "PASS\n");
    return bad;
}

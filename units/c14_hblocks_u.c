/* Verification unit: hdf/src/hblocks.c -- C14 (read-only access) gates of HLcreate, HLconvert,
 * HLIstaccess (write mode) and the frame of HLsetblockinfo.
 *
 * Environment (stubs/c14_common.h): one file opened read-only, one access record on it without
 * DFACC_WRITE.  Every file-mutating primitive below hblocks.c CHECKs that it is never reached.
 * Gate clause: the function returns FAIL, no mutation primitive was reached (g_mut_n == 0),
 * no write request was even handed to the H layer (g_denied_n == 0: the check comes strictly
 * before the first mutation attempt), no access record taken from the pool, no new handle.
 */
#include "h4v.h"
#include "h4v_err.h"
#include "c14_common.h"
#include "hblocks.c"

/* ------------------------------------------------------------------ contracts */
#define C14_ENV (g_frec != NULL && C14_RDONLY(g_frec) && g_mut_n == 0 && g_denied_n == 0 && g_reg_n == 0 && g_getrec_n == 0)
#define C14_REFUSED (g_mut_n == 0 && g_denied_n == 0 && g_reg_n == 0 && g_getrec_n == 0)

int32 HLcreate(int32 file_id, uint16 tag, uint16 ref, int32 block_length, int32 number_blocks)
    __CPROVER_requires(C14_ENV)
    __CPROVER_assigns(g_mut_n, g_denied_n, g_reg_n, g_rem_n, g_getrec_n, g_relrec_n, __CPROVER_object_whole(g_frec))
    __CPROVER_ensures(__CPROVER_return_value == FAIL)
    __CPROVER_ensures(C14_REFUSED)
    __CPROVER_ensures(g_frec->attach == __CPROVER_old(g_frec->attach));

/* HLconvert: only the DENIED gate (what the failure path does to the caller's access record is C13, D3) */
int HLconvert(int32 aid, int32 block_length, int32 number_blocks)
    __CPROVER_requires(C14_ENV && g_arec != NULL && g_arec->special_info == NULL)
    __CPROVER_assigns(g_mut_n, g_denied_n, g_reg_n, g_rem_n, g_getrec_n, g_relrec_n, __CPROVER_object_whole(g_frec),
                      __CPROVER_object_whole(g_arec))
    __CPROVER_ensures(__CPROVER_return_value == FAIL)
    __CPROVER_ensures(C14_REFUSED)
    /* the element is not turned into a special one, its DD is not swapped */
    __CPROVER_ensures(g_arec->special == __CPROVER_old(g_arec->special) && g_arec->ddid == __CPROVER_old(g_arec->ddid))
    __CPROVER_ensures(g_frec->attach == __CPROVER_old(g_frec->attach));

/* HLIstaccess with a write mode (Hstartaccess on a linked-block element): refused before the
   access record is touched */
static int32 HLIstaccess(accrec_t *access_rec, int16 acc_mode)
    __CPROVER_requires(C14_ENV && access_rec == g_arec && g_arec != NULL && acc_mode == DFACC_WRITE) /* HLPstwrite passes exactly DFACC_WRITE */
    __CPROVER_assigns(g_mut_n, g_denied_n, g_reg_n, g_rem_n, g_getrec_n, g_relrec_n, __CPROVER_object_whole(g_frec),
                      __CPROVER_object_whole(g_arec))
    __CPROVER_ensures(__CPROVER_return_value == FAIL)
    __CPROVER_ensures(C14_REFUSED)
    __CPROVER_ensures(g_arec->access == __CPROVER_old(g_arec->access) && g_arec->special == __CPROVER_old(g_arec->special))
    __CPROVER_ensures(g_frec->attach == __CPROVER_old(g_frec->attach));

/* HLsetblockinfo only records hints in the access record: nothing of the file is touched */
int HLsetblockinfo(int32 aid, int32 block_size, int32 num_blocks)
    __CPROVER_requires(C14_ENV && g_arec != NULL)
    __CPROVER_assigns(g_arec->block_size, g_arec->num_blocks)
    __CPROVER_ensures(C14_REFUSED);

#ifdef H4V_NATIVE
#include "h4v_native_wrap.h"
#endif

/* ------------------------------------------------------------------ harnesses */
void
h_c14_HLcreate(void)
{
    c14_mk_file();
    int32 file_id = g_fid; /* a valid handle of the read-only file (invalid handles: C13) */
    H4V_ND(uint16, tag);
    H4V_ND(uint16, ref);
    H4V_ND(int32, block_length);
    H4V_ND(int32, number_blocks);
    int32 r = HLcreate(file_id, tag, ref, block_length, number_blocks);
    H4V_COVER(r == FAIL && file_id == g_fid && block_length > 0 && number_blocks > 0 && !SPECIALTAG(tag), "HLcreate denied at the gate");
    H4V_CANARY("HLcreate end");
}

void
h_c14_HLconvert(void)
{
    c14_mk_file();
    c14_mk_arec();
    int32 aid = g_aid; /* a valid access id on the read-only file */
    H4V_ND(int32, block_length);
    H4V_ND(int32, number_blocks);
    int r = HLconvert(aid, block_length, number_blocks);
    H4V_COVER(r == FAIL && aid == g_aid && block_length > 0 && number_blocks > 0, "HLconvert denied at the gate");
    H4V_CANARY("HLconvert end");
}

void
h_c14_HLIstaccess(void)
{
    c14_mk_file();
    c14_mk_arec();
    int32 r = HLIstaccess(g_arec, DFACC_WRITE);
    H4V_COVER(r == FAIL, "HLIstaccess write mode refused");
    H4V_CANARY("HLIstaccess end");
}

void
h_c14_HLsetblockinfo(void)
{
    c14_mk_file();
    c14_mk_arec();
    int32 aid = g_aid;
    H4V_ND(int32, block_size);
    H4V_ND(int32, num_blocks);
    int r = HLsetblockinfo(aid, block_size, num_blocks);
    H4V_COVER(r == SUCCEED && g_arec->block_size == block_size && block_size > 0, "HLsetblockinfo hint recorded");
    H4V_CANARY("HLsetblockinfo end");
}

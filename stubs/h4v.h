/* Common definitions for every verification unit (CBMC and native replay). */
#ifndef H4V_H
#define H4V_H
#include <stddef.h>
#include <stdint.h>
#include <stdlib.h>

#ifdef H4V_CBMC
/* nondeterministic inputs: named so that the cbmc trace can be mapped back to them */
#define H4V_ND(T, x) T x = nondet_##T()
#define H4V_DECL_ND(T) T nondet_##T(void)
/* ghost globals are zero-initialised by cbmc: every harness must havoc them */
#define H4V_HAVOC(T, g) g = nondet_##T()
#define H4V_ASSUME(c) __CPROVER_assume(c)
#define H4V_CHECK(c, msg) __CPROVER_assert((c), "H4V: " msg)
#ifdef H4V_NOCANARY
#define H4V_CANARY(msg) ((void)0)
#define H4V_COVER(c, msg) ((void)0)
#else
/* vacuity canary: must FAIL (shows the requires is satisfiable and the end reachable) */
#define H4V_CANARY(msg) __CPROVER_assert(0, "canary " msg)
#define H4V_COVER(c, msg) do { if (c) __CPROVER_assert(0, "canary " msg); } while (0)
#endif
/* a heap buffer of n elements with arbitrary contents.  Proof mode: nondet malloc'ed memory.
   Counterexample mode (-DH4V_CEX): n <= CAP and every element is a named nondet value, so the
   trace carries the contents and the native replay can rebuild them. */
#ifndef H4V_CEX
#define H4V_ND_BUF(T, p, n, CAP)                                                                     \
    T *p = malloc((size_t)(n) * sizeof(T));                                                          \
    __CPROVER_assume(p != NULL)
#else
/* generic carrier of up to 64 named element values */
struct h4v_nbuf { unsigned long long a[64]; };
struct h4v_nbuf nondet_h4v_nbuf(void);
#define H4V_ND_BUF(T, p, n, CAP)                                                                     \
    __CPROVER_assume((n) <= (CAP) && (CAP) <= 64);                                                   \
    T *p = malloc((size_t)(n) * sizeof(T));                                                          \
    __CPROVER_assume(p != NULL);                                                                     \
    struct h4v_nbuf p##_nd = nondet_h4v_nbuf();                                                      \
    for (int p##_i = 0; p##_i < (CAP); p##_i++)                                                      \
        if (p##_i < (n)) p[p##_i] = (T)(p##_nd.a[p##_i] & (((1ull << (8 * sizeof(T) - 1)) << 1) - 1ull))
#endif
#else /* native replay */
#include <stdio.h>
long long h4v_replay_get(const char *name, int idx);
extern int h4v_failed;
#define H4V_ND(T, x) T x = (T)h4v_replay_get(#x, -1)
#define H4V_DECL_ND(T) typedef int h4v_unused_##T
#define H4V_HAVOC(T, g) g = (T)h4v_replay_get(#g, -1)
#define H4V_ASSUME(c) do { if (!(c)) { printf("H4V-REPLAY assumption not met: %s\n", #c); exit(3); } } while (0)
#define H4V_CHECK(c, msg) do { if (!(c)) { printf("H4V-REPLAY FAILED: %s\n", msg); h4v_failed = 1; } } while (0)
#define H4V_CANARY(msg) ((void)0)
#define H4V_COVER(c, msg) ((void)0)
#define H4V_ND_BUF(T, p, n, CAP)                                                                     \
    T *p = malloc((size_t)(n) * sizeof(T) + ((n) == 0));                                             \
    for (long p##_i = 0; p##_i < (long)(n); p##_i++) p[p##_i] = (T)h4v_replay_get(#p, (int)p##_i)
#define __CPROVER_requires(x)
#define __CPROVER_ensures(x)
#define __CPROVER_assigns(...)
#define __CPROVER_frees(...)
#endif
#endif

/* Verification unit: hdf/src/mfgr.c (C09: raster interlace permutation) -- whole file */
#include "h4v.h"
#include "h4v_err.h"
#include <string.h>

/* trusted stub: size in bytes of one component of the (native) number type.  The harness picks
   g_csize; GRIil_convert only uses the value (twice, same argument). */
static int g_csize;
int
DFKNTsize(int32 number_type)
{
    (void)number_type;
    return g_csize;
}

/* NOTE (proved variant, not achieved): the row/pixel/component loops of GRIil_convert keep their
   cursors in two malloc'ed POINTER ARRAYS (in_comp_ptr[], out_comp_ptr[]) that every iteration
   updates.  Loop contracts were written for all four loops (cursor k == base_k + i*rowstep +
   j*pixelstep, ghost-component clause) with xdim/ncomp/size constants and ydim symbolic; base,
   assigns and decreases obligations and the steps of the three outer loops were discharged, but
   the step of the copy loop fails spuriously: after the loop-contract havoc of the pointer arrays
   cbmc's symex has no value set for in_comp_ptr[k]/out_comp_ptr[k] (the invariant's `==` does not
   restore it), so memcpy through them writes to a dummy `$object`.  dfcc also refuses to leave the
   constant-trip inner loops to --unwind when the outer loop has a contract.  Hence bounded only. */
int32 g_x, g_y, g_c, g_b;

#include "mfgr.c"

/* ghost pixel component (x,y,c), ghost byte inside the component, ghost byte of the whole buffer */
int32 g_i;

/* The three address maps, written from the interlace DEFINITIONS (element index, in components):
     pixel:     all components of pixel (x,y) are adjacent, pixels row-major
     line:      for each row y, a line of component 0, then a line of component 1, ...
     component: a whole xdim*ydim plane per component                                            */
#define IL_PIXEL_IDX(x, y, c, xd, yd, nc) (((y) * (xd) + (x)) * (nc) + (c))
#define IL_LINE_IDX(x, y, c, xd, yd, nc) (((y) * (nc) + (c)) * (xd) + (x))
#define IL_COMP_IDX(x, y, c, xd, yd, nc) (((c) * (yd) + (y)) * (xd) + (x))
#define IL_IDX(il, x, y, c, xd, yd, nc)                                                              \
    ((il) == MFGR_INTERLACE_PIXEL  ? IL_PIXEL_IDX(x, y, c, xd, yd, nc)                                \
     : (il) == MFGR_INTERLACE_LINE ? IL_LINE_IDX(x, y, c, xd, yd, nc)                                 \
                                   : IL_COMP_IDX(x, y, c, xd, yd, nc))
#define GR_MAXX GR_MAXDIM
#define GR_MAXY GR_MAXDIM
#define IL_VALID(il) ((il) == MFGR_INTERLACE_PIXEL || (il) == MFGR_INTERLACE_LINE || (il) == MFGR_INTERLACE_COMPONENT)
#define IL_TOTAL(dims, ncomp) ((dims)[0] * (dims)[1] * (ncomp)*g_csize)

#ifndef GR_MAXDIM
#define GR_MAXDIM 3
#endif
#ifndef GR_MAXCOMP
#define GR_MAXCOMP 3
#endif
#define GR_CAP (GR_MAXDIM * GR_MAXDIM * GR_MAXCOMP * 2)
/* GR_CAPBUF (proof runs with symbolic extents): the buffers are allocated with the constant
   capacity GR_CAP instead of exactly xdim*ydim*ncomp*size bytes (symbolic object sizes cost
   5 GB / 100 s here).  The exact WRITE frame is still enforced by the assigns clause; exact
   object sizes (over-reads too) are used in the *_exact obligations, in counterexample mode
   and in the native replay. */
#if defined(GR_CAPBUF) && defined(H4V_CBMC)
#define GR_BUFSZ(total) GR_CAP
#else
#define GR_BUFSZ(total) (total)
#endif
/* buffer with arbitrary contents.  Counterexample mode: the named element values come from one
   nondet struct and are copied without a loop (a global --unwind 56 for H4V_ND_BUF's loop would
   also unwind the triple loop nest of GRIil_convert 56^3 times). */
#if defined(H4V_CBMC) && defined(H4V_CEX)
#define GR_ND_BUF(T, p, n, CAP)                                                                      \
    T *p = malloc((size_t)GR_BUFSZ(n) * sizeof(T));                                                  \
    __CPROVER_assume(p != NULL);                                                                     \
    struct h4v_nb_##p { T a[CAP]; };                                                                 \
    struct h4v_nb_##p nondet_h4v_nb_##p(void);                                                       \
    struct h4v_nb_##p p##_nd = nondet_h4v_nb_##p();                                                  \
    memcpy(p, p##_nd.a, (size_t)(n) * sizeof(T))
#elif defined(H4V_CBMC)
#define GR_ND_BUF(T, p, n, CAP) H4V_ND_BUF(T, p, GR_BUFSZ(n), CAP)
#else
#define GR_ND_BUF(T, p, n, CAP) H4V_ND_BUF(T, p, n, CAP)
#endif

int GRIil_convert(const void *inbuf, gr_interlace_t inil, void *outbuf, gr_interlace_t outil, int32 dims[2], int32 ncomp, int32 nt)
    /* callers (GRwriteimage/GRreadimage/GRreadlut/chunk I/O) pass validated interlaces, count[] >= 1,
       ncomps >= 1 and two distinct buffers of exactly xdim*ydim*ncomp*size bytes */
    __CPROVER_requires(IL_VALID(inil) && IL_VALID(outil))
    __CPROVER_requires(dims != NULL && dims[0] >= 1 && dims[0] <= GR_MAXX && dims[1] >= 1 && dims[1] <= GR_MAXY)
    __CPROVER_requires(ncomp >= 1 && ncomp <= GR_MAXCOMP && (g_csize == 1 || g_csize == 2))
    __CPROVER_requires(inbuf != NULL && outbuf != NULL)
    __CPROVER_requires(0 <= g_x && g_x < dims[0] && 0 <= g_y && g_y < dims[1] && 0 <= g_c && g_c < ncomp && 0 <= g_b && g_b < g_csize)
    /* frame: exactly the xdim*ydim*ncomp*size bytes of the output buffer */
    __CPROVER_assigns(__CPROVER_object_upto(outbuf, (__CPROVER_size_t)IL_TOTAL(dims, ncomp)))
    /* FAIL only when the six small work arrays cannot be allocated (checked in the harness: buffer untouched) */
    __CPROVER_ensures(__CPROVER_return_value == SUCCEED || __CPROVER_return_value == FAIL)
    /* the permutation: component c of pixel (x,y) moves from its input address to its output address */
    __CPROVER_ensures(__CPROVER_return_value == FAIL ||
                      ((const uint8 *)outbuf)[IL_IDX(outil, g_x, g_y, g_c, dims[0], dims[1], ncomp) * g_csize + g_b] ==
                      ((const uint8 *)inbuf)[IL_IDX(inil, g_x, g_y, g_c, dims[0], dims[1], ncomp) * g_csize + g_b]);

#ifdef H4V_NATIVE
#include "h4v_native_wrap.h"
#endif

/* ---------------- harnesses ---------------- */
H4V_DECL_ND(int32);
H4V_DECL_ND(int);
H4V_DECL_ND(gr_interlace_t);

static void
mk_ghosts(void)
{
    H4V_HAVOC(int32, g_x);
    H4V_HAVOC(int32, g_y);
    H4V_HAVOC(int32, g_c);
    H4V_HAVOC(int32, g_b);
    H4V_HAVOC(int32, g_i);
    H4V_HAVOC(int, g_csize);
}

void
h_GRIil_convert(void)
{
    mk_ghosts();
    H4V_ND(gr_interlace_t, inil);
    H4V_ND(gr_interlace_t, outil);
    H4V_ND(int32, xdim);
    H4V_ND(int32, ydim);
    H4V_ND(int32, ncomp);
    H4V_ND(int32, nt);
#ifdef GR_INIL
    H4V_ASSUME(inil == GR_INIL);
#endif
#ifdef GR_OUTIL
    H4V_ASSUME(outil == GR_OUTIL);
#endif
#ifdef GR_NCOMP
    H4V_ASSUME(ncomp == GR_NCOMP);
#endif
#ifdef GR_CS
    H4V_ASSUME(g_csize == GR_CS);
#endif
#ifdef GR_XDIM
    H4V_ASSUME(xdim == GR_XDIM);
#endif
#ifdef GR_YDIM
    H4V_ASSUME(ydim == GR_YDIM);
#endif
    H4V_ASSUME(xdim >= 1 && xdim <= GR_MAXDIM && ydim >= 1 && ydim <= GR_MAXDIM && ncomp >= 1 && ncomp <= GR_MAXCOMP);
    H4V_ASSUME(g_csize == 1 || g_csize == 2);
    int32 dims[2];
    dims[0]     = xdim;
    dims[1]     = ydim;
    int32 total = xdim * ydim * ncomp * g_csize;
    GR_ND_BUF(uint8, inb, total, GR_CAP);
    GR_ND_BUF(uint8, outb, total, GR_CAP);
    H4V_ASSUME(g_i >= 0 && g_i < total);
    uint8 old_i = outb[g_i];
    int   r     = GRIil_convert(inb, inil, outb, outil, dims, ncomp, nt);
    H4V_CHECK(r == SUCCEED || outb[g_i] == old_i, "il_convert: on failure (no memory) the output buffer is untouched");
    H4V_COVER(r == SUCCEED && inil == outil, "il_convert identity path");
    H4V_COVER(r == SUCCEED && inil == MFGR_INTERLACE_LINE && outil == MFGR_INTERLACE_COMPONENT && xdim > 1 && ydim > 1,
              "il_convert line->component");
    H4V_COVER(r == SUCCEED && inil == MFGR_INTERLACE_COMPONENT && outil == MFGR_INTERLACE_PIXEL && xdim != ydim,
              "il_convert component->pixel, non-square");
#ifndef GR_XDIM
    H4V_COVER(r == SUCCEED && inil == MFGR_INTERLACE_PIXEL && outil == MFGR_INTERLACE_LINE && xdim == 1,
              "il_convert pixel->line, one column");
#endif
    H4V_CANARY("GRIil_convert end");
}

/* convert(B->A) after convert(A->B) is the identity (real code twice, harness-level) */
void
h_il_roundtrip(void)
{
    mk_ghosts();
    H4V_ND(gr_interlace_t, ila);
    H4V_ND(gr_interlace_t, ilb);
    H4V_ND(int32, xdim);
    H4V_ND(int32, ydim);
    H4V_ND(int32, ncomp);
    H4V_ND(int32, nt);
    H4V_ASSUME(IL_VALID(ila) && IL_VALID(ilb));
#ifdef GR_NCOMP
    H4V_ASSUME(ncomp == GR_NCOMP);
#endif
#ifdef GR_CS
    H4V_ASSUME(g_csize == GR_CS);
#endif
    H4V_ASSUME(xdim >= 1 && xdim <= GR_MAXDIM && ydim >= 1 && ydim <= GR_MAXDIM && ncomp >= 1 && ncomp <= GR_MAXCOMP);
    H4V_ASSUME(g_csize == 1 || g_csize == 2);
    int32 dims[2];
    dims[0]     = xdim;
    dims[1]     = ydim;
    int32 total = xdim * ydim * ncomp * g_csize;
    GR_ND_BUF(uint8, rt_in, total, GR_CAP);
    GR_ND_BUF(uint8, rt_mid, total, GR_CAP);
    GR_ND_BUF(uint8, rt_out, total, GR_CAP);
    H4V_ASSUME(g_i >= 0 && g_i < total);
    int r1 = GRIil_convert(rt_in, ila, rt_mid, ilb, dims, ncomp, nt);
    int r2 = GRIil_convert(rt_mid, ilb, rt_out, ila, dims, ncomp, nt);
    H4V_CHECK(!(r1 == SUCCEED && r2 == SUCCEED) || rt_out[g_i] == rt_in[g_i],
              "il round trip: convert(B->A) after convert(A->B) is the identity");
    H4V_COVER(r1 == SUCCEED && r2 == SUCCEED && ila != ilb, "roundtrip both succeed");
    H4V_COVER(r1 == SUCCEED && r2 == SUCCEED && ila == MFGR_INTERLACE_LINE && ilb == MFGR_INTERLACE_COMPONENT, "roundtrip line/component");
    H4V_CANARY("il_roundtrip end");
}

/* Verification unit: hdf/src/dfconv.c (C06: routine selection DFKsetNT, DFKNTsize, DFKconvert,
 * DFKislitendNT/DFKisnativeNT).  The seven kernels of dfkswap.c / dfknat.c are outside this unit:
 * they are stubbed by logging bodies (their own contracts are enforced in dfconv_swap_u.c and
 * dfconv_nat_u.c), so that the contracts here can say WHICH routine is installed/called and with
 * which arguments. */
#include "h4v.h"
#include "hdf_priv.h"
#include "h4v_err.h" /* trusted stubs: error stack */

#ifdef H4_WORDS_BIGENDIAN
#error "C06 contracts are written for the little-endian host configuration"
#endif

/* ---- ghost call log written by the kernel stubs ---- */
int    g_calls;  /* number of kernel calls */
int    g_which;  /* id of the last kernel called */
void  *g_cs;     /* its arguments */
void  *g_cd;
uint32 g_cn;
uint32 g_css;
uint32 g_cds;
int    g_kret;   /* value the kernels return (arbitrary) */

#define K_NB1 1
#define K_NB2 2
#define K_NB4 4
#define K_NB8 8
#define K_SB2 12
#define K_SB4 14
#define K_SB8 18
#define K_CUSTIN 21
#define K_CUSTOUT 22

#define KERNEL_STUB(NAME, ID)                                                                        \
    int NAME(void *s, void *d, uint32 num_elm, uint32 source_stride, uint32 dest_stride)             \
    {                                                                                                \
        g_calls++;                                                                                   \
        g_which = (ID);                                                                              \
        g_cs    = s;                                                                                 \
        g_cd    = d;                                                                                 \
        g_cn    = num_elm;                                                                           \
        g_css   = source_stride;                                                                     \
        g_cds   = dest_stride;                                                                       \
        return g_kret;                                                                               \
    }
KERNEL_STUB(DFKnb1b, K_NB1)
KERNEL_STUB(DFKnb2b, K_NB2)
KERNEL_STUB(DFKnb4b, K_NB4)
KERNEL_STUB(DFKnb8b, K_NB8)
KERNEL_STUB(DFKsb2b, K_SB2)
KERNEL_STUB(DFKsb4b, K_SB4)
KERNEL_STUB(DFKsb8b, K_SB8)
/* two user routines as DFKsetcustom would install them */
KERNEL_STUB(h4v_custom_in, K_CUSTIN)
KERNEL_STUB(h4v_custom_out, K_CUSTOUT)

#include "dfconv.c"

/* ---- the specification of "which routine", written from the number-type encoding (hntdefs.h),
 *      not from the switch in DFKsetNT ---------------------------------------------------------
 * A number type is  flavour | base :  flavour 0 (standard HDF = big-endian file representation),
 * DFNT_NATIVE (file representation = memory representation) or DFNT_LITEND (little-endian file
 * representation); base is one of the ten supported base types. */
#define NT_FLAVOUR(t) ((t) & ~DFNT_MASK)
#define NT_BASE(t) ((t) & DFNT_MASK)
#define NT_FLAVOUR_OK(t) (NT_FLAVOUR(t) == DFNT_HDF || NT_FLAVOUR(t) == DFNT_NATIVE || NT_FLAVOUR(t) == DFNT_LITEND)
/* width in bytes of a base type, 0 = not a supported base type */
#define NT_WIDTH(b)                                                                                  \
    (((b) == DFNT_UCHAR8 || (b) == DFNT_CHAR8 || (b) == DFNT_INT8 || (b) == DFNT_UINT8)   ? 1            \
     : ((b) == DFNT_INT16 || (b) == DFNT_UINT16)                                        ? 2            \
     : ((b) == DFNT_INT32 || (b) == DFNT_UINT32 || (b) == DFNT_FLOAT32)                 ? 4            \
     : ((b) == DFNT_FLOAT64)                                                            ? 8            \
                                                                                        : 0)
#define NT_SUPPORTED(t) ((t) >= 0 && NT_FLAVOUR_OK(t) && NT_WIDTH(NT_BASE(t)) != 0)
/* on this little-endian host only the standard (big-endian) flavour differs from memory order */
#define NT_SWAPS(t) (NT_FLAVOUR(t) == DFNT_HDF && NT_WIDTH(NT_BASE(t)) > 1)
#define NT_KERNEL(t)                                                                                 \
    (NT_SWAPS(t) ? (NT_WIDTH(NT_BASE(t)) == 2 ? DFKsb2b : NT_WIDTH(NT_BASE(t)) == 4 ? DFKsb4b : DFKsb8b)  \
                 : (NT_WIDTH(NT_BASE(t)) == 1   ? DFKnb1b                                              \
                    : NT_WIDTH(NT_BASE(t)) == 2 ? DFKnb2b                                              \
                    : NT_WIDTH(NT_BASE(t)) == 4 ? DFKnb4b                                              \
                                                : DFKnb8b))
#define NT_KERNEL_ID(t) ((NT_SWAPS(t) ? 10 : 0) + NT_WIDTH(NT_BASE(t)))

/* ---------------- contracts ---------------- */
int DFKsetNT(int32 ntype)
    __CPROVER_requires(1)
    __CPROVER_assigns(DFKnumin, DFKnumout, g_ntype)
    /* supported type: the pair (in, out) is the routine of the right width, swapping exactly for
       the standard flavour; both directions use the same routine (swap and copy are involutions) */
    __CPROVER_ensures(NT_SUPPORTED(ntype) ==> (__CPROVER_return_value == SUCCEED && DFKnumin == NT_KERNEL(ntype) &&
                                               DFKnumout == NT_KERNEL(ntype) && g_ntype == ntype))
    /* user-defined conversion: the routines installed by DFKsetcustom stay */
    __CPROVER_ensures(ntype == DFNT_CUSTOM ==> (__CPROVER_return_value == SUCCEED && DFKnumin == __CPROVER_old(DFKnumin) &&
                                                DFKnumout == __CPROVER_old(DFKnumout) && g_ntype == DFNT_CUSTOM))
    /* anything else is refused and installs nothing */
    __CPROVER_ensures((!NT_SUPPORTED(ntype) && ntype != DFNT_CUSTOM) ==>
                      (__CPROVER_return_value == FAIL && DFKnumin == __CPROVER_old(DFKnumin) &&
                       DFKnumout == __CPROVER_old(DFKnumout)));

int DFKNTsize(int32 number_type)
    __CPROVER_requires(1)
    __CPROVER_assigns()
    /* total; the width of every supported type; never a wrong width; unknown base types fail */
    __CPROVER_ensures(NT_SUPPORTED(number_type) ==> __CPROVER_return_value == NT_WIDTH(NT_BASE(number_type)))
    __CPROVER_ensures(__CPROVER_return_value == FAIL ||
                      (NT_WIDTH(NT_BASE(number_type)) != 0 && __CPROVER_return_value == NT_WIDTH(NT_BASE(number_type))))
    __CPROVER_ensures((number_type & ~(DFNT_NATIVE | DFNT_LITEND | DFNT_MASK)) != 0 ==> __CPROVER_return_value == FAIL);

int32 DFKislitendNT(int32 numbertype)
    __CPROVER_requires(1)
    __CPROVER_assigns()
    __CPROVER_ensures(__CPROVER_return_value == ((numbertype & DFNT_LITEND) != 0 ? 1 : 0));

int32 DFKisnativeNT(int32 numbertype)
    __CPROVER_requires(1)
    __CPROVER_assigns()
    __CPROVER_ensures(__CPROVER_return_value == ((numbertype & DFNT_NATIVE) != 0 ? 1 : 0));

int32 DFKconvert(void *source, void *dest, int32 ntype, int32 num_elm, int16 acc_mode, int32 source_stride,
                 int32 dest_stride)
    __CPROVER_requires(g_calls == 0)
    /* the contract speaks about supported types and about DFNT_CUSTOM with the two custom routines
       installed; see the final report for what the code does with an unsupported type */
    __CPROVER_requires(NT_SUPPORTED(ntype) || (ntype == DFNT_CUSTOM && DFKnumin == h4v_custom_in && DFKnumout == h4v_custom_out))
    __CPROVER_assigns(DFKnumin, DFKnumout, g_ntype, g_calls, g_which, g_cs, g_cd, g_cn, g_css, g_cds)
    /* missing buffer: refused, no kernel runs */
    __CPROVER_ensures((source == NULL || dest == NULL) ==> (__CPROVER_return_value == FAIL && g_calls == 0))
    /* otherwise exactly one kernel call, with the buffers, count and strides unchanged, and its
       result is the result */
    __CPROVER_ensures((source != NULL && dest != NULL) ==>
                      (g_calls == 1 && g_cs == source && g_cd == dest && g_cn == (uint32)num_elm &&
                       g_css == (uint32)source_stride && g_cds == (uint32)dest_stride && __CPROVER_return_value == g_kret))
    /* the kernel is the one the number type designates, in both directions */
    __CPROVER_ensures((source != NULL && dest != NULL && NT_SUPPORTED(ntype)) ==> g_which == NT_KERNEL_ID(ntype))
    /* dispatch on the access mode: reading converts in, everything else converts out */
    __CPROVER_ensures((source != NULL && dest != NULL && ntype == DFNT_CUSTOM) ==>
                      g_which == (acc_mode == DFACC_READ ? K_CUSTIN : K_CUSTOUT));

#ifdef H4V_NATIVE
#include "h4v_native_wrap.h"
#endif

/* ---------------- harnesses ---------------- */
H4V_DECL_ND(int32);
H4V_DECL_ND(int16);
H4V_DECL_ND(int);

typedef int (*kernel_t)(void *, void *, uint32, uint32, uint32);
static kernel_t
pick_kernel(int c)
{
    switch (c) {
        case 0: return DFKnb1b;
        case 1: return DFKnb2b;
        case 2: return DFKnb4b;
        case 3: return DFKnb8b;
        case 4: return DFKsb2b;
        case 5: return DFKsb4b;
        case 6: return DFKsb8b;
        case 7: return h4v_custom_in;
        case 8: return h4v_custom_out;
        default: return DFKInoset;
    }
}

/* arbitrary previous conversion state (under dfcc the file statics are nondeterministic anyway;
   setting them from named inputs makes the native replay see the same state) */
static void
any_state(void)
{
    H4V_ND(int, prev_in);
    H4V_ND(int, prev_out);
    H4V_ND(int32, prev_ntype);
    DFKnumin  = pick_kernel(prev_in);
    DFKnumout = pick_kernel(prev_out);
    g_ntype   = prev_ntype;
    g_calls   = 0;
    g_which   = 0;
    g_cs = g_cd = NULL;
    g_cn = g_css = g_cds = 0;
    H4V_HAVOC(int, g_kret);
}

void
h_setnt(void)
{
    any_state();
    H4V_ND(int32, ntype);
    int r = DFKsetNT(ntype);
    H4V_COVER(r == SUCCEED && ntype == DFNT_FLOAT64, "DFKsetNT standard float64");
    H4V_COVER(r == SUCCEED && ntype == DFNT_LUINT16, "DFKsetNT little-endian uint16");
    H4V_COVER(r == SUCCEED && ntype == DFNT_NINT32, "DFKsetNT native int32");
    H4V_COVER(r == SUCCEED && ntype == DFNT_CUSTOM, "DFKsetNT custom");
    H4V_COVER(r == FAIL, "DFKsetNT unknown type");
    H4V_CANARY("DFKsetNT end");
}

void
h_ntsize(void)
{
    H4V_ND(int32, number_type);
    int r = DFKNTsize(number_type);
    H4V_COVER(r == 8, "DFKNTsize 8");
    H4V_COVER(r == FAIL, "DFKNTsize unknown");
    H4V_CANARY("DFKNTsize end");
}

void
h_islitend(void)
{
    H4V_ND(int32, numbertype);
    int32 r = DFKislitendNT(numbertype);
    H4V_COVER(r == 1, "DFKislitendNT yes");
    H4V_COVER(r == 0, "DFKislitendNT no");
    H4V_CANARY("DFKislitendNT end");
}

void
h_isnative(void)
{
    H4V_ND(int32, numbertype);
    int32 r = DFKisnativeNT(numbertype);
    H4V_COVER(r == 1, "DFKisnativeNT yes");
    H4V_COVER(r == 0, "DFKisnativeNT no");
    H4V_CANARY("DFKisnativeNT end");
}

void
h_convert(void)
{
    any_state();
    H4V_ND(int32, ntype);
    H4V_ND(int32, num_elm);
    H4V_ND(int16, acc_mode);
    H4V_ND(int32, source_stride);
    H4V_ND(int32, dest_stride);
    H4V_ND(int, snull);
    H4V_ND(int, dnull);
    H4V_ND(int, in_place);
    uint8  sbuf[1], dbuf[1];
    void  *s = snull ? NULL : (void *)sbuf;
    void  *d = dnull ? NULL : in_place ? s : (void *)dbuf;
    if (ntype == DFNT_CUSTOM) {
        DFKnumin  = h4v_custom_in;
        DFKnumout = h4v_custom_out;
    }
    int32 r = DFKconvert(s, d, ntype, num_elm, acc_mode, source_stride, dest_stride);
    H4V_COVER(g_calls == 1 && g_which == K_SB8, "DFKconvert swaps 8 bytes");
    H4V_COVER(g_calls == 1 && g_which == K_NB2 && ntype == DFNT_LINT16, "DFKconvert copies little-endian int16");
    H4V_COVER(g_calls == 1 && g_which == K_CUSTIN, "DFKconvert custom in");
    H4V_COVER(g_calls == 1 && g_which == K_CUSTOUT, "DFKconvert custom out");
    H4V_COVER(r == FAIL && g_calls == 0, "DFKconvert missing buffer");
    H4V_CANARY("DFKconvert end");
}

/* The same type under the three flavours differs exactly by swap vs copy, and in/out form an
   involution pair: harness-level statement over DFKsetNT's result for every base type. */
void
h_flavours(void)
{
    any_state();
    H4V_ND(int32, base);
    H4V_ASSUME(NT_WIDTH(base) != 0 && NT_FLAVOUR(base) == 0);
    int      r0 = DFKsetNT(base);
    kernel_t std_in = DFKnumin, std_out = DFKnumout;
    int      r1 = DFKsetNT(base | DFNT_LITEND);
    kernel_t le_in = DFKnumin, le_out = DFKnumout;
    int      r2 = DFKsetNT(base | DFNT_NATIVE);
    kernel_t na_in = DFKnumin, na_out = DFKnumout;
    H4V_CHECK(r0 == SUCCEED && r1 == SUCCEED && r2 == SUCCEED, "all three flavours are accepted");
    H4V_CHECK(std_in == std_out && le_in == le_out && na_in == na_out, "in and out are the same involution");
    H4V_CHECK(le_in == na_in, "little-endian flavour is the native order on this host");
    H4V_CHECK((NT_WIDTH(base) == 1) == (std_in == le_in), "standard flavour differs from little-endian exactly for multi-byte types");
    H4V_CHECK(NT_WIDTH(base) == 1 || std_in == DFKsb2b || std_in == DFKsb4b || std_in == DFKsb8b, "standard multi-byte types swap");
    H4V_CHECK(DFKNTsize(base) == NT_WIDTH(base) && DFKNTsize(base | DFNT_LITEND) == NT_WIDTH(base) &&
                  DFKNTsize(base | DFNT_NATIVE) == NT_WIDTH(base), "size does not depend on the flavour");
    H4V_CANARY("flavours end");
}

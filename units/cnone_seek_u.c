/* Verification unit: hdf/src/cnone.c (C05) -- HCPcnone_seek.  HCPseek (hcomp.c) has already folded the origin into an
 * ABSOLUTE offset before the coder's seek function is called (every other coder ignores `origin`): the element behind
 * the coder must end up at exactly that absolute offset, with exactly one seek of the coder's own aid and no other effect.
 * The element is a ghost (position CS.pos, length CS.len) behind the Hseek stub, which applies `origin` as Hseek does. */
#include "h4v.h"
#include "h4v_err.h"
#include <string.h>

typedef long long h4v_i64;
struct { int32 aid; int seek_fail; } CSC;
struct { int nseek; h4v_i64 pos, len; int failed; } CS;
#define CS_ALL __CPROVER_object_whole(&CS)

int
Hseek(int32 access_id, int32 offset, int origin)
{
    H4V_CHECK(access_id == CSC.aid, "the coder seeks its own aid");
    H4V_CHECK(origin == 0 || origin == 1 || origin == 2, "a valid origin");
    CS.nseek++;
    if (CSC.seek_fail) {
        CS.failed = 1;
        return FAIL;
    }
    h4v_i64 base = origin == 1 /* DF_CURRENT */ ? CS.pos : origin == 2 /* DF_END */ ? CS.len : 0;
    CS.pos       = base + offset;
    return SUCCEED;
}
int32
Hstartread(int32 file_id, uint16 tag, uint16 ref)
{
    return CSC.aid;
}
int32
Hstartaccess(int32 file_id, uint16 tag, uint16 ref, uint32 flags)
{
    return CSC.aid;
}
int32
Hread(int32 access_id, int32 length, void *data)
{
    return FAIL;
}
int32
Hwrite(int32 access_id, int32 length, const void *data)
{
    return FAIL;
}
int
Hendaccess(int32 access_id)
{
    return SUCCEED;
}

#include "cnone.c"

#define AR_INFO(ar) ((compinfo_t *)(ar)->special_info)
int32 HCPcnone_seek(accrec_t *access_rec, int32 offset, int origin)
    __CPROVER_requires(access_rec != NULL && access_rec->special_info != NULL && AR_INFO(access_rec)->aid == CSC.aid)
    __CPROVER_requires(offset >= 0 && (origin == DF_START || origin == DF_CURRENT || origin == DF_END))
    __CPROVER_requires(CS.pos >= 0 && CS.pos <= 0x7fffffff && CS.len >= 0 && CS.len <= 0x7fffffff && CS.nseek >= 0 && CS.nseek < 1000)
    __CPROVER_assigns(CS_ALL)
    __CPROVER_ensures(CS.nseek == __CPROVER_old(CS.nseek) + 1)
    __CPROVER_ensures(__CPROVER_return_value == (CSC.seek_fail ? FAIL : SUCCEED))
    /* `offset` is absolute whatever `origin` says (HCPseek resolved it already) */
    __CPROVER_ensures(__CPROVER_return_value == SUCCEED ==> CS.pos == offset)
    __CPROVER_ensures(__CPROVER_return_value == FAIL ==> CS.pos == __CPROVER_old(CS.pos));

#ifdef H4V_NATIVE
#include "h4v_native_wrap.h"
#endif

H4V_DECL_ND(int32);
H4V_DECL_ND(int);
void
h_cnone_seek(void)
{
    H4V_ND(int32, g_aid_0);
    H4V_ND(int, g_seek_fail_0);
    H4V_ND(int32, g_pos_0);
    H4V_ND(int32, g_len_0);
    H4V_ND(int, g_nseek_0);
    CSC.aid       = g_aid_0;
    CSC.seek_fail = g_seek_fail_0 != 0;
    CS.pos        = g_pos_0;
    CS.len        = g_len_0;
    CS.nseek      = g_nseek_0;
    CS.failed     = 0;
    compinfo_t *info = malloc(sizeof(compinfo_t));
    accrec_t   *ar   = malloc(sizeof(accrec_t));
    H4V_ASSUME(info != NULL && ar != NULL);
    info->aid        = CSC.aid;
    ar->special_info = info;
    H4V_ND(int32, offset);
    H4V_ND(int, origin);
#ifdef ORIGIN_START /* sub-domain: the origin HCPseek was called with is DF_START */
    H4V_ASSUME(origin == DF_START);
#endif
    int32 r = HCPcnone_seek(ar, offset, origin);
    H4V_COVER(r == SUCCEED, "seek ok");
    H4V_COVER(r == FAIL, "seek failure");
    H4V_CANARY("cnone_seek end");
}

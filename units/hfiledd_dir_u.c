/* Verification unit: hdf/src/hfiledd.c, IN-MEMORY side of the tag/ref directory (C12, C20).
 *
 * Whole real hfiledd.c + the real bitvect.c and dynarray.c (so the ref bit-vector and the
 * ref->DD table are the real code, inlined).  Outside the unit: atom.c (HAatom_object) and
 * tbbt.c (tbbtdfind/tbbtdins) -- trusted stubs: the tag tree is a finite map with ONE modelled
 * key (g_tkey); every other key is absent (assumption A-TBBT).
 */
#include "h4v.h"
#include "h4v_err.h"
#define H4V_LOOPS_hfiledd_dir /* activates loops/hfiledd_dir.loops (guarded table) */
#include "hfiledd_dir_ghost.h"
#include "bitvect.c"
#include "dynarray.c"
#include "hfiledd.c"

H4V_DECL_ND(int);
H4V_DECL_ND(int32);
H4V_DECL_ND(uint16);
H4V_DECL_ND(int16);

/* ------------------------------------------------------------------ ghost environment */
filerec_t *g_frec;     /* the file record behind every file id (NULL: invalid id) */
TBBT_NODE *g_tnode;    /* the one modelled node of the tag tree */
tag_info  *g_tinfo;    /* its tag_info */
uint16     g_tkey;     /* its key (a base tag) */
int        g_tpresent; /* whether the tree contains it */
int        g_tins_n;   /* number of tbbtdins calls */

int32 g_r;    /* ghost ref (1..65535) */
int   g_rbit; /* whether ghost ref g_r is in use for the modelled tag on entry */
int32 g_m;    /* ghost bit index for the bit-vector representation invariant */

void *
HAatom_object(atom_t atm)
{
    return g_frec;
}

TBBT_NODE *
tbbtdfind(TBBT_TREE *tree, void *key, TBBT_NODE **pp)
{
    H4V_CHECK(g_frec != NULL && tree == g_frec->tag_tree, "tbbtdfind: the file's tag tree");
    if (g_tpresent && *(uint16 *)key == g_tkey)
        return g_tnode;
    return NULL;
}

TBBT_NODE *
tbbtdins(TBBT_TREE *tree, void *item, void *key)
{
    H4V_CHECK(g_frec != NULL && tree == g_frec->tag_tree, "tbbtdins: the file's tag tree");
    H4V_CHECK(!(g_tpresent && ((tag_info *)item)->tag == g_tkey), "tbbtdins: key not yet present");
    g_tins_n++;
    if (g_tnode != NULL) {
        g_tnode->data = item;
        g_tinfo       = (tag_info *)item;
        g_tkey        = ((tag_info *)item)->tag;
        g_tpresent    = 1;
    }
    return g_tnode;
}

/* ------------------------------------------------------------------ predicates */
#define BV_FIELDS_WF(b)                                                                                      \
    ((b)->array_size > 0 && (b)->array_size <= 8256 && (b)->array_size % BV_CHUNK_SIZE == 0 &&                  \
     (b)->bits_used >= 1 && (b)->bits_used <= 65537 && (b)->bits_used <= 8 * (b)->array_size &&                 \
     (b)->last_zero >= 0 && (b)->last_zero <= (b)->bits_used / 8 && (b)->buffer != NULL)
#define BV_BIT(b, n) (((b)->buffer[(n) / 8] >> ((n) % 8)) & 1)
/* bv_get(b, n) for n >= 0 */
#define BV_GETV(b, n) ((n) < (b)->bits_used ? BV_BIT(b, n) : 0)
/* representation invariant (ghost bit g_m): bits beyond bits_used are zero */
#define BV_TAIL_ZERO(b) (!(g_m >= (b)->bits_used && g_m < 8 * (b)->array_size) || BV_BIT(b, g_m) == 0)
/* the per-tag record: ref 0 is permanently marked used (HTIregister_tag_ref's "kludge") */
/* bit 65536 exists only as the "all 65535 refs used" overflow slot and is never set (refs are 16 bit) */
#define TINFO_WF(t)                                                                                          \
    ((t)->b != NULL && BV_FIELDS_WF((t)->b) && BV_TAIL_ZERO((t)->b) && BV_BIT((t)->b, 0) == 1 &&                \
     ((t)->b->bits_used <= 65536 || BV_BIT((t)->b, 65536) == 0))
#define FREC_BAD (g_frec == NULL || g_frec->refcount == 0)
#define TAG_KNOWN(tag) (g_tpresent && g_tkey == BASETAG(tag))

/* ------------------------------------------------------------------ Htagnewref (C12, C20) */
#ifdef H4V_OB_TAGNEWREF
uint16 Htagnewref(int32 file_id, uint16 tag)
    __CPROVER_requires(g_tnode != NULL && g_tinfo != NULL && g_tnode->data == g_tinfo)
    __CPROVER_requires(TINFO_WF(g_tinfo) && g_tinfo->tag == g_tkey)
    __CPROVER_requires(g_r >= 1 && g_r <= 65535 && g_m >= 0 && BV_GETV(g_tinfo->b, g_r) == g_rbit)
    __CPROVER_assigns(g_tinfo->b->bits_used, g_tinfo->b->array_size, g_tinfo->b->last_zero, g_tinfo->b->buffer,
                      __CPROVER_object_whole(g_tinfo->b->buffer))
    __CPROVER_frees(g_tinfo->b->buffer)
    /* invalid file id: the failure value */
    __CPROVER_ensures(FREC_BAD ==> __CPROVER_return_value == 0)
    /* a tag without any object yet: ref 1 */
    __CPROVER_ensures((!FREC_BAD && !TAG_KNOWN(tag)) ==> __CPROVER_return_value == 1)
    /* C12: the issued ref is unused for that (base) tag */
    __CPROVER_ensures((!FREC_BAD && TAG_KNOWN(tag) && __CPROVER_return_value != 0) ==>
                      BV_GETV(g_tinfo->b, (int32)__CPROVER_return_value) == 0)
    /* C12/C20: 0 only when no ref 1..65535 is free for the tag -- or the bit-vector had to be
       extended by an allocation (which may fail) */
    __CPROVER_ensures((!FREC_BAD && TAG_KNOWN(tag) && __CPROVER_return_value == 0) ==>
                      (g_rbit == 1 || __CPROVER_old(g_tinfo->b->bits_used) / 8 >= __CPROVER_old(g_tinfo->b->array_size)))
    /* allocation of a ref does not change which refs are in use */
    __CPROVER_ensures(BV_GETV(g_tinfo->b, g_r) == g_rbit)
    __CPROVER_ensures(TINFO_WF(g_tinfo));
#endif

/* ------------------------------------------------------------------ the DD list (bounded shapes) */
#ifndef H4V_MAXNDDS
#define H4V_MAXNDDS 3
#endif
#define POS_STRIDE 16 /* > H4V_MAXNDDS: position of a DD = block number * POS_STRIDE + index */
#define BLK_NO(f, d) ((d)->blk == (f)->ddhead ? 0 : 1)
#define DD_IDX(d) ((int)((d) - (d)->blk->ddlist))
#define DD_POS(f, d) (BLK_NO(f, d) * POS_STRIDE + DD_IDX(d))
#define DD_IN_LIST(f, d)                                                                                     \
    ((d) != NULL && ((d)->blk == (f)->ddhead || ((f)->ddhead->next != NULL && (d)->blk == (f)->ddhead->next)) && \
     DD_IDX(d) >= 0 && DD_IDX(d) < (d)->blk->ndds && (d) == &(d)->blk->ddlist[DD_IDX(d)])
/* well-formed list of one or two blocks */
#define BLK_OK(f, b) ((b)->ndds >= 1 && (b)->ndds <= H4V_MAXNDDS && (b)->ddlist != NULL && (b)->frec == (f))
#define DDLIST_WF(f)                                                                                         \
    ((f)->ddhead != NULL && BLK_OK(f, (f)->ddhead) && (f)->ddhead->prev == NULL &&                               \
     ((f)->ddhead->next == NULL                                                                                 \
          ? (f)->ddlast == (f)->ddhead                                                                          \
          : ((f)->ddlast == (f)->ddhead->next && BLK_OK(f, (f)->ddhead->next) && (f)->ddhead->next->next == NULL && \
             (f)->ddhead->next->prev == (f)->ddhead)))

/* which DDs a search/count for (T, R) is about: a live DD whose tag is T or T's special variant */
#define SPECIAL_OF(T) MKSPECIALTAG(T)
#define TAG_M(T, d) ((d)->tag == (T) || (SPECIAL_OF(T) != DFTAG_NULL && (d)->tag == SPECIAL_OF(T)))
#define REF_M(R, d) ((R) == DFREF_WILDCARD || (d)->ref == (R))
#define FIND_MATCH(T, R, d) ((d)->tag != DFTAG_NULL && ((T) == DFTAG_WILDCARD || TAG_M(T, d)) && REF_M(R, d))
#define COUNT_MATCH(T, R, d)                                                                                 \
    (((T) == DFTAG_WILDCARD ? ((d)->tag != DFTAG_NULL && (d)->tag != DFTAG_FREE) : TAG_M(T, d)) && REF_M(R, d))

dd_t *g_dd;       /* ghost DD: any DD of the list */
int   g_startpos; /* position the search starts after (forward: -1 = from the head) / before */
dd_t *g_pdd0;     /* *pdd on entry */
unsigned g_cnt_real, g_cnt_all; /* reference counts computed by the harness */

/* ------------------------------------------------------------------ HTIcount_dd (C12, bounded) */
#ifdef H4V_OB_COUNT
static int HTIcount_dd(filerec_t *file_rec, uint16 cnt_tag, uint16 cnt_ref, unsigned *all_cnt, unsigned *real_cnt)
    __CPROVER_requires(file_rec != NULL && DDLIST_WF(file_rec))
    __CPROVER_requires(__CPROVER_is_fresh(all_cnt, sizeof(unsigned)) && __CPROVER_is_fresh(real_cnt, sizeof(unsigned)))
    __CPROVER_assigns(*all_cnt, *real_cnt)
    __CPROVER_ensures(__CPROVER_return_value == SUCCEED)
    /* counts per tag are exact (g_cnt_*: straightforward reference count made by the harness) */
    __CPROVER_ensures(*real_cnt == g_cnt_real)
    __CPROVER_ensures(*all_cnt == g_cnt_all);
#endif

/* ------------------------------------------------------------------ HTIfind_dd (C12, bounded) */
#define WILD_SHAPE(T, R) ((T) == DFTAG_WILDCARD || (R) == DFREF_WILDCARD)
#define FWD(dir) ((dir) == DF_FORWARD)
#define AFTER_START(f, d, dir) (FWD(dir) ? DD_POS(f, d) > g_startpos : DD_POS(f, d) < g_startpos)
#define STRICTLY_BETWEEN(f, d, e, dir)                                                                       \
    (FWD(dir) ? (DD_POS(f, d) > g_startpos && DD_POS(f, d) < DD_POS(f, e))                                      \
              : (DD_POS(f, d) < g_startpos && DD_POS(f, d) > DD_POS(f, e)))
#ifdef H4V_OB_FIND
static int HTIfind_dd(filerec_t *file_rec, uint16 look_tag, uint16 look_ref, dd_t **pdd, int direction)
    __CPROVER_requires(file_rec != NULL && file_rec == g_frec && DDLIST_WF(file_rec))
    __CPROVER_requires(look_tag != DFTAG_NULL) /* the free-slot search (ddnull cursor) is not covered here */
    __CPROVER_requires(direction == DF_FORWARD || direction == DF_BACKWARD)
    __CPROVER_requires(__CPROVER_is_fresh(pdd, sizeof(dd_t *)) && *pdd == g_pdd0 && (g_pdd0 == NULL || DD_IN_LIST(file_rec, g_pdd0)))
    __CPROVER_requires(g_startpos == (g_pdd0 == NULL ? (FWD(direction) ? -1 : 1000) : DD_POS(file_rec, g_pdd0)))
    __CPROVER_requires(DD_IN_LIST(file_rec, g_dd))
    __CPROVER_assigns(*pdd)
    __CPROVER_ensures(__CPROVER_return_value == SUCCEED || __CPROVER_return_value == FAIL)
    /* wildcard searches: the result is a live matching DD beyond the start position ... */
    __CPROVER_ensures((WILD_SHAPE(look_tag, look_ref) && __CPROVER_return_value == SUCCEED) ==>
                      (DD_IN_LIST(file_rec, *pdd) && FIND_MATCH(look_tag, look_ref, *pdd) &&
                       AFTER_START(file_rec, *pdd, direction)))
    /* ... the NEXT one: no matching DD (ghost g_dd) lies between start and result ... */
    __CPROVER_ensures((WILD_SHAPE(look_tag, look_ref) && __CPROVER_return_value == SUCCEED &&
                       FIND_MATCH(look_tag, look_ref, g_dd)) ==> !STRICTLY_BETWEEN(file_rec, g_dd, *pdd, direction))
    /* ... and FAIL iff there is none (and then the cursor is left alone) */
    __CPROVER_ensures((WILD_SHAPE(look_tag, look_ref) && __CPROVER_return_value == FAIL) ==>
                      (*pdd == g_pdd0 && !(FIND_MATCH(look_tag, look_ref, g_dd) && AFTER_START(file_rec, g_dd, direction))))
    /* exact (tag, ref): the live DD with that ref whose tag is the tag or its special variant */
    __CPROVER_ensures((!WILD_SHAPE(look_tag, look_ref) && __CPROVER_return_value == SUCCEED) ==>
                      (DD_IN_LIST(file_rec, *pdd) && (*pdd)->tag != DFTAG_NULL &&
                       BASETAG((*pdd)->tag) == BASETAG(look_tag) && (*pdd)->ref == look_ref))
    __CPROVER_ensures((!WILD_SHAPE(look_tag, look_ref) && __CPROVER_return_value == FAIL) ==>
                      !(g_dd->tag != DFTAG_NULL && BASETAG(g_dd->tag) == BASETAG(look_tag) && g_dd->ref == look_ref))
    ;
#endif

/* the abstraction Hnewref's proof relies on, checked against the real HTIfind_dd (bounded) and
   used as its replacement in the Hnewref obligation */
#if defined(H4V_OB_FIND_ABS) || defined(H4V_OB_NEWREF)
static int HTIfind_dd(filerec_t *file_rec, uint16 look_tag, uint16 look_ref, dd_t **pdd, int direction)
    __CPROVER_requires(file_rec != NULL && file_rec == g_frec)
    __CPROVER_requires(look_tag == DFTAG_WILDCARD && look_ref != DFREF_WILDCARD && direction == DF_FORWARD)
    __CPROVER_requires(pdd != NULL && *pdd == NULL)
    __CPROVER_assigns(*pdd)
    __CPROVER_ensures(__CPROVER_return_value == SUCCEED || __CPROVER_return_value == FAIL)
    /* refs below the first free one are in use, the first free one is not */
    __CPROVER_ensures(look_ref < H4V_NR_LIMIT ==> __CPROVER_return_value == SUCCEED)
    __CPROVER_ensures(look_ref == g_nr_first_free ==> __CPROVER_return_value == FAIL);
#endif

/* ------------------------------------------------------------------ Hnewref (C12, C20) */
#ifdef H4V_OB_NEWREF
uint16 Hnewref(int32 file_id)
    __CPROVER_requires(g_frec != NULL && g_nr_first_free <= 65535)
    __CPROVER_assigns(g_frec->maxref)
    __CPROVER_ensures(FREC_BAD ==> (__CPROVER_return_value == 0 && g_frec->maxref == __CPROVER_old(g_frec->maxref)))
    /* fast path: the next number while the counter has not reached the maximum */
    __CPROVER_ensures((!FREC_BAD && __CPROVER_old(g_frec->maxref) < MAX_REF) ==>
                      (__CPROVER_return_value == __CPROVER_old(g_frec->maxref) + 1 &&
                       g_frec->maxref == __CPROVER_return_value))
    /* after the wrap: the smallest ref no DD uses, and 0 iff every ref 1..65535 is in use */
    __CPROVER_ensures((!FREC_BAD && __CPROVER_old(g_frec->maxref) == MAX_REF) ==>
                      (__CPROVER_return_value == g_nr_first_free && g_frec->maxref == MAX_REF));
#endif

/* ------------------------------------------------------------------ HTIregister/unregister_tag_ref (C12) */
int   g_ebit;  /* whether dd_ptr->ref is in use for the tag on entry */
void *g_rslot; /* ref table slot of the ghost ref g_r on entry (NULL beyond the table) */
#define DYN_OK(d) ((d)->num_elems >= 1 && (d)->num_elems <= 65536 + REF_DYNARRAY_INCR && (d)->incr_mult == REF_DYNARRAY_INCR && (d)->arr != NULL)
#define DYN_AT(d, i) ((i) < (d)->num_elems ? (d)->arr[(i)] : (void *)NULL)
#define REG_ENV(file_rec, dd_ptr)                                                                            \
    ((file_rec) != NULL && (file_rec) == g_frec && g_tpresent && g_tnode != NULL && g_tinfo != NULL &&          \
     g_tnode->data == g_tinfo && g_tinfo->tag == g_tkey && TINFO_WF(g_tinfo) && g_tinfo->d != NULL &&           \
     DYN_OK(g_tinfo->d) && BASETAG((dd_ptr)->tag) == g_tkey && (dd_ptr)->ref >= 1 &&                            \
     (int)(dd_ptr)->ref < g_tinfo->d->num_elems && g_r >= 1 && g_r <= 65535 && g_m >= 0 &&                      \
     BV_GETV(g_tinfo->b, g_r) == g_rbit && DYN_AT(g_tinfo->d, g_r) == g_rslot &&                                \
     BV_GETV(g_tinfo->b, (int32)(dd_ptr)->ref) == g_ebit)
#ifdef H4V_OB_REGISTER
/* existing tag, ref inside the current ref table (no table growth: see report) */
static int HTIregister_tag_ref(filerec_t *file_rec, dd_t *dd_ptr)
    __CPROVER_requires(__CPROVER_is_fresh(dd_ptr, sizeof(dd_t)) && REG_ENV(file_rec, dd_ptr))
    __CPROVER_assigns(g_tinfo->b->bits_used, g_tinfo->b->array_size, g_tinfo->b->last_zero, g_tinfo->b->buffer,
                      __CPROVER_object_whole(g_tinfo->b->buffer), __CPROVER_object_whole(g_tinfo->d->arr))
    __CPROVER_frees(g_tinfo->b->buffer)
    __CPROVER_ensures(__CPROVER_return_value == SUCCEED || __CPROVER_return_value == FAIL)
    /* a tag/ref already in use is refused ... */
    __CPROVER_ensures(g_ebit == 1 ==> __CPROVER_return_value == FAIL)
    /* ... and a refusal changes nothing: the ref table of the tag is still there */
    __CPROVER_ensures(__CPROVER_return_value == FAIL ==>
                      (g_tinfo->d == __CPROVER_old(g_tinfo->d) && DYN_OK(g_tinfo->d) &&
                       BV_GETV(g_tinfo->b, (int32)dd_ptr->ref) == g_ebit))
    /* success: bit and table slot are set together */
    __CPROVER_ensures(__CPROVER_return_value == SUCCEED ==>
                      (g_ebit == 0 && BV_GETV(g_tinfo->b, (int32)dd_ptr->ref) == 1 &&
                       DYN_AT(g_tinfo->d, (int)dd_ptr->ref) == (void *)dd_ptr))
    /* any other ref of the tag is untouched */
    __CPROVER_ensures(g_r != dd_ptr->ref ==>
                      (BV_GETV(g_tinfo->b, g_r) == g_rbit && DYN_AT(g_tinfo->d, g_r) == g_rslot))
    __CPROVER_ensures(TINFO_WF(g_tinfo));
#endif
#ifdef H4V_OB_UNREGISTER
static int HTIunregister_tag_ref(filerec_t *file_rec, dd_t *dd_ptr)
    __CPROVER_requires(__CPROVER_is_fresh(dd_ptr, sizeof(dd_t)) && REG_ENV(file_rec, dd_ptr))
    /* directory coherence for the DD being removed: a used ref has its DD in the table */
    __CPROVER_requires(g_ebit == 0 || DYN_AT(g_tinfo->d, (int)dd_ptr->ref) == (void *)dd_ptr)
    __CPROVER_assigns(dd_ptr->tag, g_tinfo->b->bits_used, g_tinfo->b->array_size, g_tinfo->b->last_zero, g_tinfo->b->buffer,
                      __CPROVER_object_whole(g_tinfo->b->buffer), __CPROVER_object_whole(g_tinfo->d->arr))
    __CPROVER_frees(g_tinfo->b->buffer)
    __CPROVER_ensures(__CPROVER_return_value == SUCCEED || __CPROVER_return_value == FAIL)
    __CPROVER_ensures((__CPROVER_return_value == SUCCEED) == (g_ebit == 1))
    /* bit and table slot are cleared together and the DD becomes an empty slot */
    __CPROVER_ensures(__CPROVER_return_value == SUCCEED ==>
                      (BV_GETV(g_tinfo->b, (int32)dd_ptr->ref) == 0 && DYN_AT(g_tinfo->d, (int)dd_ptr->ref) == NULL &&
                       dd_ptr->tag == DFTAG_NULL))
    __CPROVER_ensures(__CPROVER_return_value == FAIL ==> dd_ptr->tag == __CPROVER_old(dd_ptr->tag))
    __CPROVER_ensures(dd_ptr->ref == __CPROVER_old(dd_ptr->ref))
    __CPROVER_ensures(g_r != dd_ptr->ref ==>
                      (BV_GETV(g_tinfo->b, g_r) == g_rbit && DYN_AT(g_tinfo->d, g_r) == g_rslot))
    __CPROVER_ensures(TINFO_WF(g_tinfo));
#endif

#ifdef H4V_NATIVE
#include "h4v_native_wrap.h"
#endif

/* ================================================================== harnesses */
static TBBT_TREE h4v_tree;

static filerec_t *
mk_frec(void)
{
    filerec_t *f = malloc(sizeof(filerec_t));
    H4V_ASSUME(f != NULL);
    H4V_ND(int, fr_refcount);
    H4V_ND(uint16, fr_maxref);
    H4V_ASSUME(fr_refcount >= 0);
    f->refcount   = fr_refcount;
    f->maxref     = fr_maxref;
    f->tag_tree   = &h4v_tree;
    f->ddhead     = NULL;
    f->ddlast     = NULL;
    f->ddnull     = NULL;
    f->ddnull_idx = -1;
    g_frec        = f;
    return f;
}

/* the modelled tag-tree node with a bit-vector as bv_new/bv_set leave it */
static void
mk_tinfo(void)
{
    H4V_HAVOC(int32, g_m);
    H4V_HAVOC(int32, g_r);
    H4V_ND(int, t_present);
    H4V_ND(uint16, t_key);
    g_tpresent = t_present != 0;
    g_tkey     = t_key;
    g_tins_n   = 0;
    g_tnode    = malloc(sizeof(TBBT_NODE));
    g_tinfo    = malloc(sizeof(tag_info));
    bv_ptr b   = malloc(sizeof(bv_struct));
    H4V_ASSUME(g_tnode != NULL && g_tinfo != NULL && b != NULL);
    H4V_ND(int32, bv_bits_used);
    H4V_ND(int32, bv_array_size);
    H4V_ND(int32, bv_last_zero);
    H4V_ASSUME(bv_array_size > 0 && bv_array_size <= 8256);
    b->bits_used  = bv_bits_used;
    b->array_size = bv_array_size;
    b->last_zero  = bv_last_zero;
    H4V_ND_BUF(uint8, bv_buf, bv_array_size, 64);
    b->buffer     = bv_buf;
    g_tinfo->tag  = g_tkey;
    g_tinfo->b    = b;
    g_tinfo->d    = NULL;
    g_tnode->data = g_tinfo;
    g_tnode->key  = &g_tinfo->tag;
}

#ifdef H4V_OB_TAGNEWREF
void
h_tagnewref(void)
{
    mk_frec();
    mk_tinfo();
    H4V_ND(int32, file_id);
    H4V_ND(uint16, tag);
    H4V_ND(int, invalid_id);
    if (invalid_id)
        g_frec = NULL;
    H4V_ASSUME(g_r >= 1 && g_r <= 65535 && g_m >= 0);
    H4V_ASSUME(BV_FIELDS_WF(g_tinfo->b));
    g_rbit      = BV_GETV(g_tinfo->b, g_r);
    int32  bu0  = g_tinfo->b->bits_used;
    uint16 r    = Htagnewref(file_id, tag);
    H4V_COVER(r == 1 && !TAG_KNOWN(tag), "Htagnewref first ref of a new tag");
    H4V_COVER(r > 1 && r < bu0, "Htagnewref reuses a freed ref");
    H4V_COVER(r > 1 && r == bu0, "Htagnewref extends the used range");
    H4V_COVER(r == 0 && !FREC_BAD, "Htagnewref exhausted");
    H4V_COVER(r == 65534, "Htagnewref hands out 65534");
    H4V_CANARY("Htagnewref end");
}
#endif

/* ---- DD list of 1..2 blocks with 1..H4V_MAXNDDS descriptors of arbitrary content ---- */
static ddblock_t *
mk_block(filerec_t *f, int n)
{
    ddblock_t *b = malloc(sizeof(ddblock_t));
    H4V_ASSUME(b != NULL);
    b->ndds   = (int16)n;
    b->frec   = f;
    b->next   = NULL;
    b->prev   = NULL;
    b->dirty  = 0;
    /* exactly n descriptors (so that any access to ddlist[n] is out of bounds), allocated with a
       constant size per case: symbolic-size arrays of structs blow the SAT instance up */
#ifdef H4V_DDLIST_MAXALLOC /* one allocation size: fewer objects a DD pointer may point into (HTIfind_dd) */
    if (1)
        b->ddlist = malloc(H4V_MAXNDDS * sizeof(dd_t));
    else
#endif
    switch (n) {
        case 1: b->ddlist = malloc(1 * sizeof(dd_t)); break;
        case 2: b->ddlist = malloc(2 * sizeof(dd_t)); break;
        case 3: b->ddlist = malloc(3 * sizeof(dd_t)); break;
        case 4: b->ddlist = malloc(4 * sizeof(dd_t)); break;
        default: H4V_ASSUME(n == 5); b->ddlist = malloc(5 * sizeof(dd_t)); break;
    }
    H4V_ASSUME(b->ddlist != NULL);
    for (int i = 0; i < H4V_MAXNDDS; i++)
        if (i < n) {
            H4V_ND(uint16, dd_tag);
            H4V_ND(uint16, dd_ref);
            b->ddlist[i].tag    = dd_tag;
            b->ddlist[i].ref    = dd_ref;
            b->ddlist[i].offset = 0;
            b->ddlist[i].length = 0;
            b->ddlist[i].blk    = b;
        }
    return b;
}

static void
mk_ddlist(filerec_t *f)
{
    H4V_ND(int, nblocks);
    H4V_ND(int, ndds0);
    H4V_ND(int, ndds1);
    H4V_ASSUME(nblocks >= 1 && nblocks <= 2 && ndds0 >= 1 && ndds0 <= H4V_MAXNDDS && ndds1 >= 1 && ndds1 <= H4V_MAXNDDS);
#ifdef H4V_NDDS_PARITY /* 0: only even block sizes, 1: only odd ones */
    H4V_ASSUME(ndds0 % 2 == H4V_NDDS_PARITY && ndds1 % 2 == H4V_NDDS_PARITY);
#endif
    ddblock_t *b0 = mk_block(f, ndds0);
    f->ddhead = f->ddlast = b0;
    if (nblocks == 2) {
        ddblock_t *b1 = mk_block(f, ndds1);
        b0->next      = b1;
        b1->prev      = b0;
        f->ddlast     = b1;
    }
}

/* an arbitrary DD of the list */
static dd_t *
pick_dd(filerec_t *f, int blkno, int idx)
{
    ddblock_t *b = (blkno == 1 && f->ddhead->next != NULL) ? f->ddhead->next : f->ddhead;
    H4V_ASSUME(idx >= 0 && idx < b->ndds);
    return &b->ddlist[idx];
}

#ifdef H4V_OB_COUNT
void
h_count_dd(void)
{
    filerec_t *f = mk_frec();
    mk_ddlist(f);
    H4V_ND(uint16, cnt_tag);
    H4V_ND(uint16, cnt_ref);
    unsigned *all  = malloc(sizeof(unsigned));
    unsigned *real = malloc(sizeof(unsigned));
    H4V_ASSUME(all != NULL && real != NULL);
    /* reference count */
    g_cnt_real = 0;
    g_cnt_all  = 0;
    int oddseen = 0;
    for (ddblock_t *b = f->ddhead; b != NULL; b = b->next) {
        g_cnt_all += (unsigned)b->ndds;
        oddseen |= b->ndds % 2;
        for (int i = 0; i < H4V_MAXNDDS; i++)
            if (i < b->ndds && COUNT_MATCH(cnt_tag, cnt_ref, &b->ddlist[i]))
                g_cnt_real++;
    }
    int r = HTIcount_dd(f, cnt_tag, cnt_ref, all, real);
    H4V_COVER(*real >= 2 && f->ddhead->next != NULL, "HTIcount_dd counts in two blocks");
    H4V_COVER(cnt_tag != DFTAG_WILDCARD && SPECIAL_OF(cnt_tag) != DFTAG_NULL && cnt_ref == DFREF_WILDCARD && *real >= 1,
              "HTIcount_dd unrolled loop");
    H4V_COVER(cnt_tag == DFTAG_WILDCARD && *real < *all, "HTIcount_dd wildcard skips empty DDs");
    H4V_CANARY("HTIcount_dd end");
}
#endif

#if defined(H4V_OB_FIND) || defined(H4V_OB_FIND_ABS)
/* tag tree + ref table coherent with the DD list for the looked-up (base tag, ref): the slot of
   look_ref holds the live DD with that base tag and ref, or NULL (assumption A-DIRCOH: this is
   what HTIregister_tag_ref / HTIunregister_tag_ref maintain; at most one such DD exists) */
static void
mk_coherent_tree(filerec_t *f, uint16 look_tag, uint16 look_ref)
{
    dd_t *hit   = NULL;
    int   nhits = 0, tagseen = 0;
    for (ddblock_t *b = f->ddhead; b != NULL; b = b->next)
        for (int i = 0; i < H4V_MAXNDDS; i++)
            if (i < b->ndds && b->ddlist[i].tag != DFTAG_NULL && BASETAG(b->ddlist[i].tag) == BASETAG(look_tag)) {
                tagseen = 1;
                if (b->ddlist[i].ref == look_ref) {
                    hit = &b->ddlist[i];
                    nhits++;
                }
            }
    H4V_ASSUME(nhits <= 1);
    mk_tinfo();
    g_tkey       = BASETAG(look_tag);
    g_tinfo->tag = g_tkey;
    H4V_ASSUME(g_tpresent || !tagseen);
    /* ref table of constant size (64 = REF_DYNARRAY_START or 256 slots: part of the bound) */
    dynarr_t *d = malloc(sizeof(dynarr_t));
    H4V_ASSUME(d != NULL);
    H4V_ND(int, da_big);
    int da_num_elems = da_big ? 256 : 64;
    d->num_elems = da_num_elems;
    d->incr_mult = REF_DYNARRAY_INCR;
    d->arr       = da_big ? malloc(256 * sizeof(void *)) : malloc(64 * sizeof(void *));
    H4V_ASSUME(d->arr != NULL);
    H4V_ASSUME(hit == NULL || look_ref < da_num_elems);
    if (look_ref < da_num_elems)
        d->arr[look_ref] = hit;
    g_tinfo->d = d;
}
#endif

#ifdef H4V_OB_FIND
void
h_find_dd(void)
{
    filerec_t *f = mk_frec();
    mk_ddlist(f);
    H4V_ND(uint16, look_tag);
    H4V_ND(uint16, look_ref);
    H4V_ND(int, direction);
    H4V_ND(int, from_start);
    H4V_ND(int, start_blk);
    H4V_ND(int, start_idx);
    H4V_ND(int, ghost_blk);
    H4V_ND(int, ghost_idx);
    H4V_ASSUME(look_tag != DFTAG_NULL && (direction == DF_FORWARD || direction == DF_BACKWARD));
#ifdef H4V_DIRECTION
    H4V_ASSUME(direction == H4V_DIRECTION);
#endif
#ifdef H4V_EXACT /* 1: only the exact (tag, ref) shape; 0: only the wildcard shapes */
    H4V_ASSUME(WILD_SHAPE(look_tag, look_ref) == !H4V_EXACT);
#endif
    if (!WILD_SHAPE(look_tag, look_ref))
        mk_coherent_tree(f, look_tag, look_ref);
    else
        g_tpresent = 0;
    g_pdd0 = from_start ? NULL : pick_dd(f, start_blk, start_idx);
    g_dd   = pick_dd(f, ghost_blk, ghost_idx);
    g_startpos = g_pdd0 == NULL ? (FWD(direction) ? -1 : 1000) : DD_POS(f, g_pdd0);
    dd_t **pdd = malloc(sizeof(dd_t *));
    H4V_ASSUME(pdd != NULL);
    *pdd  = g_pdd0;
    int r = HTIfind_dd(f, look_tag, look_ref, pdd, direction);
#if !defined(H4V_EXACT) || H4V_EXACT == 0
    H4V_COVER(r == SUCCEED && look_tag == DFTAG_WILDCARD && look_ref == DFREF_WILDCARD && g_pdd0 != NULL &&
                  (*pdd)->blk != g_pdd0->blk, "HTIfind_dd both wildcards, crosses into the other block");
    H4V_COVER(r == SUCCEED && look_tag == DFTAG_WILDCARD && look_ref != DFREF_WILDCARD, "HTIfind_dd tag wildcard");
    H4V_COVER(r == SUCCEED && look_tag != DFTAG_WILDCARD && look_ref == DFREF_WILDCARD && (*pdd)->tag != look_tag,
              "HTIfind_dd ref wildcard finds the special variant");
    H4V_COVER(r == FAIL && WILD_SHAPE(look_tag, look_ref) && g_pdd0 != NULL, "HTIfind_dd enumeration ends");
#endif
#if !defined(H4V_EXACT) || H4V_EXACT == 1
    H4V_COVER(r == SUCCEED && !WILD_SHAPE(look_tag, look_ref), "HTIfind_dd exact pair found");
    H4V_COVER(r == FAIL && !WILD_SHAPE(look_tag, look_ref), "HTIfind_dd exact pair absent");
#endif
    H4V_CANARY("HTIfind_dd end");
}
#endif

#ifdef H4V_OB_FIND_ABS
void
h_find_dd_abs(void)
{
    filerec_t *f = mk_frec();
    mk_ddlist(f);
    H4V_ND(uint16, look_ref);
    H4V_ASSUME(look_ref != DFREF_WILDCARD);
    /* tie the abstraction to the list for the ref asked about */
    int used = 0;
    for (ddblock_t *b = f->ddhead; b != NULL; b = b->next)
        for (int i = 0; i < H4V_MAXNDDS; i++)
            if (i < b->ndds && b->ddlist[i].tag != DFTAG_NULL && b->ddlist[i].ref == look_ref)
                used = 1;
    H4V_ND(int32, first_free);
    H4V_ASSUME(first_free >= 0 && first_free <= 65535);
    g_nr_first_free = (unsigned)first_free;
    H4V_ASSUME(!(look_ref < H4V_NR_LIMIT) || used);
    H4V_ASSUME(!(look_ref == g_nr_first_free) || !used);
    dd_t **pdd = malloc(sizeof(dd_t *));
    H4V_ASSUME(pdd != NULL);
    *pdd  = NULL;
    int r = HTIfind_dd(f, DFTAG_WILDCARD, look_ref, pdd, DF_FORWARD);
    H4V_COVER(r == SUCCEED, "HTIfind_dd(abs) ref in use");
    H4V_COVER(r == FAIL, "HTIfind_dd(abs) ref free");
    H4V_CANARY("HTIfind_dd(abs) end");
}
#endif

#ifdef H4V_OB_NEWREF
void
h_newref(void)
{
    mk_frec();
    H4V_ND(int32, file_id);
    H4V_ND(int32, first_free);
    H4V_ASSUME(first_free >= 0 && first_free <= 65535);
    g_nr_first_free = (unsigned)first_free;
    uint16 m0    = g_frec->maxref;
    uint16 r     = Hnewref(file_id);
    H4V_COVER(r != 0 && m0 < MAX_REF, "Hnewref fast path");
    H4V_COVER(r != 0 && m0 == MAX_REF, "Hnewref search finds a free ref");
    H4V_COVER(r == 65535 && m0 == MAX_REF, "Hnewref search finds only the last ref free");
    H4V_COVER(r == 0 && !FREC_BAD, "Hnewref exhausted");
    H4V_CANARY("Hnewref end");
}
#endif

#if defined(H4V_OB_REGISTER) || defined(H4V_OB_UNREGISTER)
void
h_register(void)
{
    filerec_t *f = mk_frec();
    mk_tinfo();
    g_tpresent = 1;
    H4V_ASSUME(g_r >= 1 && g_r <= 65535 && g_m >= 0);
    dynarr_t *d = malloc(sizeof(dynarr_t));
    H4V_ASSUME(d != NULL);
    H4V_ND(int, da_num_elems);
    H4V_ASSUME(da_num_elems >= 1 && da_num_elems <= 65536 + REF_DYNARRAY_INCR);
    d->num_elems = da_num_elems;
    d->incr_mult = REF_DYNARRAY_INCR;
    d->arr       = malloc((size_t)da_num_elems * sizeof(void *));
    H4V_ASSUME(d->arr != NULL);
    g_tinfo->d = d;
    dd_t *dd = malloc(sizeof(dd_t));
    H4V_ASSUME(dd != NULL);
    H4V_ND(uint16, dd_tag);
    H4V_ND(uint16, dd_ref);
    H4V_ASSUME(BASETAG(dd_tag) == g_tkey && dd_ref >= 1 && dd_ref < da_num_elems);
    dd->tag    = dd_tag;
    dd->ref    = dd_ref;
    dd->offset = 0;
    dd->length = 0;
    dd->blk    = NULL;
    H4V_ASSUME(BV_FIELDS_WF(g_tinfo->b));
    g_rbit  = BV_GETV(g_tinfo->b, g_r);
    g_ebit  = BV_GETV(g_tinfo->b, (int32)dd_ref);
    g_rslot = DYN_AT(d, g_r);
#ifdef H4V_OB_REGISTER
    int r = HTIregister_tag_ref(f, dd);
    H4V_COVER(r == SUCCEED, "HTIregister_tag_ref registers");
    H4V_COVER(r == FAIL && g_ebit == 1, "HTIregister_tag_ref refuses a duplicate");
#else
    H4V_ASSUME(g_ebit == 0 || d->arr[dd_ref] == (void *)dd);
    int r = HTIunregister_tag_ref(f, dd);
    H4V_COVER(r == SUCCEED, "HTIunregister_tag_ref unregisters");
    H4V_COVER(r == FAIL, "HTIunregister_tag_ref refuses an unused ref");
#endif
    H4V_CANARY("HTI(un)register_tag_ref end");
}
#endif

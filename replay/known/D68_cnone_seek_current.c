/* Build: gcc D68_cnone_seek_current.c -I/repo/hdf/src -I/repo/_build -L/repo/_build/bin -lhdf -lz -ljpeg -lm; run with LD_LIBRARY_PATH=/repo/_build/bin. Exit status != 0 = defect present (confirmed on a build of the tree before the repair). */
/* D68: Hseek(.., DF_CURRENT) on a COMP_CODE_NONE element applies the origin twice */
#include "hdf.h"
#include "hcomp.h"
#include <stdio.h>
#include <string.h>
int main(void)
{
    uint8 data[64], b = 0; model_info m; comp_info c; int32 f, aid, i;
    for (i = 0; i < 64; i++) data[i] = (uint8)i;
    f = Hopen("d68.hdf", DFACC_CREATE, 0);
    memset(&m, 0, sizeof m); memset(&c, 0, sizeof c);
    aid = HCcreate(f, 1000, 1, COMP_MODEL_STDIO, &m, COMP_CODE_NONE, &c);
    Hwrite(aid, 64, data); Hendaccess(aid);
    aid = Hstartread(f, 1000, 1);
    Hread(aid, 10, data);            /* position 10 */
    Hseek(aid, 5, DF_CURRENT);       /* position 15 */
    Hread(aid, 1, &b);
    printf("byte read after Hread 10 + Hseek(5, DF_CURRENT): %d (expected 15)\n", b);
    Hendaccess(aid); Hclose(f);
    return b != 15;
}

/* Build: gcc D71_bitio_seek_tail_overflow.c -I/repo/hdf/src -I/repo/_build -L/repo/_build/bin -lhdf -lz -ljpeg -lm; run with LD_LIBRARY_PATH=/repo/_build/bin. Exit status != 0 = defect present (confirmed on a build of the tree before the repair). */
/* D71: bit I/O: appending after a seek into a partly filled last block runs past the 4096-byte buffer */
#include "hdf.h"
#include <stdio.h>
int main(void)
{
    int32 f = Hopen("d71.hdf", DFACC_CREATE, 0), bit, i, len; uint8 back[9000]; int bad = 0;
    bit = Hstartbitwrite(f, 1000, 1, 0); Hbitappendable(bit);
    for (i = 0; i < 5000; i++) Hbitwrite(bit, 8, (uint32)(i & 0xff));
    Hbitseek(bit, 0, 0);                   /* block 0 */
    Hbitseek(bit, 5000, 0);                /* back to the end of the data: block 1 holds 904 bytes */
    for (i = 5000; i < 9000; i++) Hbitwrite(bit, 8, (uint32)(i & 0xff)); /* 4000 more bytes: crosses the buffer end */
    Hendbitaccess(bit, 0);
    len = Hlength(f, 1000, 1);
    Hgetelement(f, 1000, 1, back);
    for (i = 0; i < 9000 && i < len; i++) if (back[i] != (uint8)(i & 0xff)) { bad = 1; break; }
    printf("length %d (expected 9000), first wrong byte %d\n", (int)len, bad ? (int)i : -1);
    Hclose(f);
    return len != 9000 || bad;
}

/* Verification unit: hdf/src/hcomp.c -- the dispatch layer of a compressed element: HCPread / HCPseek.
   C05 ("... returns exactly the byte stream written, however the reads are partitioned into calls and wherever read seeks
   occur"): the coder below sees exactly the request the caller made, translated into (absolute position, byte count):
     HCPread   a length of 0 means "the rest of the element" = length - position (NOT the whole length); a request that reaches
               beyond the element is refused before the coder is called; the position advances by what was read and only then
     HCPseek   the origin is resolved here (current / end / start), the coder gets the absolute offset, the position is that
               offset afterwards; a negative target is refused before the coder is called
   The modelling layer (info->minfo.model_funcs) is a logging stub: which access record, how many bytes / which offset.
   Loop-free: mode "proved". */
#include "h4v.h"
#include "h4v_err.h"
#include "hdf_priv.h"
#include "hfile_priv.h"

/* ghost log of the model-layer calls */
static int       g_m_calls;    /* calls of the model layer's read / seek */
static int32     g_m_len;      /* byte count / offset of the last call */
static int       g_m_origin;
static accrec_t *g_m_rec;
static void     *g_m_data;
static int       g_f_model;    /* fault chosen by the harness */
static int       g_m_failed;

static int32
m_read(accrec_t *access_rec, int32 length, void *data)
{
    H4V_CHECK(length >= 0, "model read: a byte count >= 0");
    g_m_calls++;
    g_m_rec  = access_rec;
    g_m_len  = length;
    g_m_data = data;
    if (g_f_model) {
        g_m_failed = 1;
        return FAIL;
    }
    return length;
}
static int32
m_seek(accrec_t *access_rec, int32 offset, int origin)
{
    H4V_CHECK(offset >= 0, "model seek: an absolute offset >= 0");
    g_m_calls++;
    g_m_rec    = access_rec;
    g_m_len    = offset;
    g_m_origin = origin;
    if (g_f_model) {
        g_m_failed = 1;
        return FAIL;
    }
    return SUCCEED;
}

#include "hcomp.c"

#define CI(ar) ((compinfo_t *)(ar)->special_info)
/* the byte count the coder has to be asked for */
#define RD_LEN(ar, length, posn0) ((length) == 0 ? CI(ar)->length - (posn0) : (length))
#define RD_REFUSED(ar, length, posn0) ((length) < 0 || ((length) > 0 && (long long)(posn0) + (length) > (long long)CI(ar)->length))

int32 HCPread(accrec_t *access_rec, int32 length, void *data)
    __CPROVER_requires(access_rec != NULL && access_rec->special_info != NULL && data != NULL)
    __CPROVER_requires(CI(access_rec)->minfo.model_funcs.read == m_read)
    /* the position of an access that reads is inside the element (HCPseek admits more; Hread's gate does not let it read) */
    __CPROVER_requires(CI(access_rec)->length >= 0 && access_rec->posn >= 0 && access_rec->posn <= CI(access_rec)->length)
    __CPROVER_requires(g_m_calls == 0 && g_m_failed == 0)
    __CPROVER_assigns(access_rec->posn, g_m_calls, g_m_len, g_m_rec, g_m_data, g_m_failed)
    __CPROVER_ensures(__CPROVER_return_value == FAIL || __CPROVER_return_value >= 0)
    /* refused requests never reach the coder and do not move */
    __CPROVER_ensures(RD_REFUSED(access_rec, length, __CPROVER_old(access_rec->posn)) ==>
                      (__CPROVER_return_value == FAIL && g_m_calls == 0 && access_rec->posn == __CPROVER_old(access_rec->posn)))
    /* every other request reaches the coder exactly once, for this access, this buffer and THIS many bytes */
    __CPROVER_ensures(!RD_REFUSED(access_rec, length, __CPROVER_old(access_rec->posn)) ==>
                      (g_m_calls == 1 && g_m_rec == access_rec && g_m_data == data &&
                       g_m_len == RD_LEN(access_rec, length, __CPROVER_old(access_rec->posn))))
    /* success: the number of bytes read is returned and the position has advanced by it; it stays inside the element */
    __CPROVER_ensures((!RD_REFUSED(access_rec, length, __CPROVER_old(access_rec->posn)) && !g_m_failed) ==>
                      (__CPROVER_return_value == RD_LEN(access_rec, length, __CPROVER_old(access_rec->posn)) &&
                       access_rec->posn == __CPROVER_old(access_rec->posn) + __CPROVER_return_value &&
                       access_rec->posn <= CI(access_rec)->length))
    /* a failing coder is reported and the position is kept */
    __CPROVER_ensures(g_m_failed ==> (__CPROVER_return_value == FAIL && access_rec->posn == __CPROVER_old(access_rec->posn)));

/* the absolute target of a seek request */
#define SK_TARGET(ar, offset, origin, posn0)                                                         \
    ((long long)(offset) + ((origin) == DF_CURRENT ? (long long)(posn0) : 0) + ((origin) == DF_END ? (long long)CI(ar)->length : 0))
int32 HCPseek(accrec_t *access_rec, int32 offset, int origin)
    __CPROVER_requires(access_rec != NULL && access_rec->special_info != NULL)
    __CPROVER_requires(CI(access_rec)->minfo.model_funcs.seek == m_seek)
    __CPROVER_requires(CI(access_rec)->length >= 0 && access_rec->posn >= 0)
    /* A-SEEK-2G: the target is representable (Hseek's callers stay below 2 GB) */
    __CPROVER_requires(SK_TARGET(access_rec, offset, origin, access_rec->posn) <= 2147483647LL &&
                       SK_TARGET(access_rec, offset, origin, access_rec->posn) >= -2147483648LL)
    __CPROVER_requires(g_m_calls == 0 && g_m_failed == 0)
    __CPROVER_assigns(access_rec->posn, g_m_calls, g_m_len, g_m_rec, g_m_origin, g_m_failed)
    __CPROVER_ensures(__CPROVER_return_value == FAIL || __CPROVER_return_value == SUCCEED)
    __CPROVER_ensures(SK_TARGET(access_rec, offset, origin, __CPROVER_old(access_rec->posn)) < 0 ==>
                      (__CPROVER_return_value == FAIL && g_m_calls == 0 && access_rec->posn == __CPROVER_old(access_rec->posn)))
    /* the coder gets the ABSOLUTE offset, once */
    __CPROVER_ensures(SK_TARGET(access_rec, offset, origin, __CPROVER_old(access_rec->posn)) >= 0 ==>
                      (g_m_calls == 1 && g_m_rec == access_rec &&
                       g_m_len == (int32)SK_TARGET(access_rec, offset, origin, __CPROVER_old(access_rec->posn))))
    __CPROVER_ensures((SK_TARGET(access_rec, offset, origin, __CPROVER_old(access_rec->posn)) >= 0 && !g_m_failed) ==>
                      (__CPROVER_return_value == SUCCEED &&
                       access_rec->posn == (int32)SK_TARGET(access_rec, offset, origin, __CPROVER_old(access_rec->posn))))
    __CPROVER_ensures(g_m_failed ==> (__CPROVER_return_value == FAIL && access_rec->posn == __CPROVER_old(access_rec->posn)));

#ifdef H4V_NATIVE
#include "h4v_native_wrap.h"
#endif

H4V_DECL_ND(int);
H4V_DECL_ND(int32);

static accrec_t *
mk_rw_env(void)
{
    H4V_ND(int32, el_length);
    H4V_ND(int32, posn);
    H4V_ND(int, f_model);
    compinfo_t *info = malloc(sizeof(compinfo_t));
    accrec_t   *ar   = malloc(sizeof(accrec_t));
    H4V_ASSUME(info != NULL && ar != NULL);
#ifdef H4V_NATIVE
    memset(info, 0, sizeof(compinfo_t));
    memset(ar, 0, sizeof(accrec_t));
#endif
    info->length                 = el_length;
    info->minfo.model_funcs.read = m_read;
    info->minfo.model_funcs.seek = m_seek;
    ar->special_info             = info;
    ar->posn                     = posn;
    g_f_model                    = f_model != 0;
    g_m_calls                    = 0;
    g_m_failed                   = 0;
    g_m_rec                      = NULL;
    g_m_data                     = NULL;
    g_m_len                      = 0;
    g_m_origin                   = 0;
    return ar;
}

void
h_HCPread(void)
{
    accrec_t *ar = mk_rw_env();
    H4V_ND(int32, length);
    unsigned char *buf = malloc(1);
    H4V_ASSUME(buf != NULL);
    int32 p0 = ar->posn;
    int32 r  = HCPread(ar, length, buf);
    H4V_COVER(r > 0 && length == 0 && p0 > 0, "HCPread: the rest of the element from a position > 0");
    H4V_COVER(r == 0 && length == 0, "HCPread: nothing left");
    H4V_COVER(r == FAIL && length > 0 && !g_m_failed, "HCPread: request beyond the element refused");
    H4V_COVER(r == FAIL && g_m_failed, "HCPread: coder failure");
    H4V_CANARY("HCPread end");
}

void
h_HCPseek(void)
{
    accrec_t *ar = mk_rw_env();
    H4V_ND(int32, offset);
    H4V_ND(int, origin);
    int32 p0 = ar->posn;
    int32 r  = HCPseek(ar, offset, origin);
    H4V_COVER(r == SUCCEED && origin == DF_CURRENT && p0 > 0 && offset < 0, "HCPseek: backwards from the current position");
    H4V_COVER(r == SUCCEED && origin == DF_END, "HCPseek: from the end");
    H4V_COVER(r == FAIL && !g_m_failed, "HCPseek: negative target refused");
    H4V_CANARY("HCPseek end");
}

/* Verification unit: mfhdf/src/file.c -- C20, the table of open netCDF/SD files: NC_reset_maxopenfiles (the only place the
   open-file limit H4_MAX_NC_OPEN/MAX_FILE is changed; hdf/src/hfile.c itself has no limit: its file records live in a
   dynamic atom group).  Bounded stand-in: a table of at most 4 slots, a request of at most 6. */
#include "h4v.h"
#include "h4v_err.h"
#include "nc_priv.h"
H4V_DECL_ND(int);

void
NCadvise(int err, const char *fmt, ...)
{
}
#ifdef H4V_CBMC
#include <sys/resource.h>
int g_sys_nofile;
int
getrlimit(__rlimit_resource_t resource, struct rlimit *rl)
{
    rl->rlim_cur = (rlim_t)g_sys_nofile;
    return 0;
}
#endif

#include "file.c"

int g_k;       /* any slot of the table as it was */
NC *g_old_k;   /* what it held (harness snapshot) */
int g_old_size, g_old_opened;

int NC_reset_maxopenfiles(int req_max)
    __CPROVER_requires(_cdfs != NULL && _cdfs_size == g_old_size && g_old_size >= 1 && g_old_size <= 4 &&
                       _curr_opened == g_old_opened && g_k >= 0 && g_k < g_old_size && _cdfs[g_k] == g_old_k &&
                       _ncdf >= 0 && _ncdf <= g_old_size && (g_old_k == NULL || g_k < _ncdf))
    __CPROVER_requires(req_max <= 6)
    __CPROVER_assigns(_cdfs, _cdfs_size, max_NC_open, rlim)
    __CPROVER_frees(_cdfs)
    /* a negative request fails and changes nothing */
    __CPROVER_ensures(req_max < 0 ==> (__CPROVER_return_value == -1 && _cdfs_size == g_old_size && _cdfs[g_k] == g_old_k))
    /* a request that does not exceed the number of open files keeps the table */
    __CPROVER_ensures((req_max >= 0 && req_max <= g_old_opened) ==>
                      (__CPROVER_return_value == g_old_size && _cdfs_size == g_old_size && _cdfs[g_k] == g_old_k))
    /* otherwise: failure (no memory) with the table as it was, or a table of the new size ... */
    __CPROVER_ensures(__CPROVER_return_value == -1 || (__CPROVER_return_value == _cdfs_size && _cdfs_size >= g_old_opened))
    __CPROVER_ensures(__CPROVER_return_value == -1 ==> (_cdfs_size == g_old_size && _cdfs[g_k] == g_old_k))
    /* ... in which every open file is still found under its id (ids embed the slot index): no slot of an open file is
       dropped or renumbered, and the high-water mark _ncdf still covers it */
    __CPROVER_ensures((__CPROVER_return_value != -1 && g_old_k != NULL) ==> (g_k < _cdfs_size && _cdfs[g_k] == g_old_k));

#ifdef H4V_NATIVE
#include "h4v_native_wrap.h"
#endif

static NC a_file[4];

void
h_NC_reset_maxopenfiles(void)
{
    H4V_HAVOC(int, g_k);
    H4V_HAVOC(int, g_old_size);
    H4V_ND(int, req_max);
    H4V_ND(int, open_mask);
    H4V_ND(int, ncdf);
#ifdef H4V_CBMC
    H4V_HAVOC(int, g_sys_nofile);
    H4V_ASSUME(g_sys_nofile >= 16 && g_sys_nofile <= 1000000);
#endif
    H4V_ASSUME(g_old_size >= 1 && g_old_size <= 4 && g_k >= 0 && g_k < g_old_size);
    _cdfs = malloc(sizeof(NC *) * (size_t)g_old_size);
    H4V_ASSUME(_cdfs != NULL);
    _cdfs_size   = g_old_size;
    max_NC_open  = g_old_size;
    g_old_opened = 0;
    int hw       = 0;
    for (int i = 0; i < 4; i++)
        if (i < g_old_size) {
            _cdfs[i] = ((open_mask >> i) & 1) ? &a_file[i] : NULL;
            if (_cdfs[i] != NULL) {
                g_old_opened++;
                hw = i + 1;
            }
        }
    H4V_ASSUME(ncdf >= hw && ncdf <= g_old_size);
    _ncdf        = ncdf;
    _curr_opened = g_old_opened;
    g_old_k      = _cdfs[g_k];
    int r = NC_reset_maxopenfiles(req_max);
    H4V_COVER(r > g_old_size, "table enlarged");
    H4V_COVER(r != -1 && r < g_old_size, "table shrunk");
    H4V_COVER(r == -1 && req_max < 0, "negative request");
    H4V_CANARY("NC_reset_maxopenfiles end");
}

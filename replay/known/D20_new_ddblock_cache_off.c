/* D20 (C02): with descriptor caching off, the 17th element needs a second DD block; HTInew_dd_block never
   wrote the NIL descriptors of that block, so the file could not be reopened (Hopen fails: DDs decode as
   tag 0/ref 0 duplicates).  Build: gcc -I/repo/hdf/src -I/repo/_build t.c -L/repo/_build/bin -lhdf -Wl,-rpath,/repo/_build/bin
   Before the fix: "./t 0" prints Hnumber=-1 after reopen.  After: 21. */
#include <stdlib.h>
#include "hdf.h"
#include <stdio.h>
int main(int argc,char**argv){
  int cache = argc>1 ? atoi(argv[1]) : 0;
  int32 fid = Hopen("t.hdf", DFACC_CREATE, 16);
  Hcache(fid, cache);
  char buf[4]="abc";
  for (int i=1;i<=20;i++) { if (Hputelement(fid, 1000, (uint16)i, (uint8*)buf, 3)==FAIL) printf("put fail %d\n",i); }
  printf("before close: Hnumber=%d\n", (int)Hnumber(fid, DFTAG_WILDCARD));
  Hclose(fid);
  fid = Hopen("t.hdf", DFACC_READ, 0);
  printf("after reopen: Hnumber(wild)=%d Hnumber(1000)=%d Hnumber(0)=%d\n", (int)Hnumber(fid, DFTAG_WILDCARD), (int)Hnumber(fid,1000), (int)Hnumber(fid,0));
  Hclose(fid);
  return 0;
}

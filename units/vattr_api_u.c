/* Verification unit: hdf/src/vattr.c (C10: Vdata / Vdata-field / Vgroup attributes) -- the query and set interface under contract.
   C10: "setting an attribute of any number type and count and later querying it by name or index returns the same type, count and
   values; re-setting an existing name either replaces its value (keeping its index and all other attributes intact) or, where the
   interface forbids changing type or count, fails leaving the old value".
   The attribute Vdatas themselves (VSattach/VSdetach/VSwrite/VSread/VSinquire/VSsetfields/VHstoredatam) are outside the unit: logging
   stubs over a ghost table of NA attribute Vdatas (ref -> name, class, field name, type, order, records, interlace), style of vattr_u.c.
   Bounds of every obligation here: at most MAXA attributes in a list, attribute names of ONE character (the string functions are
   exact unrolled models for strings of at most 7 characters: vsname[65] is not field-sensitive in cbmc). */
#include "h4v.h"
#include "h4v_err.h"
#include <string.h>
#include "hdf_priv.h"
#include "vg_priv.h"
typedef unsigned char h4v_u8_t;

#define NA      3       /* ghost attribute Vdatas */
#define MAXA    3       /* entries of an attribute list on entry */
#define VA_VSID 0x50001 /* the parent Vdata's id */
#define VA_VGID 0x60001 /* the Vgroup's id */
#define VA_ATT0 0x50010 /* VSattach hands out VA_ATT0 + k for attribute Vdata k */

/* ------------------------------------------------------------------ environment (built by the harness) */
vsinstance_t *g_par_inst; /* HAatom_object(VA_VSID) */
VDATA        *g_par;      /* the parent Vdata (g_par_inst->vs is NULL or g_par) */
vginstance_t *g_vg_inst;  /* HAatom_object(VA_VGID) */
VGROUP       *g_vg;
int32         g_file;
/* ghost table of attribute Vdatas */
vsinstance_t g_att_i[NA];
VDATA        g_att[NA];
uint16       g_att_ref[NA]; /* distinct, non-zero */
int16        g_att_type[NA][1];
uint16       g_att_order[NA][1];
char        *g_att_fn[NA][1]; /* name of the single field */
int32        g_att_nrec[NA], g_att_il[NA];
h4v_u8_t     g_att_nm[NA];  /* the (one-character) name: g_att[k].vsname */
int          g_ek[MAXA + 1]; /* table index of the attribute Vdata that list entry i refers to (-1: dangling) */
int          g_att_wn[NA];  /* number of fields: g_att[k].wlist.n */
int          g_found, g_fk; /* Vsetattr: list position of the first entry with the requested name (-1: none), its table index */
int          g_att_cls[NA]; /* class is "Attr0.0" */
int          g_att_fnok[NA]; /* the field is called "VALUES" */
int32        g_ntsize; /* what DFKNTsize answers */
h4v_u8_t     g_att_val[NA][4]; /* the stored record (attributes of 4 bytes) */
int          g_sel; /* VSattrinfo/VSgetattr: list position of attribute number attrindex of the field (-1: none); g_fk its table index */
/* log of the V layer: one object, so that the frame of every contract is a single target */
struct va_log {
    int         att_open[NA];
    int         n_attach, n_detach, n_write, n_store, n_read, n_setf, v_failed;
    int         at_mode; /* access mode of the last VSattach */
    int         wr_k, rd_k, sf_k, sf_ok;
    const void *wr_values;
    int32       wr_nelt;
    void       *rd_values;
    int32       rd_nrec, rd_il, nt_arg;
    int32       st_f, st_n, st_type, st_order, st_ref;
    const void *st_buf;
    const char *st_name;
    int         st_ok; /* field name "VALUES", class "Attr0.0" */
} g_L;
#define g_att_open  g_L.att_open
#define g_n_attach  g_L.n_attach
#define g_n_detach  g_L.n_detach
#define g_n_write   g_L.n_write
#define g_n_store   g_L.n_store
#define g_n_read    g_L.n_read
#define g_n_setf    g_L.n_setf
#define g_v_failed  g_L.v_failed
#define g_at_mode   g_L.at_mode
#define g_wr_k      g_L.wr_k
#define g_rd_k      g_L.rd_k
#define g_sf_k      g_L.sf_k
#define g_sf_ok     g_L.sf_ok
#define g_wr_values g_L.wr_values
#define g_wr_nelt   g_L.wr_nelt
#define g_rd_values g_L.rd_values
#define g_rd_nrec   g_L.rd_nrec
#define g_rd_il     g_L.rd_il
#define g_nt_arg    g_L.nt_arg
#define g_st_f      g_L.st_f
#define g_st_n      g_L.st_n
#define g_st_type   g_L.st_type
#define g_st_order  g_L.st_order
#define g_st_ref    g_L.st_ref
#define g_st_buf    g_L.st_buf
#define g_st_name   g_L.st_name
#define g_st_ok     g_L.st_ok
/* entry snapshot of the lists (bound to the entry state by the requires clauses) */
int32      g_o_n;
void      *g_o_alist;
uint16     g_o_aref[MAXA], g_o_atag[MAXA];
int32      g_o_fx[MAXA];

typedef unsigned char h4v_u8;
H4V_DECL_ND(int);
H4V_DECL_ND(int32);
H4V_DECL_ND(h4v_u8);

#define KREF(r) ((r) == g_att_ref[0] ? 0 : (r) == g_att_ref[1] ? 1 : (r) == g_att_ref[2] ? 2 : -1)
#define KATM(a) ((int)((a) - VA_ATT0))
#define ATM_IS_ATT(a) ((a) >= VA_ATT0 && (a) < VA_ATT0 + NA)

/* exact string functions for strings of at most 7 characters */
#ifdef H4V_CBMC
#define S_STEP(i)                                                                                                                \
    if ((unsigned char)a[i] != (unsigned char)b[i])                                                                              \
        return (unsigned char)a[i] < (unsigned char)b[i] ? -1 : 1;                                                               \
    if (a[i] == 0)                                                                                                               \
        return 0;
int
strcmp(const char *a, const char *b)
{
    S_STEP(0) S_STEP(1) S_STEP(2) S_STEP(3) S_STEP(4) S_STEP(5) S_STEP(6) S_STEP(7)
    return 0;
}
#define N_STEP(i)                                                                                                                \
    if (n == i)                                                                                                                  \
        return 0;                                                                                                                \
    S_STEP(i)
int
strncmp(const char *a, const char *b, size_t n)
{
    N_STEP(0) N_STEP(1) N_STEP(2) N_STEP(3) N_STEP(4) N_STEP(5) N_STEP(6) N_STEP(7)
    return 0;
}
size_t
strlen(const char *s)
{
    return s[0] == 0 ? 0 : s[1] == 0 ? 1 : s[2] == 0 ? 2 : s[3] == 0 ? 3 : s[4] == 0 ? 4 : s[5] == 0 ? 5 : s[6] == 0 ? 6 : 7;
}
#define C_STEP(i)                                                                                                                \
    if (n == i)                                                                                                                  \
        return d;                                                                                                                \
    d[i] = z ? 0 : s[i];                                                                                                         \
    if (s[i] == 0)                                                                                                               \
        z = 1;
char *
strncpy(char *d, const char *s, size_t n)
{
    int z = 0;
    C_STEP(0) C_STEP(1) C_STEP(2) C_STEP(3) C_STEP(4) C_STEP(5) C_STEP(6) C_STEP(7)
    return d;
}
#endif

/* ------------------------------------------------------------------ stubs */
group_t
HAatom_group(atom_t atm)
{
    return (atm == VA_VSID || ATM_IS_ATT(atm)) ? VSIDGROUP : atm == VA_VGID ? VGIDGROUP : BADGROUP;
}
void *
HAatom_object(atom_t atm)
{
    if (atm == VA_VSID)
        return g_par_inst;
    if (atm == VA_VGID)
        return g_vg_inst;
    if (ATM_IS_ATT(atm) && g_att_open[KATM(atm)] > 0)
        return &g_att_i[KATM(atm)];
    return NULL;
}
int32
VSattach(HFILEID f, int32 vsid, const char *accesstype)
{
    int k = KREF(vsid);
    H4V_CHECK(f == g_file && accesstype != NULL, "the attribute Vdata is attached in the file of its owner");
    g_at_mode = accesstype[0];
    H4V_ND(int, vsattach_fails);
    if (vsattach_fails || k < 0) {
        g_v_failed = 1;
        return FAIL;
    }
    g_n_attach++;
    g_att_open[k]++;
    return VA_ATT0 + k;
}
int32
VSdetach(int32 vkey)
{
    H4V_CHECK(ATM_IS_ATT(vkey) && g_att_open[KATM(vkey)] > 0, "VSdetach of an attached attribute Vdata");
    g_att_open[KATM(vkey)]--;
    g_n_detach++;
    H4V_ND(int, vsdetach_fails);
    if (vsdetach_fails) {
        g_v_failed = 1;
        return FAIL;
    }
    return SUCCEED;
}
int32
VSwrite(int32 vkey, const uint8 buf[], int32 nelt, int32 interlace)
{
    H4V_CHECK(ATM_IS_ATT(vkey) && g_att_open[KATM(vkey)] > 0 && g_at_mode == 'w' && interlace == FULL_INTERLACE,
              "VSwrite into an attribute Vdata attached for writing");
    g_n_write++;
    g_wr_k      = KATM(vkey);
    g_wr_values = buf;
    g_wr_nelt   = nelt;
    H4V_ND(int, vswrite_fails);
    if (vswrite_fails) {
        g_v_failed = 1;
        return FAIL;
    }
    return nelt;
}
int
VSinquire(int32 vkey, int32 *nelt, int32 *interlace, char *fields, int32 *eltsize, char *vsname)
{
    H4V_CHECK(ATM_IS_ATT(vkey) && g_att_open[KATM(vkey)] > 0 && nelt != NULL && interlace != NULL && fields != NULL && eltsize == NULL &&
                  vsname == NULL,
              "VSinquire of an attached attribute Vdata");
    H4V_ND(int, vsinquire_fails);
    if (vsinquire_fails) {
        g_v_failed = 1;
        return FAIL;
    }
    int         k = KATM(vkey);
    const char *s = g_att_fn[k][0];
    *nelt         = g_att_nrec[k];
    *interlace    = g_att_il[k];
    strncpy(fields, s, 8);
    return SUCCEED;
}
int
VSsetfields(int32 vkey, const char *fields)
{
    H4V_CHECK(ATM_IS_ATT(vkey) && g_att_open[KATM(vkey)] > 0 && fields != NULL, "VSsetfields on an attached attribute Vdata");
    g_n_setf++;
    g_sf_k  = KATM(vkey);
    g_sf_ok = strcmp(fields, g_att_fn[KATM(vkey)][0]) == 0;
    H4V_ND(int, vssetfields_fails);
    if (vssetfields_fails || !g_sf_ok) {
        g_v_failed = 1;
        return FAIL;
    }
    return SUCCEED;
}
int32
VSread(int32 vkey, uint8 buf[], int32 nelt, int32 interlace)
{
    H4V_CHECK(ATM_IS_ATT(vkey) && g_att_open[KATM(vkey)] > 0, "VSread from an attached attribute Vdata");
    g_n_read++;
    g_rd_k      = KATM(vkey);
    g_rd_values = buf;
    g_rd_nrec   = nelt;
    g_rd_il     = interlace;
    H4V_ND(int, vsread_fails);
    if (vsread_fails || nelt < 0) { /* (VSread refuses a negative record count) */
        g_v_failed = 1;
        return FAIL;
    }
    if (nelt == 0)
        return 0;
    buf[0] = g_att_val[KATM(vkey)][0];
    buf[1] = g_att_val[KATM(vkey)][1];
    buf[2] = g_att_val[KATM(vkey)][2];
    buf[3] = g_att_val[KATM(vkey)][3];
    return nelt;
}
int32
VHstoredatam(HFILEID f, const char *field, const uint8 *buf, int32 n, int32 datatype, const char *vsname, const char *vsclass,
             int32 order)
{
    g_n_store++;
    g_st_f     = f;
    g_st_buf   = buf;
    g_st_n     = n;
    g_st_type  = datatype;
    g_st_name  = vsname;
    g_st_order = order;
    g_st_ok    = field != NULL && vsclass != NULL && strcmp(field, ATTR_FIELD_NAME) == 0 && strcmp(vsclass, _HDF_ATTRIBUTE) == 0;
    H4V_ND(int32, stored_ref);
    H4V_ASSUME(stored_ref == FAIL || (stored_ref >= 1 && stored_ref <= 65535));
    g_st_ref = stored_ref;
    if (stored_ref == FAIL)
        g_v_failed = 1;
    return stored_ref;
}
int
DFKNTsize(int32 number_type)
{
    g_nt_arg = number_type;
    return (int)g_ntsize;
}

/* allocation inside vattr.c (the attribute lists of Vsetattr / VSsetattr).  malloc: fails when the harness says so.  realloc: cbmc's
   own model copies a block of symbolic size byte by byte (not tractable, and it made two clauses of Vsetattr fail spuriously... no:
   genuinely, because cbmc 6 lets it fail); this one is exact for the lists of the harnesses (g_o_n <= MAXA entries of g_o_esz bytes
   on entry): a fresh block, the old entries copied one by one, the old block freed; on failure NULL and the old block is kept. */
int g_o_esz;
int g_alloc_fails; /* harness input: the allocations of the function under contract fail */
static void *
h4v_malloc(size_t n)
{
    if (g_alloc_fails)
        return NULL;
    void *p = malloc(n);
    H4V_ASSUME(p != NULL);
    return p;
}
static void *
h4v_realloc(void *old, size_t n)
{
    H4V_CHECK(old == g_o_alist && (g_o_esz == (int)sizeof(vg_attr_t) || g_o_esz == (int)sizeof(vs_attr_t)) && g_o_n >= 0 && g_o_n <= MAXA &&
                  n >= (size_t)g_o_n * (size_t)g_o_esz,
              "realloc of the attribute list as it was on entry, not shrinking");
    if (g_alloc_fails)
        return NULL;
    void *p = malloc(n);
    H4V_ASSUME(p != NULL);
    if (g_o_esz == (int)sizeof(vg_attr_t)) {
        vg_attr_t *o = (vg_attr_t *)old, *q = (vg_attr_t *)p;
        if (g_o_n > 0) q[0] = o[0];
        if (g_o_n > 1) q[1] = o[1];
        if (g_o_n > 2) q[2] = o[2];
    }
    else {
        vs_attr_t *o = (vs_attr_t *)old, *q = (vs_attr_t *)p;
        if (g_o_n > 0) q[0] = o[0];
        if (g_o_n > 1) q[1] = o[1];
        if (g_o_n > 2) q[2] = o[2];
    }
    free(old);
    return p;
}
#define realloc(p, n) h4v_realloc(p, n)
#define malloc(n)     h4v_malloc(n)

#include "vattr.c"
#undef realloc
#undef malloc


/* ------------------------------------------------------------------ contracts */
#define V_LOG g_L

/* the ghost columns describe the attribute Vdatas */
#define TAB1(k) (g_att[k].vsname[0] == (char)g_att_nm[k] && g_att[k].vsname[1] == 0 && g_att_nm[k] != 0 &&                        \
                 g_att[k].wlist.n == g_att_wn[k] && (g_att[k].vsclass[0] == 'A') == (g_att_cls[k] != 0) && (g_att_fn[k][0][0] == 'V') == (g_att_fnok[k] != 0))
#define TAB_REP (TAB1(0) && TAB1(1) && TAB1(2))
/* --- parent Vdata */
#define PAR_OK(id)  ((id) == VA_VSID && g_par_inst != NULL && g_par_inst->vs != NULL)
#define PAR_REP     (g_par_inst == NULL || g_par_inst->vs == NULL ||                                                             \
                 (g_par_inst->vs == g_par && g_par->nattrs >= 0 && g_par->nattrs <= MAXA && g_par->wlist.n >= 0 &&                \
                  (g_par->nattrs == 0 || g_par->alist != NULL) && g_par->f == g_file))
#define FX_OK(fx)   (((fx) >= 0 && (fx) < g_par->wlist.n) || (fx) == _HDF_VDATA)
#define PM(i, fx)   ((i) < g_par->nattrs && g_par->alist[i].findex == (fx))
#define PK(i)       g_ek[i]
#define PEK1(i)     ((i) >= g_par->nattrs || g_ek[i] == KREF((int32)g_par->alist[i].aref))
#define PEK_REP     (!PAR_OK(VA_VSID) || (PEK1(0) && PEK1(1) && PEK1(2)))
#define NAME1(s)    ((s) != NULL && (s)[0] != 0 && (s)[1] == 0)
#define PN(i, fx, s) (PM(i, fx) && PK(i) >= 0 && g_att_nm[PK(i)] == (unsigned char)(s)[0])
/* the list entry that is attribute number ai of field fx (-1: none) */
#define PSEL(fx, ai)                                                                                                             \
    ((PM(0, fx) && (ai) == 0) ? 0                                                                                                \
     : (PM(1, fx) && (ai) == PM(0, fx)) ? 1                                                                                      \
     : (PM(2, fx) && (ai) == PM(0, fx) + PM(1, fx)) ? 2 : -1)
#define PCLS(i, fx)  (!PM(i, fx) || (PK(i) >= 0 && g_att_cls_ok(PK(i))))
#define ATT_GOOD(k) (g_att_wn[k] == 1 && g_att_cls_ok(k) && g_att_fn_ok(k))
#define g_att_cls_ok(k) (g_att_cls[k] != 0)
#define g_att_fn_ok(k)  (g_att_fnok[k] != 0)

int VSnattrs(int32 vsid)
    __CPROVER_requires(PAR_REP)
    __CPROVER_assigns()
    __CPROVER_ensures(__CPROVER_return_value == (PAR_OK(vsid) ? g_par->nattrs : FAIL));

int VSfnattrs(int32 vsid, int32 findex)
    __CPROVER_requires(PAR_REP)
    __CPROVER_assigns()
    __CPROVER_ensures(!PAR_OK(vsid) ==> __CPROVER_return_value == FAIL)
    /* exact count of the list entries that belong to this field (or to the Vdata itself) */
    __CPROVER_ensures((PAR_OK(vsid) && FX_OK(findex)) ==>
                      __CPROVER_return_value == PM(0, findex) + PM(1, findex) + PM(2, findex))
    __CPROVER_ensures((PAR_OK(vsid) && !FX_OK(findex)) ==>
                      (__CPROVER_return_value == FAIL ||
                       (findex == g_par->wlist.n && __CPROVER_return_value == PM(0, findex) + PM(1, findex) + PM(2, findex))));

int VSfindattr(int32 vsid, int32 findex, const char *attrname)
    __CPROVER_requires(PAR_REP && TAB_REP && PEK_REP)
    __CPROVER_requires(attrname == NULL || NAME1(attrname))
    __CPROVER_assigns(V_LOG)
    __CPROVER_ensures((!PAR_OK(vsid) || attrname == NULL || !FX_OK(findex)) ==> (__CPROVER_return_value == FAIL && g_n_attach == __CPROVER_old(g_n_attach)))
    /* index AMONG the attributes of that field of the first one whose name matches; FAIL if none */
    __CPROVER_ensures((PAR_OK(vsid) && attrname != NULL && FX_OK(findex) && !g_v_failed && PCLS(0, findex) && PCLS(1, findex) &&
                       PCLS(2, findex)) ==>
                      __CPROVER_return_value == (PN(0, findex, attrname)   ? 0
                                                 : PN(1, findex, attrname) ? PM(0, findex)
                                                 : PN(2, findex, attrname) ? PM(0, findex) + PM(1, findex)
                                                                           : FAIL))
    __CPROVER_ensures(g_v_failed ==> __CPROVER_return_value == FAIL)
    /* a list entry of the field that is not an attribute Vdata (class) is an error */
    __CPROVER_ensures((PAR_OK(vsid) && attrname != NULL && FX_OK(findex) && PM(0, findex) && !PCLS(0, findex)) ==>
                      __CPROVER_return_value == FAIL)
    __CPROVER_ensures(g_n_attach - g_n_detach == __CPROVER_old(g_n_attach) - __CPROVER_old(g_n_detach));


/* attribute number attrindex of the field: name, type, count and size of the attribute Vdata the list entry refers to */
#define PSEL_REP(fx, ai) (!PAR_OK(VA_VSID) || (g_sel == PSEL(fx, ai) && (g_sel < 0 || g_fk == g_ek[g_sel])))
#define DELIVERED(v, k) (g_att_nrec[k] < 1 || (((unsigned char *)(v))[0] == g_att_val[k][0] && ((unsigned char *)(v))[1] == g_att_val[k][1] &&           \
                         ((unsigned char *)(v))[2] == g_att_val[k][2] && ((unsigned char *)(v))[3] == g_att_val[k][3]))
#define READ_OF(v, k)   (g_n_read == 1 && g_rd_k == (k) && g_rd_values == (void *)(v) && g_rd_nrec == g_att_nrec[k] && g_rd_il == g_att_il[k] && \
                         g_n_setf == 1 && g_sf_k == (k) && g_sf_ok && g_n_write == 0 && g_n_store == 0)
int VSattrinfo(int32 vsid, int32 findex, int attrindex, char *name, int32 *datatype, int32 *count, int32 *size)
    __CPROVER_requires(PAR_REP && TAB_REP && PEK_REP && PSEL_REP(findex, attrindex))
    __CPROVER_requires(datatype != NULL && count != NULL && size != NULL && name != NULL)
    __CPROVER_assigns(V_LOG, *datatype, *count, *size, __CPROVER_object_whole(name))
    __CPROVER_ensures((!PAR_OK(vsid) || !FX_OK(findex) || g_sel < 0) ==> (__CPROVER_return_value == FAIL && g_n_attach == __CPROVER_old(g_n_attach)))
    __CPROVER_ensures((PAR_OK(vsid) && FX_OK(findex) && g_sel >= 0 && g_fk >= 0 && !g_v_failed && ATT_GOOD(g_fk)) ==>
                      (__CPROVER_return_value == SUCCEED && *datatype == (int32)g_att_type[g_fk][0] && *count == (int32)g_att_order[g_fk][0] &&
                       *size == (int32)g_att_order[g_fk][0] * g_ntsize && g_nt_arg == (g_att_type[g_fk][0] | DFNT_NATIVE) &&
                       (unsigned char)name[0] == g_att_nm[g_fk] && name[1] == 0 && g_n_attach == g_n_detach))
    __CPROVER_ensures((PAR_OK(vsid) && FX_OK(findex) && g_sel >= 0 && (g_fk < 0 || g_v_failed || !ATT_GOOD(g_fk))) ==> __CPROVER_return_value == FAIL);

/* the values delivered are the record of the attribute Vdata that is attribute number attrindex of the field */
int VSgetattr(int32 vsid, int32 findex, int attrindex, void *values)
    __CPROVER_requires(PAR_REP && TAB_REP && PEK_REP && PSEL_REP(findex, attrindex))
    __CPROVER_requires(values != NULL)
    __CPROVER_assigns(V_LOG, __CPROVER_object_whole(values))
    __CPROVER_ensures((!PAR_OK(vsid) || !FX_OK(findex) || g_sel < 0) ==> (__CPROVER_return_value == FAIL && g_n_attach == __CPROVER_old(g_n_attach) && g_n_read == 0))
    __CPROVER_ensures((PAR_OK(vsid) && FX_OK(findex) && g_sel >= 0 && g_fk >= 0 && !g_v_failed && g_att_cls_ok(g_fk) && g_att_fn_ok(g_fk)) ==>
                      (__CPROVER_return_value == SUCCEED && READ_OF(values, g_fk) && DELIVERED(values, g_fk) && g_n_attach == g_n_detach))
    __CPROVER_ensures((PAR_OK(vsid) && FX_OK(findex) && g_sel >= 0 && (g_fk < 0 || g_v_failed || !g_att_cls_ok(g_fk) || !g_att_fn_ok(g_fk))) ==>
                      __CPROVER_return_value == FAIL)
    __CPROVER_ensures(__CPROVER_return_value == SUCCEED || __CPROVER_return_value == FAIL);

/* --- Vgroup */
#define VG_OK(id)  ((id) == VA_VGID && g_vg_inst != NULL && g_vg_inst->vg != NULL)
#define VG_REP     (g_vg_inst == NULL || g_vg_inst->vg == NULL ||                                                                \
                (g_vg_inst->vg == g_vg && g_vg->nattrs >= 0 && g_vg->nattrs <= MAXA && g_vg->f == g_file))
#define GEK1(i)    ((i) >= g_vg->nattrs || g_vg->alist == NULL || g_ek[i] == KREF((int32)g_vg->alist[i].aref))
#define GEK_REP    (!VG_OK(VA_VGID) || (GEK1(0) && GEK1(1) && GEK1(2)))
#define GLIST      (g_vg->otag == DFTAG_VG && g_vg->nattrs > 0 && g_vg->alist != NULL)
#define GN(i, s)   ((i) < g_o_n && g_ek[i] >= 0 && g_att_nm[g_ek[i]] == (unsigned char)(s)[0])
#define GCLS(i)    ((i) >= g_o_n || (g_ek[i] >= 0 && g_att_cls_ok(g_ek[i])))
#define GFOUND(s)  (GN(0, s) ? 0 : GN(1, s) ? 1 : GN(2, s) ? 2 : -1)
/* the entry snapshot is the entry state */
#define GSNAP1(i)  ((i) >= g_o_n || (g_vg->alist[i].aref == g_o_aref[i] && g_vg->alist[i].atag == g_o_atag[i]))
#define GSNAP      (g_vg->nattrs == g_o_n && g_vg->alist == g_o_alist && (g_o_alist == NULL || (GSNAP1(0) && GSNAP1(1) && GSNAP1(2))))

int Vnattrs(int32 vgid)
    __CPROVER_requires(VG_REP)
    __CPROVER_assigns()
    __CPROVER_ensures(__CPROVER_return_value == ((VG_OK(vgid) && g_vg->otag == DFTAG_VG) ? g_vg->nattrs : FAIL));

/* index of the first attribute whose name matches; FAIL if none */
int Vfindattr(int32 vgid, const char *attrname)
    __CPROVER_requires(VG_REP && TAB_REP && GEK_REP)
    __CPROVER_requires(g_vg_inst == NULL || g_vg_inst->vg != NULL) /* (vg->f is read before the NULL test of vg) */
    __CPROVER_requires(!VG_OK(VA_VGID) || GSNAP)
    __CPROVER_requires(attrname == NULL || NAME1(attrname))
    __CPROVER_assigns(V_LOG)
    __CPROVER_ensures((!VG_OK(vgid) || attrname == NULL || !GLIST) ==> (__CPROVER_return_value == FAIL && g_n_attach == __CPROVER_old(g_n_attach)))
    __CPROVER_ensures((VG_OK(vgid) && attrname != NULL && GLIST && !g_v_failed && GCLS(0) && GCLS(1) && GCLS(2)) ==>
                      (__CPROVER_return_value == (GFOUND(attrname) < 0 ? FAIL : GFOUND(attrname)) && g_n_attach == g_n_detach))
    __CPROVER_ensures((VG_OK(vgid) && attrname != NULL && GLIST && (g_v_failed || !GCLS(0))) ==> __CPROVER_return_value == FAIL);

int Vattrinfo(int32 vgid, int attrindex, char *name, int32 *datatype, int32 *count, int32 *size)
    __CPROVER_requires(VG_REP && TAB_REP && GEK_REP)
    __CPROVER_requires(g_vg_inst == NULL || g_vg_inst->vg != NULL)
    __CPROVER_requires(!VG_OK(VA_VGID) || GSNAP)
    __CPROVER_requires(datatype != NULL && count != NULL && size != NULL && name != NULL)
    __CPROVER_assigns(V_LOG, *datatype, *count, *size, __CPROVER_object_whole(name))
    __CPROVER_ensures((!VG_OK(vgid) || g_vg->otag != DFTAG_VG || attrindex < 0 || attrindex >= g_vg->nattrs || g_vg->alist == NULL) ==>
                      (__CPROVER_return_value == FAIL && g_n_attach == __CPROVER_old(g_n_attach)))
    __CPROVER_ensures((VG_OK(vgid) && g_vg->otag == DFTAG_VG && attrindex >= 0 && attrindex < g_vg->nattrs && g_vg->alist != NULL &&
                       g_ek[attrindex] >= 0 && !g_v_failed && ATT_GOOD(g_ek[attrindex])) ==>
                      (__CPROVER_return_value == SUCCEED && *datatype == (int32)g_att_type[g_ek[attrindex]][0] &&
                       *count == (int32)g_att_order[g_ek[attrindex]][0] &&
                       *size == (int32)g_att_order[g_ek[attrindex]][0] * g_ntsize &&
                       g_nt_arg == (g_att_type[g_ek[attrindex]][0] | DFNT_NATIVE) &&
                       (unsigned char)name[0] == g_att_nm[g_ek[attrindex]] && name[1] == 0 && g_n_attach == g_n_detach))
    __CPROVER_ensures((VG_OK(vgid) && g_vg->otag == DFTAG_VG && attrindex >= 0 && attrindex < g_vg->nattrs && g_vg->alist != NULL &&
                       (g_ek[attrindex] < 0 || g_v_failed || !ATT_GOOD(g_ek[attrindex]))) ==> __CPROVER_return_value == FAIL);

/* the values delivered are the record of the attribute Vdata list entry attrindex refers to; an index out of range (negative too) fails */
int Vgetattr(int32 vgid, int attrindex, void *values)
    __CPROVER_requires(VG_REP && TAB_REP && GEK_REP)
    __CPROVER_requires(g_vg_inst == NULL || g_vg_inst->vg != NULL)
    __CPROVER_requires(!VG_OK(VA_VGID) || GSNAP)
    __CPROVER_requires(values != NULL)
    __CPROVER_assigns(V_LOG, __CPROVER_object_whole(values))
    __CPROVER_ensures((!VG_OK(vgid) || g_vg->otag != DFTAG_VG || attrindex < 0 || attrindex >= g_vg->nattrs || g_vg->alist == NULL) ==>
                      (__CPROVER_return_value == FAIL && g_n_attach == __CPROVER_old(g_n_attach) && g_n_read == 0))
    __CPROVER_ensures((VG_OK(vgid) && g_vg->otag == DFTAG_VG && attrindex >= 0 && attrindex < g_vg->nattrs && g_vg->alist != NULL &&
                       g_ek[attrindex] >= 0 && !g_v_failed && g_att_cls_ok(g_ek[attrindex])) ==>
                      (__CPROVER_return_value == SUCCEED && READ_OF(values, g_ek[attrindex]) && DELIVERED(values, g_ek[attrindex]) &&
                       g_n_attach == g_n_detach))
    __CPROVER_ensures((VG_OK(vgid) && g_vg->otag == DFTAG_VG && attrindex >= 0 && attrindex < g_vg->nattrs && g_vg->alist != NULL &&
                       (g_ek[attrindex] < 0 || g_v_failed || !g_att_cls_ok(g_ek[attrindex]))) ==> __CPROVER_return_value == FAIL)
    __CPROVER_ensures(__CPROVER_return_value == SUCCEED || __CPROVER_return_value == FAIL);

/* Vsetattr: a new name is appended (all earlier entries as they were); an existing name with the same type and count has its value
   rewritten in place (list untouched); an existing name with another type or count is refused and nothing changes */
#define GUNCH1(i)  ((i) >= g_o_n || (g_vg->alist[i].aref == g_o_aref[i] && g_vg->alist[i].atag == g_o_atag[i]))
#define GKEPT      (GUNCH1(0) && GUNCH1(1) && GUNCH1(2))
#define GUNCH      (g_vg->nattrs == g_o_n && g_vg->alist == g_o_alist && (g_o_alist == NULL || GKEPT))
#define GIN_OK(id, s) (VG_OK(id) && (s) != NULL && g_vg->otag == DFTAG_VG && g_vg->access == 'w' && ((g_o_alist != NULL) == (g_o_n != 0)))
#define GSAME(k, t, c) (g_att_wn[k] == 1 && (int32)g_att_type[k][0] == (t) && (int32)g_att_order[k][0] == (c))
int Vsetattr(int32 vgid, const char *attrname, int32 datatype, int32 count, const void *values)
    __CPROVER_requires(VG_REP && TAB_REP && GEK_REP)
    __CPROVER_requires(!VG_OK(VA_VGID) || GSNAP)
    __CPROVER_requires(attrname == NULL || NAME1(attrname))
    __CPROVER_requires(attrname == NULL || (g_found == GFOUND(attrname) && (g_found < 0 || g_fk == g_ek[g_found])))
    __CPROVER_assigns(V_LOG; VG_OK(VA_VGID): g_vg->alist, g_vg->nattrs, g_vg->flags, g_vg->version, g_vg->marked, g_vg->old_alist, g_vg->noldattrs;
                      VG_OK(VA_VGID) && g_vg->alist != NULL: __CPROVER_object_whole(g_vg->alist))
    __CPROVER_frees(VG_OK(VA_VGID): g_vg->alist)
    __CPROVER_ensures(__CPROVER_return_value == SUCCEED || __CPROVER_return_value == FAIL)
    __CPROVER_ensures(!GIN_OK(vgid, attrname) ==> (__CPROVER_return_value == FAIL && g_n_store == 0 && g_n_write == 0 && g_n_attach == 0))
    /* whatever fails leaves the list as it was */
    __CPROVER_ensures((VG_OK(vgid) && __CPROVER_return_value == FAIL) ==> GUNCH)
    /* existing name, same type and count: value rewritten in place */
    __CPROVER_ensures((GIN_OK(vgid, attrname) && g_found >= 0 && g_fk >= 0 && GSAME(g_fk, datatype, count) && !g_v_failed) ==>
                      (__CPROVER_return_value == SUCCEED && g_n_write == 1 && g_wr_k == g_fk && g_wr_values == values &&
                       g_wr_nelt == 1 && g_n_store == 0 && GUNCH && g_n_attach == g_n_detach))
    /* existing name, other type or count: refused, nothing written */
    __CPROVER_ensures((GIN_OK(vgid, attrname) && g_found >= 0 && g_fk >= 0 && !GSAME(g_fk, datatype, count)) ==>
                      (__CPROVER_return_value == FAIL && g_n_write == 0 && g_n_store == 0 && GUNCH))
    /* new name: one attribute Vdata created from the arguments and appended */
    __CPROVER_ensures((GIN_OK(vgid, attrname) && g_found < 0 && !g_v_failed && !g_alloc_fails) ==>
                      (__CPROVER_return_value == SUCCEED && g_vg->nattrs == g_o_n + 1 && g_vg->alist != NULL && GKEPT &&
                       g_vg->alist[g_o_n].aref == (uint16)g_st_ref && g_vg->alist[g_o_n].atag == DFTAG_VH && g_vg->marked == 1 &&
                       (g_vg->flags & VG_ATTR_SET) != 0 && g_vg->version == VSET_NEW_VERSION && g_n_write == 0 && g_n_store == 1 &&
                       g_st_f == g_file && g_st_ok && g_st_buf == values && g_st_n == 1 && g_st_type == datatype && g_st_order == count &&
                       g_st_name == attrname && g_n_attach == g_n_detach))
    __CPROVER_ensures((g_v_failed || (GIN_OK(vgid, attrname) && g_found < 0 && g_alloc_fails)) ==> __CPROVER_return_value == FAIL);

#ifdef H4V_NATIVE
#include "h4v_native_wrap.h"
#endif

/* ------------------------------------------------------------------ harnesses */
static VDATA        s_par;
static const VDATA  s_zero_vd; /* all zero */
static vsinstance_t s_par_i;
static vs_attr_t    s_palist[MAXA];
static const char   s_fn_ok[8]  = "VALUES";
static const char   s_fn_bad[8] = "X";

static void
mk_table(void)
{
    H4V_HAVOC(int32, g_file);
    H4V_HAVOC(int32, g_ntsize);
    H4V_ASSUME(g_ntsize >= 1 && g_ntsize <= 8);
    H4V_ND(int, ref0);
    H4V_ND(int, ref1);
    H4V_ND(int, ref2);
    H4V_ASSUME(ref0 >= 1 && ref0 <= 65535 && ref1 >= 1 && ref1 <= 65535 && ref2 >= 1 && ref2 <= 65535);
    H4V_ASSUME(ref0 != ref1 && ref0 != ref2 && ref1 != ref2);
    g_att_ref[0] = (uint16)ref0;
    g_att_ref[1] = (uint16)ref1;
    g_att_ref[2] = (uint16)ref2;
    for (int k = 0; k < NA; k++) {
        H4V_ND(h4v_u8, a_name);
        H4V_ND(int, a_cls_ok);
        H4V_ND(int, a_fn_ok);
        H4V_ND(int, a_n);
        H4V_ND(int, a_type);
        H4V_ND(int, a_order);
        H4V_ND(int32, a_nrec);
        H4V_ND(int32, a_il);
        g_att[k] = s_zero_vd;
        H4V_ASSUME(a_name != 0 && a_n >= 0 && a_n <= 2 && a_type >= -32768 && a_type <= 32767 && a_order >= 1 && a_order <= 65535);
        g_att[k].vsname[0]  = (char)a_name;
        g_att[k].vsname[1]  = 0;
        g_att[k].vsclass[0] = a_cls_ok ? 'A' : 'B';
        g_att[k].vsclass[1] = 't';
        g_att[k].vsclass[2] = 't';
        g_att[k].vsclass[3] = 'r';
        g_att[k].vsclass[4] = '0';
        g_att[k].vsclass[5] = '.';
        g_att[k].vsclass[6] = '0';
        g_att[k].vsclass[7] = 0;
        g_att_type[k][0]    = (int16)a_type;
        g_att_order[k][0]   = (uint16)a_order;
        g_att_fn[k][0]      = (char *)(a_fn_ok ? s_fn_ok : s_fn_bad);
        g_att[k].wlist.n     = a_n;
        g_att[k].wlist.type  = g_att_type[k];
        g_att[k].wlist.order = g_att_order[k];
        g_att[k].wlist.name  = g_att_fn[k];
        g_att[k].oref        = g_att_ref[k];
        g_att[k].f           = g_file;
        g_att_i[k].vs        = &g_att[k];
        H4V_ND(h4v_u8, a_v0);
        H4V_ND(h4v_u8, a_v1);
        H4V_ND(h4v_u8, a_v2);
        H4V_ND(h4v_u8, a_v3);
        g_att_val[k][0]      = a_v0;
        g_att_val[k][1]      = a_v1;
        g_att_val[k][2]      = a_v2;
        g_att_val[k][3]      = a_v3;
        g_att_nm[k]          = a_name;
        g_att_wn[k]          = a_n;
        g_att_cls[k]         = a_cls_ok != 0;
        g_att_fnok[k]        = a_fn_ok != 0;
        g_att_nrec[k]        = a_nrec;
        g_att_il[k]          = a_il;
        g_att_open[k]        = 0;
    }
    g_n_attach = g_n_detach = g_n_write = g_n_store = g_n_read = g_n_setf = g_v_failed = 0;
    g_at_mode = 0;
    g_wr_k = g_rd_k = g_sf_k = -1;
    g_sf_ok     = 0;
    g_wr_values = NULL;
    g_rd_values = NULL;
    g_wr_nelt = g_rd_nrec = g_rd_il = g_nt_arg = 0;
    g_st_f = g_st_n = g_st_type = g_st_order = g_st_ref = 0;
    g_st_buf  = NULL;
    g_st_name = NULL;
    g_st_ok   = 0;
    g_o_n     = 0;
    g_o_alist = NULL;
}

/* the parent Vdata: n_fld fields, up to MAXA attribute entries over arbitrary field indices and refs */
static void
mk_par(void)
{
    H4V_ND(int, par_nfld);
    H4V_ND(int, par_nattrs);
    H4V_ND(int, par_inst_null);
    H4V_ND(int, par_vs_null);
    H4V_ND(int, par_access);
    H4V_ASSUME(par_nfld >= 0 && par_nfld <= 3 && par_nattrs >= 0 && par_nattrs <= MAXA);
    s_par = s_zero_vd;
    s_par.f       = g_file;
    s_par.access  = par_access ? 'w' : 'r';
    s_par.wlist.n = par_nfld;
    s_par.nattrs  = par_nattrs;
    s_par.alist   = par_nattrs > 0 ? s_palist : NULL;
    for (int i = 0; i < MAXA; i++) {
        H4V_ND(int32, e_findex);
        H4V_ND(int, e_ref);
        H4V_ASSUME(e_ref >= 0 && e_ref <= 65535);
        s_palist[i].findex = e_findex;
        s_palist[i].atag   = DFTAG_VH;
        s_palist[i].aref   = (uint16)e_ref;
        g_o_fx[i]          = e_findex;
        g_o_aref[i]        = (uint16)e_ref;
        g_o_atag[i]        = DFTAG_VH;
        g_ek[i]            = KREF(e_ref);
    }
    s_par_i.vs = par_vs_null ? NULL : &s_par;
    g_par      = &s_par;
    g_par_inst = par_inst_null ? NULL : &s_par_i;
    g_vg       = NULL;
    g_vg_inst  = NULL;
}

void
h_VSnattrs(void)
{
    mk_table();
    mk_par();
    H4V_ND(int32, vsid);
    int r = VSnattrs(vsid);
    H4V_COVER(r == 2, "VSnattrs: two attributes");
    H4V_COVER(r == FAIL, "VSnattrs: FAIL");
    H4V_CANARY("VSnattrs end");
}

void
h_VSfnattrs(void)
{
    mk_table();
    mk_par();
    H4V_ND(int32, vsid);
    H4V_ND(int32, findex);
    int r = VSfnattrs(vsid, findex);
    H4V_COVER(r == 2 && g_par->nattrs == 3 && findex == 1, "VSfnattrs: two of three attributes belong to field 1");
    H4V_COVER(r == 1 && findex == _HDF_VDATA, "VSfnattrs: one attribute of the Vdata itself");
    H4V_COVER(r == 0 && g_par->nattrs == 3, "VSfnattrs: none of three");
    H4V_COVER(r == FAIL && vsid == VA_VSID && g_par_inst != NULL && g_par_inst->vs != NULL, "VSfnattrs: bad field index");
    H4V_CANARY("VSfnattrs end");
}

void
h_VSfindattr(void)
{
    mk_table();
    mk_par();
    H4V_ND(int32, vsid);
    H4V_ND(int32, findex);
    H4V_ND(h4v_u8, q_name);
    H4V_ND(int, name_null);
    H4V_ASSUME(q_name != 0);
    char name[2];
    name[0] = (char)q_name;
    name[1] = 0;
    int r = VSfindattr(vsid, findex, name_null ? NULL : name);
    H4V_COVER(r == 1 && g_par->alist[0].findex != findex, "VSfindattr: index among the field's attributes differs from the list position");
    H4V_COVER(r == 0 && g_par->alist[0].findex != findex, "VSfindattr: first attribute of the field is second in the list");
    H4V_COVER(r == FAIL && !g_v_failed && g_n_attach == 3, "VSfindattr: no attribute of that name among three");
    H4V_COVER(r == FAIL && g_v_failed, "VSfindattr: V layer failure");
    H4V_CANARY("VSfindattr end");
}

void
h_VSattrinfo(void)
{
    mk_table();
    mk_par();
    H4V_ND(int32, vsid);
    H4V_ND(int32, findex);
    H4V_ND(int, attrindex);
    char  name[8];
    int32 dt, cnt, sz;
    g_sel = PSEL(findex, attrindex);
    g_fk  = g_sel < 0 ? -1 : g_ek[g_sel];
    int r = VSattrinfo(vsid, findex, attrindex, name, &dt, &cnt, &sz);
    H4V_COVER(r == SUCCEED && attrindex == 1 && g_par->alist[1].findex != findex, "VSattrinfo: second attribute of the field is the third list entry");
    H4V_COVER(r == SUCCEED && cnt > 1 && g_ntsize == 4, "VSattrinfo: several values of 4 bytes");
    H4V_COVER(r == FAIL && !g_v_failed && g_n_attach == 1, "VSattrinfo: the entry is not a well-formed attribute Vdata");
    H4V_COVER(r == FAIL && vsid == VA_VSID && g_n_attach == 0 && attrindex == 1 && g_par->nattrs == 3, "VSattrinfo: the field has fewer attributes");
    H4V_CANARY("VSattrinfo end");
}

/* the Vgroup: up to MAXA attribute entries (heap list, as Vsetattr reallocates it) */
static VGROUP       s_vg;
static vginstance_t s_vg_i;
static const VGROUP s_zero_vg;
static void
mk_vg(void)
{
    H4V_ND(int, vg_nattrs);
    H4V_ND(int, vg_inst_null);
    H4V_ND(int, vg_null);
    H4V_ND(int, vg_access);
    H4V_ND(int, vg_otag);
    H4V_ND(int, vg_alist_null);
    H4V_ND(int, vg_flags);
    H4V_ASSUME(vg_nattrs >= 0 && vg_nattrs <= MAXA && vg_otag >= 0 && vg_otag <= 65535);
    s_vg        = s_zero_vg;
    s_vg.f      = g_file;
    s_vg.otag   = (uint16)vg_otag;
    s_vg.access = vg_access ? 'w' : 'r';
    s_vg.nattrs = vg_nattrs;
    s_vg.flags  = (uint32)vg_flags;
    vg_attr_t *al = vg_alist_null ? NULL : malloc((size_t)(vg_nattrs > 0 ? vg_nattrs : 1) * sizeof(vg_attr_t));
    H4V_ASSUME(vg_alist_null || al != NULL);
    for (int i = 0; i < MAXA; i++) {
        H4V_ND(int, e_ref);
        H4V_ASSUME(e_ref >= 0 && e_ref <= 65535);
        g_o_aref[i] = (uint16)e_ref;
        g_o_atag[i] = DFTAG_VH;
        g_o_fx[i]   = 0;
        g_ek[i]     = KREF(e_ref);
        if (al != NULL && i < vg_nattrs) {
            al[i].atag = DFTAG_VH;
            al[i].aref = (uint16)e_ref;
        }
    }
    g_ek[MAXA] = -1;
    s_vg.alist = al;
    g_o_n      = vg_nattrs;
    g_o_alist  = al;
    g_o_esz    = (int)sizeof(vg_attr_t);
    s_vg_i.vg  = vg_null ? NULL : &s_vg;
    g_vg       = &s_vg;
    g_vg_inst  = vg_inst_null ? NULL : &s_vg_i;
    g_par      = NULL;
    g_par_inst = NULL;
}

void
h_Vnattrs(void)
{
    mk_table();
    mk_vg();
    H4V_ND(int32, vgid);
    int r = Vnattrs(vgid);
    H4V_COVER(r == 3, "Vnattrs: three");
    H4V_COVER(r == FAIL && vgid == VA_VGID, "Vnattrs: not a Vgroup");
    H4V_CANARY("Vnattrs end");
}

void
h_Vfindattr(void)
{
    mk_table();
    mk_vg();
    H4V_ASSUME(g_vg_inst == NULL || g_vg_inst->vg != NULL);
    H4V_ND(int32, vgid);
    H4V_ND(h4v_u8, q_name);
    H4V_ND(int, name_null);
    H4V_ASSUME(q_name != 0);
    char name[2];
    name[0] = (char)q_name;
    name[1] = 0;
    int r = Vfindattr(vgid, name_null ? NULL : name);
    H4V_COVER(r == 2, "Vfindattr: the third attribute");
    H4V_COVER(r == 0 && g_o_n == 3, "Vfindattr: the first of three");
    H4V_COVER(r == FAIL && !g_v_failed && g_n_attach == 3, "Vfindattr: no attribute of that name among three");
    H4V_COVER(r == FAIL && g_v_failed, "Vfindattr: V layer failure");
    H4V_CANARY("Vfindattr end");
}

void
h_Vattrinfo(void)
{
    mk_table();
    mk_vg();
    H4V_ASSUME(g_vg_inst == NULL || g_vg_inst->vg != NULL);
    H4V_ND(int32, vgid);
    H4V_ND(int, attrindex);
    H4V_ASSUME(attrindex >= 0);
    char  name[8];
    int32 dt, cnt, sz;
    int   r = Vattrinfo(vgid, attrindex, name, &dt, &cnt, &sz);
    H4V_COVER(r == SUCCEED && attrindex == 2, "Vattrinfo: third attribute");
    H4V_COVER(r == SUCCEED && cnt > 1 && g_ntsize == 8, "Vattrinfo: several values of 8 bytes");
    H4V_COVER(r == FAIL && !g_v_failed && g_n_attach == 1, "Vattrinfo: the entry is not a well-formed attribute Vdata");
    H4V_CANARY("Vattrinfo end");
}

/* a negative index (the list is read at alist[attrindex]) */
void
h_Vattrinfo_neg(void)
{
    mk_table();
    mk_vg();
    H4V_ASSUME(g_vg_inst == NULL || g_vg_inst->vg != NULL);
    H4V_ND(int, attrindex);
    H4V_ASSUME(attrindex < 0 && attrindex >= -4);
    char  name[8];
    int32 dt, cnt, sz;
    int   r = Vattrinfo(VA_VGID, attrindex, name, &dt, &cnt, &sz);
    H4V_COVER(r == FAIL, "Vattrinfo: negative index refused");
    H4V_CANARY("Vattrinfo_neg end");
}

static int
vsetattr_body(int nomem)
{
    mk_table();
    mk_vg();
    H4V_ND(int32, vgid);
    H4V_ND(h4v_u8, q_name);
    H4V_ND(int, name_null);
    H4V_ND(int32, datatype);
    H4V_ND(int32, count);
    H4V_ASSUME(q_name != 0);
    char name[2];
    name[0] = (char)q_name;
    name[1] = 0;
    unsigned char vals[4] = {1, 2, 3, 4};
    g_found       = GFOUND(name);
    g_fk          = g_found < 0 ? -1 : g_ek[g_found];
    g_alloc_fails = nomem;
    return Vsetattr(vgid, name_null ? NULL : name, datatype, count, vals);
}
void
h_Vsetattr(void)
{
    int r = vsetattr_body(0);
    H4V_COVER(r == SUCCEED && g_vg->nattrs == 4, "Vsetattr: fourth attribute appended");
    H4V_COVER(r == SUCCEED && g_vg->nattrs == 1, "Vsetattr: first attribute");
    H4V_COVER(r == SUCCEED && g_n_write == 1 && g_wr_k != g_ek[0], "Vsetattr: value of an existing attribute (not the first) rewritten");
    H4V_COVER(r == FAIL && !g_v_failed && g_n_attach > 0, "Vsetattr: changed type or count refused");
    H4V_COVER(r == FAIL && g_v_failed, "Vsetattr: V layer failure");
    H4V_CANARY("Vsetattr end");
}
/* the allocation of the longer list fails */
void
h_Vsetattr_nomem(void)
{
    int r = vsetattr_body(1);
    H4V_COVER(r == FAIL && !g_v_failed && g_n_store == 1 && g_o_n == 2, "Vsetattr: no memory for the third list entry");
    H4V_CANARY("Vsetattr_nomem end");
}

void
h_VSgetattr(void)
{
    mk_table();
    mk_par();
    H4V_ND(int32, vsid);
    H4V_ND(int32, findex);
    H4V_ND(int, attrindex);
    unsigned char vals[4] = {0, 0, 0, 0};
    g_sel = PSEL(findex, attrindex);
    g_fk  = g_sel < 0 ? -1 : g_ek[g_sel];
    int r = VSgetattr(vsid, findex, attrindex, vals);
    H4V_COVER(r == SUCCEED && attrindex == 1 && g_sel == 2 && g_att_nrec[g_fk] == 1, "VSgetattr: second attribute of the field is the third list entry");
    H4V_COVER(r == FAIL && attrindex < 0, "VSgetattr: negative index");
    H4V_COVER(r == FAIL && !g_v_failed && g_n_attach == 1, "VSgetattr: the entry is not a well-formed attribute Vdata");
    H4V_COVER(r == FAIL && g_v_failed && g_n_read == 1, "VSgetattr: read failure");
    H4V_CANARY("VSgetattr end");
}

void
h_Vgetattr(void)
{
    mk_table();
    mk_vg();
    H4V_ASSUME(g_vg_inst == NULL || g_vg_inst->vg != NULL);
    H4V_ND(int32, vgid);
    H4V_ND(int, attrindex);
    unsigned char vals[4] = {0, 0, 0, 0};
    int r = Vgetattr(vgid, attrindex, vals);
    H4V_COVER(r == SUCCEED && attrindex == 2 && g_att_nrec[g_ek[2]] == 1, "Vgetattr: third attribute");
    H4V_COVER(r == FAIL && attrindex < 0 && vgid == VA_VGID, "Vgetattr: negative index");
    H4V_COVER(r == FAIL && attrindex == 3 && g_o_n == 3 && vgid == VA_VGID, "Vgetattr: index past the end");
    H4V_COVER(r == FAIL && g_v_failed && g_n_read == 1, "Vgetattr: read failure");
    H4V_CANARY("Vgetattr end");
}

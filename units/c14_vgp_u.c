/* Verification unit: hdf/src/vgp.c -- C14 (read-only access) gates of the Vgroup interface:
 * Vattach(..., "w") (new and existing group), Vdelete, and -- on a group attached "r", the only
 * way a group of a read-only file can be attached (Vattach gate) -- Vsetname, Vsetclass, Vinsert,
 * Vaddtagref, Vdeletetagref, and the write-back of Vdetach.
 *
 * Environment: one file opened read-only (stubs/c14_common.h), its vfile_t, one vgroup instance
 * registered under g_vkey.  tbbt.c is a trusted finite map (file id -> vfile_t, ref -> instance).
 */
#include "h4v.h"
#include "h4v_err.h"
#define C14_HAVE_HAatom_object
#define C14_HAVE_HAatom_group
#define C14_HAVE_HAremove_atom
#include "c14_common.h"
#include "vg_priv.h"

H4V_DECL_ND(unsigned);
H4V_DECL_ND(char);

/* ghosts named by loops/vgp.loops (the loop contracts of every table are injected into the one
   scratch copy of vgp.c; they are not applied in this unit) */
unsigned g_k, g_j;
uint16   g_kt, g_kr, g_k1t, g_k1r, g_j1t, g_j1r;
int32    g_ta0, g_ra0, g_n0;

/* ------------------------------------------------------------------ ghost environment */
#define C14_VKEY 0x40000003 /* representative vgroup handle (see C14_FID) */
vfile_t      *g_vf;   /* the V-layer record of the file */
void         *g_vfp;  /* tree node payload: pointer to it */
vginstance_t *g_v;    /* the attached vgroup instance */
void         *g_vp;
VGROUP       *g_vg;
int           g_tree_rem_n; /* nodes removed from the vgroup tree */
static int    g_dummy_vtree, g_dummy_vgtree;

void *
HAatom_object(atom_t atm)
{
    if (atm == C14_FID)
        return g_frec;
    if (atm == C14_VKEY)
        return g_v;
    return NULL;
}
group_t
HAatom_group(atom_t atm)
{
    if (atm == C14_FID)
        return FIDGROUP;
    if (atm == C14_VKEY)
        return VGIDGROUP;
    return BADGROUP;
}
void *
HAremove_atom(atom_t atm)
{
    g_rem_n++;
    if (atm == C14_VKEY)
        return g_v;
    return NULL;
}
TBBT_NODE *
tbbtdfind(TBBT_TREE *tree, void *key, TBBT_NODE **pp)
{
    if (tree == (TBBT_TREE *)&g_dummy_vtree)
        return *(int32 *)key == C14_FID ? (TBBT_NODE *)&g_vfp : NULL;
    if (tree == (TBBT_TREE *)&g_dummy_vgtree)
        return (g_v != NULL && *(int32 *)key == g_v->key) ? (TBBT_NODE *)&g_vp : NULL;
    return NULL;
}
TBBT_NODE *
tbbtdins(TBBT_TREE *tree, void *item, void *key)
{
    return (TBBT_NODE *)&g_vp;
}
void *
tbbtrem(TBBT_NODE **root, TBBT_NODE *node, void **kp)
{
    H4V_CHECK(g_frec == NULL || !C14_RDONLY(g_frec), "C14: vgroup removed from the table of a file opened read-only");
    g_tree_rem_n++;
    return NULL;
}
char *
HIstrncpy(char *dest, const char *source, int len)
{
#ifdef H4V_CBMC
    /* nothing is claimed about names here: loop-free over-approximation (any contents, terminated) */
    __CPROVER_assert(len >= 1 && __CPROVER_w_ok(dest, (size_t)len), "H4V: HIstrncpy destination holds len bytes");
    __CPROVER_havoc_object(dest);
    dest[len - 1] = '\0';
    return dest;
#else
    char *destp = dest;
    if (len == 0)
        return destp;
    for (; (len > 1) && (*source != '\0'); len--)
        *dest++ = *source++;
    *dest = '\0';
    return destp;
#endif
}

#include "vgp.c"

/* ------------------------------------------------------------------ contracts */
#define C14_ENV                                                                                              \
    (g_frec != NULL && C14_RDONLY(g_frec) && g_mut_n == 0 && g_denied_n == 0 && g_reg_n == 0 && g_tree_rem_n == 0 && \
     g_vf != NULL && g_v != NULL && g_vg != NULL && g_v->vg == g_vg && g_vg->tag != NULL && g_vg->ref != NULL &&    \
     (int)g_vg->nvelt <= g_vg->msize && g_k < (unsigned)g_vg->msize)
/* every group of a read-only file is attached "r": Vattach refuses "w" (obligation c14_Vattach_w) */
#define C14_ATTACHED_R (g_vg->access == 'r' && g_vg->f == C14_FID)
#define C14_VFRAME                                                                                           \
    __CPROVER_object_whole(g_vg), __CPROVER_object_whole(g_vg->tag), __CPROVER_object_whole(g_vg->ref),      \
        __CPROVER_object_whole(g_v), __CPROVER_object_whole(g_vf), g_mut_n, g_denied_n, g_reg_n, g_rem_n, g_tree_rem_n

/* Vattach with write access on a read-only file: refused before anything is allocated, registered or counted */
int32 Vattach(HFILEID f, int32 vgid, const char *accesstype)
    __CPROVER_requires(C14_ENV && f == C14_FID && accesstype != NULL && (accesstype[0] == 'w' || accesstype[0] == 'W'))
    __CPROVER_assigns(C14_VFRAME, vgroup_free_list, vginstance_free_list)
    __CPROVER_ensures(__CPROVER_return_value == FAIL)
    __CPROVER_ensures(g_mut_n == 0 && g_denied_n == 0 && g_reg_n == 0)
    __CPROVER_ensures(g_vf->vgtabn == __CPROVER_old(g_vf->vgtabn))
    __CPROVER_ensures(g_v->nattach == __CPROVER_old(g_v->nattach) && g_vg->access == __CPROVER_old(g_vg->access))
    __CPROVER_ensures(g_vg->marked == __CPROVER_old(g_vg->marked));

/* Vdelete: refused before the group leaves the table or the DD list */
int32 Vdelete(int32 f, int32 vgid)
    __CPROVER_requires(C14_ENV && f == C14_FID)
    __CPROVER_assigns(C14_VFRAME)
    __CPROVER_ensures(__CPROVER_return_value == FAIL)
    __CPROVER_ensures(g_mut_n == 0 && g_denied_n == 0 && g_tree_rem_n == 0);

int32 Vsetname(int32 vkey, const char *vgname)
    __CPROVER_requires(C14_ENV && C14_ATTACHED_R && vkey == C14_VKEY)
    __CPROVER_assigns(C14_VFRAME)
    __CPROVER_ensures(__CPROVER_return_value == FAIL)
    __CPROVER_ensures(g_vg->vgname == __CPROVER_old(g_vg->vgname) && g_vg->marked == __CPROVER_old(g_vg->marked));

int32 Vsetclass(int32 vkey, const char *vgclass)
    __CPROVER_requires(C14_ENV && C14_ATTACHED_R && vkey == C14_VKEY)
    __CPROVER_assigns(C14_VFRAME)
    __CPROVER_ensures(__CPROVER_return_value == FAIL)
    __CPROVER_ensures(g_vg->vgclass == __CPROVER_old(g_vg->vgclass) && g_vg->marked == __CPROVER_old(g_vg->marked));

int32 Vinsert(int32 vkey, int32 insertkey)
    __CPROVER_requires(C14_ENV && C14_ATTACHED_R && vkey == C14_VKEY)
    __CPROVER_assigns(C14_VFRAME)
    __CPROVER_ensures(__CPROVER_return_value == FAIL)
    __CPROVER_ensures(g_vg->nvelt == __CPROVER_old(g_vg->nvelt) && g_vg->marked == __CPROVER_old(g_vg->marked))
    __CPROVER_ensures(g_vg->tag[g_k] == __CPROVER_old(g_vg->tag[g_k]) && g_vg->ref[g_k] == __CPROVER_old(g_vg->ref[g_k]));

/* membership changes are changes of a stored object: on a group attached "r" they must be refused */
int32 Vaddtagref(int32 vkey, int32 tag, int32 ref)
    __CPROVER_requires(C14_ENV && C14_ATTACHED_R && vkey == C14_VKEY)
    __CPROVER_assigns(C14_VFRAME, g_vg->tag, g_vg->ref)
    __CPROVER_frees(g_vg->tag, g_vg->ref)
    __CPROVER_ensures(__CPROVER_return_value == FAIL)
    __CPROVER_ensures(g_vg->nvelt == __CPROVER_old(g_vg->nvelt) && g_vg->marked == __CPROVER_old(g_vg->marked));

int32 Vdeletetagref(int32 vkey, int32 tag, int32 ref)
    __CPROVER_requires(C14_ENV && C14_ATTACHED_R && vkey == C14_VKEY)
    __CPROVER_assigns(C14_VFRAME)
    __CPROVER_ensures(__CPROVER_return_value == FAIL)
    __CPROVER_ensures(g_vg->nvelt == __CPROVER_old(g_vg->nvelt) && g_vg->marked == __CPROVER_old(g_vg->marked))
    __CPROVER_ensures(g_vg->tag[g_k] == __CPROVER_old(g_vg->tag[g_k]) && g_vg->ref[g_k] == __CPROVER_old(g_vg->ref[g_k]));

/* Vdetach of a group attached "r" on a read-only file: never touches the DD list, never hands a write to the H layer;
   if the group is marked as changed, the detach would have to write it and must therefore report failure */
int32 Vdetach(int32 vkey)
    __CPROVER_requires(C14_ENV && C14_ATTACHED_R && vkey == C14_VKEY && g_vg->otag == DFTAG_VG)
    __CPROVER_requires(g_vg->nvelt <= 1 && g_vg->vgname == NULL && g_vg->vgclass == NULL && g_vg->flags == 0 && g_vg->old_alist == NULL)
    __CPROVER_assigns(C14_VFRAME, Vgbuf, Vgbufsize)
    __CPROVER_frees(Vgbuf)
    __CPROVER_ensures(g_mut_n == 0)
    __CPROVER_ensures(g_denied_n == 0)
    __CPROVER_ensures(__CPROVER_old(g_vg->marked) == 1 ==> __CPROVER_return_value == FAIL);

#ifdef H4V_NATIVE
#include "h4v_native_wrap.h"
#endif

/* ------------------------------------------------------------------ harnesses */
#define C14_VG_CAP 4
static void
mk_venv(void)
{
    c14_mk_file();
    H4V_HAVOC(unsigned, g_k);
    g_tree_rem_n = 0;
    vtree = (TBBT_TREE *)&g_dummy_vtree;
    g_vf  = malloc(sizeof(vfile_t));
    H4V_ASSUME(g_vf != NULL);
    memset(g_vf, 0, sizeof(vfile_t));
    H4V_ND(int32, vf_vgtabn);
    H4V_ND(int32, vf_access);
    H4V_ASSUME(vf_vgtabn >= 0 && vf_vgtabn < 100000 && vf_access >= 1 && vf_access < 1000);
    g_vf->f      = C14_FID;
    g_vf->vgtabn = vf_vgtabn;
    g_vf->vgtree = (TBBT_TREE *)&g_dummy_vgtree;
    g_vf->access = vf_access;
    g_vfp        = g_vf;

    g_vg = malloc(sizeof(VGROUP));
    H4V_ASSUME(g_vg != NULL);
    memset(g_vg, 0, sizeof(VGROUP));
    H4V_ND(uint16, vg_nvelt);
    H4V_ND(int, vg_msize);
    H4V_ND(uint16, vg_oref);
    H4V_ND(int, vg_marked);
    H4V_ND(int, vg_new_vg);
    H4V_ASSUME(vg_msize > 0 && vg_msize <= 131070 && (int)vg_nvelt <= vg_msize);
    H4V_ASSUME(vg_marked == 0 || vg_marked == 1);
    H4V_ND_BUF(uint16, vg_tag, vg_msize, C14_VG_CAP);
    H4V_ND_BUF(uint16, vg_ref, vg_msize, C14_VG_CAP);
    g_vg->nvelt   = vg_nvelt;
    g_vg->msize   = vg_msize;
    g_vg->tag     = vg_tag;
    g_vg->ref     = vg_ref;
    g_vg->otag    = DFTAG_VG;
    g_vg->oref    = vg_oref;
    g_vg->f       = C14_FID;
    g_vg->access  = 'r';
    g_vg->marked  = vg_marked;
    g_vg->new_vg  = vg_new_vg;
    g_vg->version = VSET_VERSION;

    g_v = malloc(sizeof(vginstance_t));
    H4V_ASSUME(g_v != NULL);
    memset(g_v, 0, sizeof(vginstance_t));
    H4V_ND(int, v_nattach);
    H4V_ASSUME(v_nattach >= 0 && v_nattach < 1000);
    g_v->key     = (int32)vg_oref;
    g_v->ref     = (unsigned)vg_oref;
    g_v->nattach = v_nattach;
    g_v->vg      = g_vg;
    g_vp         = g_v;
    vgroup_free_list     = NULL;
    vginstance_free_list = NULL;
    Vgbuf                = NULL;
    Vgbufsize            = 0;
}

void
h_c14_Vattach_w(void)
{
    mk_venv();
    H4V_ND(int32, vgid);
    H4V_ND(char, acc0);
    H4V_ASSUME(acc0 == 'w' || acc0 == 'W');
    char acc[2];
    acc[0] = acc0;
    acc[1] = '\0';
    int32 r = Vattach(C14_FID, vgid, acc);
    H4V_COVER(r == FAIL && vgid == -1, "Vattach new group refused");
    H4V_COVER(r == FAIL && vgid == g_v->key, "Vattach existing group for writing refused");
    H4V_CANARY("Vattach end");
}

void
h_c14_Vdelete(void)
{
    mk_venv();
    H4V_ND(int32, vgid);
    int32 r = Vdelete(C14_FID, vgid);
    H4V_COVER(r == FAIL && vgid == g_v->key, "Vdelete of an existing group refused");
    H4V_CANARY("Vdelete end");
}

void
h_c14_Vsetname(void)
{
    mk_venv();
    char name[3] = {'a', 'b', '\0'};
    int32 r = Vsetname(C14_VKEY, name);
    H4V_COVER(r == FAIL, "Vsetname refused");
    H4V_CANARY("Vsetname end");
}

void
h_c14_Vsetclass(void)
{
    mk_venv();
    char name[3] = {'a', 'b', '\0'};
    int32 r = Vsetclass(C14_VKEY, name);
    H4V_COVER(r == FAIL, "Vsetclass refused");
    H4V_CANARY("Vsetclass end");
}

void
h_c14_Vinsert(void)
{
    mk_venv();
    H4V_ND(int32, insertkey);
    int32 r = Vinsert(C14_VKEY, insertkey);
    H4V_COVER(r == FAIL, "Vinsert refused");
    H4V_CANARY("Vinsert end");
}

void
h_c14_Vaddtagref(void)
{
    mk_venv();
    H4V_ND(int32, tag);
    H4V_ND(int32, ref);
    int32 r = Vaddtagref(C14_VKEY, tag, ref);
    H4V_COVER(r == FAIL, "Vaddtagref refused");
    H4V_CANARY("Vaddtagref end");
}

void
h_c14_Vdeletetagref(void)
{
    mk_venv();
    H4V_ND(int32, tag);
    H4V_ND(int32, ref);
    int32 r = Vdeletetagref(C14_VKEY, tag, ref);
    H4V_COVER(r == FAIL, "Vdeletetagref refused");
    H4V_CANARY("Vdeletetagref end");
}

void
h_c14_Vdetach(void)
{
    mk_venv();
    H4V_ASSUME(g_vg->nvelt <= 1);
    int32 old_marked = g_vg->marked;
    int32 r          = Vdetach(C14_VKEY);
    H4V_COVER(r == SUCCEED && old_marked == 0, "Vdetach of an unchanged group");
    H4V_CANARY("Vdetach end");
}

"""C14: read-only access -- gates of the mutating entry points (one small harness per gate)"""
from .core import ob, prop

C14STUBS = ["C14 mutation-primitive stubs (stubs/c14_common.h): HP_write, HPgetdiskblock, HTPcreate/HTPupdate/HTPdelete, "
            "Hdupdd/Hdeldd/HDreuse_tagref, Hsetlength CHECK 'never reached on a read-only file'; Hstartaccess(DFACC_WRITE)/"
            "Hstartwrite/Hputelement/Hwrite/Htrunc return FAIL on a read-only file (proved-dependency: obligations Hstartaccess, Hwrite, Htrunc)",
            "HEpush/HEreport/HEPclear (stubs/h4v_err.h)"]

# ----------------------------------------------------------------------------- hfiledd.c (DESIGN section 9, D15)
DD = dict(unit="c14_hfiledd_u.c", file="hdf/src/hfiledd.c", objbits=10, cex_unwind=6,
          trusted=C14STUBS + ["tbbtdfind/DAget_elem/DAdel_elem/bv_get/bv_set stubs (units/c14_hfiledd_u.c): finite map finding one DD or none"])
ob("c14_Hdeldd", "C14", entry="h_c14_Hdeldd", enforce="Hdeldd", **DD)
ob("c14_HDreuse_tagref", "C14", entry="h_c14_HDreuse_tagref", enforce="HDreuse_tagref", **DD)
ob("c14_Hdupdd", "C14", entry="h_c14_Hdupdd", enforce="Hdupdd", mode="bounded", bound="one DD block of 2 descriptors (HTIfind_dd / HTInew_dd_block loops unwound)",
   unwind=4, **DD)

prop("C14",
     residual="'no byte changes' for whole SD/GR/AN programs; write-open/close without edits leaves content identical",
     assumptions=[])

# ----------------------------------------------------------------------------- hblocks.c
# unwind=1: every loop of these functions lies BEHIND the gate; the unwinding assertions (always on) prove that no loop
# is entered on a read-only file, so the result holds for all inputs (mode "proved", no input-size cap).
HL = dict(unit="c14_hblocks_u.c", file="hdf/src/hblocks.c", objbits=10, cex_unwind=4, unwind=1, trusted=C14STUBS)
ob("c14_HLcreate", "C14", entry="h_c14_HLcreate", enforce="HLcreate", **HL)
ob("c14_HLconvert", "C14", entry="h_c14_HLconvert", enforce="HLconvert", **HL)
ob("c14_HLIstaccess_w", "C14", entry="h_c14_HLIstaccess", enforce="HLIstaccess", **HL)
ob("c14_HLsetblockinfo", "C14", entry="h_c14_HLsetblockinfo", enforce="HLsetblockinfo", **HL)

"""C13 (part): SD identifiers (mfhdf/src/mfsd.c) -- file, dataset and dimension ids encode (file slot, kind, index).
The property itself (prop("C13")) is owned by another author; these obligations only list it.

Environment (units/mfsd_ids_u.c): ghost _cdfs table g_cdfs[NF]/g_ncdf behind a stub of NC_check_id with the body of
file.c:225; three file records at arbitrary slots; vars/dims tables of ARBITRARY size (<= 65536 entries, what 16 index
bits can address) whose entries are arbitrary pointers except the entry the probed id names (ghost g_var).  Every
obligation runs for ANY int32 id with bounds/pointer/overflow/conversion checks.

Residual (not decidable for SD ids by construction): SDendaccess does not invalidate a dataset id (ids carry no
generation), SDend does not invalidate the dataset/dimension ids of its file.
"""
from .core import ob

CAD = dict(flags=["--sat-solver", "cadical"], backend="cbmc SAT (cadical)")  # minisat2 does not finish on some of these

SD = dict(unit="mfsd_ids_u.c", file="mfhdf/src/mfsd.c", objbits=8, cex_unwind=6,
          trusted=["NC_check_id (file.c:225, same body over the ghost table)", "HEclear/HEpush (herr.c)"])

ob("sdid_codec", ["C13"], entry="h_id_codec", enforce=None, overflow=True, **SD)
ob("SDIhandle_from_id", ["C13"], entry="h_SDIhandle_from_id", enforce="SDIhandle_from_id", **SD)
ob("SDIget_var", ["C13"], entry="h_SDIget_var", enforce="SDIget_var", **SD)
ob("SDIget_dim", ["C13"], entry="h_SDIget_dim", enforce="SDIget_dim", **SD)
ob("SDselect", ["C13"], entry="h_SDselect", enforce="SDselect", **SD)
ob("SDselect_forged", ["C13"], entry="h_SDselect_forged", enforce="SDselect", **SD)
ob("SDgetdimid", ["C13"], entry="h_SDgetdimid", enforce="SDgetdimid", **SD)
ob("SDendaccess", ["C13"], entry="h_SDendaccess", enforce="SDendaccess",
   **dict(SD, trusted=SD["trusted"] + ["Hendaccess (logs its argument, may fail)"]))
ob("SDidtoref", ["C13"], entry="h_SDidtoref", enforce="SDidtoref", **SD)
# NOT DECIDED within 200-600 s (minisat and cadical, with and without unwind): strcmp/SDIget_dim of the old-style branch; thorough tier, unmeasured
# NOT registered (no verdict: minisat and cadical, with and without unwinding, 200-600 s; the contract and harnesses stay in the unit):
# ob("SDiscoordvar", ["C13"], entry="h_SDiscoordvar", enforce="SDiscoordvar", unwind=5, tier="thorough", **SD, **CAD)
# ob("SDiscoordvar_scalar", ["C13"], entry="h_SDiscoordvar_scalar", enforce="SDiscoordvar", unwind=5, tier="thorough", **SD, **CAD)
ob("SDgetinfo_id", ["C13"], entry="h_SDgetinfo_id", enforce="SDgetinfo", **SD)
ob("SDreftoindex", ["C13"], entry="h_SDreftoindex", enforce="SDreftoindex", mode="bounded",
   bound="<= 3 datasets in the addressed file", unwind=5, tier="thorough", **SD)
ob("SDstart_id", ["C13"], entry="h_SDstart", enforce="SDstart",
   **dict(SD, trusted=SD["trusted"] + ["ncopen (yields a slot of the table or -1)"]))

# ---------------------------------------------------------------------------------------------------------------
# GR identifiers (hdf/src/mfgr.c): gr ids / ri ids are atoms.  atom.c is a ghost table of 4 entries with the behaviour
# c13_atom.py decides; the image tree (tbbt.c) is a ghost array of <= 3 nodes; GRsetattr (fill value on release) is
# replaced by an assumed contract.
GRB = "<= 3 images in the GR record, atom table of 4 entries (ids, liveness, objects arbitrary)"
GR = dict(unit="mfgr_ids_u.c", file="hdf/src/mfgr.c", objbits=8, **CAD, cex_unwind=6, unwind=6, mode="bounded", bound=GRB,
          trusted=["HAatom_group/HAatom_object/HAregister_atom/HAremove_atom (ghost atom table, see c13_atom.py)",
                   "tbbtdfind/tbbtfirst/tbbtnext (ghost node array)", "Hendaccess (logs)", "HEclear/HEpush (herr.c)"])
ob("GRselect", ["C13"], entry="h_GRselect", enforce="GRselect", **GR)
ob("GRendaccess", ["C13"], entry="h_GRendaccess", enforce="GRendaccess", replace=["GRsetattr"],
   **dict(GR, trusted=GR["trusted"] + ["GRsetattr (assumed contract: SUCCEED/FAIL, no effect on ids or access counts)"]))
ob("GRgetlutid", ["C13"], entry="h_GRgetlutid", enforce="GRgetlutid", **GR)
ob("GRgetlutid_stale", ["C13"], entry="h_GRgetlutid_stale", enforce="GRgetlutid", **GR)
ob("GRidtoref", ["C13"], entry="h_GRidtoref", enforce="GRidtoref", **GR)
ob("GRreftoindex", ["C13"], entry="h_GRreftoindex", enforce="GRreftoindex", **GR)
ob("GRnametoindex", ["C13"], entry="h_GRnametoindex", enforce="GRnametoindex",
   **dict(GR, bound=GRB + ", names of <= 2 characters"))

/* D15 family (C14): calls that must fail on a file opened DFACC_READ but reported success.
   Build: gcc D15_readonly_gates.c -I/repo/hdf/src -I/repo/mfhdf/src -I/repo/_build -L/repo/_build/bin -lmfhdf -lhdf -Wl,-rpath,/repo/_build/bin
   Prints one line per call; exit status = number of calls that appeared to succeed on the read-only file. */
#include "mfhdf.h"
#include <stdio.h>
#include <string.h>
static int bad = 0;
#define EXPECT_FAIL(call)                                                                                    \
    do {                                                                                                     \
        long r_ = (long)(call);                                                                              \
        printf("%-60s -> %ld %s\n", #call, r_, r_ == FAIL ? "ok (refused)" : "WRONG (appears to succeed)"); \
        if (r_ != FAIL) bad++;                                                                               \
    } while (0)
int main(void)
{
    /* build a file with an element, a vgroup with one member and a vdata */
    int32 fid = Hopen("d15.hdf", DFACC_CREATE, 0);
    Hputelement(fid, 1000, 1, (const uint8 *)"abc", 3);
    Vstart(fid);
    int32 vg = Vattach(fid, -1, "w"); Vsetname(vg, "g"); Vaddtagref(vg, 1000, 1); int32 vgref = VQueryref(vg); Vdetach(vg);
    int32 vs = VSattach(fid, -1, "w"); VSsetname(vs, "d"); VSfdefine(vs, "x", DFNT_INT32, 1); VSsetfields(vs, "x");
    int32 v = 5; VSwrite(vs, (uint8 *)&v, 1, FULL_INTERLACE); int32 vsref = VSQueryref(vs); VSdetach(vs);
    Vend(fid); Hclose(fid);
    /* reopen read-only */
    fid = Hopen("d15.hdf", DFACC_READ, 0);
    Vstart(fid);
    EXPECT_FAIL(Hdupdd(fid, 1000, 2, 1000, 1));
    EXPECT_FAIL(HDreuse_tagref(fid, 1000, 1));
    vg = Vattach(fid, vgref, "r");
    EXPECT_FAIL(Vaddtagref(vg, 1000, 1));
    EXPECT_FAIL(Vdeletetagref(vg, 1000, 1));
    Vdetach(vg);
    vs = VSattach(fid, vsref, "r");
    EXPECT_FAIL(VSsetname(vs, "renamed"));
    EXPECT_FAIL(VSsetclass(vs, "cls"));
    VSdetach(vs);
    EXPECT_FAIL(VSattach(fid, -1, "w"));
    EXPECT_FAIL(VSdelete(fid, vsref));
    EXPECT_FAIL(Hdeldd(fid, 1000, 1));
    Vend(fid);
    Hclose(fid);
    int32 sd = SDstart("d15.hdf", DFACC_READ);
    int32 dims[1] = {2};
    EXPECT_FAIL(SDcreate(sd, "new", DFNT_INT32, 1, dims));
    SDend(sd);
    printf("%d call(s) appeared to succeed on a read-only file\n", bad);
    return bad;
}

/* Trusted stubs for the H-layer I/O primitives of hfile.c, for units that sit above them
 * (hfiledd.c, hblocks.c, hextelt.c ...).  They are the executable form of the contracts proved
 * for HPseek / HP_read / HP_write / HPgetdiskblock in units/hfile_u.c (a proved-dependency edge):
 * position bookkeeping in file_rec->f_cur_off, nondeterministic failure (C16), and as
 * H4V_CHECKed caller obligations: C14 (write only with write access), C17 (no write below the
 * low-water mark in an add-session), C20 (offsets stay representable), buffers large enough.
 * Ghost log: sequence-numbered writes; last byte written at two arbitrary ghost offsets.
 */
#ifndef H4V_HP_H
#define H4V_HP_H
#include "h4v_stdio.h"
#include "hfile_priv.h"

int   g_seq;                    /* number of HP_write calls so far */
long  g_offA, g_offB;           /* two ghost disk offsets */
int   g_seqA, g_seqB;           /* sequence number of the last write covering them (0: none) */
int   g_firstA, g_firstB;       /* sequence number of the first write covering them (0: none) */
unsigned char g_byteA, g_byteB; /* last byte written there */
long  g_hp_min_wr;              /* lowest offset written */
int   g_hp_failed;              /* some HP_* call failed in this run */
int   g_hp_may_fail;
const unsigned char *g_img; /* optional ghost disk image served by HP_read (NULL: arbitrary bytes) */
long  g_img_len;

static void h4v_hp_init(int may_fail)
{
    g_hp_may_fail = may_fail;
    g_hp_failed = 0;
    g_seq = g_seqA = g_seqB = g_firstA = g_firstB = 0;
    g_hp_min_wr = LONG_MAX;
    g_img = NULL;
    g_img_len = 0;
    g_rd_n = g_wr_n = g_seek_n = 0;
    g_add_session = 0;
    g_L = 0;
    H4V_HAVOC(long, g_offA);
    H4V_HAVOC(long, g_offB);
    H4V_ASSUME(g_offA >= 0 && g_offA <= INT32_MAX && g_offB >= 0 && g_offB <= INT32_MAX);
}
static int h4v_hp_fail(void)
{
    if (!g_hp_may_fail)
        return 0;
    H4V_ND(int, hp_fault);
    if (hp_fault) {
        g_hp_failed = 1;
        return 1;
    }
    return 0;
}
int HPseek(filerec_t *file_rec, int32 offset)
{
    H4V_CHECK(offset >= 0, "C20: seek to a negative (wrapped) file offset");
    if (h4v_hp_fail())
        return FAIL;
    g_seek_n++;
    file_rec->f_cur_off = offset;
    return SUCCEED;
}
int HP_write(filerec_t *file_rec, const void *buf, int32 bytes)
{
    long pos = file_rec->f_cur_off;
    H4V_CHECK((file_rec->access & DFACC_WRITE) != 0, "C14: HP_write on a file opened read-only");
    H4V_CHECK(bytes >= 0 && (int64_t)pos + bytes <= INT32_MAX, "C20: write beyond the representable file offsets");
    H4V_CHECK(!g_add_session || pos >= g_L, "C17: write below the end of file of the session start");
#ifdef H4V_CBMC
    __CPROVER_assert(bytes <= 0 || __CPROVER_r_ok(buf, (size_t)bytes), "H4V: HP_write stays inside the caller's buffer");
#endif
    if (h4v_hp_fail())
        return FAIL;
    g_seq++;
    g_wr_n++;
    g_wr_off = pos;
    g_wr_len = bytes;
    if (pos < g_hp_min_wr)
        g_hp_min_wr = pos;
    if (bytes > 0 && g_offA >= pos && g_offA - pos < bytes) {
        g_seqA  = g_seq;
        if (!g_firstA) g_firstA = g_seq;
        g_byteA = ((const unsigned char *)buf)[g_offA - pos];
    }
    if (bytes > 0 && g_offB >= pos && g_offB - pos < bytes) {
        g_seqB  = g_seq;
        if (!g_firstB) g_firstB = g_seq;
        g_byteB = ((const unsigned char *)buf)[g_offB - pos];
    }
    file_rec->f_cur_off = (int32)(pos + bytes);
    return SUCCEED;
}
int HP_read(filerec_t *file_rec, void *buf, int32 bytes)
{
#ifdef H4V_CBMC
    __CPROVER_assert(bytes <= 0 || __CPROVER_w_ok(buf, (size_t)bytes), "H4V: HP_read stays inside the caller's buffer");
#endif
    H4V_CHECK(bytes >= 0, "HP_read of a negative count");
    if (h4v_hp_fail())
        return FAIL;
    if (g_img != NULL) {
        H4V_CHECK(file_rec->f_cur_off >= 0 && (long)file_rec->f_cur_off + bytes <= g_img_len, "HP_read inside the file image");
        for (int32 h4v_i = 0; h4v_i < bytes; h4v_i++)
            ((unsigned char *)buf)[h4v_i] = g_img[file_rec->f_cur_off + h4v_i];
    }
#ifdef H4V_CBMC
    else if (bytes > 0)
        __CPROVER_havoc_slice(buf, (size_t)bytes);
#endif
    g_rd_n++;
    g_rd_off = file_rec->f_cur_off;
    g_rd_len = bytes;
    file_rec->f_cur_off += bytes;
    return SUCCEED;
}
int32 HPgetdiskblock(filerec_t *file_rec, int32 block_size, int moveto)
{
    int32 ret;
    if (file_rec == NULL || block_size < 0 || block_size >= INT32_MAX - file_rec->f_end_off)
        return FAIL;
    if (h4v_hp_fail())
        return FAIL;
    ret = file_rec->f_end_off;
    if (block_size > 0) {
        if (file_rec->cache)
            file_rec->dirty |= FILE_END_DIRTY;
        else {
            unsigned char t = 0;
            file_rec->f_cur_off = ret + block_size - 1;
            if (HP_write(file_rec, &t, 1) == FAIL)
                return FAIL;
        }
    }
    if (moveto)
        file_rec->f_cur_off = ret;
    file_rec->f_end_off += block_size;
    return ret;
}
#endif

/* Native replay driver: feeds the values of a cbmc counterexample to the same harness,
   compiled against the real /repo source under ASan/UBSan. */
#include <stdio.h>
#include <stdlib.h>
#include <string.h>
int h4v_failed = 0;
static struct { char name[64]; int idx; long long v; int used; } vals[65536];
static int nvals;
long long h4v_replay_get(const char *name, int idx)
{
    for (int i = 0; i < nvals; i++)
        if (!vals[i].used && vals[i].idx == idx && strcmp(vals[i].name, name) == 0) {
            if (idx < 0) vals[i].used = 1; /* scalars are consumed in order */
            return vals[i].v;
        }
    return 0;
}
void H4V_ENTRY(void);
int main(int argc, char **argv)
{
    FILE *f = fopen(argv[1], "r");
    if (!f) return 4;
    while (nvals < 65536 && fscanf(f, "%63s %d %lld", vals[nvals].name, &vals[nvals].idx, &vals[nvals].v) == 3) nvals++;
    fclose(f);
    H4V_ENTRY();
    if (h4v_failed) { printf("H4V-REPLAY verdict: FAILED\n"); return 1; }
    printf("H4V-REPLAY verdict: passed\n");
    return 0;
}

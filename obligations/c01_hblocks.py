"""hblocks.c (linked-block elements) and hextelt.c (external elements): C01 byte streams, C02 raw locations, C13 ownership, C14"""
from .core import ob

HB = dict(unit="hblocks_u.c", file="hdf/src/hblocks.c", objbits=10,
          trusted=["H-layer sub-access stubs with ghost tiling log (units/hblocks_u.c: Hstartread/Hstartwrite/Hseek/Hread/Hwrite/Hendaccess/"
                   "Htagnewref/HTPinquire/Hstartaccess/HAatom_object; memset of the hole fill modelled as a checked byte loop)",
                   "HEpush/HEreport/HEclear (stubs/h4v_err.h)"])

ob("HLPseek", ["C01"], entry="h_HLPseek", enforce="HLPseek", cex_unwind=4, **HB)

# HLPread: one obligation per region of the input space, so that each defect fails its own obligation and the
# well-formed region stays a passing (mutant-killing) obligation.
CASES = {1: "position inside the element, all blocks of the element present", 2: "position inside the element, missing blocks (holes) allowed",
         3: "position exactly at the end of the element", 4: "position beyond the end of the element"}
for nb in (1, 2):
    for case, txt in CASES.items():
        quick = nb == 1 or case == 1
        ob(f"HLPread_c{case}_nb{nb}", ["C01"], entry="h_HLPread", enforce="HLPread", mode="bounded",
           bound=f"<= 2 block tables of number_blocks == {nb}, first_length 0..3, block_length 1..3, posn <= 8, length -1..8 "
                 f"(symbolic); {txt}; sub-access faults injected",
           unwind=5, cex_unwind=5, timeout=900, tier="quick" if quick else "thorough",
           defines=[f"H4V_NBC={nb}", "H4V_MAXPOS=8", "H4V_MAXLEN=3", f"H4V_CASE={case}"], **HB)

# HLPwrite: bounded block walk with creation of missing blocks/tables (slow: thorough tier)
for nb, nt in [(1, 3), (2, 2)]:
    ob(f"HLPwrite_nb{nb}_nt{nt}", ["C01", "C02", "C04", "C16"], entry="h_HLPwrite", enforce="HLPwrite", mode="bounded",
       bound=f"<= {nt} block tables (existing or created) of number_blocks == {nb}, first_length 0..2, block_length 1..2, posn <= 6, "
             f"length -1..6 (symbolic), missing blocks arbitrary, faults injected at every sub-access",
       unwind=5, cex_unwind=5, timeout=2400, tier="thorough", flags=["--sat-solver", "cadical"], backend="cbmc SAT (cadical)",
       defines=[f"H4V_NBC={nb}", f"H4V_NT={nt}", "H4V_MAXPOS=6", "H4V_MAXLEN=2"], **HB)

# HLconvert: ownership of the caller's access record (C13), write-access gate (C14), result of the promotion (C01/C02)
CAD = dict(flags=["--sat-solver", "cadical"], backend="cbmc SAT (cadical)")
for case, txt, tier in [(1, "valid arguments, writable file, no fault: the conversion has to succeed", "quick"),
                        (2, "file opened read-only", "quick"),
                        (3, "block_length <= 0 or number_blocks <= 0 (argument gate: FAIL, nothing created)", "quick"),
                        (0, "all arguments, read-only or writable file, faults injected at every H-layer call", "quick")]:
    ob(f"HLconvert_c{case}", ["C13", "C14"] if case == 2 else ["C13", "C01", "C02"] if case == 3 else ["C13"], entry="h_HLconvert", enforce="HLconvert", mode="bounded",
       bound=f"number_blocks == 2 (HLInewlink fill loop unwound); block_length, element offset/length, position symbolic; {txt}",
       unwind=5, cex_unwind=5, tier=tier, defines=["H4V_NBC=2", f"H4V_CASE={case}"], **CAD, **HB)

# HLgetdatainfo: raw block locations (C02)
for case, txt in [(1, "arrays hold every data block (or no arrays); no fault"), (2, "arrays smaller than the element; no fault"),
                  (3, "arrays hold every data block (or no arrays); sub-access faults injected")]:
    ob(f"HLgetdatainfo_c{case}", ["C02"], entry="h_HLgetdatainfo", enforce="HLgetdatainfo", mode="bounded",
       bound=f"<= 2 block tables of number_blocks == 2 (<= 4 data blocks), info_count <= 9; {txt}",
       unwind=6, cex_unwind=6, timeout=900, defines=["H4V_NBC=2", f"H4V_CASE={case}"], **HB)

# HLInewlink: table in memory == table on disk
ob("HLInewlink", ["C01", "C02"], entry="h_HLInewlink", enforce="HLInewlink", mode="bounded", bound="1 <= number_blocks <= 4",
   unwind=6, cex_unwind=6, defines=["H4V_NB=4"], **CAD, **HB)
# argument / write-access gate of HLcreate (HLInewlink(.., 0) overran its table while number_blocks == 0 was accepted)
ob("HLcreate_gate", ["C01", "C02", "C14"], entry="h_HLcreate_gate", enforce="HLcreate", mode="bounded",
   bound="gate region only: bad file id, block_length <= 0, number_blocks <= 0, special tag or read-only file; all values symbolic; "
         "HLcreate beyond its gates is not under contract", cex_unwind=4, **HB)

# ------------------------------------------------------------------------------------------ hextelt.c (external elements)
HX = dict(unit="hextelt_u.c", file="hdf/src/hextelt.c", objbits=10, cex_unwind=4, replace=["HXIbuildfilename"],
          trusted=["two-stream ghost disk of the external file (stubs/hextelt_stdio.h)",
                   "HAatom_object/HTPinquire/HPseek/HP_write/hi_close_stdio stubs (units/hextelt_u.c)",
                   "HXIbuildfilename replaced by the contract 'NULL or a fresh string' (file-name handling is outside the properties)",
                   "HEpush/HEreport/HEclear (stubs/h4v_err.h)"])
ob("HXPseek", ["C01"], entry="h_HXPseek", enforce="HXPseek", **HX)
for case, txt in [(1, "position inside the element, posn + length <= INT32_MAX"), (2, "position inside the element, posn + length > INT32_MAX"),
                  (3, "position exactly at the end"), (4, "position beyond the end (HXPseek allows it)"),
                  (5, "as 1, external file (re)opened first (HXIbuildfilename by contract: replay not meaningful)")]:
    ob(f"HXPread_c{case}", ["C01"], entry="h_HXPread", enforce="HXPread", mode="bounded",
       bound=f"loop-free, all integers unbounded; input region: {txt}; caller's buffer <= 4096 bytes", defines=[f"H4V_CASE={case}"], **HX)
for case, txt in [(1, "no fault, stream held is writable, write ends at a representable offset"),
                  (2, "stream held was opened read-only and/or stdio faults (retry path)"),
                  (3, "faults of the header update in the HDF file only"), (4, "write would end beyond 2^31-1"),
                  (5, "as 1, external file (re)opened first (HXIbuildfilename by contract: replay not meaningful)")]:
    ob(f"HXPwrite_c{case}", ["C01", "C14"], entry="h_HXPwrite", enforce="HXPwrite", mode="bounded",
       bound=f"loop-free, all integers unbounded; input region: {txt}; caller's buffer <= 4096 bytes; at most two streams per call",
       defines=[f"H4V_CASE={case}"], **HX)


"""C20: format limits enforced cleanly -- fixed tables and capacities (dfgroup.c group table and DI lists,
VHstoredatam order/size limits, SDcreate rank/name/variable-count limits)."""
from .core import ob

DG = dict(unit="dfgroup_u.c", file="hdf/src/dfgroup.c", overflow=True, cex_unwind=34)
# ids are ANY int32: the explicit (uint32)id casts of VALIDGID/GID2REC are flagged by --conversion-check although they are
# well-defined C, so the obligations that take an arbitrary id run without it (signed-overflow checks stay on: cbmc 6 default)
DI = dict(DG, overflow=False)
ob("dfg_setgroupREC", "C20", entry="h_setgroupREC", enforce="setgroupREC", mode="proved-finite", unwind=9, **DG)
ob("dfg_DFdiget", "C20", entry="h_DFdiget", enforce="DFdiget", mode="proved-finite", unwind=9, **DI)
ob("dfg_DFdinobj", "C20", entry="h_DFdinobj", enforce="DFdinobj", mode="proved-finite", unwind=9, **DI)
ob("dfg_DFdiput", "C20", entry="h_DFdiput", enforce="DFdiput", mode="proved-finite", unwind=9, **DI)
ob("dfg_DFdisetup", "C20", entry="h_DFdisetup", enforce="DFdisetup", mode="proved-finite", unwind=9, **DG)
ob("dfg_DFdiread", "C20", entry="h_DFdiread", enforce="DFdiread", mode="proved-finite", unwind=9, **DG)
ob("dfg_DFdiwrite", "C20", entry="h_DFdiwrite", enforce="DFdiwrite", mode="proved-finite", unwind=9, **DI)
ob("dfg_DFdifree", "C20", entry="h_DFdifree", enforce="DFdifree", mode="proved-finite", unwind=9, **DI)
ob("dfg_setup_put_limit", "C20", entry="h_setup_put_limit", mode="bounded", bound="capacity <= 2, 4 puts", unwind=9, **DG)
# the whole int domain of DFdisetup (callers pass 6, 10 or a size read from the user: hdf/util/he_main.c:726)
ob("dfg_DFdisetup_anyint", "C20", entry="h_DFdisetup", enforce="DFdisetup", mode="proved-finite", unwind=9,
   defines=["SETUP_LO=(-2147483647-1)", "SETUP_HI=2147483647"], tier="thorough", **DG)

# ---- vhi.c: VHstoredatam / VHstoredata over logging stubs that follow the proved VSfdefine contract ----
VH = dict(unit="vhi_u.c", file="hdf/src/vhi.c", overflow=True)
ob("vhi_VHstoredatam", "C20", entry="h_VHstoredatam", enforce="VHstoredatam", **VH)
ob("vhi_VHstoredata", "C20", entry="h_VHstoredata", enforce="VHstoredata", **VH)
# clauses the tree as found did not meet (D89, D92, repaired): n < 0 must fail; a refused request detaches the vdata it attached
ob("vhi_VHstoredatam_negcount", "C20", entry="h_VHstoredatam", enforce="VHstoredatam", defines=["VH_NEGCOUNT"], tier="thorough", **VH)
ob("vhi_VHstoredatam_detach", "C20", entry="h_VHstoredatam", enforce="VHstoredatam", defines=["VH_DETACH"], tier="thorough", **VH)

# ---- mfsd.c: SDcreate limits (rank, name length, number of variables) over logging stubs of the netCDF constructors ----
SD = dict(unit="lim_sd_u.c", file="mfhdf/src/mfsd.c", objbits=10, unwind=34, cex_unwind=34, mode="proved-finite",
          trusted=["NC_new_dim/NC_new_var/NC_new_array/NC_incr_array/NC_var_shape/hdf_unmap_type/DFKNTsize/Hnewref/sprintf stubs (units/lim_sd_u.c)"])
# The id arithmetic of the SD layer, ((int32)fid << 20) on an id whose bits 16..19 hold the type, overflows a signed shift on EVERY
# successful call (mfsd.c:1190), and (size_t)rank is an explicit cast: both idioms are flagged by the overflow/shift/conversion checks,
# so these obligations run without them (bounds/pointer checks stay on).
SDF = dict(SD, flags=["--no-signed-overflow-check", "--no-undefined-shift-check"])
ob("lim_SDcreate", "C20", entry="h_SDcreate", enforce="SDcreate", tier="thorough", **SDF)
ob("lim_SDcreate_lowrank", "C20", entry="h_SDcreate", enforce="SDcreate", defines=["SD_RANK_ASSUME=(rank<=2)", "SD_COV_LOW"],
   **dict(SDF, unwind=4, mode="bounded", bound="rank <= 2 (name length, variable count, negative rank: unbounded)"))
# 32 dimensions accepted / 33 with the ragged marker accepted: the 32-iteration loop costs 90-100 s under dfcc -> thorough tier
ob("lim_SDcreate_rank32", "C20", entry="h_SDcreate", enforce="SDcreate", defines=["SD_RANK_FIX=32", "SD_RANK_ASSUME=(rank==32)", "SD_COV_32"],
   tier="thorough", **SDF)
ob("lim_SDcreate_rank33", "C20", entry="h_SDcreate", enforce="SDcreate", defines=["SD_RANK_FIX=33", "SD_RANK_ASSUME=(rank==33)", "SD_COV_33"],
   tier="thorough", **SDF)
# 33 real dimensions refused (the loop is never entered: unwinding assertion; the NC_new_dim stub CHECKs it is never reached)
ob("lim_SDcreate_rank33_refused", "C20", entry="h_SDcreate", enforce="SDcreate",
   defines=["SD_RANK_FIX=33", "SD_RANK_ASSUME=(rank==33)", "SD_LAST_ASSUME=(last_dim!=SD_RAGGED)", "SD_COV_33R"], **dict(SDF, unwind=2, mode="proved"))
ob("lim_SDcreate_rank34up", "C20", entry="h_SDcreate", enforce="SDcreate", defines=["SD_RANK_ASSUME=(rank>=34)", "SD_COV_BIG"],
   **dict(SDF, unwind=2, mode="proved"))  # the dimension loop is never entered: unwinding assertion
# stricter clauses the real SDcreate does not meet (defect candidates; thorough tier so that the quick tier stays green):
#  NOVAR   a call that returns FAIL has not added a variable (fails when NC_var_shape refuses, e.g. an unlimited size in a non-first dimension)
#  MAXDIMS the dimension table never grows beyond H4_MAX_NC_DIMS (SDcreate has no such check; dim.c:103 has)
#  NODIMS  a call that returns FAIL has not added dimensions (fake dimensions stay behind when a later step refuses)
LOW = dict(SDF, unwind=4, mode="bounded", bound="rank <= 2", tier="thorough")
for _c in ("NOVAR", "MAXDIMS", "NODIMS"):
    ob(f"lim_SDcreate_strict_{_c}", "C20", entry="h_SDcreate", enforce="SDcreate",
       defines=["SD_RANK_ASSUME=(rank<=2)", "SD_COV_LOW", f"SD_STRICT_{_c}"], **LOW)

# ---- mfhdf/src/file.c: the open-file table (the limit hfile.c itself does not have) ----
ob("lim_NC_reset_maxopenfiles", "C20", entry="h_NC_reset_maxopenfiles", enforce="NC_reset_maxopenfiles", unit="lim_ncfile_u.c",
   file="mfhdf/src/file.c", mode="bounded", bound="table of <= 4 slots, request <= 6", unwind=8, cex_unwind=8, objbits=10, tier="thorough")

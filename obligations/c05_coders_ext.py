"""C05 (staging): what the byte-stream round trip depends on but had no contract yet --
   hbitio.c mode switches / Hbitseek (single-call contracts), coder seek functions, RLE state reset."""
from .core import ob

CADICAL = ["--sat-solver", "cadical"]

# ----------------------------------------------------------------------------- hbitio.c: Hbitseek, HIwrite2read, HIread2write
BSW = dict(unit="hbitio_sw_u.c", file="hdf/src/hbitio.c", objbits=10, cex_unwind=2, flags=["--arrays-uf-always"],
           trusted=["ghost element behind Hwrite/Hread/Hseek: length, position, value of ONE ghost byte; a range read is checked "
                    "for accessibility and havocked except that byte", "HAatom_object: the harness-built record for its id",
                    "A-BIT-2G: max_offset <= 2^31-1 - 2*BITBUF_SIZE"])
_SEEK = {"w_inblock": (1, "write mode, target inside the buffered block"),
         "w_full": (2, "write mode, target in another block that holds a full BITBUF_SIZE of data"),
         "w_tail": (3, "write mode, target in another block that holds fewer than BITBUF_SIZE bytes of data"),
         "r": (4, "read mode"), "badargs_w": (5, "rejected arguments, write mode"), "badargs_r": (6, "rejected arguments, read mode")}
for _n, (_d, _txt) in _SEEK.items():
    ob(f"bit_seek_{_n}", "C05", entry="h_bitseek", enforce="Hbitseek", defines=[f"SEEK_DOM={_d}"], timeout=300,
       domain=_txt, **BSW)
ob("bit_w2r_blk0", "C05", entry="h_write2read", enforce="HIwrite2read", defines=["SW_DOM=1"], timeout=300,
   domain="the first block is buffered (block_offset == 0)", **BSW)
ob("bit_w2r_blkN", "C05", entry="h_write2read", enforce="HIwrite2read", defines=["SW_DOM=2"], timeout=300,
   domain="a later block is buffered (block_offset >= BITBUF_SIZE)", **BSW)
for _n, _d in (("aligned", 1), ("afterseek", 2), ("afterread", 3)):
    ob(f"bit_r2w_{_n}", "C05", entry="h_read2write", enforce="HIread2write", defines=[f"SW_DOM={_d}"], timeout=300, **BSW)

"""C07: Vdata tables (vsfld.c, vg.c, vrw.c, vio.c); several obligations also serve C20 / C02"""
from .core import ob, prop

# ----------------------------------------------------------------------------- vsfld.c / vg.c
VSF = dict(unit="vsfld_u.c", file="hdf/src/vsfld.c",
           trusted=["scanattrs (vparse.c): FAIL or a vector of >=1 NUL-terminated tokens",
                    "HAatom_group/HAatom_object: group id / harness-built vsinstance_t or NULL"])
ob("VSfdefine", ["C07", "C20"], entry="h_VSfdefine", enforce="VSfdefine", loops=True, nloops=1, loopcls="A",
   overflow=True, defines=["H4V_ABS_STR", "NUSYM_CAP=11", "NMLEN=1"], cex_unwind=24, timeout=900,
   **dict(VSF, trusted=VSF["trusted"] + ["strcmp abstracted to an arbitrary result, strdup to NULL-or-fresh (proof mode only)"]))
NM = dict(VSF, file="hdf/src/vg.c", mode="bounded", unwind=131, cex_unwind=131,
          bound="new name length <= 128 = 2 x VSNAMELENMAX (libc string loops unwound)")
ob("VSsetname", ["C07", "C20"], entry="h_VSsetname", enforce="VSsetname", **NM)          # ~100 s
ob("VSsetclass", ["C07", "C20"], entry="h_VSsetclass", enforce="VSsetclass", tier="thorough", **NM)
# VSsetfields (bounded contract + harness h_VSsetfields_new exist in the unit): not registered -- cbmc does not
# finish within 15 min even for 2 requested fields / 1 user symbol (see the author's report).

# ----------------------------------------------------------------------------- vrw.c
VRW = dict(unit="vrw_u.c", file="hdf/src/vrw.c",
           trusted=["Hseek: logs (aid, offset, origin), answers SUCCEED/FAIL", "HAatom_group/HAatom_object: harness-built instance or NULL"])
# the byte offset is the true product: one record size per run (symbolic x symbolic is not tractable)
for w in (1, 6, 4096, 65535):
    ob(f"VSseek_w{w}", ["C07", "C20"], entry="h_VSseek", enforce="VSseek", overflow=True,
       defines=[f"VSSEEK_W={w}", "VSSEEK_FIX"], **VRW)

# vio.c vpackvs/vunpackvs round trip (units/vio_u.c, h_vpack_roundtrip): not registered -- cbmc runs out of
# memory / time even for 0 fields with concrete names (the header offsets stay symbolic through strlen).

prop("C07",
     residual="(round 3, c07_acc.py: the VF*/VS* inquiry functions per call and VSfpack bounded over constant three-field schemas are decided.)  VSsetfields offsets/ivsize, VSread/VSwrite gather-scatter, VSfpack for symbolic schemas and the vpackvs/vunpackvs round trip are NOT decided "
              "(attempted, not tractable with cbmc on this image); append across linked blocks, detach/re-attach, "
              "transfer-buffer boundary (VDATA_BUFFER_MAX); field-name parsing (vparse.c scanattrs) is a trusted stub",
     assumptions=["A-SCANATTRS: vparse.c scanattrs is not verified (trusted stub: FAIL or >= 1 NUL-terminated tokens); "
                  "by reading, 256 or more tokens overrun its static sym/symptr tables",
                  "A-REALLOC-GHOST: in VSfdefine realloc is modelled as fresh block + copy of the ghost elements (cbmc's "
                  "whole-array copy of symbolic size is not tractable)"])

"""C13/C14: Hopen (shared file record of repeated opens), the access bits every special start-access function leaves in
the access record, and the whole-chunk write gate of hchunks.c"""
from .core import ob

# ----------------------------------------------------------------------------- hfile.c: Hopen
HO = dict(unit="hopen_u.c", file="hdf/src/hfile.c", entry="h_Hopen", enforce="Hopen", replace=["HIread_version", "HIupdate_version"],
          objbits=10, cex_unwind=20,  # > number of assigns targets of the replaced contracts (dfcc inclusion-check loop)
          trusted=["two-stream stdio ghost disk (stubs/hopen_stdio.h)",
                   "HAsearch_atom (lookup of the path: finds the shared record iff the harness says so), HAregister_atom/HAremove_atom/"
                   "HAatom_object one-entry registry, HTPstart/HTPinit, HAinit_group, hfile_atexit_create, strdup (units/hopen_u.c)",
                   "HIread_version/HIupdate_version replaced by trusted contracts (units/hopen_u.c): they touch the version fields, the "
                   "seek cache and (the writer) the DD bookkeeping of the record only",
                   "HEpush/HEreport/HEPclear/HEclear (stubs/h4v_err.h)"])
ob("Hopen_again", ["C13"], defines=["H4V_CASE=1"], **HO)
ob("Hopen_upgrade", ["C13"], defines=["H4V_CASE=2"], **HO)
ob("Hopen_upgrade_view", ["C13"], defines=["H4V_CASE=3"], **HO)
ob("Hopen_upgrade_fault", ["C13"], defines=["H4V_CASE=4"], **HO)
ob("Hopen_first", ["C13"], defines=["H4V_CASE=5"], **HO)
ob("Hopen_create", ["C13"], defines=["H4V_CASE=6"], **HO)
ob("Hopen_create_vfail", ["C13"], defines=["H4V_CASE=7"], **HO)
ob("Hopen_args", ["C13"], defines=["H4V_CASE=8"], **HO)

# ----------------------------------------------------------------------------- special start-access functions
STTR = ["start-access environment (stubs/stacc_common.h): HAatom_object/HAregister_atom one-entry maps, HIgetspinfo (shared special "
        "info or none), HIrelease_accrec_node counter, HTPinquire, HPseek/HP_read, inner Hstartaccess/Hseek/Hread/Hendaccess/Hlength "
        "(CHECK: never asks for write access on a read-only file)", "HEpush/HEreport/HEPclear (stubs/h4v_err.h)"]
HXA = dict(unit="hx_access_u.c", file="hdf/src/hextelt.c", objbits=10, cex_unwind=16, trusted=STTR)
ob("HXIstaccess", ["C14", "C13"], entry="h_HXIstaccess", enforce="HXIstaccess", **HXA)
ob("HXIstaccess_owner", ["C13"], entry="h_HXIstaccess", enforce="HXIstaccess", defines=["H4V_CASE=1"], **HXA)
ob("HXPstread", ["C14", "C13"], entry="h_HXPstread", enforce="HXPstread", **HXA)
ob("HXPstwrite", ["C14", "C13"], entry="h_HXPstwrite", enforce="HXPstwrite", **HXA)
ob("HLIstaccess", ["C14", "C13"], entry="h_HLIstaccess", enforce="HLIstaccess", unit="hl_access_u.c", file="hdf/src/hblocks.c",
   replace=["HLIgetlink"], mode="bounded", bound="element with ONE block table (HLIgetlink replaced by a trusted contract: NULL, or a "
   "fresh table with nextref == 0: the loop that follows the chain of tables is not entered -- unwinding assertion), or special info shared",
   unwind=1, objbits=10, cex_unwind=16, trusted=STTR + ["HLIgetlink trusted contract (units/hl_access_u.c)"])
ob("HCIstaccess", ["C14", "C13"], entry="h_HCIstaccess", enforce="HCIstaccess", unit="hc_access_u.c", file="hdf/src/hcomp.c",
   replace=["HCIread_header", "HCIinit_model", "HCIinit_coder"], objbits=10, cex_unwind=16,
   trusted=STTR + ["HCIread_header/HCIinit_model/HCIinit_coder trusted contracts (units/hc_access_u.c): touch the special-info record only"])
ob("HMCIstaccess", ["C14", "C13"], entry="h_HMCIstaccess", enforce="HMCIstaccess", unit="hmc_access_u.c", file="hdf/src/hchunks.c",
   mode="bounded", bound="paths that do not read the chunk table: refusal, HTPinquire failure, special info shared with another access "
   "record (all loops lie on the other path: unwind=1 with unwinding assertions shows they are not reached)",
   unwind=1, objbits=10, cex_unwind=16, trusted=STTR)

# ----------------------------------------------------------------------------- hchunks.c: whole-chunk write path (C14)
from .c14_gates import C14STUBS
HMG = dict(unit="hmc_gate_u.c", file="hdf/src/hchunks.c", objbits=10, cex_unwind=6,
           trusted=C14STUBS + ["mcache_get/mcache_put/tbbtdfind/tbbtdins stubs (units/hmc_gate_u.c): CHECK 'not reached on a read-only file'",
                               "VSwrite on a Vdata attached 'r' and HCcreate on a read-only file return FAIL (proved-dependency: c14_VSwrite, c14_HCcreate)"])
# unwind=1: every loop of HMCwriteChunk lies BEHIND the gate; the unwinding assertions (always on) prove that no loop is
# entered on a file without DFACC_WRITE, so the result holds for all inputs
ob("c14_HMCwriteChunk", "C14", entry="h_HMCwriteChunk", enforce="HMCwriteChunk", unwind=1, **HMG)
# c14_HMCPchunkwrite_gate (harness h_HMCPchunkwrite stays in the unit) is NOT registered: HMCPchunkwrite has no write gate of its
# own, but it is only reached for a dirty cache page, which the proved gates of HMCwriteChunk and Hwrite exclude on a read-only
# file -- demanding a second gate there asks for more than C14 states (defence in depth only).

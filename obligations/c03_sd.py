"""C03: SDS hyperslabs (mfsd.c, putget.c, var.c)

Tool limits that shaped the modes (all measured, see the unit comments):
  * symbolic x symbolic products (record length x numrecs, dsizes x coords, stride x edge) only
    close when one factor is a constant or both sides of a comparison use literally the same
    product -> element size / record length are constants per obligation (C03_W, C03_RECLEN);
  * heap vectors of symbolic length cost ~150 K SAT variables per unwinding: rank <= 32 by
    unwinding exhausts 10 GB; the unwound obligations are bounded (rank <= 4), the loop-contract
    obligation NCcoordck covers every rank;
  * A-GUARD: see putget_u.c (pointer one before the vector is formed by the real loops).
"""
from .core import ob, prop

PG = dict(unit="putget_u.c", file="mfhdf/src/putget.c", objbits=8)
CK_TRUST = ["hdf_get_vp_aid", "Hseek", "Hwrite", "DFKconvert", "HDmemfill", "NC_arrayfill", "NC_findattr", "strstr"]

# NCcoordck: every loop closed by a loop contract, rank 1..32, any coordinates / numrecs / flags.
# Only the record length is a constant (24 bytes, 4-byte elements): numrecs*len is symbolic x symbolic.
ob("NCcoordck", "C03", entry="h_NCcoordck", enforce="H4_NCcoordck", mode="bounded",
   bound="record length 24 bytes, element size 4 (rank 1..32, coordinates, numrecs, flags unbounded; loops closed by contracts)",
   replace=["hdf_get_vp_aid"], loops=True, nloops=3, loopcls="P", unwind=34, cex_unwind=10, defines=["C03_RECLEN=24"],
   timeout=900, trusted=CK_TRUST, **PG)
# the existential direction (FALSE only for an invalid request) needs the loops unwound
ob("NCcoordck_verdict", "C03", entry="h_NCcoordck_verdict", enforce="H4_NCcoordck", mode="bounded",
   bound="rank<=4, at most 2 fill records per call, record length 24 bytes",
   replace=["hdf_get_vp_aid"], unwind=7, cex_unwind=10, defines=["MAXR=4", "C03_RECLEN=24"], timeout=900,
   trusted=CK_TRUST, **PG)

for w in (1, 2, 4, 8):
    ob(f"NC_varoffset_w{w}", "C03", entry="h_NC_varoffset", enforce="NC_varoffset", mode="bounded",
       bound=f"rank<=3, extents<=8, record index<=8, element size {w}", unwind=5, cex_unwind=10,
       defines=["MAXR=3", f"C03_W={w}"], tier="quick" if w == 4 else "thorough", **PG)
ob("NC_varoffset_inj", "C03", entry="h_NC_varoffset_inj", mode="bounded",
   bound="rank<=3, extents<=8, record index<=8, element size 4", unwind=5, cex_unwind=10,
   defines=["MAXR=3", "C03_W=4"], timeout=900, **PG)

ob("NCvcmaxcontig", "C03", entry="h_NCvcmaxcontig", enforce="NCvcmaxcontig", mode="bounded",
   bound="rank<=4 (loops unwound; rank 32 exhausts memory)", unwind=6, cex_unwind=10, defines=["MAXR=4"], **PG)

# NCgenio (strided odometer) against a logging/checking NCvario stub.  On the tree as found this
# FAILS for one reason: a request with some count == 0 still calls NCvario once (one cell is
# transferred although the request selects none).
ob("NCgenio", "C03", unit="putgetg_u.c", file="mfhdf/src/putgetg.c", entry="h_NCgenio", enforce="H4_NCgenio",
   mode="bounded", bound="rank 1..2, counts 0..2, strides 1..3, start 0..8, element size 4", unwind=8,
   cex_unwind=10, defines=["C03_W=4"], objbits=8, trusted=["NC_hlookupvar", "NCvario(stub)"])

ob("NCgenio_nonempty", "C03", unit="putgetg_u.c", file="mfhdf/src/putgetg.c", entry="h_NCgenio_nonempty",
   enforce="H4_NCgenio", mode="bounded", bound="rank 1..2, counts 1..2, strides 1..3, start 0..8, element size 4",
   unwind=8, cex_unwind=10, defines=["C03_W=4"], objbits=8, trusted=["NC_hlookupvar", "NCvario(stub)"])

GT = dict(unit="mfsd_gate_u.c", file="mfhdf/src/mfsd.c", objbits=8,
          trusted=["NC_check_id", "HCPgetcomptype", "HCget_config_info", "Hendaccess", "NCvario(stub)", "NCgenio(stub)"])
ob("SDreaddata_gate", "C03", entry="h_SDreaddata_gate", mode="bounded", bound="rank 1..4, dataset ids only",
   unwind=6, cex_unwind=10, defines=["MAXR=4"], timeout=900, **GT)
ob("SDwritedata_gate", "C03", entry="h_SDwritedata_gate", mode="bounded", bound="rank 1..4, dataset ids only",
   unwind=6, cex_unwind=10, defines=["MAXR=4"], timeout=900, **GT)
# rank-0 datasets (SDcreate accepts rank 0, NC_var_shape leaves shape == NULL).  On the tree as
# found SDreaddata_gate_scalar FAILS for one reason: mfsd.c:723 `int32 dimsize = (int32)var->shape[0]`
# is executed whenever stride != NULL (NULL dereference, native SEGV reproduced).  SDwritedata has
# no such access.
ob("SDreaddata_gate_scalar", "C03", entry="h_SDreaddata_gate_scalar", mode="bounded",
   bound="rank 0..2, dataset ids only", unwind=4, cex_unwind=10, defines=["MAXR=2"], **GT)
ob("SDwritedata_gate_scalar", "C03", entry="h_SDwritedata_gate_scalar", mode="bounded",
   bound="rank 0..2, dataset ids only", unwind=4, cex_unwind=10, defines=["MAXR=2"], **GT)

# NC_var_shape (units/var_u.c holds the contract text): NOT registered -- cbmc exhausts 10 GB during
# propositional reduction even at rank <= 2, element size 4, fresh variable only.  Residual.

prop("C03",
     residual="composition over histories of writes/reads; the NCvario odometer is decided only bounded (rank <= 2, extents <= 4, thorough tier, "
              "c03_sdio.py) and NCgenio bounded against an NCvario stub; first-write leading/trailing fill of hdf_xdr_NCvdata only for offsets <= 4 MB "
              "(bounded); type conversion in hdf_xdr_NCvdata; fill-value selection only in NC_fill_buffer and the fill kernels HDmemfill/NC_arrayfill (bounded, c03_fill.py), not in the fill-record path; position "
              "numrecs*reclen of the fill records; persistence across SDend/SDstart; netCDF/CDF file types; "
              "dimension ids passed to SDreaddata/SDwritedata; ranks above the stated bounds in the unwound "
              "obligations; NC_var_shape (dsizes/len are what NC_varoffset's contract assumes: the obligation exhausted memory and "
              "was removed, so C03_DSIZES_RM3 is an unproved assumption)",
     assumptions=["A-GUARD: every dimension vector (and every heap block NC_var_shape allocates) is preceded by "
                  "at least one addressable element: the real loops form the address one element before the "
                  "vector (`for (; ip >= boundary; ip--)`), undefined in ISO C",
                  "A-XDR/H-layer: Hseek/Hwrite/DFKconvert/HDmemfill/NC_arrayfill/NC_findattr/hdf_get_vp_aid are "
                  "fallible stubs; NCvario/NCgenio are stubs in the gate unit",
                  "SD API only: cdf_routine_name is SDreaddata/SDwritedata, file_type == HDF_FILE, "
                  "coordinates/edges/strides are int32 values, extents <= INT32_MAX"])


/* Verification unit: hdf/src/mfgr.c -- whole file
 *   C09: the bookkeeping around the raster data path: which interlace a read is asked to deliver (GRreqimageil / GRreqlutil),
 *        what an image says about itself (GRgetiminfo / GRgetnluts / GRluttoref), how an image comes into being (GRcreate), and the
 *        palette read path in the REQUESTED interlace (GRreadlut, real GRIil_convert inlined).
 * Environment (style of units/mfgr_rw_u.c): ids are atoms of a finite map (the image id, the GR id, one stale image id whose object
 * is gone); the image tree of the GR record is a ghost (tbbtdins logs the inserted item); the V layer under GRcreate is three
 * stubs that may fail; ONE palette element behind Hgetelement (its bytes g_pal[], constant length per run). */
#include "h4v.h"
#include "h4v_err.h"
#include <string.h>
#include "mfgr_priv.h"
#include "tbbt_priv.h"

H4V_DECL_ND(int32);
H4V_DECL_ND(int);
H4V_DECL_ND(uint16);
H4V_DECL_ND(uint8);
H4V_DECL_ND(char);
H4V_DECL_ND(unsigned);
H4V_DECL_ND(gr_interlace_t);

/* ---------------- constants of one run (palette geometry of the GRreadlut runs) */
#ifndef LR_NC
#define LR_NC 3
#endif
#ifndef LR_NE
#define LR_NE 4
#endif
#ifndef LR_CS
#define LR_CS 1
#endif
#if LR_CS == 1
#define LR_NT DFNT_UINT8
#elif LR_CS == 2
#define LR_NT DFNT_UINT16
#else
#define LR_NT DFNT_INT32
#endif
#define LR_BYTES (LR_NC * LR_NE * LR_CS)

#define GI_RIID 0x60000003
#define GI_GRID 0x50000002
#define GI_STALE 0x60000005 /* an id of the image group whose object is gone */
#define GI_FID 0x10000001
#define GI_VKEY 0x40000007
#define GI_NAMECAP 11 /* names of at most 10 characters */

/* ---------------- ghost environment */
ri_info_t *g_ri; /* THE image behind GI_RIID */
gr_info_t *g_gr; /* its GR file record, behind GI_GRID */
TBBT_TREE  g_grtree, g_newtree;
TBBT_NODE  g_ins_node;

struct gi_log {
    /* GRcreate */
    int        ins_n;    /* tbbtdins calls */
    ri_info_t *ins_item; /* the item inserted in the GR's image tree */
    int        ins_tree_ok;
    int        reg_n; /* HAregister_atom calls */
    void      *reg_obj;
    int        reg_grp;
    int        fault;   /* a V-layer call / tbbtdmake failed */
    int        vopen;   /* attached vgroups */
    int        mk_n;    /* tbbtdmake calls */
    /* GRreadlut */
    int    get_n;
    uint16 get_tag, get_ref;
    int    failed;
} g_lg;

int32  g_newid;    /* the atom HAregister_atom hands out */
int32  g_vref;     /* what VQueryref reports (FAIL or a ref) */
int    g_may_fail; /* callees may fail */
uint8 *g_pal;      /* the palette element's bytes (pixel interlace: the only one GRwritelut stores) */
int32  g_e, g_c, g_bb; /* ghost palette entry, component, byte of the component */
int32  g_i;            /* ghost byte of a buffer */

static int
gi_fault(void)
{
    if (g_may_fail) {
        H4V_ND(int, callee_fault);
        if (callee_fault) {
            g_lg.fault = 1;
            return 1;
        }
    }
    return 0;
}

/* ---------------- atom.c (trusted finite map) */
group_t
HAatom_group(atom_t atm)
{
    if (atm == GI_RIID || atm == GI_STALE)
        return RIIDGROUP;
    if (atm == GI_GRID)
        return GRIDGROUP;
    return BADGROUP;
}
void *
HAatom_object(atom_t atm)
{
    if (atm == GI_RIID)
        return g_ri;
    if (atm == GI_GRID)
        return g_gr;
    return NULL;
}
atom_t
HAregister_atom(group_t grp, void *object)
{
    g_lg.reg_n++;
    g_lg.reg_grp = (int)grp;
    g_lg.reg_obj = object;
    return g_newid; /* trusted: the image group exists (GRstart made it) and has room */
}

/* ---------------- number types (trusted: sizes of the types) */
int
DFKNTsize(int32 number_type)
{
    switch (number_type & 0xfff) {
        case DFNT_UCHAR8:
        case DFNT_CHAR8:
        case DFNT_INT8:
        case DFNT_UINT8:
            return 1;
        case DFNT_INT16:
        case DFNT_UINT16:
            return 2;
        case DFNT_INT32:
        case DFNT_UINT32:
        case DFNT_FLOAT32:
            return 4;
        case DFNT_FLOAT64:
            return 8;
        default:
            return FAIL;
    }
}

/* ---------------- V layer under GRcreate: a fresh Vgroup is attached only to learn its ref */
int32
Vattach(HFILEID f, int32 vgid, const char *accesstype)
{
    H4V_CHECK(f == GI_FID && vgid == -1 && accesstype != NULL && accesstype[0] == 'w', "GRcreate attaches a NEW Vgroup of the GR's file");
    if (gi_fault())
        return FAIL;
    g_lg.vopen++;
    return GI_VKEY;
}
int32
VQueryref(int32 vkey)
{
    H4V_CHECK(vkey == GI_VKEY && g_lg.vopen == 1, "VQueryref on the attached Vgroup");
    if (g_vref == FAIL)
        g_lg.fault = 1;
    return g_vref;
}
int32
Vdetach(int32 vkey)
{
    H4V_CHECK(vkey == GI_VKEY && g_lg.vopen == 1, "Vdetach on the attached Vgroup");
    g_lg.vopen--;
    if (gi_fault())
        return FAIL;
    return SUCCEED;
}

/* ---------------- tbbt: the image tree of the GR record is a ghost; the new image's attribute tree is g_newtree */
TBBT_TREE *
tbbtdmake(int (*compar)(void *, void *, int), int arg, unsigned fast_compare)
{
    (void)compar;
    (void)arg;
    (void)fast_compare;
    g_lg.mk_n++;
    if (gi_fault())
        return NULL;
    return &g_newtree;
}
TBBT_NODE *
tbbtdins(TBBT_TREE *tree, void *item, void *key)
{
    (void)key;
    g_lg.ins_n++;
    g_lg.ins_tree_ok = (tree == &g_grtree);
    g_lg.ins_item    = (ri_info_t *)item;
    g_ins_node.data  = item;
    g_ins_node.key   = item;
    return &g_ins_node;
}

/* ---------------- H layer: the palette element (LR_BYTES bytes, pixel interlace) */
int32
Hgetelement(int32 file_id, uint16 tag, uint16 ref, uint8 *data)
{
    H4V_CHECK(file_id == GI_FID, "Hgetelement on the GR's file");
    g_lg.get_n++;
    g_lg.get_tag = tag;
    g_lg.get_ref = ref;
    if (g_may_fail) {
        H4V_ND(int, h_fault);
        if (h_fault) {
            g_lg.failed = 1;
            return FAIL;
        }
    }
    memcpy(data, g_pal, LR_BYTES);
    return LR_BYTES;
}

/* names in this unit have at most 10 characters: exact, unrolled (cbmc's string models need unwinding / run out of memory) */
static int
gi_strcmp(const char *a, const char *b)
{
#define GI_S(k)                                                                                                          \
    if (a[k] != b[k])                                                                                                    \
        return (unsigned char)a[k] < (unsigned char)b[k] ? -1 : 1;                                                       \
    if (a[k] == 0)                                                                                                       \
        return 0;
    GI_S(0) GI_S(1) GI_S(2) GI_S(3) GI_S(4) GI_S(5) GI_S(6) GI_S(7) GI_S(8) GI_S(9) GI_S(10)
#undef GI_S
    return 0;
}
static size_t
gi_strlen(const char *a)
{
#define GI_L(k)                                                                                                          \
    if (a[k] == 0)                                                                                                       \
        return k;
    GI_L(0) GI_L(1) GI_L(2) GI_L(3) GI_L(4) GI_L(5) GI_L(6) GI_L(7) GI_L(8) GI_L(9)
#undef GI_L
    return 10;
}
static char *
gi_strcpy(char *d, const char *a)
{
#define GI_C(k)                                                                                                          \
    d[k] = a[k];                                                                                                         \
    if (a[k] == 0)                                                                                                       \
        return d;
    GI_C(0) GI_C(1) GI_C(2) GI_C(3) GI_C(4) GI_C(5) GI_C(6) GI_C(7) GI_C(8) GI_C(9) GI_C(10)
#undef GI_C
    return d;
}
#define strcmp gi_strcmp
#define strlen gi_strlen
#define strcpy gi_strcpy

#include "mfgr.c"

#undef strcmp
#undef strlen
#undef strcpy

/* ---------------- contract vocabulary */
/* interlace address maps (copied from units/mfgr_u.c; element index in components) */
#define IL_PIXEL_IDX(x, y, c, xd, yd, nc) (((y) * (xd) + (x)) * (nc) + (c))
#define IL_LINE_IDX(x, y, c, xd, yd, nc) (((y) * (nc) + (c)) * (xd) + (x))
#define IL_COMP_IDX(x, y, c, xd, yd, nc) (((c) * (yd) + (y)) * (xd) + (x))
#define IL_IDX(il, x, y, c, xd, yd, nc)                                                                                  \
    ((il) == MFGR_INTERLACE_PIXEL  ? IL_PIXEL_IDX(x, y, c, xd, yd, nc)                                                    \
     : (il) == MFGR_INTERLACE_LINE ? IL_LINE_IDX(x, y, c, xd, yd, nc)                                                     \
                                   : IL_COMP_IDX(x, y, c, xd, yd, nc))
#define IL_VALID(il) ((il) == MFGR_INTERLACE_PIXEL || (il) == MFGR_INTERLACE_LINE || (il) == MFGR_INTERLACE_COMPONENT)
#define LUT_NONE(r) ((r)->lut_tag == DFTAG_NULL || (r)->lut_ref == DFREF_WILDCARD)
/* representation invariant of the palette link: no tag <=> no ref */
#define LUT_WF(r) ((((r)->lut_tag == DFTAG_NULL || (r)->lut_tag == 0) && (r)->lut_ref == DFREF_WILDCARD) ||              \
                   ((r)->lut_tag != DFTAG_NULL && (r)->lut_tag != 0 && (r)->lut_ref != DFREF_WILDCARD))

/* ---- GRreqimageil / GRreqlutil: exactly the requested interlace is stored for the next read; anything else is refused and
   nothing changes (the frame is the assigns clause: one field) */
#define REQ_OK (riid == GI_RIID && il >= (int)MFGR_INTERLACE_PIXEL && il <= (int)MFGR_INTERLACE_COMPONENT)
int GRreqimageil(int32 riid, int il)
    __CPROVER_requires(g_ri != NULL)
    __CPROVER_assigns(g_ri->im_il)
    __CPROVER_ensures(__CPROVER_return_value == (REQ_OK ? SUCCEED : FAIL))
    __CPROVER_ensures(__CPROVER_return_value == FAIL || (int)g_ri->im_il == il)
    __CPROVER_ensures(__CPROVER_return_value == SUCCEED || g_ri->im_il == __CPROVER_old(g_ri->im_il));

int GRreqlutil(int32 riid, int il)
    __CPROVER_requires(g_ri != NULL)
    __CPROVER_assigns(g_ri->lut_il)
    __CPROVER_ensures(__CPROVER_return_value == (REQ_OK ? SUCCEED : FAIL))
    __CPROVER_ensures(__CPROVER_return_value == FAIL || (int)g_ri->lut_il == il)
    __CPROVER_ensures(__CPROVER_return_value == SUCCEED || g_ri->lut_il == __CPROVER_old(g_ri->lut_il));

/* ---- GRgetiminfo: every non-NULL output gets exactly the field of the image record, NULL outputs are skipped, the image is
   not touched (frame), a bad id is refused (outputs untouched: checked in the harness) */
int GRgetiminfo(int32 riid, char *name, int32 *ncomp, int32 *nt, int32 *il, int32 dimsizes[2], int32 *n_attr)
    __CPROVER_requires(g_ri != NULL && g_ri->name != NULL)
    __CPROVER_assigns(name != NULL: __CPROVER_object_upto(name, GI_NAMECAP); ncomp != NULL: *ncomp; nt != NULL: *nt; il != NULL: *il;
                      dimsizes != NULL: dimsizes[0], dimsizes[1]; n_attr != NULL: *n_attr)
    __CPROVER_ensures(__CPROVER_return_value == (riid == GI_RIID ? SUCCEED : FAIL))
    __CPROVER_ensures(__CPROVER_return_value == FAIL || name == NULL || gi_strcmp(name, g_ri->name) == 0)
    __CPROVER_ensures(__CPROVER_return_value == FAIL || ncomp == NULL || *ncomp == g_ri->img_dim.ncomps)
    __CPROVER_ensures(__CPROVER_return_value == FAIL || nt == NULL || *nt == g_ri->img_dim.nt)
    __CPROVER_ensures(__CPROVER_return_value == FAIL || il == NULL || *il == (int32)g_ri->img_dim.il)
    /* dimension index 0 is X (columns), 1 is Y (rows): the convention of GRcreate / GRreadimage */
    __CPROVER_ensures(__CPROVER_return_value == FAIL || dimsizes == NULL ||
                      (dimsizes[0] == g_ri->img_dim.xdim && dimsizes[1] == g_ri->img_dim.ydim))
    __CPROVER_ensures(__CPROVER_return_value == FAIL || n_attr == NULL || *n_attr == g_ri->lattr_count);

/* ---- GRgetnluts / GRluttoref: 1 and the palette's ref exactly when the image has a palette (the same notion of "has a
   palette" as GRreadlut / GRwritelut / GRgetlutinfo), 0 otherwise; bad id: FAIL resp. 0 */
int GRgetnluts(int32 riid)
    __CPROVER_requires(g_ri != NULL && LUT_WF(g_ri))
    __CPROVER_assigns()
    __CPROVER_ensures(__CPROVER_return_value == (riid != GI_RIID ? FAIL : LUT_NONE(g_ri) ? 0 : 1));

uint16 GRluttoref(int32 lutid)
    __CPROVER_requires(g_ri != NULL && LUT_WF(g_ri))
    __CPROVER_assigns()
    __CPROVER_ensures(__CPROVER_return_value == (lutid != GI_RIID ? 0 : g_ri->lut_ref))
    __CPROVER_ensures(lutid != GI_RIID || (__CPROVER_return_value != 0) == !LUT_NONE(g_ri));

/* ---- GRcreate */
#define CR_ARGS_OK                                                                                                       \
    (grid == GI_GRID && name != NULL && ncomp >= 1 && IL_VALID(il) && dimsizes != NULL && dimsizes[0] >= 1 &&            \
     dimsizes[1] >= 1 && DFKNTsize(nt) != FAIL)
#define CR_NEW (g_lg.ins_item)
int32 GRcreate(int32 grid, const char *name, int32 ncomp, int32 nt, int32 il, int32 dimsizes[2])
    __CPROVER_requires(g_gr != NULL && g_gr->grtree == &g_grtree && g_gr->gr_count >= 0 && g_gr->gr_count < 65535)
    __CPROVER_requires(g_lg.ins_n == 0 && g_lg.reg_n == 0 && g_lg.fault == 0 && g_lg.vopen == 0 && g_newid != FAIL)
    __CPROVER_assigns(g_lg, g_ins_node; g_gr->gr_count, g_gr->gr_modified)
    __CPROVER_ensures(__CPROVER_return_value == FAIL || __CPROVER_return_value == g_newid)
    /* invalid arguments (no components, unknown interlace, empty dimensions, unknown number type, bad id) are refused */
    __CPROVER_ensures(CR_ARGS_OK || __CPROVER_return_value == FAIL)
    /* FAIL: no image added, the GR record as before */
    __CPROVER_ensures(__CPROVER_return_value != FAIL ||
                      (g_lg.ins_n == 0 && g_lg.reg_n == 0 && g_gr->gr_count == __CPROVER_old(g_gr->gr_count) &&
                       g_gr->gr_modified == __CPROVER_old(g_gr->gr_modified)))
    /* the Vgroup attached to reserve a ref is detached again */
    __CPROVER_ensures(g_lg.vopen == 0 || g_lg.fault)
    /* valid arguments and no failure underneath: the image is created */
    __CPROVER_ensures(!CR_ARGS_OK || g_lg.fault || __CPROVER_return_value != FAIL)
    /* success: ONE new image in the GR's tree, registered under the returned id, with the next index; the GR record counts it
       and is marked modified */
    __CPROVER_ensures(__CPROVER_return_value == FAIL ||
                      (g_lg.ins_n == 1 && g_lg.ins_tree_ok && g_lg.reg_n == 1 && g_lg.reg_grp == (int)RIIDGROUP &&
                       g_lg.reg_obj == (void *)CR_NEW && CR_NEW != NULL && CR_NEW->index == __CPROVER_old(g_gr->gr_count) &&
                       g_gr->gr_count == __CPROVER_old(g_gr->gr_count) + 1 && g_gr->gr_modified == TRUE && CR_NEW->gr_ptr == g_gr))
    /* ... with exactly the requested geometry (what GRgetiminfo reports), dimension 0 = columns */
    __CPROVER_ensures(__CPROVER_return_value == FAIL ||
                      (CR_NEW->img_dim.xdim == dimsizes[0] && CR_NEW->img_dim.ydim == dimsizes[1] && CR_NEW->img_dim.ncomps == ncomp &&
                       CR_NEW->img_dim.nt == nt && (int32)CR_NEW->img_dim.il == il && CR_NEW->name != NULL &&
                       gi_strcmp(CR_NEW->name, name) == 0 && CR_NEW->lattr_count == 0))
    /* ... reads deliver pixel interlace until asked otherwise; no data, no palette yet; to be written at GRend; unwritten
       pixels will be filled; the RI Vgroup ref is the reserved one */
    __CPROVER_ensures(__CPROVER_return_value == FAIL ||
                      (CR_NEW->im_il == MFGR_INTERLACE_PIXEL && CR_NEW->lut_il == MFGR_INTERLACE_PIXEL && LUT_NONE(CR_NEW) &&
                       CR_NEW->img_ref == DFREF_WILDCARD && CR_NEW->img_aid == 0 && CR_NEW->meta_modified == TRUE &&
                       CR_NEW->data_modified == FALSE && CR_NEW->fill_img == TRUE && CR_NEW->fill_value == NULL &&
                       CR_NEW->comp_img == FALSE && CR_NEW->lattree == &g_newtree && CR_NEW->access == 1 &&
                       CR_NEW->ri_ref == (uint16)g_vref));

/* ---- GRreadlut: the palette entries arrive in the REQUESTED interlace (lut_il).  The palette element holds LR_NE entries of
   LR_NC components in pixel interlace; mfgr.c treats a palette as an image of ONE column and LR_NE rows (count[XDIM] = 1,
   count[YDIM] = entries), so byte g_bb of component g_c of entry g_e lands at IL_IDX(lut_il, 0, g_e, g_c, 1, LR_NE, LR_NC). */
#define LR_ARGS_OK (lutid == GI_RIID && data != NULL)
#define LR_SRC ((g_e * LR_NC + g_c) * LR_CS + g_bb)
#define LR_DST (IL_IDX(g_ri->lut_il, 0, g_e, g_c, 1, LR_NE, LR_NC) * LR_CS + g_bb)
int GRreadlut(int32 lutid, void *data)
    __CPROVER_requires(g_ri != NULL && g_ri->gr_ptr == g_gr && g_gr != NULL && IL_VALID(g_ri->lut_il) && g_pal != NULL)
    __CPROVER_requires(0 <= g_e && g_e < LR_NE && 0 <= g_c && g_c < LR_NC && 0 <= g_bb && g_bb < LR_CS)
    __CPROVER_requires(g_lg.get_n == 0 && g_lg.failed == 0)
    __CPROVER_assigns(g_lg; data != NULL: __CPROVER_object_upto(data, LR_BYTES))
    __CPROVER_ensures(__CPROVER_return_value == SUCCEED || __CPROVER_return_value == FAIL)
    __CPROVER_ensures(LR_ARGS_OK || (__CPROVER_return_value == FAIL && g_lg.get_n == 0))
    __CPROVER_ensures(!g_lg.failed || __CPROVER_return_value == FAIL)
    /* (allocation failure is outside the domain: A-ALLOC) */
    __CPROVER_ensures(!LR_ARGS_OK || g_lg.failed || __CPROVER_return_value == SUCCEED)
    /* the image's palette element is the one read, once */
    __CPROVER_ensures(__CPROVER_return_value == FAIL || LUT_NONE(g_ri) ||
                      (g_lg.get_n == 1 && g_lg.get_tag == g_ri->lut_tag && g_lg.get_ref == g_ri->lut_ref))
    __CPROVER_ensures(!LUT_NONE(g_ri) || g_lg.get_n == 0)
    /* which source byte lands where */
    __CPROVER_ensures(__CPROVER_return_value == FAIL || LUT_NONE(g_ri) || ((const uint8 *)data)[LR_DST] == g_pal[LR_SRC]);

#ifdef H4V_NATIVE
#include "h4v_native_wrap.h"
#endif

/* ---------------- harnesses ---------------- */
static char g_ri_name[GI_NAMECAP];
/* a string of at most 10 arbitrary characters (named one by one for the native replay) */
#define GI_ND_CH(a, p, k)                                                                                                \
    H4V_ND(char, p##k);                                                                                                  \
    a[k] = p##k
#define GI_ND_NAME(a, p)                                                                                                 \
    GI_ND_CH(a, p, 0); GI_ND_CH(a, p, 1); GI_ND_CH(a, p, 2); GI_ND_CH(a, p, 3); GI_ND_CH(a, p, 4);                        \
    GI_ND_CH(a, p, 5); GI_ND_CH(a, p, 6); GI_ND_CH(a, p, 7); GI_ND_CH(a, p, 8); GI_ND_CH(a, p, 9);                        \
    a[GI_NAMECAP - 1] = 0

static void
mk_ghosts(void)
{
    H4V_HAVOC(int32, g_e);
    H4V_HAVOC(int32, g_c);
    H4V_HAVOC(int32, g_bb);
    H4V_HAVOC(int32, g_i);
    H4V_HAVOC(int32, g_newid);
    H4V_HAVOC(int32, g_vref);
    H4V_HAVOC(int, g_may_fail);
    memset(&g_lg, 0, sizeof g_lg);
    g_pal = NULL;
    H4V_ASSUME(g_newid != FAIL);
    H4V_ASSUME(g_vref == FAIL || (g_vref >= 1 && g_vref <= 65535));
#ifdef GI_NOFAULT
    H4V_ASSUME(g_may_fail == 0 && g_vref != FAIL);
#endif
}

/* the image and its GR record: arbitrary contents of every field the functions under contract read */
static void
mk_image(void)
{
    /* typed static objects (field-sensitive in cbmc; a calloc'ed struct is a byte array there) */
    static gr_info_t gr_obj;
    static ri_info_t ri_obj;
    g_gr = &gr_obj;
    g_ri = &ri_obj;
    H4V_ND(unsigned, gr_modified0);
    H4V_ND(int32, gr_count0);
    H4V_ND(int32, im_xdim);
    H4V_ND(int32, im_ydim);
    H4V_ND(int32, im_ncomps);
    H4V_ND(int32, im_nt);
    H4V_ND(gr_interlace_t, im_dil);
    H4V_ND(gr_interlace_t, im_il0);
    H4V_ND(gr_interlace_t, lut_il0);
    H4V_ND(int32, lattr_count0);
    H4V_ND(uint16, lut_tag0);
    H4V_ND(uint16, lut_ref0);
    H4V_ND(int32, ri_index0);
    H4V_ASSUME(gr_modified0 <= 1 && gr_count0 >= 0 && gr_count0 < 65535);
    H4V_ASSUME(IL_VALID(im_dil) && IL_VALID(im_il0) && IL_VALID(lut_il0));
    g_gr->hdf_file_id   = GI_FID;
    g_gr->gr_modified   = gr_modified0;
    g_gr->gr_count      = gr_count0;
    g_gr->grtree        = &g_grtree;
    g_gr->attr_cache    = 2048;
    g_gr->access        = 1;
    g_ri->index         = ri_index0;
    g_ri->gr_ptr        = g_gr;
    g_ri->access        = 1;
    g_ri->img_dim.xdim   = im_xdim;
    g_ri->img_dim.ydim   = im_ydim;
    g_ri->img_dim.ncomps = im_ncomps;
    g_ri->img_dim.nt     = im_nt;
    g_ri->img_dim.il     = im_dil;
    g_ri->lattr_count    = lattr_count0;
    g_ri->im_il          = im_il0;
    g_ri->lut_il         = lut_il0;
    /* no palette: new image (0, 0) / (DFTAG_NULL, 0); palette: a tag + a ref */
    g_ri->lut_tag = lut_tag0;
    g_ri->lut_ref = lut_ref0;
    H4V_ASSUME(LUT_WF(g_ri));
    /* the image's name: a string of at most 10 characters */
    GI_ND_NAME(g_ri_name, ri_name_);
    g_ri->name                = g_ri_name;
}

void
h_GRreqimageil(void)
{
    mk_ghosts();
    mk_image();
    H4V_ND(int32, riid);
    H4V_ND(int, il);
    gr_interlace_t o_lut_il = g_ri->lut_il;
    int            r        = GRreqimageil(riid, il);
    H4V_CHECK(g_ri->lut_il == o_lut_il, "GRreqimageil leaves the palette's read interlace alone");
    H4V_COVER(r == SUCCEED && il == (int)MFGR_INTERLACE_COMPONENT, "reqimageil component");
    H4V_COVER(r == SUCCEED && il == (int)MFGR_INTERLACE_PIXEL, "reqimageil pixel");
    H4V_COVER(r == FAIL && riid == GI_RIID && il == 3, "reqimageil il = 3 refused");
    H4V_COVER(r == FAIL && riid == GI_RIID && il == -1, "reqimageil il = -1 refused");
    H4V_COVER(r == FAIL && riid == GI_STALE, "reqimageil stale id");
    H4V_COVER(r == FAIL && riid == GI_GRID, "reqimageil GR id");
    H4V_CANARY("GRreqimageil end");
}

void
h_GRreqlutil(void)
{
    mk_ghosts();
    mk_image();
    H4V_ND(int32, riid);
    H4V_ND(int, il);
    gr_interlace_t o_im_il = g_ri->im_il;
    int            r       = GRreqlutil(riid, il);
    H4V_CHECK(g_ri->im_il == o_im_il, "GRreqlutil leaves the image's read interlace alone");
    H4V_COVER(r == SUCCEED && il == (int)MFGR_INTERLACE_LINE, "reqlutil line");
    H4V_COVER(r == FAIL && riid == GI_RIID && il == 3, "reqlutil il = 3 refused");
    H4V_COVER(r == FAIL && riid == GI_STALE, "reqlutil stale id");
    H4V_CANARY("GRreqlutil end");
}

void
h_GRgetiminfo(void)
{
    mk_ghosts();
    mk_image();
    H4V_ND(int32, riid);
    H4V_ND(int, name_null);
    H4V_ND(int, ncomp_null);
    H4V_ND(int, nt_null);
    H4V_ND(int, il_null);
    H4V_ND(int, dims_null);
    H4V_ND(int, nattr_null);
    static char  o_name[GI_NAMECAP];
    static int32 o_dims[2];
    int32        o_ncomp = -7, o_nt = -7, o_il = -7, o_nattr = -7;
    o_dims[0] = o_dims[1] = -7;
    o_name[0]             = 'q';
    int r = GRgetiminfo(riid, name_null ? NULL : o_name, ncomp_null ? NULL : &o_ncomp, nt_null ? NULL : &o_nt, il_null ? NULL : &o_il,
                        dims_null ? NULL : o_dims, nattr_null ? NULL : &o_nattr);
    H4V_CHECK(r == SUCCEED || (o_ncomp == -7 && o_nt == -7 && o_il == -7 && o_nattr == -7 && o_dims[0] == -7 && o_dims[1] == -7 &&
                               o_name[0] == 'q'),
              "GRgetiminfo: a refused call writes no output");
    H4V_COVER(r == SUCCEED && !name_null && !dims_null && o_dims[0] != o_dims[1] && o_name[3] != 0, "getiminfo all outputs");
    H4V_COVER(r == SUCCEED && name_null && dims_null && ncomp_null, "getiminfo NULL outputs");
    H4V_COVER(r == FAIL && riid == GI_STALE, "getiminfo stale id");
    H4V_CANARY("GRgetiminfo end");
}

void
h_GRgetnluts(void)
{
    mk_ghosts();
    mk_image();
    H4V_ND(int32, riid);
    int r = GRgetnluts(riid);
    H4V_COVER(r == 0, "getnluts 0");
    H4V_COVER(r == 1, "getnluts 1");
    H4V_COVER(r == FAIL && riid == GI_STALE, "getnluts stale id");
    H4V_CANARY("GRgetnluts end");
}

void
h_GRluttoref(void)
{
    mk_ghosts();
    mk_image();
    H4V_ND(int32, lutid);
    uint16 r = GRluttoref(lutid);
    H4V_COVER(r != 0, "luttoref ref");
    H4V_COVER(r == 0 && lutid == GI_RIID, "luttoref no palette");
    H4V_COVER(r == 0 && lutid == GI_STALE, "luttoref stale id");
    H4V_CANARY("GRluttoref end");
}

void
h_GRcreate(void)
{
    mk_ghosts();
    mk_image();
    H4V_ND(int32, grid);
    H4V_ND(int32, ncomp);
    H4V_ND(int32, nt);
    H4V_ND(int32, il);
    H4V_ND(int32, dim0);
    H4V_ND(int32, dim1);
    H4V_ND(int, name_null);
    H4V_ND(int, dims_null);
    static char  nm[GI_NAMECAP];
    static int32 dims[2];
    GI_ND_NAME(nm, nm_);
    dims[0]            = dim0;
    dims[1]            = dim1;
#ifdef CR_BADNT
    H4V_ASSUME(DFKNTsize(nt) == FAIL);
#else
    H4V_ASSUME(DFKNTsize(nt) != FAIL);
#endif
    int32 r = GRcreate(grid, name_null ? NULL : nm, ncomp, nt, il, dims_null ? NULL : dims);
    H4V_CHECK(dims[0] == dim0 && dims[1] == dim1, "GRcreate leaves the caller's dimension array alone");
#ifndef CR_BADNT
    H4V_COVER(r != FAIL && dim0 != dim1 && ncomp == 3 && il == MFGR_INTERLACE_LINE && nm[2] != 0, "create success");
    H4V_COVER(r != FAIL && nm[0] == 0, "create with an empty name");
    H4V_COVER(r == FAIL && grid == GI_GRID && !name_null && !dims_null && ncomp == 0, "create ncomp 0 refused");
    H4V_COVER(r == FAIL && grid == GI_GRID && !name_null && !dims_null && ncomp == 1 && il == 3, "create il 3 refused");
    H4V_COVER(r == FAIL && grid == GI_GRID && !name_null && !dims_null && ncomp == 1 && IL_VALID(il) && dim0 == 0, "create dim 0 refused");
    H4V_COVER(r == FAIL && grid == GI_RIID, "create on an image id refused");
#ifndef GI_NOFAULT
    H4V_COVER(r == FAIL && g_lg.fault, "create: failure underneath");
#endif
#endif
    H4V_CANARY("GRcreate end");
}

/* created, then asked: GRgetiminfo on the new image reports the arguments of GRcreate (real GRcreate, then real GRgetiminfo on
   the record it built) */
void
h_create_info(void)
{
    mk_ghosts();
    mk_image();
    H4V_ND(int32, ncomp);
    H4V_ND(int32, nt);
    H4V_ND(int32, il);
    H4V_ND(int32, dim0);
    H4V_ND(int32, dim1);
    static char  nm[GI_NAMECAP], q_name[GI_NAMECAP];
    static int32 dims[2], q_dims[2];
    GI_ND_NAME(nm, nm_);
    dims[0]            = dim0;
    dims[1]            = dim1;
    int32 o_count      = g_gr->gr_count;
    int32 r            = GRcreate(GI_GRID, nm, ncomp, nt, il, dims);
    if (r != FAIL) {
        int32 q_ncomp = -7, q_nt = -7, q_il = -7, q_nattr = -7;
        g_ri   = g_lg.ins_item; /* the id now maps to the new image */
        int r2 = GRgetiminfo(GI_RIID, q_name, &q_ncomp, &q_nt, &q_il, q_dims, &q_nattr);
        H4V_CHECK(r2 == SUCCEED, "create/info: the new image answers");
        H4V_CHECK(q_ncomp == ncomp && q_nt == nt && q_il == il && q_dims[0] == dim0 && q_dims[1] == dim1 && q_nattr == 0 &&
                      gi_strcmp(q_name, nm) == 0,
                  "create/info: GRgetiminfo reports the arguments of GRcreate");
        H4V_CHECK(g_ri->index == o_count && GRgetnluts(GI_RIID) == 0 && GRluttoref(GI_RIID) == 0,
                  "create/info: next index, no palette");
        H4V_COVER(dim0 == 5 && dim1 == 2 && ncomp == 4 && il == MFGR_INTERLACE_COMPONENT, "create/info 5x2x4 component");
    }
    H4V_CANARY("create_info end");
}

/* ---- palettes */
/* buffer with arbitrary contents (copied from units/mfgr_rw_u.c): in counterexample mode the named element values come from
   one nondet struct and are copied without a loop */
#if defined(H4V_CBMC) && defined(H4V_CEX)
#define GI_ND_BUF(T, p, n, CAP)                                                                                          \
    T *p = malloc((size_t)(n) * sizeof(T));                                                                              \
    __CPROVER_assume(p != NULL);                                                                                         \
    struct h4v_nb_##p { T a[CAP]; };                                                                                     \
    struct h4v_nb_##p nondet_h4v_nb_##p(void);                                                                           \
    struct h4v_nb_##p p##_nd = nondet_h4v_nb_##p();                                                                      \
    memcpy(p, p##_nd.a, (size_t)(n) * sizeof(T))
#else
#define GI_ND_BUF(T, p, n, CAP) H4V_ND_BUF(T, p, n, CAP)
#endif

static void
mk_lut(void)
{
    mk_image();
    /* (constants are stored unconditionally where the run fixes them: symbolic execution then folds the loop bounds of
       GRIil_convert and prunes the interlace switch) */
#ifdef LR_HASLUT
    H4V_ASSUME(!LUT_NONE(g_ri));
#endif
#ifdef LR_NOLUT
    H4V_ASSUME(LUT_NONE(g_ri));
#endif
#if defined(LR_HASLUT)
    g_ri->lut_dim.ncomps = LR_NC;
    g_ri->lut_dim.xdim   = LR_NE;
    g_ri->lut_dim.ydim   = 1;
    g_ri->lut_dim.nt     = LR_NT;
#elif defined(LR_NOLUT)
    /* what GRcreate / the file reader leave behind */
    g_ri->lut_dim.ncomps = 0;
    g_ri->lut_dim.xdim   = 0;
    g_ri->lut_dim.ydim   = 0;
    g_ri->lut_dim.nt     = 0;
#else
    if (!LUT_NONE(g_ri)) {
        g_ri->lut_dim.ncomps = LR_NC;
        g_ri->lut_dim.xdim   = LR_NE;
        g_ri->lut_dim.ydim   = 1;
        g_ri->lut_dim.nt     = LR_NT;
    }
    else {
        g_ri->lut_dim.ncomps = 0;
        g_ri->lut_dim.xdim   = 0;
        g_ri->lut_dim.ydim   = 0;
        g_ri->lut_dim.nt     = 0;
    }
#endif
    g_ri->lut_dim.il = MFGR_INTERLACE_PIXEL;
#ifdef LR_IL
    g_ri->lut_il = (gr_interlace_t)LR_IL;
#endif
}

void
h_GRreadlut(void)
{
    mk_ghosts();
    mk_lut();
#ifdef LR_GOODID
    /* the image's id as a constant: HAatom_object then folds to the image record and the interlace switch / loop bounds of
       GRIil_convert become constants of the run (other ids: obligations without LR_GOODID) */
    int32 lutid = GI_RIID;
#else
    H4V_ND(int32, lutid);
#endif
    H4V_ND(int, data_null);
    GI_ND_BUF(uint8, pal, LR_BYTES, LR_BYTES);
    GI_ND_BUF(uint8, back, LR_BYTES, LR_BYTES);
    g_pal = pal;
    H4V_ASSUME(g_i >= 0 && g_i < LR_BYTES);
    uint8 o_back = back[g_i];
    int   r      = GRreadlut(lutid, data_null ? NULL : back);
    H4V_CHECK(r == SUCCEED || back[g_i] == o_back, "GRreadlut: a refused or failed call leaves the caller's buffer alone");
    H4V_CHECK(!LUT_NONE(g_ri) || back[g_i] == o_back, "GRreadlut: no palette, nothing delivered");
#ifndef LR_NOLUT
    H4V_COVER(r == SUCCEED && !LUT_NONE(g_ri), "readlut: palette delivered");
    H4V_COVER(r == FAIL && lutid == GI_RIID && !data_null, "readlut: I/O failure");
#endif
#ifndef LR_HASLUT
    H4V_COVER(r == SUCCEED && LUT_NONE(g_ri) && g_ri->lut_il == MFGR_INTERLACE_COMPONENT, "readlut: no palette");
#endif
#ifndef LR_GOODID
    H4V_COVER(r == FAIL && lutid == GI_STALE, "readlut: stale id");
    H4V_COVER(r == FAIL && lutid == GI_GRID, "readlut: GR id");
#endif
    H4V_COVER(r == FAIL && lutid == GI_RIID && data_null, "readlut: no buffer");
    H4V_CANARY("GRreadlut end");
}

/* asked for an interlace, then read: the entries arrive in the interlace GRreqlutil was given; a refused request changes nothing
   (real GRreqlutil, then real GRreadlut) */
void
h_lut_req_read(void)
{
    mk_ghosts();
    mk_lut();
    H4V_ND(int, il);
    GI_ND_BUF(uint8, rq_pal, LR_BYTES, LR_BYTES);
    GI_ND_BUF(uint8, rq_back, LR_BYTES, LR_BYTES);
    g_pal = rq_pal;
    H4V_ASSUME(!LUT_NONE(g_ri));
    H4V_ASSUME(0 <= g_e && g_e < LR_NE && 0 <= g_c && g_c < LR_NC && 0 <= g_bb && g_bb < LR_CS);
    int o_il = (int)g_ri->lut_il;
    int r1   = GRreqlutil(GI_RIID, il);
    int r2   = GRreadlut(GI_RIID, rq_back);
    int eff  = (r1 == SUCCEED) ? il : o_il;
    H4V_CHECK(r2 == FAIL || rq_back[IL_IDX(eff, 0, g_e, g_c, 1, LR_NE, LR_NC) * LR_CS + g_bb] == rq_pal[LR_SRC],
              "req/read: the palette arrives in the interlace last requested successfully");
    H4V_CHECK((r1 == SUCCEED) == (il >= 0 && il <= 2), "req/read: exactly the three interlaces are accepted");
    H4V_COVER(r1 == SUCCEED && r2 == SUCCEED && il == (int)MFGR_INTERLACE_COMPONENT && o_il == (int)MFGR_INTERLACE_PIXEL,
              "req/read component");
    H4V_COVER(r1 == FAIL && r2 == SUCCEED && o_il == (int)MFGR_INTERLACE_COMPONENT, "req/read refused request, old interlace");
    H4V_CANARY("lut_req_read end");
}

"""H layer: hfile.c (C01 byte streams, C16 fault propagation, C14, C17, C20, C13)"""
from .core import ob, prop

HF = dict(unit="hfile_u.c", file="hdf/src/hfile.c", objbits=10, cex_unwind=10,
          trusted=["stdio ghost disk (stubs/h4v_stdio.h)", "HAatom_object/HTPinquire/HTPupdate/HLconvert stubs (units/hfile_u.c)",
                   "HEpush/HEreport/HEPclear (stubs/h4v_err.h)"])
ob("HPseek", ["C16", "C01"], entry="h_HPseek", enforce="HPseek", overflow=True, **HF)
ob("HP_read", ["C16", "C01", "C20"], entry="h_HP_read", enforce="HP_read", overflow=True, **HF)
ob("HP_write", ["C16", "C01", "C14", "C20"], entry="h_HP_write", enforce="HP_write", overflow=True, **HF)
ob("Hread", ["C01", "C16", "C20"], entry="h_Hread", enforce="Hread", overflow=True, **HF)
ob("Hseek", ["C01"], entry="h_Hseek", enforce="Hseek", rec=True, **HF)
ob("Htell", ["C01"], entry="h_Htell", enforce="Htell", **HF)
ob("Hwrite", ["C01", "C14", "C16", "C17", "C20"], entry="h_Hwrite", enforce="Hwrite", rec=True, overflow=True, **HF)
ob("Htrunc", ["C01"], entry="h_Htrunc", enforce="Htrunc", **HF)
ob("HPgetdiskblock", ["C01", "C02", "C16", "C17", "C20"], entry="h_HPgetdiskblock", enforce="HPgetdiskblock", overflow=True, **HF)
ob("Hsetlength", ["C01", "C16", "C20"], entry="h_Hsetlength", enforce="Hsetlength", overflow=True, **HF)
ob("HIextend_file", ["C16", "C17"], entry="h_HIextend_file", enforce="HIextend_file", overflow=True, **HF)
ob("HIrelease_accrec_node", ["C13"], entry="h_HIrelease_accrec_node", enforce="HIrelease_accrec_node", **HF)
ob("hi_close_stdio", ["C16"], entry="h_hi_close_stdio", enforce="hi_close_stdio", **HF)
ob("Hstartaccess", ["C13", "C14"], entry="h_Hstartaccess", enforce="Hstartaccess", replace=["HIrelease_accrec_node"], **HF)
ob("Hendaccess", ["C13"], entry="h_Hendaccess", enforce="Hendaccess", replace=["HIrelease_accrec_node"], **HF)
ob("HPcompare_accrec_tagref", ["C01", "C13"], entry="h_HPcompare_accrec_tagref", enforce="HPcompare_accrec_tagref", **HF)
ob("HIsync", ["C16", "C17"], entry="h_HIsync", enforce="HIsync", **HF)
ob("Hclose", ["C13", "C16"], entry="h_Hclose", enforce="Hclose", **HF)

prop("C01",
     residual="composition over histories (several handles, reopen, promotion followed by reads of old data, external file contents); HLconvert/HLcreate end-to-end; hbuffer.c",
     assumptions=["ghost disk: one stream, bytes tracked at one arbitrary offset", "HTPinquire/HTPupdate stubs give the DD the access record is attached to"])

prop("C13",
     residual="(round 3, c13_sdids.py: the SD id codec and its users for ANY int32 id, GR image ids over a ghost atom table (bounded).)  NOT decided: V/VS/AN instance tables and their id spaces; repeated opens of one path; library re-initialisation; "
              "wrong-kind ids (HAatom_object does not check the group: a file id passed where an access id is expected is "
              "type-confused -- assumed away as A-KIND in the H-layer contracts); SD ids carry no generation",
     assumptions=["A-KIND: callers pass identifiers of the right kind to Hread/Hwrite/Hseek/... (the H layer does not check the atom group)",
                  "A-ALLOC: HAregister_atom/malloc do not fail (no property quantifies over allocation failure)",
                  "A-ATOMWRAP: fewer than 2^28 atoms are registered per group (no wrap guard on nextid)",
                  "A-HASHSIZE: atom hash sizes are powers of two <= 2^28 (all callers pass 16..256)",
                  "A-SHIFT: MAKE_ATOM(8, i) shifts into the sign bit (ISO C UB); two's-complement result assumed, as gcc/clang give",
                  "A-ATOMS-WF: bucket/cache representation invariant of atom.c assumed on entry and re-established by each operation (units/atom_u.c)"])
prop("C16",
     residual="V/VS/SD/GR close paths (Vdetach, HMCPcloseAID/mcache_sync) and the netCDF layer; 'byte-identical when all calls "
              "succeed'; hangs (termination is not proved); allocation failures",
     assumptions=["every stdio call may fail independently (single and sticky faults are both covered by the nondeterministic choice)",
                  "after a failed stdio call the stream position is indeterminate"])
prop("C17",
     residual="Vdata/Vgroup header rewrite to new space, SD delete-then-append metadata, reopening each crash-prefix image (a whole-file "
              "relation); the element data writes of V/SD/GR layers",
     assumptions=["each library-level write (HP_write) is atomic and ordered, as the property states",
                  "low-water mark g_L = end of file at session start; the session has descriptor caching on"])
prop("C20",
     residual="(round 3, c20_lim.py: dfgroup.c group table and DI lists, VHstoredatam order/size limits, SDcreate rank 32/33 and variable-count limits, the netCDF open-file table; OPEN finding K5.)  NOT decided: name-length limits outside the units listed, usability of the file after a refused request",
     assumptions=["file size limit enforced as f_end_off <= 2^31-2 (one byte conservative: HIextend_file writes one byte at f_end_off)"])

/* Verification unit: hdf/src/mfan.c (C11: writing and re-writing annotations, creating them)
 *   ANIwriteann  first write creates the element with exactly the text length (+4 for the target
 *                tag/ref prefix of data annotations) and clears the 'new' mark; every later write
 *                resets the element (HDreuse_tagref) so that the stored length is the NEW text length
 *   ANIcreate    a new annotation gets a key no other annotation of the file has
 * H layer, atoms and the annotation tree (tbbt) are trusted stubs over a ghost model.
 */
#include "h4v.h"
#include "h4v_err.h"
#include <string.h>
#include "mfan_priv.h"
#include "mfan.h"
#include "atom_priv.h"
#include "hfile_priv.h"

typedef unsigned char h4v_u8;
typedef ann_type      h4v_atype;
H4V_DECL_ND(int32);
H4V_DECL_ND(int);
H4V_DECL_ND(uint16);
H4V_DECL_ND(h4v_u8);
H4V_DECL_ND(h4v_atype);

/* ------------------------------------------------------------------------------------------
 * Ghost model: ONE annotation (node g_node registered under g_ann_id, tree entry g_entry under key
 * g_key in the tree of its type) of ONE open file g_file (record g_frec), and the ONE data element
 * (g_tag, g_ref) that stores it:
 *   g_ex    the element's DD exists;  g_len its length (INVALID_LENGTH after HDreuse_tagref)
 *   g_e     ghost offset inside the element; g_eb the byte last written there (g_eb_set)
 * ------------------------------------------------------------------------------------------ */
#define H4V_AID 0x30001
static int32      g_file;
static filerec_t *g_frec; /* NULL: not a file id */
static int32      g_ann_id;
static ANnode    *g_node; /* NULL: not an annotation id */
static ANentry   *g_entry;
static int        g_entry_present; /* the tree of the node's type holds g_entry under g_key */
static int32      g_key;
static TBBT_NODE  g_tnode;
static TBBT_TREE *g_tree; /* the tree that holds the entry */
static uint16     g_tag, g_ref;
static int        g_ex;
static int32      g_len;
static int        g_open;
static int32      g_posn;
int32             g_e;
static h4v_u8     g_eb;
static int        g_eb_set;
static int        g_hfail;   /* a layer below refused although the request was legal */
static int        g_endfail; /* an Hendaccess reported failure */
static int        g_reuse;   /* successful HDreuse_tagref calls */
static int        g_nstartwrite;
/* faults, chosen by the harness */
static int g_f_start, g_f_write, g_f_end, g_f_reuse;
/* ANIcreate */
static uint16  g_newref;     /* what Htagnewref hands out (0: none free / failure) */
static int     g_f_reg, g_f_ins, g_f_make;
static int32   g_new_id;     /* the atom HAregister_atom hands out */
static void   *g_reg_obj;    /* object registered under it (NULL: none) */
static int32   g_ins_key;    /* key of the inserted entry */
static void   *g_ins_item;
static int     g_nins, g_nreg, g_nunreg;

void *
HAatom_object(atom_t atm)
{
    if (atm == g_ann_id)
        return (void *)g_node;
    if (atm == g_file)
        return (void *)g_frec;
    return NULL;
}

group_t
HAatom_group(atom_t atm)
{
    return (atm == g_file && g_frec != NULL) ? FIDGROUP : BADGROUP;
}

atom_t
HAregister_atom(group_t grp, void *object)
{
    H4V_CHECK(grp == ANIDGROUP && object != NULL, "HAregister_atom: an annotation node");
    if (g_f_reg) {
        g_hfail = 1;
        return FAIL;
    }
    g_nreg++;
    g_reg_obj = object;
    return g_new_id;
}

void *
HAremove_atom(atom_t atm)
{
    void *o = NULL;
    if (atm == g_new_id && g_reg_obj != NULL) {
        o         = g_reg_obj;
        g_reg_obj = NULL;
        g_nunreg++;
    }
    return o;
}

/* the annotation tree of one type as a finite map with ONE modelled key */
TBBT_NODE *
tbbtdfind(TBBT_TREE *tree, void *key, TBBT_NODE **pp)
{
    (void)pp;
    if (g_entry_present && tree == g_tree && *(int32 *)key == g_key)
        return &g_tnode;
    return NULL;
}

TBBT_TREE *
tbbtdmake(int (*compar)(void *, void *, int), int arg, unsigned fast_compare)
{
    (void)compar;
    (void)arg;
    (void)fast_compare;
    if (g_f_make) {
        g_hfail = 1;
        return NULL;
    }
    TBBT_TREE *t = malloc(sizeof(TBBT_TREE));
    if (t == NULL)
        g_hfail = 1;
    return t;
}

/* tbbt.c tbbtins: a key that is already in the tree is refused (NULL) */
TBBT_NODE *
tbbtdins(TBBT_TREE *tree, void *item, void *key)
{
    static TBBT_NODE s_new;
    if (g_entry_present && tree == g_tree && *(int32 *)key == g_key)
        return NULL; /* duplicate key: not a failure of the layer, the caller asked for it */
    if (g_f_ins) {
        g_hfail = 1;
        return NULL;
    }
    g_nins++;
    g_ins_key  = *(int32 *)key;
    g_ins_item = item;
    s_new.data = item;
    s_new.key  = key;
    return &s_new;
}

/* hfiledd.c Htagnewref: a ref that is not in use FOR THIS TAG IN THE DD LIST (0: none / failure).
   It does not reserve the ref. */
uint16
Htagnewref(int32 file_id, uint16 tag)
{
    if (file_id != g_file || g_frec == NULL || g_newref == 0) {
        g_hfail = 1;
        return 0;
    }
    H4V_ASSUME(!(g_ex && tag == g_tag && g_newref == g_ref));
    return g_newref;
}

int
HDreuse_tagref(int32 file_id, uint16 tag, uint16 ref)
{
    H4V_CHECK(file_id == g_file && tag == g_tag && ref == g_ref, "HDreuse_tagref: on the annotation's own element");
    H4V_CHECK(g_open == 0, "HDreuse_tagref: no access id open on the element");
    if (!g_ex)
        return FAIL; /* DFE_NOMATCH: there is no such descriptor */
    if (g_f_reuse) {
        g_hfail = 1;
        return FAIL;
    }
    g_len = INVALID_LENGTH;
    g_reuse++;
    return SUCCEED;
}

/* hfile.c Hstartwrite: an absent element, or one whose length is invalid, is created with the given
   length; an element that has a valid length KEEPS it */
int32
Hstartwrite(int32 file_id, uint16 tag, uint16 ref, int32 length)
{
    H4V_CHECK(file_id == g_file && tag == g_tag && ref == g_ref, "Hstartwrite: on the annotation's own element");
    H4V_CHECK(g_open == 0, "Hstartwrite: no access id open yet");
    H4V_CHECK(length >= 0, "Hstartwrite: element length >= 0");
    if (g_f_start) {
        g_hfail = 1;
        return FAIL;
    }
    g_nstartwrite++;
    if (!g_ex || g_len == INVALID_LENGTH) {
        g_ex     = 1;
        g_len    = length;
        g_eb_set = 0;
    }
    g_open = 1;
    g_posn = 0;
    return H4V_AID;
}

/* hfile.c Hwrite on an ordinary, not appendable element: length <= 0 fails, writing beyond the
   element's length fails (DFE_BADSEEK) */
int32
Hwrite(int32 access_id, int32 length, const void *data)
{
    H4V_CHECK(access_id == H4V_AID && g_open == 1, "Hwrite: on the open aid");
    if (data == NULL || length <= 0)
        return FAIL; /* the caller's fault */
    if (length > g_len - g_posn)
        return FAIL; /* idem: the element is shorter than what is written */
    if (g_f_write) {
        g_hfail = 1;
        return FAIL;
    }
    /* the first and the last source byte are read (bounds), the ghost byte is transferred */
    (void)((const h4v_u8 *)data)[0];
    (void)((const h4v_u8 *)data)[length - 1];
    if (g_e >= g_posn && g_e - g_posn < length) {
        g_eb     = ((const h4v_u8 *)data)[g_e - g_posn];
        g_eb_set = 1;
    }
    g_posn += length;
    return length;
}

int
Hendaccess(int32 access_id)
{
    H4V_CHECK(access_id == H4V_AID && (g_open == 1 || g_endfail), "Hendaccess: on the open aid");
    g_open = 0;
    if (g_f_end) {
        g_hfail   = 1;
        g_endfail = 1;
        return FAIL;
    }
    return SUCCEED;
}

/* hfile.c Hputelement = Hstartwrite + Hwrite + Hendaccess */
int32
Hputelement(int32 file_id, uint16 tag, uint16 ref, const uint8 *data, int32 length)
{
    int32 aid = Hstartwrite(file_id, tag, ref, length);
    if (aid == FAIL)
        return FAIL;
    if (Hwrite(aid, length, data) == FAIL) {
        Hendaccess(aid);
        return FAIL;
    }
    if (Hendaccess(aid) == FAIL)
        return FAIL;
    return length;
}

/* hfile.c Hexist over the ghost DD list: the ONE modelled element (g_tag, g_ref) when it exists; no other element of the
   annotation tags is in the file */
int
Hexist(int32 file_id, uint16 search_tag, uint16 search_ref)
{
    return (file_id == g_file && g_ex && search_tag == g_tag && search_ref == g_ref) ? SUCCEED : FAIL;
}

/* allocation failure inside mfan.c is a legitimate reason to fail: record it */
static void *
h4v_an_malloc(size_t n)
{
    void *p = malloc(n);
    if (p == NULL)
        g_hfail = 1;
    return p;
}
#define malloc(n) h4v_an_malloc(n)
#include "mfan.c"
#undef malloc

/* ------------------------------------------------------------------------------------------ */
#define WR_TYPE(k) AN_KEY2TYPE(k)
#define WR_TYPE_OK(k) (WR_TYPE(k) >= AN_DATA_LABEL && WR_TYPE(k) <= AN_FILE_DESC)
#define WR_IS_DATA (g_tag == DFTAG_DIL || g_tag == DFTAG_DIA)
#define WR_OFF (WR_IS_DATA ? 4 : 0)
/* everything ANIwriteann needs from its environment is there */
#define WR_ENV_OK(id)                                                                                \
    ((id) == g_ann_id && g_node != NULL && g_node->file_id == g_file && g_frec != NULL && g_frec->refcount != 0 && \
     WR_TYPE_OK(g_node->ann_key) && g_entry_present)
/* byte i of the 4-byte prefix of a data annotation: target tag, target ref, big-endian */
#define WR_PFX(i)                                                                                    \
    ((i) == 0 ? (g_entry->elmtag >> 8) : (i) == 1 ? (g_entry->elmtag & 0xff) : (i) == 2 ? (g_entry->elmref >> 8) : (g_entry->elmref & 0xff))

static int ANIwriteann(int32 ann_id, const char *ann, int32 ann_len)
    __CPROVER_requires(ann != NULL && ann_len >= 0)
    __CPROVER_requires(g_open == 0 && g_hfail == 0 && g_endfail == 0 && g_reuse == 0 && g_nstartwrite == 0 && g_e >= 0)
    __CPROVER_requires(g_ex == 0 || g_ex == 1)
    __CPROVER_requires(g_entry != NULL)
    /* the 'new' mark says whether the annotation's element is in the file: created in this session and
       not yet written (1, no element) or written / selected from the file (0, element exists) */
    __CPROVER_requires(g_node == NULL || (g_node->new_ann == 1 ? !g_ex : (g_node->new_ann == 0 && g_ex && g_len >= 0)))
    /* identity: ONLY the 'new' mark of the node may change -- key, file, tree entry (ref, target tag/ref, id) are frame */
    __CPROVER_assigns(g_node != NULL: g_node->new_ann; g_ex, g_len, g_open, g_posn, g_eb, g_eb_set, g_hfail, g_endfail, g_reuse, g_nstartwrite)
    __CPROVER_ensures(__CPROVER_return_value == SUCCEED || __CPROVER_return_value == FAIL)
    __CPROVER_ensures(g_open == 0)
    /* unknown id, stale file, bad type, no tree entry: FAIL and the file is not touched */
    __CPROVER_ensures(!WR_ENV_OK(ann_id) ==>
                      (__CPROVER_return_value == FAIL && g_ex == __CPROVER_old(g_ex) && g_len == __CPROVER_old(g_len) && g_nstartwrite == 0 && g_reuse == 0))
    /* after ANY successful write the element exists, its length is the NEW text length (+4), and the
       annotation is no longer 'new' -- whether the previous text was longer or shorter */
    __CPROVER_ensures(__CPROVER_return_value == SUCCEED ==> (g_node->new_ann == 0 && g_ex == 1 && g_len == ann_len + WR_OFF))
    /* byte for byte: prefix = target tag/ref, then the text */
    __CPROVER_ensures((__CPROVER_return_value == SUCCEED && g_e < WR_OFF) ==> (g_eb_set && g_eb == WR_PFX(g_e)))
    __CPROVER_ensures((__CPROVER_return_value == SUCCEED && g_e >= WR_OFF && g_e - WR_OFF < ann_len) ==>
                      (g_eb_set && g_eb == (h4v_u8)ann[g_e - WR_OFF]))
    /* no failure without a reason (an empty text is refused by Hwrite: length 0) */
    __CPROVER_ensures((WR_ENV_OK(ann_id) && !g_hfail && ann_len > 0 && (long long)ann_len + WR_OFF <= 2147483647LL) ==> __CPROVER_return_value == SUCCEED)
    /* a text whose element length (text + prefix) is not representable is refused BEFORE the old annotation is given up */
    __CPROVER_ensures((WR_ENV_OK(ann_id) && (long long)ann_len + WR_OFF > 2147483647LL) ==>
                      (__CPROVER_return_value == FAIL && g_ex == __CPROVER_old(g_ex) && g_len == __CPROVER_old(g_len) && g_nstartwrite == 0 && g_reuse == 0));

/* ANIcreate: file g_file, tree state as above (g_entry_present: one annotation with key g_key exists
   already, possibly created in this session and not yet written) */
#define CR_TYPE_OK(t) ((t) == AN_DATA_LABEL || (t) == AN_DATA_DESC || (t) == AN_FILE_LABEL || (t) == AN_FILE_DESC)
#define CR_IS_FILE(t) ((t) == AN_FILE_LABEL || (t) == AN_FILE_DESC)
/* ASSUMED (replaced inside ANIcreate, body not verified here): loading the tree of a type that has not been loaded yet gives a
   tree of the annotations ON DISK.  None of them is the modelled in-memory entry (that one lives in a tree that IS loaded), and
   none has the ref Htagnewref hands out (that ref is not in the DD list): the loaded tree is a fresh object, disjoint from g_tree */
static int ANIcreate_ann_tree(int32 an_id, ann_type type)
    __CPROVER_requires(an_id == g_file && g_frec != NULL && CR_TYPE_OK(type) && g_frec->an_num[type] == -1)
    __CPROVER_assigns(g_frec->an_num[type], g_frec->an_tree[type], g_hfail)
    __CPROVER_ensures(__CPROVER_return_value == FAIL || (__CPROVER_return_value >= 0 && __CPROVER_return_value < 65536))
    __CPROVER_ensures(__CPROVER_return_value == FAIL ==> g_hfail == 1)
    __CPROVER_ensures(__CPROVER_return_value != FAIL ==>
                      (g_frec->an_num[type] == __CPROVER_return_value && __CPROVER_is_fresh(g_frec->an_tree[type], sizeof(TBBT_TREE)) &&
                       g_hfail == __CPROVER_old(g_hfail)));

/* (the collision of Htagnewref's ref with the unwritten annotation at ref 65535 leaves no ref: the only failure without a fault) */
#define CR_NOREF(type) (g_entry_present && !g_ex && g_newref == 65535 && g_key == AN_CREATE_KEY(type, 65535))
static int ANIcreate(int32 file_id, uint16 elem_tag, uint16 elem_ref, ann_type type)
    __CPROVER_requires(g_hfail == 0 && g_nins == 0 && g_nreg == 0 && g_nunreg == 0 && g_reg_obj == NULL)
    __CPROVER_requires(g_frec == NULL || (g_frec->refcount != 0))
    __CPROVER_assigns(g_frec != NULL: __CPROVER_object_whole(g_frec); g_hfail, g_nins, g_nreg, g_nunreg, g_reg_obj, g_ins_key, g_ins_item)
    /* creating an annotation succeeds unless the file id is bad, the type is bad, the target is missing
       (data annotations) or a layer below fails -- in particular a second create before the first
       annotation is written must succeed */
    __CPROVER_ensures((file_id == g_file && g_frec != NULL && CR_TYPE_OK(type) && (CR_IS_FILE(type) || (elem_tag != 0 && elem_ref != 0)) && !g_hfail &&
                       !CR_NOREF(type)) ==>
                      __CPROVER_return_value != FAIL)
    /* the new annotation has its own key: no two annotations of a type share a ref */
    __CPROVER_ensures(__CPROVER_return_value != FAIL ==>
                      (__CPROVER_return_value == g_new_id && g_nins == 1 && g_nreg == 1 && g_reg_obj != NULL &&
                       AN_KEY2TYPE(g_ins_key) == (int32)type && AN_KEY2REF(g_ins_key) != 0 && !(g_entry_present && g_ins_key == g_key) &&
                       /* the registered node: this file, this key, marked 'new' (no element yet) */
                       ((ANnode *)g_reg_obj)->file_id == file_id && ((ANnode *)g_reg_obj)->ann_key == g_ins_key && ((ANnode *)g_reg_obj)->new_ann == 1 &&
                       ((ANentry *)g_ins_item)->ann_id == g_new_id && ((ANentry *)g_ins_item)->annref == AN_KEY2REF(g_ins_key) &&
                       (CR_IS_FILE(type) || (((ANentry *)g_ins_item)->elmtag == elem_tag && ((ANentry *)g_ins_item)->elmref == elem_ref))))
    /* failure leaves no id registered for a node that has been released */
    __CPROVER_ensures(__CPROVER_return_value == FAIL ==> g_reg_obj == NULL);

/* ANfileinfo: the four counts are the numbers of annotations of the four types -- each output names ITS type's tree; a tree that is
   not loaded yet is loaded first (ANIcreate_ann_tree, by its ASSUMED contract above), one that is loaded keeps its number */
#define FI_N(t) (g_frec->an_num[t])
static int32 g_fi_old[4];
int32 ANfileinfo(int32 an_id, int32 *n_file_label, int32 *n_file_desc, int32 *n_obj_label, int32 *n_obj_desc)
    __CPROVER_requires(__CPROVER_is_fresh(n_file_label, sizeof(int32)) && __CPROVER_is_fresh(n_file_desc, sizeof(int32)) &&
                       __CPROVER_is_fresh(n_obj_label, sizeof(int32)) && __CPROVER_is_fresh(n_obj_desc, sizeof(int32)))
    __CPROVER_requires(g_hfail == 0 && (g_frec == NULL || g_frec->refcount != 0))
    /* g_fi_old: the harness's snapshot of the four numbers at entry */
    __CPROVER_requires(g_frec == NULL || (g_fi_old[0] == g_frec->an_num[0] && g_fi_old[1] == g_frec->an_num[1] &&
                                          g_fi_old[2] == g_frec->an_num[2] && g_fi_old[3] == g_frec->an_num[3]))
    __CPROVER_assigns(*n_file_label, *n_file_desc, *n_obj_label, *n_obj_desc, g_hfail; g_frec != NULL: __CPROVER_object_whole(g_frec))
    __CPROVER_ensures(__CPROVER_return_value == SUCCEED || __CPROVER_return_value == FAIL)
    __CPROVER_ensures((an_id != g_file || g_frec == NULL) ==> __CPROVER_return_value == FAIL)
    __CPROVER_ensures(__CPROVER_return_value == FAIL ==> (an_id != g_file || g_frec == NULL || g_hfail == 1))
    __CPROVER_ensures(__CPROVER_return_value == SUCCEED ==>
                      (FI_N(AN_FILE_LABEL) >= 0 && FI_N(AN_FILE_DESC) >= 0 && FI_N(AN_DATA_LABEL) >= 0 && FI_N(AN_DATA_DESC) >= 0 &&
                       *n_file_label == FI_N(AN_FILE_LABEL) && *n_file_desc == FI_N(AN_FILE_DESC) &&
                       *n_obj_label == FI_N(AN_DATA_LABEL) && *n_obj_desc == FI_N(AN_DATA_DESC)))
    /* a tree that was loaded keeps its number */
    __CPROVER_ensures((g_frec != NULL && g_fi_old[AN_FILE_LABEL] != -1) ==> FI_N(AN_FILE_LABEL) == g_fi_old[AN_FILE_LABEL])
    __CPROVER_ensures((g_frec != NULL && g_fi_old[AN_FILE_DESC] != -1) ==> FI_N(AN_FILE_DESC) == g_fi_old[AN_FILE_DESC])
    __CPROVER_ensures((g_frec != NULL && g_fi_old[AN_DATA_LABEL] != -1) ==> FI_N(AN_DATA_LABEL) == g_fi_old[AN_DATA_LABEL])
    __CPROVER_ensures((g_frec != NULL && g_fi_old[AN_DATA_DESC] != -1) ==> FI_N(AN_DATA_DESC) == g_fi_old[AN_DATA_DESC]);

#ifdef H4V_NATIVE
#include "h4v_native_wrap.h"
#endif

/* ---------------- harnesses ---------------- */
static uint16
tag_of_type(int32 t)
{
    return t == AN_DATA_LABEL ? DFTAG_DIL : t == AN_DATA_DESC ? DFTAG_DIA : t == AN_FILE_LABEL ? DFTAG_FID : DFTAG_FD;
}

static void
reset_hlog(void)
{
    g_open = 0;
    g_hfail = g_endfail = 0;
    g_reuse = g_nstartwrite = 0;
    g_posn                  = 0;
}

/* one file, one annotation (any type, any ref), element present or not according to the 'new' mark */
static void
mk_wr_env(void)
{
    H4V_HAVOC(int32, g_e);
    H4V_HAVOC(int32, g_ann_id);
    H4V_HAVOC(int32, g_file);
    H4V_HAVOC(int, g_f_start);
    H4V_HAVOC(int, g_f_write);
    H4V_HAVOC(int, g_f_end);
    H4V_HAVOC(int, g_f_reuse);
    H4V_ND(int, node_null);
    H4V_ND(int, frec_null);
    H4V_ND(int32, frec_refcount);
    H4V_ND(int32, node_file);
    H4V_ND(int32, node_key);
    H4V_ND(int, node_new);
    H4V_ND(int, entry_present);
    H4V_ND(uint16, e_elmtag);
    H4V_ND(uint16, e_elmref);
    H4V_ND(int32, old_len);
    H4V_ND(h4v_u8, old_byte);
    /* ids of different kinds (annotation id, file id) are different atoms */
    H4V_ASSUME(g_e >= 0 && g_ann_id != g_file && node_file != g_ann_id);
    H4V_ASSUME(node_new == 0 || node_new == 1);
    H4V_ASSUME(old_len >= 0);
    reset_hlog();
    g_node = NULL;
    g_frec = NULL;
    if (!frec_null) {
        g_frec = malloc(sizeof(filerec_t));
        H4V_ASSUME(g_frec != NULL);
        g_frec->refcount = frec_refcount;
        for (int i = 0; i < 4; i++) {
            g_frec->an_num[i]  = 1;
            g_frec->an_tree[i] = malloc(sizeof(TBBT_TREE));
            H4V_ASSUME(g_frec->an_tree[i] != NULL);
        }
    }
    g_entry = malloc(sizeof(ANentry));
    H4V_ASSUME(g_entry != NULL);
    g_entry->ann_id = g_ann_id;
    g_entry->annref = AN_KEY2REF(node_key);
    g_entry->elmtag = e_elmtag;
    g_entry->elmref = e_elmref;
    g_tnode.data    = g_entry;
    g_tnode.key     = &g_key;
    g_key           = node_key;
    g_entry_present = entry_present;
    g_tree          = NULL;
    if (!node_null) {
        g_node = malloc(sizeof(ANnode));
        H4V_ASSUME(g_node != NULL);
        g_node->file_id = node_file;
        g_node->ann_key = node_key;
        g_node->new_ann = node_new;
    }
    if (g_frec != NULL && WR_TYPE_OK(node_key))
        g_tree = g_frec->an_tree[WR_TYPE(node_key)];
    /* the element that stores this annotation */
    g_tag = tag_of_type(WR_TYPE(node_key));
    g_ref = AN_KEY2REF(node_key);
    g_ex  = !node_new;
    g_len = g_ex ? old_len : 0;
    /* an old byte at the ghost offset */
    g_eb     = old_byte;
    g_eb_set = g_ex && g_e < old_len;
}

/* state seen by the covers */
static int32 w_len0, w_ann_len, w_ann_id;
static int   w_ex0;

static int
writeann_body(int32 lo, int32 hi)
{
    mk_wr_env();
    H4V_ND(int32, ann_id);
    H4V_ND(int32, ann_len);
    H4V_ASSUME(ann_len >= lo && ann_len <= hi);
    H4V_ASSUME(ann_id != g_file); /* an id of another kind (HAatom_object does not check the group) */
    H4V_ND_BUF(char, ann, (size_t)ann_len + 1, 12);
    w_len0    = g_len;
    w_ex0     = g_ex;
    w_ann_len = ann_len;
    w_ann_id  = ann_id;
    return ANIwriteann(ann_id, ann, ann_len);
}

/* all lengths for which ann_len + 4 is representable */
void
h_ANIwriteann(void)
{
    int r = writeann_body(0, 2147483647 - 4);
    H4V_COVER(r == SUCCEED && !w_ex0 && WR_IS_DATA, "writeann: first write of a new data annotation");
    H4V_COVER(r == SUCCEED && !w_ex0 && !WR_IS_DATA, "writeann: first write of a new file annotation");
    H4V_COVER(r == SUCCEED && w_ex0 && w_ann_len + WR_OFF < w_len0, "writeann: rewrite with a shorter text");
    H4V_COVER(r == SUCCEED && w_ex0 && w_ann_len + WR_OFF > w_len0 && g_tag == DFTAG_FD, "writeann: rewrite a file description with a longer text");
    H4V_COVER(r == FAIL && WR_ENV_OK(w_ann_id) && g_endfail, "writeann: Hendaccess fails");
    H4V_COVER(r == FAIL && !g_hfail && WR_ENV_OK(w_ann_id), "writeann: empty text refused");
    H4V_CANARY("ANIwriteann end");
}

/* the remaining lengths: ann_len + 4 overflows int32 for data annotations (mfan.c: Hstartwrite(.., ann_len + 4)) */
void
h_ANIwriteann_maxlen(void)
{
    int r = writeann_body(2147483647 - 3, 2147483647);
    H4V_COVER(r == SUCCEED && !WR_IS_DATA, "writeann: longest file annotation");
    H4V_CANARY("ANIwriteann (max length) end");
}

/* bounded history, real code twice, no contract: write, then write again (shorter or longer); after
   the second successful write the stored length is the SECOND text's length and the ghost byte is the
   second text's byte */
void
h_an_write_twice(void)
{
    mk_wr_env();
    H4V_ND(int32, len1);
    H4V_ND(int32, len2);
    H4V_ASSUME(len1 >= 1 && len1 <= 2147483647 - 4 && len2 >= 1 && len2 <= 2147483647 - 4);
    H4V_ASSUME(WR_ENV_OK(g_ann_id));
    H4V_ND_BUF(char, ann1, (size_t)len1, 6);
    H4V_ND_BUF(char, ann2, (size_t)len2, 6);
    int32  key0 = g_node->ann_key, file0 = g_node->file_id;
    uint16 et0 = g_entry->elmtag, er0 = g_entry->elmref, ar0 = g_entry->annref;
    int    r1 = ANIwriteann(g_ann_id, ann1, len1);
    int    h1 = g_hfail;
    H4V_CHECK(h1 || r1 == SUCCEED, "first write succeeds unless the H layer fails");
    H4V_CHECK(r1 != SUCCEED || (g_ex && g_len == len1 + WR_OFF && g_node->new_ann == 0), "first write: element has the text length, 'new' mark cleared");
    reset_hlog();
    int r2 = ANIwriteann(g_ann_id, ann2, len2);
    H4V_CHECK(!(r1 == SUCCEED && r2 == SUCCEED) || g_reuse == 1, "second write goes through the rewrite path (element reset before writing)");
    H4V_CHECK(!(r1 == SUCCEED && r2 == SUCCEED) || (g_ex && g_len == len2 + WR_OFF), "second write: stored length is the second text's length");
    H4V_CHECK(!(r1 == SUCCEED && r2 == SUCCEED && g_e >= WR_OFF && g_e - WR_OFF < len2) || (g_eb_set && g_eb == (h4v_u8)ann2[g_e - WR_OFF]),
              "second write: stored text is the second text");
    H4V_CHECK(!(r1 == SUCCEED && !g_hfail) || r2 == SUCCEED, "second write succeeds unless the H layer fails (longer AND shorter text)");
    H4V_CHECK(g_node->ann_key == key0 && g_node->file_id == file0 && g_entry->elmtag == et0 && g_entry->elmref == er0 && g_entry->annref == ar0,
              "identity (key, file, target) unchanged by rewriting");
    H4V_COVER(r1 == SUCCEED && r2 == SUCCEED && len2 < len1 && key0 >> 16 == AN_DATA_LABEL, "twice: shorter label");
    H4V_COVER(r1 == SUCCEED && r2 == SUCCEED && len2 > len1 && key0 >> 16 == AN_FILE_DESC, "twice: longer file description");
    H4V_COVER(r1 == SUCCEED && r2 == SUCCEED && g_reuse == 1, "twice: both succeed");
    H4V_CANARY("an_write_twice end");
}

/* ANIcreate in a file that may already hold an annotation (key g_key) -- written (element exists) or
   created in this session and not yet written (no element: its ref is still free in the DD list) */
static int c_type;

static int
create_body(int variant)
{
    H4V_HAVOC(int32, g_file);
    H4V_HAVOC(int32, g_new_id);
    H4V_HAVOC(uint16, g_newref);
    H4V_HAVOC(int, g_f_reg);
    H4V_HAVOC(int, g_f_ins);
    H4V_HAVOC(int, g_f_make);
    H4V_ND(int, frec_null);
    H4V_ND(int32, file_id);
    H4V_ND(uint16, elem_tag);
    H4V_ND(uint16, elem_ref);
    H4V_ND(h4v_atype, type);
    H4V_ND(int, entry_present);
    H4V_ND(int32, old_key);
    H4V_ND(int, old_written);
    H4V_ASSUME(g_new_id != FAIL && g_new_id != g_file);
    g_ann_id = g_new_id;
    g_node   = NULL;
    g_hfail = g_nins = g_nreg = g_nunreg = 0;
    g_reg_obj                             = NULL;
    g_frec                                = NULL;
    g_tree                                = NULL;
    g_entry_present                       = 0;
    g_ex                                  = 0;
    if (!frec_null) {
        g_frec = malloc(sizeof(filerec_t));
        H4V_ASSUME(g_frec != NULL);
        g_frec->refcount = 1;
        for (int i = 0; i < 4; i++) {
            H4V_ND(int, an_n);
            H4V_ASSUME(an_n >= -1 && an_n < 65536);
            g_frec->an_num[i]  = an_n;
            g_frec->an_tree[i] = NULL;
            if (an_n != -1) {
                g_frec->an_tree[i] = malloc(sizeof(TBBT_TREE));
                H4V_ASSUME(g_frec->an_tree[i] != NULL);
            }
        }
        /* the existing annotation, in the tree of its type */
        if (entry_present && WR_TYPE_OK(old_key) && g_frec->an_num[WR_TYPE(old_key)] >= 1) {
            g_entry_present = 1;
            g_key           = old_key;
            g_tree          = g_frec->an_tree[WR_TYPE(old_key)];
            g_tag           = tag_of_type(WR_TYPE(old_key));
            g_ref           = AN_KEY2REF(old_key);
            g_ex            = old_written ? 1 : 0;
        }
    }
    /* the existing annotation has a valid ref */
    H4V_ASSUME(!g_entry_present || AN_KEY2REF(g_key) != 0);
    /* variant 1: no fault injected into the layers below, Htagnewref finds a ref (what remains is the ref collision);
       variant 2: no ref collision, Htagnewref finds a ref, no tree-insertion fault (the complement of the findings) */
    if (variant == 1)
        H4V_ASSUME(!g_f_ins && !g_f_reg && !g_f_make && g_newref != 0);
    if (variant == 2)
        H4V_ASSUME(!g_f_ins && g_newref != 0 &&
                   !(g_entry_present && !g_ex && g_newref == AN_KEY2REF(g_key) && AN_KEY2TYPE(g_key) == (int32)type));
    c_type = (int)type;
    return ANIcreate(file_id, elem_tag, elem_ref, type);
}

void
h_ANIcreate(void)
{
    int r = create_body(0);
    H4V_COVER(r == FAIL && g_f_ins && g_nreg == 1, "create: tree insertion fails after the id was registered");
    H4V_CANARY("ANIcreate end");
}

void
h_ANIcreate_nofault(void)
{
    int r = create_body(1);
    H4V_COVER(r != FAIL, "create (no faults): success");
    H4V_CANARY("ANIcreate (no faults) end");
}

void
h_ANIcreate_rest(void)
{
    int r = create_body(2);
    H4V_COVER(r != FAIL && g_entry_present && AN_KEY2TYPE(g_key) == c_type, "create: second annotation of a type");
    H4V_COVER(r != FAIL && !g_entry_present && g_frec->an_num[AN_FILE_DESC] == 1, "create: first file description");
    H4V_COVER(r == FAIL && g_f_reg, "create: id registration fails");
    H4V_CANARY("ANIcreate (rest) end");
}


/* ANfileinfo over a file whose four trees are loaded or not, independently */
void
h_ANfileinfo(void)
{
    H4V_HAVOC(int32, g_file);
    H4V_ND(int, frec_null);
    H4V_ND(int32, an_id);
    g_ann_id        = FAIL;
    g_node          = NULL;
    g_hfail         = 0;
    g_frec          = NULL;
    g_tree          = NULL;
    g_entry_present = 0;
    g_ex            = 0;
    H4V_ASSUME(g_file != FAIL);
    if (!frec_null) {
        g_frec = malloc(sizeof(filerec_t));
        H4V_ASSUME(g_frec != NULL);
        g_frec->refcount = 1;
        for (int i = 0; i < 4; i++) {
            H4V_ND(int, an_n);
            H4V_ASSUME(an_n >= -1 && an_n < 65536);
            g_frec->an_num[i]  = an_n;
            g_fi_old[i]        = an_n;
            g_frec->an_tree[i] = NULL;
            if (an_n != -1) {
                g_frec->an_tree[i] = malloc(sizeof(TBBT_TREE));
                H4V_ASSUME(g_frec->an_tree[i] != NULL);
            }
        }
    }
    int32 *a = malloc(sizeof(int32)), *b = malloc(sizeof(int32)), *c = malloc(sizeof(int32)), *d = malloc(sizeof(int32));
    H4V_ASSUME(a != NULL && b != NULL && c != NULL && d != NULL);
    int r = ANfileinfo(an_id, a, b, c, d);
    H4V_COVER(r == SUCCEED && *a != *b && *c != *d && *a != *c, "fileinfo: four different counts");
    H4V_COVER(r == FAIL && g_hfail, "fileinfo: loading a tree fails");
    H4V_CANARY("ANfileinfo end");
}

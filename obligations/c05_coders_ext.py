"""C05 (staging): what the byte-stream round trip depends on but had no contract yet --
   hbitio.c mode switches / Hbitseek (single-call contracts), coder seek functions, RLE state reset."""
from .core import ob

CADICAL = ["--sat-solver", "cadical"]

# ----------------------------------------------------------------------------- hbitio.c: Hbitseek, HIwrite2read, HIread2write
BSW = dict(unit="hbitio_sw_u.c", file="hdf/src/hbitio.c", objbits=10, cex_unwind=8, flags=["--arrays-uf-always"],
           trusted=["ghost element behind Hwrite/Hread/Hseek: length, position, value of ONE ghost byte; a range read is checked "
                    "for accessibility and havocked except that byte", "HAatom_object: the harness-built record for its id",
                    "A-BIT-2G: max_offset <= 2^31-1 - 2*BITBUF_SIZE"])
# Partition of each contract's domain into sub-domains (one run each; the mode disjunct of requires/ensures is selected with
# the sub-domain: with `write-mode || read-mode` in one clause cbmc's symbolic execution alone needs > 60 s).  Cost is
# dominated by the real 4096-byte buffer object (BITBUF_SIZE is a plain #define of hbitio.c, not overridable with -D):
# --arrays-uf-always brings HIwrite2read to ~60-75 s; everything slower is tier "thorough".
_SEEK = {"w_inblock": (1, "write mode, target inside the buffered block", "thorough"),          # 190 s under load
         "w_tail": (3, "write mode, target in another block that holds fewer than BITBUF_SIZE bytes of data", "thorough"),  # 180 s; FAILS on HEAD (defect)
         "badargs_w": (5, "rejected arguments, write mode", "thorough")}                       # 147 s
# NOT REGISTERED (resources, measured on this image with 3 jobs): SEEK_DOM=2 "w_full" (write mode, other block holding a full
# buffer of data): no answer in 900 s; SEEK_DOM=4 "r" and SEEK_DOM=6 "badargs_r" (read-mode record in the requires): SAT
# conversion out of memory (10 GB) after ~160 s, also with -DBSW_POSONLY (content clauses off): > 400 s.  The read-mode
# seek is covered by HIwrite2read (which runs Hbitseek in read mode, both the same-block and the other-block path) and by
# the registered bounded history bit_seek.
for _n, (_d, _txt, _tier) in _SEEK.items():
    ob(f"bit_seek_{_n}", "C05", entry="h_bitseek", enforce="Hbitseek", defines=[f"SEEK_DOM={_d}"], timeout=900, tier=_tier,
       domain=_txt, **BSW)
ob("bit_w2r_blk0", ["C05", "C04"], entry="h_write2read", enforce="HIwrite2read", defines=["SW_DOM=1"], timeout=600,
   domain="the first block is buffered (block_offset == 0)", **BSW)
ob("bit_w2r_blkN", ["C05", "C04"],  # (C04: n-bit / compressed layouts read through Hbitseek; seeded change C04-m6)
   entry="h_write2read", enforce="HIwrite2read", defines=["SW_DOM=2"], timeout=600,
   domain="a later block is buffered (block_offset >= BITBUF_SIZE)", **BSW)
# -DBSW_SIZE adds "the element on disk does not extend beyond max_offset" to the post-states: FAILS on HEAD (HIbitflush write-out size)
ob("bit_w2r_blkN_size", "C05", entry="h_write2read", enforce="HIwrite2read", defines=["SW_DOM=2", "BSW_SIZE"], timeout=600, tier="thorough",
   domain="a later block is buffered; plus the stored-size clause", **BSW)
# HIread2write: all three sub-domains FAIL on HEAD (defects); 80-120 s each
for _n, _d in (("aligned", 1), ("afterseek", 2), ("afterread", 3)):
    ob(f"bit_r2w_{_n}", "C05", entry="h_read2write", enforce="HIread2write", defines=[f"SW_DOM={_d}"], timeout=900, tier="thorough", **BSW)

# ----------------------------------------------------------------------------- crle.c: seek / endaccess / state reset
NOMF = dict(flags=["--no-malloc-may-fail"], gi_flags=["--no-malloc-may-fail"])  # allocation failure is out of scope (DESIGN 10.5)
CSK = dict(unit="crle_seek_u.c", file="hdf/src/crle.c", cex_unwind=14, objbits=10, **NOMF,
           trusted=["Hseek/HDputc/Hwrite/Hendaccess stubs: count rewinds, writes, releases; nondeterministic failure",
                    "HCIcrle_decode replaced by the offset-accounting clause of the registered contract crle_decode_wf"])
ob("crle_seek_init", "C05", entry="h_crle_seek_init", enforce="HCIcrle_init", **CSK)
ob("crle_seek_term", "C05", entry="h_crle_seek_term", enforce="HCIcrle_term", **CSK)
_RLE_HELPERS = ["HCIcrle_init", "HCIcrle_term", "HCIcrle_decode"]
# crle_seek: 95 s alone, 200-240 s with the machine loaded (6 KB compinfo_t object) -> thorough
ob("crle_seek", "C05", entry="h_crle_seek", enforce="HCPcrle_seek", replace=_RLE_HELPERS, loops=True, nloops=1, loopcls="P",
   timeout=900, tier="thorough", **CSK)
ob("crle_endaccess", "C05", entry="h_crle_endaccess", enforce="HCPcrle_endaccess", replace=_RLE_HELPERS, **CSK)
# decoder state on an access that can write (read on a read/write access, then seek back / end access):
# both FAIL on HEAD (defect: HCIcrle_term runs on decoder state and writes into the compressed stream)
ob("crle_seek_rdwr", "C05", entry="h_crle_seek", enforce="HCPcrle_seek", replace=_RLE_HELPERS, loops=True, nloops=1, loopcls="P",
   defines=["SEEK_HIST=1"], timeout=900, tier="thorough", **CSK)
ob("crle_endaccess_rdwr", "C05", entry="h_crle_endaccess", enforce="HCPcrle_endaccess", replace=_RLE_HELPERS, defines=["SEEK_HIST=1"], **CSK)

# coder restart (term + init as HCPcrle_seek's backward branch does) with the packet-protocol stubs of crle_u.c (harness added to that unit)
ob("crle_restart3", "C05", unit="crle_u.c", file="hdf/src/crle.c", entry="h_crle_restart", mode="bounded", objbits=11,
   bound="streams A and B of <= 3 bytes each (full alphabet): init, encode A, term, init (the backward-seek branch of HCPcrle_seek), encode B, term",
   unwind=5, cex_unwind=5, defines=["RS_N=3", "RLE_LOOP_COPY"], timeout=600, flags=["--sat-solver", "cadical"],
   trusted=["byte-loop models of memcpy/memset (source re-based on the typed RLE buffer)", "packet-protocol stubs of crle_u.c"])

# ----------------------------------------------------------------------------- cskphuff.c: seek
ob("cskphuff_seek", "C05", unit="cskphuff_seek_u.c", file="hdf/src/cskphuff.c", entry="h_cskphuff_seek", enforce="HCPcskphuff_seek",
   replace=["HCIcskphuff_init", "HCIcskphuff_decode"], loops=True, nloops=1, loopcls="P", cex_unwind=14, objbits=10, timeout=600, **NOMF,
   trusted=["HCIcskphuff_init / HCIcskphuff_decode replaced by counting contracts (offset accounting), not proved here"])

# ----------------------------------------------------------------------------- cdeflate.c: seek
CDF = dict(unit="cdeflate_seek_u.c", file="hdf/src/cdeflate.c", entry="h_cdeflate_seek", enforce="HCPcdeflate_seek",
           replace=["HCIcdeflate_staccess2", "HCIcdeflate_term", "HCIcdeflate_decode"], loops=True, nloops=1, loopcls="P",
           cex_unwind=14, objbits=10, timeout=900, tier="thorough", **NOMF,  # 310-330 s each
           trusted=["HCIcdeflate_staccess2/_term/_decode (zlib inside) replaced by counting contracts, not proved here", "Hseek: counts rewinds"])
ob("cdeflate_seek", "C05", domain="target inside the data (every decode delivers what was asked)", **CDF)
# target beyond the end of the data: a decode may deliver fewer bytes (0 at the end of the stream) -- the skip loop must still end.
# FAILS on HEAD (loop_decreases: the skip loop does not terminate; confirmed at API level: Hseek(aid, 100000, DF_START) hangs)
ob("cdeflate_seek_eos", "C05", defines=["EOS"], domain="target possibly beyond the end of the data", **CDF)

# ----------------------------------------------------------------------------- cnone.c: seek
CNO = dict(unit="cnone_seek_u.c", file="hdf/src/cnone.c", entry="h_cnone_seek", enforce="HCPcnone_seek", cex_unwind=8,
           trusted=["Hseek: ghost element position, applies origin as Hseek does"])
ob("cnone_seek_start", "C05", defines=["ORIGIN_START"], domain="origin == DF_START", **CNO)
ob("cnone_seek", "C05", domain="any origin (HCPseek passes its own origin on after resolving it): FAILS on HEAD for DF_CURRENT / DF_END", **CNO)

# ----------------------------------------------------------------------------- cnbit.c: seek (loop-free), decode partition
CNB = dict(unit="cnbit_seek_u.c", file="hdf/src/cnbit.c", objbits=10, cex_unwind=8,
           trusted=["Hbitseek: logs the bit position, fails on demand", "Hbitread: delivers the ghost stream bytes in order", "HDmemfill: byte loop"])
for _nt in (1, 4):
    ob(f"cnbit_seek_nt{_nt}", "C05", entry="h_cnbit_seek", enforce="HCPcnbit_seek", defines=[f"NB_NT={_nt}"], timeout=300,
       domain=f"nt_size == {_nt} (one run per constant: the target is divided by nt_size), any mask_len 1..8*nt_size", **CNB)
# NOT REGISTERED (resources): entry h_cnbit_decode_partition (HCIcnbit_decode, two reads of L1 then L2 one-byte values, identity
# projection).  No answer in 600 s, neither with symbolic L1, L2 in 1..3 nor with constants (-DNB_L1=1 -DNB_L2=2): the 6 KB
# coder-state object, as the first author found for HCIcnbit_init.  The harness runs natively (replay build): L1=1, L2=2 FAILS
# its check "partitioned reads deliver the stream values in order" on HEAD, L1=2, L2=1 passes -- see the report.
# (tried again after the repair D72 with --max-field-sensitivity-array-size 2048 and constant lengths (2,1), (1,2), (1,3): no answer in
#  900 s either.  The defect was found by a NATIVE run of this harness, and its repair is NOT guarded by any obligation.)

# ----------------------------------------------------------------------------- hcomp.c: the dispatch layer (loop-free)
HRW = dict(unit="hcomp_rw_u.c", file="hdf/src/hcomp.c", objbits=8, cex_unwind=4,
           trusted=["modelling layer info->minfo.model_funcs.read/.seek: logging stubs (which access record, how many bytes / which offset), fail on demand",
                    "A-SEEK-2G: the absolute seek target is representable in int32"])
# the one indirect call of each function is restricted to the logging stub (its requires pins the pointer to it): without the
# restriction cbmc considers every function of the signature, HCPread itself included, and does not finish
ob("HCPread", ["C05", "C20"], entry="h_HCPread", enforce="HCPread", gi_flags=["--restrict-function-pointer", "HCPread.function_pointer_call.1/m_read"], **HRW)
ob("HCPseek", ["C05", "C20"], entry="h_HCPseek", enforce="HCPseek", gi_flags=["--restrict-function-pointer", "HCPseek.function_pointer_call.1/m_seek"], **HRW)

# NOT REGISTERED (resources): Hbitread per call, position accounting only (contract and harness h_bitread are in hbitio_sw_u.c, -DBSW_POSONLY).
# It would catch a wrong block_offset after a buffer refill (seeded change C05-m4); the SAT conversion ran out of memory at 10 GB (200 s) and
# at 36 GB (500 s) -- the 4096-byte buffer object again, as for the read-mode Hbitseek.

/* Verification unit: hdf/src/hfiledd.c -- C14 (read-only access) for the public DD functions
 * Hdeldd, HDreuse_tagref, Hdupdd.
 *
 * Environment: ONE file record WITHOUT DFACC_WRITE, one DD block of C14_NDDS descriptors with
 * arbitrary contents, descriptor caching arbitrary (on / off).  The tag tree / ref table /
 * bit-vector (tbbt.c, dynarray.c, bitvect.c) are trusted stubs: a finite map that finds the
 * descriptor at ghost index g_sel or nothing.  The physical layer (HP_write, HPgetdiskblock) is
 * the C14 stub of stubs/c14_common.h: it CHECKs that it is never reached on a read-only file.
 *
 * Clause taken from the property (C14): "every call that would have to write data or create a
 * stored object through that handle returns failure instead of appearing to succeed" and "no
 * call changes a byte of the file": on a read-only file each of the three functions returns
 * FAIL, the DD list is unchanged (ghost descriptor g_k, block and file dirty flags, end of file)
 * and no write primitive is reached.
 */
#include "h4v.h"
#include "h4v_err.h"
#define C14_HAVE_HTP
#define C14_HAVE_H
#define C14_HAVE_HAatom_object
#define C14_HAVE_HAregister_atom
#define C14_HAVE_HAremove_atom
#include "c14_common.h"
#include "hdfalloc.c"          /* the real HDmemfill */
#define H4V_NR_N 8 /* Hnewref is not reached from this unit */
#include "hfiledd.c"

#ifndef C14_NDDS
#define C14_NDDS 2
#endif

/* ------------------------------------------------------------------ ghost environment */
ddblock_t *g_blk;          /* the only DD block */
int        g_k;            /* ghost DD index: a proof for arbitrary g_k is a proof for all DDs */
int        g_sel;          /* index of the DD the ref table finds (the "existing" tag/ref) */
TBBT_NODE  g_tnode_obj;    /* tag-tree node whose data is g_tinfo_obj */
tag_info   g_tinfo_obj;
static int g_dummy_b, g_dummy_d, g_dummy_tree;
/* DD atoms: at most two are alive (Hdupdd: old and new) */
void  *g_ddobj[2];
atom_t g_ddid0;

void *
HAatom_object(atom_t atm)
{
    if (atm == g_fid)
        return g_frec;
    if (atm == g_ddid0)
        return g_ddobj[0];
    if (atm == g_ddid0 + 1)
        return g_ddobj[1];
    return NULL;
}
atom_t
HAregister_atom(group_t grp, void *object)
{
    g_reg_n++;
    if (g_ddobj[0] == NULL) {
        g_ddobj[0] = object;
        return g_ddid0;
    }
    if (g_ddobj[1] == NULL) {
        g_ddobj[1] = object;
        return g_ddid0 + 1;
    }
    return FAIL;
}
void *
HAremove_atom(atom_t atm)
{
    void *o = NULL;
    g_rem_n++;
    if (atm == g_ddid0) {
        o          = g_ddobj[0];
        g_ddobj[0] = NULL;
    }
    else if (atm == g_ddid0 + 1) {
        o          = g_ddobj[1];
        g_ddobj[1] = NULL;
    }
    return o;
}
intn HAinit_group(group_t grp, unsigned hash_size) { return SUCCEED; }

/* tbbt.c (A-TBBT): the tag tree is a finite map; the searched tag is present or not */
TBBT_NODE *
tbbtdfind(TBBT_TREE *tree, void *key, TBBT_NODE **pp)
{
    H4V_ND(int, tag_present);
    return tag_present ? &g_tnode_obj : NULL;
}
TBBT_NODE *
tbbtdins(TBBT_TREE *tree, void *item, void *key)
{
    return &g_tnode_obj;
}
TBBT_TREE *
tbbtdmake(intn (*compar)(void *, void *, intn), intn arg, unsigned fast_compare)
{
    return (TBBT_TREE *)&g_dummy_tree;
}
/* dynarray.c: ref -> DD table of one tag.  Finds the selected DD when its ref is asked for. */
void *
DAget_elem(dynarr_p arr_ptr, int elem)
{
    if (g_sel >= 0 && g_sel < C14_NDDS && g_blk->ddlist[g_sel].tag != DFTAG_NULL && (int)g_blk->ddlist[g_sel].ref == elem)
        return &g_blk->ddlist[g_sel];
    return NULL;
}
void *
DAdel_elem(dynarr_p arr_ptr, int elem)
{
    return DAget_elem(arr_ptr, elem);
}
int
DAset_elem(dynarr_p arr_ptr, int elem, void *obj)
{
    H4V_ND(int, daset_ok);
    return daset_ok ? SUCCEED : FAIL;
}
dynarr_p
DAcreate_array(int start_size, int incr_mult)
{
    return (dynarr_p)&g_dummy_d;
}
int
DAdestroy_array(dynarr_p arr, int free_elem)
{
    return SUCCEED;
}
/* bitvect.c: ref-in-use bits */
int
bv_get(bv_ptr b, int32 bit_num)
{
    H4V_ND(int, bvget_ret);
    H4V_ASSUME(bvget_ret == BV_FALSE || bvget_ret == BV_TRUE);
    return bvget_ret;
}
int
bv_set(bv_ptr b, int32 bit_num, bv_bool value)
{
    return SUCCEED;
}
bv_ptr
bv_new(int32 num_bits)
{
    return (bv_ptr)&g_dummy_b;
}

/* ------------------------------------------------------------------ contracts */
#define C14_ENV                                                                                              \
    (g_frec != NULL && g_blk != NULL && g_frec->ddhead == g_blk && g_frec->ddlast == g_blk && g_k >= 0 &&     \
     g_k < C14_NDDS && g_mut_n == 0 && C14_RDONLY(g_frec))
/* (the "DD list unchanged" clauses are written out in each contract: the native-replay generator
   translates __CPROVER_old only where it appears literally in the contract text) */
#define C14_FRAME                                                                                            \
    __CPROVER_object_whole(g_frec), __CPROVER_object_whole(g_blk), __CPROVER_object_whole(g_blk->ddlist),    \
        __CPROVER_object_whole(g_ddobj), g_mut_n, g_reg_n, g_rem_n

int Hdeldd(int32 file_id, uint16 tag, uint16 ref)
    __CPROVER_requires(C14_ENV)
    __CPROVER_assigns(C14_FRAME)
    __CPROVER_ensures(__CPROVER_return_value == FAIL)
    __CPROVER_ensures(g_blk->ddlist[g_k].tag == __CPROVER_old(g_blk->ddlist[g_k].tag))
    __CPROVER_ensures(g_blk->ddlist[g_k].ref == __CPROVER_old(g_blk->ddlist[g_k].ref))
    __CPROVER_ensures(g_blk->ddlist[g_k].offset == __CPROVER_old(g_blk->ddlist[g_k].offset))
    __CPROVER_ensures(g_blk->ddlist[g_k].length == __CPROVER_old(g_blk->ddlist[g_k].length))
    __CPROVER_ensures(g_blk->dirty == __CPROVER_old(g_blk->dirty) && g_frec->dirty == __CPROVER_old(g_frec->dirty))
    __CPROVER_ensures(g_frec->f_end_off == __CPROVER_old(g_frec->f_end_off) && g_frec->ddlast == g_blk && g_blk->next == NULL)
    __CPROVER_ensures(g_mut_n == 0);

int HDreuse_tagref(int32 file_id, uint16 tag, uint16 ref)
    __CPROVER_requires(C14_ENV)
    __CPROVER_assigns(C14_FRAME)
    __CPROVER_ensures(__CPROVER_return_value == FAIL)
    __CPROVER_ensures(g_blk->ddlist[g_k].tag == __CPROVER_old(g_blk->ddlist[g_k].tag))
    __CPROVER_ensures(g_blk->ddlist[g_k].ref == __CPROVER_old(g_blk->ddlist[g_k].ref))
    __CPROVER_ensures(g_blk->ddlist[g_k].offset == __CPROVER_old(g_blk->ddlist[g_k].offset))
    __CPROVER_ensures(g_blk->ddlist[g_k].length == __CPROVER_old(g_blk->ddlist[g_k].length))
    __CPROVER_ensures(g_blk->dirty == __CPROVER_old(g_blk->dirty) && g_frec->dirty == __CPROVER_old(g_frec->dirty))
    __CPROVER_ensures(g_frec->f_end_off == __CPROVER_old(g_frec->f_end_off) && g_frec->ddlast == g_blk && g_blk->next == NULL)
    __CPROVER_ensures(g_mut_n == 0);

int Hdupdd(int32 file_id, uint16 tag, uint16 ref, uint16 old_tag, uint16 old_ref)
    __CPROVER_requires(C14_ENV)
    __CPROVER_assigns(C14_FRAME, g_tinfo_obj)
    __CPROVER_ensures(__CPROVER_return_value == FAIL)
    __CPROVER_ensures(g_blk->ddlist[g_k].tag == __CPROVER_old(g_blk->ddlist[g_k].tag))
    __CPROVER_ensures(g_blk->ddlist[g_k].ref == __CPROVER_old(g_blk->ddlist[g_k].ref))
    __CPROVER_ensures(g_blk->ddlist[g_k].offset == __CPROVER_old(g_blk->ddlist[g_k].offset))
    __CPROVER_ensures(g_blk->ddlist[g_k].length == __CPROVER_old(g_blk->ddlist[g_k].length))
    __CPROVER_ensures(g_blk->dirty == __CPROVER_old(g_blk->dirty) && g_frec->dirty == __CPROVER_old(g_frec->dirty))
    __CPROVER_ensures(g_frec->f_end_off == __CPROVER_old(g_frec->f_end_off) && g_frec->ddlast == g_blk && g_blk->next == NULL)
    __CPROVER_ensures(g_mut_n == 0);

#ifdef H4V_NATIVE
#include "h4v_native_wrap.h"
#endif

/* ------------------------------------------------------------------ harnesses */
typedef dd_t h4v_dd;
static void
mk_ddenv(void)
{
    c14_mk_file();
    g_blk = malloc(sizeof(ddblock_t));
    H4V_ASSUME(g_blk != NULL);
    g_blk->ddlist = malloc(C14_NDDS * sizeof(dd_t));
    H4V_ASSUME(g_blk->ddlist != NULL);
    H4V_ND(int, b_dirty);
    H4V_ND(int32, b_myoffset);
    H4V_ASSUME(b_myoffset >= MAGICLEN && b_myoffset < 1000000);
    g_blk->dirty      = b_dirty;
    g_blk->myoffset   = b_myoffset;
    g_blk->ndds       = C14_NDDS;
    g_blk->nextoffset = 0;
    g_blk->frec       = g_frec;
    g_blk->next = g_blk->prev = NULL;
    {
        H4V_ND(uint16, dd0_tag);
        H4V_ND(uint16, dd0_ref);
        H4V_ND(int32, dd0_off);
        H4V_ND(int32, dd0_len);
        g_blk->ddlist[0].tag = dd0_tag, g_blk->ddlist[0].ref = dd0_ref, g_blk->ddlist[0].offset = dd0_off,
        g_blk->ddlist[0].length = dd0_len, g_blk->ddlist[0].blk = g_blk;
        /* DD invariant: unused/dataless (-1,-1) or an extent inside the file */
        H4V_ASSUME((dd0_off == INVALID_OFFSET && dd0_len == INVALID_LENGTH) ||
                   (dd0_off >= 0 && dd0_len >= 0 && (int64_t)dd0_off + dd0_len <= g_frec->f_end_off));
    }
#if C14_NDDS > 1
    {
        H4V_ND(uint16, dd1_tag);
        H4V_ND(uint16, dd1_ref);
        H4V_ND(int32, dd1_off);
        H4V_ND(int32, dd1_len);
        g_blk->ddlist[1].tag = dd1_tag, g_blk->ddlist[1].ref = dd1_ref, g_blk->ddlist[1].offset = dd1_off,
        g_blk->ddlist[1].length = dd1_len, g_blk->ddlist[1].blk = g_blk;
        H4V_ASSUME((dd1_off == INVALID_OFFSET && dd1_len == INVALID_LENGTH) ||
                   (dd1_off >= 0 && dd1_len >= 0 && (int64_t)dd1_off + dd1_len <= g_frec->f_end_off));
    }
#endif
    g_frec->ddhead = g_frec->ddlast = g_blk;
    g_frec->tag_tree = (TBBT_TREE *)&g_dummy_tree;
    g_tnode_obj.data = &g_tinfo_obj;
    g_tinfo_obj.b    = (bv_ptr)&g_dummy_b;
    g_tinfo_obj.d    = (dynarr_p)&g_dummy_d;
    g_ddobj[0] = g_ddobj[1] = NULL;
    H4V_HAVOC(int32, g_ddid0);
    H4V_ASSUME(g_ddid0 >= 0 && g_ddid0 < INT32_MAX - 1);
    H4V_ASSUME(g_ddid0 != g_fid && g_ddid0 + 1 != g_fid);
    H4V_HAVOC(int, g_k);
    H4V_HAVOC(int, g_sel);
}

void
h_c14_Hdeldd(void)
{
    mk_ddenv();
    H4V_ND(int32, file_id);
    H4V_ND(uint16, tag);
    H4V_ND(uint16, ref);
    int r = Hdeldd(file_id, tag, ref);
    H4V_COVER(r == FAIL && file_id == g_fid, "Hdeldd refused on the read-only file");
    H4V_CANARY("Hdeldd end");
}

void
h_c14_HDreuse_tagref(void)
{
    mk_ddenv();
    H4V_ND(int32, file_id);
    H4V_ND(uint16, tag);
    H4V_ND(uint16, ref);
    int r = HDreuse_tagref(file_id, tag, ref);
    H4V_COVER(r == FAIL && file_id == g_fid, "HDreuse_tagref refused on the read-only file");
    H4V_CANARY("HDreuse_tagref end");
}

void
h_c14_Hdupdd(void)
{
    mk_ddenv();
    H4V_ND(int32, file_id);
    H4V_ND(uint16, tag);
    H4V_ND(uint16, ref);
    H4V_ND(uint16, old_tag);
    H4V_ND(uint16, old_ref);
    int r = Hdupdd(file_id, tag, ref, old_tag, old_ref);
    H4V_COVER(r == FAIL && file_id == g_fid, "Hdupdd refused on the read-only file");
    H4V_CANARY("Hdupdd end");
}

/* D41 (C13): a Vdata attached "r" twice: VSdetach(id1) succeeds but does not invalidate id1 while the other attachment remains;
   the released id is still accepted, and detaching it again drives the attach count negative.
   Build: gcc D41_vsdetach_stale_id.c -I/repo/hdf/src -I/repo/_build -L/repo/_build/bin -lhdf -Wl,-rpath,/repo/_build/bin
   Before the fix: "VSdetach(id1) again -> 0" FAIL.  After: -1, PASS. */
#include "hdf.h"
#include <stdio.h>
int main(void)
{
    int32 fid = Hopen("d41.hdf", DFACC_CREATE, 0);
    Vstart(fid);
    int32 vs = VSattach(fid, -1, "w");
    VSfdefine(vs, "x", DFNT_INT32, 1); VSsetfields(vs, "x");
    int32 v = 1; VSwrite(vs, (uint8 *)&v, 1, FULL_INTERLACE);
    int32 ref = VSQueryref(vs); VSdetach(vs);
    int32 id1 = VSattach(fid, ref, "r"), id2 = VSattach(fid, ref, "r");
    intn r1 = VSdetach(id1);
    intn r2 = VSdetach(id1); /* id1 was released by the call above */
    printf("VSdetach(id1) -> %d, VSdetach(id1) again -> %d (FAIL = -1 expected)\n", r1, r2);
    intn r3 = VSdetach(id2);
    printf("VSdetach(id2) -> %d (0 expected)\n", r3);
    Vend(fid); Hclose(fid); remove("d41.hdf");
    int bad = !(r1 == SUCCEED && r2 == FAIL && r3 == SUCCEED);
    printf(bad ? "FAIL\n" : "PASS\n");
    return bad;
}

/* Verification unit: mfhdf/src/mfsd.c
   C03 -- routing of SDwritedata / SDreaddata: which I/O routine gets the request and what it gets.
          (The range validation of the same two functions is units/mfsd_gate_u.c.)
   C04 -- SDsetchunk: the fill value handed to HMCcreate is the dataset's fill value in FILE
          representation (what DFKconvert produced), and the chunk definition is the caller's.
   The I/O layer (NCvario, NCgenio), the chunk layer (HMCcreate) and the conversion layer
   (DFKconvert) are logging stubs.  Only dataset ids (SDSTYPE) are modelled. */
#include "h4v.h"
#include "h4v_err.h"
#include "nc_priv.h"
#include "putget_pred.h"
#include "hchunks_priv.h"

#ifndef MAXR
#define MAXR 4
#endif

typedef unsigned char h4v_uchar;
H4V_DECL_ND(int);
H4V_DECL_ND(int32);
H4V_DECL_ND(unsigned);
H4V_DECL_ND(h4v_ulong);
H4V_DECL_ND(h4v_uchar);

/* ------------------------------------------------------------------ ghost state */
NC     *g_handle;                    /* the open file */
NC_var *g_var;                       /* the variable the id names (NULL: the id names none) */
int     g_varid;                     /* its index */
int32  *g_start, *g_stride, *g_edge; /* the caller's vectors */
void   *g_data;                      /* the caller's buffer */
int     g_is_read;                   /* 1: SDreaddata, 0: SDwritedata */
int     g_d;                         /* ghost DIMENSION index: arbitrary, so a proof for it is a proof for all */
int     g_b;                         /* ghost BYTE index inside a fill value */

#define R_NONE 0
#define R_VARIO 1
#define R_GENIO 2
int  g_io_calls;   /* calls that reached the I/O layer */
int  g_route;      /* which routine got the (last) request */
int  g_io_ret;     /* what it returned */
int  g_io_ok;      /* handle / variable index / buffer / direction were the caller's */
long g_lg_start, g_lg_edge, g_lg_stride; /* element g_d of the vectors the routine received */
int  g_lg_imap_null;
int  g_endaccess;

/* defined in error.c, which is not part of the unit */
const char *cdf_routine_name;

/* ------------------------------------------------------------------ trusted stubs */
NC *
NC_check_id(int cdfid)
{
    H4V_ND(int, check_id_fail);
    if (check_id_fail)
        return NULL;
    return g_handle;
}

int
HCPgetcomptype(int32 file_id, uint16 data_tag, uint16 data_ref, comp_coder_t *coder_type)
{
    H4V_ND(int, comptype_fail);
    H4V_ND(int, comptype);
    if (comptype_fail)
        return FAIL;
    *coder_type = (comp_coder_t)comptype;
    return SUCCEED;
}

int
HCget_config_info(comp_coder_t coder_type, uint32 *compression_config_info)
{
    H4V_ND(unsigned, comp_config);
    *compression_config_info = comp_config;
    return SUCCEED;
}

int
Hendaccess(int32 access_id)
{
    g_endaccess++;
    H4V_ND(int, endaccess_fail);
    return endaccess_fail ? FAIL : SUCCEED;
}

#define RW_RANK ((int)g_var->assoc->count)

static void
io_common(NC *handle, int varid, const long *start, const long *edges, void *values)
{
    g_io_calls++;
    g_io_ok = (handle == g_handle && varid == g_varid && values == g_data && g_var != NULL &&
               handle->xdrs->x_op == (g_is_read ? XDR_DECODE : XDR_ENCODE));
    if (g_var != NULL && g_d >= 0 && g_d < RW_RANK) {
        g_lg_start = start[g_d];
        g_lg_edge  = edges[g_d];
    }
}

int
NCvario(NC *handle, int varid, const long *start, const long *edges, void *values)
{
    io_common(handle, varid, start, edges, values);
    g_route = R_VARIO;
    H4V_ND(int, vario_ret);
    H4V_ASSUME(vario_ret == 0 || vario_ret == -1);
    g_io_ret = vario_ret;
    return vario_ret;
}

int
NCgenio(NC *handle, int varid, const long *start, const long *count, const long *stride, const long *imap,
        void *values)
{
    io_common(handle, varid, start, count, values);
    g_route        = R_GENIO;
    g_lg_imap_null = (imap == NULL);
    if (g_var != NULL && g_d >= 0 && g_d < RW_RANK && stride != NULL)
        g_lg_stride = stride[g_d];
    H4V_CHECK(stride != NULL, "NCgenio gets a stride vector");
    H4V_ND(int, genio_ret);
    H4V_ASSUME(genio_ret == 0 || genio_ret == -1);
    g_io_ret = genio_ret;
    return genio_ret;
}

/* ---------------------------------------------------------------- SDsetchunk stubs (C04) */
uint8  g_fill[8];      /* the dataset's fill value in memory representation (user-set or default) */
uint8  g_conv_out[8];  /* what DFKconvert produces for it (arbitrary: chosen by the harness) */
int    g_have_attr;    /* a _FillValue attribute exists */
int    g_conv_calls;   /* DFKconvert calls */
int    g_conv_ok;      /* DFKconvert got (fill value, number type of the dataset, 1 element, DFACC_WRITE) */
uint8  g_conv_src_b;   /* byte g_b of the source DFKconvert received */
int    g_hmc_calls;    /* HMCcreate calls */
int32  g_hmc_len;      /* fill_val_len it received */
uint8  g_hmc_fill_b;   /* byte g_b of the fill value it received */
int    g_hmc_ok;       /* tag/ref/levels/readable fill buffer/chunk definition header as expected */
int32  g_hmc_dimlen, g_hmc_chunklen, g_hmc_distrib; /* pdims[g_d] of the chunk definition it received */
int32  g_hmc_ndims, g_hmc_ntsize, g_hmc_flag;
int    g_hmc_coder;
int32  g_hmc_aid;      /* what it returned */
uint16 g_newref;       /* what Hnewref returned */
static NC_attr **g_attrp;

uint16
Hnewref(int32 file_id)
{
    H4V_ND(int, newref);
    g_newref = (uint16)newref;
    return g_newref;
}

NC_attr **
NC_findattr(NC_array **ap, const char *name)
{
    H4V_CHECK(g_var != NULL && ap == &g_var->attrs, "NC_findattr on the dataset's attribute list");
    return g_have_attr ? g_attrp : NULL;
}

/* array.c: memcpy(target, array->values, array->szof * array->count) */
void
NC_copy_arrayvals(char *target, NC_array *array)
{
    size_t n = array->szof * array->count;
    H4V_CHECK(n <= 8, "fill attribute is one value of the dataset's type");
    for (size_t i = 0; i < 8; i++)
        if (i < n)
            target[i] = ((char *)array->values)[i];
}

/* dfconv.c, reproduced (three one-line classification functions) */
int8
DFKgetPNSC(int32 numbertype, int32 machinetype)
{
    switch (numbertype & DFNT_MASK) {
        case DFNT_CHAR8:
        case DFNT_UCHAR8:
            return (int8)(machinetype & 0x0f);
        case DFNT_INT8:
        case DFNT_UINT8:
        case DFNT_INT16:
        case DFNT_UINT16:
        case DFNT_INT32:
        case DFNT_UINT32:
            return (int8)((machinetype >> 4) & 0x0f);
        case DFNT_FLOAT32:
            return (int8)((machinetype >> 8) & 0x0f);
        case DFNT_FLOAT64:
            return (int8)((machinetype >> 12) & 0x0f);
        default:
            return FAIL;
    }
}

int32
DFKisnativeNT(int32 numbertype)
{
    return (DFNT_NATIVE & numbertype) > 0 ? 1 : 0;
}

int32
DFKislitendNT(int32 numbertype)
{
    return (DFNT_LITEND & numbertype) > 0 ? 1 : 0;
}

int32
DFKconvert(void *source, void *dest, int32 ntype, int32 num_elm, int16 acc_mode, int32 source_stride,
           int32 dest_stride)
{
    g_conv_calls++;
    g_conv_ok = (source != NULL && dest != NULL && g_var != NULL && ntype == g_var->HDFtype && num_elm == 1 &&
                 acc_mode == DFACC_WRITE && source_stride == 0 && dest_stride == 0);
    if (g_var != NULL && source != NULL && dest != NULL && g_b >= 0 && g_b < g_var->HDFsize && g_var->HDFsize <= 8) {
        g_conv_src_b = ((uint8 *)source)[g_b];
        for (int i = 0; i < 8; i++)
            if (i < g_var->HDFsize)
                ((uint8 *)dest)[i] = g_conv_out[i];
    }
    H4V_ND(int, conv_fail);
    return conv_fail ? FAIL : SUCCEED;
}

int32
HMCcreate(int32 file_id, uint16 tag, uint16 ref, uint8 nlevels, int32 fill_val_len, void *fill_val,
          HCHUNK_DEF *chk_array)
{
    g_hmc_calls++;
    g_hmc_len = fill_val_len;
    g_hmc_ok  = (g_var != NULL && g_handle != NULL && file_id == g_handle->hdf_file && tag == DATA_TAG &&
                ref == g_newref && ref == g_var->data_ref && nlevels == 1 && fill_val != NULL && chk_array != NULL &&
                chk_array->pdims != NULL && chk_array->cinfo != NULL && chk_array->minfo != NULL);
    if (fill_val != NULL && g_b >= 0 && g_b < fill_val_len)
        g_hmc_fill_b = ((uint8 *)fill_val)[g_b];
    if (chk_array != NULL) {
        g_hmc_ndims  = chk_array->num_dims;
        g_hmc_ntsize = chk_array->nt_size;
        g_hmc_flag   = chk_array->chunk_flag;
        g_hmc_coder  = (int)chk_array->comp_type;
        if (chk_array->pdims != NULL && g_d >= 0 && g_d < chk_array->num_dims) {
            g_hmc_dimlen   = chk_array->pdims[g_d].dim_length;
            g_hmc_chunklen = chk_array->pdims[g_d].chunk_length;
            g_hmc_distrib  = chk_array->pdims[g_d].distrib_type;
        }
    }
    H4V_ND(int32, hmc_aid);
    H4V_ASSUME(hmc_aid == FAIL || hmc_aid > 0);
    g_hmc_aid = hmc_aid;
    return hmc_aid;
}

#include "mfsd.c"

/* ------------------------------------------------------------------ contracts */

/* the request reaches at most one I/O routine, unchanged, and the routine is chosen by the strides */
#define RW_REQ(start, stride, end, data)                                                             \
    ((start) != NULL && (end) != NULL && (data) != NULL && (start) == g_start && (stride) == g_stride && \
     (end) == g_edge && (data) == g_data && g_io_calls == 0 && g_route == R_NONE && g_endaccess == 0 && \
     0 <= g_d && g_d < MAXR && g_handle != NULL)
#define RW_IN_RANK (g_var != NULL && g_d < RW_RANK)

int SDwritedata(int32 sdsid, int32 *start, int32 *stride, int32 *end, void *data)
    __CPROVER_requires(RW_REQ(start, stride, end, data) && g_is_read == 0)
    __CPROVER_assigns(cdf_routine_name, g_handle->xdrs->x_op, g_io_calls, g_route, g_io_ret, g_io_ok, g_lg_start,
                      g_lg_edge, g_lg_stride, g_lg_imap_null, g_endaccess;
                      g_var != NULL: g_var->aid, g_var->created, g_var->set_length)
    __CPROVER_ensures(__CPROVER_return_value == SUCCEED || __CPROVER_return_value == FAIL)
    /* one request in, at most one request out; SUCCEED only if it went out and the I/O layer succeeded */
    __CPROVER_ensures(g_io_calls <= 1 && (g_io_calls == 1) == (g_route != R_NONE))
    __CPROVER_ensures(__CPROVER_return_value == SUCCEED ==> (g_io_calls == 1 && g_io_ret == 0))
    __CPROVER_ensures((g_io_calls == 1 && g_io_ret == -1) ==> __CPROVER_return_value == FAIL)
    __CPROVER_ensures(g_io_calls == 1 ==> g_io_ok)
    /* ROUTING: the contiguous routine only if there is no stride vector or EVERY stride is 1 */
    __CPROVER_ensures((g_route == R_VARIO && stride != NULL && RW_IN_RANK) ==> stride[g_d] == 1)
    /* ... so a request with some stride != 1 that goes out goes to the strided routine */
    __CPROVER_ensures((g_io_calls == 1 && stride != NULL && RW_IN_RANK && stride[g_d] != 1) ==> g_route == R_GENIO)
    __CPROVER_ensures(g_route == R_GENIO ==> (stride != NULL && g_lg_imap_null))
    /* FORWARDING: start / edge (and stride for the strided routine) unchanged in EVERY dimension */
    __CPROVER_ensures((g_io_calls == 1 && RW_IN_RANK) ==>
                      (g_lg_start == (long)start[g_d] && g_lg_edge == (long)end[g_d]))
    __CPROVER_ensures((g_route == R_GENIO && RW_IN_RANK) ==> g_lg_stride == (long)stride[g_d])
    /* the caller's vectors are not modified (the data buffer: see the harness) */
    __CPROVER_ensures(start[g_d] == __CPROVER_old(start[g_d]) && end[g_d] == __CPROVER_old(end[g_d]))
    /* on FAIL after the I/O layer was entered the access id is released */
    __CPROVER_ensures((__CPROVER_return_value == FAIL && g_io_calls == 1) ==> (g_var->aid == FAIL || g_var->aid == 0));

int SDreaddata(int32 sdsid, int32 *start, int32 *stride, int32 *end, void *data)
    __CPROVER_requires(RW_REQ(start, stride, end, data) && g_is_read == 1)
    __CPROVER_assigns(cdf_routine_name, g_handle->xdrs->x_op, g_io_calls, g_route, g_io_ret, g_io_ok, g_lg_start,
                      g_lg_edge, g_lg_stride, g_lg_imap_null, g_endaccess;
                      g_var != NULL: g_var->aid)
    __CPROVER_ensures(__CPROVER_return_value == SUCCEED || __CPROVER_return_value == FAIL)
    __CPROVER_ensures(g_io_calls <= 1 && (g_io_calls == 1) == (g_route != R_NONE))
    __CPROVER_ensures(__CPROVER_return_value == SUCCEED ==> (g_io_calls == 1 && g_io_ret == 0))
    __CPROVER_ensures((g_io_calls == 1 && g_io_ret == -1) ==> __CPROVER_return_value == FAIL)
    __CPROVER_ensures(g_io_calls == 1 ==> g_io_ok)
    __CPROVER_ensures((g_route == R_VARIO && stride != NULL && RW_IN_RANK) ==> stride[g_d] == 1)
    __CPROVER_ensures((g_io_calls == 1 && stride != NULL && RW_IN_RANK && stride[g_d] != 1) ==> g_route == R_GENIO)
    __CPROVER_ensures(g_route == R_GENIO ==> (stride != NULL && g_lg_imap_null))
    __CPROVER_ensures((g_io_calls == 1 && RW_IN_RANK) ==>
                      (g_lg_start == (long)start[g_d] && g_lg_edge == (long)end[g_d]))
    __CPROVER_ensures((g_route == R_GENIO && RW_IN_RANK) ==> g_lg_stride == (long)stride[g_d])
    __CPROVER_ensures(start[g_d] == __CPROVER_old(start[g_d]) && end[g_d] == __CPROVER_old(end[g_d]))
    __CPROVER_ensures((__CPROVER_return_value == FAIL && g_io_calls == 1) ==> (g_var->aid == FAIL || g_var->aid == 0));

/* ---- SDsetchunk ---- */
/* on this (little-endian) platform a value of 2, 4 or 8 bytes needs conversion iff its number type is
   neither native nor little-endian (DFKgetPNSC(type, DF_MT) == DFNTF_PC for the int and float classes) */
#define SC_NEEDCONV(var) (((var)->HDFtype & (DFNT_NATIVE | DFNT_LITEND)) == 0)
#define SC_FLAGS_OK(f) ((f) == HDF_CHUNK || (f) == (HDF_CHUNK | HDF_COMP) || (f) == (HDF_CHUNK | HDF_NBIT))
/* chunk lengths of the three layouts of the union start at the same address */
#define SC_CDIM(def, i) ((def).chunk_lengths[i])

int SDsetchunk(int32 sdsid, HDF_CHUNK_DEF chunk_def, int32 flags)
    __CPROVER_requires(g_handle != NULL && g_var != NULL && g_hmc_calls == 0 && g_conv_calls == 0 && g_endaccess == 0)
    __CPROVER_requires(0 <= g_d && g_d < MAXR && 0 <= g_b && g_b < 8)
    __CPROVER_assigns(g_hmc_calls, g_hmc_len, g_hmc_fill_b, g_hmc_ok, g_hmc_dimlen, g_hmc_chunklen, g_hmc_distrib,
                      g_hmc_ndims, g_hmc_ntsize, g_hmc_flag, g_hmc_coder, g_hmc_aid, g_newref, g_conv_calls, g_conv_ok,
                      g_conv_src_b, g_endaccess;
                      g_var->aid, g_var->data_ref)
    __CPROVER_ensures(__CPROVER_return_value == SUCCEED || __CPROVER_return_value == FAIL)
    __CPROVER_ensures(g_hmc_calls <= 1 && g_conv_calls <= 1)
    /* nothing created: the dataset stays attached as it was */
    __CPROVER_ensures(g_hmc_calls == 0 ==> g_var->aid == __CPROVER_old(g_var->aid))
    /* SUCCEED: the chunked element was created, exactly once, and the dataset is attached to it */
    __CPROVER_ensures(__CPROVER_return_value == SUCCEED ==>
                      (g_hmc_calls == 1 && g_hmc_ok && g_hmc_aid != FAIL && g_var->aid == g_hmc_aid &&
                       SC_FLAGS_OK(flags)))
    /* a dataset that already has data, a scalar, an unlimited dimension, a chunk length < 1: rejected
       before anything is created */
    __CPROVER_ensures(__CPROVER_old(g_var->data_ref) != 0 ==>
                      (__CPROVER_return_value == FAIL && g_hmc_calls == 0))
    __CPROVER_ensures(g_var->shape == NULL ==> (__CPROVER_return_value == FAIL && g_hmc_calls == 0))
    __CPROVER_ensures((g_var->shape != NULL && g_d < RW_RANK &&
                       (g_var->shape[g_d] == SD_UNLIMITED || (SC_FLAGS_OK(flags) && SC_CDIM(chunk_def, g_d) < 1))) ==>
                      (__CPROVER_return_value == FAIL && g_hmc_calls == 0))
    /* C04: whenever the element is created, the fill value it is created with is ONE value of the
       dataset's type ... */
    __CPROVER_ensures(g_hmc_calls == 1 ==> (g_hmc_len == g_var->HDFsize && g_hmc_ntsize == g_var->HDFsize))
    /* ... namely the dataset's fill value (user-set, else the type's default) in FILE representation:
       converted by DFKconvert(fill, ., type, 1, DFACC_WRITE) when the type needs conversion ... */
    __CPROVER_ensures((g_hmc_calls == 1 && g_var->HDFsize >= 2) ==> g_conv_calls == (SC_NEEDCONV(g_var) ? 1 : 0))
    __CPROVER_ensures((g_hmc_calls == 1 && g_conv_calls == 1) ==> g_conv_ok)
    __CPROVER_ensures((g_hmc_calls == 1 && g_conv_calls == 1 && g_b < g_var->HDFsize) ==>
                      (g_conv_src_b == g_fill[g_b] && g_hmc_fill_b == g_conv_out[g_b]))
    /* ... and as it is when the type is native or little-endian (one-byte types: either way, the
       DFK layer decides; what HMCcreate gets is the output of the conversion if one was made) */
    __CPROVER_ensures((g_hmc_calls == 1 && g_conv_calls == 0 && g_b < g_var->HDFsize) ==> g_hmc_fill_b == g_fill[g_b])
    /* the chunk definition is the dataset's shape and the caller's chunk lengths, for EVERY dimension */
    __CPROVER_ensures(g_hmc_calls == 1 ==> g_hmc_ndims == RW_RANK)
    __CPROVER_ensures((g_hmc_calls == 1 && g_d < RW_RANK) ==>
                      (g_hmc_dimlen == (int32)g_var->shape[g_d] && g_hmc_chunklen == SC_CDIM(chunk_def, g_d) &&
                       g_hmc_distrib == (SC_CDIM(chunk_def, g_d) == (int32)g_var->shape[g_d] ? 0 : 1)))
    __CPROVER_ensures(g_hmc_calls == 1 ==>
                      (flags == HDF_CHUNK ? (g_hmc_flag == 0 && g_hmc_coder == COMP_CODE_NONE)
                       : flags == (HDF_CHUNK | HDF_NBIT)
                           ? (g_hmc_flag == SPECIAL_COMP && g_hmc_coder == COMP_CODE_NBIT)
                           : (g_hmc_flag == SPECIAL_COMP && g_hmc_coder == (int)chunk_def.comp.comp_type)));

/* ---------------------------------------------------------------- SDgetdimscale (C10: dimension scales)
   ASSUMED (replaced inside SDgetdimscale, body not verified here): the coordinate variable of the dimension is the variable with index
   g_cv, or the lookup fails; no variable is created on this path (nt == 0) */
NC_dim *g_dim;
int     g_cv;
int32 SDIgetcoordvar(NC *handle, NC_dim *dim, int32 id, int32 nt)
    __CPROVER_requires(handle == g_handle && dim == g_dim && nt == 0)
    __CPROVER_assigns()
    __CPROVER_ensures(__CPROVER_return_value == FAIL || __CPROVER_return_value == g_cv);

#ifdef H4V_NATIVE
#include "h4v_native_wrap.h"
#endif

/* ------------------------------------------------------------------ harnesses */
#define NV 2
static NC        s_nc;
static XDR       s_x;
static NC_array  s_vars;
static NC_var    s_var[NV];
static NC_iarray s_as[NV];
static NC_var   *s_tab[NV];

/* file with 1..NV variables of rank min_rank..MAXR, arbitrary shape */
static int
mk_file(int min_rank)
{
    H4V_HAVOC(int, g_d);
    H4V_HAVOC(int, g_b);
    g_io_calls = g_endaccess = g_route = g_io_ok = 0;
    g_io_ret = 0;
    g_lg_start = g_lg_edge = g_lg_stride = 0;
    g_lg_imap_null = 0;
    g_hmc_calls = g_conv_calls = g_conv_ok = g_hmc_ok = 0;
    H4V_ND(int, nvars);
    H4V_ASSUME(nvars >= 1 && nvars <= NV);
    /* (one named shape vector per variable: the replay maps values back by name) */
#define MK_VAR(i, SHP)                                                                               \
    {                                                                                                \
        H4V_ND(int, rank);                                                                           \
        H4V_ASSUME(rank >= min_rank && rank <= MAXR);                                                \
        s_as[i].count  = (unsigned)rank;                                                             \
        s_as[i].values = NULL;                                                                       \
        s_var[i].assoc = &s_as[i];                                                                   \
        H4V_ND_BUF(h4v_ulong, SHP, rank, MAXR);                                                      \
        for (int j = 0; j < MAXR; j++) /* extents are int32 dimension sizes (NC_dim.size) */         \
            if (j < rank)                                                                            \
                H4V_ASSUME(SHP[j] <= 2147483647UL);                                                  \
        /* NC_var_shape leaves shape/dsizes of a scalar variable NULL */                             \
        s_var[i].shape = (rank == 0) ? NULL : SHP;                                                   \
        H4V_ND(int, v_numrecs);                                                                      \
        H4V_ND(int32, v_aid);                                                                        \
        H4V_ND(int32, v_created);                                                                    \
        H4V_ND(int32, v_set_length);                                                                 \
        H4V_ASSUME(v_numrecs >= 0);                                                                  \
        s_var[i].numrecs    = v_numrecs;                                                             \
        s_var[i].aid        = v_aid;                                                                 \
        s_var[i].created    = v_created;                                                             \
        s_var[i].set_length = v_set_length;                                                          \
        s_var[i].data_tag   = DATA_TAG;                                                              \
        s_var[i].data_ref   = 2;                                                                     \
        s_var[i].attrs      = NULL;                                                                  \
        s_tab[i]            = &s_var[i];                                                             \
    }
    MK_VAR(0, shape0)
    MK_VAR(1, shape1)
    s_vars.count  = (unsigned)nvars;
    s_vars.values = (uint8_t *)s_tab;
    H4V_ND(unsigned, h_flags);
    H4V_ND(unsigned, h_numrecs);
    H4V_ND(int32, h_file);
    s_x.x_op       = XDR_FREE;
    s_nc.xdrs      = &s_x;
    s_nc.vars      = &s_vars;
    s_nc.dims      = NULL;
    s_nc.file_type = HDF_FILE;
    s_nc.flags     = h_flags;
    s_nc.numrecs   = h_numrecs;
    s_nc.hdf_file  = h_file;
    g_handle       = &s_nc;
    return nvars;
}

static int g_all1;
static void
run_rw(int is_read)
{
    g_is_read = is_read;
    int nvars = mk_file(0);
    /* the caller's arguments: any id of dataset type, any vectors (of MAXR elements), stride
       possibly NULL, a sentinel buffer */
    H4V_ND(int32, sdsid);
    H4V_ASSUME(((sdsid >> 16) & 0x0f) == SDSTYPE);
    H4V_ND_BUF(int32, start, MAXR, MAXR);
    H4V_ND_BUF(int32, stride_v, MAXR, MAXR);
    H4V_ND_BUF(int32, edge, MAXR, MAXR);
    H4V_ND(int, null_stride);
    int32 *stride = null_stride ? NULL : stride_v;
    H4V_ND_BUF(h4v_uchar, data, 8, 8);
    H4V_ND(int, k);
    H4V_ASSUME(0 <= k && k < 8);
    unsigned char data_k = data[k];
    H4V_ASSUME(g_d >= 0 && g_d < MAXR);
    int32 stride_d       = stride_v[g_d];
    g_varid  = (int)(sdsid & 0xffff);
    g_var    = (g_varid < nvars) ? s_tab[g_varid] : NULL;
    g_start  = start;
    g_stride = stride;
    g_edge   = edge;
    g_data   = data;

    int r = is_read ? SDreaddata(sdsid, start, stride, edge, data) : SDwritedata(sdsid, start, stride, edge, data);

    H4V_CHECK(data[k] == data_k, "the dispatcher does not touch the data buffer");
    H4V_CHECK(stride_v[g_d] == stride_d, "the dispatcher does not modify the stride vector");
    H4V_CHECK(g_var != NULL || (r == FAIL && g_io_calls == 0), "an id naming no variable is rejected before the I/O layer");
    int all1 = 1, rk = g_var ? (int)g_var->assoc->count : 0;
    for (int i = 0; i < MAXR; i++)
        if (stride != NULL && i < rk && stride[i] != 1)
            all1 = 0;
    H4V_COVER(g_route == R_GENIO && rk == MAXR && stride[MAXR - 1] != 1 && stride[0] == 1, "strided in the last dimension only");
    H4V_COVER(g_route == R_GENIO && rk >= 2 && stride[0] != 1 && stride[1] == 1, "strided in the first dimension only");
    H4V_COVER(g_route == R_VARIO && stride == NULL, "no stride vector");
    g_all1 = all1;
    H4V_COVER(r == FAIL && g_io_calls == 1, "I/O failure");
    H4V_COVER(r == SUCCEED && rk == 0, "scalar dataset");
}

void
h_SDwritedata_route(void)
{
    run_rw(0);
    H4V_COVER(g_route == R_VARIO && g_stride != NULL && (int)g_var->assoc->count == MAXR,
              "unit strides at full rank go to NCvario");
    H4V_CANARY("SDwritedata end");
}

void
h_SDreaddata_route(void)
{
    run_rw(1);
    H4V_COVER(g_route == R_GENIO && g_all1, "NCgenio with unit strides (read path)");
    H4V_CANARY("SDreaddata end");
}

/* size of one value of an HDF number type (DFKNTsize), 0: not a type SDcreate accepts */
static int
nt_size(int32 t)
{
    switch (t & 0xff) {
        case DFNT_CHAR8:
        case DFNT_UCHAR8:
        case DFNT_INT8:
        case DFNT_UINT8:
            return 1;
        case DFNT_INT16:
        case DFNT_UINT16:
            return 2;
        case DFNT_INT32:
        case DFNT_UINT32:
        case DFNT_FLOAT32:
            return 4;
        case DFNT_FLOAT64:
            return 8;
        default:
            return 0;
    }
}

void
h_SDsetchunk(void)
{
    int nvars = mk_file(0);
    H4V_ND(int32, sdsid);
    H4V_ASSUME(((sdsid >> 16) & 0x0f) == SDSTYPE);
    g_varid = (int)(sdsid & 0xffff);
    H4V_ASSUME(g_varid < nvars); /* ids naming no variable: see the SDwritedata/SDreaddata harness */
    g_var   = s_tab[g_varid];
    H4V_ASSUME(g_d >= 0 && g_d < MAXR && g_b >= 0 && g_b < 8);

    /* number type: any type SDcreate accepts, standard / native / little-endian */
    H4V_ND(int32, nt);
    H4V_ASSUME((nt & ~(0xff | DFNT_NATIVE | DFNT_LITEND)) == 0 && (nt & (DFNT_NATIVE | DFNT_LITEND)) != (DFNT_NATIVE | DFNT_LITEND));
    int sz = nt_size(nt);
    H4V_ASSUME(sz != 0);
#ifdef C04_W
    H4V_ASSUME(sz == C04_W);
#endif
    H4V_ND(int32, v_data_ref);
    H4V_ASSUME(v_data_ref >= 0 && v_data_ref <= 65535);

    /* the dataset's fill value: a _FillValue attribute of the dataset's type (SDsetfillvalue), or none */
    static NC_attr  s_attr;
    static NC_array s_ad;
    static NC_attr *s_attrp;
    H4V_ND(int, have_attr);
    g_have_attr = (have_attr != 0);
    H4V_ND_BUF(h4v_uchar, attr_vals, sz, 8);
    s_ad.values = attr_vals;
    s_ad.count  = 1;
    s_ad.szof   = (size_t)sz;
    s_ad.len    = (size_t)sz;
    s_attr.data = &s_ad;
    s_attrp     = &s_attr;
    g_attrp     = &s_attrp;
    /* the type's default fill value (mfhdf.h FILL_*) */
    uint8 dflt[8] = {0};
    switch (nt & 0xff) {
        case DFNT_CHAR8:
        case DFNT_UCHAR8:
            dflt[0] = (uint8)FILL_CHAR;
            break;
        case DFNT_INT8:
        case DFNT_UINT8:
            dflt[0] = (uint8)FILL_BYTE;
            break;
        case DFNT_INT16:
        case DFNT_UINT16: {
            int16 v = FILL_SHORT;
            memcpy(dflt, &v, 2);
        } break;
        case DFNT_INT32:
        case DFNT_UINT32: {
            int32 v = (int32)FILL_LONG;
            memcpy(dflt, &v, 4);
        } break;
        case DFNT_FLOAT32: {
            float32 v = FILL_FLOAT;
            memcpy(dflt, &v, 4);
        } break;
        default: {
            float64 v = FILL_DOUBLE;
            memcpy(dflt, &v, 8);
        } break;
    }
    H4V_ND_BUF(h4v_uchar, conv_out, 8, 8);
    for (int i = 0; i < 8; i++) {
        g_fill[i]     = (i < sz) ? (g_have_attr ? attr_vals[i] : dflt[i]) : 0;
        g_conv_out[i] = conv_out[i];
    }
    for (int i = 0; i < NV; i++) {
        s_var[i].HDFtype  = nt;
        s_var[i].HDFsize  = sz;
        s_var[i].data_ref = (uint16)v_data_ref;
    }

    /* the caller's chunk definition: any of the three layouts, any flags */
    static HDF_CHUNK_DEF def;
    H4V_ND(int32, flags);
    H4V_ND_BUF(int32, cl, MAXR, MAXR);
    for (int i = 0; i < MAXR; i++) {
        /* bound: the chunk's element count fits an int32 (chunk_size *= cdims[i] is unchecked in SDsetchunk) */
        H4V_ASSUME(cl[i] <= 128);
        def.chunk_lengths[i] = cl[i];
    }
    H4V_ND(int, comp_type);
    if (flags == (HDF_CHUNK | HDF_COMP))
        def.comp.comp_type = comp_type;

    int r = SDsetchunk(sdsid, def, flags);

    H4V_COVER(r == SUCCEED && g_conv_calls == 1 && g_have_attr && sz == 8, "converted user-set float64/8-byte fill value");
    H4V_COVER(r == SUCCEED && g_conv_calls == 1 && !g_have_attr && sz == 2, "converted default 16-bit fill value");
    H4V_COVER(r == SUCCEED && g_conv_calls == 0 && sz == 4, "native/little-endian 32-bit: no conversion");
    H4V_COVER(r == SUCCEED && flags == (HDF_CHUNK | HDF_NBIT), "n-bit chunking");
    H4V_COVER(r == SUCCEED && flags == (HDF_CHUNK | HDF_COMP), "compressed chunking");
    H4V_COVER(r == SUCCEED && g_var != NULL && (int)g_var->assoc->count == MAXR, "full rank");
    H4V_COVER(r == FAIL && g_hmc_calls == 1, "HMCcreate / Hendaccess failure");
    H4V_CANARY("SDsetchunk end");
}


/* SDgetdimscale: the scale of a dimension is read from its coordinate variable, from the start, with as many values as the dimension
   is long -- for an unlimited dimension as many as THAT variable has records (not as many as the longest record variable of the file) */
void
h_SDgetdimscale(void)
{
    static NC_dim   s_dim;
    static NC_dim  *s_dimtab[1];
    static NC_array s_dims;
    int nvars = mk_file(1);
    H4V_ND(long, dim_size);
    H4V_ND(int, cv);
    H4V_ND(int32, id);
    H4V_ASSUME(dim_size >= 0 && dim_size <= 2147483647L && cv >= 0 && cv < nvars);
    H4V_ASSUME(((id >> 16) & 0x0f) == DIMTYPE && (id & 0xffff) == 0);
    s_dim.size    = dim_size;
    s_dimtab[0]   = &s_dim;
    s_dims.count  = 1;
    s_dims.values = (uint8_t *)s_dimtab;
    s_nc.dims     = &s_dims;
    g_dim         = &s_dim;
    g_cv          = cv;
    g_varid       = cv;
    g_var         = s_tab[cv];
    g_is_read     = 1;
    g_d           = 0; /* a coordinate variable has one dimension: log its start / count */
    H4V_ASSUME(g_var->assoc->count >= 1);
    H4V_ND_BUF(h4v_uchar, data, 8, 8);
    g_data = data;
    long v_recs = (long)g_var->numrecs;
    int  r      = SDgetdimscale(id, data);
    H4V_CHECK(r == SUCCEED || r == FAIL, "SUCCEED or FAIL");
    H4V_CHECK(r != SUCCEED || (g_io_calls == 1 && g_io_ok && g_route == R_VARIO && g_io_ret == 0),
              "SDgetdimscale reads through NCvario: this file, the coordinate variable, the caller's buffer, decoding");
    H4V_CHECK(r != SUCCEED || (g_lg_start == 0 && g_lg_edge == (dim_size != 0 ? dim_size : v_recs)),
              "C10 the scale has as many values as the dimension is long (unlimited: as the coordinate variable has records)");
    H4V_CHECK(!(g_io_calls == 1 && g_io_ret != 0) || r == FAIL, "an I/O failure is reported");
    H4V_COVER(r == SUCCEED && dim_size == 0 && v_recs != (long)s_nc.numrecs, "getdimscale: unlimited dimension shorter than the file's longest");
    H4V_COVER(r == SUCCEED && dim_size > 0, "getdimscale: fixed dimension");
    H4V_COVER(r == FAIL && g_io_calls == 0, "getdimscale: refused before I/O");
    H4V_CANARY("SDgetdimscale end");
}

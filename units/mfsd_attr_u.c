/* Verification unit: mfhdf/src/mfsd.c (C10: SD attribute put/replace/append and query)
 *   SDIputattr   the attribute-list update behind SDsetattr and all predefined attributes
 *   SDsetattr    argument checks + SDIputattr (inlined) on the list the id names
 *   SDattrinfo   reports exactly the stored HDF number type / count / name of the attribute at an index
 *   SDreadattr   copies exactly count*szof value bytes of the attribute at an index
 * The netCDF constructors (attr.c, array.c) and the type maps (cdf.c) are trusted stubs.
 */
#include "h4v.h"
#include "h4v_err.h"
#include <string.h>
#include "nc_priv.h"

typedef unsigned char h4v_u8;
H4V_DECL_ND(int);
H4V_DECL_ND(int32);
H4V_DECL_ND(unsigned);
H4V_DECL_ND(h4v_u8);

/* ------------------------------------------------------------------------------------------
 * Ghost model: ONE open SD file (slot g_cdfid), one attribute list *g_ap (of a dataset, of the
 * file, or of a dimension's coordinate variable), on entry g_arr0 with g_old_n attributes.
 *   g_exp   index of the attribute whose name equals `name` (what NC_findattr returns; -1: none)
 *   g_ex    that attribute;  g_j / g_oth: ghost OTHER slot and the attribute in it
 * ------------------------------------------------------------------------------------------ */
int        g_cdfid;
NC        *g_handle;    /* NULL: no such file */
unsigned   g_old_flags; /* handle->flags on entry */
NC_array **g_ap;        /* the list the id names (NULL: the id names nothing) */
NC_array  *g_arr0;      /* *g_ap on entry */
unsigned   g_old_n;     /* its count on entry (0 if none) */
int        g_exp;
int        g_j;
NC_attr   *g_ex, *g_oth;
NC_attr   *g_at;        /* query functions: the attribute the index names (NULL: none) */
unsigned   g_namelen;   /* strlen(name) as the constructor sees it */
int32      g_k;         /* ghost byte index (name / value bytes) */
size_t     g_nbytes;    /* SDreadattr: size of the value in bytes */
/* faults injected into the constructors (arbitrary, chosen by the harness) */
int g_newattr_fails, g_newarr_fails, g_incr_fails;
int g_excl_oom_append; /* harness switch: leave "NC_new_attr fails on the append path" out */
int g_ntsize; /* what DFKNTsize(nt) returns */
/* logs of the stubs */
int      g_newattr_calls, g_newarr_calls, g_incr_calls, g_nfree;
int      g_allocfail; /* a constructor reported failure */
NC_attr *g_new;       /* the attribute NC_new_attr made */
NC_attr *g_freed;     /* the attribute NC_free_attr released */
/* SDIapfromid via a dimension id */
NC_var *g_cvar;    /* what NC_hlookupvar returns for the coordinate variable (may be NULL) */
int     g_cv_calls;

const char *cdf_routine_name;

/* the documented HDF -> netCDF type map (cdf.c hdf_unmap_type: looks at the low byte only) */
#define H4V_LOW(nt) ((nt)&0xff)
#define H4V_UNMAP(nt)                                                                                \
    ((H4V_LOW(nt) == DFNT_CHAR || H4V_LOW(nt) == DFNT_UCHAR)       ? NC_CHAR                         \
     : (H4V_LOW(nt) == DFNT_INT8 || H4V_LOW(nt) == DFNT_UINT8)     ? NC_BYTE                         \
     : (H4V_LOW(nt) == DFNT_INT16 || H4V_LOW(nt) == DFNT_UINT16)   ? NC_SHORT                        \
     : (H4V_LOW(nt) == DFNT_INT32 || H4V_LOW(nt) == DFNT_UINT32)   ? NC_LONG                         \
     : (H4V_LOW(nt) == DFNT_FLOAT32)                               ? NC_FLOAT                        \
     : (H4V_LOW(nt) == DFNT_FLOAT64)                               ? NC_DOUBLE                       \
                                                                   : (nc_type)FAIL)
/* netCDF -> HDF (cdf.c hdf_map_type): the SIGNED / plain-char member of each pair */
#define H4V_MAP(t)                                                                                   \
    ((t) == NC_CHAR || (t) == NC_UNSPECIFIED ? DFNT_CHAR                                             \
     : (t) == NC_BYTE                        ? DFNT_INT8                                             \
     : (t) == NC_SHORT                       ? DFNT_INT16                                            \
     : (t) == NC_LONG                        ? DFNT_INT32                                            \
     : (t) == NC_FLOAT                       ? DFNT_FLOAT32                                          \
     : (t) == NC_DOUBLE                      ? DFNT_FLOAT64                                          \
                                             : DFNT_NONE)

/* ------------------------------------------------------------------ trusted stubs */
NC *
NC_check_id(int cdfid)
{
    return cdfid == g_cdfid ? g_handle : NULL;
}

nc_type
hdf_unmap_type(int type)
{
    return H4V_UNMAP(type);
}

int
DFKNTsize(int32 number_type)
{
    (void)number_type;
    return g_ntsize;
}

/* attr.c NC_new_attr: a new attribute object made from the arguments; like the real one it sets
   HDFtype from the netCDF type (which cannot tell signed from unsigned, char from uchar) */
NC_attr *
NC_new_attr(const char *name, nc_type type, unsigned count, const void *values)
{
    g_newattr_calls++;
    if (g_newattr_fails) {
        g_allocfail = 1;
        return NULL;
    }
    NC_attr   *a = malloc(sizeof(NC_attr));
    NC_string *s = malloc(sizeof(NC_string));
    NC_array  *d = malloc(sizeof(NC_array));
    if (a == NULL || s == NULL || d == NULL) {
        H4V_ASSUME(!(g_excl_oom_append && g_exp < 0 && g_arr0 != NULL));
        g_allocfail = 1;
        return NULL;
    }
    s->count = s->len = g_namelen;
    s->hash           = 0;
    s->values         = (char *)name; /* contents not copied in the model: the source is recorded */
    d->type           = type;
    d->count          = count;
    d->len            = 0;
    d->szof           = 1;
    d->values         = (uint8_t *)values; /* idem */
    a->name           = s;
    a->data           = d;
    a->HDFtype        = H4V_MAP(type);
    g_new             = a;
    return a;
}

int
NC_free_attr(NC_attr *attr)
{
    g_freed = attr;
    g_nfree++;
    return SUCCEED;
}

NC_attr **
NC_findattr(NC_array **ap, const char *name)
{
    (void)name;
    if (*ap == NULL || g_exp < 0)
        return NULL;
    return (NC_attr **)(*ap)->values + g_exp;
}

NC_array *
NC_new_array(nc_type type, unsigned count, const void *values)
{
    g_newarr_calls++;
    H4V_CHECK(type == NC_ATTRIBUTE && count == 1, "NC_new_array: the list is created with its first attribute");
    if (g_newarr_fails) {
        g_allocfail = 1;
        return NULL;
    }
    NC_array *a = malloc(sizeof(NC_array));
    NC_attr **v = malloc(2 * sizeof(NC_attr *));
    if (a == NULL || v == NULL) {
        g_allocfail = 1;
        return NULL;
    }
    a->type   = type;
    a->count  = count;
    a->len    = 0;
    a->szof   = sizeof(NC_attr *);
    v[0]      = ((NC_attr *const *)values)[0];
    a->values = (uint8_t *)v;
    return a;
}

uint8_t *
NC_incr_array(NC_array *array, uint8_t *tail)
{
    g_incr_calls++;
    if (array == NULL || g_incr_fails) {
        g_allocfail = 1;
        return NULL;
    }
    /* model of realloc((count+1)*szof) + copy of the tail: the harness allocates count+1 slots */
    H4V_CHECK(array->szof == sizeof(NC_attr *), "NC_incr_array on the attribute list");
    ((NC_attr **)array->values)[array->count] = *(NC_attr **)tail;
    array->count++;
    return array->values;
}

NC_var *
NC_hlookupvar(NC *handle, int varid)
{
    (void)handle;
    (void)varid;
    return g_cvar;
}

/* memcpy with a symbolic length: sparse model in proof mode (first, last and ghost byte), the real
   loop in counterexample mode and natively */
static void *
h4v_memcpy(void *d, const void *s, size_t n)
{
#if defined(H4V_CBMC) && !defined(H4V_CEX)
    if (n > 0) {
        h4v_u8 first = ((const h4v_u8 *)s)[0], last = ((const h4v_u8 *)s)[n - 1];
        ((h4v_u8 *)d)[0]     = first;
        ((h4v_u8 *)d)[n - 1] = last;
        if (g_k >= 0 && (size_t)g_k < n)
            ((h4v_u8 *)d)[g_k] = ((const h4v_u8 *)s)[g_k];
    }
#else
    for (size_t i = 0; i < n; i++)
        ((h4v_u8 *)d)[i] = ((const h4v_u8 *)s)[i];
#endif
    return d;
}
#define memcpy h4v_memcpy

#include "mfsd.c"

#undef memcpy

/* ------------------------------------------------------------------ contracts */
#define PA_SLOTS(a) ((NC_attr **)(a)->values)
/* the attribute in slot i of list a is made from the arguments: EVERY descriptive field is the new one */
#define PA_IS_NEW(at, name, nt, count, data)                                                         \
    ((at) == g_new && g_new != NULL && g_new->HDFtype == (nt) && g_new->data != NULL &&               \
     g_new->data->type == H4V_UNMAP(nt) && g_new->data->count == (unsigned)(count) &&                 \
     g_new->data->values == (const uint8_t *)(data) && g_new->name != NULL && g_new->name->values == (name) && \
     g_new->name->len == g_namelen)
/* the environment described by the ghosts */
#define PA_ENV(ap)                                                                                   \
    (*(ap) == g_arr0 &&                                                                              \
     (g_arr0 == NULL ? (g_old_n == 0 && g_exp < 0)                                                   \
                     : (g_arr0->values != NULL && g_arr0->count == g_old_n && g_old_n <= 0x7ffffff0 && \
                        g_arr0->szof == sizeof(NC_attr *) && g_exp < (int)g_old_n)) &&                  \
     (g_exp < 0 || (g_ex != NULL && PA_SLOTS(g_arr0)[g_exp] == g_ex)) && g_j >= 0 && g_j != g_exp &&  \
     ((unsigned)g_j >= g_old_n || PA_SLOTS(g_arr0)[g_j] == g_oth) && g_newattr_calls == 0 &&          \
     g_newarr_calls == 0 && g_incr_calls == 0 && g_nfree == 0 && g_allocfail == 0)
#define PA_LIMIT_HIT (g_exp < 0 && g_arr0 != NULL && g_old_n >= H4_MAX_NC_ATTRS)

int SDIputattr(NC_array **ap, const char *name, int32 nt, int count, const void *data)
    __CPROVER_requires(ap != NULL && name != NULL)
    __CPROVER_requires(PA_ENV(ap))
    __CPROVER_assigns(*ap; g_arr0 != NULL: g_arr0->count; g_arr0 != NULL: __CPROVER_object_whole(g_arr0->values);
                      g_newattr_calls, g_newarr_calls, g_incr_calls, g_nfree, g_allocfail, g_new, g_freed)
    __CPROVER_ensures(__CPROVER_return_value == SUCCEED || __CPROVER_return_value == FAIL)
    /* a number type without netCDF counterpart: refused before anything is built */
    __CPROVER_ensures(H4V_UNMAP(nt) == (nc_type)FAIL ==> (__CPROVER_return_value == FAIL && g_newattr_calls == 0))
    /* failure leaves the list as it was: same list, same count, the attribute of this name still there, nothing released */
    __CPROVER_ensures(__CPROVER_return_value == FAIL ==>
                      (*ap == g_arr0 && g_nfree == 0 &&
                       (g_arr0 == NULL || (g_arr0->count == g_old_n && (g_exp < 0 || PA_SLOTS(g_arr0)[g_exp] == g_ex)))))
    /* every other attribute keeps its slot, whatever happens */
    __CPROVER_ensures((g_arr0 != NULL && (unsigned)g_j < g_old_n) ==> (*ap == g_arr0 && PA_SLOTS(g_arr0)[g_j] == g_oth))
    /* existing name: replaced IN ITS SLOT (index kept, count kept) by an attribute whose netCDF type,
       HDF number type, count, values and name are the new ones; the old attribute (only) is released */
    __CPROVER_ensures((__CPROVER_return_value == SUCCEED && g_exp >= 0) ==>
                      (*ap == g_arr0 && g_arr0->count == g_old_n && PA_IS_NEW(PA_SLOTS(g_arr0)[g_exp], name, nt, count, data) &&
                       g_nfree == 1 && g_freed == g_ex && g_newattr_calls == 1))
    /* new name: appended at the old count, count grows by one, limit H4_MAX_NC_ATTRS */
    __CPROVER_ensures((__CPROVER_return_value == SUCCEED && g_exp < 0 && g_arr0 != NULL) ==>
                      (*ap == g_arr0 && g_old_n < H4_MAX_NC_ATTRS && g_arr0->count == g_old_n + 1 &&
                       PA_IS_NEW(PA_SLOTS(g_arr0)[g_old_n], name, nt, count, data) && g_nfree == 0 && g_newattr_calls == 1))
    /* no list yet: created with this attribute in slot 0 */
    __CPROVER_ensures((__CPROVER_return_value == SUCCEED && g_arr0 == NULL) ==>
                      (*ap != NULL && (*ap)->count == 1 && (*ap)->values != NULL &&
                       PA_IS_NEW(PA_SLOTS(*ap)[0], name, nt, count, data) && g_nfree == 0 && g_newattr_calls == 1))
    /* no failure without a reason */
    __CPROVER_ensures((H4V_UNMAP(nt) != (nc_type)FAIL && !g_allocfail && !PA_LIMIT_HIT) ==> __CPROVER_return_value == SUCCEED);

/* the argument checks of SDsetattr (count and total size limited by what a Vdata field can hold) */
#define SA_BADARGS(name, nt, count)                                                                  \
    ((name) == NULL || ((nt)&DFNT_NATIVE) || (count) <= 0 || g_ntsize == FAIL || (count) > MAX_ORDER ||      \
     (count)*g_ntsize > MAX_FIELD_SIZE)

int SDsetattr(int32 id, const char *name, int32 nt, int32 count, const void *data)
    __CPROVER_requires(g_ap == NULL || (g_handle != NULL && PA_ENV(g_ap)))
    __CPROVER_requires(g_handle == NULL || g_handle->flags == g_old_flags)
    __CPROVER_requires(g_ntsize == FAIL || (g_ntsize >= 1 && g_ntsize <= 8))
    __CPROVER_requires(g_newattr_calls == 0 && g_nfree == 0 && g_allocfail == 0 && g_cv_calls == 0)
    __CPROVER_assigns(g_ap != NULL: *g_ap; g_arr0 != NULL: g_arr0->count; g_arr0 != NULL: __CPROVER_object_whole(g_arr0->values);
                      g_handle != NULL: g_handle->flags;
                      g_newattr_calls, g_newarr_calls, g_incr_calls, g_nfree, g_allocfail, g_new, g_freed, g_cv_calls)
    __CPROVER_ensures(__CPROVER_return_value == SUCCEED || __CPROVER_return_value == FAIL)
    /* bad arguments or an id that names nothing: FAIL, nothing built, nothing released, header not marked */
    __CPROVER_ensures((SA_BADARGS(name, nt, count) || g_ap == NULL) ==>
                      (__CPROVER_return_value == FAIL && g_newattr_calls == 0 && g_nfree == 0))
    __CPROVER_ensures((__CPROVER_return_value == FAIL && g_handle != NULL) ==> g_handle->flags == g_old_flags)
    __CPROVER_ensures((__CPROVER_return_value == FAIL && g_ap != NULL) ==>
                      (*g_ap == g_arr0 && g_nfree == 0 &&
                       (g_arr0 == NULL || (g_arr0->count == g_old_n && (g_exp < 0 || PA_SLOTS(g_arr0)[g_exp] == g_ex)))))
    __CPROVER_ensures((g_ap != NULL && g_arr0 != NULL && (unsigned)g_j < g_old_n) ==> (*g_ap == g_arr0 && PA_SLOTS(g_arr0)[g_j] == g_oth))
    /* success: the header is marked dirty and the attribute of this name -- at its old index or appended -- is the new one */
    __CPROVER_ensures(__CPROVER_return_value == SUCCEED ==> (g_handle != NULL && g_handle->flags == (g_old_flags | NC_HDIRTY) && g_ap != NULL))
    __CPROVER_ensures((__CPROVER_return_value == SUCCEED && g_exp >= 0) ==>
                      (*g_ap == g_arr0 && g_arr0->count == g_old_n && PA_IS_NEW(PA_SLOTS(g_arr0)[g_exp], name, nt, count, data) &&
                       g_nfree == 1 && g_freed == g_ex))
    __CPROVER_ensures((__CPROVER_return_value == SUCCEED && g_exp < 0 && g_arr0 != NULL) ==>
                      (*g_ap == g_arr0 && g_old_n < H4_MAX_NC_ATTRS && g_arr0->count == g_old_n + 1 &&
                       PA_IS_NEW(PA_SLOTS(g_arr0)[g_old_n], name, nt, count, data) && g_nfree == 0))
    __CPROVER_ensures((__CPROVER_return_value == SUCCEED && g_arr0 == NULL) ==>
                      (*g_ap != NULL && (*g_ap)->count == 1 && PA_IS_NEW(PA_SLOTS(*g_ap)[0], name, nt, count, data) && g_nfree == 0))
    __CPROVER_ensures((!SA_BADARGS(name, nt, count) && g_ap != NULL && H4V_UNMAP(nt) != (nc_type)FAIL && !g_allocfail && !PA_LIMIT_HIT) ==>
                      __CPROVER_return_value == SUCCEED);

/* SDIgetcoordvar (dimension ids only): ASSUMED -- yields some variable index and does not touch any
   attribute list; NC_hlookupvar (stub) then yields g_cvar */
int32 SDIgetcoordvar(NC *handle, NC_dim *dim, int32 id, int32 nt)
    __CPROVER_requires(handle != NULL && dim != NULL)
    __CPROVER_assigns(g_cv_calls)
    __CPROVER_ensures(g_cv_calls == __CPROVER_old(g_cv_calls) + 1);

/* the attribute an index names in the list the id names: g_at (NULL: the index names nothing) */
#define AI_OK(index) (g_ap != NULL && *g_ap != NULL && (index) >= 0 && (unsigned)(index) < (*g_ap)->count && PA_SLOTS(*g_ap)[index] != NULL)
#define AI_ENV(index)                                                                                \
    ((g_ap == NULL || *g_ap == NULL || ((*g_ap)->values != NULL && (*g_ap)->szof == sizeof(NC_attr *) && (*g_ap)->count <= 0x7ffffff0)) && \
     (g_at == NULL ? !AI_OK(index) : (AI_OK(index) && PA_SLOTS(*g_ap)[index] == g_at)) && g_cv_calls == 0)

int SDattrinfo(int32 id, int32 index, char *name, int32 *nt, int32 *count)
    __CPROVER_requires(AI_ENV(index))
    /* the attribute of interest is well-formed; the caller's name buffer holds the name and its terminator */
    __CPROVER_requires(g_at == NULL || (g_at->name != NULL && g_at->data != NULL && g_at->name->values != NULL &&
                                        g_at->name->len == g_namelen && g_namelen <= H4_MAX_NC_NAME))
    __CPROVER_assigns(name != NULL && nt != NULL && count != NULL: __CPROVER_object_upto(name, (__CPROVER_size_t)g_namelen + 1);
                      name != NULL && nt != NULL && count != NULL: *nt, *count; g_cv_calls)
    __CPROVER_ensures(__CPROVER_return_value == SUCCEED || __CPROVER_return_value == FAIL)
    __CPROVER_ensures((__CPROVER_return_value == SUCCEED) == (name != NULL && nt != NULL && count != NULL && g_at != NULL))
    /* exactly the stored HDF number type and count */
    __CPROVER_ensures(__CPROVER_return_value == SUCCEED ==>
                      (*nt == g_at->HDFtype && *count == (int32)g_at->data->count && name[g_namelen] == '\0'))
    __CPROVER_ensures((__CPROVER_return_value == SUCCEED && g_k >= 0 && (unsigned)g_k < g_namelen) ==> name[g_k] == g_at->name->values[g_k]);

/* g_nbytes: the size of the attribute's value in bytes, count*szof (szof is 1, 2, 4 or 8: NC_typelen) */
#define RA_MUL(c, w) ((w) == 1 ? (size_t)(c) : (w) == 2 ? (size_t)(c)*2 : (w) == 4 ? (size_t)(c)*4 : (size_t)(c)*8)
int SDreadattr(int32 id, int32 index, void *buf)
    __CPROVER_requires(AI_ENV(index))
    __CPROVER_requires(g_at == NULL || (g_at->data != NULL && g_at->data->values != NULL && g_at->data->count <= MAX_ORDER &&
                                        (g_at->data->szof == 1 || g_at->data->szof == 2 || g_at->data->szof == 4 || g_at->data->szof == 8) &&
                                        g_nbytes == RA_MUL(g_at->data->count, g_at->data->szof)))
    __CPROVER_assigns(buf != NULL && g_at != NULL: __CPROVER_object_upto(buf, g_nbytes); g_cv_calls)
    __CPROVER_ensures(__CPROVER_return_value == SUCCEED || __CPROVER_return_value == FAIL)
    __CPROVER_ensures((__CPROVER_return_value == SUCCEED) == (buf != NULL && g_at != NULL))
    __CPROVER_ensures((__CPROVER_return_value == SUCCEED && g_k >= 0 && (size_t)g_k < g_nbytes) ==>
                      ((h4v_u8 *)buf)[g_k] == g_at->data->values[g_k]);

#ifdef H4V_NATIVE
#include "h4v_native_wrap.h"
#endif

/* ------------------------------------------------------------------ harnesses */
static void
reset_logs(void)
{
    g_newattr_calls = g_newarr_calls = g_incr_calls = g_nfree = g_allocfail = g_cv_calls = 0;
    g_new                                                                                = NULL;
    g_freed                                                                              = NULL;
}

/* an attribute list with g_old_n attributes of which two are modelled: slot g_exp (same name) and
   the ghost slot g_j; room for one more (see NC_incr_array).  Returns the list (NULL: none). */
static NC_array *
mk_list(void)
{
    H4V_HAVOC(int, g_exp);
    H4V_HAVOC(int, g_j);
    H4V_HAVOC(unsigned, g_namelen);
    H4V_HAVOC(int, g_newattr_fails);
    H4V_HAVOC(int, g_newarr_fails);
    H4V_HAVOC(int, g_incr_fails);
    H4V_ND(int, list_null);
    H4V_ND(unsigned, nattrs);
    NC_array *arr = NULL;
    g_ex = g_oth = NULL;
    H4V_ASSUME(g_j >= 0 && g_j != g_exp);
    if (list_null) {
        H4V_ASSUME(g_exp < 0);
        g_old_n = 0;
    }
    else {
        H4V_ASSUME(nattrs <= H4_MAX_NC_ATTRS + 1);
        H4V_ASSUME(g_exp < (int)nattrs);
        arr = malloc(sizeof(NC_array));
        H4V_ASSUME(arr != NULL);
        arr->type   = NC_ATTRIBUTE;
        arr->count  = nattrs;
        arr->szof   = sizeof(NC_attr *);
        arr->len    = 0;
        arr->values = malloc((size_t)(nattrs + 1) * sizeof(NC_attr *));
        H4V_ASSUME(arr->values != NULL);
        g_old_n = nattrs;
        if ((unsigned)g_j < nattrs) {
            g_oth = malloc(sizeof(NC_attr));
            H4V_ASSUME(g_oth != NULL);
            g_oth->name    = NULL;
            g_oth->data    = NULL;
            g_oth->HDFtype = DFNT_FLOAT64;
            ((NC_attr **)arr->values)[g_j] = g_oth;
        }
        if (g_exp >= 0) {
            /* the attribute of the same name, with some OTHER type and count */
            H4V_ND(unsigned, old_count);
            H4V_ND(int32, old_hdftype);
            g_ex         = malloc(sizeof(NC_attr));
            NC_array *xd = malloc(sizeof(NC_array));
            H4V_ASSUME(g_ex != NULL && xd != NULL);
            xd->type      = H4V_UNMAP(old_hdftype);
            xd->count     = old_count;
            xd->szof      = 1;
            xd->len       = 0;
            xd->values    = NULL;
            g_ex->name    = NULL;
            g_ex->data    = xd;
            g_ex->HDFtype = old_hdftype;
            ((NC_attr **)arr->values)[g_exp] = g_ex;
        }
    }
    g_arr0 = arr;
    return arr;
}

/* SDIputattr on any list, any number type, any count; constructors may fail.
   no_oom_append: exclude "NC_new_attr fails on the append path" (see the report: NULL dereference) */
static void
putattr_body(int no_oom_append)
{
    NC_array *arr = mk_list();
    reset_logs();
    H4V_ND(int32, nt);
    H4V_ND(int, count);
    static char name[2] = {'a', 0};
    static char vals[1];
    g_excl_oom_append = no_oom_append;
    if (no_oom_append)
        H4V_ASSUME(!(g_newattr_fails && g_exp < 0 && arr != NULL));
    int r = SDIputattr(&arr, name, nt, count, vals);
    H4V_COVER(r == SUCCEED && g_exp >= 0 && H4V_LOW(nt) == DFNT_UINT8, "putattr: replace with an unsigned type");
    H4V_COVER(r == SUCCEED && g_exp >= 0 && g_exp == (int)g_old_n - 1 && g_old_n == H4_MAX_NC_ATTRS, "putattr: replace in a full list");
    H4V_COVER(r == SUCCEED && g_exp < 0 && g_arr0 != NULL && g_old_n == H4_MAX_NC_ATTRS - 1, "putattr: append the last allowed attribute");
    H4V_COVER(r == SUCCEED && g_exp < 0 && g_arr0 != NULL && g_old_n == 0, "putattr: append to an emptied list");
    H4V_COVER(r == FAIL && g_exp < 0 && g_old_n == H4_MAX_NC_ATTRS && !g_allocfail, "putattr: limit reached");
    H4V_COVER(r == SUCCEED && g_arr0 == NULL && nt == DFNT_UCHAR, "putattr: first attribute");
    H4V_COVER(r == FAIL && g_exp >= 0 && g_allocfail, "putattr: replace fails, old attribute kept");
    H4V_COVER(r == FAIL && g_arr0 == NULL && g_newarr_fails, "putattr: list creation fails");
    H4V_COVER(r == FAIL && H4V_UNMAP(nt) == (nc_type)FAIL, "putattr: unknown number type");
    H4V_CANARY("SDIputattr end");
}

void
h_SDIputattr(void)
{
    putattr_body(0);
}

void
h_SDIputattr_mem(void)
{
    putattr_body(1);
}

/* ---- the id layer: one file with a dataset table, a dimension table and global attributes ---- */
#define SD_MKID(fid, typ, idx) (((int32)(fid) << 20) | ((int32)(typ) << 16) | (int32)(idx))

/* builds the file; decodes `id` the way the SD interface documents it (file slot in bits 20..31,
   kind in bits 16..19, index in bits 0..15) and sets g_ap to the attribute list it names */
static void
mk_file(int32 id, NC_array *arr)
{
    H4V_HAVOC(int, g_cdfid);
    H4V_ND(int, handle_null);
    H4V_ND(unsigned, hflags);
    H4V_ND(unsigned, nvars);
    H4V_ND(unsigned, ndims);
    H4V_ND(int, vars_null);
    H4V_ND(int, dims_null);
    H4V_ND(int, cvar_null);
    H4V_ASSUME(g_cdfid >= 0 && g_cdfid < 0x1000);
    H4V_ASSUME(nvars <= 0x10000 && ndims <= 0x10000);
    int      fid = (int)((id >> 20) & 0xfff);
    int      typ = (int)((id >> 16) & 0x0f);
    unsigned idx = (unsigned)(id & 0xffff);
#if defined(H4V_NATIVE) || defined(H4V_CEX)
    /* natively the REAL SDIgetcoordvar would run (it is replaced by its assumed contract in the proof):
       dimension ids are not replayed, and counterexamples are searched among the other ids */
    H4V_ASSUME(typ != DIMTYPE);
#endif
    g_handle     = NULL;
    g_ap         = NULL;
    g_cvar       = NULL;
    g_old_flags  = hflags;
    if (handle_null)
        return;
    g_handle = malloc(sizeof(NC));
    H4V_ASSUME(g_handle != NULL);
    g_handle->flags     = hflags;
    g_handle->xdrs      = NULL;
    g_handle->file_type = HDF_FILE;
    g_handle->attrs     = NULL;
    g_handle->vars      = NULL;
    g_handle->dims      = NULL;
    NC_var *var  = malloc(sizeof(NC_var));
    NC_var *cvar = malloc(sizeof(NC_var));
    NC_dim *dim  = malloc(sizeof(NC_dim));
    H4V_ASSUME(var != NULL && cvar != NULL && dim != NULL);
    var->attrs  = NULL;
    cvar->attrs = NULL;
    if (!vars_null) {
        NC_array *va = malloc(sizeof(NC_array));
        H4V_ASSUME(va != NULL);
        va->type = NC_VARIABLE;
        va->count = nvars;
        va->szof  = sizeof(NC_var *);
        va->len   = 0;
        va->values = malloc(((size_t)nvars + 1) * sizeof(NC_var *));
        H4V_ASSUME(va->values != NULL);
        if (idx < nvars)
            ((NC_var **)va->values)[idx] = var;
        g_handle->vars = va;
    }
    if (!dims_null) {
        NC_array *da = malloc(sizeof(NC_array));
        H4V_ASSUME(da != NULL);
        da->type = NC_DIMENSION;
        da->count = ndims;
        da->szof  = sizeof(NC_dim *);
        da->len   = 0;
        da->values = malloc(((size_t)ndims + 1) * sizeof(NC_dim *));
        H4V_ASSUME(da->values != NULL);
        if (idx < ndims)
            ((NC_dim **)da->values)[idx] = dim;
        g_handle->dims = da;
    }
    if (!cvar_null)
        g_cvar = cvar;
    /* what the id names */
    if (id != -1 && fid == g_cdfid) {
        if (typ == SDSTYPE && !vars_null && idx < nvars)
            g_ap = &var->attrs;
        else if (typ == CDFTYPE)
            g_ap = &g_handle->attrs;
        else if (typ == DIMTYPE && !dims_null && idx < ndims && g_cvar != NULL)
            g_ap = &g_cvar->attrs;
    }
    if (g_ap != NULL)
        *g_ap = arr;
}

void
h_SDsetattr(void)
{
    NC_array *arr = mk_list();
    reset_logs();
    H4V_HAVOC(int, g_ntsize);
    H4V_ASSUME(g_ntsize == FAIL || (g_ntsize >= 1 && g_ntsize <= 8));
    H4V_ND(int32, id);
    H4V_ND(int32, nt);
    H4V_ND(int32, count);
    H4V_ND(int, name_null);
    mk_file(id, arr);
    /* the append-path NULL dereference of SDIputattr (reported there) is kept out of this obligation */
    H4V_ASSUME(!(g_newattr_fails && g_exp < 0 && arr != NULL));
    g_excl_oom_append = 1;
    static char name[2] = {'a', 0};
    static char vals[1];
    int r = SDsetattr(id, name_null ? NULL : name, nt, count, vals);
    H4V_COVER(r == SUCCEED && g_exp >= 0 && ((id >> 16) & 0xf) == SDSTYPE, "setattr: replace on a dataset");
    H4V_COVER(r == SUCCEED && g_exp < 0 && g_arr0 != NULL && ((id >> 16) & 0xf) == CDFTYPE, "setattr: append to the file attributes");
    H4V_COVER(r == SUCCEED && g_arr0 == NULL && ((id >> 16) & 0xf) == DIMTYPE, "setattr: first attribute of a dimension");
    H4V_COVER(r == FAIL && g_ap != NULL && !name_null && count > MAX_ORDER, "setattr: count too large");
    H4V_COVER(r == FAIL && g_ap != NULL && !name_null && count <= MAX_ORDER && count > 0 && g_ntsize > 1 && !(nt & DFNT_NATIVE) &&
                  count * g_ntsize > MAX_FIELD_SIZE, "setattr: total size too large");
    H4V_COVER(r == FAIL && g_ap == NULL && g_handle != NULL, "setattr: id names nothing");
    H4V_CANARY("SDsetattr end");
}

/* list for the query functions: any count, the attribute at `index` modelled in full */
static NC_array *
mk_qlist(int32 index, int for_values)
{
    H4V_HAVOC(unsigned, g_namelen);
    H4V_HAVOC(int32, g_k);
    H4V_ND(int, list_null);
    H4V_ND(unsigned, nattrs);
    H4V_ND(int, slot_null);
    H4V_ASSUME(g_namelen <= H4_MAX_NC_NAME);
    g_nbytes = 0;
    g_at     = NULL;
    if (list_null)
        return NULL;
    H4V_ASSUME(nattrs <= H4_MAX_NC_ATTRS + 1);
    NC_array *arr = malloc(sizeof(NC_array));
    H4V_ASSUME(arr != NULL);
    arr->type   = NC_ATTRIBUTE;
    arr->count  = nattrs;
    arr->szof   = sizeof(NC_attr *);
    arr->len    = 0;
    arr->values = malloc(((size_t)nattrs + 1) * sizeof(NC_attr *));
    H4V_ASSUME(arr->values != NULL);
    if (index >= 0 && (unsigned)index < nattrs) {
        NC_attr *at = NULL;
        if (!slot_null) {
            H4V_ND(unsigned, a_count);
            H4V_ND(int32, a_hdftype);
            H4V_ND(unsigned, a_szof);
            at            = malloc(sizeof(NC_attr));
            NC_array  *d  = malloc(sizeof(NC_array));
            NC_string *s  = malloc(sizeof(NC_string));
            H4V_ASSUME(at != NULL && d != NULL && s != NULL);
            at->HDFtype = a_hdftype;
            at->data    = d;
            at->name    = s;
            d->type     = H4V_UNMAP(a_hdftype);
            d->count    = a_count;
            d->len      = 0;
            d->szof     = 1;
            d->values   = NULL;
            s->hash     = 0;
            if (for_values) {
                H4V_ASSUME(a_count <= MAX_ORDER);
                H4V_ASSUME(a_szof == 1 || a_szof == 2 || a_szof == 4 || a_szof == 8);
                size_t nb = RA_MUL(a_count, a_szof);
                d->szof   = a_szof;
                g_nbytes  = nb;
                H4V_ND_BUF(h4v_u8, avals, nb + 1, 17);
                d->values = avals;
                s->count = s->len = 0;
                s->values         = NULL;
            }
            else {
                H4V_ND_BUF(char, aname, g_namelen + 1, 9);
                s->count = s->len = g_namelen;
                s->values         = aname;
            }
        }
        ((NC_attr **)arr->values)[index] = at;
        g_at                             = at;
    }
    return arr;
}

void
h_SDattrinfo(void)
{
    H4V_ND(int32, id);
    H4V_ND(int32, index);
    H4V_ND(int, null_case);
    NC_array *arr = mk_qlist(index, 0);
    reset_logs();
    mk_file(id, arr);
    if (g_ap == NULL)
        g_at = NULL;
    H4V_ND_BUF(char, name, g_namelen + 1, 9);
    int32 nt = 0, count = 0;
    int   r  = SDattrinfo(id, index, null_case == 1 ? NULL : name, null_case == 2 ? NULL : &nt, null_case == 3 ? NULL : &count);
    H4V_COVER(r == SUCCEED && nt == DFNT_UINT16 && count == 3 && g_namelen == 5, "attrinfo: unsigned type, count 3");
    H4V_COVER(r == SUCCEED && index == H4_MAX_NC_ATTRS - 1, "attrinfo: last index");
    H4V_COVER(r == FAIL && g_ap != NULL && *g_ap != NULL && index < 0, "attrinfo: negative index");
    H4V_COVER(r == FAIL && g_ap != NULL && *g_ap != NULL && index >= 0 && (unsigned)index == (*g_ap)->count, "attrinfo: index == count");
    H4V_CANARY("SDattrinfo end");
}

void
h_SDreadattr(void)
{
    H4V_ND(int32, id);
    H4V_ND(int32, index);
    H4V_ND(int, buf_null);
    NC_array *arr = mk_qlist(index, 1);
    reset_logs();
    mk_file(id, arr);
    if (g_ap == NULL)
        g_at = NULL;
    size_t nb = g_nbytes;
    H4V_ND_BUF(h4v_u8, buf, nb + 1, 17);
    h4v_u8 guard = buf[nb];
    int    r     = SDreadattr(id, index, buf_null ? NULL : buf);
    H4V_CHECK(buf[nb] == guard, "SDreadattr: the byte after count*szof bytes is untouched");
    H4V_COVER(r == SUCCEED && nb == 6, "readattr: 3 values of 2 bytes");
    H4V_COVER(r == SUCCEED && nb == 8 * MAX_ORDER, "readattr: largest attribute");
    H4V_COVER(r == FAIL && !buf_null && g_ap != NULL, "readattr: bad index");
    H4V_CANARY("SDreadattr end");
}

#include "hdf.h"
#include <stdio.h>
int main(void){ int32 f=Hopen("vinq.hdf",DFACC_CREATE,0); Vstart(f); int32 vg=Vattach(f,-1,"w"); int32 n=-5; char name[256]="x";
 intn r=Vinquire(vg,&n,name); printf("r=%d n=%d name='%s'\n",r,n,name);
 /* Vgetnext: first member not a vgroup, a vgroup member with ref 65535 followed by another vgroup */
 Vaddtagref(vg, 720, 3); Vaddtagref(vg, DFTAG_VG, 65535); Vaddtagref(vg, DFTAG_VG, 7);
 int32 g=Vgetnext(vg,-1); printf("Vgetnext(-1)=%d\n",g);
 Vdetach(vg); Vend(f); Hclose(f); return (r==SUCCEED && n==0 && name[0]==0 && g==FAIL)?0:1; }

/* Verification unit: hdf/src/mfgr.c (C13: GR identifiers -- gr ids are atoms of GRIDGROUP, ri ids atoms of RIIDGROUP)
 *
 * atom.c (decided by obligations/c13_atom.py) is replaced by a GHOST ATOM TABLE g_at[NA] with the behaviour its
 * contracts state: HAatom_group = group nibble of the id (BADGROUP outside 0..MAXGROUP-1); HAatom_object = the object
 * of the LIVE entry with that id, NULL for every other id (never issued, wrong kind, released); HAregister_atom issues
 * an id of the group that differs from every live id (or fails); HAremove_atom retires exactly that entry.
 * The image tree (tbbt.c) is a ghost array of nodes g_nodes[0..gr_count-1], image i having key/index i.
 * Contracts: an id that is not a live id of the expected group yields the failure value and changes nothing (assigns);
 * an index outside [0, gr_count) yields FAIL; GRselect's id designates exactly image `index` of that file and is new;
 * GRendaccess decrements access and retires exactly that id.
 */
#include "h4v.h"
#include "h4v_err.h"
#include <string.h>
#include "mfgr_priv.h"
#include "tbbt_priv.h"

H4V_DECL_ND(int32);
H4V_DECL_ND(int);
H4V_DECL_ND(uint16);
H4V_DECL_ND(unsigned);

#define NA 4  /* ghost atom table */
#define NRI 3 /* images in the ghost tree */

struct g_atom {
    atom_t id;
    void  *obj;
    int    live;
};
struct g_atom g_at[NA];
gr_info_t    *g_gr;  /* the GR record the probed gr id designates (NULL: none) */
ri_info_t    *g_ri;  /* the image the probed id / (grid, index) designates (NULL: none) */
int           g_old_access;
int32         g_old_aid;
int           g_reg_calls, g_reg_fail;
atom_t        g_reg_id;
int           g_rm_calls;
atom_t        g_rm_id;
int           g_endaccess;
int32         g_endaccess_aid;
int           g_setattr_calls, g_setattr_ret;
int           g_j; /* ghost OTHER atom slot */
int           g_k; /* ghost image index */

static TBBT_NODE g_nodes[NRI];
static TBBT_TREE s_tree;
static gr_info_t s_gr;
static ri_info_t s_ri[NRI];
static char      s_name[NRI][3];

#define AT_GROUP(a) ((int)((((uint32)(a)) >> 28) & 0x0f))
#define AT_HIT(i, a) (g_at[i].live && g_at[i].id == (a))
#define AT_OBJ(a) (AT_HIT(0, a) ? g_at[0].obj : AT_HIT(1, a) ? g_at[1].obj : AT_HIT(2, a) ? g_at[2].obj : AT_HIT(3, a) ? g_at[3].obj : (void *)0)
#define AT_LIVE(a) (AT_HIT(0, a) || AT_HIT(1, a) || AT_HIT(2, a) || AT_HIT(3, a))
/* the object an id designates when an id of group g is expected */
#define ID_OBJ(a, g) (AT_GROUP(a) == (g) ? AT_OBJ(a) : (void *)0)

/* ---------------- atom.c: trusted ghost model */
group_t
HAatom_group(atom_t atm)
{
    int g = AT_GROUP(atm);
    return (g >= MAXGROUP) ? BADGROUP : (group_t)g;
}
void *
HAatom_object(atom_t atm)
{
    return AT_OBJ(atm);
}
atom_t
HAregister_atom(group_t grp, void *object)
{
    g_reg_calls++;
    if (g_reg_fail)
        return FAIL;
    H4V_ND(int32, new_id);
    H4V_ASSUME(AT_GROUP(new_id) == (int)grp && !AT_LIVE(new_id) && new_id != FAIL);
    for (int i = 0; i < NA; i++)
        if (!g_at[i].live) {
            g_at[i].id   = new_id;
            g_at[i].obj  = object;
            g_at[i].live = 1;
            g_reg_id     = new_id;
            return new_id;
        }
    return FAIL;
}
void *
HAremove_atom(atom_t atm)
{
    for (int i = 0; i < NA; i++)
        if (AT_HIT(i, atm)) {
            g_at[i].live = 0;
            g_rm_calls++;
            g_rm_id = atm;
            return g_at[i].obj;
        }
    return NULL;
}

/* ---------------- tbbt.c: trusted ghost model (keys 0 .. gr_count-1 in order) */
TBBT_NODE *
tbbtdfind(TBBT_TREE *tree, void *key, TBBT_NODE **pp)
{
    int32 idx = *(int32 *)key;
    H4V_CHECK(tree == &s_tree, "lookup in the tree of the GR record the id designates");
    return (idx >= 0 && idx < s_gr.gr_count) ? &g_nodes[idx] : NULL;
}
TBBT_NODE *
tbbtfirst(TBBT_NODE *root)
{
    return root;
}
TBBT_NODE *
tbbtnext(TBBT_NODE *node)
{
    for (int i = 0; i + 1 < NRI; i++)
        if (node == &g_nodes[i])
            return (i + 1 < s_gr.gr_count) ? &g_nodes[i + 1] : NULL;
    return NULL;
}

int
Hendaccess(int32 access_id)
{
    g_endaccess++;
    g_endaccess_aid = access_id;
    return SUCCEED;
}

#include "mfgr.c"

/* ---------------- contracts */
#define REF_OF(ri) ((ri)->ri_ref != DFREF_WILDCARD ? (ri)->ri_ref : (ri)->rig_ref != DFREF_WILDCARD ? (ri)->rig_ref : (ri)->img_ref)
#define REF_MATCH(ri, ref) ((ri)->ri_ref == (ref) || ((ri)->ri_ref == DFREF_WILDCARD && (ri)->rig_ref == (ref)))

/* ASSUMED (fill-value attribute written on release): yields SUCCEED or FAIL, touches no id and no access count */
int GRsetattr(int32 id, const char *name, int32 attr_nt, int32 count, const void *data)
    __CPROVER_requires(1)
    __CPROVER_assigns(g_setattr_calls)
    __CPROVER_ensures(g_setattr_calls == __CPROVER_old(g_setattr_calls) + 1 && __CPROVER_return_value == g_setattr_ret);

#define SEL_OK(index) (g_gr != NULL && (index) >= 0 && (index) < g_gr->gr_count)
int32 GRselect(int32 grid, int32 index)
    __CPROVER_requires(g_gr == (gr_info_t *)ID_OBJ(grid, GRIDGROUP) && (g_gr == NULL || g_gr == &s_gr))
    __CPROVER_requires(g_ri == (SEL_OK(index) ? &s_ri[index] : (ri_info_t *)0) && (g_ri == NULL || g_ri->access == g_old_access))
    __CPROVER_requires(g_reg_calls == 0 && g_old_access < 0x7fffffff)
    __CPROVER_requires(g_j >= 0 && g_j < NA && !g_at[NA - 1].live)
    __CPROVER_assigns(g_ri != NULL: g_ri->access; g_reg_calls, g_reg_id; __CPROVER_object_whole(g_at))
    /* an id that is no live gr id, or an index that names no image: FAIL, no id issued */
    __CPROVER_ensures(!SEL_OK(index) ==> (__CPROVER_return_value == FAIL && g_reg_calls == 0))
    __CPROVER_ensures((SEL_OK(index) && !g_reg_fail) ==> __CPROVER_return_value != FAIL)
    /* the id issued is an ri id, designates exactly image `index`, is no gr id, and the image counts one more access */
    __CPROVER_ensures(__CPROVER_return_value != FAIL ==>
                      (AT_GROUP(__CPROVER_return_value) == RIIDGROUP && ID_OBJ(__CPROVER_return_value, RIIDGROUP) == (void *)g_ri &&
                       ID_OBJ(__CPROVER_return_value, GRIDGROUP) == NULL && g_ri->index == index && g_ri->access == g_old_access + 1 &&
                       __CPROVER_return_value == g_reg_id))
    /* every id valid before stays valid for its object, and is not the new one */
    __CPROVER_ensures(__CPROVER_old(g_at[g_j].live) ==>
                      (g_at[g_j].live && g_at[g_j].id == __CPROVER_old(g_at[g_j].id) && g_at[g_j].obj == __CPROVER_old(g_at[g_j].obj) &&
                       (__CPROVER_return_value == FAIL || g_at[g_j].id != __CPROVER_return_value)));

int GRendaccess(int32 riid)
    __CPROVER_requires(g_ri == (ri_info_t *)ID_OBJ(riid, RIIDGROUP))
    __CPROVER_requires(g_ri == NULL || (g_ri->access == g_old_access && g_ri->img_aid == g_old_aid && g_ri->gr_ptr == &s_gr))
    __CPROVER_requires(g_rm_calls == 0 && g_endaccess == 0 && g_setattr_calls == 0 && g_j >= 0 && g_j < NA)
    __CPROVER_requires(g_setattr_ret == SUCCEED || g_setattr_ret == FAIL)
    __CPROVER_assigns(g_ri != NULL: g_ri->access, g_ri->img_aid, g_ri->store_fill; g_ri != NULL: s_gr.gr_modified;
                      g_rm_calls, g_rm_id, g_endaccess, g_endaccess_aid, g_setattr_calls; __CPROVER_object_whole(g_at))
    /* not a live ri id (never issued, gr id, already released), or not open: FAIL, nothing retired, nothing released */
    __CPROVER_ensures((g_ri == NULL || g_old_access <= 0) ==>
                      (__CPROVER_return_value == FAIL && g_rm_calls == 0 && g_endaccess == 0 && g_setattr_calls == 0 &&
                       (g_ri == NULL || (g_ri->access == g_old_access && g_ri->img_aid == g_old_aid))))
    __CPROVER_ensures((g_ri != NULL && g_old_access > 0) ==>
                      __CPROVER_return_value == ((g_setattr_calls == 1 && g_setattr_ret == FAIL) ? FAIL : SUCCEED))
    /* failure of the fill-value write: the id stays valid, the access count stays */
    __CPROVER_ensures((g_ri != NULL && g_old_access > 0 && __CPROVER_return_value == FAIL) ==>
                      (g_ri->access == g_old_access && g_rm_calls == 0 && ID_OBJ(riid, RIIDGROUP) == (void *)g_ri))
    /* success: one access less, exactly this id retired, the data element closed with the last access */
    __CPROVER_ensures(__CPROVER_return_value == SUCCEED ==>
                      (g_ri->access == g_old_access - 1 && g_rm_calls == 1 && g_rm_id == riid && ID_OBJ(riid, RIIDGROUP) == NULL &&
                       g_endaccess == ((g_old_access == 1 && g_old_aid != 0) ? 1 : 0) &&
                       (g_endaccess == 0 || (g_endaccess_aid == g_old_aid && g_ri->img_aid == 0))))
    /* every other id stays valid for its object */
    __CPROVER_ensures((__CPROVER_old(g_at[g_j].live) && __CPROVER_old(g_at[g_j].id) != riid) ==>
                      (g_at[g_j].live && g_at[g_j].id == __CPROVER_old(g_at[g_j].id) && g_at[g_j].obj == __CPROVER_old(g_at[g_j].obj)));

/* the palette id of an image is the image's id; only index 0 exists */
int32 GRgetlutid(int32 riid, int32 lut_index)
    __CPROVER_requires(g_ri == (ri_info_t *)ID_OBJ(riid, RIIDGROUP))
    __CPROVER_assigns()
    __CPROVER_ensures(__CPROVER_return_value == ((g_ri != NULL && lut_index == 0) ? riid : FAIL));

uint16 GRidtoref(int32 riid)
    __CPROVER_requires(g_ri == (ri_info_t *)ID_OBJ(riid, RIIDGROUP))
    __CPROVER_assigns()
    __CPROVER_ensures(__CPROVER_return_value == (g_ri != NULL ? REF_OF(g_ri) : 0));

/* the first image (index order) whose reference number matches */
int32 GRreftoindex(int32 grid, uint16 ref)
    __CPROVER_requires(g_gr == (gr_info_t *)ID_OBJ(grid, GRIDGROUP) && (g_gr == NULL || g_gr == &s_gr))
    __CPROVER_assigns()
    __CPROVER_ensures(g_gr == NULL ==> __CPROVER_return_value == FAIL)
    __CPROVER_ensures(__CPROVER_return_value == FAIL ||
                      (g_gr != NULL && __CPROVER_return_value >= 0 && __CPROVER_return_value < s_gr.gr_count &&
                       REF_MATCH(&s_ri[__CPROVER_return_value], ref)))
    __CPROVER_ensures((g_gr != NULL && g_k >= 0 && g_k < s_gr.gr_count && (__CPROVER_return_value == FAIL || g_k < __CPROVER_return_value)) ==>
                      !REF_MATCH(&s_ri[g_k], ref));

/* names of at most two characters */
#define NAME_EQ(i, n) (s_name[i][0] == (n)[0] && (s_name[i][0] == 0 || (s_name[i][1] == (n)[1] && (s_name[i][1] == 0 || (n)[2] == 0))))
int32 GRnametoindex(int32 grid, const char *name)
    __CPROVER_requires(g_gr == (gr_info_t *)ID_OBJ(grid, GRIDGROUP) && (g_gr == NULL || g_gr == &s_gr))
    __CPROVER_requires(name == NULL || name[2] == 0)
    __CPROVER_assigns()
    __CPROVER_ensures((g_gr == NULL || name == NULL) ==> __CPROVER_return_value == FAIL)
    __CPROVER_ensures(__CPROVER_return_value == FAIL ||
                      (g_gr != NULL && name != NULL && __CPROVER_return_value >= 0 && __CPROVER_return_value < s_gr.gr_count &&
                       NAME_EQ(__CPROVER_return_value, name)))
    __CPROVER_ensures((g_gr != NULL && name != NULL && g_k >= 0 && g_k < s_gr.gr_count &&
                       (__CPROVER_return_value == FAIL || g_k < __CPROVER_return_value)) ==> !NAME_EQ(g_k, name));

#ifdef H4V_NATIVE
#include "h4v_native_wrap.h"
#endif

/* ---------------- environment */
/* any atom table: ids of any group, live or retired, objects: the GR record, one of the images, or something else;
   live ids are pairwise different and an id's group fits its object (atom.c, c13_atom.py) */
static int s_other;
static void
build_env(int keep_free_slot)
{
    H4V_HAVOC(int, g_j);
    H4V_HAVOC(int, g_k);
    H4V_ASSUME(g_j >= 0 && g_j < NA);
    H4V_ND(int32, gr_count);
    H4V_ASSUME(gr_count >= 0 && gr_count <= NRI);
    s_gr.gr_count = gr_count;
    s_gr.grtree   = &s_tree;
    H4V_ND(unsigned, gr_modified);
    s_gr.gr_modified = gr_modified;
    s_tree.root      = gr_count > 0 ? &g_nodes[0] : NULL;
    for (int i = 0; i < NRI; i++) {
        H4V_ND(uint16, ri_ref);
        H4V_ND(uint16, rig_ref);
        H4V_ND(uint16, img_ref);
        H4V_ND(int, ri_access);
        H4V_ND(int32, ri_aid);
        H4V_ND(unsigned, ri_store_fill);
        H4V_ND(unsigned, ri_meta);
        H4V_ND(int, nm0);
        H4V_ND(int, nm1);
        s_name[i][0] = (char)nm0;
        s_name[i][1] = (char)nm1;
        s_name[i][2] = 0;
        s_ri[i].index         = i;
        s_ri[i].ri_ref        = ri_ref;
        s_ri[i].rig_ref       = rig_ref;
        s_ri[i].img_ref       = img_ref;
        s_ri[i].access        = ri_access;
        s_ri[i].img_aid       = ri_aid;
        s_ri[i].store_fill    = ri_store_fill;
        s_ri[i].meta_modified = ri_meta;
        s_ri[i].gr_ptr        = &s_gr;
        s_ri[i].name          = s_name[i];
        g_nodes[i].data       = &s_ri[i];
        g_nodes[i].key        = &s_ri[i].index;
    }
    for (int i = 0; i < NA; i++) {
        H4V_ND(int32, at_id);
        H4V_ND(int, at_live);
        H4V_ND(int, at_what);
        g_at[i].id   = at_id;
        g_at[i].live = at_live != 0 && AT_GROUP(at_id) < MAXGROUP; /* live ids carry a real group */
        if (AT_GROUP(at_id) == GRIDGROUP)
            g_at[i].obj = &s_gr;
        else if (AT_GROUP(at_id) == RIIDGROUP) {
            H4V_ASSUME(at_what >= 0 && at_what < NRI);
            g_at[i].obj = &s_ri[at_what];
        }
        else
            g_at[i].obj = &s_other;
        for (int k = 0; k < i; k++)
            H4V_ASSUME(!(g_at[i].live && g_at[k].live && g_at[i].id == g_at[k].id));
    }
    if (keep_free_slot)
        g_at[NA - 1].live = 0;
    g_reg_calls = g_rm_calls = g_endaccess = g_setattr_calls = 0;
    g_gr = NULL;
    g_ri = NULL;
}

void
h_GRselect(void)
{
    build_env(1);
    H4V_ND(int32, grid);
    H4V_ND(int32, index);
    H4V_HAVOC(int, g_reg_fail);
    g_gr = (gr_info_t *)ID_OBJ(grid, GRIDGROUP);
    if (SEL_OK(index)) {
        g_ri         = &s_ri[index];
        g_old_access = g_ri->access;
        H4V_ASSUME(g_old_access < 0x7fffffff);
    }
    int32 r = GRselect(grid, index);
    H4V_COVER(r != FAIL && index == 2, "third image selected");
    H4V_COVER(r == FAIL && g_gr != NULL && index == s_gr.gr_count, "index == count refused");
    H4V_COVER(r == FAIL && AT_GROUP(grid) == GRIDGROUP && !AT_LIVE(grid), "released gr id refused");
    H4V_COVER(r == FAIL && ID_OBJ(grid, RIIDGROUP) != NULL, "ri id refused as gr id");
    H4V_CANARY("GRselect");
}

static void
name_ri(int32 riid)
{
    g_ri = (ri_info_t *)ID_OBJ(riid, RIIDGROUP);
    if (g_ri != NULL) {
        g_old_access = g_ri->access;
        g_old_aid    = g_ri->img_aid;
    }
}

void
h_GRendaccess(void)
{
    build_env(0);
    H4V_ND(int32, riid);
    H4V_HAVOC(int, g_setattr_ret);
    H4V_ASSUME(g_setattr_ret == SUCCEED || g_setattr_ret == FAIL);
    name_ri(riid);
    int r = GRendaccess(riid);
    H4V_COVER(r == SUCCEED && g_endaccess == 1, "last access: element closed");
    H4V_COVER(r == SUCCEED && g_endaccess == 0, "released");
    H4V_COVER(r == FAIL && g_ri != NULL && g_old_access > 0, "fill value write failed");
    H4V_COVER(r == FAIL && AT_GROUP(riid) == RIIDGROUP && !AT_LIVE(riid), "released ri id refused");
    H4V_COVER(r == FAIL && ID_OBJ(riid, GRIDGROUP) != NULL, "gr id refused as ri id");
    H4V_CANARY("GRendaccess");
}

/* ids that are live ri ids, or of another group */
void
h_GRgetlutid(void)
{
    build_env(0);
    H4V_ND(int32, riid);
    H4V_ND(int32, lut_index);
    H4V_ASSUME(AT_GROUP(riid) != RIIDGROUP || AT_LIVE(riid));
    name_ri(riid);
    int32 r = GRgetlutid(riid, lut_index);
    H4V_COVER(r != FAIL, "palette id");
    H4V_COVER(r == FAIL && g_ri != NULL, "palette index refused");
    H4V_COVER(r == FAIL && ID_OBJ(riid, GRIDGROUP) != NULL, "gr id refused");
    H4V_CANARY("GRgetlutid");
}

/* ids of the ri group that are not live (never issued or released) */
void
h_GRgetlutid_stale(void)
{
    build_env(0);
    H4V_ND(int32, riid);
    H4V_ND(int32, lut_index);
    H4V_ASSUME(AT_GROUP(riid) == RIIDGROUP && !AT_LIVE(riid));
    name_ri(riid);
    int32 r = GRgetlutid(riid, lut_index);
    H4V_COVER(r == FAIL, "refused");
    H4V_CANARY("GRgetlutid_stale");
}

void
h_GRidtoref(void)
{
    build_env(0);
    H4V_ND(int32, riid);
    name_ri(riid);
    uint16 r = GRidtoref(riid);
    H4V_COVER(r != 0 && g_ri->ri_ref == 0 && g_ri->rig_ref == 0, "ref of the image data");
    H4V_COVER(r == 0 && AT_GROUP(riid) == RIIDGROUP && !AT_LIVE(riid), "released ri id refused");
    H4V_CANARY("GRidtoref");
}

void
h_GRreftoindex(void)
{
    build_env(0);
    H4V_ND(int32, grid);
    H4V_ND(uint16, ref);
    g_gr    = (gr_info_t *)ID_OBJ(grid, GRIDGROUP);
    int32 r = GRreftoindex(grid, ref);
    H4V_COVER(r == 2, "third image");
    H4V_COVER(r == FAIL && g_gr != NULL && s_gr.gr_count == NRI, "no such ref");
    H4V_COVER(r == FAIL && AT_GROUP(grid) == GRIDGROUP && !AT_LIVE(grid), "released gr id refused");
    H4V_CANARY("GRreftoindex");
}

void
h_GRnametoindex(void)
{
    static char nm[3];
    build_env(0);
    H4V_ND(int32, grid);
    H4V_ND(int, q0);
    H4V_ND(int, q1);
    H4V_ND(int, name_null);
    nm[0]   = (char)q0;
    nm[1]   = (char)q1;
    nm[2]   = 0;
    g_gr    = (gr_info_t *)ID_OBJ(grid, GRIDGROUP);
    int32 r = GRnametoindex(grid, name_null ? NULL : nm);
    H4V_COVER(r == 2, "third image");
    H4V_COVER(r == FAIL && g_gr != NULL && !name_null && s_gr.gr_count == NRI, "no such name");
    H4V_CANARY("GRnametoindex");
}

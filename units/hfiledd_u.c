/* Verification unit: hdf/src/hfiledd.c, on-disk side of the DD list (C02, C16, C17, C20). */
#include "h4v.h"
#ifndef H4V_MAXNB
#define H4V_MAXNB 2
#endif
#ifndef H4V_MAXNDDS
#define H4V_MAXNDDS 4
#endif
#include "h4v_err.h"
#include "h4v_hp.h"
#include "hdfalloc.c" /* the real HDmemfill */
#include "hfiledd.c"

H4V_DECL_ND(int32);
H4V_DECL_ND(int16);
H4V_DECL_ND(uint16);

/* trusted stubs: atom groups and the tag tree are not touched by the functions verified here */
intn HAinit_group(group_t grp, unsigned hash_size) { return SUCCEED; }
TBBT_TREE *tbbtdmake(intn (*compar)(void *, void *, intn), intn arg, unsigned fast_compare)
{
    static TBBT_TREE h4v_tree;
    return &h4v_tree;
}

/* ------------------------------------------------------------------ expected on-disk encoding */
#define BE16(v, k) ((unsigned char)(((uint16)(v)) >> (8 * (1 - (k)))))
#define BE32(v, k) ((unsigned char)(((uint32)(v)) >> (8 * (3 - (k)))))
/* byte k (0..11) of the 12-byte DD (tag, ref, offset, length), all big-endian */
#define DD_BYTE(tag, ref, off, len, k)                                                                       \
    ((k) < 2 ? BE16(tag, k) : (k) < 4 ? BE16(ref, (k)-2) : (k) < 8 ? BE32(off, (k)-4) : BE32(len, (k)-8))
#define NIL_BYTE(k) DD_BYTE(DFTAG_NULL, DFREF_NONE, INVALID_OFFSET, INVALID_LENGTH, k)
/* byte k (0..5) of a DD block header (ndds, nextoffset) */
#define HDR_BYTE(ndds, next, k) ((k) < 2 ? BE16(ndds, k) : BE32(next, (k)-2))

/* ------------------------------------------------------------------ ghost environment */
filerec_t *g_frec;
ddblock_t *g_blk;  /* the block under consideration (HTIupdate_dd) / the last block (HTInew_dd_block) */
int32      g_idx;  /* ghost DD index */

#define FREC_WF(f)                                                                                           \
    ((f)->f_end_off >= 0 && (f)->f_end_off < INT32_MAX && (f)->f_cur_off >= 0 && ((f)->cache == 0 || (f)->cache == 1) && \
     ((f)->dirty & ~3) == 0)
#define BLK_WF(b, f)                                                                                         \
    ((b)->ndds >= 1 && (b)->myoffset >= MAGICLEN && (b)->frec == (f) && (b)->ddlist != NULL &&                \
     (int64_t)(b)->myoffset + NDDS_SZ + OFFSET_SZ + (int64_t)(b)->ndds * DD_SZ <= (f)->f_end_off)

/* ------------------------------------------------------------------ contracts */

/* C02/C16/C17: one DD is rewritten in place (or only marked dirty when caching) */
static int HTIupdate_dd(filerec_t *file_rec, dd_t *dd_ptr)
    __CPROVER_requires(file_rec == g_frec && FREC_WF(file_rec) && BLK_WF(g_blk, file_rec))
    __CPROVER_requires(g_idx >= 0 && g_idx < g_blk->ndds && dd_ptr == &g_blk->ddlist[g_idx] && dd_ptr->blk == g_blk)
    /* DD invariant kept by the callers (HTPupdate from Hwrite/Hsetlength ...): representable extent */
    __CPROVER_requires((dd_ptr->offset == INVALID_OFFSET && dd_ptr->length == INVALID_LENGTH) ||
                       (dd_ptr->offset >= 0 && dd_ptr->length >= 0 && (int64_t)dd_ptr->offset + dd_ptr->length < INT32_MAX))
    __CPROVER_requires(g_seq == 0)
    __CPROVER_assigns(file_rec->dirty, file_rec->f_end_off, file_rec->f_cur_off, g_blk->dirty, g_seq, g_wr_n, g_wr_off, g_wr_len, g_seek_n,
                      g_seqA, g_seqB, g_firstA, g_firstB, g_byteA, g_byteB, g_hp_min_wr, g_hp_failed)
    __CPROVER_ensures(g_hp_failed ==> __CPROVER_return_value == FAIL)
    __CPROVER_ensures(!g_hp_failed ==> __CPROVER_return_value == SUCCEED)
    /* caching: nothing reaches the disk, the block and the file are marked for the flush */
    __CPROVER_ensures(file_rec->cache ==> (g_seq == 0 && g_blk->dirty == TRUE && (file_rec->dirty & DDLIST_DIRTY)))
    /* not caching: exactly the 12 bytes of this DD, at its slot, big-endian */
    __CPROVER_ensures((!file_rec->cache && __CPROVER_return_value == SUCCEED) ==>
                      (g_seq == 1 && g_wr_len == DD_SZ && g_wr_off == (long)g_blk->myoffset + NDDS_SZ + OFFSET_SZ + (long)g_idx * DD_SZ))
    __CPROVER_ensures((!file_rec->cache && __CPROVER_return_value == SUCCEED && g_offA >= g_wr_off && g_offA < g_wr_off + DD_SZ) ==>
                      (g_seqA == 1 &&
                       g_byteA == DD_BYTE(dd_ptr->tag, dd_ptr->ref, dd_ptr->offset, dd_ptr->length, g_offA - g_wr_off)))
    __CPROVER_ensures((g_offA < (long)g_blk->myoffset + NDDS_SZ + OFFSET_SZ + (long)g_idx * DD_SZ ||
                       g_offA >= (long)g_blk->myoffset + NDDS_SZ + OFFSET_SZ + (long)g_idx * DD_SZ + DD_SZ) ==> g_seqA == 0)
    /* the end of file covers the element */
    __CPROVER_ensures(__CPROVER_return_value == SUCCEED ==>
                      file_rec->f_end_off == ((dd_ptr->offset != INVALID_OFFSET && dd_ptr->offset + dd_ptr->length > __CPROVER_old(file_rec->f_end_off))
                                                  ? dd_ptr->offset + dd_ptr->length : __CPROVER_old(file_rec->f_end_off)));

/* C02/C17: a new DD block is appended at the end of the file and linked from the old last block */
ddblock_t *g_oldlast; /* ghost: the last block on entry */
#define NEWBLK (file_rec->ddlast)
static int HTInew_dd_block(filerec_t *file_rec)
    __CPROVER_requires(file_rec == g_frec && FREC_WF(file_rec) && file_rec->ddhead != NULL && file_rec->ddlast == g_oldlast)
    __CPROVER_requires(BLK_WF(file_rec->ddhead, file_rec) && BLK_WF(g_oldlast, file_rec) && g_oldlast->next == NULL)
    __CPROVER_requires(file_rec->ddhead->ndds == H4V_MAXNDDS)
    __CPROVER_requires(file_rec->ddhead == g_oldlast || (g_oldlast->prev != NULL && g_oldlast->prev->nextoffset == g_oldlast->myoffset))
    __CPROVER_requires(file_rec->ddhead != g_oldlast || g_oldlast->myoffset == MAGICLEN)
    __CPROVER_requires(g_seq == 0 && (!g_add_session || (file_rec->cache && g_L <= file_rec->f_end_off)))
    __CPROVER_assigns(file_rec->dirty, file_rec->f_end_off, file_rec->f_cur_off, file_rec->ddlast, g_oldlast->dirty, g_oldlast->next,
                      g_oldlast->nextoffset, g_seq, g_wr_n, g_wr_off, g_wr_len, g_seek_n, g_seqA, g_seqB, g_firstA, g_firstB, g_byteA,
                      g_byteB, g_hp_min_wr, g_hp_failed)
    __CPROVER_ensures(g_hp_failed ==> __CPROVER_return_value == FAIL)
    /* in memory: appended at the old end of file, linked both ways, all DDs free */
    __CPROVER_ensures(__CPROVER_return_value == SUCCEED ==>
                      (NEWBLK != g_oldlast && NEWBLK->myoffset == __CPROVER_old(file_rec->f_end_off) && NEWBLK->ndds == file_rec->ddhead->ndds &&
                       NEWBLK->nextoffset == 0 && NEWBLK->next == NULL && NEWBLK->prev == g_oldlast && g_oldlast->next == NEWBLK &&
                       g_oldlast->nextoffset == NEWBLK->myoffset && NEWBLK->frec == file_rec &&
                       (int64_t)file_rec->f_end_off == (int64_t)NEWBLK->myoffset + NDDS_SZ + OFFSET_SZ + (int64_t)NEWBLK->ndds * DD_SZ))
    __CPROVER_ensures((__CPROVER_return_value == SUCCEED && g_idx >= 0 && g_idx < NEWBLK->ndds) ==>
                      (NEWBLK->ddlist[g_idx].tag == DFTAG_NULL && NEWBLK->ddlist[g_idx].ref == DFREF_NONE &&
                       NEWBLK->ddlist[g_idx].offset == INVALID_OFFSET && NEWBLK->ddlist[g_idx].length == INVALID_LENGTH &&
                       NEWBLK->ddlist[g_idx].blk == NEWBLK))
    /* C17: nothing is written below the old end of the file while caching; the link is deferred to the flush */
    __CPROVER_ensures((file_rec->cache && __CPROVER_return_value == SUCCEED) ==>
                      (g_hp_min_wr >= __CPROVER_old(file_rec->f_end_off) && g_oldlast->dirty == TRUE && NEWBLK->dirty == TRUE &&
                       (file_rec->dirty & DDLIST_DIRTY)))
    /* C02, not caching: the new block is complete on disk -- header (ndds, 0) ... */
    __CPROVER_ensures((!file_rec->cache && __CPROVER_return_value == SUCCEED && g_offA >= NEWBLK->myoffset &&
                       g_offA < NEWBLK->myoffset + NDDS_SZ + OFFSET_SZ) ==>
                      (g_seqA != 0 && g_byteA == HDR_BYTE(NEWBLK->ndds, 0, g_offA - NEWBLK->myoffset)))
    /* ... every DD slot holds the NIL descriptor ... */
    __CPROVER_ensures((!file_rec->cache && __CPROVER_return_value == SUCCEED && g_offA >= NEWBLK->myoffset + NDDS_SZ + OFFSET_SZ &&
                       g_offA < file_rec->f_end_off) ==>
                      (g_seqA != 0 && g_byteA == NIL_BYTE((g_offA - NEWBLK->myoffset - NDDS_SZ - OFFSET_SZ) % DD_SZ)))
    /* ... and the old last block's next-offset field on disk points to it, written after the header */
    __CPROVER_ensures((!file_rec->cache && __CPROVER_return_value == SUCCEED && g_offB >= g_oldlast->myoffset + NDDS_SZ &&
                       g_offB < g_oldlast->myoffset + NDDS_SZ + OFFSET_SZ) ==>
                      (g_seqB != 0 && g_byteB == BE32(NEWBLK->myoffset, g_offB - g_oldlast->myoffset - NDDS_SZ)))
    __CPROVER_ensures((!file_rec->cache && __CPROVER_return_value == SUCCEED && g_offA >= NEWBLK->myoffset &&
                       g_offA < NEWBLK->myoffset + NDDS_SZ + OFFSET_SZ && g_offB >= g_oldlast->myoffset + NDDS_SZ &&
                       g_offB < g_oldlast->myoffset + NDDS_SZ + OFFSET_SZ) ==> g_firstA < g_firstB);

/* C02/C16/C17: flushing the cached DD list */
ddblock_t *g_b[3];  /* ghost: the chain of blocks (g_nb of them) */
int        g_nb;
int        g_bi;    /* ghost block index */
int        g_bdirty[3]; /* dirty flags on entry */
#define BLK_END(b) ((long)(b)->myoffset + NDDS_SZ + OFFSET_SZ + (long)(b)->ndds * DD_SZ)
/* The byte-level clauses are checked for one byte position per run (H4V_KK = byte 0..11 of the ghost DD,
   H4V_KH = byte 0..5 of the ghost block header): a constant position keeps the shifts concrete. */
#ifndef H4V_KK
#define H4V_KK 0
#endif
#ifndef H4V_KH
#define H4V_KH 0
#endif
#define HDR_OFF(b) ((long)(b)->myoffset)
#define DD_OFF(b, i) ((long)(b)->myoffset + NDDS_SZ + OFFSET_SZ + (long)(i)*DD_SZ)
int HTPsync(filerec_t *file_rec)
    __CPROVER_requires(file_rec == g_frec && FREC_WF(file_rec) && g_nb >= 1 && g_nb <= H4V_MAXNB && file_rec->ddhead == g_b[0] &&
                       file_rec->ddlast == g_b[g_nb - 1])
    __CPROVER_requires(g_bi >= 0 && g_bi < g_nb && g_idx >= 0 && g_idx < H4V_MAXNDDS && g_seq == 0 && g_add_session == 0)
    /* ghost offset A: byte H4V_KK of DD g_idx of block g_bi;  ghost offset B: byte H4V_KH of the header of block g_bi */
    __CPROVER_requires(g_offA == DD_OFF(g_b[g_bi], g_idx) + H4V_KK && g_offB == HDR_OFF(g_b[g_bi]) + H4V_KH)
    __CPROVER_assigns(file_rec->f_cur_off, g_b[0]->dirty, g_b[1]->dirty, g_b[2]->dirty, g_seq, g_wr_n, g_wr_off, g_wr_len,
                      g_seek_n, g_seqA, g_seqB, g_firstA, g_firstB, g_byteA, g_byteB, g_hp_min_wr, g_hp_failed)
    __CPROVER_ensures(g_hp_failed ==> __CPROVER_return_value == FAIL)
    /* every block is clean afterwards */
    __CPROVER_ensures(__CPROVER_return_value == SUCCEED ==> g_b[g_bi]->dirty == FALSE)
    /* a dirty block is on disk exactly as it is in memory: header ... */
    __CPROVER_ensures((__CPROVER_return_value == SUCCEED && g_bdirty[g_bi]) ==>
                      (g_seqB != 0 && g_byteB == HDR_BYTE(g_b[g_bi]->ndds, g_b[g_bi]->nextoffset, H4V_KH)))
    /* ... and each DD */
    __CPROVER_ensures((__CPROVER_return_value == SUCCEED && g_bdirty[g_bi]) ==>
                      (g_seqA != 0 && g_byteA == DD_BYTE(g_b[g_bi]->ddlist[g_idx].tag, g_b[g_bi]->ddlist[g_idx].ref,
                                                         g_b[g_bi]->ddlist[g_idx].offset, g_b[g_bi]->ddlist[g_idx].length, H4V_KK)))
    /* a clean block is not touched */
    __CPROVER_ensures(!g_bdirty[g_bi] ==> (g_seqA == 0 && g_seqB == 0))
    /* two physical writes per dirty block, none otherwise */
    __CPROVER_ensures(__CPROVER_return_value == SUCCEED ==>
                      g_seq == 2 * ((g_bdirty[0] != 0) + (g_nb > 1 && g_bdirty[1] != 0) + (g_nb > 2 && g_bdirty[2] != 0)));

/* C17 (crash inside the flush): a block becomes reachable on disk (its predecessor's header, which holds the link, is
   written) only after its own header is on disk.  Harness h_HTPsync_order places ghost A on the first header byte of
   block g_bi+1 and ghost B on the first byte of the link field of block g_bi and checks g_firstA < g_firstB. */

/* C02: a freshly created file starts with a complete first DD block right after the magic number */
#ifndef H4V_NDDS_IN
#define H4V_NDDS_IN 0
#endif
#define NDDS_NORM(n) ((n) == 0 ? DEF_NDDS : (n) < MIN_NDDS ? MIN_NDDS : (n))
int HTPinit(filerec_t *file_rec, int16 ndds)
    __CPROVER_requires(file_rec == g_frec && FREC_WF(file_rec) && file_rec->f_cur_off == MAGICLEN && ndds == H4V_NDDS_IN)
    __CPROVER_requires(g_seq == 0 && g_add_session == 0 && g_idx >= 0 && g_idx < NDDS_NORM(ndds))
    __CPROVER_assigns(file_rec->ddhead, file_rec->ddlast, file_rec->ddnull, file_rec->ddnull_idx, file_rec->f_end_off, file_rec->f_cur_off,
                      file_rec->maxref, file_rec->tag_tree, g_seq, g_wr_n, g_wr_off, g_wr_len, g_seek_n, g_seqA, g_seqB, g_firstA, g_firstB,
                      g_byteA, g_byteB, g_hp_min_wr, g_hp_failed)
    __CPROVER_ensures(g_hp_failed ==> __CPROVER_return_value == FAIL)
    __CPROVER_ensures(__CPROVER_return_value == SUCCEED ==>
                      (file_rec->ddhead != NULL && file_rec->ddlast == file_rec->ddhead && file_rec->ddhead->ndds == NDDS_NORM(ndds) &&
                       file_rec->ddhead->myoffset == MAGICLEN && file_rec->ddhead->nextoffset == 0 && file_rec->ddhead->next == NULL &&
                       file_rec->ddhead->prev == NULL && file_rec->ddhead->dirty == FALSE && file_rec->maxref == 0 &&
                       file_rec->f_end_off == MAGICLEN + NDDS_SZ + OFFSET_SZ + NDDS_NORM(ndds) * DD_SZ))
    __CPROVER_ensures(__CPROVER_return_value == SUCCEED ==>
                      (file_rec->ddhead->ddlist[g_idx].tag == DFTAG_NULL && file_rec->ddhead->ddlist[g_idx].ref == DFREF_NONE &&
                       file_rec->ddhead->ddlist[g_idx].offset == INVALID_OFFSET && file_rec->ddhead->ddlist[g_idx].length == INVALID_LENGTH &&
                       file_rec->ddhead->ddlist[g_idx].blk == file_rec->ddhead))
    /* on disk: header (ndds, 0) at offset 4, then NIL descriptors up to the end of the file */
    __CPROVER_ensures((__CPROVER_return_value == SUCCEED && g_offA >= MAGICLEN && g_offA < MAGICLEN + NDDS_SZ + OFFSET_SZ) ==>
                      (g_seqA != 0 && g_byteA == HDR_BYTE(NDDS_NORM(ndds), 0, g_offA - MAGICLEN)))
    __CPROVER_ensures((__CPROVER_return_value == SUCCEED && g_offA >= MAGICLEN + NDDS_SZ + OFFSET_SZ && g_offA < file_rec->f_end_off) ==>
                      (g_seqA != 0 && g_byteA == NIL_BYTE((g_offA - MAGICLEN - NDDS_SZ - OFFSET_SZ) % DD_SZ)))
    __CPROVER_ensures((g_offA < MAGICLEN || g_offA >= MAGICLEN + NDDS_SZ + OFFSET_SZ + NDDS_NORM(ndds) * DD_SZ) ==> g_seqA == 0);

/* C12/C17/C20: opening an existing file decodes the DD chain exactly and computes the end of the file as the end of the last
   thing in it -- data elements AND descriptor blocks (new space is handed out from there). */
unsigned char g_image[MAGICLEN + 2 * (NDDS_SZ + OFFSET_SZ + H4V_MAXNDDS * DD_SZ)];
int32 g_blk2_off;  /* offset of the second block in the image, 0: only one block */
#define IMG16(o) ((uint16)((g_image[o] << 8) | g_image[(o) + 1]))
#define IMG32(o) ((int32)(((uint32)g_image[o] << 24) | ((uint32)g_image[(o) + 1] << 16) | ((uint32)g_image[(o) + 2] << 8) | g_image[(o) + 3]))
#define IMG_DD(b, i) ((b) + NDDS_SZ + OFFSET_SZ + (i)*DD_SZ)
static int HTIregister_tag_ref(filerec_t *file_rec, dd_t *dd_ptr)
    __CPROVER_requires(dd_ptr != NULL && dd_ptr->tag != DFTAG_NULL)
    __CPROVER_assigns()
    __CPROVER_ensures(__CPROVER_return_value == SUCCEED || __CPROVER_return_value == FAIL);

/* HTPstart: checked at harness level (h_HTPstart) -- enforcing a contract with a whole-object frame on this function made the
   dfcc write-set instrumentation run cbmc out of memory (357k steps, 19.8k VCCs).  The clauses are the H4V_CHECKs below. */

#ifdef H4V_NATIVE
#include "h4v_native_wrap.h"
#endif

/* ------------------------------------------------------------------ harnesses */
static ddblock_t *
mk_block(int16 ndds, int cap)
{
    ddblock_t *b = malloc(sizeof(ddblock_t));
    H4V_ASSUME(b != NULL);
    H4V_ND(int32, b_myoffset);
    H4V_ND(int32, b_nextoffset);
    H4V_ND(int, b_dirty);
    H4V_ASSUME(ndds >= 1);
    b->dirty      = b_dirty ? TRUE : FALSE;
    b->myoffset   = b_myoffset;
    b->ndds       = ndds;
    b->nextoffset = b_nextoffset;
    b->frec       = g_frec;
    b->next = b->prev = NULL;
    b->ddlist = malloc((size_t)ndds * sizeof(dd_t));
    H4V_ASSUME(b->ddlist != NULL);
    return b;
}

static void
mk_frec(int may_fail)
{
    h4v_hp_init(may_fail);
    g_frec = malloc(sizeof(filerec_t));
    H4V_ASSUME(g_frec != NULL);
    H4V_ND(int, f_access);
    H4V_ND(int32, f_cur_off);
    H4V_ND(int, f_cache);
    H4V_ND(int, f_dirty);
    H4V_ND(int32, f_end_off);
    g_frec->path = NULL;
    g_frec->file = NULL;
    g_frec->maxref = 0;
    g_frec->access = f_access | DFACC_WRITE;
    g_frec->refcount = 1;
    g_frec->attach = 0;
    g_frec->version_set = 1;
    g_frec->f_cur_off = f_cur_off;
    g_frec->last_op = H4_OP_UNKNOWN;
    g_frec->cache = f_cache;
    g_frec->dirty = f_dirty;
    g_frec->f_end_off = f_end_off;
    g_frec->ddhead = g_frec->ddlast = g_frec->ddnull = NULL;
    g_frec->ddnull_idx = -1;
    g_frec->tag_tree = NULL;
}

void
h_HTIupdate_dd(void)
{
    mk_frec(1);
    H4V_ND(int16, ndds);
    g_blk = mk_block(ndds, 4);
    g_frec->ddhead = g_frec->ddlast = g_blk;
    H4V_HAVOC(int32, g_idx);
    H4V_ASSUME(g_idx >= 0 && g_idx < ndds);
    H4V_ND(uint16, d_tag);
    H4V_ND(uint16, d_ref);
    H4V_ND(int32, d_off);
    H4V_ND(int32, d_len);
    dd_t *dd   = &g_blk->ddlist[g_idx];
    dd->tag    = d_tag;
    dd->ref    = d_ref;
    dd->offset = d_off;
    dd->length = d_len;
    dd->blk    = g_blk;
    int r = HTIupdate_dd(g_frec, dd);
    H4V_COVER(r == SUCCEED && g_seq == 1 && g_seqA == 1, "HTIupdate_dd wrote ghost byte");
    H4V_COVER(r == SUCCEED && g_seq == 0, "HTIupdate_dd cached");
    H4V_COVER(r == FAIL, "HTIupdate_dd fault");
    H4V_CANARY("HTIupdate_dd end");
}

void
h_HTInew_dd_block(void)
{
    mk_frec(1);
    int16 ndds = H4V_MAXNDDS; /* one constant block size per run keeps malloc/memcpy sizes concrete */
    H4V_ND(int, n_blocks); /* 1, 2 or 3 existing blocks: head [-> mid] [-> last] */
    H4V_ASSUME(n_blocks >= 1 && n_blocks <= 3);
    int        two_blocks = n_blocks >= 2;
    ddblock_t *head       = mk_block(ndds, 4);
    g_frec->ddhead        = head;
    if (n_blocks == 2) {
        g_oldlast       = mk_block(ndds, 4);
        head->next      = g_oldlast;
        g_oldlast->prev = head;
    }
    else if (n_blocks == 3) {
        ddblock_t *mid  = mk_block(ndds, 4);
        g_oldlast       = mk_block(ndds, 4);
        head->next      = mid;
        mid->prev       = head;
        mid->next       = g_oldlast;
        g_oldlast->prev = mid;
        H4V_ASSUME(head->nextoffset == mid->myoffset && mid->myoffset != g_oldlast->myoffset && BLK_WF(mid, g_frec));
    }
    else
        g_oldlast = head;
    g_frec->ddlast = g_oldlast;
    H4V_HAVOC(int32, g_idx);
    H4V_HAVOC(int, g_add_session);
    H4V_HAVOC(long, g_L);
    H4V_ASSUME(!g_add_session || g_frec->cache); /* C17 speaks about sessions with descriptor caching on */
    int32 old_end = g_frec->f_end_off;
    int   r       = HTInew_dd_block(g_frec);
    H4V_COVER(r == SUCCEED && g_frec->cache, "HTInew_dd_block cached");
    H4V_COVER(r == SUCCEED && !g_frec->cache && n_blocks == 3, "HTInew_dd_block fourth block, written through");
    H4V_COVER(r == SUCCEED && !g_frec->cache && g_seqA != 0 && g_offA >= old_end + 6, "HTInew_dd_block ghost byte in DD area");
    H4V_COVER(r == FAIL, "HTInew_dd_block fault");
    H4V_CANARY("HTInew_dd_block end");
}

void
h_HTPsync(void)
{
    mk_frec(1);
    int16 ndds = H4V_MAXNDDS;
    H4V_HAVOC(int, g_nb);
    H4V_ASSUME(g_nb >= 1 && g_nb <= H4V_MAXNB && H4V_MAXNB <= 3);
    H4V_HAVOC(int, g_bi);
    H4V_HAVOC(int32, g_idx);
    g_b[0] = mk_block(ndds, 4);
    g_b[1] = mk_block(ndds, 4);
    g_b[2] = mk_block(ndds, 4);
    /* a well-formed chain: blocks at increasing, non-overlapping offsets inside the file */
    H4V_ASSUME(g_b[0]->myoffset == MAGICLEN && BLK_END(g_b[0]) <= g_b[1]->myoffset && BLK_END(g_b[1]) <= g_b[2]->myoffset &&
               BLK_END(g_b[2]) <= g_frec->f_end_off);
    for (int i = 0; i < 3; i++) {
        g_bdirty[i] = g_b[i]->dirty;
        g_b[i]->prev = i > 0 ? g_b[i - 1] : NULL;
        g_b[i]->next = i + 1 < g_nb ? g_b[i + 1] : NULL;
        if (i + 1 < g_nb)
            g_b[i]->nextoffset = g_b[i + 1]->myoffset;
        else
            g_b[i]->nextoffset = 0;
    }
    g_frec->ddhead = g_b[0];
    g_frec->ddlast = g_b[g_nb - 1];
    g_frec->cache  = 1;
    H4V_ASSUME(g_bi >= 0 && g_bi < g_nb && g_idx >= 0 && g_idx < H4V_MAXNDDS);
    g_offA = DD_OFF(g_b[g_bi], g_idx) + H4V_KK;
    g_offB = HDR_OFF(g_b[g_bi]) + H4V_KH;
    int r = HTPsync(g_frec);
    H4V_COVER(r == SUCCEED && g_seq == 2 * H4V_MAXNB, "HTPsync flushed all blocks");
    H4V_COVER(r == SUCCEED && g_seq == 0, "HTPsync nothing dirty");
    H4V_COVER(r == FAIL, "HTPsync fault");
    H4V_CANARY("HTPsync end");
}

static void
mk_chain(void)
{
    int16 ndds = H4V_MAXNDDS;
    H4V_HAVOC(int, g_nb);
    H4V_ASSUME(g_nb >= 1 && g_nb <= H4V_MAXNB && H4V_MAXNB <= 3);
    g_b[0] = mk_block(ndds, 4);
    g_b[1] = mk_block(ndds, 4);
    g_b[2] = mk_block(ndds, 4);
    H4V_ASSUME(g_b[0]->myoffset == MAGICLEN && BLK_END(g_b[0]) <= g_b[1]->myoffset && BLK_END(g_b[1]) <= g_b[2]->myoffset &&
               BLK_END(g_b[2]) <= g_frec->f_end_off);
    for (int i = 0; i < 3; i++) {
        g_bdirty[i] = g_b[i]->dirty;
        g_b[i]->prev = i > 0 ? g_b[i - 1] : NULL;
        g_b[i]->next = i + 1 < g_nb ? g_b[i + 1] : NULL;
        g_b[i]->nextoffset = i + 1 < g_nb ? g_b[i + 1]->myoffset : 0;
    }
    g_frec->ddhead = g_b[0];
    g_frec->ddlast = g_b[g_nb - 1];
    g_frec->cache  = 1;
}

/* harness-level obligation (no contract enforced): flush order */
void
h_HTPsync_order(void)
{
    mk_frec(0);
    mk_chain();
    H4V_HAVOC(int, g_bi);
    H4V_ASSUME(g_bi >= 0 && g_bi <= 1);
    H4V_ASSUME(g_bi + 1 < g_nb);
    H4V_ASSUME(g_bdirty[g_bi] && g_bdirty[g_bi + 1]); /* a freshly linked block and its predecessor are both dirty */
    g_offA = HDR_OFF(g_b[g_bi + 1]);          /* first byte of the successor's own header */
    g_offB = HDR_OFF(g_b[g_bi]) + NDDS_SZ;    /* first byte of the predecessor's link field */
    int r = HTPsync(g_frec);
    H4V_CHECK(r == FAIL || (g_firstA != 0 && g_firstB != 0), "both headers were written");
    H4V_CHECK(r == FAIL || g_firstA < g_firstB, "C17: a DD block is linked on disk only after its own header is on disk");
    H4V_CANARY("HTPsync_order end");
}

void
h_HTPinit(void)
{
    mk_frec(1);
    H4V_HAVOC(int32, g_idx);
    int r = HTPinit(g_frec, H4V_NDDS_IN);
    H4V_COVER(r == SUCCEED && g_seqA != 0, "HTPinit ghost byte written");
    H4V_COVER(r == FAIL && g_hp_failed, "HTPinit fault");
    H4V_CANARY("HTPinit end");
}

H4V_DECL_ND(uint8);
void
h_HTPstart(void)
{
    mk_frec(1);
    /* g_image is a global: nondeterministic at harness start under dfcc (every descriptor byte of the file image is
       arbitrary); the two block headers are written concretely so that block sizes are constants for cbmc */
#ifndef H4V_TWO_BLOCKS
#define H4V_TWO_BLOCKS 0
#endif
    {
        const int b2 = MAGICLEN + NDDS_SZ + OFFSET_SZ + H4V_MAXNDDS * DD_SZ;
        g_image[MAGICLEN] = 0; g_image[MAGICLEN + 1] = H4V_MAXNDDS;
        g_image[MAGICLEN + 2] = 0; g_image[MAGICLEN + 3] = 0; g_image[MAGICLEN + 4] = 0; g_image[MAGICLEN + 5] = H4V_TWO_BLOCKS ? b2 : 0;
        g_image[b2] = 0; g_image[b2 + 1] = H4V_MAXNDDS;
        g_image[b2 + 2] = 0; g_image[b2 + 3] = 0; g_image[b2 + 4] = 0; g_image[b2 + 5] = 0;
    }
    g_img     = g_image;
    g_img_len = sizeof(g_image);
    g_blk2_off = H4V_TWO_BLOCKS ? MAGICLEN + NDDS_SZ + OFFSET_SZ + H4V_MAXNDDS * DD_SZ : 0;
    H4V_HAVOC(int32, g_idx);
    /* all descriptors of the image (not only the ghost one) have representable extents */
    for (int b = 0; b < 2; b++)
        for (int i = 0; i < H4V_MAXNDDS; i++) {
            int base = b == 0 ? MAGICLEN : MAGICLEN + NDDS_SZ + OFFSET_SZ + H4V_MAXNDDS * DD_SZ;
            H4V_ASSUME(IMG32(IMG_DD(base, i) + 4) >= -1 && IMG32(IMG_DD(base, i) + 8) >= -1 &&
                       (int64_t)IMG32(IMG_DD(base, i) + 4) + IMG32(IMG_DD(base, i) + 8) < INT32_MAX);
        }
    filerec_t *file_rec = g_frec;
    H4V_ASSUME(g_idx >= 0 && g_idx < H4V_MAXNDDS);
    int r = HTPstart(g_frec);
    H4V_CHECK(!g_hp_failed || r == FAIL, "C16: a failed read makes HTPstart fail");
    if (r == SUCCEED) {
        H4V_CHECK(file_rec->ddhead != NULL && file_rec->ddhead->myoffset == MAGICLEN && file_rec->ddhead->ndds == H4V_MAXNDDS &&
                      file_rec->ddhead->nextoffset == g_blk2_off && file_rec->ddhead->dirty == 0 && file_rec->ddhead->prev == NULL,
                  "first DD block decoded");
        if (g_blk2_off == 0)
            H4V_CHECK(file_rec->ddlast == file_rec->ddhead && file_rec->ddhead->next == NULL, "single block chain");
        else
            H4V_CHECK(file_rec->ddlast == file_rec->ddhead->next && file_rec->ddlast->prev == file_rec->ddhead &&
                          file_rec->ddlast->myoffset == g_blk2_off && file_rec->ddlast->ndds == H4V_MAXNDDS && file_rec->ddlast->next == NULL,
                      "second DD block linked both ways");
        H4V_CHECK(file_rec->ddhead->ddlist[g_idx].tag == IMG16(IMG_DD(MAGICLEN, g_idx)) &&
                      file_rec->ddhead->ddlist[g_idx].ref == IMG16(IMG_DD(MAGICLEN, g_idx) + 2) &&
                      file_rec->ddhead->ddlist[g_idx].offset == IMG32(IMG_DD(MAGICLEN, g_idx) + 4) &&
                      file_rec->ddhead->ddlist[g_idx].length == IMG32(IMG_DD(MAGICLEN, g_idx) + 8) &&
                      file_rec->ddhead->ddlist[g_idx].blk == file_rec->ddhead && file_rec->maxref >= IMG16(IMG_DD(MAGICLEN, g_idx) + 2),
                  "C12: every descriptor is decoded from its 12 big-endian bytes");
        H4V_CHECK(file_rec->f_end_off >= MAGICLEN + NDDS_SZ + OFFSET_SZ + H4V_MAXNDDS * DD_SZ &&
                      (g_blk2_off == 0 || file_rec->f_end_off >= g_blk2_off + NDDS_SZ + OFFSET_SZ + H4V_MAXNDDS * DD_SZ) &&
                      file_rec->f_end_off >= IMG32(IMG_DD(MAGICLEN, g_idx) + 4) + IMG32(IMG_DD(MAGICLEN, g_idx) + 8),
                  "C17: the end of the file is not before the end of any descriptor block or element");
    }
    H4V_COVER(r == SUCCEED, "HTPstart decoded the chain");
    H4V_COVER(r == FAIL && g_hp_failed, "HTPstart read fault");
    H4V_CANARY("HTPstart end");
}

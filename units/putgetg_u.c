/* Verification unit: mfhdf/src/putgetg.c (C03: NCgenio, the odometer for strided hyperslabs).
   Bounded stand-in: rank 1..2, counts 0..2, strides 1..3, element size a constant (C03_W).
   NCvario (putget.c) is a STUB that logs every call and checks it against the request:
     - every transferred cell lies in the requested strided region
       { start[i] + k*stride[i] : 0 <= k < count[i] };
     - cells arrive in row-major order of the request, each exactly once (the n-th cell
       transferred is the cell with request index n);
     - its memory address is values + (request index) * szof.
   From the property ("never modifies a cell outside the requested region"): a request with some
   count == 0 selects no cell and must transfer nothing. */
#include "h4v.h"
#include "h4v_err.h"
#include "nc_priv.h"
#include "putget_pred.h"

#ifndef C03_W
#define C03_W 4
#endif
#define GN_LOG 6

/* the request, as the harness passes it */
const long *g_rq_start, *g_rq_count, *g_rq_stride;
char       *g_rq_values;
int         g_rq_rank;
NC         *g_rq_handle;
int         g_rq_varid;
static NC_var *g_vp;

/* the log */
int   g_calls;                 /* NCvario calls */
long  g_cells;                 /* cells transferred so far */
int   g_io_failed;             /* the stub reported failure */
long  g_lg_start[GN_LOG][2];   /* start vector of call n */
long  g_lg_count[GN_LOG][2];   /* iocount vector of call n */
void *g_lg_values[GN_LOG];     /* values pointer of call n */

H4V_DECL_ND(int);
H4V_DECL_ND(h4v_long);

const char *cdf_routine_name; /* defined in error.c, which is not part of the unit */
void NCadvise(int err, const char *fmt, ...) {}

NC_var *
NC_hlookupvar(NC *handle, int varid)
{
    H4V_ND(int, lookup_fail);
    if (lookup_fail)
        return NULL;
    return g_vp;
}

/* number of cells a request selects (counts are 0..2, rank 1..2): no multiplication needed */
#define GN_TOTAL(c, rank)                                                                            \
    ((rank) == 1 ? (c)[0] : ((c)[0] == 0 || (c)[1] == 0) ? 0L : (c)[0] == 1 ? (c)[1] : (c)[1] + (c)[1])

int
NCvario(NC *handle, int varid, const long *start, const long *edges, void *values)
{
    int rk = g_rq_rank;
    H4V_CHECK(handle == g_rq_handle && varid == g_rq_varid, "NCvario on the requested variable");
    if (g_calls < GN_LOG) {
        for (int i = 0; i < rk; i++) {
            g_lg_start[g_calls][i] = start[i];
            g_lg_count[g_calls][i] = edges[i];
        }
        g_lg_values[g_calls] = values;
    }
    g_calls++;
    /* one run along the fastest dimension, a single index in every other dimension */
    long run = edges[rk - 1];
    H4V_CHECK(run >= 1, "run length >= 1");
    if (rk == 2)
        H4V_CHECK(edges[0] == 1, "single index in the slow dimension");
    /* position k[i] of the first cell of the run in the request: start[i] == rq_start[i] + k*stride */
    long k[2] = {-1, -1};
    for (int i = 0; i < rk; i++)
        for (long j = 0; j < 2; j++)
            if (j < g_rq_count[i] && start[i] == g_rq_start[i] + (j == 0 ? 0 : g_rq_stride[i]))
                if (k[i] < 0)
                    k[i] = j;
    for (int i = 0; i < rk; i++)
        H4V_CHECK(k[i] >= 0, "cell lies in the requested strided region");
    /* a run longer than 1 is only legal for unit stride and must stay inside the count */
    H4V_CHECK(run == 1 || (g_rq_stride[rk - 1] == 1 && k[rk - 1] >= 0 && k[rk - 1] + run <= g_rq_count[rk - 1]),
              "run stays inside the requested region");
    /* row-major index of the first cell of the run in the request */
    long idx = (rk == 1) ? k[0] : (k[0] == 0 ? 0 : g_rq_count[1]) + k[1];
    if (k[0] >= 0 && k[rk - 1] >= 0) {
        H4V_CHECK(idx == g_cells, "cells arrive in row-major order, each exactly once");
        H4V_CHECK((char *)values == g_rq_values + idx * C03_W, "memory address of the cell: values + index * szof");
    }
    if (run >= 1 && run <= 2)
        g_cells += run;
    H4V_CHECK(g_cells <= GN_TOTAL(g_rq_count, rk), "no more cells than the request selects");
    H4V_ND(int, vario_fail);
    if (vario_fail) {
        g_io_failed = 1;
        return -1;
    }
    return 0;
}

#include "putgetg.c"

#define GN_RQ_WF(rank, start, count, stride)                                                         \
    ((start)[0] >= 0 && (start)[0] <= 8 && (count)[0] >= 0 && (count)[0] <= 2 && (stride)[0] >= 1 &&  \
     (stride)[0] <= 3 &&                                                                             \
     ((rank) < 2 || ((start)[1] >= 0 && (start)[1] <= 8 && (count)[1] >= 0 && (count)[1] <= 2 &&      \
                     (stride)[1] >= 1 && (stride)[1] <= 3)))

int H4_NCgenio(NC *handle, int varid, const long *start, const long *count, const long *stride, const long *imap,
               void *values)
    __CPROVER_requires(handle != NULL && start != NULL && count != NULL && stride != NULL && imap == NULL &&
                       values != NULL)
    __CPROVER_requires(g_rq_rank >= 1 && g_rq_rank <= 2 && GN_RQ_WF(g_rq_rank, start, count, stride))
    __CPROVER_requires(g_rq_start == start && g_rq_count == count && g_rq_stride == stride &&
                       g_rq_values == (char *)values && g_rq_handle == handle && g_rq_varid == varid)
    __CPROVER_requires(g_calls == 0 && g_cells == 0 && g_io_failed == 0)
    __CPROVER_assigns(g_calls, g_cells, g_io_failed, __CPROVER_object_whole(g_lg_start),
                      __CPROVER_object_whole(g_lg_count), __CPROVER_object_whole(g_lg_values))
    __CPROVER_ensures(__CPROVER_return_value == 0 || __CPROVER_return_value == -1)
    /* success: exactly the selected cells were transferred (order and addresses: stub checks) */
    __CPROVER_ensures(__CPROVER_return_value == 0 ==> g_cells == GN_TOTAL(count, g_rq_rank))
    /* an empty request (some count == 0) transfers nothing, whatever the outcome */
    __CPROVER_ensures(GN_TOTAL(count, g_rq_rank) == 0 ==> (g_cells == 0 && g_calls == 0))
    /* -1 only if the variable is unknown or the I/O layer failed */
    __CPROVER_ensures(__CPROVER_return_value == -1 ==> (g_io_failed || g_calls == 0));

#ifdef H4V_NATIVE
#include "h4v_native_wrap.h"
#endif

static void
run_NCgenio(int nonempty)
{
    static NC        s_nc;
    static NC_var    s_vp;
    static NC_iarray s_as;
    H4V_ND(int, rank);
    H4V_ASSUME(rank >= 1 && rank <= 2);
    H4V_ND_BUF(h4v_long, start, rank, 2);
    H4V_ND_BUF(h4v_long, count, rank, 2);
    H4V_ND_BUF(h4v_long, stride, rank, 2);
    H4V_ASSUME(GN_RQ_WF(rank, start, count, stride));
    if (nonempty)
        H4V_ASSUME(count[0] >= 1 && (rank < 2 || count[1] >= 1));
    char *values = malloc(4 * C03_W);
    H4V_ASSUME(values != NULL);
    H4V_ND(int, varid);
    s_as.count  = (unsigned)rank;
    s_as.values = NULL;
    s_vp.assoc  = &s_as;
    s_vp.shape  = NULL; /* not looked at when a count vector is given */
    s_vp.szof   = C03_W;
    g_vp        = &s_vp;
    g_rq_start  = start;
    g_rq_count  = count;
    g_rq_stride = stride;
    g_rq_values = values;
    g_rq_rank   = rank;
    g_rq_handle = &s_nc;
    g_rq_varid  = varid;
    g_calls     = 0;
    g_cells     = 0;
    g_io_failed = 0;
    int r = NCgenio(&s_nc, varid, start, count, stride, NULL, values);
    H4V_COVER(r == 0 && g_cells == 4, "NCgenio 2x2 cells");
    H4V_COVER(r == 0 && rank == 2 && g_calls == 2 && g_cells == 4, "NCgenio unit-stride runs");
    H4V_COVER(r == 0 && rank == 1 && g_calls == 2, "NCgenio rank 1 strided");
    H4V_COVER(r == -1 && g_io_failed, "NCgenio I/O failure");
    H4V_COVER(nonempty ? r == 0 : (r == 0 && GN_TOTAL(count, rank) == 0), "NCgenio empty request / success");
    H4V_CANARY("NCgenio end");
}

void
h_NCgenio(void)
{
    run_NCgenio(0);
}

/* the same with every count >= 1: separates the empty-request defect from the odometer proper */
void
h_NCgenio_nonempty(void)
{
    run_NCgenio(1);
}

"""C08: Vgroup membership kernel (vgp.c); shares obligations with C20 (limits) and C02 (record codec)"""
from .core import ob, prop

VG = dict(unit="vgp_u.c", file="hdf/src/vgp.c", objbits=10, cex_unwind=8)

ob("vinsertpair", ["C08", "C20"], entry="h_vinsertpair", enforce="vinsertpair", overflow=True, **VG)
ob("vinsertpair_limit", ["C08", "C20"], entry="h_vinsertpair_limit", enforce="vinsertpair", overflow=True, **VG)
ob("Vaddtagref", "C08", entry="h_Vaddtagref", enforce="Vaddtagref", **VG)
ob("Vdeletetagref", "C08", entry="h_Vdeletetagref", enforce="Vdeletetagref", loops=True, nloops=2, loopcls="P", **VG)
ob("Vinqtagref", "C08", entry="h_Vinqtagref", enforce="Vinqtagref", loops=True, nloops=1, loopcls="P", **VG)
ob("Vntagrefs", "C08", entry="h_Vntagrefs", enforce="Vntagrefs", **VG)
ob("Vnrefs", "C08", entry="h_Vnrefs", enforce="Vnrefs", loops=True, nloops=1, loopcls="P", **VG)
ob("Vgettagref", "C08", entry="h_Vgettagref", enforce="Vgettagref", **VG)
ob("Vgettagrefs", "C08", entry="h_Vgettagrefs", enforce="Vgettagrefs", loops=True, nloops=1, loopcls="P", **VG)
ob("Vsetname", ["C08", "C20"], entry="h_Vsetname", enforce="Vsetname", defines=["VGP_ABS_STR"], overflow=True, **VG)
ob("Vsetclass", ["C08", "C20"], entry="h_Vsetclass", enforce="Vsetclass", defines=["VGP_ABS_STR"], overflow=True, **VG)
RT = dict(entry="h_vg_roundtrip", mode="bounded", unwind=6, cex_unwind=6, unit="vgp_u.c", file="hdf/src/vgp.c", objbits=10)
for _n in range(4):  # one run per member count (symbolic record offsets are what costs)
    ob(f"vg_roundtrip_n{_n}", ["C08", "C02"], defines=["VGP_ALLOC_OK", f"RT_NFIX={_n}"],
       bound=f"nvelt=={_n} (runs for 0..3), names<=3 chars, nattrs<=2, version<=4, allocations succeed", **RT)
MM = dict(mode="bounded", bound="nvelt<=4, msize<=5 (exact reference model)", unwind=7, cex_unwind=7,
          unit="vgp_u.c", file="hdf/src/vgp.c", objbits=10)
ob("Vinqtagref_model", "C08", entry="h_Vinqtagref_model", **MM)
ob("Vnrefs_model", "C08", entry="h_Vnrefs_model", **MM)
ob("Vdeletetagref_model", "C08", entry="h_Vdeletetagref_model", **MM)

prop("C08",
     residual="Vattach/Vdetach life cycle and write-back are under contract per call (c08_vgp_life.py; vpackvg's contract only checked bounded) and "
              "over bounded two-handle histories; Vlone/VSlone against an exact model with MAX_REF scaled to 15 (thorough).  NOT decided: "
              "(round 3, c08_lookup.py: Vgetid/VSgetid over a windowed ordered map, Visvg/Visvs/Vgetnext, name/class read-out, Vfind family bounded)  "
              "descriptor reuse inside the H layer, the tbbt trees themselves, Vinsert by handle, Vdelete/VSdelete, reopen; equality "
              "with the reference model over whole histories",
     assumptions=["A-ATOM1: HAatom_group/HAatom_object are a one-entry finite map chosen by the harness (atom.c not in this unit)",
                  "A-STRLEN: in Vsetname/Vsetclass strlen returns the true length g_len of the harness-built string and "
                  "HIstrncpy is modelled exactly on one ghost character and the terminator (destination size checked)"])

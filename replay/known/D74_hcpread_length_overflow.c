/* Build: gcc D74_hcpread_length_overflow.c -I/repo/hdf/src -I/repo/_build -L/repo/_build/bin -lhdf -lz -ljpeg -lm; run with LD_LIBRARY_PATH=/repo/_build/bin. Segfault / exit status != 0 = defect present. */
/* D74: Hread with a huge length on a compressed element: posn + length overflows in HCPread's range check */
#include "hdf.h"
#include "hcomp.h"
#include <stdio.h>
#include <string.h>
int main(void)
{
    static uint8 data[1000], back[4096]; model_info m; comp_info c; int32 f, aid, r;
    memset(data, 7, sizeof data);
    f = Hopen("d74.hdf", DFACC_CREATE, 0);
    memset(&m, 0, sizeof m); memset(&c, 0, sizeof c);
    aid = HCcreate(f, 1000, 1, COMP_MODEL_STDIO, &m, COMP_CODE_RLE, &c);
    Hwrite(aid, 1000, data); Hendaccess(aid);
    aid = Hstartread(f, 1000, 1);
    Hread(aid, 100, back);                         /* position 100 */
    memset(back, 0xEE, sizeof back);
    r = Hread(aid, 0x7fffffff - 50, back);         /* reaches far beyond the element: must be refused before anything is decoded */
    printf("Hread(huge) -> %d (expected -1), first buffer byte 0x%02x (expected 0xee: nothing delivered)\n", (int)r, back[0]);
    Hendaccess(aid); Hclose(f);
    return r != FAIL || back[0] != 0xEE;
}

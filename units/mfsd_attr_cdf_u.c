/* Verification unit: mfhdf/src/cdf.c (C10: an attribute survives close and reopen with its HDF
 * number type and count) -- hdf_write_attr followed by hdf_read_attrs on a Vgroup that holds the
 * one attribute Vdata written, V layer as trusted stubs over a ghost Vdata header.
 * No contract: harness-level checks on the real code (bounded: one attribute in the Vgroup).
 */
#include "h4v.h"
#include "h4v_err.h"
#include <string.h>
#include "nc_priv.h"

H4V_DECL_ND(int);
H4V_DECL_ND(int32);
H4V_DECL_ND(unsigned);

const char *cdf_routine_name;

/* ghost Vdata header as VHstoredatam creates it: n records of one field of `order` values of `type` */
static int32       g_vs_n, g_vs_type, g_vs_order;
static const char *g_vs_name, *g_vs_class;
static int         g_stored_calls;
static int32       g_hdf_file;
#define H4V_VSREF 77
#define H4V_VSKEY 0x40001
/* what NC_new_attr is asked to build on the way back */
static nc_type     g_rd_type;
static unsigned    g_rd_count;
static int         g_rd_calls;
static NC_attr    *g_rd_attr;
static int         g_vfail; /* a stub refused */

static int
h4v_ntsize(int32 nt)
{
    switch (nt & 0xff) {
        case DFNT_UCHAR:
        case DFNT_CHAR:
        case DFNT_INT8:
        case DFNT_UINT8:
            return 1;
        case DFNT_INT16:
        case DFNT_UINT16:
            return 2;
        case DFNT_INT32:
        case DFNT_UINT32:
        case DFNT_FLOAT32:
            return 4;
        case DFNT_FLOAT64:
            return 8;
        default:
            return FAIL;
    }
}

/* vhi.c VHstoredatam: a Vdata of n records, one field `field` of `order` values of `datatype` */
int32
VHstoredatam(HFILEID f, const char *field, const uint8 *buf, int32 n, int32 datatype, const char *vsname,
             const char *vsclass, int32 order)
{
    (void)field;
    (void)buf;
    H4V_CHECK(f == g_hdf_file, "VHstoredatam: in the SD file");
    g_stored_calls++;
    g_vs_n     = n;
    g_vs_type  = datatype;
    g_vs_order = order;
    g_vs_name  = vsname;
    g_vs_class = vsclass;
    return H4V_VSREF;
}

int32
Vntagrefs(int32 vkey)
{
    (void)vkey;
    return 1;
}

int
Vgettagref(int32 vkey, int32 which, int32 *tag, int32 *ref)
{
    (void)vkey;
    H4V_CHECK(which == 0, "Vgettagref: the one member");
    *tag = DFTAG_VH;
    *ref = H4V_VSREF;
    return SUCCEED;
}

int32
VSattach(HFILEID f, int32 vsref, const char *accesstype)
{
    (void)accesstype;
    H4V_CHECK(f == g_hdf_file && vsref == H4V_VSREF, "VSattach: the attribute Vdata");
    return H4V_VSKEY;
}

int32
VSgetclass(int32 vkey, char *vsclass)
{
    (void)vkey;
    /* the class hdf_write_attr gave it */
    vsclass[0] = 'A', vsclass[1] = 't', vsclass[2] = 't', vsclass[3] = 'r', vsclass[4] = '0', vsclass[5] = '.', vsclass[6] = '0', vsclass[7] = 0;
    return SUCCEED;
}

int
VSinquire(int32 vkey, int32 *nelt, int32 *interlace, char *fields, int32 *eltsize, char *vsname)
{
    (void)vkey;
    if (nelt)
        *nelt = g_vs_n;
    if (interlace)
        *interlace = FULL_INTERLACE;
    if (fields)
        fields[0] = 'V', fields[1] = 0;
    if (eltsize)
        *eltsize = g_vs_order * h4v_ntsize(g_vs_type);
    if (vsname)
        vsname[0] = 'a', vsname[1] = 0;
    return SUCCEED;
}

int32
VFfieldtype(int32 vkey, int32 idx)
{
    (void)vkey;
    H4V_CHECK(idx == 0, "VFfieldtype: the one field");
    return g_vs_type;
}

int32
VFfieldorder(int32 vkey, int32 idx)
{
    (void)vkey;
    H4V_CHECK(idx == 0, "VFfieldorder: the one field");
    return g_vs_order;
}

int
VSsetfields(int32 vkey, const char *fields)
{
    (void)vkey;
    (void)fields;
    return SUCCEED;
}

int32
VSread(int32 vkey, uint8 buf[], int32 nelt, int32 interlace)
{
    (void)vkey;
    (void)buf;
    (void)interlace;
    return nelt;
}

int32
VSdetach(int32 vkey)
{
    (void)vkey;
    return SUCCEED;
}

NC_attr *
NC_new_attr(const char *name, nc_type type, unsigned count, const void *values)
{
    (void)name;
    (void)values;
    g_rd_calls++;
    g_rd_type  = type;
    g_rd_count = count;
    g_rd_attr  = malloc(sizeof(NC_attr));
    if (g_rd_attr == NULL) {
        g_vfail = 1;
        return NULL;
    }
    g_rd_attr->name    = NULL;
    g_rd_attr->data    = NULL;
    g_rd_attr->HDFtype = 0;
    return g_rd_attr;
}

NC_array *
NC_new_array(nc_type type, unsigned count, const void *values)
{
    (void)values;
    NC_array *a = malloc(sizeof(NC_array));
    if (a == NULL) {
        g_vfail = 1;
        return NULL;
    }
    a->type   = type;
    a->count  = count;
    a->szof   = sizeof(NC_attr *);
    a->len    = 0;
    a->values = NULL;
    return a;
}

int
NC_free_array(NC_array *array)
{
    (void)array;
    return SUCCEED;
}

/* allocation failure inside cdf.c is a legitimate reason to fail: record it */
static void *
h4v_cdf_malloc(size_t n)
{
    void *p = malloc(n);
    if (p == NULL)
        g_vfail = 1;
    return p;
}
#define malloc(n) h4v_cdf_malloc(n)
#include "cdf.c"
#undef malloc

#ifdef H4V_NATIVE
#include "h4v_native_wrap.h"
#endif

/* set an attribute of any HDF number type SDsetattr accepts and any count 1..MAX_ORDER, write it
   (SDend), read it back (SDstart): same HDF number type, same count */
static void
reopen_body(int exclude_uchar)
{
    H4V_HAVOC(int32, g_hdf_file);
    H4V_ND(int32, nt);
    H4V_ND(unsigned, count);
    if (exclude_uchar)
        H4V_ASSUME(!(nt == DFNT_UCHAR && count > 1));
    H4V_ASSUME(h4v_ntsize(nt) != FAIL && (nt & ~0xff) == 0);
    H4V_ASSUME(count >= 1 && count <= MAX_ORDER && count * (unsigned)h4v_ntsize(nt) <= MAX_FIELD_SIZE);
    g_stored_calls = g_rd_calls = g_vfail = 0;
    static NC        nc;
    static NC_attr   at;
    static NC_string nm;
    static NC_array  da;
    static char      nmv[2] = {'a', 0};
    static uint8_t   dv[1];
    nc.hdf_file = g_hdf_file;
    nm.count = nm.len = 1;
    nm.values         = nmv;
    da.type           = NC_BYTE;
    da.count          = count;
    da.szof           = 1;
    da.values         = dv;
    at.name           = &nm;
    at.data           = &da;
    at.HDFtype        = nt;
    NC_attr *atp      = &at;
    int      w        = hdf_write_attr(NULL, &nc, &atp);
    H4V_CHECK(w == H4V_VSREF && g_stored_calls == 1, "hdf_write_attr stores one Vdata");
    NC_array *back = hdf_read_attrs(NULL, &nc, 5);
    H4V_CHECK(g_vfail || (back != NULL && back->count == 1 && g_rd_calls == 1), "the attribute is found again");
    if (back != NULL) {
        H4V_CHECK(g_rd_attr->HDFtype == nt, "reopen: same HDF number type");
        H4V_CHECK(g_rd_count == count, "reopen: same count");
    }
    H4V_COVER(back != NULL && nt == DFNT_CHAR && count == 5, "reopen: char attribute of 5");
    H4V_COVER(back != NULL && nt == DFNT_FLOAT64 && count == 3, "reopen: 3 doubles");
    H4V_COVER(back != NULL && nt == DFNT_UINT8 && count == MAX_ORDER, "reopen: largest uint8 attribute");
    H4V_CANARY("attr_reopen end");
}

/* every HDF number type, every count (FAILS for DFNT_UCHAR8 with count > 1) */
void
h_attr_reopen(void)
{
    reopen_body(0);
}

/* the complement of that input */
void
h_attr_reopen_rest(void)
{
    reopen_body(1);
}

"""C05: lossless coders and bit I/O (crle.c, hbitio.c, cnbit.c)"""
import os
from .core import ob, prop

CADICAL = ["--sat-solver", "cadical"]

# ----------------------------------------------------------------------------- crle.c
RLE0 = dict(unit="crle_u.c", file="hdf/src/crle.c")
RLE = dict(cex_unwind=14, **RLE0)
# (a) unbounded, loop contracts.  *_wf: RLE_WF state invariant, every buffer index in bounds, packet
# well-formedness, offset/packet-length accounting for ANY length and bytes (ghost-element clause
# switched off: quick).  Full versions add the ghost stream position g_k: what the emitted packets
# decode to at g_k is the input byte at g_k (encode/term), the byte delivered for g_k is what the
# fetched packets decode to (decode).
ob("crle_encode_wf", "C05", entry="h_crle_encode", enforce="HCIcrle_encode", loops=True, nloops=1, loopcls="P",
   defines=["RLE_NO_GHOST"], flags=CADICAL, timeout=600, **RLE)
ob("crle_encode", "C05", entry="h_crle_encode", enforce="HCIcrle_encode", loops=True, nloops=1, loopcls="P",
   flags=CADICAL, timeout=1200, tier="thorough", **RLE)
ob("crle_term", "C05", entry="h_crle_term", enforce="HCIcrle_term", **RLE)
ob("crle_decode_wf", "C05", entry="h_crle_decode", enforce="HCIcrle_decode", loops=True, nloops=1, loopcls="P",
   defines=["RLE_GHOST_COPY", "RLE_NO_GHOST"], flags=CADICAL, timeout=600,
   trusted=["ghost-element models of memcpy/memset (range checked + havocked, watched byte exact)"], **RLE)
ob("crle_decode", "C05", entry="h_crle_decode", enforce="HCIcrle_decode", loops=True, nloops=1, loopcls="P",
   defines=["RLE_GHOST_COPY"], flags=CADICAL, timeout=1800, tier="thorough",
   trusted=["ghost-element models of memcpy/memset (range checked + havocked, watched byte exact)"], **RLE)
ob("crle_init", "C05", entry="h_crle_init", enforce="HCIcrle_init", **RLE)
# (b) bounded round trips through the ghost byte store: init, <=3 encode calls, term, init, <=3 decode calls
RT = dict(entry="h_crle_roundtrip", mode="bounded", objbits=11, flags=CADICAL,
          trusted=["byte-loop models of memcpy/memset (source re-based on the typed RLE buffer)"], **RLE0)
ob("crle_roundtrip3", "C05", bound="stream <= 3 bytes, full alphabet, any split into <= 3 encode calls + term and <= 3 decode calls",
   unwind=5, cex_unwind=5, defines=["RT_N=3", "RLE_LOOP_COPY"], timeout=600, **RT)
ob("crle_roundtrip4", "C05", bound="stream <= 4 bytes, full alphabet, any split into <= 3 encode calls + term and <= 3 decode calls",
   unwind=6, cex_unwind=6, defines=["RT_N=4", "RLE_LOOP_COPY"], timeout=1800, tier="thorough", **RT)
ob("crle_roundtrip6", "C05", bound="stream <= 6 bytes, full alphabet, any split into <= 3 encode calls + term and <= 3 decode calls",
   unwind=8, cex_unwind=8, defines=["RT_N=6", "RLE_LOOP_COPY"], timeout=5400, tier="thorough", **RT)

# ----------------------------------------------------------------------------- hbitio.c
_HB = os.path.join(os.environ.get("H4V_REPO", "/repo"), "hdf/src/hbitio.c")
# dfcc havocs every static; the function-static id caches of Hbitwrite/Hbitread cannot be named from C.
# Keep their C initialisers (-1/NULL = fresh library state); afterwards only real calls drive them.
BIT_GI = []
try:
    _hb_text = open(_HB, errors="replace").read()
except OSError:
    _hb_text = ""
import re as _re
for _f in ("Hbitwrite", "Hbitread"):
    for _v in ("last_bit_id", "bitfile_rec"):
        # only trees that (still / again) have the function-static cache: commit 8e6aed9 of /repo removed it
        if _re.search(r"\bstatic\s+\w+\s*\*?\s*%s\b" % _v, _hb_text):
            BIT_GI += ["--nondet-static-exclude", f"{_HB}:{_f}::1::{_v}"]
BIT = dict(unit="hbitio_u.c", file="hdf/src/hbitio.c", gi_flags=BIT_GI, objbits=10, cex_unwind=18,
           trusted=["calloc never fails (__CPROVER_allocate)", "one-slot atom registry", "ghost byte store behind Hwrite/Hread/Hseek/Hinquire"])
ob("bit_masks", "C05", entry="h_bit_masks", unit="hbitio_u.c", file="hdf/src/hbitio.c")
ob("bit_roundtrip1", "C05", entry="h_bit_roundtrip", mode="bounded", unwind=18, defines=["BIT_NF=1"],
   bound="1 field of width 1..32 (any value): Hstartbitwrite, Hbitwrite, Hendbitaccess(flush 0), Hstartbitread, Hbitread, Hendbitaccess", **BIT)
ob("bit_roundtrip2", "C05", entry="h_bit_roundtrip", mode="bounded", unwind=18, defines=["BIT_NF=2"], timeout=2400, tier="thorough",
   bound="<= 2 fields of width 1..32 (any values), same history", **BIT)
ob("bit_seek", "C05", entry="h_bit_seek", mode="bounded", unwind=18, timeout=3000, tier="thorough",
   bound="2 fields of width 1..32: write, write, Hbitseek to the start of field 2 (write mode), Hbitread through HIwrite2read", **BIT)
ob("bit_unknown_id", ["C05", "C13"], entry="h_bit_unknown_id", unwind=18, **BIT)
# C13 / DESIGN 9 D6: expected to FAIL on the unchanged tree (function-static record cache)
ob("bit_stale_write", ["C05", "C13"], entry="h_bit_stale_write", mode="bounded",
   bound="2-call history: Hstartbitwrite, Hbitwrite(1..7 bits), Hendbitaccess, Hbitwrite(same id)", unwind=18, **BIT)
ob("bit_stale_read", ["C05", "C13"], entry="h_bit_stale_read", mode="bounded",
   bound="2-call history: Hstartbitread (4-byte element), Hbitread(1..7 bits), Hendbitaccess, Hbitread(same id)", unwind=18, **BIT)

# ----------------------------------------------------------------------------- cnbit.c
# NOT REGISTERED (resources): HCIcnbit_init, units/cnbit_u.c, contract = per-bit big-endian mask, per-byte
# offset/length, mask_buf fill pattern.  The formula stays at 30-45 M clauses (6 KB coder-state object, two
# memsets through void*, ghost-indexed struct array); one run per nt_size needs > 10 min / > 4 GB with
# unwinding assertions.  A hand run for nt_size=4 without unwinding assertions finished in 2 min 53 s with
# every clause but one discharged; that one was an over-specification of mine (offset of a byte without
# field bits), fixed afterwards and not re-run to completion.  Re-enable when tractable:
# for _nt in (1, 2, 4, 8):
#     ob(f"cnbit_init_nt{_nt}", "C05", entry="h_cnbit_init", enforce="HCIcnbit_init", unit="cnbit_u.c", file="hdf/src/cnbit.c",
#        mode="proved-finite", bound=f"nt_size = {_nt} (one run per size of {{1,2,4,8}}; loops run nt_size times), every mask_off/mask_len/fill_one",
#        defines=[f"NB_NT={_nt}"], unwind=17, cex_unwind=17, objbits=10, timeout=900, flags=CADICAL,
#        tier="quick" if _nt <= 2 else "thorough",
#        trusted=["typed model of the two memsets of HCIcnbit_init (destination asserted to be mask_buf / mask_info)"])

prop("C05",
     residual="decided additionally by c05_coders_ext.py: the seek functions of the RLE / skipping-Huffman / deflate / none / n-bit coders (helpers by "
              "TRUSTED counting contracts), HCPcrle_endaccess, HIwrite2read and write-mode Hbitseek per call (OPEN finding K4: HIread2write), the "
              "compression header codec (c03_sdio.py).  NOT decided: skipping-Huffman and deflate coding itself (zlib external), n-bit encode/decode "
              "(only HCIcnbit_init's mask tables and the seek arithmetic are proved; the decode partition defect D72 was found natively), read-mode "
              "Hbitseek per call, hcomp.c dispatch, reopen of compressed elements; composition of the unbounded encode and decode proofs into a "
              "round trip is by the shared PK_* packet semantics of the stubs (machine-checked only up to 6 bytes)",
     assumptions=[
         "A-RLE-IO: Hread/HDgetc report a short read as FAIL; HDputc/Hwrite either store all bytes or FAIL",
         "A-RLE-VIEW: the harness allocates compinfo_t as a same-size object whose declared type exposes the RLE "
         "member of the coder union (cbmc models the union as one bit-vector); the kernels see the same memory",
         "A-RLE-COPY: crle_decode proofs use ghost-element models of memcpy/memset (whole range checked for "
         "accessibility and frame, destination havocked, only the byte holding ghost position g_k exact); bounded "
         "round trips use byte-loop models",
         "A-NBIT-MEMSET: cnbit_init runs use a typed model of memset that asserts the destination is exactly "
         "mask_buf (n <= 16) or mask_info (c == 0, whole array) and assigns the same bytes member-wise; the harness "
         "allocates compinfo_t through a layout-identical view exposing the n-bit member (as A-RLE-VIEW)",
         "A-BIT-STATIC: the function-static id cache of Hbitwrite/Hbitread starts at its C initialiser -1/NULL "
         "(fresh library state, --nondet-static-exclude) and is then driven only by real calls",
         "A-BIT-ENV: calloc does not fail; one bit id / one access id (concrete values); atom layer = one-slot registry",
     ])

/* Verification unit: hdf/src/vrw.c (C07 record addressing and gather/scatter; C20 offset product) */
#include "h4v.h"
#include "h4v_err.h"
#include <string.h>
#include "vg_priv.h"

/* ---------------- ghost environment ---------------- */
vsinstance_t *g_w;
VDATA        *g_vs;
int           g_grp, g_inst_null;
/* Hseek log */
int32 g_seek_n, g_seek_aid, g_seek_off, g_seek_origin, g_seek_ret;
/* ghost record store behind Hread/Hwrite: the data element of the vdata */
#ifndef STORE_CAP
#define STORE_CAP 32
#endif
uint8 g_store[STORE_CAP];
int32 g_store_len; /* bytes in the element */
int32 g_pos;       /* position of the access element */
int32 g_io_n;      /* number of Hread/Hwrite calls */
int32 g_io_short;  /* make the next transfer fail */
int32 g_exist;     /* answer of vexistvs */
/* ghost user-buffer position for "nothing outside nelt*uvsize is written" */
int32 g_k;

/* ---------------- stubs ---------------- */
group_t
HAatom_group(atom_t atm)
{
    return (group_t)g_grp;
}
void *
HAatom_object(atom_t atm)
{
    return g_inst_null ? NULL : (void *)g_w;
}
int
Hseek(int32 access_id, int32 offset, int origin)
{
    g_seek_n++;
    g_seek_aid    = access_id;
    g_seek_off    = offset;
    g_seek_origin = origin;
    if (g_seek_ret != FAIL)
        g_pos = offset;
    return g_seek_ret;
}
int32
vexistvs(HFILEID f, uint16 vsid)
{
    return g_exist;
}
int
VSPhshutdown(void)
{
    return SUCCEED;
}
/* Hread/Hwrite over the ghost store: the caller must pass a positive length and a buffer that
   holds it (checked); transfers are whole or fail */
int32
Hread(int32 access_id, int32 length, void *data)
{
    g_io_n++;
    H4V_CHECK(access_id == g_vs->aid, "Hread on the vdata's access id");
    H4V_CHECK(length > 0, "Hread sub-request has positive length");
    if (g_io_short || length <= 0 || g_pos < 0 || g_pos + length > g_store_len)
        return FAIL;
    memcpy(data, g_store + g_pos, (size_t)length);
    g_pos += length;
    return length;
}
int32
Hwrite(int32 access_id, int32 length, const void *data)
{
    g_io_n++;
    H4V_CHECK(access_id == g_vs->aid, "Hwrite on the vdata's access id");
    H4V_CHECK(length > 0, "Hwrite sub-request has positive length");
    if (g_io_short || length <= 0 || g_pos < 0 || g_pos + length > STORE_CAP)
        return FAIL;
    memcpy(g_store + g_pos, data, (size_t)length);
    g_pos += length;
    if (g_pos > g_store_len)
        g_store_len = g_pos;
    return length;
}
int
Hinquire(int32 access_id, int32 *pfile_id, uint16 *ptag, uint16 *pref, int32 *plength, int32 *poffset, int32 *pposn,
         int16 *paccess, int16 *pspecial)
{
    if (pposn != NULL)
        *pposn = g_pos;
    return SUCCEED;
}
/* DFKconvert (dfconv.c, C06): trusted stand-in -- strided byte copy of num_elm elements of the
   type's size (1-byte and 2-byte types only in the bounded runs), with 16-bit elements byte-swapped
   the way the real DFKsb2b does on a little-endian host.  Strides 0,0 mean contiguous. */
int32 g_conv_bad; /* set if the caller passes a non-positive count */
int32
DFKconvert(void *source, void *dest, int32 ntype, int32 num_elm, int16 acc_mode, int32 source_stride, int32 dest_stride)
{
    uint8 *s = (uint8 *)source, *d = (uint8 *)dest;
    int    sz = (ntype == DFNT_INT16 || ntype == DFNT_UINT16) ? 2 : 1;
    if (num_elm <= 0) {
        g_conv_bad = 1;
        return FAIL;
    }
    if (source_stride == 0 && dest_stride == 0)
        source_stride = dest_stride = sz;
    for (int32 e = 0; e < num_elm; e++) {
        if (sz == 1)
            d[0] = s[0];
        else {
            uint8 b0 = s[0], b1 = s[1];
            d[0] = b1;
            d[1] = b0;
        }
        s += source_stride;
        d += dest_stride;
    }
    return 0;
}

#include "vrw.c"

/* ---------------- contracts ---------------- */
#define KEY_BAD (g_grp != VSIDGROUP || g_inst_null || g_w->vs == NULL)
#define ENV_WF  (g_w != NULL && g_vs != NULL && (g_w->vs == NULL || g_w->vs == g_vs))
#define SEEK_REFUSED (KEY_BAD || eltpos < 0 || g_vs->wlist.n <= 0)
/* the record's byte offset is not representable (one record size W per run: VSSEEK_W) */
#define SEEK_FAR ((long long)eltpos * (long long)VSSEEK_W > 2147483647LL)

#ifndef VSSEEK_W
#define VSSEEK_W 1
#endif
int32 VSseek(int32 vkey, int32 eltpos)
    __CPROVER_requires(ENV_WF && g_seek_n == 0 && (g_seek_ret == SUCCEED || g_seek_ret == FAIL))
    __CPROVER_requires(g_vs->wlist.ivsize == VSSEEK_W) /* symbolic x symbolic products are not tractable: one W per run */
    __CPROVER_assigns(g_seek_n, g_seek_aid, g_seek_off, g_seek_origin, g_pos)
    /* negative position, bad key or a vdata without fields: FAIL, and no seek is issued */
    __CPROVER_ensures(SEEK_REFUSED ==> (__CPROVER_return_value == FAIL && g_seek_n == 0))
    /* otherwise exactly one seek, from the start, on the vdata's element ... */
    __CPROVER_ensures((!SEEK_REFUSED && !SEEK_FAR) ==> (g_seek_n == 1 && g_seek_aid == g_vs->aid && g_seek_origin == DF_START))
    /* ... to byte eltpos*ivsize, the true product, whenever that is a representable offset.  One record
       size W per run (symbolic x symbolic products are not tractable): W = VSSEEK_W */
    __CPROVER_ensures((!SEEK_REFUSED && !SEEK_FAR) ==> (long long)g_seek_off == (long long)eltpos * (long long)VSSEEK_W)
    /* a record beyond the 2^31-1 byte limit cannot be addressed: refused */
    __CPROVER_ensures((!SEEK_REFUSED && SEEK_FAR) ==> __CPROVER_return_value == FAIL)
    __CPROVER_ensures((!SEEK_REFUSED && !SEEK_FAR) ==> __CPROVER_return_value == (g_seek_ret == FAIL ? FAIL : eltpos));

#ifdef H4V_NATIVE
#include "h4v_native_wrap.h"
#endif

/* ---------------- harnesses ---------------- */
H4V_DECL_ND(int);
H4V_DECL_ND(int16);
H4V_DECL_ND(uint16);
H4V_DECL_ND(int32);
H4V_DECL_ND(uint8);

static VDATA *
mk_env(void)
{
    H4V_ND(int, grp);
    H4V_ND(int, inst_null);
    H4V_ND(int, vs_null);
    g_grp       = grp;
    g_inst_null = inst_null;
    g_w         = malloc(sizeof(vsinstance_t));
    g_vs        = malloc(sizeof(VDATA));
    H4V_ASSUME(g_w != NULL && g_vs != NULL);
    memset(g_vs, 0, sizeof(VDATA));
    g_w->vs = vs_null ? NULL : g_vs;
    return g_vs;
}

void
h_VSseek(void)
{
    VDATA *vs = mk_env();
    H4V_ND(int32, eltpos);
    H4V_ND(int32, nfields);
    H4V_ND(uint16, ivsize);
    H4V_ND(int32, aid);
    H4V_ND(int32, seek_ret);
    ivsize = VSSEEK_W; /* one constant record size per run keeps the product concrete x symbolic */
    H4V_ASSUME(nfields >= 0 && nfields <= VSFIELDMAX);
    H4V_ASSUME(seek_ret == SUCCEED || seek_ret == FAIL);
    vs->wlist.n      = nfields;
    vs->wlist.ivsize = ivsize;
    vs->aid          = aid;
    g_seek_n         = 0;
    g_seek_ret       = seek_ret;
    g_pos            = 0;
    int32 r          = VSseek(7, eltpos);
    H4V_COVER(r == eltpos && eltpos > 0, "VSseek succeeds");
    H4V_COVER(r == FAIL && eltpos == -2, "VSseek refuses a negative position");
    H4V_COVER(r == FAIL && nfields == 0 && eltpos > 0, "VSseek refuses a vdata without fields");
    H4V_CANARY("VSseek end");
}

/* ---- VSread gather (bounded): <= 2 fields of 1- or 2-byte type, order <= 2, nelt <= 2, file and
   user interlace FULL/NO, read list = any non-repeating selection of the fields.  The user buffer
   is allocated with EXACTLY nelt*uvsize bytes: any write outside it is a failed pointer check. ---- */
#define RF 2
void
h_VSread(void)
{
    VDATA *vs = mk_env();
    H4V_ND(int, nf);
    H4V_ND(int, rn);
    H4V_ND(int32, nelt);
    H4V_ND(int32, interlace);
    H4V_ND(int16, vs_interlace);
    H4V_ND(int, g_r);  /* ghost record */
    H4V_ND(int, g_j);  /* ghost position in the read list */
    H4V_ND(int, g_c);  /* ghost component */
    H4V_ND(int, g_b);  /* ghost byte of the component */
    H4V_ASSUME(nf >= 1 && nf <= RF && rn >= 1 && rn <= nf && nelt >= 1 && nelt <= 2);
    H4V_ASSUME(vs_interlace == FULL_INTERLACE || vs_interlace == NO_INTERLACE);
    static int16  type[RF];
    static uint16 off[RF], isize[RF], order[RF], esize[RF];
    static char  *name[RF];
    static int    item[RF];
    H4V_ND_BUF(uint8, f_wide, nf, RF);  /* 1: 16-bit type, 0: 8-bit type */
    H4V_ND_BUF(uint8, f_order, nf, RF);
    H4V_ND_BUF(uint8, r_item, rn, RF);
    int32 ivsize = 0;
    for (int i = 0; i < RF; i++)
        if (i < nf) {
            H4V_ASSUME(f_wide[i] <= 1 && f_order[i] >= 1 && f_order[i] <= 2);
            type[i]  = f_wide[i] ? DFNT_UINT16 : DFNT_UINT8;
            order[i] = f_order[i];
            isize[i] = (uint16)(f_order[i] * (f_wide[i] ? 2 : 1));
            esize[i] = isize[i];
            off[i]   = (uint16)ivsize;
            ivsize += isize[i];
        }
    int32 uvsize = 0;
    for (int j = 0; j < RF; j++)
        if (j < rn) {
            H4V_ASSUME(r_item[j] < nf);
            item[j] = r_item[j];
            uvsize += esize[item[j]];
        }
    H4V_ASSUME(rn < 2 || item[0] != item[1]);
    vs->wlist.n      = nf;
    vs->wlist.ivsize = (uint16)ivsize;
    vs->wlist.type   = type;
    vs->wlist.off    = off;
    vs->wlist.isize  = isize;
    vs->wlist.order  = order;
    vs->wlist.esize  = esize;
    vs->wlist.name   = name;
    vs->rlist.n      = rn;
    vs->rlist.item   = item;
    vs->interlace    = vs_interlace;
    vs->nvertices    = nelt;
    vs->aid          = 77;
    vs->access       = 'r';
    g_exist          = TRUE;
    g_io_short       = 0;
    g_io_n           = 0;
    g_pos            = 0;
    g_store_len      = nelt * ivsize;
    Vtbuf            = NULL;
    Vtbufsize        = 0;
    H4V_ND_BUF(uint8, store, g_store_len, 16);
    for (int i = 0; i < 16; i++)
        if (i < g_store_len)
            g_store[i] = store[i];
    uint8 *ubuf = malloc((size_t)(nelt * uvsize));
    H4V_ASSUME(ubuf != NULL);
    int32 r = VSread(7, ubuf, nelt, interlace);
    if (KEY_BAD || (interlace != FULL_INTERLACE && interlace != NO_INTERLACE)) {
        H4V_CHECK(r == FAIL, "VSread refuses a bad key / interlace");
    }
    else if (Vtbuf != NULL || r != FAIL) { /* the only other refusal is running out of memory */
        H4V_CHECK(r == nelt, "VSread returns the number of records read");
        if (g_r >= 0 && g_r < nelt && g_j >= 0 && g_j < rn) {
            int f  = item[g_j];
            int sz = (type[f] == DFNT_UINT16) ? 2 : 1;
            if (g_c >= 0 && g_c < order[f] && g_b >= 0 && g_b < sz) {
                int32 uoff = (g_j == 1) ? esize[item[0]] : 0;
                int32 spos = (vs_interlace == FULL_INTERLACE) ? g_r * ivsize + off[f] + g_c * sz + g_b
                                                              : off[f] * nelt + g_r * isize[f] + g_c * sz + g_b;
                int32 upos = (interlace == FULL_INTERLACE) ? g_r * uvsize + uoff + g_c * sz + (sz - 1 - g_b)
                                                           : uoff * nelt + g_r * esize[f] + g_c * sz + (sz - 1 - g_b);
                H4V_CHECK(ubuf[upos] == g_store[spos], "VSread: ghost (record, field, component, byte) is where interlace and field list dictate");
            }
        }
    }
    H4V_COVER(r == nelt && nf == 2 && rn == 2 && item[0] == 1 && interlace == NO_INTERLACE && vs_interlace == FULL_INTERLACE, "VSread case A, fields swapped");
    H4V_COVER(r == nelt && nf == 2 && rn == 1 && interlace == FULL_INTERLACE && vs_interlace == FULL_INTERLACE, "VSread case C, subset");
    H4V_COVER(r == nelt && nf == 2 && interlace == FULL_INTERLACE && vs_interlace == NO_INTERLACE, "VSread case D");
    H4V_COVER(r == nelt && nf == 2 && interlace == NO_INTERLACE && vs_interlace == NO_INTERLACE, "VSread case B");
    H4V_COVER(r == nelt && nf == 1 && nelt == 2, "VSread case E");
    H4V_CANARY("VSread end");
}

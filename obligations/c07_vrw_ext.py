"""C07/C20 (staging): the Vdata transfer kernel made decidable -- constant sizes per run, ghost indices, logging stubs.
   vsfld.c VSsetfields / VSfdefine redefinition; vrw.c VSwrite bookkeeping, VSread/VSwrite transfer-buffer chunking."""
from .core import ob

# ----------------------------------------------------------------------------- vsfld.c
VSF = dict(unit="vsfld_u.c", file="hdf/src/vsfld.c",
           trusted=["scanattrs (vparse.c): FAIL or the harness-built token vector",
                    "HAatom_group/HAatom_object: group id / harness-built vsinstance_t or NULL",
                    "strcmp/strdup: exact unrolled models for names of <= 2 characters"])
for ac, nus in ((1, 1), (2, 1), (2, 2), (3, 2)):
    ob(f"VSsetfields_ac{ac}_u{nus}", ["C07", "C20"], entry="h_VSsetfields_new", enforce="VSsetfields", mode="bounded",
       bound=f"{ac} requested field(s), {nus} user-defined symbol(s) + the 9 predefined ones, names <= 2 characters",
       overflow=True, unwind=11, cex_unwind=14, defines=["H4V_SMALL_STR", "NMLEN=2", f"SF_AC={ac}", f"SF_NUSYM={nus}"],
       timeout=200 if ac < 3 else 1200, tier="quick" if ac < 3 else "thorough", **VSF)
# scenario "user-defined fields only" (the predefined-field path is not reached): separates the two size-check paths
ob("VSsetfields_ac2_u2_user", ["C07", "C20"], entry="h_VSsetfields_new", enforce="VSsetfields", mode="bounded",
   bound="2 requested fields, both user-defined; 2 user symbols, names <= 2 characters", overflow=True, unwind=11, cex_unwind=14,
   defines=["H4V_SMALL_STR", "NMLEN=2", "SF_AC=2", "SF_NUSYM=2", "SF_USERONLY"], timeout=200, **VSF)
ob("VSsetfields_gate", ["C07", "C20"], entry="h_VSsetfields_gate", enforce="VSsetfields", overflow=True,
   defines=["H4V_SMALL_STR", "NMLEN=2"], unwind=1, cex_unwind=2, timeout=200, **VSF)  # unwind 1: the field loops are unreachable (unwinding assertions on)
ob("VSsetfields_badkey", ["C07"], entry="h_VSsetfields_badkey", enforce="VSsetfields", mode="proved-finite",
   defines=["H4V_SMALL_STR", "NMLEN=2"], unwind=11, cex_unwind=11, timeout=200, **VSF)
ob("VSfdefine_redef", ["C07"], entry="h_VSfdefine_redef", enforce="VSfdefine", mode="bounded",
   bound="2 user-defined symbols, names <= 1 character (exact strcmp/strdup)", overflow=True,
   defines=["H4V_SMALL_STR", "NMLEN=1", "RD_NUSYM=2"], unwind=5, cex_unwind=14, timeout=300, **VSF)

# ----------------------------------------------------------------------------- vrw.c (log mode)
VRL = dict(unit="vrw_u.c", file="hdf/src/vrw.c", overflow=True, unwind=6, cex_unwind=6, timeout=150, mode="bounded",
           trusted=["Hread/Hwrite: log (position, length), whole transfers or FAIL (nondeterministic call; beyond the element; beyond 2^31-1)",
                    "DFKconvert: logs its arguments, checks both footprints (user buffer, transfer buffer)",
                    "Hseek/Hinquire: ghost position; vexistvs: ghost answer; HAatom_*: harness-built instance (constants)"])
LAY = {1: "2 fields 4xuint8+2xuint16 (8-byte records)", 2: "1 field 4xint32 (16-byte records)",
       3: "2 fields 1xuint16+3xuint16 (8-byte records)", 4: "1 field uint8 (1-byte records)", 5: "2 fields 3xuint8+2xuint16 (7-byte records)"}
RLS = {0: "all fields", 1: "subset {f1}", 2: "permutation {f1,f0}", 3: "subset {f0}"}
for vl in (1, 2, 3):
    ob(f"VSwrite_book_L{vl}", ["C07", "C20"], entry="h_VSwrite_log", enforce="VSwrite",
       defines=["VRW_LOG", f"VL={vl}"], bound=f"layout {LAY[vl]}; FULL_INTERLACE; nelt up to 3 transfer-buffer chunks (real VDATA_BUFFER_MAX)", **VRL)
for vl, rl in ((1, 0), (1, 1), (1, 2), (2, 0), (3, 1), (3, 3)):
    ob(f"VSread_chunk_L{vl}_R{rl}", ["C07"], entry="h_VSread_log", enforce="VSread",
       defines=["VRW_LOG", f"VL={vl}", f"RL={rl}"],
       bound=f"layout {LAY[vl]}, read list {RLS[rl]}; FULL_INTERLACE; nelt up to 3 transfer-buffer chunks (real VDATA_BUFFER_MAX)", **VRL)
# a negative record count (documented result: FAIL or the number of records read)
ob("VSread_negcount", ["C07"], entry="h_VSread_log", enforce="VSread", defines=["VRW_LOG", "VL=1", "RL=0", "VR_NEG"],
   bound="layout 1; -1000 <= nelt < 0", **VRL)
# C20: byte counts beyond int32 (nelt*ivsize, (p+nelt)*ivsize): refused, no wrap-around
ob("VSwrite_limit_L1", ["C20", "C07"], entry="h_VSwrite_log", enforce="VSwrite", defines=["VRW_LOG", "VL=1", "VW_LIMIT"],
   bound="layout 1 (8-byte records); any nelt with (p+nelt)*8 > 2^31-1", **VRL)
ob("VSwrite_limit_L4", ["C20", "C07"], entry="h_VSwrite_log", enforce="VSwrite", defines=["VRW_LOG", "VL=4", "VW_LIMIT"],
   bound="layout 4 (1-byte records); any nelt with p+nelt > 2^31-1", **VRL)
ob("VSread_limit_L1", ["C20", "C07"], entry="h_VSread_log", enforce="VSread", defines=["VRW_LOG", "VL=1", "RL=1", "VR_LIMIT"],
   bound="layout 1 (8-byte records); any nelt with nelt*8 > 2^31-1", **VRL)
# A record size that is not a power of two (layout VL=5, 7-byte records; x and / by 7) was tried as
# VSread_chunk_L5_R1 (NCHUNK=2): no answer within 1200 s -- not registered.  The sums over the chunks are only
# decidable for SAT when the record size is a power of two (shifts); layouts 1-4 are chosen accordingly.

/* Build: gcc D73_gr_large_global_attr.c -I/repo/hdf/src -I/repo/_build -L/repo/_build/bin -lhdf -lz -ljpeg -lm; run with LD_LIBRARY_PATH=/repo/_build/bin. Exit status 1 = defect present. */
/* D73: a new GLOBAL GR attribute of 2048 bytes or more is lost when the file is reopened */
#include "hdf.h"
#include <stdio.h>
#include <string.h>
int main(void)
{
    static uint8 big[3000]; int32 f, gr, nds = -1, nat = -1;
    memset(big, 5, sizeof big);
    f = Hopen("d73.hdf", DFACC_CREATE, 0); gr = GRstart(f);
    GRsetattr(gr, "big", DFNT_UINT8, 3000, big);     /* too large for the attribute cache: written at once */
    GRsetattr(gr, "small", DFNT_UINT8, 4, big);
    GRfileinfo(gr, &nds, &nat); printf("session 1: %d global attributes\n", (int)nat);
    GRend(gr); Hclose(f);
    f = Hopen("d73.hdf", DFACC_READ, 0); gr = GRstart(f);
    GRfileinfo(gr, &nds, &nat); printf("after reopen: %d global attributes (expected 2)\n", (int)nat);
    GRend(gr); Hclose(f);
    return nat != 2;
}

/* Verification unit: hdf/src/hextelt.c -- HXIstaccess / HXPstread / HXPstwrite (C14 invariant of the access bits, C13
 * protocol of Hstartaccess).  Environment and stubs: stubs/stacc_common.h. */
#include "h4v.h"
#ifndef H4V_CASE
#define H4V_CASE 0
#endif
#include "h4v_err.h"
#include "stacc_common.h"
#include "hextelt.c"

/* C13 ownership clause (fails on the real code -- defect candidate): checked in its own obligation (H4V_CASE 1) */
#if H4V_CASE == 1
#define CL_OWNER(e) (e)
#else
#define CL_OWNER(e) 1
#endif

static int32 HXIstaccess(accrec_t *access_rec, int16 acc_mode)
    __CPROVER_requires(ST_ENV)
    __CPROVER_requires(g_shared == NULL || ((extinfo_t *)g_shared)->attached >= 1 && ((extinfo_t *)g_shared)->attached < INT_MAX)
    __CPROVER_assigns(__CPROVER_object_whole(g_arec), g_frec->attach, g_reg_ptr, g_reg_grp, g_registered, g_reg_n, g_relrec_n, g_inner_n, g_inner_w_n;
                      g_shared != NULL: ((extinfo_t *)g_shared)->attached)
    /* C14: the invariant Hwrite relies on -- a write bit only on a file opened for writing */
    __CPROVER_ensures(__CPROVER_return_value != FAIL ==> (!(g_arec->access & DFACC_WRITE) || (g_frec->access & DFACC_WRITE) != 0))
    /* a start-read never yields a writable access record, on any file */
    __CPROVER_ensures((__CPROVER_return_value != FAIL && acc_mode == DFACC_READ) ==> (g_arec->access & DFACC_WRITE) == 0)
    /* write access to a file opened read-only (or through a bad file id) is refused before the record is touched */
    __CPROVER_ensures((g_frec_bad || (acc_mode == DFACC_WRITE && (g_frec->access & DFACC_WRITE) == 0)) ==>
                      (__CPROVER_return_value == FAIL && g_arec->access == g_access0 && g_reg_n == 0 &&
                       g_arec->special == __CPROVER_old(g_arec->special) && g_arec->posn == __CPROVER_old(g_arec->posn)))
    /* C13: success = exactly one new id for this record, one more attached element, record fully set up */
    __CPROVER_ensures(__CPROVER_return_value != FAIL ==>
                      (__CPROVER_return_value == g_newaid && g_registered && g_reg_n == 1 && g_reg_ptr == (void *)g_arec &&
                       g_reg_grp == (int)AIDGROUP && g_arec->access == (uint32)(acc_mode | DFACC_READ) && g_arec->posn == 0 &&
                       g_arec->special == SPECIAL_EXT && g_arec->special_info != NULL && g_arec->file_id == g_fid &&
                       g_frec->attach == __CPROVER_old(g_frec->attach) + 1))
    __CPROVER_ensures((__CPROVER_return_value != FAIL && g_shared != NULL) ==> g_arec->special_info == g_shared)
    /* failure: no id, attach unchanged, nothing left behind in the record */
    __CPROVER_ensures(__CPROVER_return_value == FAIL ==>
                      (!g_registered && g_reg_n == 0 && g_frec->attach == __CPROVER_old(g_frec->attach)))
    /* ... and the record still belongs to the caller: Hstartaccess releases it (hfile.c:965), so the callee must not */
    __CPROVER_ensures(CL_OWNER(__CPROVER_return_value == FAIL ==> g_relrec_n == 0))
    /* the external-element header is read through the file record, never written */
    __CPROVER_ensures(g_inner_w_n == 0);

/* the two entries of the special function table */
int32 HXPstread(accrec_t *rec)
    __CPROVER_requires(rec == g_arec && g_arec != NULL && g_frec != NULL && g_arec->file_id == g_fid && g_arec->special_info == NULL &&
                       g_frec->refcount >= 1 && g_frec->attach >= 0 && g_frec->attach < INT_MAX && !g_registered && g_reg_n == 0 &&
                       g_relrec_n == 0 && g_inner_w_n == 0 && g_access0 == g_arec->access && g_shared == NULL)
    __CPROVER_assigns(__CPROVER_object_whole(g_arec), g_frec->attach, g_reg_ptr, g_reg_grp, g_registered, g_reg_n, g_relrec_n, g_inner_n, g_inner_w_n)
    __CPROVER_ensures(__CPROVER_return_value != FAIL ==> ((g_arec->access & DFACC_WRITE) == 0 && (g_arec->access & DFACC_READ) != 0))
    __CPROVER_ensures(__CPROVER_return_value != FAIL ==> (g_registered && g_reg_ptr == (void *)g_arec && g_frec->attach == __CPROVER_old(g_frec->attach) + 1))
    __CPROVER_ensures(__CPROVER_return_value == FAIL ==> (!g_registered && g_frec->attach == __CPROVER_old(g_frec->attach)));

int32 HXPstwrite(accrec_t *rec)
    __CPROVER_requires(rec == g_arec && g_arec != NULL && g_frec != NULL && g_arec->file_id == g_fid && g_arec->special_info == NULL &&
                       g_frec->refcount >= 1 && g_frec->attach >= 0 && g_frec->attach < INT_MAX && !g_registered && g_reg_n == 0 &&
                       g_relrec_n == 0 && g_inner_w_n == 0 && g_access0 == g_arec->access && g_shared == NULL)
    __CPROVER_assigns(__CPROVER_object_whole(g_arec), g_frec->attach, g_reg_ptr, g_reg_grp, g_registered, g_reg_n, g_relrec_n, g_inner_n, g_inner_w_n)
    /* exact test of the bit DFACC_WRITE of the file's access word */
    __CPROVER_ensures(__CPROVER_return_value != FAIL ==> (g_frec->access & DFACC_WRITE) != 0)
    __CPROVER_ensures((g_frec->access & DFACC_WRITE) == 0 ==> (__CPROVER_return_value == FAIL && g_arec->access == g_access0 && g_reg_n == 0))
    __CPROVER_ensures(__CPROVER_return_value == FAIL ==> (!g_registered && g_frec->attach == __CPROVER_old(g_frec->attach)));

#ifdef H4V_NATIVE
#include "h4v_native_wrap.h"
#endif

/* ------------------------------------------------------------------ harnesses */
static void
hx_shared(void)
{
    H4V_ND(int, has_shared);
    if (has_shared) {
        extinfo_t *x = malloc(sizeof(extinfo_t));
        H4V_ASSUME(x != NULL);
        H4V_ND(int, x_attached);
        x->attached         = x_attached;
        x->extern_offset    = 0;
        x->length           = 0;
        x->length_file_name = 0;
        x->para_extfile_id  = 0;
        x->file_external    = NULL;
        x->extern_file_name = NULL;
        x->file_open        = 0;
        g_shared            = x;
    }
}

void
h_HXIstaccess(void)
{
    stacc_mk_env();
    hx_shared();
    H4V_ND(int16, acc_mode);
    int32 r = HXIstaccess(g_arec, acc_mode);
    H4V_COVER(r != FAIL && acc_mode == DFACC_READ && !ST_WR(g_frec), "HXIstaccess read access on a read-only file");
    H4V_COVER(r != FAIL && acc_mode == DFACC_WRITE, "HXIstaccess write access on a writable file");
    H4V_COVER(r != FAIL && g_shared == NULL, "HXIstaccess read the header from the file");
    H4V_COVER(r == FAIL && acc_mode == DFACC_WRITE && !ST_WR(g_frec), "HXIstaccess write access on a read-only file refused");
    H4V_COVER(r == FAIL && acc_mode == DFACC_READ && !g_frec_bad, "HXIstaccess failed late");
    H4V_CANARY("HXIstaccess end");
}

void
h_HXPstread(void)
{
    stacc_mk_env();
    int32 r = HXPstread(g_arec);
    H4V_COVER(r != FAIL && !ST_WR(g_frec), "HXPstread on a read-only file");
    H4V_COVER(r != FAIL && ST_WR(g_frec), "HXPstread on a writable file");
    H4V_CANARY("HXPstread end");
}

void
h_HXPstwrite(void)
{
    stacc_mk_env();
    int32 r = HXPstwrite(g_arec);
    H4V_COVER(r != FAIL, "HXPstwrite on a writable file");
    H4V_COVER(r == FAIL && !ST_WR(g_frec) && !g_frec_bad, "HXPstwrite on a read-only file refused");
    H4V_CANARY("HXPstwrite end");
}

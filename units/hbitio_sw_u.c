/* Verification unit: hdf/src/hbitio.c (C05) -- single-call contracts of Hbitseek and of the mode switches
 * HIwrite2read / HIread2write: "bit-granular element I/O returns the same bit sequence that was written
 * for any mix of field widths and bit seeks".
 *
 * BITBUF_SIZE is a plain `#define BITBUF_SIZE 4096` of hbitio.c (no #ifndef): it cannot be overridden with
 * -D, so the record is harness-built with a real 4096-byte buffer and universal statements about buffer /
 * element contents use ONE ghost element byte offset GC.b (arbitrary, fixed by the harness).
 *
 * The logical bit position of a record:
 *   write mode: WPOS = 8*byte_offset + (8 - count)            (count = free bits of the byte in progress, 1..8)
 *   read mode : RPOS = 8*(block_offset + (bytep - bytea)) - count   (count = unread bits of `bits`, 0..7)
 *     -- the buffer pointer is what Hbitread delivers from; the byte_offset FIELD is not a function of the
 *        position in read mode (Hbitseek(B,b>0) leaves byte_offset = B, Hbitread leaves B+1 for the same
 *        position), so the requires admits both conventions.
 * The element behind the access id is a ghost: length G.len, position G.pos, and the value G.bdisk of the
 * one ghost byte GC.b; Hwrite/Hread move exactly that byte between the caller's buffer and the element
 * (the rest of a range read is havocked after its accessibility was checked).
 */
#include "h4v.h"
#include "h4v_err.h"
#include <string.h>
#include <limits.h>
#include "atom_priv.h"
#include "hbitio_priv.h"

typedef long long h4v_i64;
#define BSW_BUF 4096 /* == BITBUF_SIZE, checked in every harness */
/* -DBSW_ALLOC=n (bounded stand-in): the buffer OBJECT has only n bytes, so every byte the function touches must
   lie within the first n bytes of the buffered block (any other access fails cbmc's pointer check, it is not
   assumed away); bytez == bytea + BITBUF_SIZE stays what it is, arithmetically.  Default: the real size. */
#ifndef BSW_ALLOC
#define BSW_ALLOC BSW_BUF
#endif

/* ------------------------------- ghost state ------------------------------- */
struct bsw_ghost_const { /* never written by stubs or code */
    int32     aid;        /* the access id of the element */
    int32     reg_id;     /* the bit id of the record */
    bitrec_t *rec;        /* the record */
    uint8    *buf;        /* its 4096-byte buffer */
    int32     b;          /* ghost element byte offset */
    unsigned  bexp;       /* what a reader must see at byte b (logical content at entry) */
    unsigned  io_fail_at; /* the I/O call with this ordinal fails */
} GC;
struct bsw_ghost {
    int32    len, pos; /* element length, position of the access id */
    unsigned bdisk;    /* value of element byte GC.b on disk */
    unsigned io_n;
    int      io_failed;
    int      nwrite, nread, nseek;
    int32    wr_pos, wr_len, rd_pos, rd_len, sk_pos;
} G;

/* --------------------------------- stubs ----------------------------------- */
static int
io_fails(void)
{
    if (G.io_n++ == GC.io_fail_at) {
        G.io_failed = 1;
        return 1;
    }
    return 0;
}

void *
HAatom_object(atom_t atm)
{
    return atm == GC.reg_id ? (void *)GC.rec : NULL;
}

int
Hseek(int32 access_id, int32 offset, int origin)
{
    H4V_CHECK(access_id == GC.aid, "Hseek on the record's own aid");
    H4V_CHECK(origin == 0 /* DF_START */, "bit layer seeks from the start");
    if (io_fails())
        return FAIL;
    if (offset < 0 || offset > G.len) { /* beyond the element: reported as an I/O failure */
        G.io_failed = 1;
        return FAIL;
    }
    G.pos    = offset;
    G.sk_pos = offset;
    G.nseek++;
    return SUCCEED;
}

int32
Hwrite(int32 access_id, int32 length, const void *data)
{
    const uint8 *p = (const uint8 *)data;
    H4V_CHECK(access_id == GC.aid, "Hwrite on the record's own aid");
    H4V_CHECK(length > 0, "Hwrite length > 0");
    H4V_CHECK(p >= GC.buf && p - GC.buf <= BSW_BUF && length <= BSW_BUF - (p - GC.buf), "Hwrite source inside the bit buffer");
    if (length <= 0)
        return FAIL;
    if (io_fails())
        return FAIL;
    if (G.pos < 0 || G.pos > G.len || length > 0x7fffffff - G.pos) {
        G.io_failed = 1;
        return FAIL;
    }
    if (GC.b >= G.pos && GC.b - G.pos < length) {
#if BSW_ALLOC < BSW_BUF
        H4V_CHECK(GC.b - G.pos < BSW_ALLOC - (p - GC.buf), "bounded stand-in: the ghost byte lies in the allocated part of the buffer");
#endif
        G.bdisk = p[GC.b - G.pos];
    }
    G.wr_pos = G.pos;
    G.wr_len = length;
    G.nwrite++;
    G.pos += length;
    if (G.pos > G.len)
        G.len = G.pos;
    return length;
}

/* as the real Hread: length 0 or a request beyond the end is cut to the rest of the element */
int32
Hread(int32 access_id, int32 length, void *data)
{
    uint8 *p = (uint8 *)data;
    H4V_CHECK(access_id == GC.aid, "Hread on the record's own aid");
    if (length < 0)
        return FAIL;
    if (io_fails())
        return FAIL;
    if (G.pos < 0 || G.pos > G.len) {
        G.io_failed = 1;
        return FAIL;
    }
    if (length == 0 || length > G.len - G.pos)
        length = G.len - G.pos;
    H4V_CHECK(p == GC.buf && length <= BSW_BUF, "Hread fills the bit buffer from its start with at most BITBUF_SIZE bytes");
    if (!(p == GC.buf && length <= BSW_BUF))
        return FAIL;
    if (length > 0) {
        int32 hl = length < BSW_ALLOC ? length : BSW_ALLOC;
#if defined(H4V_CBMC)
        /* the whole buffer object is havocked, not only [0, length): an over-approximation of the real Hread (bytes
           beyond the transfer keep their value there) that no clause of the contracts depends on; havoc_slice with a
           symbolic length on the 4096-byte object ran the SAT conversion out of memory */
        __CPROVER_havoc_object(p);
#else
        memset(p, 0xa5, (size_t)hl);
#endif
        if (GC.b >= G.pos && GC.b - G.pos < hl)
            p[GC.b - G.pos] = (uint8)G.bdisk;
    }
    G.rd_pos = G.pos;
    G.rd_len = length;
    G.nread++;
    G.pos += length;
    return length;
}

#include "hbitio.c"

/* ------------------------ representation predicates ------------------------ */
#define LOWM(c) ((1u << (c)) - 1u) /* c in 0..8 */
#define BP(r)   ((int32)((r)->bytep - (r)->bytea))
#define BZ(r)   ((int32)((r)->bytez - (r)->bytea))
/* A-BIT-2G: elements end at least two buffers below 2^31-1 (`block_offset + BITBUF_SIZE` is computed in int32) */
#define BIT_MAXOFF (0x7fffffff - 2 * BSW_BUF)
#define BR_COMMON(r)                                                                                 \
    ((r)->acc_id == GC.aid && (r)->bit_id == GC.reg_id && (r)->bytea == GC.buf && (r)->block_offset >= 0 && \
     (r)->block_offset % BSW_BUF == 0 && (r)->byte_offset >= (r)->block_offset &&                     \
     (r)->max_offset >= (r)->byte_offset && G.len >= 0 && G.pos >= 0 && G.pos <= G.len)
#define BIT_DOMAIN(r) ((r)->max_offset <= BIT_MAXOFF)
/* write mode as Hstartbitwrite / Hbitwrite leave it: full buffer, pointer at the byte in progress, the free
   low bits of `bits` zero, the access id parked at the start of the buffered block, blocks before it flushed */
#define BR_W_PTR(r) (BP(r) == (r)->byte_offset - (r)->block_offset && BP(r) >= 0 && BP(r) < BZ(r) && BZ(r) <= BSW_BUF)
/* everything up to max_offset is on disk except what the buffered block holds ... */
#define W_DISK(r) (G.len >= (r)->block_offset && ((r)->max_offset - (r)->block_offset <= BSW_BUF || G.len >= (r)->max_offset))
/* ... and the element on disk never extends beyond the data (max_offset starts as its length and only grows).
   Required of every write-mode pre-state; as a POST-state only with -DBSW_SIZE (separate obligations: HIbitflush's
   write-out size ignores block_offset, so the position clauses are kept checkable on their own) */
#define W_NOEXTRA(r) (G.len <= (r)->max_offset)
#ifdef BSW_SIZE
#define W_NOEXTRA_POST(r) W_NOEXTRA(r)
#else
#define W_NOEXTRA_POST(r) 1
#endif
#define BR_W(r)                                                                                      \
    ((r)->mode == 'w' && (r)->access == 'w' && (r)->count >= 1 && (r)->count <= 8 && BR_W_PTR(r) &&   \
     ((r)->bits & LOWM((r)->count)) == 0 && G.pos == (r)->block_offset && W_DISK(r))
#define BR_W_FULL(r) (BR_W(r) && BZ(r) == BSW_BUF && W_NOEXTRA(r))
/* read mode as Hstartbitread / Hbitread / Hbitseek leave it */
#define RBYTE(r) ((r)->block_offset + BP(r))
#define BR_R(r)                                                                                      \
    ((r)->mode == 'r' && ((r)->access == 'w' || (r)->access == 'r') && (r)->count >= 0 && (r)->count <= 7 && \
     BZ(r) >= 0 && BZ(r) <= BSW_BUF && BP(r) >= 0 && BP(r) <= BZ(r) &&                                \
     ((r)->count == 0 || (BP(r) >= 1 && (r)->bits == (r)->bytea[BP(r) - 1])) && RBYTE(r) <= (r)->max_offset && \
     ((r)->byte_offset == RBYTE(r) || ((r)->count > 0 && (r)->byte_offset == RBYTE(r) - 1)))
/* read mode: everything up to max_offset is on disk, the buffer is a cache of it (ghost byte) */
#ifdef BSW_SIZE
#define R_ONDISK(r) (G.len == (r)->max_offset)
#else
#define R_ONDISK(r) (G.len >= (r)->max_offset)
#endif
#ifdef BSW_POSONLY /* position clauses only: the content clauses (ghost byte) are switched off */
#define RCOH(r) 1
#else
#define RCOH(r)                                                                                      \
    (!(GC.b >= (r)->block_offset && GC.b - (r)->block_offset < BZ(r) && GC.b < (r)->max_offset) ||     \
     (r)->bytea[GC.b - (r)->block_offset] == G.bdisk)
#endif

#define WPOS(r) (8 * (h4v_i64)(r)->byte_offset + 8 - (r)->count)
#define RPOS(r) (8 * (h4v_i64)RBYTE(r) - (r)->count)

/* logical content of element byte GC.b (what a reader positioned there must get) */
#define WEND(r) (((r)->count < 8 && (r)->byte_offset == (r)->max_offset) ? (r)->max_offset + 1 : (r)->max_offset)
#define W_INBUF(r) (GC.b >= (r)->block_offset && GC.b - (r)->block_offset < BSW_BUF && GC.b < WEND(r))
#define W_LOGICAL(r)                                                                                 \
    (W_INBUF(r) ? ((GC.b == (r)->byte_offset && (r)->count < 8)                                       \
                       ? (((r)->bytea[GC.b - (r)->block_offset] & LOWM((r)->count)) | (r)->bits)      \
                       : (unsigned)(r)->bytea[GC.b - (r)->block_offset])                             \
                : G.bdisk)
#define R_INBUF(r)   (GC.b >= (r)->block_offset && GC.b - (r)->block_offset < BZ(r))
#ifdef BSW_POSONLY
#define R_LOGICAL(r) 0u
#else
#define R_LOGICAL(r) (R_INBUF(r) ? (unsigned)(r)->bytea[GC.b - (r)->block_offset] : G.bdisk)
#endif

#define BSW_FRAME __CPROVER_object_whole(GC.rec), __CPROVER_object_whole(GC.buf), __CPROVER_object_whole(&G)
#define SEEK_BADARGS(byte_offset, bit_offset, maxo) ((byte_offset) < 0 || (bit_offset) < 0 || (bit_offset) > 7 || (byte_offset) > (maxo))

/* -------------------------------- contracts -------------------------------- */
/* sub-domains of Hbitseek (their union is the whole domain of the contract); the mode disjunct of the requires
   is selected with the sub-domain: with the disjunction `write-mode record || read-mode record` in ONE requires
   cbmc's symbolic execution alone needs > 60 s */
#define SEEK_DOM_W_INBLOCK 1 /* write mode, target inside the buffered block */
#define SEEK_DOM_W_FULL    2 /* write mode, other block, a whole BITBUF_SIZE of data from its start */
#define SEEK_DOM_W_TAIL    3 /* write mode, other block, fewer than BITBUF_SIZE bytes of data from its start */
#define SEEK_DOM_R         4 /* read mode */
#define SEEK_DOM_BADARGS_W 5 /* rejected arguments, write mode */
#define SEEK_DOM_BADARGS_R 6 /* rejected arguments, read mode */
#ifndef SEEK_DOM
#define SEEK_DOM 0
#endif
#define SEEK_PRE_W(r) BR_W_FULL(r)
#define SEEK_PRE_R(r) (BR_R(r) && G.len == (r)->max_offset && RCOH(r))
#define SEEK_POST_W(r, byte_offset, bit_offset)                                                      \
    ((r)->mode == 'w' && BR_COMMON(r) && BR_W(r) && W_NOEXTRA_POST(r) && WPOS(r) == 8 * (h4v_i64)(byte_offset) + (bit_offset) && \
     (r)->byte_offset == (byte_offset))
#define SEEK_POST_R(r, byte_offset, bit_offset)                                                      \
    ((r)->mode == 'r' && BR_COMMON(r) && BR_R(r) && RPOS(r) == 8 * (h4v_i64)(byte_offset) + (bit_offset) && \
     (r)->byte_offset == (byte_offset) && RCOH(r))
#if SEEK_DOM == SEEK_DOM_R || SEEK_DOM == SEEK_DOM_BADARGS_R
#define SEEK_PRE(r) SEEK_PRE_R(r)
#define SEEK_LOGICAL(r) R_LOGICAL(r)
#define SEEK_POST(r, by, bi) SEEK_POST_R(r, by, bi)
#elif SEEK_DOM != 0
#define SEEK_PRE(r) SEEK_PRE_W(r)
#define SEEK_LOGICAL(r) W_LOGICAL(r)
#define SEEK_POST(r, by, bi) SEEK_POST_W(r, by, bi)
#else
#define SEEK_PRE(r) (SEEK_PRE_W(r) || SEEK_PRE_R(r))
#define SEEK_LOGICAL(r) ((r)->mode == 'w' ? W_LOGICAL(r) : R_LOGICAL(r))
#define SEEK_POST(r, by, bi) (SEEK_POST_W(r, by, bi) || SEEK_POST_R(r, by, bi))
#endif

/* Hbitseek(byte, bit) sets the absolute position 8*byte + bit in both modes, keeps the mode, keeps the
   logical content of every element byte, and leaves the record in the state the next Hbitwrite/Hbitread needs */
int Hbitseek(int32 bitid, int32 byte_offset, int bit_offset)
    __CPROVER_requires(GC.rec != NULL && bitid == GC.reg_id && BR_COMMON(GC.rec) && BIT_DOMAIN(GC.rec))
    __CPROVER_requires(SEEK_PRE(GC.rec))
    __CPROVER_requires(GC.b >= 0 && GC.bexp == SEEK_LOGICAL(GC.rec))
    __CPROVER_assigns(BSW_FRAME)
    __CPROVER_ensures(__CPROVER_return_value == SUCCEED || __CPROVER_return_value == FAIL)
    __CPROVER_ensures(SEEK_BADARGS(byte_offset, bit_offset, __CPROVER_old(GC.rec->max_offset)) ==> __CPROVER_return_value == FAIL)
    /* with valid arguments and a well-formed record only an I/O failure makes the seek fail */
    __CPROVER_ensures(__CPROVER_return_value == FAIL ==>
                      (SEEK_BADARGS(byte_offset, bit_offset, __CPROVER_old(GC.rec->max_offset)) || G.io_failed == 1))
    __CPROVER_ensures(GC.rec->mode == __CPROVER_old(GC.rec->mode) && GC.rec->access == __CPROVER_old(GC.rec->access))
    /* rejected arguments leave the position alone */
    __CPROVER_ensures(SEEK_BADARGS(byte_offset, bit_offset, __CPROVER_old(GC.rec->max_offset)) ==>
                      (GC.rec->byte_offset == __CPROVER_old(GC.rec->byte_offset) && GC.rec->count == __CPROVER_old(GC.rec->count) &&
                       GC.rec->bytep == __CPROVER_old(GC.rec->bytep) && G.nwrite == __CPROVER_old(G.nwrite)))
    /* the new position: write mode 8*byte_offset + (8 - count); read mode: the next Hbitread delivers the bits
       starting exactly there; the record is in the state the next Hbitwrite / Hbitread needs */
    __CPROVER_ensures(__CPROVER_return_value == SUCCEED ==> SEEK_POST(GC.rec, byte_offset, bit_offset))
    /* a pending partial byte at the very end of the data becomes part of it, nothing else moves the end */
    __CPROVER_ensures(__CPROVER_return_value == SUCCEED ==>
                      GC.rec->max_offset == ((__CPROVER_old(GC.rec->mode) == 'w' && __CPROVER_old(GC.rec->count) < 8 &&
                                              __CPROVER_old(GC.rec->byte_offset) == __CPROVER_old(GC.rec->max_offset))
                                                 ? __CPROVER_old(GC.rec->max_offset) + 1
                                                 : __CPROVER_old(GC.rec->max_offset)))
    /* every element byte keeps its logical value (pending bits merged, buffer refilled from the right byte) */
    __CPROVER_ensures((__CPROVER_return_value == SUCCEED && GC.b < GC.rec->max_offset) ==>
                      GC.bexp == SEEK_LOGICAL(GC.rec));

/* write -> read at bit position P: same absolute position, everything written is on disk and visible */
static int HIwrite2read(bitrec_t *bitfile_rec)
    __CPROVER_requires(bitfile_rec != NULL && bitfile_rec == GC.rec && BR_COMMON(bitfile_rec) && BIT_DOMAIN(bitfile_rec) && BR_W_FULL(bitfile_rec))
    __CPROVER_requires(GC.b >= 0 && GC.bexp == W_LOGICAL(bitfile_rec))
    __CPROVER_assigns(BSW_FRAME)
    __CPROVER_ensures(__CPROVER_return_value == SUCCEED || __CPROVER_return_value == FAIL)
    __CPROVER_ensures(__CPROVER_return_value == FAIL ==> G.io_failed == 1)
    __CPROVER_ensures(__CPROVER_return_value == SUCCEED ==> (BR_COMMON(bitfile_rec) && BR_R(bitfile_rec) && bitfile_rec->access == 'w'))
    /* the flush of the partial byte does not move the logical position */
    __CPROVER_ensures(__CPROVER_return_value == SUCCEED ==>
                      RPOS(bitfile_rec) == 8 * (h4v_i64)__CPROVER_old(bitfile_rec->byte_offset) + 8 - __CPROVER_old(bitfile_rec->count))
    __CPROVER_ensures(__CPROVER_return_value == SUCCEED ==>
                      bitfile_rec->max_offset == ((__CPROVER_old(bitfile_rec->count) < 8 &&
                                                   __CPROVER_old(bitfile_rec->byte_offset) == __CPROVER_old(bitfile_rec->max_offset))
                                                      ? __CPROVER_old(bitfile_rec->max_offset) + 1
                                                      : __CPROVER_old(bitfile_rec->max_offset)))
    /* everything written so far is on disk, and the buffer the reads come from holds it */
    __CPROVER_ensures(__CPROVER_return_value == SUCCEED ==> (R_ONDISK(bitfile_rec) && RCOH(bitfile_rec)))
    __CPROVER_ensures((__CPROVER_return_value == SUCCEED && GC.b < bitfile_rec->max_offset) ==>
                      (G.bdisk == GC.bexp && R_LOGICAL(bitfile_rec) == GC.bexp));

/* read -> write at bit position P: same absolute position, nothing in the buffer or on disk changes value,
   and the record is in the state Hbitwrite needs */
static int HIread2write(bitrec_t *bitfile_rec)
    __CPROVER_requires(bitfile_rec != NULL && bitfile_rec == GC.rec && BR_COMMON(bitfile_rec) && BIT_DOMAIN(bitfile_rec) && BR_R(bitfile_rec) &&
                       bitfile_rec->access == 'w')
    __CPROVER_requires(G.len == bitfile_rec->max_offset && RCOH(bitfile_rec))
    __CPROVER_requires(GC.b >= 0 && GC.bexp == R_LOGICAL(bitfile_rec))
    __CPROVER_assigns(BSW_FRAME)
    __CPROVER_ensures(__CPROVER_return_value == SUCCEED || __CPROVER_return_value == FAIL)
    __CPROVER_ensures(__CPROVER_return_value == FAIL ==> G.io_failed == 1)
    __CPROVER_ensures(__CPROVER_return_value == SUCCEED ==> (BR_COMMON(bitfile_rec) && BR_W(bitfile_rec) && W_NOEXTRA_POST(bitfile_rec)))
    __CPROVER_ensures(__CPROVER_return_value == SUCCEED ==>
                      WPOS(bitfile_rec) == 8 * ((h4v_i64)__CPROVER_old(bitfile_rec->block_offset) +
                                                (__CPROVER_old(bitfile_rec->bytep) - __CPROVER_old(bitfile_rec->bytea))) -
                                               __CPROVER_old(bitfile_rec->count))
    __CPROVER_ensures(__CPROVER_return_value == SUCCEED ==> bitfile_rec->max_offset == __CPROVER_old(bitfile_rec->max_offset))
    __CPROVER_ensures((__CPROVER_return_value == SUCCEED && GC.b < bitfile_rec->max_offset) ==> W_LOGICAL(bitfile_rec) == GC.bexp);

/* Hbitread, POSITION accounting (read mode, enough bits left, -DBSW_POSONLY: the content clauses are off): after reading `count` bits
   the bit position has advanced by `count`, the record still satisfies the read-mode invariant, and -- when the buffer had to be
   refilled -- block_offset is the file offset of the block now buffered (old offset + size of the block LEFT behind), with the access
   id parked right behind it.  RPOS is computed from block_offset, so a wrong block_offset after a refill breaks the position clause. */
h4v_i64 g_rpos0; /* harness snapshot of RPOS at entry */
#define RD_SYNC(r) ((r)->buf_read == BZ(r) && G.pos == (r)->block_offset + BZ(r))
int Hbitread(int32 bitid, int count, uint32 *data)
    __CPROVER_requires(GC.rec != NULL && bitid == GC.reg_id && BR_COMMON(GC.rec) && BIT_DOMAIN(GC.rec) && BR_R(GC.rec) && RD_SYNC(GC.rec))
    __CPROVER_requires(G.len == GC.rec->max_offset && count >= 1 && count <= 32 && __CPROVER_is_fresh(data, sizeof(uint32)))
    __CPROVER_requires(g_rpos0 == RPOS(GC.rec) && g_rpos0 + count <= 8 * (h4v_i64)GC.rec->max_offset)
    __CPROVER_assigns(BSW_FRAME, *data)
    __CPROVER_ensures(__CPROVER_return_value == FAIL || (__CPROVER_return_value >= 0 && __CPROVER_return_value <= count))
    __CPROVER_ensures(!G.io_failed ==> __CPROVER_return_value == count)
    __CPROVER_ensures(!G.io_failed ==> (BR_COMMON(GC.rec) && BR_R(GC.rec) && RD_SYNC(GC.rec) && RPOS(GC.rec) == g_rpos0 + count))
    __CPROVER_ensures(GC.rec->max_offset == __CPROVER_old(GC.rec->max_offset) && GC.rec->mode == 'r');

#ifdef H4V_NATIVE
#include "h4v_native_wrap.h"
#endif

/* -------------------------------- harnesses -------------------------------- */
H4V_DECL_ND(int32);
H4V_DECL_ND(int);
H4V_DECL_ND(unsigned);
H4V_DECL_ND(uint8);

/* a record with arbitrary field values over a real 4096-byte buffer (the contract's requires cuts it down) */
static bitrec_t *
mk_rec(void)
{
    H4V_CHECK(BITBUF_SIZE == BSW_BUF, "the unit's buffer size is hbitio.c's BITBUF_SIZE");
    H4V_ND(int32, g_aid_0);
    H4V_ND(int32, g_reg_id_0);
    H4V_ND(int32, g_b_0);
    H4V_ND(unsigned, g_bdisk_0);
    H4V_ND(unsigned, g_io_fail_at_0);
    H4V_ND(int32, g_len_0);
    H4V_ND(int32, g_pos_0);
    GC.aid        = g_aid_0;
    GC.reg_id     = g_reg_id_0;
    GC.b          = g_b_0;
    GC.io_fail_at = g_io_fail_at_0;
    G.bdisk       = g_bdisk_0;
    G.len         = g_len_0;
    G.pos         = g_pos_0;
    G.io_n        = 0;
    G.io_failed   = 0;
    G.nwrite = G.nread = G.nseek = 0;
    G.wr_pos = G.wr_len = G.rd_pos = G.rd_len = G.sk_pos = -1;
    H4V_ASSUME(g_bdisk_0 <= 255 && g_b_0 >= 0);

    bitrec_t *r   = malloc(sizeof(bitrec_t));
    uint8    *buf = malloc(BSW_ALLOC);
    H4V_ASSUME(r != NULL && buf != NULL);
#ifdef H4V_NATIVE
    memset(buf, 0, BSW_ALLOC);
#endif
    GC.rec = r;
    GC.buf = buf;
    H4V_ND(int32, r_block_offset);
    H4V_ND(int32, r_max_offset);
    H4V_ND(int32, r_byte_offset);
    H4V_ND(int, r_count);
    H4V_ND(int, r_buf_read);
    H4V_ND(uint8, r_access);
    H4V_ND(uint8, r_mode);
    H4V_ND(uint8, r_bits);
    H4V_ND(int32, r_bp);
    H4V_ND(int32, r_bz);
    H4V_ASSUME(r_bp >= 0 && r_bp <= BSW_BUF && r_bz >= 0 && r_bz <= BSW_BUF);
    /* ranges every contract's BR_COMMON demands anyway (stated here so that the harness' own arithmetic is defined) */
    H4V_ASSUME(r_block_offset >= 0 && r_block_offset <= r_byte_offset && r_byte_offset <= r_max_offset && r_max_offset <= BIT_MAXOFF);
    H4V_ASSUME(r_count >= 0 && r_count <= 8 && g_len_0 >= 0 && g_pos_0 >= 0);
    r->acc_id       = GC.aid;
    r->bit_id       = GC.reg_id;
    r->block_offset = r_block_offset;
    r->max_offset   = r_max_offset;
    r->byte_offset  = r_byte_offset;
    r->count        = r_count;
    r->buf_read     = r_buf_read;
    r->access       = r_access;
    r->mode         = r_mode;
    r->bits         = r_bits;
    r->bytea        = buf;
    r->bytep        = buf + r_bp;
    r->bytez        = buf + r_bz;
    /* the buffer bytes a counterexample can depend on, as named inputs: at the pointer, before it, at the ghost byte */
    H4V_ND(uint8, b_at_p);
    H4V_ND(uint8, b_before_p);
    H4V_ND(uint8, b_ghost);
#if BSW_ALLOC < BSW_BUF
    /* bounded stand-in: pointer and ghost byte within the allocated part, one byte of slack for the flush's bytep++ */
    H4V_ASSUME(r_bp < BSW_ALLOC - 1 && (GC.b < r_block_offset || GC.b - r_block_offset < BSW_ALLOC || GC.b - r_block_offset >= BSW_BUF));
#endif
    if (r_bp < BSW_ALLOC)
        buf[r_bp] = b_at_p;
    if (r_bp >= 1 && r_bp - 1 < BSW_ALLOC)
        buf[r_bp - 1] = b_before_p;
    if (GC.b >= r_block_offset && GC.b - r_block_offset < BSW_ALLOC && GC.b - r_block_offset != r_bp &&
        GC.b - r_block_offset != r_bp - 1)
        buf[GC.b - r_block_offset] = b_ghost;
    return r;
}

void
h_bitseek(void)
{
    bitrec_t *r = mk_rec();
    H4V_ND(int32, byte_offset);
    H4V_ND(int, bit_offset);
    int   bad    = SEEK_BADARGS(byte_offset, bit_offset, r->max_offset);
    int   inblk  = !(byte_offset < r->block_offset || byte_offset >= r->block_offset + BSW_BUF);
    int32 target = bad ? 0 : (byte_offset / BSW_BUF) * BSW_BUF;
#if SEEK_DOM == SEEK_DOM_W_INBLOCK
    H4V_ASSUME(r->mode == 'w' && !bad && inblk);
#elif SEEK_DOM == SEEK_DOM_W_FULL
    H4V_ASSUME(r->mode == 'w' && !bad && !inblk && r->max_offset - target >= BSW_BUF);
#elif SEEK_DOM == SEEK_DOM_W_TAIL
    H4V_ASSUME(r->mode == 'w' && !bad && !inblk && r->max_offset - target < BSW_BUF);
#elif SEEK_DOM == SEEK_DOM_R
    H4V_ASSUME(r->mode == 'r' && !bad);
#elif SEEK_DOM == SEEK_DOM_BADARGS_W
    H4V_ASSUME(r->mode == 'w' && bad);
#elif SEEK_DOM == SEEK_DOM_BADARGS_R
    H4V_ASSUME(r->mode == 'r' && bad);
#endif
    int   mode0 = r->mode;
    int   cnt0  = r->count;
    int32 blk0  = r->block_offset;
    GC.bexp     = SEEK_LOGICAL(r);
    int s       = Hbitseek(GC.reg_id, byte_offset, bit_offset);
#if SEEK_DOM != SEEK_DOM_BADARGS_W && SEEK_DOM != SEEK_DOM_BADARGS_R
    H4V_COVER(s == SUCCEED && bit_offset > 0, "seek to an unaligned position");
    H4V_COVER(s == SUCCEED && bit_offset == 0, "seek to an aligned position");
#if SEEK_DOM != SEEK_DOM_W_INBLOCK /* a write-mode seek inside the buffered block does no I/O */
    H4V_COVER(s == FAIL, "seek I/O failure");
#endif
#endif
#if SEEK_DOM == SEEK_DOM_W_INBLOCK
    H4V_COVER(s == SUCCEED && cnt0 < 8 && G.nwrite == 0, "pending bits merged into the buffer, no write-out");
#elif SEEK_DOM == SEEK_DOM_W_FULL || SEEK_DOM == SEEK_DOM_W_TAIL
    H4V_COVER(s == SUCCEED && cnt0 < 8 && G.nwrite == 1 && G.nread == 1, "pending bits flushed, block written, new block read");
#elif SEEK_DOM == SEEK_DOM_R
    H4V_COVER(s == SUCCEED && r->block_offset != blk0, "read mode: another block");
    H4V_COVER(s == SUCCEED && G.nread == 0, "read mode: same block");
#endif
    H4V_CANARY("bitseek end");
}

/* sub-domains of the mode switches */
#ifndef SW_DOM
#define SW_DOM 0
#endif
void
h_write2read(void)
{
    bitrec_t *r = mk_rec();
#if SW_DOM == 1
    H4V_ASSUME(r->block_offset == 0); /* the first block is buffered (elements up to BITBUF_SIZE bytes, or a seek back into it) */
#elif SW_DOM == 2
    H4V_ASSUME(r->block_offset > 0); /* a later block is buffered */
#endif
    int cnt0 = r->count;
    GC.bexp  = W_LOGICAL(r);
    int s    = HIwrite2read(r);
    H4V_COVER(s == SUCCEED && cnt0 < 8, "switch with a partial byte pending");
    H4V_COVER(s == SUCCEED && cnt0 == 8, "switch at a byte boundary");
    H4V_COVER(s == FAIL, "switch I/O failure");
#if SW_DOM == 2
    H4V_COVER(s == SUCCEED && G.nread == 1, "buffer refilled from the element");
#endif
    H4V_CANARY("write2read end");
}

/* sub-domains of HIread2write: the conventions for the read-mode record the code itself establishes */
#define R2W_ALIGNED   1 /* count == 0 (Hbitseek(B,0), or Hbitread ending on a byte boundary) */
#define R2W_AFTERSEEK 2 /* count > 0, byte_offset == byte of the position (state Hbitseek(B,b>0) leaves) */
#define R2W_AFTERREAD 3 /* count > 0, byte_offset one beyond (state Hbitread leaves) */
void
h_read2write(void)
{
    bitrec_t *r = mk_rec();
#if SW_DOM == R2W_ALIGNED
    H4V_ASSUME(r->count == 0);
#elif SW_DOM == R2W_AFTERSEEK
    H4V_ASSUME(r->count > 0 && r->byte_offset == r->block_offset + (int32)(r->bytep - r->bytea) - 1);
#elif SW_DOM == R2W_AFTERREAD
    H4V_ASSUME(r->count > 0 && r->byte_offset == r->block_offset + (int32)(r->bytep - r->bytea));
#endif
    GC.bexp = R_LOGICAL(r);
    int s   = HIread2write(r);
    H4V_CANARY("read2write end");
}


void
h_bitread(void)
{
    bitrec_t *r = mk_rec();
    H4V_ND(int, count);
    uint32 *out = malloc(sizeof(uint32));
    H4V_ASSUME(out != NULL);
    H4V_ASSUME(r->mode == 'r');
    int32 blk0 = r->block_offset;
    g_rpos0    = RPOS(r);
    int n      = Hbitread(GC.reg_id, count, out);
    H4V_COVER(n == count && r->block_offset != blk0, "bitread: buffer refilled");
    H4V_COVER(n == count && r->block_offset == blk0 && count > 8, "bitread: several bytes from the buffer");
    H4V_COVER(G.io_failed, "bitread: I/O failure");
    H4V_CANARY("bitread end");
}
